/-
C06 — exports, copies and derived graphs never alias the graph or each other.

Everything is stated over the label model of `CG.Model.Alias`: two objects can influence each other through
mutation exactly when they share a location label, so "is a snapshot" is label-disjointness (`SepL`).  The
theorems hold for every recipe of the tree with D6–D8 repaired, every heap (any state of the three caches, i.e. any
order of first / later calls), every plan of a derived graph.  `to_dict` (three forms) is shallow by documentation
(D9): its theorem is the partial one, under `FlatMeta`, and the full statement is refuted by `decide`.
-/
import CG.Proofs.Lemmas.Alias

namespace CG.C06
open CG.Alias

/-! ## what a call may do to the source graph -/

/-- a cache is untouched, or was empty and now holds a new opaque cell allocated in `[a, b)` -/
def CacheStep (a b : Nat) (old new : Option Nat) : Prop :=
  new = old ∨ (old = none ∧ ∃ l, new = some l ∧ a ≤ l ∧ l < b)

/-- the metadata containers and the index lists are the same objects; caches are only ever filled -/
structure HeapStep (a b : Nat) (h h' : Heap) : Prop where
  gmeta : h'.gmeta = h.gmeta
  nodeMeta : h'.nodeMeta = h.nodeMeta
  edgeMeta : h'.edgeMeta = h.edgeMeta
  lagLists : h'.lagLists = h.lagLists
  varLists : h'.varLists = h.varLists
  nx : CacheStep a b h.nxCache h'.nxCache
  adj : CacheStep a b h.adjCache h'.adjCache
  vars : CacheStep a b h.varsCache h'.varsCache

theorem CacheStep.rfl' {a b : Nat} {o : Option Nat} : CacheStep a b o o := Or.inl rfl

theorem CacheStep.mono {a b a' b' : Nat} {o o' : Option Nat} (h : CacheStep a b o o') (ha : a' ≤ a) (hb : b ≤ b') :
    CacheStep a' b' o o' := by
  rcases h with h | ⟨h1, l, h2, h3, h4⟩
  · exact Or.inl h
  · exact Or.inr ⟨h1, l, h2, by omega, by omega⟩

theorem CacheStep.trans {a b c : Nat} {o o' o'' : Option Nat} (h1 : CacheStep a b o o') (h2 : CacheStep b c o' o'')
    (hab : a ≤ b) (hbc : b ≤ c) : CacheStep a c o o'' := by
  rcases h1 with h1 | ⟨h1, l, hl, _, _⟩
  · subst h1; exact h2.mono hab (Nat.le_refl _)
  · rcases h2 with h2 | ⟨h2, _⟩
    · subst h2; exact Or.inr ⟨h1, l, hl, by omega, by omega⟩
    · rw [hl] at h2; cases h2

theorem HeapStep.refl (a b : Nat) (h : Heap) : HeapStep a b h h :=
  ⟨rfl, rfl, rfl, rfl, rfl, .rfl', .rfl', .rfl'⟩

theorem HeapStep.trans {a b c : Nat} {h h' h'' : Heap} (s1 : HeapStep a b h h') (s2 : HeapStep b c h' h'')
    (hab : a ≤ b) (hbc : b ≤ c) : HeapStep a c h h'' :=
  ⟨s2.gmeta.trans s1.gmeta, s2.nodeMeta.trans s1.nodeMeta, s2.edgeMeta.trans s1.edgeMeta,
   s2.lagLists.trans s1.lagLists, s2.varLists.trans s1.varLists,
   s1.nx.trans s2.nx hab hbc, s1.adj.trans s2.adj hab hbc, s1.vars.trans s2.vars hab hbc⟩

theorem HeapStep.mono {a b a' b' : Nat} {h h' : Heap} (s : HeapStep a b h h') (ha : a' ≤ a) (hb : b ≤ b') :
    HeapStep a' b' h h' :=
  ⟨s.gmeta, s.nodeMeta, s.edgeMeta, s.lagLists, s.varLists, s.nx.mono ha hb, s.adj.mono ha hb, s.vars.mono ha hb⟩

theorem HeapStep.metaCells {a b : Nat} {h h' : Heap} (s : HeapStep a b h h') : h'.metaCells = h.metaCells := by
  simp [Heap.metaCells, Heap.edgeCells, s.gmeta, s.nodeMeta, s.edgeMeta]

theorem mem_optL_step {a b : Nat} {old new : Option Nat} (s : CacheStep a b old new) {o : Obj}
    (ho : o ∈ optL new) : o ∈ optL old ∨ ∃ l, o = cellOf l ∧ a ≤ l ∧ l < b := by
  rcases s with s | ⟨_, l, hl, h1, h2⟩
  · subst s; exact Or.inl ho
  · subst hl
    simp only [optL, List.mem_singleton] at ho
    exact Or.inr ⟨l, ho, h1, h2⟩

/-- every container of the graph after the call is a container it had before, or a cache cell the call allocated -/
theorem HeapStep.mem_objs {a b : Nat} {h h' : Heap} (s : HeapStep a b h h') {o : Obj} (ho : o ∈ h'.objs) :
    o ∈ h.objs ∨ ∃ l, o = cellOf l ∧ a ≤ l ∧ l < b := by
  simp only [Heap.objs, Heap.cacheCells, s.metaCells, s.lagLists, s.varLists, List.mem_append] at ho ⊢
  rcases ho with ho | (ho | ho | ho) | ho
  · exact Or.inl (Or.inl ho)
  · rcases mem_optL_step s.nx ho with h1 | h1
    · exact Or.inl (Or.inr (Or.inl (Or.inl h1)))
    · exact Or.inr h1
  · rcases mem_optL_step s.adj ho with h1 | h1
    · exact Or.inl (Or.inr (Or.inl (Or.inr (Or.inl h1))))
    · exact Or.inr h1
  · rcases mem_optL_step s.vars ho with h1 | h1
    · exact Or.inl (Or.inr (Or.inl (Or.inr (Or.inr h1))))
    · exact Or.inr h1
  · exact Or.inl (Or.inr (Or.inr ho))

theorem below_cellOf {l b : Nat} (h : l < b) : Below b (cellOf l) := by
  intro x hx; simp [cellOf, labels, labelsL] at hx; omega

theorem HeapStep.belowL {a b : Nat} {h h' : Heap} (s : HeapStep a b h h') (hab : a ≤ b)
    (hb : BelowL a h.objs) : BelowL b h'.objs := by
  rw [belowL_iff] at hb ⊢
  intro o ho
  rcases s.mem_objs ho with h1 | ⟨l, rfl, _, h2⟩
  · intro x hx; have := hb o h1 x hx; omega
  · exact below_cellOf h2

/-! ## the specification every call of the repaired tree meets -/

/-- the call allocates inside `[n, next)`: first (in `[n, m)`) the cache cells it fills, then (in `[m, next)`)
    everything it hands out; it does nothing else to the graph -/
def Spec (h : Heap) (n : Nat) (r : Res) : Prop :=
  ∃ m, n ≤ m ∧ m ≤ r.next ∧ HeapStep n m h r.heap ∧ WindowL m r.next r.out.all

theorem fillNx_step (h : Heap) (n : Nat) : n ≤ (fillNx h n).2 ∧ HeapStep n (fillNx h n).2 h (fillNx h n).1 := by
  unfold fillNx
  split
  · exact ⟨Nat.le_refl _, HeapStep.refl _ _ _⟩
  · next hc =>
    exact ⟨Nat.le_succ _, rfl, rfl, rfl, rfl, rfl, Or.inr ⟨hc, n, rfl, Nat.le_refl _, Nat.lt_succ_self _⟩,
      .rfl', .rfl'⟩

theorem fillVars_step (h : Heap) (n : Nat) :
    n ≤ (fillVars h n).2 ∧ HeapStep n (fillVars h n).2 h (fillVars h n).1 := by
  unfold fillVars
  split
  · exact ⟨Nat.le_refl _, HeapStep.refl _ _ _⟩
  · next hc =>
    exact ⟨Nat.le_succ _, rfl, rfl, rfl, rfl, rfl, .rfl', .rfl',
      Or.inr ⟨hc, n, rfl, Nat.le_refl _, Nat.lt_succ_self _⟩⟩

theorem window_deep_cell (c n : Nat) : n ≤ (deep (cellOf c) n).2 ∧ Window n (deep (cellOf c) n).2 (deep (cellOf c) n).1 :=
  deep_fresh _ n

theorem runNx_spec (h : Heap) (n : Nat) : Spec h n (runNx .repaired h n) := by
  unfold runNx
  split
  · next c _ =>
    exact ⟨n, Nat.le_refl _, (window_deep_cell c n).1, HeapStep.refl _ _ _,
      windowL_single.mpr (window_deep_cell c n).2⟩
  · next hc =>
    refine ⟨n + 1, Nat.le_succ _, (window_deep_cell n (n + 1)).1, ?_, windowL_single.mpr (window_deep_cell n (n + 1)).2⟩
    exact ⟨rfl, rfl, rfl, rfl, rfl, Or.inr ⟨hc, n, rfl, Nat.le_refl _, Nat.lt_succ_self _⟩, .rfl', .rfl'⟩

theorem runAdj_spec (h : Heap) (n : Nat) :
    ∃ m, n ≤ m ∧ m ≤ (runAdj .repaired h n).2.2 ∧ HeapStep n m h (runAdj .repaired h n).2.1 ∧
      Window m (runAdj .repaired h n).2.2 (runAdj .repaired h n).1 := by
  unfold runAdj
  split
  · next c _ =>
    exact ⟨n, Nat.le_refl _, (window_deep_cell c n).1, HeapStep.refl _ _ _, (window_deep_cell c n).2⟩
  · next hc =>
    refine ⟨n + 1, Nat.le_succ _, (window_deep_cell n (n + 1)).1, ?_, (window_deep_cell n (n + 1)).2⟩
    exact ⟨rfl, rfl, rfl, rfl, rfl, .rfl', Or.inr ⟨hc, n, rfl, Nat.le_refl _, Nat.lt_succ_self _⟩, .rfl'⟩

theorem runTpl_spec (h : Heap) (t : Tpl) (n : Nat) (ht : Tpl.All (CellFresh h) t) : Spec h n (runTpl h t n) := by
  have hb := build_spec h t n ht
  exact ⟨n, Nat.le_refl _, hb.1, HeapStep.refl _ _ _, windowL_single.mpr hb.2.1⟩

theorem window_shallow_cell (l n : Nat) :
    n ≤ (shallow (cellOf l) n).2 ∧ Window n (shallow (cellOf l) n).2 (shallow (cellOf l) n).1 := by
  refine ⟨by simp [cellOf, shallow, fresh], ?_⟩
  intro x hx
  simp [cellOf, shallow, fresh, labels, labelsL] at hx ⊢
  omega

theorem runIndex_spec (ls : List Nat) (k : Nat) (h : Heap) (n : Nat) : Spec h n (runIndex .repaired ls k h n) := by
  unfold runIndex
  split
  · next l _ =>
    exact ⟨n, Nat.le_refl _, (window_shallow_cell l n).1, HeapStep.refl _ _ _,
      windowL_single.mpr (window_shallow_cell l n).2⟩
  · exact ⟨n, Nat.le_refl _, Nat.le_succ _, HeapStep.refl _ _ _, windowL_single.mpr (window_emptyBox n)⟩

/-- a recipe is covered on a heap: it is not one of the `to_dict` forms, or the metadata is flat -/
def Covered (r : Recipe) (h : Heap) : Prop := r.dictLike = false ∨ FlatMeta h

theorem run_spec (cls : Cls) (r : Recipe) (h : Heap) (n : Nat) (hc : Covered r h) :
    Spec h n (run cls .repaired r h n) := by
  have flat : r.dictLike = true → ∀ s, CellFresh h ⟨s, toDictCopy⟩ := by
    intro hd s
    rcases hc with hc | hc
    · rw [hd] at hc; cases hc
    · exact cellFresh_toDictCopy h hc s
  cases r with
  | toNetworkx => exact runNx_spec h n
  | adjacencyMatrix =>
    obtain ⟨m, h1, h2, h3, h4⟩ := runAdj_spec h n
    exact ⟨m, h1, h2, h3, windowL_single.mpr h4⟩
  | toNumpy =>
    obtain ⟨m, h1, h2, h3, h4⟩ := runAdj_spec h n
    refine ⟨m, h1, Nat.le_succ_of_le h2, h3, ?_⟩
    simp only [run]
    rw [windowL_cons, windowL_single]
    exact ⟨h4.mono (Nat.le_refl _) (Nat.le_succ _), (window_emptyBox _).mono h2 (Nat.le_refl _)⟩
  | toDict b => exact runTpl_spec h _ n (all_toDictTpl _ h b (flat rfl))
  | nodeToDict i => exact runTpl_spec h _ n (all_nodeDictTpl _ true i (flat rfl))
  | edgeToDict i =>
    simp only [run]
    split
    · exact runTpl_spec h _ n (all_edgeDictTpl _ true _ _ _ (flat rfl))
    · exact runTpl_spec h _ n (by simp [Tpl.All, Tpl.AllL])
  | listing => exact ⟨n, Nat.le_refl _, Nat.le_succ _, HeapStep.refl _ _ _, windowL_single.mpr (window_emptyBox n)⟩
  | variables =>
    have hf := fillVars_step h n
    simp only [run]
    split
    · next c _ =>
      exact ⟨(fillVars h n).2, hf.1, (window_shallow_cell c _).1, hf.2, windowL_single.mpr (window_shallow_cell c _).2⟩
    · exact ⟨(fillVars h n).2, hf.1, Nat.le_succ _, hf.2, windowL_single.mpr (window_emptyBox _)⟩
  | nodesAtLag k => exact runIndex_spec _ k h n
  | nodesForVariable k => exact runIndex_spec _ k h n
  | adjacencyMatrices =>
    have hf := fillVars_step h n
    refine ⟨(fillVars h n).2, hf.1, by simp only [run]; omega, hf.2, ?_⟩
    simp only [run, Out.ofObj]
    rw [windowL_single]
    intro x hx
    simp [labels, labelsL] at hx
    omega
  | derived d plans =>
    simp only [run]
    -- the two optional cache fills, then the derivation on the (meta-wise unchanged) source
    have s1 : n ≤ (if d.fillsNx then fillNx h n else (h, n)).2 ∧
        HeapStep n (if d.fillsNx then fillNx h n else (h, n)).2 h (if d.fillsNx then fillNx h n else (h, n)).1 := by
      split
      · exact fillNx_step h n
      · exact ⟨Nat.le_refl _, HeapStep.refl _ _ _⟩
    generalize (if d.fillsNx then fillNx h n else (h, n)) = f1 at s1 ⊢
    have s2 : f1.2 ≤ (if d.fillsVars then fillVars f1.1 f1.2 else f1).2 ∧
        HeapStep f1.2 (if d.fillsVars then fillVars f1.1 f1.2 else f1).2 f1.1
          (if d.fillsVars then fillVars f1.1 f1.2 else f1).1 := by
      split
      · exact fillVars_step _ _
      · exact ⟨Nat.le_refl _, HeapStep.refl _ _ _⟩
    generalize (if d.fillsVars then fillVars f1.1 f1.2 else f1) = f2 at s2 ⊢
    have hd := runDerived_spec cls d plans f2.1 f2.2
    exact ⟨f2.2, by omega, hd.1, s1.2.trans s2.2 s1.1 s2.1, hd.2.1.win⟩

/-! ## the property theorems -/

/-- **export_fresh.**  Every location reachable from what a call hands out was allocated by that call. -/
theorem export_fresh (cls : Cls) (r : Recipe) (h : Heap) (n : Nat) (hr : r.dictLike = false) :
    n ≤ (run cls .repaired r h n).next ∧
    ∀ l ∈ (run cls .repaired r h n).out.labels, n ≤ l ∧ l < (run cls .repaired r h n).next := by
  obtain ⟨m, h1, h2, _, h4⟩ := run_spec cls r h n (Or.inl hr)
  exact ⟨by omega, fun l hl => by have := h4 l hl; omega⟩

/-- **heap_below.**  After the call the graph's locations are below the new counter, and the only locations the
    graph gained are cache cells that were empty before (one opaque cell each). -/
theorem heap_below (cls : Cls) (r : Recipe) (h : Heap) (n : Nat) (hr : r.dictLike = false)
    (hb : BelowL n h.objs) :
    BelowL (run cls .repaired r h n).next (run cls .repaired r h n).heap.objs ∧
    ∀ o ∈ (run cls .repaired r h n).heap.objs, o ∈ h.objs ∨
      ∃ l, o = cellOf l ∧ n ≤ l ∧ l < (run cls .repaired r h n).next ∧ l ∉ (run cls .repaired r h n).out.labels := by
  obtain ⟨m, h1, h2, h3, h4⟩ := run_spec cls r h n (Or.inl hr)
  refine ⟨(h3.belowL h1 hb).mono h2, ?_⟩
  intro o ho
  rcases h3.mem_objs ho with h5 | ⟨l, h5, h6, h7⟩
  · exact Or.inl h5
  · exact Or.inr ⟨l, h5, h6, by omega, fun hl => by have := h4 l hl; omega⟩

/-- **export_separated.**  What the call hands out shares no location with the graph as it is after the call
    (caches included), nor with anything that existed before the call – in particular every export still held.
    `h` is arbitrary: each cache may be filled or empty, i.e. the call may be a first or a later one. -/
theorem export_separated (cls : Cls) (r : Recipe) (h : Heap) (n : Nat) (hr : r.dictLike = false)
    (hb : BelowL n h.objs) :
    SepL (run cls .repaired r h n).out.all (run cls .repaired r h n).heap.objs ∧
    ∀ held : List Obj, BelowL n held → SepL (run cls .repaired r h n).out.all held := by
  obtain ⟨m, h1, h2, h3, h4⟩ := run_spec cls r h n (Or.inl hr)
  exact ⟨sepL_of_window_below h4 (h3.belowL h1 hb) (Nat.le_refl _),
    fun held hh => sepL_of_window_below h4 hh h1⟩

/-- **derived_internal_separated.**  In a derived graph (copy, sub-graphs, minimal, extended, stationary, summary,
    class conversion, `from_dict`) the metadata containers of the graph, of distinct nodes and of distinct edges are
    pairwise separated – for every plan, i.e. whatever the structural algorithm decides to build. -/
theorem derived_internal_separated (cls : Cls) (d : Derived) (plans : List Plan) (h : Heap) (n : Nat) :
    (run cls .repaired (.derived d plans) h n).out.cells.Pairwise Separated := by
  simp only [run, Out.ofHeap]
  exact (runDerived_spec cls d plans _ _).2.2

/-- **source_unchanged.**  Producing an export or a derived graph leaves every metadata container and index list of
    the source graph the very same object; a cache is left as it was or, if it was empty, filled. -/
theorem source_unchanged (cls : Cls) (r : Recipe) (h : Heap) (n : Nat) :
    let h' := (run cls .repaired r h n).heap
    h'.gmeta = h.gmeta ∧ h'.nodeMeta = h.nodeMeta ∧ h'.edgeMeta = h.edgeMeta ∧
    h'.lagLists = h.lagLists ∧ h'.varLists = h.varLists ∧
    (h'.nxCache = h.nxCache ∨ h.nxCache = none) ∧ (h'.adjCache = h.adjCache ∨ h.adjCache = none) ∧
    (h'.varsCache = h.varsCache ∨ h.varsCache = none) := by
  intro h'
  have key : ∃ a b, HeapStep a b h h' := by
    by_cases hd : r.dictLike = true
    · refine ⟨n, n, ?_⟩
      have : h' = h := by
        show (run cls .repaired r h n).heap = h
        cases r <;> simp [Recipe.dictLike] at hd <;> simp only [run, runTpl]
        split <;> rfl
      rw [this]; exact HeapStep.refl _ _ _
    · obtain ⟨m, _, _, h3, _⟩ := run_spec cls r h n (Or.inl (by simpa using hd))
      exact ⟨n, m, h3⟩
  obtain ⟨a, b, s⟩ := key
  refine ⟨s.gmeta, s.nodeMeta, s.edgeMeta, s.lagLists, s.varLists, ?_, ?_, ?_⟩
  · rcases s.nx with h1 | ⟨h1, _⟩
    · exact Or.inl h1
    · exact Or.inr h1
  · rcases s.adj with h1 | ⟨h1, _⟩
    · exact Or.inl h1
    · exact Or.inr h1
  · rcases s.vars with h1 | ⟨h1, _⟩
    · exact Or.inl h1
    · exact Or.inr h1

/-! ## any order of calls -/

inductive Step where
  /-- call an exporting / deriving API and keep what it returns -/
  | call (r : Recipe)
  /-- any mutator: `_reset_cached_attributes` -/
  | touch

structure State where
  /-- the exports still held, latest first -/
  outs : List Out
  heap : Heap
  next : Nat

def step (cls : Cls) (s : State) : Step → State
  | .call r =>
    let res := run cls .repaired r s.heap s.next
    ⟨res.out :: s.outs, res.heap, res.next⟩
  | .touch => ⟨s.outs, s.heap.cold, s.next⟩

def runSteps (cls : Cls) : List Step → State → State
  | [], s => s
  | x :: xs, s => runSteps cls xs (step cls s x)

/-- the invariant of a history: the graph and the held exports are below the counter, every held export is
    separated from the graph and from every other held export, the metadata of the graph is untouched -/
structure Good (h0 : Heap) (s : State) : Prop where
  heapBelow : BelowL s.next s.heap.objs
  outBelow : ∀ o ∈ s.outs, BelowL s.next o.all
  outHeap : ∀ o ∈ s.outs, SepL o.all s.heap.objs
  outOut : s.outs.Pairwise (fun a b => SepL a.all b.all)
  metaSame : s.heap.metaCells = h0.metaCells

theorem cold_objs_subset (h : Heap) : ∀ o ∈ h.cold.objs, o ∈ h.objs := by
  intro o ho
  simp only [Heap.objs, Heap.cold, Heap.metaCells, Heap.edgeCells, Heap.cacheCells, optL, List.mem_append,
    List.mem_cons, List.append_nil, List.not_mem_nil, false_or] at ho ⊢
  rcases ho with ho | ho
  · exact Or.inl ho
  · exact Or.inr (Or.inr ho)

theorem sepL_of_subset {xs ys zs : List Obj} (h : SepL xs ys) (hs : ∀ o ∈ zs, o ∈ ys) : SepL xs zs := by
  intro l hl hl'
  obtain ⟨o, ho, hlo⟩ := mem_labelsL.mp hl'
  exact h l hl (mem_labelsL.mpr ⟨o, hs o ho, hlo⟩)

theorem belowL_of_subset {n : Nat} {ys zs : List Obj} (h : BelowL n ys) (hs : ∀ o ∈ zs, o ∈ ys) : BelowL n zs := by
  intro l hl
  obtain ⟨o, ho, hlo⟩ := mem_labelsL.mp hl
  exact h l (mem_labelsL.mpr ⟨o, hs o ho, hlo⟩)

theorem flatMeta_of_metaCells {h h0 : Heap} (e : h.metaCells = h0.metaCells) (hf : FlatMeta h0) : FlatMeta h := by
  unfold FlatMeta; rw [e]; exact hf

theorem good_step (cls : Cls) (h0 : Heap) (s : State) (x : Step) (hg : Good h0 s)
    (hc : ∀ r, x = .call r → Covered r h0) : Good h0 (step cls s x) := by
  cases x with
  | touch =>
    exact ⟨belowL_of_subset hg.heapBelow (cold_objs_subset _), hg.outBelow,
      fun o ho => sepL_of_subset (hg.outHeap o ho) (cold_objs_subset _), hg.outOut,
      by
        show s.heap.cold.metaCells = h0.metaCells
        simpa [Heap.metaCells, Heap.edgeCells, Heap.cold] using hg.metaSame⟩
  | call r =>
    have hcov : Covered r s.heap := by
      rcases hc r rfl with h1 | h1
      · exact Or.inl h1
      · exact Or.inr (flatMeta_of_metaCells hg.metaSame h1)
    obtain ⟨m, h1, h2, h3, h4⟩ := run_spec cls r s.heap s.next hcov
    have hb' := h3.belowL h1 hg.heapBelow
    show Good h0 ⟨(run cls .repaired r s.heap s.next).out :: s.outs, (run cls .repaired r s.heap s.next).heap,
      (run cls .repaired r s.heap s.next).next⟩
    refine ⟨hb'.mono h2, ?_, ?_, ?_, ?_⟩
    · intro o ho
      rcases List.mem_cons.mp ho with ho | ho
      · subst ho; exact h4.belowL
      · exact (hg.outBelow o ho).mono (Nat.le_trans h1 h2)
    · intro o ho
      rcases List.mem_cons.mp ho with ho | ho
      · subst ho; exact sepL_of_window_below h4 hb' (Nat.le_refl _)
      · -- an older export against the graph after the call: old containers by the invariant, new cache cells by age
        intro l hl hl'
        obtain ⟨c, hc1, hc2⟩ := mem_labelsL.mp hl'
        rcases h3.mem_objs hc1 with h5 | ⟨k, rfl, h6, _⟩
        · exact hg.outHeap o ho l hl (mem_labelsL.mpr ⟨c, h5, hc2⟩)
        · have := hg.outBelow o ho l hl
          simp [cellOf, labels, labelsL] at hc2
          omega
    · show List.Pairwise _ (_ :: s.outs)
      rw [List.pairwise_cons]
      exact ⟨fun o ho => sepL_of_window_below h4 (hg.outBelow o ho) h1, hg.outOut⟩
    · exact h3.metaCells.trans hg.metaSame

/-- **exports_any_order.**  Start from any graph (any cache state); interleave, in any order and any number of
    times, calls of any exporting / deriving APIs (keeping every result) and mutator-style cache resets.  At the
    end every held export is separated from the graph and from every other held export, and the graph's metadata
    containers are the ones it started with.  The `to_dict` forms may take part when the metadata is flat. -/
theorem exports_any_order (cls : Cls) (h0 : Heap) (n0 : Nat) (hb : BelowL n0 h0.objs) (steps : List Step)
    (hc : ∀ r, Step.call r ∈ steps → Covered r h0) :
    Good h0 (runSteps cls steps ⟨[], h0, n0⟩) := by
  have gen : ∀ (steps : List Step) (s : State), Good h0 s → (∀ r, Step.call r ∈ steps → Covered r h0) →
      Good h0 (runSteps cls steps s) := by
    intro steps
    induction steps with
    | nil => intro s hg _; exact hg
    | cons x xs ih =>
      intro s hg hc
      exact ih _ (good_step cls h0 s x hg (fun r hr => hc r (by simp [hr])))
        (fun r hr => hc r (List.mem_cons_of_mem _ hr))
  exact gen steps _ ⟨hb, by simp, by simp, List.Pairwise.nil, rfl⟩ hc

/-! ## mutators that take or move a metadata container -/

theorem Separated.symm {x y : Obj} (h : Separated x y) : Separated y x := fun l hl hl' => h l hl' hl

theorem apply_labels (m : Mode) (o : Obj) (n : Nat) :
    ∀ l ∈ labels (m.apply o n).1, (n ≤ l ∧ l < (m.apply o n).2) ∨ l ∈ labels o := by
  intro l hl
  cases m with
  | ref => exact Or.inr (by simpa [Mode.apply, ref, pure_run] using hl)
  | deep => exact Or.inl ((deep_fresh o n).2 l hl)
  | shallow =>
    cases o with
    | atom => simp [Mode.apply, shallow, pure_run, labels] at hl
    | box l0 kids =>
      simp only [Mode.apply, shallow, fresh, labels] at hl ⊢
      rcases List.mem_cons.mp hl with h | h
      · subst h; exact Or.inl ⟨Nat.le_refl _, Nat.lt_succ_self _⟩
      · exact Or.inr (List.mem_cons_of_mem _ h)

/-- whatever the chain of hand-overs, a location of the result is new or a location of the input -/
theorem chain_labels : ∀ (ms : List Mode) (o : Obj) (n : Nat),
    ∀ l ∈ labels (chain ms o n).1, (n ≤ l ∧ l < (chain ms o n).2) ∨ l ∈ labels o
  | [], o, n => by intro l hl; exact Or.inr (by simpa [chain, pure_run] using hl)
  | m :: ms, o, n => by
    intro l hl
    simp only [chain] at hl ⊢
    have h1 := apply_mono m o n
    have h2 := chain_mono ms (m.apply o n).1 (m.apply o n).2
    rcases chain_labels ms _ _ l hl with h | h
    · exact Or.inl ⟨by omega, h.2⟩
    · rcases apply_labels m o n l h with h' | h'
      · exact Or.inl ⟨h'.1, by omega⟩
      · exact Or.inr h'

theorem getElem?_split {α : Type} : ∀ (l : List α) (i : Nat) (a : α), l[i]? = some a →
    ∃ pre post, l = pre ++ a :: post ∧ ∀ x, l.set i x = pre ++ x :: post
  | [], i, a, h => by simp at h
  | b :: l, 0, a, h => by
    simp only [List.getElem?_cons_zero, Option.some.injEq] at h
    subst h
    exact ⟨[], l, rfl, fun x => rfl⟩
  | b :: l, i + 1, a, h => by
    simp only [List.getElem?_cons_succ] at h
    obtain ⟨pre, post, h1, h2⟩ := getElem?_split l i a h
    exact ⟨b :: pre, post, by simp [h1], fun x => by simp [List.set_cons_succ, h2 x]⟩

/-- a new cell built from `src` by any chain keeps away from whatever `src` keeps away from (and is old) -/
theorem sep_of_chain {ms : List Mode} {src y : Obj} {n : Nat} (hy : Below n y) (hs : Separated src y) :
    Separated (chain ms src n).1 y := by
  intro l hl hl'
  rcases chain_labels ms src n l hl with h | h
  · have := hy l hl'; omega
  · exact hs l h hl'

theorem pairwise_replace {old x : Obj} {rest : List Obj} (h : (old :: rest).Pairwise Separated)
    (hx : ∀ y ∈ rest, Separated old y → Separated x y) : (x :: rest).Pairwise Separated := by
  rw [List.pairwise_cons] at h ⊢
  exact ⟨fun y hy => hx y hy (h.1 y hy), h.2⟩

/-- **mutators_keep_cells_separated.**  If the metadata containers of the graph are pairwise separated and the
    caller passes a container of their own (separated from the graph), then after `add_edge(meta=m)`,
    `add_node(meta=m)`, `replace_node` (renaming, with or without new metadata, or in place) and `change_edge_type`
    they still are – although `replace_node` and `change_edge_type` hand the old object's container (or its
    children) to the replacement, the old object is gone when the call returns. -/
theorem mutators_keep_cells_separated (cls : Cls) (m : Obj) (μ : Mutator) (h : Heap) (n : Nat)
    (hsep : h.metaCells.Pairwise Separated) (hb : BelowL n h.metaCells) (hm : ∀ c ∈ h.metaCells, Separated m c) :
    (mutate cls m μ h n).heap.metaCells.Pairwise Separated := by
  have hbel : ∀ y ∈ h.metaCells, Below n y := belowL_iff.mp hb
  -- replacing the cell in slot `i` by a cell chained from `src`, where `src` is the old cell or `m`
  have setCase : ∀ (i : Nat) (old src : Obj) (ms : List Mode), h.nodeMeta[i]? = some old → (src = old ∨ src = m) →
      ({ h.cold with nodeMeta := h.nodeMeta.set i (chain ms src n).1 } : Heap).metaCells.Pairwise Separated := by
    intro i old src ms hi hsrc
    obtain ⟨pre, post, e1, e2⟩ := getElem?_split _ _ _ hi
    have hperm : h.metaCells.Perm (old :: ((h.gmeta :: pre) ++ (post ++ h.edgeCells))) := by
      have : h.metaCells = (h.gmeta :: pre) ++ old :: (post ++ h.edgeCells) := by
        simp [Heap.metaCells, e1]
      rw [this]; exact List.perm_middle
    have hperm' : ({ h.cold with nodeMeta := h.nodeMeta.set i (chain ms src n).1 } : Heap).metaCells.Perm
        ((chain ms src n).1 :: ((h.gmeta :: pre) ++ (post ++ h.edgeCells))) := by
      have : ({ h.cold with nodeMeta := h.nodeMeta.set i (chain ms src n).1 } : Heap).metaCells
          = (h.gmeta :: pre) ++ (chain ms src n).1 :: (post ++ h.edgeCells) := by
        simp [Heap.metaCells, Heap.edgeCells, Heap.cold, e2]
      rw [this]; exact List.perm_middle
    have h1 := (List.Perm.pairwise_iff (fun hxy => Separated.symm hxy) hperm).mp hsep
    refine (List.Perm.pairwise_iff (fun hxy => Separated.symm hxy) hperm').mpr (pairwise_replace h1 ?_)
    intro y hy hoy
    have hymem : y ∈ h.metaCells := hperm.mem_iff.mpr (List.mem_cons_of_mem _ hy)
    rcases hsrc with rfl | rfl
    · exact sep_of_chain (hbel y hymem) hoy
    · exact sep_of_chain (hbel y hymem) (hm y hymem)
  cases μ with
  | addEdgeMeta s d =>
    have : ({ h.cold with edgeMeta := h.edgeMeta ++ [(s, d, m)] } : Heap).metaCells = h.metaCells ++ [m] := by
      simp [Heap.metaCells, Heap.edgeCells, Heap.cold]
    show List.Pairwise _ ({ h.cold with edgeMeta := h.edgeMeta ++ [(s, d, m)] } : Heap).metaCells
    rw [this, List.pairwise_append]
    exact ⟨hsep, List.pairwise_singleton _ _, fun a ha b hb' => by
      rw [List.mem_singleton] at hb'; subst hb'; exact Separated.symm (hm a ha)⟩
  | addNodeMeta =>
    show List.Pairwise _ ({ h.cold with nodeMeta := h.nodeMeta ++ [(chain (addNodeWithMeta cls) m n).1] } : Heap).metaCells
    have e : ({ h.cold with nodeMeta := h.nodeMeta ++ [(chain (addNodeWithMeta cls) m n).1] } : Heap).metaCells
        = (h.gmeta :: h.nodeMeta) ++ (chain (addNodeWithMeta cls) m n).1 :: h.edgeCells := by
      simp [Heap.metaCells, Heap.edgeCells, Heap.cold]
    rw [e, List.Perm.pairwise_iff (fun hxy => Separated.symm hxy) List.perm_middle, List.pairwise_cons]
    refine ⟨fun y hy => sep_of_chain (hbel y ?_) (hm y ?_), by simpa [Heap.metaCells] using hsep⟩ <;>
      simpa [Heap.metaCells] using hy
  | replaceNodeRename i withMeta =>
    simp only [mutate]
    split
    · exact hsep
    · next old hi =>
      exact setCase i old _ _ hi (by cases withMeta <;> simp)
  | replaceNodeInPlace i =>
    simp only [mutate]
    split
    · exact hsep
    · next old hi => exact setCase i old m _ hi (Or.inr rfl)
  | changeEdgeType i =>
    simp only [mutate]
    split
    · exact hsep
    · simpa [Heap.metaCells, Heap.edgeCells, Heap.cold] using hsep

/-! ## `to_dict` (D9) -/

/-- the full statement for `to_dict`: what it returns shares nothing with the graph -/
def to_dict_separated_statement : Prop :=
  ∀ (cls : Cls) (b : Bool) (h : Heap) (n : Nat), BelowL n h.objs →
    SepL (run cls .repaired (.toDict b) h n).out.all (run cls .repaired (.toDict b) h n).heap.objs

/-- **to_dict_separated_partial.**  For the three `to_dict` forms, on a graph whose metadata containers hold no
    container: the result is wholly new, separated from the graph and from everything older, and the metadata
    copies inside it are pairwise separated.  What is missing for the full statement: nested containers (D9). -/
theorem to_dict_separated_partial (cls : Cls) (r : Recipe) (hr : r.dictLike = true) (h : Heap) (n : Nat)
    (hf : FlatMeta h) (hb : BelowL n h.objs) :
    (∀ l ∈ (run cls .repaired r h n).out.labels, n ≤ l ∧ l < (run cls .repaired r h n).next) ∧
    SepL (run cls .repaired r h n).out.all (run cls .repaired r h n).heap.objs ∧
    (∀ held : List Obj, BelowL n held → SepL (run cls .repaired r h n).out.all held) ∧
    (run cls .repaired r h n).out.cells.Pairwise Separated := by
  obtain ⟨m, h1, h2, h3, h4⟩ := run_spec cls r h n (Or.inr hf)
  refine ⟨fun l hl => by have := h4 l hl; omega, sepL_of_window_below h4 (h3.belowL h1 hb) (Nat.le_refl _),
    fun held hh => sepL_of_window_below h4 hh h1, ?_⟩
  have cf : ∀ s, CellFresh h ⟨s, toDictCopy⟩ := cellFresh_toDictCopy h hf
  cases r <;> simp [Recipe.dictLike] at hr
  · exact (build_spec h _ n (all_toDictTpl _ h _ cf)).2.2.sep
  · exact (build_spec h _ n (all_nodeDictTpl _ true _ cf)).2.2.sep
  · simp only [run]
    split
    · exact (build_spec h _ n (all_edgeDictTpl _ true _ _ _ cf)).2.2.sep
    · exact (build_spec h _ n (by simp [Tpl.All, Tpl.AllL])).2.2.sep

/-- the witness: graph metadata `{'k': []}` at locations 0 and 1 -/
def d9Heap : Heap := { gmeta := .box 0 [.box 1 []], nodeMeta := [], edgeMeta := [] }

/-- `to_dict()` on the witness hands out location 1, which the graph still holds -/
theorem d9_shared : 1 ∈ (run .plain .repaired (.toDict true) d9Heap 2).out.labels ∧
    1 ∈ (run .plain .repaired (.toDict true) d9Heap 2).heap.labels := by decide

/-- the full statement is false (D9) -/
theorem to_dict_counterexample : ¬ to_dict_separated_statement := by
  intro hs
  have hb : BelowL 2 d9Heap.objs := by
    intro l hl
    have : l ∈ [0, 1] := by simpa [d9Heap, Heap.objs, Heap.metaCells, Heap.edgeCells, Heap.cacheCells, optL,
      labelsL, labels] using hl
    simp at this; omega
  exact hs .plain true d9Heap 2 hb 1 d9_shared.1 d9_shared.2

/-! ## non-vacuity, and the three repaired defects on the unrepaired recipes -/

/-- a time-series graph with nested metadata everywhere: 3 nodes, 2 edges, caches empty, allocator at 33 -/
def sample : Heap × Nat := mkHeap true [true, true, true] [(0, 1, true), (1, 2, true)] 0

example : BelowL sample.2 sample.1.objs := by decide

/-- the sample has nested metadata, so the theorems above are not about flat graphs only -/
example : ¬ FlatMeta sample.1 := by decide

/-- `export_separated` at work: first `to_networkx()` of the repaired tree on the sample -/
example : sharing (runTwice .ts .repaired .toNetworkx .first sample.1 sample.2) = ⟨false, false, false, false, false⟩ := by
  decide

/-- D6: the unrepaired first `to_networkx()` hands out the cache itself; later calls do not -/
example : sharing (runTwice .ts .legacy .toNetworkx .first sample.1 sample.2) = ⟨true, false, false, false, false⟩ := by
  decide
example : sharing (runTwice .ts .legacy .toNetworkx .later sample.1 sample.2) = ⟨false, false, false, false, false⟩ := by
  decide
example : sharing (runTwice .ts .legacy .adjacencyMatrix .first sample.1 sample.2) = ⟨true, false, false, false, false⟩ := by
  decide

/-- plans for `extend_graph`: the minimal graph keeps two nodes and one edge; the extended graph carries them over
    (kind 0) and adds two lagged nodes and two lagged copies (kind 1) of that one edge -/
def extendPlans : List Plan :=
  [{ nodes := [⟨0, 0⟩, ⟨0, 1⟩], edges := [⟨0, 0, 0, 1⟩] },
   { nodes := [⟨0, 0⟩, ⟨0, 1⟩, ⟨1, 0⟩, ⟨1, 1⟩], edges := [⟨0, 0, 0, 1⟩, ⟨1, 0, 2, 3⟩, ⟨1, 0, 2, 1⟩] }]

/-- D7: the unrepaired `extend_graph` shares one edge-metadata container between lagged copies; repaired: none -/
example : sharing (runTwice .ts .legacy (.derived .extend extendPlans) .first sample.1 sample.2)
    = ⟨false, false, false, true, true⟩ := by
  decide +kernel
example : sharing (runTwice .ts .repaired (.derived .extend extendPlans) .first sample.1 sample.2)
    = ⟨false, false, false, false, false⟩ := by
  decide +kernel

/-- D8: the unrepaired `get_nodes_at_lag` returns the index list itself -/
example : sharing (runTwice .ts .legacy (.nodesAtLag 0) .first sample.1 sample.2) = ⟨true, true, true, false, false⟩ := by
  decide
example : sharing (runTwice .ts .repaired (.nodesAtLag 0) .first sample.1 sample.2)
    = ⟨false, false, false, false, false⟩ := by
  decide

/-- D9 on the sample: everything shares -/
example : sharing (runTwice .ts .repaired (.toDict true) .first sample.1 sample.2) = ⟨true, true, true, true, true⟩ := by
  decide

/-- `to_dict(include_meta=False)` still hands out (shallow copies of) node metadata inside the edge entries -/
example : (sharing (runTwice .ts .repaired (.toDict false) .first sample.1 sample.2)).ge1 = true := by
  decide

/-- the hypotheses of `mutators_keep_cells_separated` hold for the sample and a caller's nested dictionary -/
example : sample.1.metaCells.Pairwise Separated ∧ BelowL sample.2 sample.1.metaCells ∧
    ∀ c ∈ sample.1.metaCells, Separated (mkMeta true sample.2).1 c := by
  decide

/-- `replace_node` (renaming): the new node shares the nested containers of the removed node's metadata, the
    re-added edges hold the removed edges' dictionaries – but no two cells of the graph share -/
example : mutSharing (mkMeta false sample.2).1
    (mutate .plain (mkMeta false sample.2).1 (.replaceNodeRename 1 false) sample.1 (mkMeta false sample.2).2)
    = ⟨false, false, true⟩ := by decide

/-- `add_edge(meta=m)` stores the caller's dictionary itself -/
example : mutSharing (mkMeta false sample.2).1
    (mutate .plain (mkMeta false sample.2).1 (.addEdgeMeta 0 2) sample.1 (mkMeta false sample.2).2)
    = ⟨false, true, false⟩ := by decide

/-- `exports_any_order` has instances: a history with first and later calls and a reset in between -/
example : Good sample.1 (runSteps .ts
    [.call .toNetworkx, .call .toNetworkx, .call (.derived .extend extendPlans), .touch,
     .call .adjacencyMatrix, .call .toNumpy, .call .variables, .call (.nodesAtLag 0)] ⟨[], sample.1, sample.2⟩) :=
  exports_any_order .ts sample.1 sample.2 (by decide) _ (by
    intro r hr
    simp only [List.mem_cons, Step.call.injEq, List.not_mem_nil, or_false, reduceCtorEq, false_or] at hr
    rcases hr with rfl | rfl | rfl | rfl | rfl | rfl | rfl <;> exact Or.inl rfl)

end CG.C06
