/-
C20 -- Markov boundaries shield their node; colliders are the nodes with two arrowheads pointing in.

d-separation is `CG.DSepDec.DSep`, the very definition C11 proves `is_d_separated` against.
-/
import CG.Model.Boundary
import CG.Proofs.Lemmas.DSepAux
set_option linter.unusedSectionVars false
set_option linter.unusedSimpArgs false

namespace CG.C20
variable {α : Type} [DecidableEq α]
open CG.DSepDec CG.MB CG.DSepAux

/-! ## Markov boundary -/

/-- `m` is a parent, a child, or another parent of a child of `n` -/
def InMB (E : List (α × α)) (n m : α) : Prop :=
  (m, n) ∈ E ∨ (n, m) ∈ E ∨ (m ≠ n ∧ ∃ c, (n, c) ∈ E ∧ (m, c) ∈ E)

/-- the returned collection is exactly parents ∪ children ∪ (children's other parents) -/
theorem mb_eq (E : List (α × α)) (n m : α) : m ∈ markovBoundary E n ↔ InMB E n m := by
  unfold markovBoundary InMB
  simp only [mem_dedup, List.mem_append, List.mem_flatMap, List.mem_filter, mem_parents, mem_children,
    decide_eq_true_eq, or_assoc]
  constructor
  · rintro (h | h | ⟨c, h1, h2, h3⟩)
    · exact Or.inl h
    · exact Or.inr (Or.inl h)
    · exact Or.inr (Or.inr ⟨h3, c, h1, h2⟩)
  · rintro (h | h | ⟨h3, c, h1, h2⟩)
    · exact Or.inl h
    · exact Or.inr (Or.inl h)
    · exact Or.inr (Or.inr ⟨c, h1, h2, h3⟩)

theorem markovBoundary_nodup (E : List (α × α)) (n : α) : (markovBoundary E n).Nodup :=
  nodup_dedup _

/-- **shielding.**  Conditioning on the Markov boundary d-separates `n` from every other node outside it.
    Needs only "no 2-cycles" (a consequence of acyclicity, `mb_shields_dag`). -/
theorem mb_shields (E : List (α × α)) (hno2 : ∀ a b, (a, b) ∈ E → (b, a) ∉ E) (n w : α) (hwn : w ≠ n)
    (hw : w ∉ markovBoundary E n) : DSep E n w (markovBoundary E n) := by
  intro p hwalk hnd
  have hw' : ¬ InMB E n w := fun h => hw ((mb_eq E n w).mpr h)
  cases hwalk with
  | single => exact absurd rfl hwn
  | @cons _ s _ q hr hq =>
    cases hq with
    | single =>
      -- the path is the single edge n — w : then w is a parent or a child
      exfalso; apply hw'
      rcases mem_sym.mp hr with h | h
      · exact Or.inr (Or.inl h)
      · exact Or.inl h
    | @cons _ t _ q' hr2 hq' =>
      obtain ⟨r, rfl⟩ := walk_head hq'
      rcases mem_sym.mp hr with hns | hsn
      · -- n → s : s is a child
        by_cases hts : (t, s) ∈ E
        · -- collider at s, so t is a co-parent
          have htn : t ≠ n := by
            intro h; subst h
            simp [List.nodup_cons] at hnd
          have htMB : t ∈ markovBoundary E n := (mb_eq E n t).mpr (Or.inr (Or.inr ⟨htn, s, hns, hts⟩))
          cases hq' with
          | single => exact absurd htMB hw
          | @cons _ u _ q'' hr3 hq'' =>
            obtain ⟨r', rfl⟩ := walk_head hq''
            -- the triple (s, t, u): t → s, hence not s → t, so t is a non-collider, and t ∈ MB
            exact Or.inr (Or.inl (Or.inr ⟨fun h => hno2 _ _ hts h.1, htMB⟩))
        · -- s is a non-collider in MB
          exact Or.inl (Or.inr ⟨fun h => hts h.2, (mb_eq E n s).mpr (Or.inr (Or.inl hns))⟩)
      · -- s → n : s is a parent, a non-collider in MB
        exact Or.inl (Or.inr ⟨fun h => hno2 _ _ hsn h.1, (mb_eq E n s).mpr (Or.inl hsn)⟩)

/-- **minimality.**  No member can be dropped: without `m` the rest no longer separates `n` from every outside
    node (the witness is `m` itself: adjacent to `n`, or joined through the common child, a collider that is
    conditioned on).  Needs only "no self-loops". -/
theorem mb_minimal (E : List (α × α)) (hirr : ∀ a, (a, a) ∉ E) (n m : α) (hm : m ∈ markovBoundary E n) :
    ¬ ∀ w, w ≠ n → w ∉ (markovBoundary E n).filter (fun v => v ≠ m) →
        DSep E n w ((markovBoundary E n).filter (fun v => v ≠ m)) := by
  intro hall
  have hin := (mb_eq E n m).mp hm
  have hmn : m ≠ n := by
    rcases hin with h | h | ⟨h, _⟩
    · intro e; subst e; exact hirr _ h
    · intro e; subst e; exact hirr _ h
    · exact h
  have hd := hall m hmn (by simp [List.mem_filter])
  rcases hin with h | h | ⟨_, c, hnc, hmc⟩
  · exact adjacent_not_dsep _ (Ne.symm hmn) (Or.inr h) hd
  · exact adjacent_not_dsep _ (Ne.symm hmn) (Or.inl h) hd
  · have hnc' : n ≠ c := by intro e; subst e; exact hirr _ hnc
    have hmc' : m ≠ c := by intro e; subst e; exact hirr _ hmc
    have hwk : CG.Paths.Walk (sym E) n m [n, c, m] :=
      .cons (show CG.EL.Rel (sym E) n c from mem_sym.mpr (Or.inl hnc))
        (.cons (show CG.EL.Rel (sym E) c m from mem_sym.mpr (Or.inr hmc)) (.single m))
    have hb := hd [n, c, m] hwk (by simp [hnc', Ne.symm hmc', Ne.symm hmn])
    simp only [Blocked, BlocksAt, or_false] at hb
    rcases hb with ⟨_, h2⟩ | ⟨h1, _⟩
    · refine h2 c (.refl c) ?_
      rw [List.mem_filter]
      exact ⟨(mb_eq E n c).mpr (Or.inr (Or.inl hnc)), by simpa using Ne.symm hmc'⟩
    · exact h1 ⟨hnc, hmc⟩

theorem mb_shields_dag (E : List (α × α)) (hac : CG.EL.Acyclic (CG.EL.Rel E)) (n w : α) (hwn : w ≠ n)
    (hw : w ∉ markovBoundary E n) : DSep E n w (markovBoundary E n) :=
  mb_shields E (acyclic_no2 hac) n w hwn hw

theorem mb_minimal_dag (E : List (α × α)) (hac : CG.EL.Acyclic (CG.EL.Rel E)) (n m : α)
    (hm : m ∈ markovBoundary E n) :
    ¬ ∀ w, w ≠ n → w ∉ (markovBoundary E n).filter (fun v => v ≠ m) →
        DSep E n w ((markovBoundary E n).filter (fun v => v ≠ m)) :=
  mb_minimal E (acyclic_irrefl hac) n m hm

/-- the node itself is never in its boundary -/
theorem self_not_mem_mb (E : List (α × α)) (hirr : ∀ a, (a, a) ∉ E) (n : α) : n ∉ markovBoundary E n := by
  intro h
  rcases (mb_eq E n n).mp h with h | h | ⟨h, _⟩
  · exact hirr _ h
  · exact hirr _ h
  · exact h rfl

theorem isDag_iff (fd : Bool) (E : List (α × α)) :
    isDag fd E = true ↔ fd = true ∧ CG.EL.Acyclic (CG.EL.Rel E) := by
  unfold isDag
  rw [Bool.and_eq_true, acyclicB_iff]

/-- `identify_markov_boundary` returns exactly on DAGs that hold the node -/
theorem identifyMarkovBoundary_ok_iff (fd : Bool) (nodes : List α) (E : List (α × α)) (n : α) (mb : List α) :
    identifyMarkovBoundary fd nodes E n = .ok mb ↔
      (fd = true ∧ CG.EL.Acyclic (CG.EL.Rel E)) ∧ n ∈ nodes ∧ mb = markovBoundary E n := by
  rw [← isDag_iff]
  unfold identifyMarkovBoundary
  cases h1 : isDag fd E <;> by_cases h2 : n ∈ nodes <;> simp [h2, eq_comm]

/-- ... raises `TypeError` on anything that is not a DAG and `NodeDoesNotExistError` for an unknown node of a DAG -/
theorem identifyMarkovBoundary_err (fd : Bool) (nodes : List α) (E : List (α × α)) (n : α) :
    (isDag fd E = false → identifyMarkovBoundary fd nodes E n = .error .TypeError) ∧
    (isDag fd E = true → n ∉ nodes → identifyMarkovBoundary fd nodes E n = .error .NodeDoesNotExistError) := by
  unfold identifyMarkovBoundary
  constructor
  · intro h; simp [h]
  · intro h h2; simp [h, h2]

/-- **C20, Markov boundary.**  Whatever `identify_markov_boundary` returns on a `CausalGraph` is exactly parents,
    children and the children's other parents; conditioning on it d-separates the node from every remaining node;
    and no member can be dropped. -/
theorem mb_correct {fd : Bool} {nodes : List α} {E : List (α × α)} {n : α} {mb : List α}
    (h : identifyMarkovBoundary fd nodes E n = .ok mb) :
    (∀ m, m ∈ mb ↔ InMB E n m) ∧
    (∀ w, w ≠ n → w ∉ mb → DSep E n w mb) ∧
    (∀ m ∈ mb, ¬ ∀ w, w ≠ n → w ∉ mb.filter (fun v => v ≠ m) → DSep E n w (mb.filter (fun v => v ≠ m))) := by
  obtain ⟨⟨_, hac⟩, _, rfl⟩ := (identifyMarkovBoundary_ok_iff fd nodes E n mb).mp h
  exact ⟨mb_eq E n, mb_shields_dag E hac n, mb_minimal_dag E hac n⟩

/-! ## typed edges -/

/-- at most one edge type per stored (source, destination) key -- what a dict of dicts guarantees -/
def Functional (TE : List (α × α × EdgeKind)) : Prop :=
  ∀ s d k k', (s, d, k) ∈ TE → (s, d, k') ∈ TE → k = k'

/-- adjacency: an edge of any type stored in either orientation -/
def Adj (TE : List (α × α × EdgeKind)) (a b : α) : Prop := ∃ k, (a, b, k) ∈ TE ∨ (b, a, k) ∈ TE

/-- `m` sends an arrowhead into `n`: `m -> n`, or `m <> n` stored in either orientation -/
def Into (TE : List (α × α × EdgeKind)) (m n : α) : Prop :=
  m ≠ n ∧ ((m, n, EdgeKind.directed) ∈ TE ∨ (m, n, EdgeKind.bidirected) ∈ TE ∨ (n, m, EdgeKind.bidirected) ∈ TE)

theorem edgeExists_iff (TE : List (α × α × EdgeKind)) (s d : α) :
    edgeExists TE s d = true ↔ ∃ k, (s, d, k) ∈ TE := by
  unfold edgeExists edgeAt
  rw [Option.isSome_map, List.find?_isSome]
  constructor
  · rintro ⟨⟨a, b, k⟩, hmem, hp⟩
    simp only [decide_eq_true_eq] at hp
    obtain ⟨rfl, rfl⟩ := hp
    exact ⟨k, hmem⟩
  · rintro ⟨k, hmem⟩
    exact ⟨(s, d, k), hmem, by simp⟩

theorem edgeAt_eq_some_iff {TE : List (α × α × EdgeKind)} (hf : Functional TE) (s d : α) (k : EdgeKind) :
    edgeAt TE s d = some k ↔ (s, d, k) ∈ TE := by
  unfold edgeAt
  constructor
  · intro h
    rw [Option.map_eq_some_iff] at h
    obtain ⟨⟨a, b, k'⟩, hfind, hk⟩ := h
    have hmem := List.mem_of_find?_eq_some hfind
    have hp := List.find?_some hfind
    simp only [decide_eq_true_eq] at hp hk
    obtain ⟨rfl, rfl⟩ := hp
    subst hk
    exact hmem
  · intro hmem
    cases hfind : TE.find? (fun e => decide (e.1 = s ∧ e.2.1 = d)) with
    | none =>
      rw [List.find?_eq_none] at hfind
      exact absurd (by simp) (hfind _ hmem)
    | some e =>
      obtain ⟨a, b, k'⟩ := e
      have hmem' := List.mem_of_find?_eq_some hfind
      have hp := List.find?_some hfind
      simp only [decide_eq_true_eq] at hp
      obtain ⟨rfl, rfl⟩ := hp
      simp only [Option.map_some, Option.some.injEq]
      exact hf _ _ _ _ hmem' hmem

theorem mem_bidirectedPairs (TE : List (α × α × EdgeKind)) (a b : α) :
    (a, b) ∈ bidirectedPairs TE ↔ (a, b, EdgeKind.bidirected) ∈ TE := by
  unfold bidirectedPairs
  simp only [List.mem_map, List.mem_filter, decide_eq_true_eq]
  constructor
  · rintro ⟨⟨x, y, k⟩, ⟨hmem, hk⟩, hxy⟩
    simp only [Prod.mk.injEq] at hxy hk
    obtain ⟨rfl, rfl⟩ := hxy
    subst hk
    exact hmem
  · intro h
    exact ⟨(a, b, EdgeKind.bidirected), ⟨h, rfl⟩, rfl⟩

/-- neighbours = the other ends of all edges of any type, the node itself excluded -/
theorem mem_neighbours (TE : List (α × α × EdgeKind)) (n m : α) :
    m ∈ neighbours TE n ↔ m ≠ n ∧ Adj TE m n := by
  unfold neighbours Adj
  simp only [List.mem_filter, mem_dedup, List.mem_append, List.mem_map, decide_eq_true_eq]
  constructor
  · rintro ⟨h | h, hne⟩
    · obtain ⟨⟨a, b, k⟩, ⟨hmem, ha⟩, hb⟩ := h
      simp only at ha hb
      subst ha hb
      exact ⟨hne, k, Or.inr hmem⟩
    · obtain ⟨⟨a, b, k⟩, ⟨hmem, hb⟩, ha⟩ := h
      simp only at ha hb
      subst ha hb
      exact ⟨hne, k, Or.inl hmem⟩
  · rintro ⟨hne, k, h | h⟩
    · exact ⟨Or.inr ⟨(m, n, k), ⟨h, rfl⟩, rfl⟩, hne⟩
    · exact ⟨Or.inl ⟨(n, m, k), ⟨h, rfl⟩, rfl⟩, hne⟩

/-- for a `Skeleton` the boundary is exactly the set of neighbours -/
theorem skeleton_mb_iff {nodes : List α} {TE : List (α × α × EdgeKind)} {n : α} {l : List α}
    (h : skeletonBoundary nodes TE n = .ok l) (m : α) : m ∈ l ↔ m ≠ n ∧ Adj TE m n := by
  unfold skeletonBoundary at h
  split at h
  · cases h
  · cases h; exact mem_neighbours TE n m

theorem skeletonBoundary_ok_iff (nodes : List α) (TE : List (α × α × EdgeKind)) (n : α) :
    (∃ l, skeletonBoundary nodes TE n = .ok l) ↔ n ∈ nodes := by
  unfold skeletonBoundary
  by_cases h : n ∈ nodes <;> simp [h]

theorem mem_potentialParents {TE : List (α × α × EdgeKind)} (hf : Functional TE) (n m : α) :
    m ∈ potentialParents TE n ↔ Into TE m n := by
  unfold potentialParents Into
  simp only [List.mem_filter, mem_neighbours, Bool.or_eq_true, Bool.and_eq_true, decide_eq_true_eq,
    edgeAt_eq_some_iff hf, mem_bidirectedPairs, edgeExists_iff]
  constructor
  · rintro ⟨⟨hne, _⟩, ⟨_, h⟩ | h | h⟩
    · exact ⟨hne, Or.inl h⟩
    · exact ⟨hne, Or.inr (Or.inl h)⟩
    · exact ⟨hne, Or.inr (Or.inr h)⟩
  · rintro ⟨hne, h | h | h⟩
    · exact ⟨⟨hne, _, Or.inl h⟩, Or.inl ⟨⟨_, h⟩, h⟩⟩
    · exact ⟨⟨hne, _, Or.inl h⟩, Or.inr (Or.inl h)⟩
    · exact ⟨⟨hne, _, Or.inr h⟩, Or.inr (Or.inr h)⟩

theorem nodup_filter {l : List α} (p : α → Bool) (h : l.Nodup) : (l.filter p).Nodup :=
  List.Pairwise.filter p h

theorem nodup_potentialParents (TE : List (α × α × EdgeKind)) (n : α) : (potentialParents TE n).Nodup := by
  unfold potentialParents neighbours
  exact nodup_filter _ (nodup_filter _ (nodup_dedup _))

/-- a duplicate-free list has at least two entries iff it has two different members -/
theorem two_le_length_iff {l : List α} (h : l.Nodup) : 2 ≤ l.length ↔ ∃ a b, a ≠ b ∧ a ∈ l ∧ b ∈ l := by
  match l, h with
  | [], _ => simp
  | [a], _ =>
    simp only [List.length_singleton, List.mem_singleton]
    constructor
    · intro h; omega
    · rintro ⟨x, y, hne, rfl, rfl⟩; exact absurd rfl hne
  | a :: b :: r, h =>
    simp only [List.length_cons]
    constructor
    · intro _
      have : a ≠ b := by
        intro e; subst e; simp at h
      exact ⟨a, b, this, by simp, by simp⟩
    · intro _; omega

/-- **C20, colliders.**  (`potentialParents TE n` enumerates `{m | Into TE m n}` without repetition --
    `mem_potentialParents`, `nodup_potentialParents` -- so its length is the number of arrowheads into `n`.) -/
theorem colliders_iff_count (TE : List (α × α × EdgeKind)) (nodes : List α) (n : α) :
    n ∈ colliders TE nodes false ↔ n ∈ nodes ∧ 2 ≤ (potentialParents TE n).length := by
  unfold colliders
  simp [List.mem_filter]

/-- `identify_colliders(graph)` returns exactly the nodes with at least two arrowheads pointing in -/
theorem colliders_iff {TE : List (α × α × EdgeKind)} (hf : Functional TE) (nodes : List α) (n : α) :
    n ∈ colliders TE nodes false ↔ n ∈ nodes ∧ ∃ m₁ m₂, m₁ ≠ m₂ ∧ Into TE m₁ n ∧ Into TE m₂ n := by
  rw [colliders_iff_count, two_le_length_iff (nodup_potentialParents TE n)]
  simp only [mem_potentialParents hf]

theorem shielded_iff (TE : List (α × α × EdgeKind)) (ps : List α) :
    shielded TE ps = true ↔ ∃ p ∈ ps, ∃ q ∈ ps, p ≠ q ∧ Adj TE p q := by
  unfold shielded Adj
  simp only [List.any_eq_true, Bool.and_eq_true, Bool.or_eq_true, decide_eq_true_eq, edgeExists_iff]
  constructor
  · rintro ⟨p, hp, q, hq, hne, ⟨k, h⟩ | ⟨k, h⟩⟩
    · exact ⟨p, hp, q, hq, hne, k, Or.inl h⟩
    · exact ⟨p, hp, q, hq, hne, k, Or.inr h⟩
  · rintro ⟨p, hp, q, hq, hne, k, h | h⟩
    · exact ⟨p, hp, q, hq, hne, Or.inl ⟨k, h⟩⟩
    · exact ⟨p, hp, q, hq, hne, Or.inr ⟨k, h⟩⟩

/-- with `unshielded_only`: exactly those whose arrow-sending neighbours are pairwise non-adjacent -/
theorem colliders_unshielded_iff {TE : List (α × α × EdgeKind)} (hf : Functional TE) (nodes : List α) (n : α) :
    n ∈ colliders TE nodes true ↔
      n ∈ nodes ∧ (∃ m₁ m₂, m₁ ≠ m₂ ∧ Into TE m₁ n ∧ Into TE m₂ n) ∧
        ∀ p q, Into TE p n → Into TE q n → p ≠ q → ¬ Adj TE p q := by
  unfold colliders
  simp only [List.mem_filter, Bool.and_eq_true, decide_eq_true_eq, Bool.not_true, Bool.false_or,
    Bool.not_eq_true', ← Bool.not_eq_true, shielded_iff, two_le_length_iff (nodup_potentialParents TE n),
    mem_potentialParents hf]
  constructor
  · rintro ⟨hn, h2, hns⟩
    exact ⟨hn, h2, fun p q hp hq hne hadj => hns ⟨p, hp, q, hq, hne, hadj⟩⟩
  · rintro ⟨hn, h2, hns⟩
    exact ⟨hn, h2, fun ⟨p, hp, q, hq, hne, hadj⟩ => hns p q hp hq hne hadj⟩

/-! ## non-vacuity -/

/-- `1 → 3 ← 2, 3 → 4, 5 → 1`: boundary of `1` is `{5, 3, 2}`; `4` is outside -/
def exE : List (Nat × Nat) := [(1, 3), (2, 3), (3, 4), (5, 1)]

theorem exE_acyclic : CG.EL.Acyclic (CG.EL.Rel exE) :=
  acyclic_of_rank (fun n => if n = 5 then 0 else if n = 3 then 2 else if n = 4 then 3 else 1) (by
    intro a b h
    simp only [CG.EL.Rel, exE, List.mem_cons, Prod.mk.injEq, List.not_mem_nil, or_false] at h
    rcases h with ⟨rfl, rfl⟩ | ⟨rfl, rfl⟩ | ⟨rfl, rfl⟩ | ⟨rfl, rfl⟩ <;> decide)

example : markovBoundary exE 1 = [5, 3, 2] := by decide

/-- the hypotheses of `mb_correct` are met, the boundary has a co-parent, and a node lies outside it -/
example : ∃ mb, identifyMarkovBoundary true [1, 2, 3, 4, 5] exE 1 = .ok mb ∧ 2 ∈ mb ∧ 4 ∉ mb ∧ (4 : Nat) ≠ 1 :=
  ⟨_, (identifyMarkovBoundary_ok_iff true [1, 2, 3, 4, 5] exE 1 _).mpr ⟨⟨rfl, exE_acyclic⟩, by simp, rfl⟩,
    by decide, by decide, by decide⟩

/-- a mixed graph: `1 -> 3`, `3 <> 2` (stored 3, 2), `1 -- 2` : node 3 is a collider, but a shielded one -/
def exTE : List (Nat × Nat × EdgeKind) := [(1, 3, .directed), (3, 2, .bidirected), (1, 2, .undirected)]

theorem exTE_functional : Functional exTE := by
  intro s d k k' h h'
  simp only [exTE, List.mem_cons, Prod.mk.injEq, List.not_mem_nil, or_false] at h h'
  rcases h with ⟨rfl, rfl, rfl⟩ | ⟨rfl, rfl, rfl⟩ | ⟨rfl, rfl, rfl⟩ <;>
    rcases h' with ⟨h1, h2, rfl⟩ | ⟨h1, h2, rfl⟩ | ⟨h1, h2, rfl⟩ <;> first | rfl | (exfalso; omega)

example : colliders exTE [1, 2, 3] false = [3] := by decide
example : colliders exTE [1, 2, 3] true = [] := by decide
example : colliders [(1, 3, .directed), (3, 2, .bidirected)] [1, 2, 3] true = [3] := by decide

end CG.C20
