/-
C08, lagged matrices: the entry law of `adjacency_matrices` / `to_numpy_by_lag` (computed from the minimal graph),
and the statement of the lagged round trip.
-/
import CG.Proofs.C08RoundTrip
import CG.Proofs.C12Lookups

set_option linter.unusedSimpArgs false

namespace CG.C08
open CG CG.Mx CG.Conv Std

/-! ### the dictionary of lag matrices -/

/-- `D[δ]` -/
def lagLookup (D : List (Int × Mat)) (δ : Int) : Option Mat := (D.find? (fun dm => dm.1 = δ)).map (·.2)

/-- `D[δ][i, j]`, 0 when the key is absent -/
def lagCell (D : List (Int × Mat)) (δ : Int) (i j : Nat) : Nat :=
  match lagLookup D δ with
  | some M => cell M i j
  | none => 0

/-- every matrix of the dictionary is `V × V` -/
def LDim (V : Nat) (D : List (Int × Mat)) : Prop := ∀ dm ∈ D, Dim V dm.2

theorem lagLookup_append_new (D : List (Int × Mat)) (δ δ' : Int) (M : Mat) (h : D.any (fun dm => dm.1 = δ) = false) :
    lagLookup (D ++ [(δ, M)]) δ' = if δ' = δ then some M else lagLookup D δ' := by
  unfold lagLookup
  rw [List.find?_append]
  by_cases he : δ' = δ
  · subst he
    have : D.find? (fun dm => decide (dm.1 = δ')) = none := by
      rw [List.find?_eq_none]
      intro x hx
      have := List.any_eq_false.mp h x hx
      simpa using this
    simp [this]
  · have hne : ¬ δ = δ' := fun e => he e.symm
    cases hf : D.find? (fun dm => decide (dm.1 = δ')) with
    | some x => simp [he]
    | none => simp [he, hne]

theorem lagLookup_map_set (D : List (Int × Mat)) (δ δ' : Int) (f : Mat → Mat) :
    lagLookup (D.map (fun dm => if dm.1 = δ then (dm.1, f dm.2) else dm)) δ' =
      (lagLookup D δ').map (fun M => if δ' = δ then f M else M) := by
  unfold lagLookup
  induction D with
  | nil => rfl
  | cons dm D ih =>
    simp only [List.map_cons, List.find?_cons]
    by_cases h1 : dm.1 = δ
    · simp only [h1, if_true]
      by_cases h2 : δ = δ'
      · simp [h2]
      · have : ¬ δ' = δ := fun e => h2 e.symm
        simp only [h2, decide_false]
        exact ih
    · simp only [h1, if_false]
      by_cases h2 : dm.1 = δ'
      · have : ¬ δ' = δ := fun e => h1 (h2.trans e)
        simp [h2, this]
      · simp only [h2, decide_false]
        exact ih

theorem lagLookup_isSome_iff (D : List (Int × Mat)) (δ : Int) :
    (lagLookup D δ).isSome = true ↔ D.any (fun dm => dm.1 = δ) = true := by
  unfold lagLookup
  rw [Option.isSome_map, List.find?_isSome, List.any_eq_true]

theorem lagLookup_mem (D : List (Int × Mat)) (δ : Int) (M : Mat) (h : lagLookup D δ = some M) : (δ, M) ∈ D := by
  unfold lagLookup at h
  cases hf : D.find? (fun dm => decide (dm.1 = δ)) with
  | none => rw [hf] at h; cases h
  | some x =>
    rw [hf] at h
    simp only [Option.map_some, Option.some.injEq] at h
    have h1 := List.find?_some hf
    have h2 := List.mem_of_find?_eq_some hf
    simp only [decide_eq_true_eq] at h1
    rw [← h1, ← h]
    exact h2

/-- what one assignment `D[δ][i, j] = 1` (creating `D[δ]` as zeros when absent) does -/
theorem lagSet_spec (V : Nat) (D : List (Int × Mat)) (δ : Int) (i j : Nat) (hD : LDim V D) :
    LDim V (lagSet V D δ i j) ∧
    (∀ δ', (lagLookup (lagSet V D δ i j) δ').isSome = true ↔ δ' = δ ∨ (lagLookup D δ').isSome = true) ∧
    (∀ δ' i' j', lagCell (lagSet V D δ i j) δ' i' j' =
      if δ' = δ ∧ i = i' ∧ j = j' ∧ i < V ∧ j < V then 1 else lagCell D δ' i' j') := by
  unfold lagSet
  cases hany : D.any (fun dm => decide (dm.1 = δ)) with
  | true =>
    simp only [if_true]
    refine ⟨?_, ?_, ?_⟩
    · intro dm hdm
      obtain ⟨x, hx, rfl⟩ := List.mem_map.mp hdm
      split
      · exact dim_setCell _ _ _ _ (hD x hx)
      · exact hD x hx
    · intro δ'
      rw [lagLookup_map_set D δ δ' (fun M => setCell M i j), Option.isSome_map]
      constructor
      · exact fun h => .inr h
      · rintro (rfl | h)
        · exact (lagLookup_isSome_iff D δ').mpr hany
        · exact h
    · intro δ' i' j'
      unfold lagCell
      rw [lagLookup_map_set D δ δ' (fun M => setCell M i j)]
      cases hl : lagLookup D δ' with
      | none =>
        simp only [Option.map_none]
        have : ¬ δ' = δ := by
          rintro rfl
          have := (lagLookup_isSome_iff D δ').mpr hany
          rw [hl] at this; cases this
        simp [this]
      | some M =>
        simp only [Option.map_some]
        have hdim : Dim V M := hD _ (lagLookup_mem D δ' M hl)
        by_cases he : δ' = δ
        · simp only [he, if_true, true_and]
          exact cell_setCell V M i j i' j' hdim
        · simp [he]
  | false =>
    simp only [Bool.false_eq_true, if_false]
    refine ⟨?_, ?_, ?_⟩
    · intro dm hdm
      rcases List.mem_append.mp hdm with h | h
      · exact hD dm h
      · simp only [List.mem_singleton] at h
        subst h
        exact dim_setCell _ _ _ _ (dim_zeros V)
    · intro δ'
      rw [lagLookup_append_new D δ δ' _ hany]
      by_cases he : δ' = δ <;> simp [he]
    · intro δ' i' j'
      unfold lagCell
      rw [lagLookup_append_new D δ δ' _ hany]
      by_cases he : δ' = δ
      · simp only [he, if_true, true_and]
        have : lagLookup D δ = none := by
          cases hl : lagLookup D δ with
          | none => rfl
          | some M =>
            have := (lagLookup_isSome_iff D δ).mp (by rw [hl]; rfl)
            rw [hany] at this; cases this
        rw [this, cell_setCell V _ i j i' j' (dim_zeros V), cell_zeros]
      · simp [he]

/-! ### the fill loop of `adjacency_matrices` -/

/-- the node records at the two ends of an edge key -/
def srcRec (m : Graph) (k : EKey) : NodeRec := (m.nodes[k.1]?).getD default
def dstRec (m : Graph) (k : EKey) : NodeRec := (m.nodes[k.2]?).getD default

/-- entry `(i, j)` of the matrix for lag `δ` is written by the edge `kv` -/
def LagHits (m : Graph) (vars : List String) (kv : EKey × EdgeRec) (δ : Int) (i j : Nat) : Prop :=
  (srcRec m kv.1).lag = δ ∧
  ((kv.2.ty = .directed ∧ vars.idxOf (srcRec m kv.1).var = i ∧ vars.idxOf (dstRec m kv.1).var = j) ∨
   (kv.2.ty = .undirected ∧ ((vars.idxOf (srcRec m kv.1).var = i ∧ vars.idxOf (dstRec m kv.1).var = j) ∨
                             (vars.idxOf (dstRec m kv.1).var = i ∧ vars.idxOf (srcRec m kv.1).var = j))))

theorem lagFill_spec (m : Graph) (vars : List String) (l : List (EKey × EdgeRec)) :
    ∀ (D : List (Int × Mat)), LDim vars.length D → (∀ kv ∈ l, dirOrUndir kv.2.ty = true) →
      ∃ D', lagFill m vars D l = .ok D' ∧ LDim vars.length D' ∧
        (∀ δ, (lagLookup D' δ).isSome = true ↔ (lagLookup D δ).isSome = true ∨ ∃ kv ∈ l, (srcRec m kv.1).lag = δ) ∧
        (∀ δ i j, i < vars.length → j < vars.length →
          (lagCell D' δ i j = 1 ↔ lagCell D δ i j = 1 ∨ ∃ kv ∈ l, LagHits m vars kv δ i j) ∧
          (lagCell D δ i j ≤ 1 → lagCell D' δ i j ≤ 1)) := by
  induction l with
  | nil =>
    intro D hD _
    exact ⟨D, rfl, hD, fun δ => by simp, fun δ i j _ _ => ⟨by simp, id⟩⟩
  | cons kv l ih =>
    intro D hD hall
    obtain ⟨k, r⟩ := kv
    have hk := (dirOrUndir_iff r.ty).mp (hall _ List.mem_cons_self)
    have hall' : ∀ kv ∈ l, dirOrUndir kv.2.ty = true := fun x hx => hall x (List.mem_cons_of_mem _ hx)
    rcases hk with hk | hk
    · -- directed: one assignment
      obtain ⟨s1, s2, s3⟩ := lagSet_spec vars.length D (srcRec m k).lag (vars.idxOf (srcRec m k).var)
        (vars.idxOf (dstRec m k).var) hD
      obtain ⟨D', h1, h2, h3, h4⟩ := ih _ s1 hall'
      refine ⟨D', ?_, h2, ?_, ?_⟩
      · simp only [lagFill, hk]; exact h1
      · intro δ
        rw [h3 δ, s2 δ]
        simp only [List.mem_cons, exists_eq_or_imp]
        constructor
        · rintro ((h | h) | h)
          · exact .inr (.inl h.symm)
          · exact .inl h
          · exact .inr (.inr h)
        · rintro (h | h | h)
          · exact .inl (.inr h)
          · exact .inl (.inl h.symm)
          · exact .inr h
      · intro δ i j hi hj
        obtain ⟨h5, h6⟩ := h4 δ i j hi hj
        rw [s3 δ _ _] at h5 h6
        constructor
        · rw [h5]
          simp only [List.mem_cons, exists_eq_or_imp, LagHits]
          constructor
          · rintro (h | h)
            · split at h
              · rename_i hc; exact .inr (.inl ⟨hc.1.symm, .inl ⟨hk, hc.2.1, hc.2.2.1⟩⟩)
              · exact .inl h
            · exact .inr (.inr h)
          · rintro (h | h | h)
            · left; split <;> simp [h]
            · rcases h with ⟨hl, ⟨_, e1, e2⟩ | ⟨ht, _⟩⟩
              · left; subst e1 e2; simp [hl.symm, hi, hj]
              · rw [hk] at ht; cases ht
            · exact .inr h
        · intro h; apply h6; split <;> simp [h]
    · -- undirected: two assignments
      obtain ⟨s1, s2, s3⟩ := lagSet_spec vars.length D (srcRec m k).lag (vars.idxOf (srcRec m k).var)
        (vars.idxOf (dstRec m k).var) hD
      obtain ⟨t1, t2, t3⟩ := lagSet_spec vars.length _ (srcRec m k).lag (vars.idxOf (dstRec m k).var)
        (vars.idxOf (srcRec m k).var) s1
      obtain ⟨D', h1, h2, h3, h4⟩ := ih _ t1 hall'
      refine ⟨D', ?_, h2, ?_, ?_⟩
      · simp only [lagFill, hk]; exact h1
      · intro δ
        rw [h3 δ, t2 δ, s2 δ]
        simp only [List.mem_cons, exists_eq_or_imp]
        constructor
        · rintro ((h | h | h) | h)
          · exact .inr (.inl h.symm)
          · exact .inr (.inl h.symm)
          · exact .inl h
          · exact .inr (.inr h)
        · rintro (h | h | h)
          · exact .inl (.inr (.inr h))
          · exact .inl (.inl h.symm)
          · exact .inr h
      · intro δ i j hi hj
        obtain ⟨h5, h6⟩ := h4 δ i j hi hj
        rw [t3 δ _ _, s3 δ _ _] at h5 h6
        constructor
        · rw [h5]
          simp only [List.mem_cons, exists_eq_or_imp, LagHits]
          constructor
          · rintro (h | h)
            · split at h
              · rename_i hc; exact .inr (.inl ⟨hc.1.symm, .inr ⟨hk, .inr ⟨hc.2.1, hc.2.2.1⟩⟩⟩)
              · split at h
                · rename_i hc; exact .inr (.inl ⟨hc.1.symm, .inr ⟨hk, .inl ⟨hc.2.1, hc.2.2.1⟩⟩⟩)
                · exact .inl h
            · exact .inr (.inr h)
          · rintro (h | h | h)
            · left; split; · rfl
              split <;> simp [h]
            · rcases h with ⟨hl, ⟨ht, _⟩ | ⟨_, ⟨e1, e2⟩ | ⟨e1, e2⟩⟩⟩
              · rw [hk] at ht; cases ht
              · left; subst e1 e2; simp [hl.symm, hi, hj]
              · left; subst e1 e2; simp [hl.symm, hi, hj]
            · exact .inr h
        · intro h; apply h6; split; · simp
          split <;> simp [h]

theorem lagFill_error (m : Graph) (vars : List String) (l : List (EKey × EdgeRec))
    (h : l.any (fun kv => !dirOrUndir kv.2.ty) = true) : ∀ D, lagFill m vars D l = .error .typeError := by
  induction l with
  | nil => cases h
  | cons kv l ih =>
    intro D
    obtain ⟨k, r⟩ := kv
    simp only [List.any_cons, Bool.or_eq_true] at h
    cases hty : r.ty <;> simp only [lagFill, hty]
    · exact ih (by simpa [dirOrUndir, hty] using h) _
    · exact ih (by simpa [dirOrUndir, hty] using h) _

theorem lagLookup_nil (δ : Int) : lagLookup [] δ = none := rfl
theorem lagCell_nil (δ : Int) (i j : Nat) : lagCell [] δ i j = 0 := rfl

/-- **C08 (5a), refusal.** `adjacency_matrices` / `to_numpy_by_lag` raise exactly when the minimal graph holds an edge
    that is neither `->` nor `--` (`TypeError`) -/
theorem lagged_refuses_iff (m : Graph) :
    ((∃ e, adjacencyMatricesOf m = .error e) ↔
      ∃ (k : EKey) (r : EdgeRec), m.edges[k]? = some r ∧ r.ty ≠ .directed ∧ r.ty ≠ .undirected) ∧
    (∀ e, adjacencyMatricesOf m = .error e → e = .typeError) := by
  unfold adjacencyMatricesOf
  cases hany : m.edges.toList.any (fun kv => !dirOrUndir kv.2.ty) with
  | true =>
    rw [lagFill_error m _ _ hany]
    refine ⟨⟨fun _ => (any_bad_iff m).mp hany, fun _ => ⟨_, rfl⟩⟩, ?_⟩
    intro e h; cases h; rfl
  | false =>
    obtain ⟨D', h1, _⟩ := lagFill_spec m (variables m) m.edges.toList [] (by intro dm h; cases h)
      (all_dirOrUndir_of_any m hany)
    rw [h1]
    refine ⟨⟨?_, ?_⟩, ?_⟩
    · rintro ⟨e, he⟩; cases he
    · intro h
      have := (any_bad_iff m).mpr h
      rw [hany] at this; cases this
    · intro e he; cases he

/-- **C08 (5b), entry law of the lagged matrices.**  When `adjacency_matrices` (computed from the minimal graph `m`)
    answers `D`, over `vars` = the sorted variable names of `m`:
    * every matrix is `|vars| × |vars|` with entries 0 / 1;
    * the keys of `D` are exactly the time lags of the stored SOURCES of `m`'s edges;
    * `D[δ][i][j] = 1` exactly when `m` has an edge whose source has lag `δ` and which is either directed from variable
      `vars[i]` to variable `vars[j]`, or undirected between them (either way round: a lagged undirected edge fills
      both entries of its source lag's matrix, which is why it has no unambiguous matrix form).
    (Variable and lag of a node are its record's fields, which in a well-formed time-series graph are what its
    identifier parses to: `WF.tsName`.) -/
theorem lagged_entry_law (m : Graph) (hwf : WF m) (D : List (Int × Mat)) (h : adjacencyMatricesOf m = .ok D) :
    LDim (variables m).length D ∧
    (∀ δ, (lagLookup D δ).isSome = true ↔
      ∃ (s d : String) (r : EdgeRec) (rs : NodeRec), m.edges[(s, d)]? = some r ∧ m.nodes[s]? = some rs ∧ rs.lag = δ) ∧
    (∀ (δ : Int) (i j : Nat) (hi : i < (variables m).length) (hj : j < (variables m).length),
      (lagCell D δ i j = 1 ↔
        ∃ (s d : String) (r : EdgeRec) (rs rd : NodeRec), m.edges[(s, d)]? = some r ∧ m.nodes[s]? = some rs ∧
          m.nodes[d]? = some rd ∧ rs.lag = δ ∧
          ((r.ty = .directed ∧ rs.var = (variables m)[i] ∧ rd.var = (variables m)[j]) ∨
           (r.ty = .undirected ∧ ((rs.var = (variables m)[i] ∧ rd.var = (variables m)[j]) ∨
                                  (rd.var = (variables m)[i] ∧ rs.var = (variables m)[j]))))) ∧
      lagCell D δ i j ≤ 1) := by
  unfold adjacencyMatricesOf at h
  cases hany : m.edges.toList.any (fun kv => !dirOrUndir kv.2.ty) with
  | true => rw [lagFill_error m _ _ hany] at h; cases h
  | false =>
    obtain ⟨D', h1, h2, h3, h4⟩ := lagFill_spec m (variables m) m.edges.toList [] (by intro dm h; cases h)
      (all_dirOrUndir_of_any m hany)
    rw [h1] at h
    cases h
    have hnd := CG.C12.variables_nodup m
    -- the records at the ends of an edge
    have ends : ∀ (s d : String) (r : EdgeRec), m.edges[(s, d)]? = some r →
        ∃ rs rd, m.nodes[s]? = some rs ∧ m.nodes[d]? = some rd ∧ srcRec m (s, d) = rs ∧ dstRec m (s, d) = rd := by
      intro s d r hr
      obtain ⟨hs, hd⟩ := hwf.ends s d (mem_edges_of_lookup m _ r hr)
      obtain ⟨rs, hrs⟩ := Option.isSome_iff_exists.mp (ExtTreeMap.mem_iff_isSome_getElem?.mp hs)
      obtain ⟨rd, hrd⟩ := Option.isSome_iff_exists.mp (ExtTreeMap.mem_iff_isSome_getElem?.mp hd)
      exact ⟨rs, rd, hrs, hrd, by simp [srcRec, hrs], by simp [dstRec, hrd]⟩
    refine ⟨h2, ?_, ?_⟩
    · intro δ
      rw [h3 δ, lagLookup_nil]
      constructor
      · rintro (h | ⟨⟨⟨s, d⟩, r⟩, hkv, hl⟩)
        · cases h
        · have hr := ExtTreeMap.mem_toList_iff_getElem?_eq_some.mp hkv
          obtain ⟨rs, rd, hrs, _, e1, _⟩ := ends s d r hr
          exact ⟨s, d, r, rs, hr, hrs, by rw [← e1]; exact hl⟩
      · rintro ⟨s, d, r, rs, hr, hrs, hl⟩
        right
        refine ⟨((s, d), r), ExtTreeMap.mem_toList_iff_getElem?_eq_some.mpr hr, ?_⟩
        simp [srcRec, hrs, hl]
    · intro δ i j hi hj
      obtain ⟨h5, h6⟩ := h4 δ i j hi hj
      refine ⟨?_, h6 (by rw [lagCell_nil]; omega)⟩
      rw [h5, lagCell_nil]
      have idx : ∀ (n : String) (rn : NodeRec), m.nodes[n]? = some rn → ∀ (t : Nat) (ht : t < (variables m).length),
          ((variables m).idxOf rn.var = t ↔ rn.var = (variables m)[t]) := by
        intro n rn hn t ht
        exact idxOf_eq_iff _ hnd rn.var ((CG.C12.mem_variables m rn.var).mpr ⟨n, rn, hn, rfl⟩) t ht
      constructor
      · rintro (h | ⟨⟨⟨s, d⟩, r⟩, hkv, hl, hh⟩)
        · cases h
        · have hr := ExtTreeMap.mem_toList_iff_getElem?_eq_some.mp hkv
          obtain ⟨rs, rd, hrs, hrd, e1, e2⟩ := ends s d r hr
          simp only at hl hh
          rw [e1] at hl
          rw [e1, e2] at hh
          refine ⟨s, d, r, rs, rd, hr, hrs, hrd, hl, ?_⟩
          rcases hh with ⟨ht, a, b⟩ | ⟨ht, ⟨a, b⟩ | ⟨a, b⟩⟩
          · exact .inl ⟨ht, (idx s rs hrs i hi).mp a, (idx d rd hrd j hj).mp b⟩
          · exact .inr ⟨ht, .inl ⟨(idx s rs hrs i hi).mp a, (idx d rd hrd j hj).mp b⟩⟩
          · exact .inr ⟨ht, .inr ⟨(idx d rd hrd i hi).mp a, (idx s rs hrs j hj).mp b⟩⟩
      · rintro ⟨s, d, r, rs, rd, hr, hrs, hrd, hl, hh⟩
        right
        refine ⟨((s, d), r), ExtTreeMap.mem_toList_iff_getElem?_eq_some.mpr hr, ?_⟩
        have e1 : srcRec m (s, d) = rs := by simp [srcRec, hrs]
        have e2 : dstRec m (s, d) = rd := by simp [dstRec, hrd]
        unfold LagHits
        simp only [e1, e2]
        refine ⟨hl, ?_⟩
        rcases hh with ⟨ht, a, b⟩ | ⟨ht, ⟨a, b⟩ | ⟨a, b⟩⟩
        · exact .inl ⟨ht, (idx s rs hrs i hi).mpr a, (idx d rd hrd j hj).mpr b⟩
        · exact .inr ⟨ht, .inl ⟨(idx s rs hrs i hi).mpr a, (idx d rd hrd j hj).mpr b⟩⟩
        · exact .inr ⟨ht, .inr ⟨(idx d rd hrd i hi).mpr a, (idx s rs hrs j hj).mpr b⟩⟩

/-- `to_numpy_by_lag` is `adjacency_matrices` paired with the sorted variable names -/
theorem toNumpyByLag_eq (m : Graph) (D : List (Int × Mat)) (vars : List String) (h : toNumpyByLagOf m = .ok (D, vars)) :
    adjacencyMatricesOf m = .ok D ∧ vars = variables m := by
  unfold toNumpyByLagOf at h
  cases ha : adjacencyMatricesOf m with
  | error e => rw [ha] at h; cases h
  | ok D' =>
    rw [ha] at h
    simp only [Except.map, Except.ok.injEq, Prod.mk.injEq] at h
    exact ⟨by rw [h.1], h.2.symm⟩

/-! ### the lagged round trip: statement (not proved here) -/

/-- C08's last clause at the level of this file: for a minimal graph `m` (every edge ends at lag 0) made of `->` and
    contemporaneous `--` edges, acyclic or imported without validation, `from_adjacency_matrices(*to_numpy_by_lag(),
    construct_minimal=False)` builds a graph whose nodes are all variables at all listed lags (plus lag 0) and whose
    directed edges / undirected pairs are exactly those of `m`.  (Composing with `minimalGraph`, which is modelled in
    `CG/Model/TS.lean`, gives the property's "equals its minimal graph".) -/
def fromAdjMatrices_toNumpyByLag_statement : Prop :=
  ∀ (m : Graph) (D : List (Int × Mat)) (vars : List String) (v : Bool),
    WF m → m.cls = .ts →
    (∀ (n : String) (r : NodeRec), m.nodes[n]? = some r → n = Name.fmt r.var r.lag ∧ Name.parse r.var = some (r.var, 0)) →
    (∀ (s d : String), (s, d) ∈ m.edges → m.lagOf d = 0) →
    (∀ (s d : String) (r : EdgeRec), m.edges[(s, d)]? = some r → r.ty = .undirected → m.lagOf s = 0) →
    (v = true → AcyclicG m) →
    toNumpyByLagOf m = .ok (D, vars) → D ≠ [] →
    ∃ g', fromAdjacencyMatricesFull D (some vars) v = (g', none) ∧
      (∀ a b, DirRel g' a b ↔ DirRel m a b) ∧ (∀ a b, UndirBetween g' a b ↔ UndirBetween m a b) ∧ OnlyDirUndir g'

/-! ### non-vacuity -/

/-- the concrete time-series graph `X lag(n=1) -> X`, `X -- Y` of `C05.lean` has lagged matrices, and the entry law
    applies to them -/
example : ∃ D, adjacencyMatricesOf C05.exT = .ok D ∧ LDim (variables C05.exT).length D ∧
    ((lagLookup D (-1)).isSome = true) := by
  cases h : adjacencyMatricesOf C05.exT with
  | error e =>
    obtain ⟨k, r, hr, h1, h2⟩ := (lagged_refuses_iff C05.exT).1.mp ⟨e, h⟩
    have := mem_of_getElem?_insAll _ k r (by simp) hr
    simp only [List.mem_cons, Prod.mk.injEq, List.mem_nil_iff, or_false] at this
    rcases this with ⟨_, rfl⟩ | ⟨_, rfl⟩
    · exact absurd rfl h1
    · exact absurd rfl h2
  | ok D =>
    obtain ⟨h1, h2, _⟩ := lagged_entry_law C05.exT C05.exT_wf D h
    refine ⟨D, rfl, h1, (h2 (-1)).mpr ?_⟩
    refine ⟨"X lag(n=1)", "X", { ty := .directed, md := [("e", "1")] },
      { vtype := .binary, md := [("k", "1")], var := "X", lag := -1 }, ?_, ?_, rfl⟩
    · exact getElem?_insAll_of_mem _ _ _ _ (by simp) (by simp)
    · exact getElem?_insAll_of_mem _ _ _ _ (by simp) (by simp)

end CG.C08
