/-
C12, graph level: `lookups_eq_scan`.  The time-series lookups (`get_nodes_at_lag`, `get_nodes_for_variable_name`,
`variables`, `get_contemporaneous_nodes`, `max_forward_lag`, `max_backward_lag`) of the model are exactly what a
scan over the current node map gives; under the invariant `WF` of a time-series graph the stored (variable, lag)
of every node is what its identifier parses to, so the lookups are functions of the node *names* alone.
"After any history" is this file plus `wf_run` (proved in `WFStep`).

Core Lean + `Std` only.
-/
import CG.Proofs.C01Views

namespace CG.C12
open Std CG.C01

/-! ### `listMax` / `listMin` -/

theorem foldl_max_spec (xs : List Int) (x : Int) :
    (xs.foldl max x = x ∨ xs.foldl max x ∈ xs) ∧ x ≤ xs.foldl max x ∧ ∀ y ∈ xs, y ≤ xs.foldl max x := by
  induction xs generalizing x with
  | nil => simp
  | cons y ys ih =>
    obtain ⟨h1, h2, h3⟩ := ih (max x y)
    simp only [List.foldl_cons, List.mem_cons, forall_eq_or_imp]
    refine ⟨?_, by omega, by omega, h3⟩
    rcases h1 with h1 | h1
    · rw [h1]
      rcases Int.le_total x y with h | h
      · right; left; omega
      · left; omega
    · right; right; exact h1

theorem foldl_min_spec (xs : List Int) (x : Int) :
    (xs.foldl min x = x ∨ xs.foldl min x ∈ xs) ∧ xs.foldl min x ≤ x ∧ ∀ y ∈ xs, xs.foldl min x ≤ y := by
  induction xs generalizing x with
  | nil => simp
  | cons y ys ih =>
    obtain ⟨h1, h2, h3⟩ := ih (min x y)
    simp only [List.foldl_cons, List.mem_cons, forall_eq_or_imp]
    refine ⟨?_, by omega, by omega, h3⟩
    rcases h1 with h1 | h1
    · rw [h1]
      rcases Int.le_total x y with h | h
      · left; omega
      · right; left; omega
    · right; right; exact h1

theorem listMax_eq_none_iff (l : List Int) : listMax l = none ↔ l = [] := by
  cases l <;> simp [listMax]

theorem listMin_eq_none_iff (l : List Int) : listMin l = none ↔ l = [] := by
  cases l <;> simp [listMin]

/-- `listMax` returns the greatest element -/
theorem listMax_eq_some_iff (l : List Int) (m : Int) : listMax l = some m ↔ m ∈ l ∧ ∀ x ∈ l, x ≤ m := by
  cases l with
  | nil => simp [listMax]
  | cons x xs =>
    obtain ⟨h1, h2, h3⟩ := foldl_max_spec xs x
    simp only [listMax, Option.some.injEq, List.mem_cons, forall_eq_or_imp]
    constructor
    · rintro rfl
      exact ⟨h1, h2, h3⟩
    · rintro ⟨hm, hx, hxs⟩
      have hle : xs.foldl max x ≤ m := by
        rcases h1 with h1 | h1
        · rw [h1]; exact hx
        · exact hxs _ h1
      have hge : m ≤ xs.foldl max x := by
        rcases hm with rfl | hm
        · exact h2
        · exact h3 _ hm
      omega

/-- `listMin` returns the least element -/
theorem listMin_eq_some_iff (l : List Int) (m : Int) : listMin l = some m ↔ m ∈ l ∧ ∀ x ∈ l, m ≤ x := by
  cases l with
  | nil => simp [listMin]
  | cons x xs =>
    obtain ⟨h1, h2, h3⟩ := foldl_min_spec xs x
    simp only [listMin, Option.some.injEq, List.mem_cons, forall_eq_or_imp]
    constructor
    · rintro rfl
      exact ⟨h1, h2, h3⟩
    · rintro ⟨hm, hx, hxs⟩
      have hle : m ≤ xs.foldl min x := by
        rcases h1 with h1 | h1
        · rw [h1]; exact hx
        · exact hxs _ h1
      have hge : xs.foldl min x ≤ m := by
        rcases hm with rfl | hm
        · exact h2
        · exact h3 _ hm
      omega

/-! ### the lookups are scans of the node map -/

/-- **`get_nodes_at_lag(l)`** : exactly the nodes whose stored lag is `l` -/
theorem mem_nodesAtLag (g : Graph) (l : Int) (n : String) :
    n ∈ nodesAtLag g l ↔ ∃ r, g.nodes[n]? = some r ∧ r.lag = l := by
  simp only [nodesAtLag, List.mem_map, List.mem_filter, decide_eq_true_eq]
  constructor
  · rintro ⟨⟨m, r⟩, ⟨h1, h2⟩, rfl⟩
    exact ⟨r, (mem_nodeList g m r).mp h1, h2⟩
  · rintro ⟨r, h1, h2⟩
    exact ⟨(n, r), ⟨(mem_nodeList g n r).mpr h1, h2⟩, rfl⟩

/-- **`get_nodes_for_variable_name(v)`** : exactly the nodes whose stored variable is `v` -/
theorem mem_nodesForVariable (g : Graph) (v : String) (n : String) :
    n ∈ nodesForVariable g v ↔ ∃ r, g.nodes[n]? = some r ∧ r.var = v := by
  simp only [nodesForVariable, List.mem_map, List.mem_filter, decide_eq_true_eq]
  constructor
  · rintro ⟨⟨m, r⟩, ⟨h1, h2⟩, rfl⟩
    exact ⟨r, (mem_nodeList g m r).mp h1, h2⟩
  · rintro ⟨r, h1, h2⟩
    exact ⟨(n, r), ⟨(mem_nodeList g n r).mpr h1, h2⟩, rfl⟩

/-- **`variables`** : exactly the variable names that occur … -/
theorem mem_variables (g : Graph) (v : String) :
    v ∈ variables g ↔ ∃ (n : String) (r : NodeRec), g.nodes[n]? = some r ∧ r.var = v := by
  simp only [variables, mem_sortDedup, List.mem_map]
  constructor
  · rintro ⟨⟨m, r⟩, h1, rfl⟩
    exact ⟨m, r, (mem_nodeList g m r).mp h1, rfl⟩
  · rintro ⟨n, r, h1, h2⟩
    exact ⟨(n, r), (mem_nodeList g n r).mpr h1, h2⟩

/-- … as a strictly increasing (so duplicate-free) list -/
theorem variables_sorted (g : Graph) : (variables g).Pairwise (· < ·) := sortDedup_sorted _

theorem variables_nodup (g : Graph) : (variables g).Nodup := sortDedup_nodup _

/-- the lookups list nodes in increasing order of identifier, without repetition -/
theorem nodesAtLag_sorted (g : Graph) (l : Int) : (nodesAtLag g l).Pairwise (· < ·) := by
  unfold nodesAtLag
  rw [List.pairwise_map]
  exact List.Pairwise.filter _ (nodeList_sorted g)

theorem nodesForVariable_sorted (g : Graph) (v : String) : (nodesForVariable g v).Pairwise (· < ·) := by
  unfold nodesForVariable
  rw [List.pairwise_map]
  exact List.Pairwise.filter _ (nodeList_sorted g)

theorem nodesAtLag_nodup (g : Graph) (l : Int) : (nodesAtLag g l).Nodup :=
  nodup_of_pairwise String.lt_irrefl (nodesAtLag_sorted g l)

theorem nodesForVariable_nodup (g : Graph) (v : String) : (nodesForVariable g v).Nodup :=
  nodup_of_pairwise String.lt_irrefl (nodesForVariable_sorted g v)

/-- **`get_contemporaneous_nodes(n)`** raises `KeyError` iff `n` is not a node … -/
theorem contemporaneous_error_iff (g : Graph) (n : String) (e : Err) :
    contemporaneous g n = .error e ↔ e = .keyError ∧ n ∉ g.nodes := by
  unfold contemporaneous
  split <;> rename_i h
  · have : n ∉ g.nodes := by rw [mem_nodes_iff]; simp [h]
    simp [this, eq_comm]
  · rename_i r
    have : n ∈ g.nodes := (mem_nodes_iff g n).mpr ⟨r, h⟩
    simp [this]

/-- … and otherwise returns exactly the *other* nodes with the same lag -/
theorem mem_contemporaneous (g : Graph) (n : String) (l : List String) (h : contemporaneous g n = .ok l)
    (m : String) :
    m ∈ l ↔ m ≠ n ∧ ∃ r rm, g.nodes[n]? = some r ∧ g.nodes[m]? = some rm ∧ rm.lag = r.lag := by
  unfold contemporaneous at h
  split at h
  · cases h
  · rename_i r hr
    simp only [Except.ok.injEq] at h
    subst h
    simp only [List.mem_filter, mem_nodesAtLag, decide_eq_true_eq, ne_eq]
    constructor
    · rintro ⟨⟨rm, h1, h2⟩, h3⟩
      exact ⟨h3, r, rm, hr, h1, h2⟩
    · rintro ⟨h3, r', rm, h0, h1, h2⟩
      rw [hr] at h0; cases h0
      exact ⟨⟨rm, h1, h2⟩, h3⟩

theorem contemporaneous_sorted (g : Graph) (n : String) (l : List String) (h : contemporaneous g n = .ok l) :
    l.Pairwise (· < ·) := by
  unfold contemporaneous at h
  split at h
  · cases h
  · simp only [Except.ok.injEq] at h
    subst h
    exact List.Pairwise.filter _ (nodesAtLag_sorted g _)

theorem mem_lagsOf (g : Graph) (x : Int) : x ∈ lagsOf g ↔ ∃ (n : String) (r : NodeRec), g.nodes[n]? = some r ∧ r.lag = x := by
  simp only [lagsOf, List.mem_map]
  constructor
  · rintro ⟨⟨m, r⟩, h1, rfl⟩
    exact ⟨m, r, (mem_nodeList g m r).mp h1, rfl⟩
  · rintro ⟨n, r, h1, h2⟩
    exact ⟨(n, r), (mem_nodeList g n r).mpr h1, h2⟩

/-- **`max_forward_lag`** is `m` iff some node has lag `m ≥ 0` and no node has a larger lag -/
theorem maxForwardLag_eq_some_iff (g : Graph) (m : Int) :
    maxForwardLag g = some m ↔
      (∃ (n : String) (r : NodeRec), g.nodes[n]? = some r ∧ r.lag = m ∧ 0 ≤ m) ∧
        ∀ (n : String) (r : NodeRec), g.nodes[n]? = some r → 0 ≤ r.lag → r.lag ≤ m := by
  unfold maxForwardLag
  rw [listMax_eq_some_iff]
  simp only [List.mem_filter, mem_lagsOf, decide_eq_true_eq, ge_iff_le]
  constructor
  · rintro ⟨⟨⟨n, r, h1, h2⟩, h3⟩, h4⟩
    exact ⟨⟨n, r, h1, h2, h3⟩, fun n' r' h5 h6 => h4 _ ⟨⟨n', r', h5, rfl⟩, h6⟩⟩
  · rintro ⟨⟨n, r, h1, h2, h3⟩, h4⟩
    refine ⟨⟨⟨n, r, h1, h2⟩, h3⟩, ?_⟩
    rintro x ⟨⟨n', r', h5, rfl⟩, h6⟩
    exact h4 n' r' h5 h6

/-- `max_forward_lag` is `None` iff no node has a lag `≥ 0` -/
theorem maxForwardLag_eq_none_iff (g : Graph) :
    maxForwardLag g = none ↔ ∀ (n : String) (r : NodeRec), g.nodes[n]? = some r → r.lag < 0 := by
  unfold maxForwardLag
  rw [listMax_eq_none_iff, List.filter_eq_nil_iff]
  simp only [mem_lagsOf, decide_eq_true_eq, ge_iff_le]
  constructor
  · intro h n r h1
    have := h r.lag ⟨n, r, h1, rfl⟩
    omega
  · rintro h x ⟨n, r, h1, rfl⟩
    have := h n r h1
    omega

/-- **`max_backward_lag`** is `m` iff some node has lag `-m ≤ 0` and no node has a smaller lag -/
theorem maxBackwardLag_eq_some_iff (g : Graph) (m : Int) :
    maxBackwardLag g = some m ↔
      (∃ (n : String) (r : NodeRec), g.nodes[n]? = some r ∧ r.lag = -m ∧ 0 ≤ m) ∧
        ∀ (n : String) (r : NodeRec), g.nodes[n]? = some r → r.lag ≤ 0 → -m ≤ r.lag := by
  unfold maxBackwardLag
  rw [Option.map_eq_some_iff]
  constructor
  · rintro ⟨a, ha, rfl⟩
    rw [listMin_eq_some_iff] at ha
    simp only [List.mem_filter, mem_lagsOf, decide_eq_true_eq] at ha
    obtain ⟨⟨⟨n, r, h1, h2⟩, h3⟩, h4⟩ := ha
    refine ⟨⟨n, r, h1, by omega, by omega⟩, ?_⟩
    intro n' r' h5 h6
    have := h4 _ ⟨⟨n', r', h5, rfl⟩, h6⟩
    omega
  · rintro ⟨⟨n, r, h1, h2, h3⟩, h4⟩
    refine ⟨-m, ?_, by omega⟩
    rw [listMin_eq_some_iff]
    simp only [List.mem_filter, mem_lagsOf, decide_eq_true_eq]
    refine ⟨⟨⟨n, r, h1, h2⟩, by omega⟩, ?_⟩
    rintro x ⟨⟨n', r', h5, rfl⟩, h6⟩
    exact h4 n' r' h5 h6

/-- `max_backward_lag` is `None` iff no node has a lag `≤ 0` -/
theorem maxBackwardLag_eq_none_iff (g : Graph) :
    maxBackwardLag g = none ↔ ∀ (n : String) (r : NodeRec), g.nodes[n]? = some r → 0 < r.lag := by
  unfold maxBackwardLag
  rw [Option.map_eq_none_iff, listMin_eq_none_iff, List.filter_eq_nil_iff]
  simp only [mem_lagsOf, decide_eq_true_eq]
  constructor
  · intro h n r h1
    have := h r.lag ⟨n, r, h1, rfl⟩
    omega
  · rintro h x ⟨n, r, h1, rfl⟩
    have := h n r h1
    omega

/-- when they exist both maxima are non-negative -/
theorem maxForwardLag_nonneg (g : Graph) (m : Int) (h : maxForwardLag g = some m) : 0 ≤ m := by
  obtain ⟨⟨_, _, _, _, h3⟩, _⟩ := (maxForwardLag_eq_some_iff g m).mp h
  exact h3

theorem maxBackwardLag_nonneg (g : Graph) (m : Int) (h : maxBackwardLag g = some m) : 0 ≤ m := by
  obtain ⟨⟨_, _, _, _, h3⟩, _⟩ := (maxBackwardLag_eq_some_iff g m).mp h
  exact h3

/-- every node is found under its own lag and its own variable, and under no other -/
theorem mem_nodes_iff_mem_nodesAtLag (g : Graph) (n : String) : n ∈ g.nodes ↔ ∃ l, n ∈ nodesAtLag g l := by
  simp only [mem_nodesAtLag, mem_nodes_iff]
  constructor
  · rintro ⟨r, h⟩; exact ⟨r.lag, r, h, rfl⟩
  · rintro ⟨_, r, h, _⟩; exact ⟨r, h⟩

theorem nodesAtLag_disjoint (g : Graph) (n : String) (l l' : Int) (h : n ∈ nodesAtLag g l) (h' : n ∈ nodesAtLag g l') :
    l = l' := by
  obtain ⟨r, h1, h2⟩ := (mem_nodesAtLag g l n).mp h
  obtain ⟨r', h1', h2'⟩ := (mem_nodesAtLag g l' n).mp h'
  rw [h1] at h1'; cases h1'
  exact h2.symm.trans h2'

theorem mem_variables_iff_nodesForVariable (g : Graph) (v : String) :
    v ∈ variables g ↔ ∃ n, n ∈ nodesForVariable g v := by
  simp only [mem_variables, mem_nodesForVariable]

/-! ### under the invariant the lookups are functions of the node names -/

/-- (ts-name), restated: in a well-formed time-series graph the stored (variable, lag) of every node is what
    `get_variable_name_and_lag` computes from its identifier -/
theorem wf_parse (g : Graph) (hwf : WF g) (hts : g.cls = .ts) (n : String) (r : NodeRec)
    (h : g.nodes[n]? = some r) : Name.parse n = some (r.var, r.lag) :=
  (hwf.tsName hts n r h).1

theorem mem_nodesAtLag_parse (g : Graph) (hwf : WF g) (hts : g.cls = .ts) (l : Int) (n : String) :
    n ∈ nodesAtLag g l ↔ n ∈ g.nodes ∧ ∃ v, Name.parse n = some (v, l) := by
  rw [mem_nodesAtLag, mem_nodes_iff]
  constructor
  · rintro ⟨r, h1, rfl⟩
    exact ⟨⟨r, h1⟩, r.var, wf_parse g hwf hts n r h1⟩
  · rintro ⟨⟨r, h1⟩, v, h2⟩
    rw [wf_parse g hwf hts n r h1] at h2
    simp only [Option.some.injEq, Prod.mk.injEq] at h2
    exact ⟨r, h1, h2.2⟩

theorem mem_nodesForVariable_parse (g : Graph) (hwf : WF g) (hts : g.cls = .ts) (v : String) (n : String) :
    n ∈ nodesForVariable g v ↔ n ∈ g.nodes ∧ ∃ l, Name.parse n = some (v, l) := by
  rw [mem_nodesForVariable, mem_nodes_iff]
  constructor
  · rintro ⟨r, h1, rfl⟩
    exact ⟨⟨r, h1⟩, r.lag, wf_parse g hwf hts n r h1⟩
  · rintro ⟨⟨r, h1⟩, l, h2⟩
    rw [wf_parse g hwf hts n r h1] at h2
    simp only [Option.some.injEq, Prod.mk.injEq] at h2
    exact ⟨r, h1, h2.1⟩

theorem mem_variables_parse (g : Graph) (hwf : WF g) (hts : g.cls = .ts) (v : String) :
    v ∈ variables g ↔ ∃ n, n ∈ g.nodes ∧ ∃ l, Name.parse n = some (v, l) := by
  rw [mem_variables_iff_nodesForVariable]
  simp only [mem_nodesForVariable_parse g hwf hts]

theorem mem_contemporaneous_parse (g : Graph) (hwf : WF g) (hts : g.cls = .ts) (n : String) (l : List String)
    (h : contemporaneous g n = .ok l) (m : String) :
    m ∈ l ↔ m ≠ n ∧ m ∈ g.nodes ∧
      ∃ vn vm k, Name.parse n = some (vn, k) ∧ Name.parse m = some (vm, k) := by
  rw [mem_contemporaneous g n l h]
  constructor
  · rintro ⟨h0, r, rm, h1, h2, h3⟩
    refine ⟨h0, (mem_nodes_iff g m).mpr ⟨rm, h2⟩, r.var, rm.var, r.lag, wf_parse g hwf hts n r h1, ?_⟩
    rw [← h3]; exact wf_parse g hwf hts m rm h2
  · rintro ⟨h0, hm, vn, vm, k, h1, h2⟩
    obtain ⟨rm, hrm⟩ := (mem_nodes_iff g m).mp hm
    have hn : n ∈ g.nodes := by
      apply Decidable.byContradiction
      intro hn
      have := (contemporaneous_error_iff g n .keyError).mpr ⟨rfl, hn⟩
      rw [h] at this; cases this
    obtain ⟨r, hr⟩ := (mem_nodes_iff g n).mp hn
    rw [wf_parse g hwf hts n r hr] at h1
    rw [wf_parse g hwf hts m rm hrm] at h2
    simp only [Option.some.injEq, Prod.mk.injEq] at h1 h2
    exact ⟨h0, r, rm, hr, hrm, h2.2.trans h1.2.symm⟩

theorem maxForwardLag_parse (g : Graph) (hwf : WF g) (hts : g.cls = .ts) (m : Int) :
    maxForwardLag g = some m ↔
      (∃ n, n ∈ g.nodes ∧ ∃ v, Name.parse n = some (v, m) ∧ 0 ≤ m) ∧
        ∀ (n : String), n ∈ g.nodes → ∀ (v : String) (k : Int), Name.parse n = some (v, k) → 0 ≤ k → k ≤ m := by
  rw [maxForwardLag_eq_some_iff]
  constructor
  · rintro ⟨⟨n, r, h1, h2, h3⟩, h4⟩
    refine ⟨⟨n, (mem_nodes_iff g n).mpr ⟨r, h1⟩, r.var, ?_, h3⟩, ?_⟩
    · rw [← h2]; exact wf_parse g hwf hts n r h1
    · intro n' hn' v k hp hk
      obtain ⟨r', hr'⟩ := (mem_nodes_iff g n').mp hn'
      rw [wf_parse g hwf hts n' r' hr'] at hp
      simp only [Option.some.injEq, Prod.mk.injEq] at hp
      have := h4 n' r' hr' (by omega)
      omega
  · rintro ⟨⟨n, hn, v, hp, h3⟩, h4⟩
    obtain ⟨r, hr⟩ := (mem_nodes_iff g n).mp hn
    have hp' := wf_parse g hwf hts n r hr
    rw [hp] at hp'
    simp only [Option.some.injEq, Prod.mk.injEq] at hp'
    refine ⟨⟨n, r, hr, hp'.2.symm, h3⟩, ?_⟩
    intro n' r' hr' hk
    exact h4 n' ((mem_nodes_iff g n').mpr ⟨r', hr'⟩) r'.var r'.lag (wf_parse g hwf hts n' r' hr') hk

theorem maxBackwardLag_parse (g : Graph) (hwf : WF g) (hts : g.cls = .ts) (m : Int) :
    maxBackwardLag g = some m ↔
      (∃ n, n ∈ g.nodes ∧ ∃ v, Name.parse n = some (v, -m) ∧ 0 ≤ m) ∧
        ∀ (n : String), n ∈ g.nodes → ∀ (v : String) (k : Int), Name.parse n = some (v, k) → k ≤ 0 → -m ≤ k := by
  rw [maxBackwardLag_eq_some_iff]
  constructor
  · rintro ⟨⟨n, r, h1, h2, h3⟩, h4⟩
    refine ⟨⟨n, (mem_nodes_iff g n).mpr ⟨r, h1⟩, r.var, ?_, h3⟩, ?_⟩
    · rw [← h2]; exact wf_parse g hwf hts n r h1
    · intro n' hn' v k hp hk
      obtain ⟨r', hr'⟩ := (mem_nodes_iff g n').mp hn'
      rw [wf_parse g hwf hts n' r' hr'] at hp
      simp only [Option.some.injEq, Prod.mk.injEq] at hp
      have := h4 n' r' hr' (by omega)
      omega
  · rintro ⟨⟨n, hn, v, hp, h3⟩, h4⟩
    obtain ⟨r, hr⟩ := (mem_nodes_iff g n).mp hn
    have hp' := wf_parse g hwf hts n r hr
    rw [hp] at hp'
    simp only [Option.some.injEq, Prod.mk.injEq] at hp'
    refine ⟨⟨n, r, hr, hp'.2.symm, h3⟩, ?_⟩
    intro n' r' hr' hk
    exact h4 n' ((mem_nodes_iff g n').mpr ⟨r', hr'⟩) r'.var r'.lag (wf_parse g hwf hts n' r' hr') hk

/-! ### the bundled statement -/

/-- what "the lookups equal a scan over the current nodes" means, lookup by lookup -/
structure LookupsSpec (g : Graph) : Prop where
  atLag : ∀ (l : Int) (n : String), n ∈ nodesAtLag g l ↔ ∃ r, g.nodes[n]? = some r ∧ r.lag = l
  atLag_sorted : ∀ l : Int, (nodesAtLag g l).Pairwise (· < ·)
  forVariable : ∀ (v n : String), n ∈ nodesForVariable g v ↔ ∃ r, g.nodes[n]? = some r ∧ r.var = v
  forVariable_sorted : ∀ v : String, (nodesForVariable g v).Pairwise (· < ·)
  variables : ∀ v : String, v ∈ variables g ↔ ∃ (n : String) (r : NodeRec), g.nodes[n]? = some r ∧ r.var = v
  variables_sorted : (CG.variables g).Pairwise (· < ·)
  contemporaneous : ∀ (n : String) (l : List String), contemporaneous g n = .ok l → ∀ m : String,
    m ∈ l ↔ m ≠ n ∧ ∃ r rm, g.nodes[n]? = some r ∧ g.nodes[m]? = some rm ∧ rm.lag = r.lag
  contemporaneous_error : ∀ (n : String) (e : Err), CG.contemporaneous g n = .error e ↔ e = .keyError ∧ n ∉ g.nodes
  maxForward_some : ∀ m : Int, maxForwardLag g = some m ↔
    (∃ (n : String) (r : NodeRec), g.nodes[n]? = some r ∧ r.lag = m ∧ 0 ≤ m) ∧
      ∀ (n : String) (r : NodeRec), g.nodes[n]? = some r → 0 ≤ r.lag → r.lag ≤ m
  maxForward_none : maxForwardLag g = none ↔ ∀ (n : String) (r : NodeRec), g.nodes[n]? = some r → r.lag < 0
  maxBackward_some : ∀ m : Int, maxBackwardLag g = some m ↔
    (∃ (n : String) (r : NodeRec), g.nodes[n]? = some r ∧ r.lag = -m ∧ 0 ≤ m) ∧
      ∀ (n : String) (r : NodeRec), g.nodes[n]? = some r → r.lag ≤ 0 → -m ≤ r.lag
  maxBackward_none : maxBackwardLag g = none ↔ ∀ (n : String) (r : NodeRec), g.nodes[n]? = some r → 0 < r.lag

/-- **C12 `lookups_eq_scan`** (every graph state) -/
theorem lookups_eq_scan (g : Graph) : LookupsSpec g where
  atLag := mem_nodesAtLag g
  atLag_sorted := nodesAtLag_sorted g
  forVariable := mem_nodesForVariable g
  forVariable_sorted := nodesForVariable_sorted g
  variables := mem_variables g
  variables_sorted := variables_sorted g
  contemporaneous := mem_contemporaneous g
  contemporaneous_error := contemporaneous_error_iff g
  maxForward_some := maxForwardLag_eq_some_iff g
  maxForward_none := maxForwardLag_eq_none_iff g
  maxBackward_some := maxBackwardLag_eq_some_iff g
  maxBackward_none := maxBackwardLag_eq_none_iff g

/-- the same in terms of node *names*, for a well-formed time-series graph -/
structure LookupsByName (g : Graph) : Prop where
  parse : ∀ (n : String) (r : NodeRec), g.nodes[n]? = some r → Name.parse n = some (r.var, r.lag)
  atLag : ∀ (l : Int) (n : String), n ∈ nodesAtLag g l ↔ n ∈ g.nodes ∧ ∃ v, Name.parse n = some (v, l)
  forVariable : ∀ (v n : String), n ∈ nodesForVariable g v ↔ n ∈ g.nodes ∧ ∃ l, Name.parse n = some (v, l)
  variables : ∀ v : String, v ∈ variables g ↔ ∃ n, n ∈ g.nodes ∧ ∃ l, Name.parse n = some (v, l)
  contemporaneous : ∀ (n : String) (l : List String), contemporaneous g n = .ok l → ∀ m : String,
    m ∈ l ↔ m ≠ n ∧ m ∈ g.nodes ∧ ∃ vn vm k, Name.parse n = some (vn, k) ∧ Name.parse m = some (vm, k)
  maxForward : ∀ m : Int, maxForwardLag g = some m ↔
    (∃ n, n ∈ g.nodes ∧ ∃ v, Name.parse n = some (v, m) ∧ 0 ≤ m) ∧
      ∀ (n : String), n ∈ g.nodes → ∀ (v : String) (k : Int), Name.parse n = some (v, k) → 0 ≤ k → k ≤ m
  maxBackward : ∀ m : Int, maxBackwardLag g = some m ↔
    (∃ n, n ∈ g.nodes ∧ ∃ v, Name.parse n = some (v, -m) ∧ 0 ≤ m) ∧
      ∀ (n : String), n ∈ g.nodes → ∀ (v : String) (k : Int), Name.parse n = some (v, k) → k ≤ 0 → -m ≤ k

/-- **C12 `lookups_eq_scan`, name form**: with `wf_run` this is "after any history every lookup equals the scan
    of the current node names" -/
theorem lookups_eq_name_scan (g : Graph) (hwf : WF g) (hts : g.cls = .ts) : LookupsByName g where
  parse := wf_parse g hwf hts
  atLag := mem_nodesAtLag_parse g hwf hts
  forVariable := mem_nodesForVariable_parse g hwf hts
  variables := mem_variables_parse g hwf hts
  contemporaneous := mem_contemporaneous_parse g hwf hts
  maxForward := maxForwardLag_parse g hwf hts
  maxBackward := maxBackwardLag_parse g hwf hts

/-! ### non-vacuity -/

/-- a time-series graph: `x lag(n=2)`, `x lag(n=1)`, `x`, `y lag(n=1)`, `y future(n=3)` -/
def gts : Graph :=
  { cls := .ts
    nodes := (∅ : NMap) |>.insert "x" ⟨.unspecified, [], "x", 0⟩
      |>.insert "y lag(n=1)" ⟨.unspecified, [], "y", -1⟩ |>.insert "x lag(n=2)" ⟨.unspecified, [], "x", -2⟩
      |>.insert "y future(n=3)" ⟨.unspecified, [], "y", 3⟩ |>.insert "x lag(n=1)" ⟨.unspecified, [], "x", -1⟩
    edges := (∅ : EMap) |>.insert ("x lag(n=1)", "x") ⟨.directed, []⟩
    gmeta := [] }

example : nodesAtLag gts (-1) = ["x lag(n=1)", "y lag(n=1)"] := by decide
example : nodesForVariable gts "x" = ["x", "x lag(n=1)", "x lag(n=2)"] := by decide
example : variables gts = ["x", "y"] := by decide
example : contemporaneous gts "x lag(n=1)" = .ok ["y lag(n=1)"] := by rfl
example : contemporaneous gts "z" = .error .keyError := by rfl
example : maxForwardLag gts = some 3 ∧ maxBackwardLag gts = some 2 := by decide
example : maxForwardLag (Graph.empty .ts) = none ∧ maxBackwardLag (Graph.empty .ts) = none := by decide

theorem gts_nodeList : gts.nodes.toList =
    [("x", ⟨.unspecified, [], "x", 0⟩), ("x lag(n=1)", ⟨.unspecified, [], "x", -1⟩),
     ("x lag(n=2)", ⟨.unspecified, [], "x", -2⟩), ("y future(n=3)", ⟨.unspecified, [], "y", 3⟩),
     ("y lag(n=1)", ⟨.unspecified, [], "y", -1⟩)] := by decide

theorem gts_mem_edges (s d : String) : (s, d) ∈ gts.edges ↔ s = "x lag(n=1)" ∧ d = "x" := by
  simp only [gts, ExtTreeMap.mem_insert, ExtTreeMap.not_mem_empty, ekCmp_eq_iff, or_false, Prod.mk.injEq]
  constructor <;> rintro ⟨rfl, rfl⟩ <;> exact ⟨rfl, rfl⟩

/-- the example graph meets the hypotheses of `lookups_eq_name_scan` -/
theorem gts_wf : WF gts where
  ends := by
    intro s d h
    obtain ⟨rfl, rfl⟩ := (gts_mem_edges s d).mp h
    decide
  noLoop := by
    intro s h
    obtain ⟨rfl, h2⟩ := (gts_mem_edges s s).mp h
    exact absurd h2 (by decide)
  onePer := by
    intro s d h h2
    obtain ⟨rfl, rfl⟩ := (gts_mem_edges s d).mp h
    obtain ⟨h3, -⟩ := (gts_mem_edges _ _).mp h2
    exact absurd h3 (by decide)
  tsName := by
    intro _ n r h
    rw [← mem_nodeList, gts_nodeList] at h
    simp only [List.mem_cons, Prod.mk.injEq, List.not_mem_nil, or_false] at h
    rcases h with ⟨rfl, rfl⟩ | ⟨rfl, rfl⟩ | ⟨rfl, rfl⟩ | ⟨rfl, rfl⟩ | ⟨rfl, rfl⟩ <;> decide
  tsTime := by
    intro _ s d h
    obtain ⟨rfl, rfl⟩ := (gts_mem_edges s d).mp h
    decide

example : "y lag(n=1)" ∈ nodesAtLag gts (-1) :=
  ((lookups_eq_name_scan gts gts_wf rfl).atLag (-1) "y lag(n=1)").mpr ⟨by decide, "y", by decide⟩

end CG.C12
