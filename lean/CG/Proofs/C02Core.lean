/-
C02 core (edge-list level): the cycle check of the implementation is exact, and checking the destination
after inserting an edge rejects exactly the cycle-closing edges.

* `selfDep_iff`            the worklist of `_assert_node_does_not_depend_on_itself` raises iff the node lies on a
                           directed cycle;
* `anySelfDep_eq_none_iff`, `anySelfDep_eq_some_iff`, `acyclicB_iff`
                           checking every node (the matrix constructor's deferred validation) is acyclicity of
                           the whole graph, and the node reported is the first one (list order) on a cycle;
* `acyclic_insert_iff`     an edge `s → d` keeps an acyclic graph acyclic iff `d` does not already reach `s`
                           (`s = d` included: `acyclic_insert_self`);
* `selfDep_insert_iff`     the check `_set_edge` runs on the destination after the insertion is sound and complete;
* `acyclic_of_subset`, `acyclic_erase`, `acyclic_filter`, `acyclic_congr`
                           removing edges keeps acyclicity; acyclicity depends only on edge membership.
-/
import CG.Model.Acyc
set_option linter.unusedSectionVars false
set_option linter.unusedSimpArgs false

namespace CG.C02
variable {α : Type} [DecidableEq α]

open CG.EL (Rel RTC TC Acyclic preds)
open CG.Acyc

/-! ### the worklist -/

/-- soundness (general state, after the first pop): `true` only if `id` is on a cycle -/
theorem go_sound (E : List (α × α)) (id : α) (todo checked : List α) (hne : checked ≠ [])
    (hc : ∀ c ∈ checked, RTC (Rel E) c id)
    (ht : ∀ x ∈ todo, ∃ c ∈ checked, Rel E x c) :
    go E id todo checked = true → TC (Rel E) id id := by
  induction todo, checked using go.induct (E := E) (id := id) with
  | case1 checked => intro h; rw [go] at h; cases h
  | case2 checked cur todo hcond =>
    intro _
    obtain ⟨rfl, _⟩ := hcond
    obtain ⟨c, hcm, hrel⟩ := ht _ List.mem_cons_self
    exact TC.of_step_rtc hrel (hc c hcm)
  | case3 checked cur todo hcond hmem ih =>
    intro h; rw [go] at h; simp only [hcond, if_false, hmem, dite_true] at h
    exact ih hne hc (fun x hx => ht x (List.mem_cons_of_mem _ hx)) h
  | case4 checked cur todo hcond hmem ih =>
    intro h; rw [go] at h; simp only [hcond, if_false, hmem, dite_false] at h
    obtain ⟨c0, hcm0, hrel0⟩ := ht cur List.mem_cons_self
    have hcur : RTC (Rel E) cur id := RTC.head hrel0 (hc c0 hcm0)
    refine ih (by simp) ?_ ?_ h
    · intro c hcm
      rcases List.mem_cons.mp hcm with h' | h'
      · subst h'; exact hcur
      · exact hc c h'
    · intro x hx
      rcases List.mem_append.mp hx with h' | h'
      · exact ⟨cur, List.mem_cons_self, mem_preds.mp (List.mem_reverse.mp h')⟩
      · obtain ⟨c, hcm, hrel⟩ := ht x (List.mem_cons_of_mem _ h')
        exact ⟨c, List.mem_cons_of_mem _ hcm, hrel⟩

/-- once `id` is waiting in the stack and something has been checked, the loop raises -/
theorem go_true_of_mem (E : List (α × α)) (id : α) (todo checked : List α) (hne : checked ≠ [])
    (hid : id ∈ todo) : go E id todo checked = true := by
  induction todo, checked using go.induct (E := E) (id := id) with
  | case1 checked => simp at hid
  | case2 checked cur todo hcond => rw [go]; simp [hcond]
  | case3 checked cur todo hcond hmem ih =>
    rw [go]; simp only [hcond, if_false, hmem, dite_true]
    apply ih hne
    rcases List.mem_cons.mp hid with h | h
    · subst h; exact absurd ⟨rfl, hne⟩ hcond
    · exact h
  | case4 checked cur todo hcond hmem ih =>
    rw [go]; simp only [hcond, if_false, hmem, dite_false]
    apply ih (by simp)
    rcases List.mem_cons.mp hid with h | h
    · subst h; exact absurd ⟨rfl, hne⟩ hcond
    · exact List.mem_append_right _ h

/-- completeness (general state): if the loop ends quietly, the final checked set is closed under
    predecessors, contains what was given, and none of its members has `id` as a predecessor -/
theorem go_false (E : List (α × α)) (id : α) (todo checked : List α) (hne : checked ≠ [])
    (hinv : ∀ c ∈ checked, ∀ p, Rel E p c → p ∈ checked ∨ p ∈ todo)
    (hno : ∀ c ∈ checked, ¬ Rel E id c) :
    go E id todo checked = false →
      ∃ S : List α, (∀ c ∈ checked, c ∈ S) ∧ (∀ x ∈ todo, x ∈ S) ∧
        (∀ c ∈ S, ∀ p, Rel E p c → p ∈ S) ∧ (∀ c ∈ S, ¬ Rel E id c) := by
  induction todo, checked using go.induct (E := E) (id := id) with
  | case1 checked =>
    intro _
    refine ⟨checked, fun c h => h, by simp, ?_, hno⟩
    intro c hc p hp
    rcases hinv c hc p hp with h | h
    · exact h
    · simp at h
  | case2 checked cur todo hcond => intro h; rw [go] at h; simp [hcond] at h
  | case3 checked cur todo hcond hmem ih =>
    intro h; rw [go] at h; simp only [hcond, if_false, hmem, dite_true] at h
    obtain ⟨S, h1, h2, h3, h4⟩ := ih hne (by
      intro c hc p hp
      rcases hinv c hc p hp with h' | h'
      · exact Or.inl h'
      · rcases List.mem_cons.mp h' with h'' | h''
        · subst h''; exact Or.inl hmem
        · exact Or.inr h'') hno h
    refine ⟨S, h1, ?_, h3, h4⟩
    intro x hx
    rcases List.mem_cons.mp hx with h' | h'
    · subst h'; exact h1 _ hmem
    · exact h2 x h'
  | case4 checked cur todo hcond hmem ih =>
    intro h; rw [go] at h; simp only [hcond, if_false, hmem, dite_false] at h
    -- `id` is not a predecessor of `cur`, otherwise the loop would raise
    have hnoid : ¬ Rel E id cur := by
      intro hrel
      have := go_true_of_mem E id ((preds E cur).reverse ++ todo) (cur :: checked) (by simp)
        (List.mem_append_left _ (List.mem_reverse.mpr (mem_preds.mpr hrel)))
      rw [this] at h; cases h
    obtain ⟨S, h1, h2, h3, h4⟩ := ih (by simp) (by
      intro c hc p hp
      rcases List.mem_cons.mp hc with h' | h'
      · subst h'; exact Or.inr (List.mem_append_left _ (List.mem_reverse.mpr (mem_preds.mpr hp)))
      · rcases hinv c h' p hp with h'' | h''
        · exact Or.inl (List.mem_cons_of_mem _ h'')
        · rcases List.mem_cons.mp h'' with h3 | h3
          · subst h3; exact Or.inl List.mem_cons_self
          · exact Or.inr (List.mem_append_right _ h3)) (by
      intro c hc
      rcases List.mem_cons.mp hc with h' | h'
      · subst h'; exact hnoid
      · exact hno c h') h
    refine ⟨S, fun c hc => h1 c (List.mem_cons_of_mem _ hc), ?_, h3, h4⟩
    intro x hx
    rcases List.mem_cons.mp hx with h' | h'
    · subst h'; exact h1 _ List.mem_cons_self
    · exact h2 x (List.mem_append_right _ h')

/-- the first iteration: `checked` is empty, so the exemption applies and `id` itself is checked -/
theorem selfDep_unfold (E : List (α × α)) (id : α) :
    selfDep E id = go E id ((preds E id).reverse) [id] := by
  unfold selfDep; rw [go]; simp

/-- **The cycle check is exact**: `_assert_node_does_not_depend_on_itself(id)` raises iff `id` lies on a
    directed cycle.  No hypothesis on `E` (duplicates, self-loops, edges to unknown nodes all allowed). -/
theorem selfDep_iff (E : List (α × α)) (id : α) : selfDep E id = true ↔ TC (Rel E) id id := by
  rw [selfDep_unfold]
  constructor
  · apply go_sound E id _ _ (by simp)
    · intro c hc; simp at hc; subst hc; exact .refl _
    · intro x hx; exact ⟨id, by simp, mem_preds.mp (List.mem_reverse.mp hx)⟩
  · intro htc
    cases hgo : go E id ((preds E id).reverse) [id] with
    | true => rfl
    | false =>
      exfalso
      -- no self-loop, otherwise `id ∈ preds id` and the loop raises
      have hnoself : ¬ Rel E id id := by
        intro hrel
        have := go_true_of_mem E id ((preds E id).reverse) [id] (by simp)
          (List.mem_reverse.mpr (mem_preds.mpr hrel))
        rw [this] at hgo; cases hgo
      obtain ⟨S, h1, _, h3, h4⟩ := go_false E id ((preds E id).reverse) [id] (by simp)
        (by intro c hc p hp; simp at hc; subst hc; exact Or.inr (List.mem_reverse.mpr (mem_preds.mpr hp)))
        (by intro c hc; simp at hc; subst hc; exact hnoself) hgo
      -- every ancestor-or-self of `id` is in S
      have hanc : ∀ c, RTC (Rel E) c id → c ∈ S := by
        intro c hc
        have : ∀ a b, RTC (Rel E) a b → b ∈ S → a ∈ S := by
          intro a b hab
          induction hab with
          | refl => exact fun h => h
          | tail _ hbc ih => exact fun hcS => ih (h3 _ hcS _ hbc)
        exact this c id hc (h1 id (by simp))
      obtain ⟨b, hidb, hbid⟩ := TC.split htc
      exact h4 b (hanc b hbid) hidb

-- non-vacuity: a 3-cycle with a tail; the tail node is not on a cycle although it reaches one
example : selfDep [(1, 2), (2, 3), (3, 1), (3, 4)] 2 = true ∧ selfDep [(1, 2), (2, 3), (3, 1), (3, 4)] 4 = false := by
  decide +kernel

/-! ### closure lemmas -/

theorem RTC.mono {R S : α → α → Prop} (h : ∀ a b, R a b → S a b) {a b : α} (hab : RTC R a b) : RTC S a b := by
  induction hab with
  | refl => exact .refl _
  | tail _ hbc ih => exact .tail ih (h _ _ hbc)

theorem TC.mono {R S : α → α → Prop} (h : ∀ a b, R a b → S a b) {a b : α} (hab : TC R a b) : TC S a b := by
  induction hab with
  | single h' => exact .single (h _ _ h')
  | tail _ hbc ih => exact .tail ih (h _ _ hbc)

/-- a cycle starts with an edge, so a node on a cycle is the source of an edge -/
theorem TC.exists_edge_src {E : List (α × α)} {a b : α} (h : TC (Rel E) a b) : ∃ e ∈ E, e.1 = a := by
  obtain ⟨c, hac, _⟩ := TC.split h
  exact ⟨(a, c), hac, rfl⟩

/-- a strictly increasing rank along every edge certifies acyclicity (used for the non-vacuity examples) -/
theorem acyclic_of_rank {E : List (α × α)} (r : α → Nat) (h : ∀ e ∈ E, r e.1 < r e.2) : Acyclic (Rel E) := by
  have key : ∀ a b, TC (Rel E) a b → r a < r b := by
    intro a b hab
    induction hab with
    | single h' => exact h _ h'
    | tail _ hbc ih => exact Nat.lt_trans ih (h _ hbc)
  intro n hn
  exact Nat.lt_irrefl _ (key n n hn)

/-! ### checking every node -/

/-- removing edges keeps a graph acyclic -/
theorem acyclic_of_subset {E E' : List (α × α)} (hsub : ∀ e ∈ E', e ∈ E) (h : Acyclic (Rel E)) :
    Acyclic (Rel E') :=
  fun n hn => h n (TC.mono (fun a b hab => hsub (a, b) hab) hn)

theorem acyclic_erase {E : List (α × α)} (e : α × α) (h : Acyclic (Rel E)) : Acyclic (Rel (E.erase e)) :=
  acyclic_of_subset (fun _ he => List.mem_of_mem_erase he) h

theorem acyclic_filter {E : List (α × α)} (p : α × α → Bool) (h : Acyclic (Rel E)) :
    Acyclic (Rel (E.filter p)) :=
  acyclic_of_subset (fun _ he => (List.mem_filter.mp he).1) h

/-- acyclicity depends only on which edges are present, not on their order or multiplicity -/
theorem acyclic_congr {E E' : List (α × α)} (h : ∀ e, e ∈ E ↔ e ∈ E') :
    Acyclic (Rel E) ↔ Acyclic (Rel E') :=
  ⟨acyclic_of_subset (fun e he => (h e).mpr he), acyclic_of_subset (fun e he => (h e).mp he)⟩

/-- so does the verdict of the check on any single node -/
theorem selfDep_congr {E E' : List (α × α)} (h : ∀ e, e ∈ E ↔ e ∈ E') (n : α) :
    selfDep E n = selfDep E' n := by
  have : selfDep E n = true ↔ selfDep E' n = true := by
    rw [selfDep_iff, selfDep_iff]
    exact ⟨TC.mono (fun a b hab => (h (a, b)).mp hab), TC.mono (fun a b hab => (h (a, b)).mpr hab)⟩
  cases h1 : selfDep E n <;> cases h2 : selfDep E' n <;> simp_all

/-- the validation loop finds nothing iff no listed node is on a cycle -/
theorem anySelfDep_eq_none_iff' (E : List (α × α)) (nodes : List α) :
    anySelfDep E nodes = none ↔ ∀ n ∈ nodes, ¬ TC (Rel E) n n := by
  unfold anySelfDep
  rw [List.find?_eq_none]
  constructor
  · intro h n hn htc; exact h n hn ((selfDep_iff E n).mpr htc)
  · intro h n hn hsd; exact h n hn ((selfDep_iff E n).mp hsd)

/-- the node reported by the validation loop is the first node, in list order, that lies on a cycle -/
theorem anySelfDep_eq_some_iff (E : List (α × α)) (nodes : List α) (n : α) :
    anySelfDep E nodes = some n ↔
      TC (Rel E) n n ∧ ∃ l₁ l₂, nodes = l₁ ++ n :: l₂ ∧ ∀ m ∈ l₁, ¬ TC (Rel E) m m := by
  unfold anySelfDep
  rw [List.find?_eq_some_iff_append, selfDep_iff]
  constructor
  · rintro ⟨h1, l₁, l₂, h2, h3⟩
    refine ⟨h1, l₁, l₂, h2, ?_⟩
    intro m hm htc
    have := h3 m hm
    rw [(selfDep_iff E m).mpr htc] at this; cases this
  · rintro ⟨h1, l₁, l₂, h2, h3⟩
    refine ⟨h1, l₁, l₂, h2, ?_⟩
    intro m hm
    cases hsd : selfDep E m with
    | false => rfl
    | true => exact absurd ((selfDep_iff E m).mp hsd) (h3 m hm)

/-- when every edge source is a listed node, "no listed node is on a cycle" is acyclicity of the whole graph -/
theorem forall_nodes_iff_acyclic {E : List (α × α)} {nodes : List α} (hE : ∀ e ∈ E, e.1 ∈ nodes ∧ e.2 ∈ nodes) :
    (∀ n ∈ nodes, ¬ TC (Rel E) n n) ↔ Acyclic (Rel E) := by
  constructor
  · intro h n htc
    obtain ⟨e, he, rfl⟩ := TC.exists_edge_src htc
    exact h e.1 (hE e he).1 htc
  · intro h n _; exact h n

/-- **Deferred validation is exact**: checking every node (as `from_adjacency_matrix` does after inserting all
    edges unvalidated) succeeds iff the whole directed-edge relation is acyclic. -/
theorem anySelfDep_eq_none_iff {E : List (α × α)} {nodes : List α} (hE : ∀ e ∈ E, e.1 ∈ nodes ∧ e.2 ∈ nodes) :
    anySelfDep E nodes = none ↔ Acyclic (Rel E) := by
  rw [anySelfDep_eq_none_iff', forall_nodes_iff_acyclic hE]

theorem acyclicB_iff' (E : List (α × α)) (nodes : List α) :
    acyclicB E nodes = true ↔ ∀ n ∈ nodes, ¬ TC (Rel E) n n := by
  unfold acyclicB
  rw [List.all_eq_true]
  constructor
  · intro h n hn htc
    have := h n hn
    rw [(selfDep_iff E n).mpr htc] at this; cases this
  · intro h n hn
    cases hsd : selfDep E n with
    | false => rfl
    | true => exact absurd ((selfDep_iff E n).mp hsd) (h n hn)

/-- **`acyclicB` decides acyclicity** (every edge joins listed nodes; no other hypothesis). -/
theorem acyclicB_iff {E : List (α × α)} {nodes : List α} (hE : ∀ e ∈ E, e.1 ∈ nodes ∧ e.2 ∈ nodes) :
    acyclicB E nodes = true ↔ Acyclic (Rel E) := by
  rw [acyclicB_iff', forall_nodes_iff_acyclic hE]

theorem acyclicB_eq_isNone (E : List (α × α)) (nodes : List α) :
    acyclicB E nodes = (anySelfDep E nodes).isNone := by
  cases h : anySelfDep E nodes with
  | none =>
    have := (anySelfDep_eq_none_iff' E nodes).mp h
    simpa using (acyclicB_iff' E nodes).mpr this
  | some n =>
    obtain ⟨h1, l₁, l₂, h2, _⟩ := (anySelfDep_eq_some_iff E nodes n).mp h
    cases hb : acyclicB E nodes with
    | false => rfl
    | true => exact absurd h1 ((acyclicB_iff' E nodes).mp hb n (by rw [h2]; simp))

-- non-vacuity: hypotheses met by a cyclic and an acyclic graph; the first cyclic node in list order is reported
example : (∀ e ∈ [(1, 2), (2, 3), (3, 2)], e.1 ∈ [1, 2, 3] ∧ e.2 ∈ [1, 2, 3]) ∧
    acyclicB [(1, 2), (2, 3), (3, 2)] [1, 2, 3] = false ∧ anySelfDep [(1, 2), (2, 3), (3, 2)] [1, 3, 2] = some 3 ∧
    acyclicB [(1, 2), (2, 3), (1, 3)] [1, 2, 3] = true := by decide +kernel

/-! ### inserting one edge -/

/-- a walk in `E + (s,d)` either avoids the new edge, or `d` already reaches `s`, or it splits at the new edge -/
theorem tc_cons_cases {E : List (α × α)} {s d a b : α} (h : TC (Rel ((s, d) :: E)) a b) :
    TC (Rel E) a b ∨ RTC (Rel E) d s ∨ (RTC (Rel E) a s ∧ RTC (Rel E) d b) := by
  induction h with
  | @single b hab =>
    rcases List.mem_cons.mp hab with h | h
    · simp only [Prod.mk.injEq] at h
      obtain ⟨rfl, rfl⟩ := h
      exact .inr (.inr ⟨.refl _, .refl _⟩)
    · exact .inl (.single h)
  | @tail b c _ hbc ih =>
    rcases List.mem_cons.mp hbc with h | h
    · simp only [Prod.mk.injEq] at h
      obtain ⟨rfl, rfl⟩ := h
      rcases ih with ih | ih | ih
      · exact .inr (.inr ⟨TC.toRTC ih, .refl _⟩)
      · exact .inr (.inl ih)
      · exact .inr (.inl ih.2)
    · rcases ih with ih | ih | ih
      · exact .inl (.tail ih h)
      · exact .inr (.inl ih)
      · exact .inr (.inr ⟨ih.1, .tail ih.2 h⟩)

/-- if `d` already reaches `s`, the new edge `s → d` puts `d` on a cycle -/
theorem tc_cons_of_rtc {E : List (α × α)} {s d : α} (h : RTC (Rel E) d s) : TC (Rel ((s, d) :: E)) d d := by
  have h' : RTC (Rel ((s, d) :: E)) d s := RTC.mono (fun a b hab => List.mem_cons_of_mem _ hab) h
  rcases RTC.cases_tc h' with rfl | h''
  · exact .single List.mem_cons_self
  · exact .tail h'' List.mem_cons_self

/-- **Exactly the cycle-closing edges break acyclicity**: inserting `s → d` into an acyclic graph keeps it acyclic
    iff `d` does not already reach `s` (reflexively: `s = d` always closes a cycle). -/
theorem acyclic_insert_iff {E : List (α × α)} {s d : α} (hac : Acyclic (Rel E)) :
    Acyclic (Rel ((s, d) :: E)) ↔ ¬ RTC (Rel E) d s := by
  constructor
  · intro h hds; exact h d (tc_cons_of_rtc hds)
  · intro h n hn
    rcases tc_cons_cases hn with h1 | h1 | h1
    · exact hac n h1
    · exact h h1
    · exact h (RTC.trans h1.2 h1.1)

theorem acyclic_insert_self (E : List (α × α)) (s : α) : ¬ Acyclic (Rel ((s, s) :: E)) :=
  fun h => h s (.single List.mem_cons_self)

/-- the direction used for preservation: an accepted edge keeps the graph acyclic -/
theorem acyclic_insert {E : List (α × α)} {s d : α} (hac : Acyclic (Rel E)) (h : ¬ RTC (Rel E) d s) :
    Acyclic (Rel ((s, d) :: E)) := (acyclic_insert_iff hac).mpr h

/-- **`_set_edge`'s check is sound and complete**: after inserting `s → d` into an acyclic graph, the check on the
    destination `d` raises iff `d` already reached `s`, i.e. (by `acyclic_insert_iff`) iff the new graph is cyclic. -/
theorem selfDep_insert_iff {E : List (α × α)} {s d : α} (hac : Acyclic (Rel E)) :
    selfDep ((s, d) :: E) d = true ↔ RTC (Rel E) d s := by
  rw [selfDep_iff]
  constructor
  · intro h
    rcases tc_cons_cases h with h1 | h1 | h1
    · exact absurd h1 (hac d)
    · exact h1
    · exact h1.1
  · exact tc_cons_of_rtc

/-- the two previous theorems combined: the edge is rejected iff the graph with the edge is cyclic -/
theorem selfDep_insert_iff_cyclic {E : List (α × α)} {s d : α} (hac : Acyclic (Rel E)) :
    selfDep ((s, d) :: E) d = false ↔ Acyclic (Rel ((s, d) :: E)) := by
  rw [acyclic_insert_iff hac, ← selfDep_insert_iff hac]
  cases selfDep ((s, d) :: E) d <;> simp

/-- the position of the new edge in the list is irrelevant (the implementation appends to per-node lists) -/
theorem selfDep_insert_iff_of_mem {E E' : List (α × α)} {s d : α} (hac : Acyclic (Rel E))
    (hE' : ∀ e, e ∈ E' ↔ e = (s, d) ∨ e ∈ E) :
    selfDep E' d = true ↔ RTC (Rel E) d s := by
  rw [selfDep_congr (E' := (s, d) :: E) (by intro e; rw [hE', List.mem_cons]), selfDep_insert_iff hac]

-- non-vacuity: `1 → 2 → 3` is acyclic; `3 → 1` closes a cycle and is flagged, `1 → 3` does not and is not
example : acyclicB [(1, 2), (2, 3)] [1, 2, 3] = true ∧ selfDep ((3, 1) :: [(1, 2), (2, 3)]) 1 = true ∧
    selfDep ((1, 3) :: [(1, 2), (2, 3)]) 3 = false := by decide +kernel

example : Acyclic (Rel [(1, 2), (2, 3)]) := acyclic_of_rank (fun n => n) (by decide)

example : Acyclic (Rel [(1, 2), (2, 3)]) :=
  (acyclicB_iff (nodes := [1, 2, 3]) (by decide)).mp (by decide +kernel)

end CG.C02
