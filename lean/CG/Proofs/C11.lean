/-
C11 -- d-separation answers match the graphical definition.

The model (`CG/Model/DSep.lean`) decides d-separation by enumerating the simple paths of the skeleton; the theorems
below say that, whenever the modelled `is_d_separated` / `is_minimally_d_separated` return at all, their answer is the
textbook path-blocking notion `CG.DSepDec.DSep` -- the same definition C20 uses for the Markov boundary.

That networkx's `d_separated`, `minimal_d_separator`, `is_minimal_d_separator` agree with the model is *measured* by
lane C11 (every labelled DAG up to 5 nodes), not proved.
-/
import CG.Model.DSep
import CG.Proofs.Lemmas.DSepAux
set_option linter.unusedSectionVars false
set_option linter.unusedSimpArgs false

namespace CG.C11
variable {α : Type} [DecidableEq α]
open CG.DSepDec CG.DSepAux

/-! ## when the calls return, and with what -/

theorem isDag_iff (fd : Bool) (E : List (α × α)) :
    isDag fd E = true ↔ fd = true ∧ CG.EL.Acyclic (CG.EL.Rel E) := by
  unfold isDag
  rw [Bool.and_eq_true, acyclicB_iff]

theorem all_present_iff (nodes X Y Z : List α) :
    (X ++ Y ++ Z).all (fun n => decide (n ∈ nodes)) = true ↔ ∀ n, n ∈ X ∨ n ∈ Y ∨ n ∈ Z → n ∈ nodes := by
  simp only [List.all_eq_true, List.mem_append, decide_eq_true_eq, or_assoc]

/-- `is_d_separated` returns exactly on DAGs all of whose named nodes are present, and then returns the set test;
    (`isDSeparated_total`: in every other case it raises `AssertionError`) -/
theorem isDSeparated_ok_iff (fd : Bool) (nodes : List α) (E : List (α × α)) (X Y Z : List α) (b : Bool) :
    isDSeparated fd nodes E X Y Z = .ok b ↔
      (fd = true ∧ CG.EL.Acyclic (CG.EL.Rel E)) ∧ (∀ n, n ∈ X ∨ n ∈ Y ∨ n ∈ Z → n ∈ nodes) ∧
        b = dsepSetsB E X Y Z := by
  unfold isDSeparated
  rw [← isDag_iff, ← all_present_iff]
  cases h1 : isDag fd E <;> cases h2 : (X ++ Y ++ Z).all (fun n => decide (n ∈ nodes)) <;>
    simp [eq_comm]

theorem isDSeparated_total (fd : Bool) (nodes : List α) (E : List (α × α)) (X Y Z : List α) :
    (∃ b, isDSeparated fd nodes E X Y Z = .ok b) ∨ isDSeparated fd nodes E X Y Z = .error .AssertionError := by
  unfold isDSeparated
  split
  · exact Or.inr rfl
  · split
    · exact Or.inr rfl
    · exact Or.inl ⟨_, rfl⟩

/-! ## the central statements -/

/-- **C11, first half, every input.**  Whenever `is_d_separated(X, Y, Z)` returns, it returns `True` exactly when every
    `x ∈ X` is separated from every `y ∈ Y` in the sense networkx implements (`DSepX`: path blocking, plus the
    endpoint rule for conditioning sets that contain an end node). -/
theorem isDSeparated_iff_DSepX {fd : Bool} {nodes : List α} {E : List (α × α)} {X Y Z : List α} {b : Bool}
    (h : isDSeparated fd nodes E X Y Z = .ok b) :
    b = true ↔ ∀ x ∈ X, ∀ y ∈ Y, DSepX E x y Z := by
  obtain ⟨_, _, rfl⟩ := (isDSeparated_ok_iff fd nodes E X Y Z b).mp h
  exact dsepSetsB_iff E X Y Z

/-- **C11, first half, as the property states it.**  For `Z` disjoint from `X` and `Y`: `is_d_separated(X, Y, Z)` is
    true exactly when every path between `X` and `Y` is blocked by `Z` (a non-collider in `Z`, or a collider with no
    descendant-or-self in `Z`). -/
theorem isDSeparated_iff_DSep {fd : Bool} {nodes : List α} {E : List (α × α)} {X Y Z : List α} {b : Bool}
    (h : isDSeparated fd nodes E X Y Z = .ok b) (hX : ∀ x ∈ X, x ∉ Z) (hY : ∀ y ∈ Y, y ∉ Z) :
    b = true ↔ ∀ x ∈ X, ∀ y ∈ Y, DSep E x y Z := by
  rw [isDSeparated_iff_DSepX h]
  constructor
  · intro hd x hx y hy; exact (dsepX_iff_dsep (hX x hx) (hY y hy)).mp (hd x hx y hy)
  · intro hd x hx y hy; exact (dsepX_iff_dsep (hX x hx) (hY y hy)).mpr (hd x hx y hy)

/-- `Z` d-separates `x` and `y`, and no single element can be removed from it -/
def MinimalSep (E : List (α × α)) (x y : α) (Z : List α) : Prop :=
  DSep E x y Z ∧ ∀ z ∈ Z, ¬ DSep E x y (Z.filter (fun w => w ≠ z))

/-- such a set never contains an end node (an end node can always be removed) -/
theorem minimalSep_avoids_ends {E : List (α × α)} {x y : α} {Z : List α} (h : MinimalSep E x y Z) :
    x ∉ Z ∧ y ∉ Z :=
  ⟨fun hx => h.2 x hx (dsep_drop_left h.1), fun hy => h.2 y hy (dsep_drop_right h.1)⟩

/-- the predicate the driver applies to the answer of `get_d_separation_set`, and the model of
    `networkx.is_minimal_d_separator` (which in 3.2.1 verifies separation itself) -/
theorem isMinimalSep_iff (E : List (α × α)) (x y : α) (Z : List α) :
    isMinimalSepB E x y Z = true ↔ MinimalSep E x y Z := by
  unfold isMinimalSepB isSeparatorB
  simp only [Bool.and_eq_true, decide_eq_true_eq, List.all_eq_true, Bool.not_eq_true', dsepB_iff,
    ← Bool.not_eq_true, and_assoc]
  constructor
  · rintro ⟨_, _, h3, h4⟩; exact ⟨h3, h4⟩
  · intro h; exact ⟨(minimalSep_avoids_ends h).1, (minimalSep_avoids_ends h).2, h.1, h.2⟩

/-- **C11, second half.**  Whenever `is_minimally_d_separated(x, y, Z)` returns, it returns `True` exactly for the
    separating sets from which no node can be removed. -/
theorem isMinimallyDSeparated_iff {fd : Bool} {nodes : List α} {E : List (α × α)} {x y : α} {Z : List α} {b : Bool}
    (h : isMinimallyDSeparated fd nodes E x y Z = .ok b) :
    b = true ↔ MinimalSep E x y Z := by
  rw [← isMinimalSep_iff]
  unfold isMinimallyDSeparated at h
  split at h
  · cases h
  · split at h
    · cases h
    · split at h
      · rename_i hmin
        obtain ⟨_, _, rfl⟩ := (isDSeparated_ok_iff fd nodes E [x] [y] Z b).mp h
        have hm := (isMinimalSep_iff E x y Z).mp hmin
        have hends := minimalSep_avoids_ends hm
        have : dsepSetsB E [x] [y] Z = true := by
          rw [dsepSetsB_iff]
          intro x' hx' y' hy'
          simp only [List.mem_singleton] at hx' hy'
          subst hx' hy'
          exact (dsepX_iff_dsep hends.1 hends.2).mpr hm.1
        rw [this, hmin]
      · rename_i hmin
        cases h
        simp only [Bool.not_eq_true] at hmin
        rw [hmin]

theorem isMinimallyDSeparated_ok_iff (fd : Bool) (nodes : List α) (E : List (α × α)) (x y : α) (Z : List α) :
    (∃ b, isMinimallyDSeparated fd nodes E x y Z = .ok b) ↔
      (fd = true ∧ CG.EL.Acyclic (CG.EL.Rel E)) ∧ x ∈ nodes ∧ y ∈ nodes ∧ ∀ z ∈ Z, z ∈ nodes := by
  rw [← isDag_iff]
  have hp : ([x, y] ++ Z).all (fun n => decide (n ∈ nodes)) = true ↔ x ∈ nodes ∧ y ∈ nodes ∧ ∀ z ∈ Z, z ∈ nodes := by
    simp [List.all_eq_true]
  rw [← hp]
  unfold isMinimallyDSeparated
  cases h1 : isDag fd E
  · simp
  · cases h2 : ([x, y] ++ Z).all (fun n => decide (n ∈ nodes))
    · simp
    · simp only [Bool.not_true, Bool.false_eq_true, if_false, and_self, iff_true]
      split
      · refine ⟨_, (isDSeparated_ok_iff fd nodes E [x] [y] Z _).mpr ⟨(isDag_iff fd E).mp h1, ?_, rfl⟩⟩
        have h2' := hp.mp h2
        intro n hn
        simp only [List.mem_singleton] at hn
        rcases hn with rfl | rfl | hn
        · exact h2'.1
        · exact h2'.2.1
        · exact h2'.2.2 n hn
      · exact ⟨false, rfl⟩

/-! ## swapped arguments, adjacent nodes, `get_d_separation_set` -/

/-- d-separation is symmetric in the two end nodes -/
theorem dsep_symm_iff (E : List (α × α)) (x y : α) (Z : List α) : DSep E x y Z ↔ DSep E y x Z :=
  ⟨dsep_symm, dsep_symm⟩

/-- nothing separates two adjacent nodes, whichever way the edge is stored -/
theorem adjacent_not_dsep {E : List (α × α)} {x y : α} (Z : List α) (hxy : x ≠ y)
    (h : (x, y) ∈ E ∨ (y, x) ∈ E) : ¬ DSep E x y Z :=
  CG.DSepAux.adjacent_not_dsep Z hxy h

/-- nothing separates a node from itself -/
theorem self_not_dsep (E : List (α × α)) (x : α) (Z : List α) : ¬ DSep E x x Z :=
  CG.DSepAux.self_not_dsep E x Z

/-- hence no answer of `get_d_separation_set` for an adjacent pair can pass the validity predicate -/
theorem adjacent_not_minimalSep {E : List (α × α)} {x y : α} (Z : List α) (hxy : x ≠ y)
    (h : (x, y) ∈ E ∨ (y, x) ∈ E) : isMinimalSepB E x y Z = false := by
  rw [← Bool.not_eq_true, isMinimalSep_iff]
  intro hm
  exact adjacent_not_dsep Z hxy h hm.1

/-- `get_d_separation_set(x, y)` gets past its assertions exactly on DAGs holding both nodes with no edge stored as
    `(x, y)`.  An edge stored as `(y, x)` does NOT stop it (see `getpre_reverse_edge_passes`). -/
theorem getDSeparationSetPre_ok_iff (fd : Bool) (nodes : List α) (E : List (α × α)) (x y : α) :
    getDSeparationSetPre fd nodes E x y = .ok () ↔
      (fd = true ∧ CG.EL.Acyclic (CG.EL.Rel E)) ∧ x ∈ nodes ∧ y ∈ nodes ∧ (x, y) ∉ E := by
  rw [← isDag_iff]
  unfold getDSeparationSetPre
  by_cases h1 : isDag fd E = true
  · by_cases h2 : x ∈ nodes <;> by_cases h3 : y ∈ nodes <;> by_cases h4 : (x, y) ∈ E <;>
      simp [h1, h2, h3, h4]
  · have h1b : isDag fd E = false := by simpa using h1
    simp [h1b]

theorem getDSeparationSetPre_total (fd : Bool) (nodes : List α) (E : List (α × α)) (x y : α) :
    getDSeparationSetPre fd nodes E x y = .ok () ∨ getDSeparationSetPre fd nodes E x y = .error .AssertionError := by
  unfold getDSeparationSetPre
  split
  · exact Or.inr rfl
  · split
    · exact Or.inr rfl
    · split
      · exact Or.inr rfl
      · exact Or.inl rfl

/-! ## argument coercion: only the *sets* of identifiers matter -/

/-- duplicates and order in the three collections are irrelevant (list form = set form) -/
theorem dsepSets_congr (E : List (α × α)) {X X' Y Y' Z Z' : List α}
    (hX : ∀ a, a ∈ X ↔ a ∈ X') (hY : ∀ a, a ∈ Y ↔ a ∈ Y') (hZ : ∀ a, a ∈ Z ↔ a ∈ Z') :
    dsepSetsB E X Y Z = dsepSetsB E X' Y' Z' := by
  rw [Bool.eq_iff_iff, dsepSetsB_iff, dsepSetsB_iff]
  constructor
  · intro h x hx y hy
    exact (dsepX_congr hZ x y).mp (h x ((hX x).mpr hx) y ((hY y).mpr hy))
  · intro h x hx y hy
    exact (dsepX_congr hZ x y).mpr (h x ((hX x).mp hx) y ((hY y).mp hy))

/-- a bare identifier is the singleton collection; for `Z` avoiding both it is the two-node decision `dsepB` -/
theorem dsepSets_singleton (E : List (α × α)) (x y : α) (Z : List α) :
    dsepSetsB E [x] [y] Z = dsepXB E x y Z := by
  simp [dsepSetsB]

theorem dsepSets_singleton_disjoint (E : List (α × α)) {x y : α} {Z : List α} (hx : x ∉ Z) (hy : y ∉ Z) :
    dsepSetsB E [x] [y] Z = dsepB E x y Z := by
  rw [dsepSets_singleton, dsepXB_eq_dsepB hx hy]

/-- swapping the first two arguments does not change the answer -/
theorem dsepSets_swap (E : List (α × α)) (X Y Z : List α) : dsepSetsB E X Y Z = dsepSetsB E Y X Z := by
  rw [Bool.eq_iff_iff, dsepSetsB_iff, dsepSetsB_iff]
  constructor
  · intro h y hy x hx; exact dsepX_symm (h x hx y hy)
  · intro h x hx y hy; exact dsepX_symm (h y hy x hx)

/-! ## non-vacuity -/

/-- the graph `1 → 2 ← 3, 2 → 4` -/
def exE : List (Nat × Nat) := [(1, 2), (3, 2), (2, 4)]

theorem exE_acyclic : CG.EL.Acyclic (CG.EL.Rel exE) :=
  acyclic_of_rank (fun n => if n = 2 then 1 else if n = 4 then 2 else 0) (by
    intro a b h
    simp only [CG.EL.Rel, exE, List.mem_cons, Prod.mk.injEq, List.not_mem_nil, or_false] at h
    rcases h with ⟨rfl, rfl⟩ | ⟨rfl, rfl⟩ | ⟨rfl, rfl⟩ <;> decide)

/-- the hypotheses of `isDSeparated_iff_DSep` are met by a query that conditions on the descendant of a collider -/
example : ∃ b, isDSeparated true [1, 2, 3, 4] exE [1] [3] [4] = .ok b ∧ (∀ x ∈ [1], x ∉ [4]) ∧ (∀ y ∈ [3], y ∉ [4]) :=
  ⟨_, (isDSeparated_ok_iff true [1, 2, 3, 4] exE [1] [3] [4] _).mpr
    ⟨⟨rfl, exE_acyclic⟩, by simp, rfl⟩, by simp, by simp⟩

/-- ... and that query is answered "not separated": the collider `2` has its descendant `4` in `Z` -/
example : ¬ DSep exE 1 3 [4] := by
  intro h
  have hw : CG.Paths.Walk (sym exE) 1 3 [1, 2, 3] :=
    .cons (show CG.EL.Rel (sym exE) 1 2 from mem_sym.mpr (Or.inl (by simp [exE])))
      (.cons (show CG.EL.Rel (sym exE) 2 3 from mem_sym.mpr (Or.inr (by simp [exE]))) (.single 3))
  have := h [1, 2, 3] hw (by decide)
  simp only [Blocked, BlocksAt, or_false] at this
  rcases this with ⟨_, h2⟩ | ⟨h1, _⟩
  · exact h2 4 (.tail (.refl 2) (show CG.EL.Rel exE 2 4 by simp [CG.EL.Rel, exE])) (by simp)
  · exact h1 ⟨by simp [exE], by simp [exE]⟩

/-- a chain is separated by its middle node, and that separator is minimal (evaluated by the kernel) -/
example : isMinimalSepB [(1, 2), (2, 3)] 1 3 [2] = true := by decide

/-- `get_d_separation_set(1, 2)` on the single edge `2 → 1` passes every assertion although the nodes are adjacent -/
theorem getpre_reverse_edge_passes : getDSeparationSetPre true [1, 2] [(2, 1)] 1 2 = .ok () :=
  (getDSeparationSetPre_ok_iff true [1, 2] [(2, 1)] 1 2).mpr
    ⟨⟨rfl, acyclic_of_rank (fun n => if n = 2 then 0 else 1) (by
      intro a b h
      simp only [CG.EL.Rel, List.mem_cons, Prod.mk.injEq, List.not_mem_nil, or_false] at h
      obtain ⟨rfl, rfl⟩ := h; decide)⟩, by simp, by simp, by simp⟩

end CG.C11
