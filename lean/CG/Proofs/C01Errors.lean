/-
C01, the clause "every call either applies exactly the model's effect or is rejected with the documented error":
the decision logic of every single-element mutator of the reference model, stated outright.

For each operation: the exact effect on success, and for EACH error class an `iff` with the condition — on the
input state and the arguments only — under which that class is the one returned.  The conditions of one operation
are listed in the order the code checks, each containing the negation of the earlier ones, so they exclude each
other by construction.  `documented op` lists the classes an operation can raise; `error_classes_documented` says no
other class ever leaves a mutator on a well-formed graph, and every listed class is shown to occur by an example.

Vocabulary (defined in `Lemmas/ErrTables.lean`; all decidable):
  `NameOk c id`      plain class: always; time-series class: `Name.parse id ≠ none`
  `nodeRecFor c id vt m`   the record the node constructor builds (ts: variable / lag parsed from the identifier,
                     reserved metadata keys stripped)
  `e.Ok g`           endpoint `e` of `add_edge` is a node of `g` already, or `NameOk g.cls e.id`
  `g.ensure e`       `g` plus the endpoint if it was missing (`e.newRec`: bare record for an identifier)
  `TsLater g a b`    `g` is a time-series graph and the name `a` parses to a strictly later lag than the name `b`
                     (for nodes of a well-formed graph this is the stored lag; for endpoints created implicitly it
                     is the lag they get)
  `nkey g a b`       `(b, a)` if `TsLater g a b`, else `(a, b)`: the key the edge constructor stores
  `EdgeMatches g s d ty?`   an edge is stored at `(s, d)` and, if a type was given, it is the stored type

Cycle clauses are stated through `selfDepR` of the post-insertion directed edge list (no hypothesis), and again
through reachability in the directed edges of the input graph under `AcyclicG g`.
-/
import CG.Proofs.Lemmas.ErrTables
import CG.Proofs.C03

namespace CG.C01
open CG Std EL

/-! ## `add_node` -/

/-- **`add_node(identifier, …)`**: the constructor runs first (`ValueError` for a time-series name outside the
    grammar), the duplicate check second -/
theorem addNode_spec (g : Graph) (id : String) (vt : VType) (m : Meta) :
    (addNode g id vt m = .error .valueError ↔ ¬ NameOk g.cls id) ∧
    (addNode g id vt m = .error .nodeDuplicated ↔ NameOk g.cls id ∧ id ∈ g.nodes) ∧
    (∀ g', addNode g id vt m = .ok g' ↔
      NameOk g.cls id ∧ id ∉ g.nodes ∧ g' = g.insNode id (nodeRecFor g.cls id vt m)) ∧
    (∀ e, addNode g id vt m = .error e → e = .valueError ∨ e = .nodeDuplicated) := by
  by_cases h1 : NameOk g.cls id
  · by_cases h2 : id ∈ g.nodes
    · simp [addNode_dup h1 h2, h1, h2]
    · simp [addNode_fresh h1 h2, h1, h2, eq_comm]
  · simp [addNode_bad h1, h1]

/-- the plain class: the only error is the duplicate -/
theorem addNode_plain_spec {g : Graph} (hc : g.cls = .plain) (id : String) (vt : VType) (m : Meta) :
    (addNode g id vt m = .error .nodeDuplicated ↔ id ∈ g.nodes) ∧
    (∀ g', addNode g id vt m = .ok g' ↔ id ∉ g.nodes ∧ g' = g.insNode id { vtype := vt, md := m }) ∧
    (∀ e, addNode g id vt m = .error e → e = .nodeDuplicated) := by
  have hok : NameOk g.cls id := by rw [hc]; exact nameOk_plain id
  obtain ⟨h1, h2, h3, h4⟩ := addNode_spec g id vt m
  refine ⟨by rw [h2]; simp [hok], fun g' => ?_, fun e he => ?_⟩
  · rw [h3, hc]; simp [nameOk_plain, nodeRecFor]
  · rcases h4 e he with rfl | rfl
    · exact absurd hok (h1.mp he)
    · rfl

/-- the time-series class -/
theorem addNode_ts_spec {g : Graph} (hc : g.cls = .ts) (id : String) (vt : VType) (m : Meta) :
    (addNode g id vt m = .error .valueError ↔ Name.parse id = none) ∧
    (addNode g id vt m = .error .nodeDuplicated ↔ Name.parse id ≠ none ∧ id ∈ g.nodes) ∧
    (∀ g', addNode g id vt m = .ok g' ↔ Name.parse id ≠ none ∧ id ∉ g.nodes ∧
      g' = g.insNode id { vtype := vt, md := m.tsStrip, var := nameVar id, lag := nameLag id }) := by
  obtain ⟨h1, h2, h3, _⟩ := addNode_spec g id vt m
  rw [hc, nameOk_ts_iff] at h1 h2
  refine ⟨by rw [h1]; simp, h2, fun g' => ?_⟩
  rw [h3, hc, nameOk_ts_iff]; rfl

/-- the effect, field by field: one node more, everything else untouched -/
theorem addNode_effect {g g' : Graph} {id : String} {vt : VType} {m : Meta} (h : addNode g id vt m = .ok g') :
    g'.cls = g.cls ∧ g'.nodes = g.nodes.insert id (nodeRecFor g.cls id vt m) ∧ g'.edges = g.edges ∧
      g'.gmeta = g.gmeta := by
  obtain ⟨_, _, rfl⟩ := ((addNode_spec g id vt m).2.2.1 g').mp h
  exact ⟨rfl, rfl, rfl, rfl⟩

/-- **`add_node(node=N)`**: the base class checks for a duplicate *first* and builds the node second — the two
    checks come in the opposite order -/
theorem addNodeObj_spec (g : Graph) (id : String) (vt : VType) (m : Meta) :
    (addNodeObj g id vt m = .error .nodeDuplicated ↔ id ∈ g.nodes) ∧
    (addNodeObj g id vt m = .error .valueError ↔ id ∉ g.nodes ∧ ¬ NameOk g.cls id) ∧
    (∀ g', addNodeObj g id vt m = .ok g' ↔
      id ∉ g.nodes ∧ NameOk g.cls id ∧ g' = g.insNode id (nodeRecFor g.cls id vt m)) ∧
    (∀ e, addNodeObj g id vt m = .error e → e = .nodeDuplicated ∨ e = .valueError) := by
  by_cases h2 : id ∈ g.nodes
  · simp [addNodeObj_dup h2, h2]
  · by_cases h1 : NameOk g.cls id
    · simp [addNodeObj_fresh h2 h1, h1, h2, eq_comm]
    · simp [addNodeObj_bad h2 h1, h1, h2]

/-- the two forms differ exactly on a stored identifier that the grammar rejects (which a well-formed time-series
    graph never holds, see `addNode_forms_agree`) -/
theorem addNode_forms_differ {g : Graph} {id : String} (hm : id ∈ g.nodes) (hb : ¬ NameOk g.cls id) (vt : VType)
    (m : Meta) : addNode g id vt m = .error .valueError ∧ addNodeObj g id vt m = .error .nodeDuplicated :=
  ⟨addNode_bad hb vt m, addNodeObj_dup hm vt m⟩

theorem nameOk_of_mem {g : Graph} (hw : WF g) {id : String} (hm : id ∈ g.nodes) : NameOk g.cls id := by
  intro hc
  obtain ⟨r, hr⟩ := (mem_nodes_iff g id).mp hm
  rw [(hw.tsName hc id r hr).1]; simp

theorem addNode_forms_agree {g : Graph} (hw : WF g) (id : String) (vt : VType) (m : Meta) :
    addNodeObj g id vt m = addNode g id vt m := by
  by_cases h2 : id ∈ g.nodes
  · rw [addNodeObj_dup h2, addNode_dup (nameOk_of_mem hw h2) h2]
  · by_cases h1 : NameOk g.cls id
    · rw [addNodeObj_fresh h2 h1, addNode_fresh h1 h2]
    · rw [addNodeObj_bad h2 h1, addNode_bad h1]

/-- **time-series `add_node(identifier?, variable_name?, time_lag?, …)`**, all argument forms.  `tsAddForm` is the
    reading of the arguments (characterised by the four `tsAddForm_…_iff` lemmas below the theorem): rejected
    outright, or resolved to an identifier by (variable, lag) — node-object route — or given directly. -/
theorem tsAddNode_spec (g : Graph) (id? var? : Option String) (lag? : Option Int) (vt : VType) (m : Meta) :
    (tsAddNode g id? var? lag? vt m = .error .assertionError ↔ tsAddForm id? var? lag? = .reject .assertionError) ∧
    (tsAddNode g id? var? lag? vt m = .error .valueError ↔
      tsAddForm id? var? lag? = .reject .valueError ∨
      (∃ i, tsAddForm id? var? lag? = .parts i ∧ i ∉ g.nodes ∧ ¬ NameOk g.cls i) ∨
      (∃ i, tsAddForm id? var? lag? = .ident i ∧ ¬ NameOk g.cls i)) ∧
    (tsAddNode g id? var? lag? vt m = .error .nodeDuplicated ↔
      (∃ i, tsAddForm id? var? lag? = .parts i ∧ i ∈ g.nodes) ∨
      (∃ i, tsAddForm id? var? lag? = .ident i ∧ NameOk g.cls i ∧ i ∈ g.nodes)) ∧
    (∀ g', tsAddNode g id? var? lag? vt m = .ok g' ↔
      ∃ i, (tsAddForm id? var? lag? = .parts i ∨ tsAddForm id? var? lag? = .ident i) ∧ NameOk g.cls i ∧
        i ∉ g.nodes ∧ g' = g.insNode i (nodeRecFor g.cls i vt m)) ∧
    (∀ e, tsAddNode g id? var? lag? vt m = .error e →
      e = .valueError ∨ e = .assertionError ∨ e = .nodeDuplicated) := by
  rw [tsAddNode_eq]
  cases hf : tsAddForm id? var? lag? with
  | parts i =>
    obtain ⟨h1, h2, h3, h4⟩ := addNodeObj_spec g i vt m
    simp only [TsAddForm.parts.injEq, reduceCtorEq, false_and, exists_false, or_false, false_or, exists_eq_left',
      iff_false]
    refine ⟨fun h => ?_, h2, h1, fun g' => ?_, fun e he => ?_⟩
    · rcases h4 _ h with h | h <;> cases h
    · rw [h3]; exact ⟨fun ⟨a, b, c⟩ => ⟨b, a, c⟩, fun ⟨a, b, c⟩ => ⟨b, a, c⟩⟩
    · rcases h4 e he with rfl | rfl
      · exact .inr (.inr rfl)
      · exact .inl rfl
  | ident i =>
    obtain ⟨h1, h2, h3, h4⟩ := addNode_spec g i vt m
    simp only [TsAddForm.ident.injEq, reduceCtorEq, false_and, exists_false, false_or, exists_eq_left',
      iff_false]
    refine ⟨fun h => ?_, h1, h2, h3, fun e he => ?_⟩
    · rcases h4 _ h with h | h <;> cases h
    · rcases h4 e he with rfl | rfl
      · exact .inl rfl
      · exact .inr (.inr rfl)
  | reject e =>
    simp only [reduceCtorEq, false_and, exists_false, or_false, iff_false, Except.error.injEq,
      TsAddForm.reject.injEq, implies_true, true_and]
    have hc := tsAddForm_reject_cases hf
    refine ⟨fun h => (by rcases hc with rfl | rfl <;> cases h), ?_⟩
    rintro e' rfl
    rcases hc with rfl | rfl
    · exact .inl rfl
    · exact .inr (.inl rfl)

/-! ## `delete_edge`, `delete_node` -/

/-- **`delete_edge(s, d, edge_type=ty?)`**: both endpoints must be nodes; then an edge must be stored at exactly
    `(s, d)` (the reverse key does not count) with the given type, if one was given; then exactly that key goes -/
theorem deleteEdge_spec (g : Graph) (s d : String) (ty? : Option EdgeType) :
    (deleteEdge g s d ty? = .error .nodeDoesNotExist ↔ s ∉ g.nodes ∨ d ∉ g.nodes) ∧
    (deleteEdge g s d ty? = .error .edgeDoesNotExist ↔ s ∈ g.nodes ∧ d ∈ g.nodes ∧
      ((s, d) ∉ g.edges ∨ ∃ r t, g.edges[(s, d)]? = some r ∧ ty? = some t ∧ t ≠ r.ty)) ∧
    (∀ g', deleteEdge g s d ty? = .ok g' ↔
      s ∈ g.nodes ∧ d ∈ g.nodes ∧ EdgeMatches g s d ty? ∧ g' = g.delEdgeRaw s d) ∧
    (∀ e, deleteEdge g s d ty? = .error e → e = .nodeDoesNotExist ∨ e = .edgeDoesNotExist) := by
  rw [← not_edgeMatches_iff]
  by_cases hs : s ∈ g.nodes
  · by_cases hd : d ∈ g.nodes
    · by_cases hm : EdgeMatches g s d ty?
      · simp [deleteEdge_found hs hd hm, hs, hd, hm, eq_comm]
      · simp [deleteEdge_missing_edge hs hd hm, hs, hd, hm]
    · simp [deleteEdge_missing_node (.inr hd), hs, hd]
  · simp [deleteEdge_missing_node (.inl hs), hs]

/-- the effect, field by field: exactly the key `(s, d)` is erased -/
theorem deleteEdge_effect {g g' : Graph} {s d : String} {ty? : Option EdgeType} (h : deleteEdge g s d ty? = .ok g') :
    g'.cls = g.cls ∧ g'.nodes = g.nodes ∧ g'.gmeta = g.gmeta ∧ g'.edges = g.edges.erase (s, d) ∧
      ∀ k : EKey, g'.edges[k]? = if (s, d) = k then none else g.edges[k]? := by
  obtain ⟨_, _, _, rfl⟩ := ((deleteEdge_spec g s d ty?).2.2.1 g').mp h
  exact ⟨rfl, rfl, rfl, rfl, getElem?_delEdgeRaw g s d⟩

/-- **`delete_node(n)`**: `KeyError` for a missing node; otherwise the node and exactly its incident edges go -/
theorem deleteNode_spec (g : Graph) (n : String) :
    (deleteNode g n = .error .keyError ↔ n ∉ g.nodes) ∧
    (∀ g', deleteNode g n = .ok g' ↔ n ∈ g.nodes ∧ g' = g.delNodeRaw n) ∧
    (∀ e, deleteNode g n = .error e → e = .keyError) := by
  by_cases h : n ∈ g.nodes
  · simp [deleteNode_found h, h, eq_comm]
  · simp [deleteNode_missing h, h]

theorem deleteNode_effect {g g' : Graph} {n : String} (h : deleteNode g n = .ok g') :
    g'.cls = g.cls ∧ g'.gmeta = g.gmeta ∧ g'.nodes = g.nodes.erase n ∧
      (∀ k : EKey, g'.edges[k]? = if k.1 = n ∨ k.2 = n then none else g.edges[k]?) ∧
      (∀ k : EKey, k ∈ g'.edges ↔ k.1 ≠ n ∧ k.2 ≠ n ∧ k ∈ g.edges) := by
  obtain ⟨_, rfl⟩ := ((deleteNode_spec g n).2.1 g').mp h
  exact ⟨rfl, rfl, rfl, getElem?_delNodeRaw_edges g n, mem_delNodeRaw_edges g n⟩

/-! ## `add_edge`

Endpoints are identifiers or `Node` objects (`Endpoint`); `addEdge g s d …` is the case of two identifiers.  The
checks, in the order of the code: self-loop (identifiers compared); implicit creation of missing endpoints (the
time-series node constructor may refuse the name); duplicate on the *given* orientation; the edge constructor
(time-series class: a pair given later → earlier is swapped when the type is not `->`, refused when it is);
`_set_edge`: reverse key, same key, cycle test on the state that already holds the edge. -/

section AddEdge
variable {g : Graph}

/-- **the decision table of `add_edge` on a well-formed graph**: exactly one of the eight rows applies (each row
    carries the negation of the rows above it), and it determines the result -/
theorem addEdge_table (hw : WF g) (s d : Endpoint) (ty : EdgeType) (m : Meta) (v : Bool) :
    (s.id = d.id ∧ addEdgeE g s d ty m v = .error .cyclicConnection) ∨
    (s.id ≠ d.id ∧ ¬ (s.Ok g ∧ d.Ok g) ∧ addEdgeE g s d ty m v = .error .valueError) ∨
    (s.id ≠ d.id ∧ (s.Ok g ∧ d.Ok g) ∧ (s.id, d.id) ∈ g.edges ∧ addEdgeE g s d ty m v = .error .edgeDuplicated) ∨
    (AddReady g s d ∧ (TsLater g s.id d.id ∧ ty = .directed) ∧ addEdgeE g s d ty m v = .error .valueError) ∨
    (AddReady g s d ∧ ¬ (TsLater g s.id d.id ∧ ty = .directed) ∧ (d.id, s.id) ∈ g.edges ∧ ¬ TsLater g s.id d.id ∧
      addEdgeE g s d ty m v = .error .reverseEdgeExists) ∨
    (AddReady g s d ∧ ¬ (TsLater g s.id d.id ∧ ty = .directed) ∧ (d.id, s.id) ∈ g.edges ∧ TsLater g s.id d.id ∧
      addEdgeE g s d ty m v = .error .edgeDuplicated) ∨
    (AddReady g s d ∧ ¬ (TsLater g s.id d.id ∧ ty = .directed) ∧ (d.id, s.id) ∉ g.edges ∧
      (v = true ∧ addEdgeCycle g s d ty m = true) ∧ addEdgeE g s d ty m v = .error .cyclicConnection) ∨
    (AddReady g s d ∧ ¬ (TsLater g s.id d.id ∧ ty = .directed) ∧ (d.id, s.id) ∉ g.edges ∧
      ¬ (v = true ∧ addEdgeCycle g s d ty m = true) ∧ addEdgeE g s d ty m v = .ok (addEdgeResult g s d ty m)) := by
  by_cases hne : s.id = d.id
  · exact .inl ⟨hne, addEdgeE_selfLoop hne ty m v⟩
  refine .inr ?_
  by_cases hok' : ¬ (s.Ok g ∧ d.Ok g)
  · exact .inl ⟨hne, hok', addEdgeE_badName hne hok' ty m v⟩
  have hok : s.Ok g ∧ d.Ok g := Classical.not_not.mp hok'
  refine .inr ?_
  by_cases he : (s.id, d.id) ∈ g.edges
  · exact .inl ⟨hne, hok, he, addEdgeE_dupGiven hne hok.1 hok.2 he ty m v⟩
  refine .inr ?_
  have hr : AddReady g s d := ⟨hne, hok.1, hok.2, he⟩
  have hL := later_ensure_iff hw hne hok.1 hok.2
  by_cases hl : TsLater g s.id d.id ∧ ty = .directed
  · obtain ⟨hl1, rfl⟩ := hl
    exact .inl ⟨hr, ⟨hl1, rfl⟩, addEdgeE_againstTime hr (hL.mpr hl1) m v⟩
  refine .inr ?_
  have hl' : ¬ (Later ((g.ensure s).ensure d) s.id d.id ∧ ty = .directed) := fun h => hl ⟨hL.mp h.1, h.2⟩
  by_cases hrev : (d.id, s.id) ∈ g.edges
  · by_cases hl1 : TsLater g s.id d.id
    · exact .inr (.inl ⟨hr, hl, hrev, hl1,
        addEdgeE_dupFlipped hr (hL.mpr hl1) (fun e => hl ⟨hl1, e⟩) hrev m v⟩)
    · exact .inl ⟨hr, hl, hrev, hl1, addEdgeE_reverse hr (fun h => hl1 (hL.mp h)) hrev ty m v⟩
  refine .inr (.inr ?_)
  by_cases hc : v = true ∧ addEdgeCycle g s d ty m = true
  · exact .inl ⟨hr, hl, hrev, hc, addEdgeE_cycle hr hl' hrev hc.1 hc.2⟩
  · exact .inr ⟨hr, hl, hrev, hc, addEdgeE_accept hr hl' hrev hc⟩

/-- **`ValueError`**: an endpoint that is not a node yet has a name the time-series grammar rejects, or — both
    endpoints resolvable, no edge stored on the given orientation — the type is `->` and the source is strictly
    later than the destination ("directed edge against time"; lags read off the names: `TsLater`) -/
theorem addEdge_error_iff_valueError (hw : WF g) (s d : Endpoint) (ty : EdgeType) (m : Meta) (v : Bool) :
    addEdgeE g s d ty m v = .error .valueError ↔
      s.id ≠ d.id ∧ (¬ (s.Ok g ∧ d.Ok g) ∨
        ((s.Ok g ∧ d.Ok g) ∧ (s.id, d.id) ∉ g.edges ∧ TsLater g s.id d.id ∧ ty = .directed)) := by
  have T := addEdge_table hw s d ty m v
  simp only [AddReady] at T
  grind (splits := 60)

/-- **`EdgeDuplicatedError`**: an edge is stored on the given orientation, or — time-series class — the pair was
    given later → earlier with a non-directed type and an edge is stored on the swapped key -/
theorem addEdge_error_iff_edgeDuplicated (hw : WF g) (s d : Endpoint) (ty : EdgeType) (m : Meta) (v : Bool) :
    addEdgeE g s d ty m v = .error .edgeDuplicated ↔
      s.id ≠ d.id ∧ (s.Ok g ∧ d.Ok g) ∧ ((s.id, d.id) ∈ g.edges ∨
        ((s.id, d.id) ∉ g.edges ∧ TsLater g s.id d.id ∧ ty ≠ .directed ∧ (d.id, s.id) ∈ g.edges)) := by
  have T := addEdge_table hw s d ty m v
  simp only [AddReady] at T
  grind (splits := 60)

/-- **`ReverseEdgeExistsError`**: no edge on the given orientation, the pair is not swapped, and an edge is stored
    on the reverse key -/
theorem addEdge_error_iff_reverseEdgeExists (hw : WF g) (s d : Endpoint) (ty : EdgeType) (m : Meta) (v : Bool) :
    addEdgeE g s d ty m v = .error .reverseEdgeExists ↔
      AddReady g s d ∧ ¬ TsLater g s.id d.id ∧ (d.id, s.id) ∈ g.edges := by
  have T := addEdge_table hw s d ty m v
  simp only [AddReady] at T ⊢
  grind (splits := 60)

/-- **`CyclicConnectionError`**: the self-loop check (identifiers equal), or — every other check passed, the call
    validates — the cycle test on the state holding the new edge -/
theorem addEdge_error_iff_cyclicConnection (hw : WF g) (s d : Endpoint) (ty : EdgeType) (m : Meta) (v : Bool) :
    addEdgeE g s d ty m v = .error .cyclicConnection ↔
      s.id = d.id ∨ (AddReady g s d ∧ ¬ (TsLater g s.id d.id ∧ ty = .directed) ∧ (d.id, s.id) ∉ g.edges ∧
        v = true ∧ addEdgeCycle g s d ty m = true) := by
  have T := addEdge_table hw s d ty m v
  simp only [AddReady] at T ⊢
  grind (splits := 60)

/-- **success**: every check passed; the result is `addEdgeResult` (described by `addEdge_effect`) -/
theorem addEdge_ok_iff (hw : WF g) (s d : Endpoint) (ty : EdgeType) (m : Meta) (v : Bool) (g' : Graph) :
    addEdgeE g s d ty m v = .ok g' ↔
      AddReady g s d ∧ ¬ (TsLater g s.id d.id ∧ ty = .directed) ∧ (d.id, s.id) ∉ g.edges ∧
        ¬ (v = true ∧ addEdgeCycle g s d ty m = true) ∧ g' = addEdgeResult g s d ty m := by
  have T := addEdge_table hw s d ty m v
  simp only [AddReady] at T ⊢
  grind (splits := 60)

/-- no class other than these four ever leaves `add_edge` (no hypothesis on the graph) -/
theorem addEdge_error_classes {s d : Endpoint} {ty : EdgeType} {m : Meta} {v : Bool} {e : Err}
    (h : addEdgeE g s d ty m v = .error e) :
    e ∈ [Err.cyclicConnection, .valueError, .edgeDuplicated, .reverseEdgeExists] := addEdgeE_error_mem h

/-- the cycle clause on a graph whose directed edges are acyclic: the new edge is `s → d` (never swapped: it is
    directed) and `d` already reaches `s` -/
theorem addEdge_cyclic_iff_of_acyclic (hw : WF g) (hac : AcyclicG g) (s d : Endpoint) (ty : EdgeType) (m : Meta)
    (v : Bool) :
    addEdgeE g s d ty m v = .error .cyclicConnection ↔
      s.id = d.id ∨ (AddReady g s d ∧ ¬ TsLater g s.id d.id ∧ (d.id, s.id) ∉ g.edges ∧ v = true ∧
        ty = .directed ∧ RTC (Rel g.dirEdges) d.id s.id) := by
  rw [addEdge_error_iff_cyclicConnection hw]
  refine or_congr_right ⟨?_, ?_⟩
  · rintro ⟨hr, hl, hrev, hv, hc⟩
    have hl' : ¬ (Later ((g.ensure s).ensure d) s.id d.id ∧ ty = .directed) :=
      fun h => hl ⟨(later_ensure_iff hw hr.1 hr.2.1 hr.2.2.1).mp h.1, h.2⟩
    obtain ⟨hty, hrtc⟩ := (addEdgeCycle_iff hac hl' m).mp hc
    exact ⟨hr, fun h => hl ⟨h, hty⟩, hrev, hv, hty, hrtc⟩
  · rintro ⟨hr, hl, hrev, hv, hty, hrtc⟩
    have hl' : ¬ (Later ((g.ensure s).ensure d) s.id d.id ∧ ty = .directed) :=
      fun h => hl ((later_ensure_iff hw hr.1 hr.2.1 hr.2.2.1).mp h.1)
    exact ⟨hr, fun h => hl h.1, hrev, hv, (addEdgeCycle_iff hac hl' m).mpr ⟨hty, hrtc⟩⟩

/-- … and success on such a graph -/
theorem addEdge_ok_iff_of_acyclic (hw : WF g) (hac : AcyclicG g) (s d : Endpoint) (ty : EdgeType) (m : Meta)
    (v : Bool) (g' : Graph) :
    addEdgeE g s d ty m v = .ok g' ↔
      AddReady g s d ∧ ¬ (TsLater g s.id d.id ∧ ty = .directed) ∧ (d.id, s.id) ∉ g.edges ∧
        ¬ (v = true ∧ ty = .directed ∧ RTC (Rel g.dirEdges) d.id s.id) ∧ g' = addEdgeResult g s d ty m := by
  rw [addEdge_ok_iff hw]
  constructor
  · rintro ⟨hr, hl, hrev, hc, rfl⟩
    have hl' : ¬ (Later ((g.ensure s).ensure d) s.id d.id ∧ ty = .directed) :=
      fun h => hl ⟨(later_ensure_iff hw hr.1 hr.2.1 hr.2.2.1).mp h.1, h.2⟩
    exact ⟨hr, hl, hrev, fun h => hc ⟨h.1, (addEdgeCycle_iff hac hl' m).mpr h.2⟩, rfl⟩
  · rintro ⟨hr, hl, hrev, hc, rfl⟩
    have hl' : ¬ (Later ((g.ensure s).ensure d) s.id d.id ∧ ty = .directed) :=
      fun h => hl ⟨(later_ensure_iff hw hr.1 hr.2.1 hr.2.2.1).mp h.1, h.2⟩
    exact ⟨hr, hl, hrev, fun h => hc ⟨h.1, (addEdgeCycle_iff hac hl' m).mp h.2⟩, rfl⟩

/-- the result of a successful `add_edge`, in terms of the input graph and the names only -/
theorem addEdgeResult_eq (hw : WF g) {s d : Endpoint} (hr : AddReady g s d) (ty : EdgeType) (m : Meta) :
    addEdgeResult g s d ty m =
      ((g.ensure s).ensure d).insEdge (nkey g s.id d.id).1 (nkey g s.id d.id).2 ⟨ty, m⟩ := by
  unfold addEdgeResult
  simp only [okey_ensure_eq hw hr.1 hr.2.1 hr.2.2.1]

/-- **the effect of a successful `add_edge`**: class and graph metadata unchanged; nodes = old nodes plus the
    missing endpoints (old records untouched; a created endpoint gets `newRec`: the bare record for an identifier);
    edges = old edges plus the one key `nkey g s d` (not stored before), carrying the type and the metadata -/
theorem addEdge_effect (hw : WF g) {s d : Endpoint} {ty : EdgeType} {m : Meta} {v : Bool} {g' : Graph}
    (h : addEdgeE g s d ty m v = .ok g') :
    g'.cls = g.cls ∧ g'.gmeta = g.gmeta ∧
    (∀ n : String, n ∈ g'.nodes ↔ n = s.id ∨ n = d.id ∨ n ∈ g.nodes) ∧
    (∀ n : String, g'.nodes[n]? =
      if n ∈ g.nodes then g.nodes[n]? else if n = s.id then some (s.newRec g.cls)
      else if n = d.id then some (d.newRec g.cls) else none) ∧
    g'.edges = g.edges.insert (nkey g s.id d.id) ⟨ty, m⟩ ∧ nkey g s.id d.id ∉ g.edges := by
  obtain ⟨hr, _, hrev, _, rfl⟩ := (addEdge_ok_iff hw s d ty m v g').mp h
  rw [addEdgeResult_eq hw hr]
  refine ⟨by simp, by simp, fun n => ?_, fun n => ?_, by simp, ?_⟩
  · simp only [insEdge_nodes, mem_ensure]
    constructor
    · rintro (h | h | h)
      · exact .inr (.inl h)
      · exact .inl h
      · exact .inr (.inr h)
    · rintro (h | h | h)
      · exact .inr (.inl h)
      · exact .inl h
      · exact .inr (.inr h)
  · simp only [insEdge_nodes, getElem?_ensure, mem_ensure, ensure_cls]
    have hne := hr.1
    by_cases hn : n ∈ g.nodes
    · have h1 : ¬ (n = d.id ∧ ¬ (d.id = s.id ∨ d.id ∈ g.nodes)) := fun h' => h'.2 (.inr (h'.1 ▸ hn))
      have h2 : ¬ (n = s.id ∧ s.id ∉ g.nodes) := fun h' => h'.2 (h'.1 ▸ hn)
      rw [if_neg h1, if_neg h2, if_pos hn]
    · rw [if_neg hn]
      by_cases hs : n = s.id
      · subst hs
        have h1 : ¬ (s.id = d.id ∧ ¬ (d.id = s.id ∨ d.id ∈ g.nodes)) := fun h' => hne h'.1
        rw [if_neg h1, if_pos ⟨rfl, hn⟩, if_pos rfl]
      · rw [if_neg hs]
        by_cases hd : n = d.id
        · subst hd
          have h1 : d.id = d.id ∧ ¬ (d.id = s.id ∨ d.id ∈ g.nodes) := ⟨rfl, fun h' => h'.elim hs hn⟩
          rw [if_pos h1, if_pos rfl]
        · rw [if_neg hd, if_neg (fun h' => hd h'.1), if_neg (fun h' => hs h'.1)]
          exact getElem?_none_of_not_mem_nodes hn
  · unfold nkey
    split
    · exact hrev
    · exact hr.2.2.2

end AddEdge

/-- **`add_edge` with two identifiers on a well-formed graph, all clauses at once.**  `a ∈ g.nodes ∨ NameOk g.cls a`
    says the endpoint can be resolved; "ready" = distinct identifiers, both resolvable, nothing stored at `(a, b)`. -/
theorem addEdge_spec {g : Graph} (hw : WF g) (a b : String) (ty : EdgeType) (m : Meta) (v : Bool) :
    let ok := fun x : String => x ∈ g.nodes ∨ NameOk g.cls x
    let ready := a ≠ b ∧ ok a ∧ ok b ∧ (a, b) ∉ g.edges
    let cyc := selfDepR (addEdgeResult g { id := a } { id := b } ty m).dirEdges (nkey g a b).2 = true
    (addEdge g a b ty m v = .error .cyclicConnection ↔
      a = b ∨ (ready ∧ ¬ (TsLater g a b ∧ ty = .directed) ∧ (b, a) ∉ g.edges ∧ v = true ∧ cyc)) ∧
    (addEdge g a b ty m v = .error .valueError ↔
      a ≠ b ∧ (¬ (ok a ∧ ok b) ∨ ((ok a ∧ ok b) ∧ (a, b) ∉ g.edges ∧ TsLater g a b ∧ ty = .directed))) ∧
    (addEdge g a b ty m v = .error .edgeDuplicated ↔
      a ≠ b ∧ (ok a ∧ ok b) ∧
        ((a, b) ∈ g.edges ∨ ((a, b) ∉ g.edges ∧ TsLater g a b ∧ ty ≠ .directed ∧ (b, a) ∈ g.edges))) ∧
    (addEdge g a b ty m v = .error .reverseEdgeExists ↔ ready ∧ ¬ TsLater g a b ∧ (b, a) ∈ g.edges) ∧
    (∀ g', addEdge g a b ty m v = .ok g' ↔
      ready ∧ ¬ (TsLater g a b ∧ ty = .directed) ∧ (b, a) ∉ g.edges ∧ ¬ (v = true ∧ cyc) ∧
        g' = ((g.ensure { id := a }).ensure { id := b }).insEdge (nkey g a b).1 (nkey g a b).2 ⟨ty, m⟩) ∧
    (∀ e, addEdge g a b ty m v = .error e →
      e ∈ [Err.cyclicConnection, .valueError, .edgeDuplicated, .reverseEdgeExists]) := by
  intro ok ready cyc
  have hcyc : ready → (addEdgeCycle g { id := a } { id := b } ty m = true ↔ cyc) := by
    intro hr
    show selfDepR _ (okey _ a b).2 = true ↔ _
    rw [okey_ensure_eq hw (s := { id := a }) (d := { id := b }) hr.1 hr.2.1 hr.2.2.1]
  refine ⟨?_, addEdge_error_iff_valueError hw _ _ ty m v, addEdge_error_iff_edgeDuplicated hw _ _ ty m v,
    addEdge_error_iff_reverseEdgeExists hw _ _ ty m v, fun g' => ?_, fun e he => addEdgeE_error_mem he⟩
  · refine (addEdge_error_iff_cyclicConnection hw _ _ ty m v).trans (or_congr_right ?_)
    exact ⟨fun ⟨h1, h2, h3, h4, h5⟩ => ⟨h1, h2, h3, h4, (hcyc h1).mp h5⟩,
      fun ⟨h1, h2, h3, h4, h5⟩ => ⟨h1, h2, h3, h4, (hcyc h1).mpr h5⟩⟩
  · refine (addEdge_ok_iff hw _ _ ty m v g').trans ?_
    constructor
    · rintro ⟨h1, h2, h3, h4, h5⟩
      exact ⟨h1, h2, h3, fun h => h4 ⟨h.1, (hcyc h1).mpr h.2⟩, by rw [h5, addEdgeResult_eq hw h1]⟩
    · rintro ⟨h1, h2, h3, h4, h5⟩
      exact ⟨h1, h2, h3, fun h => h4 ⟨h.1, (hcyc h1).mp h.2⟩,
        by rw [h5, addEdgeResult_eq hw (s := { id := a }) (d := { id := b }) h1]⟩

/-- an identifier endpoint that had to be created gets the bare record -/
example (c : GraphClass) (a : String) : ({ id := a } : Endpoint).newRec c = nodeRecFor c a .unspecified [] := rfl

/-! ## `change_edge_type` -/

/-- **`change_edge_type(s, d, nt)` on a well-formed graph.**  Only the stored orientation is looked up; an equal
    type is a no-op; otherwise the edge is retyped in place (same key, same metadata) unless the cycle test fires.
    No other class can occur: both endpoints exist, the stored orientation is already earlier → later (so the
    constructor neither swaps nor refuses: never `ValueError`), and no second edge joins the pair. -/
theorem changeEdgeType_spec {g : Graph} (hw : WF g) (s d : String) (nt : EdgeType) :
    (changeEdgeType g s d nt = .error .edgeDoesNotExist ↔ (s, d) ∉ g.edges) ∧
    (changeEdgeType g s d nt = .error .cyclicConnection ↔
      ∃ r, g.edges[(s, d)]? = some r ∧ r.ty ≠ nt ∧ selfDepR (g.insEdge s d ⟨nt, r.md⟩).dirEdges d = true) ∧
    (∀ g', changeEdgeType g s d nt = .ok g' ↔
      ∃ r, g.edges[(s, d)]? = some r ∧
        ((r.ty = nt ∧ g' = g) ∨
         (r.ty ≠ nt ∧ selfDepR (g.insEdge s d ⟨nt, r.md⟩).dirEdges d ≠ true ∧ g' = g.insEdge s d ⟨nt, r.md⟩))) ∧
    (∀ e, changeEdgeType g s d nt = .error e → e = .edgeDoesNotExist ∨ e = .cyclicConnection) := by
  by_cases hm : (s, d) ∈ g.edges
  · obtain ⟨r, hr⟩ := (mem_edges_iff g _).mp hm
    by_cases hty : r.ty = nt
    · subst hty
      rw [changeEdgeType_same hr]
      simp only [hr, Option.some.injEq, exists_eq_left']
      simp [hm, eq_comm (a := g)]
    · by_cases hc : selfDepR (g.insEdge s d ⟨nt, r.md⟩).dirEdges d = true
      · rw [changeEdgeType_cycle hw hr hty hc]
        simp only [hr, Option.some.injEq, exists_eq_left']
        simp [hm, hty, hc]
      · rw [changeEdgeType_accept hw hr hty hc]
        simp only [hr, Option.some.injEq, exists_eq_left']
        simp [hm, hty, hc, eq_comm (a := g.insEdge s d ⟨nt, r.md⟩)]
  · have hn : g.edges[(s, d)]? = none := getElem?_none_of_not_mem hm
    rw [changeEdgeType_missing hm]
    simp only [hn]
    simp [hm]

/-- the cycle clause on a graph whose directed edges are acyclic: the new type is `->`, the old one is not, and `d`
    already reaches `s` -/
theorem changeEdgeType_cyclic_iff_of_acyclic {g : Graph} (hw : WF g) (hac : AcyclicG g) (s d : String)
    (nt : EdgeType) :
    changeEdgeType g s d nt = .error .cyclicConnection ↔
      ∃ r, g.edges[(s, d)]? = some r ∧ r.ty ≠ .directed ∧ nt = .directed ∧ RTC (Rel g.dirEdges) d s := by
  rw [(changeEdgeType_spec hw s d nt).2.1]
  constructor
  · rintro ⟨r, hr, hne, hc⟩
    obtain ⟨rfl, hrtc⟩ := (selfDepR_insEdge_iff hac s d nt r.md).mp hc
    exact ⟨r, hr, hne, rfl, hrtc⟩
  · rintro ⟨r, hr, hne, rfl, hrtc⟩
    exact ⟨r, hr, hne, (selfDepR_insEdge_iff hac s d .directed r.md).mpr ⟨rfl, hrtc⟩⟩

/-- the effect of a successful retyping, field by field -/
theorem changeEdgeType_effect {g g' : Graph} (hw : WF g) {s d : String} {nt : EdgeType}
    (h : changeEdgeType g s d nt = .ok g') :
    ∃ r, g.edges[(s, d)]? = some r ∧ g'.cls = g.cls ∧ g'.nodes = g.nodes ∧ g'.gmeta = g.gmeta ∧
      g'.edges = g.edges.insert (s, d) ⟨nt, r.md⟩ := by
  obtain ⟨r, hr, (⟨hty, rfl⟩ | ⟨_, _, rfl⟩)⟩ := ((changeEdgeType_spec hw s d nt).2.2.1 g').mp h
  · refine ⟨r, hr, rfl, rfl, rfl, ?_⟩
    subst hty
    apply ExtTreeMap.ext_getElem?
    intro k
    simp only [ExtTreeMap.getElem?_insert, ekCmp_eq_iff]
    split
    · rename_i hk; subst hk; exact hr
    · rfl
  · exact ⟨r, hr, rfl, rfl, rfl, rfl⟩

/-! ## `replace_edge` -/

/-- **`replace_edge(s, d, ns, nd, edge_type=, meta=)` on a well-formed graph**: the old edge must be stored at
    `(s, d)`; nothing may be stored at `(ns, nd)` — the *given* orientation only; after that the call is `add_edge`
    (validated; old type / metadata unless new ones are given) on the graph without the old edge, and whatever
    that says (`addEdge_spec` at `g.delEdgeRaw s d`, which is well formed) is the outcome -/
theorem replaceEdge_spec {g : Graph} (hw : WF g) (s d ns nd : String) (ty? : Option EdgeType) (m? : Option Meta) :
    (replaceEdge g s d ns nd ty? m? = .error .edgeDoesNotExist ↔ (s, d) ∉ g.edges) ∧
    (replaceEdge g s d ns nd ty? m? = .error .edgeExists ↔ (s, d) ∈ g.edges ∧ (ns, nd) ∈ g.edges) ∧
    (∀ r, g.edges[(s, d)]? = some r → (ns, nd) ∉ g.edges →
      WF (g.delEdgeRaw s d) ∧
      replaceEdge g s d ns nd ty? m? = addEdge (g.delEdgeRaw s d) ns nd (ty?.getD r.ty) (m?.getD r.md) true) ∧
    (∀ e, replaceEdge g s d ns nd ty? m? = .error e →
      e ∈ [Err.edgeDoesNotExist, .edgeExists, .cyclicConnection, .valueError, .edgeDuplicated,
        .reverseEdgeExists]) := by
  by_cases hm : (s, d) ∈ g.edges
  · obtain ⟨r, hr⟩ := (mem_edges_iff g _).mp hm
    by_cases h2 : (ns, nd) ∈ g.edges
    · simp [replaceEdge_exists hm h2, hm, h2]
    · have hmv := replaceEdge_moved hw hr h2 ty? m?
      have hcls : ∀ e, replaceEdge g s d ns nd ty? m? = .error e →
          e ∈ [Err.cyclicConnection, .valueError, .edgeDuplicated, .reverseEdgeExists] := by
        intro e he; rw [hmv] at he; exact addEdgeE_error_mem he
      refine ⟨?_, ?_, ?_, ?_⟩
      · simp only [hm, not_true_eq_false, iff_false]
        intro he; have := hcls _ he; simp at this
      · simp only [hm, h2, and_false, iff_false]
        intro he; have := hcls _ he; simp at this
      · intro r' hr' _
        rw [hr] at hr'; cases hr'
        exact ⟨wf_delEdgeRaw s d hw, hmv⟩
      · intro e he
        have := hcls e he
        simp only [List.mem_cons, List.not_mem_nil, or_false] at this ⊢
        exact .inr (.inr this)
  · have hn : g.edges[(s, d)]? = none := getElem?_none_of_not_mem hm
    rw [replaceEdge_missing hm]
    simp only [hn]
    simp [hm]

/-- success of `replace_edge`, effect included: the old key goes, the new key (oriented by the constructor) comes
    with the chosen type and metadata, missing new endpoints are created -/
theorem replaceEdge_ok_iff {g : Graph} (hw : WF g) (s d ns nd : String) (ty? : Option EdgeType) (m? : Option Meta)
    (g' : Graph) :
    replaceEdge g s d ns nd ty? m? = .ok g' ↔
      ∃ r, g.edges[(s, d)]? = some r ∧ (ns, nd) ∉ g.edges ∧
        addEdge (g.delEdgeRaw s d) ns nd (ty?.getD r.ty) (m?.getD r.md) true = .ok g' := by
  obtain ⟨h1, h2, h3, _⟩ := replaceEdge_spec hw s d ns nd ty? m?
  constructor
  · intro h
    by_cases hm : (s, d) ∈ g.edges
    · obtain ⟨r, hr⟩ := (mem_edges_iff g _).mp hm
      by_cases hn : (ns, nd) ∈ g.edges
      · rw [h2.mpr ⟨hm, hn⟩] at h; cases h
      · exact ⟨r, hr, hn, by rw [← (h3 r hr hn).2]; exact h⟩
    · rw [h1.mpr hm] at h; cases h
  · rintro ⟨r, hr, hn, h⟩
    rw [(h3 r hr hn).2]; exact h

/-! ## `add_time_edge` -/

/-- **`add_time_edge(sv, st, dv, dt, …)`**: both identifiers are formatted first (`ValueError` when a variable
    name does not parse); then it is `add_edge(…, '->')` with those identifiers -/
theorem addTimeEdge_spec (g : Graph) (sv : String) (st : Int) (dv : String) (dt : Int) (m : Meta) (v : Bool) :
    ((Name.format sv st = none ∨ Name.format dv dt = none) →
      addTimeEdge g sv st dv dt m v = .error .valueError) ∧
    (∀ a b, Name.format sv st = some a → Name.format dv dt = some b →
      addTimeEdge g sv st dv dt m v = addEdge g a b .directed m v) ∧
    (∀ e, addTimeEdge g sv st dv dt m v = .error e →
      e ∈ [Err.valueError, .cyclicConnection, .edgeDuplicated, .reverseEdgeExists]) := by
  unfold addTimeEdge
  cases h1 : Name.format sv st with
  | none => simp
  | some a =>
    cases h2 : Name.format dv dt with
    | none => simp
    | some b =>
      simp only [reduceCtorEq, or_self, false_implies, Option.some.injEq, true_and]
      refine ⟨fun a' b' ha hb => by subst ha; subst hb; rfl, fun e he => ?_⟩
      have := addEdgeE_error_mem he
      simp only [List.mem_cons, List.not_mem_nil, or_false] at this ⊢
      rcases this with h | h | h | h
      · exact .inr (.inl h)
      · exact .inl h
      · exact .inr (.inr (.inl h))
      · exact .inr (.inr (.inr h))

/-! ## `replace_node` -/

theorem replaceNode_plain_eq {g : Graph} (hp : g.cls = .plain) (n : String) (new? : Option String) (lag? : Option Int)
    (var? : Option String) (vt? : Option VType) (m? : Option Meta) :
    replaceNode g n new? lag? var? vt? m? = replaceNodeBase g n new? vt? m? := by
  unfold replaceNode; rw [hp]

/-- **`replace_node(n, new?, variable_type=, meta=)` of the plain class on a well-formed graph.**
    `AssertionError` exactly when `n` is missing or the new identifier is taken.  Without a new identifier the node
    is edited in place (variable type overwritten by the argument when given, metadata when given).  With a fresh
    identifier, on a graph whose directed edges are acyclic, the call always succeeds and renames `n` to `new`:
    the record moves, every edge at `n` is re-keyed to `new` keeping type, metadata and direction
    (`phi n new` sends `new` to `n` and fixes everything else), nothing else changes.
    (On a plain graph holding a directed cycle — only reachable with `validate=False` — a cycle test of the copy
    loop can fire instead: `CyclicConnectionError`, see `Tight.replaceNode_cyclic`.) -/
theorem replaceNode_plain_spec {g : Graph} (hw : WF g) (hp : g.cls = .plain) (n : String) (new? : Option String)
    (lag? : Option Int) (var? : Option String) (vt? : Option VType) (m? : Option Meta) :
    (replaceNode g n new? lag? var? vt? m? = .error .assertionError ↔
      n ∉ g.nodes ∨ ∃ new, new? = some new ∧ new ∈ g.nodes) ∧
    (∀ r0, g.nodes[n]? = some r0 → new? = none →
      replaceNode g n new? lag? var? vt? m? =
        .ok (g.insNode n { r0 with vtype := vt?.getD r0.vtype, md := m?.getD r0.md })) ∧
    (AcyclicG g → ∀ r0 new, g.nodes[n]? = some r0 → new? = some new → new ∉ g.nodes →
      ∃ g', replaceNode g n new? lag? var? vt? m? = .ok g' ∧ g'.cls = g.cls ∧ g'.gmeta = g.gmeta ∧
        g'.nodes = (g.nodes.insert new { vtype := vt?.getD r0.vtype, md := m?.getD r0.md }).erase n ∧
        ∀ a b : String, g'.edges[(a, b)]? =
          if a = n ∨ b = n then none else g.edges[(phi n new a, phi n new b)]?) ∧
    (AcyclicG g → ∀ e, replaceNode g n new? lag? var? vt? m? = .error e → e = .assertionError) ∧
    (∀ e, replaceNode g n new? lag? var? vt? m? = .error e → e = .assertionError ∨ e = .cyclicConnection) := by
  rw [replaceNode_plain_eq hp]
  have h3 : AcyclicG g → ∀ r0 new, g.nodes[n]? = some r0 → new? = some new → new ∉ g.nodes →
      ∃ g', replaceNodeBase g n new? vt? m? = .ok g' ∧ g'.cls = g.cls ∧ g'.gmeta = g.gmeta ∧
        g'.nodes = (g.nodes.insert new { vtype := vt?.getD r0.vtype, md := m?.getD r0.md }).erase n ∧
        ∀ a b : String, g'.edges[(a, b)]? =
          if a = n ∨ b = n then none else g.edges[(phi n new a, phi n new b)]? := by
    intro hac r0 new hr0 hn hnew
    subst hn
    exact replaceNodeBase_plain_new hw hac hp hr0 hnew vt? m?
  refine ⟨replaceNodeBase_assertion_iff hw n new? vt? m?, ?_, h3, ?_, ?_⟩
  · intro r0 hr0 hn
    subst hn
    rw [replaceNodeBase_inplace hr0, hp]
    cases m? <;> rfl
  · intro hac e he
    rcases replaceNodeBase_error_cases hw he with ⟨h, _⟩ | ⟨hn, ⟨new, hnew, hfree⟩, _⟩
    · exact h
    · obtain ⟨r0, hr0⟩ := (mem_nodes_iff g n).mp hn
      obtain ⟨g', hg', _⟩ := h3 hac r0 new hr0 hnew hfree
      rw [hg'] at he; cases he
  · intro e he
    rcases replaceNodeBase_error_cases hw he with ⟨h, _⟩ | ⟨hn, ⟨new, hnew, hfree⟩, h | h⟩
    · exact .inl h
    · -- `ValueError` needs the time-series class: the name check or the edge constructor
      subst h
      exact absurd he (replaceNodeBase_plain_no_valueError hp n new? vt? m?)
    · exact .inr h

/-- the argument forms of the time-series override -/
theorem replaceNode_ts_forms {g : Graph} (hc : g.cls = .ts) (n : String) (lag? : Option Int) (var? : Option String)
    (vt? : Option VType) (m? : Option Meta) :
    (∀ new, (lag?.isSome ∨ var?.isSome) → replaceNode g n (some new) lag? var? vt? m? = .error .assertionError) ∧
    (∀ new?, replaceNode g n new? none none vt? m? = replaceNodeBase g n new? vt? m?) ∧
    ((lag?.isSome ∨ var?.isSome) → Name.parse n = none →
      replaceNode g n none lag? var? vt? m? = .error .valueError) ∧
    ((lag?.isSome ∨ var?.isSome) → ∀ dv dl, Name.parse n = some (dv, dl) →
      replaceNode g n none lag? var? vt? m? =
        match Name.format (var?.getD dv) (lag?.getD dl) with
        | none => .error .valueError
        | some new => replaceNodeBase g n (some new) vt? m?) := by
  unfold replaceNode
  rw [hc]
  refine ⟨fun new h => ?_, fun new? => ?_, fun h hp => ?_, fun h dv dl hp => ?_⟩
  · have : (lag?.isSome || var?.isSome) = true := by rcases h with h | h <;> simp [h]
    simp only [this, if_true]
  · cases new? <;> simp
  · have : (lag?.isSome || var?.isSome) = true := by rcases h with h | h <;> simp [h]
    simp only [this, if_true, hp]
  · have : (lag?.isSome || var?.isSome) = true := by rcases h with h | h <;> simp [h]
    simp only [this, if_true, hp]
    cases Name.format (var?.getD dv) (lag?.getD dl) <;> rfl

/-- **`replace_node(n, new)` of the time-series class on a well-formed acyclic graph, `n` present, `new` free**:
    `ValueError` exactly when the new name does not parse or a directed edge at `n` would point backwards in time
    once moved (`BadIn` / `BadOut` at the lag the new name parses to); otherwise the call succeeds; no other class -/
theorem replaceNode_ts_spec {g : Graph} (hw : WF g) (hac : AcyclicG g) (hc : g.cls = .ts) {n new : String}
    {r0 : NodeRec} (hr0 : g.nodes[n]? = some r0) (hnew : new ∉ g.nodes) (vt? : Option VType) (m? : Option Meta) :
    (replaceNode g n (some new) none none vt? m? = .error .valueError ↔
      Name.parse new = none ∨ BadIn g n (nameLag new) ∨ BadOut g n (nameLag new)) ∧
    ((∃ g', replaceNode g n (some new) none none vt? m? = .ok g') ↔
      ¬ (Name.parse new = none ∨ BadIn g n (nameLag new) ∨ BadOut g n (nameLag new))) ∧
    (∀ e, replaceNode g n (some new) none none vt? m? = .error e → e = .valueError) := by
  rw [(replaceNode_ts_forms hc n none none vt? m?).2.1]
  have hn : n ∈ g.nodes := (mem_nodes_iff g n).mpr ⟨r0, hr0⟩
  cases hp : Name.parse new with
  | none =>
    have hbad : ¬ NameOk g.cls new := by rw [hc, nameOk_ts_iff]; simp [hp]
    rw [replaceNodeBase_badName hn hnew hbad]
    simp
  | some p =>
    obtain ⟨nv, nl⟩ := p
    have hl : nameLag new = nl := by simp [nameLag, hp]
    rw [hl]
    obtain ⟨hB, hG⟩ := replaceNodeBase_exact (vt? := vt?) (m? := m?) hw hac hc hr0 hnew hp
    by_cases hbad : BadIn g n nl ∨ BadOut g n nl
    · rw [hB hbad]
      simp [hbad]
    · obtain ⟨g', hg'⟩ := hG hbad
      rw [hg']
      simp [hbad]

/-! ## The table of documented error classes -/

/-- the exception classes each operation can raise on a well-formed graph, in the order the code can reach them -/
def documented : Op → List Err
  | .addNode .. => [.valueError, .nodeDuplicated]
  | .addNodeObj .. => [.nodeDuplicated, .valueError]
  | .tsAddNode .. => [.valueError, .assertionError, .nodeDuplicated]
  | .addEdge .. => [.cyclicConnection, .valueError, .edgeDuplicated, .reverseEdgeExists]
  | .deleteEdge .. => [.nodeDoesNotExist, .edgeDoesNotExist]
  | .deleteNode _ => [.keyError]
  | .changeEdgeType .. => [.edgeDoesNotExist, .cyclicConnection]
  | .replaceEdge .. =>
    [.edgeDoesNotExist, .edgeExists, .cyclicConnection, .valueError, .edgeDuplicated, .reverseEdgeExists]
  | .replaceNode .. => [.assertionError, .valueError, .cyclicConnection]
  | .addTimeEdge .. => [.valueError, .cyclicConnection, .edgeDuplicated, .reverseEdgeExists]
  -- the bulk adders raise what their elements raise (`add_edges_from_paths`: plus the assertion on an empty
  -- path; minus the duplicate, because a path skips the edges it finds)
  | .addNodesFrom _ => [.valueError, .nodeDuplicated]
  | .addEdgesFrom .. => [.cyclicConnection, .valueError, .edgeDuplicated, .reverseEdgeExists]
  | .addPath .. => [.assertionError, .cyclicConnection, .valueError, .reverseEdgeExists]
  | .addPaths _ => [.assertionError, .cyclicConnection, .valueError, .reverseEdgeExists]
  | .addFullyConnected .. => [.cyclicConnection, .valueError, .edgeDuplicated, .reverseEdgeExists]

theorem lift_error {g : Graph} {x : Except Err Graph} {e : Err} (h : (lift g x).2 = some e) : x = .error e := by
  cases x with
  | ok _ => simp [lift] at h
  | error e' => simp only [lift, Option.some.injEq] at h; rw [h]

/-- an element of a path: skipped when the edge is there, `add_edge(…, '->')` otherwise -/
theorem pathStep_error {g : Graph} (hw : WF g) {p : String × String} {v : Bool} {e : Err}
    (h : (if g.hasEdge p.1 p.2 then Except.ok g else addEdge g p.1 p.2 .directed [] v) = .error e) :
    e ∈ [Err.assertionError, .cyclicConnection, .valueError, .reverseEdgeExists] := by
  split at h
  · cases h
  · rename_i hno
    have hno : (p.1, p.2) ∉ g.edges := by rw [← hasEdge_iff]; exact hno
    have hm := addEdgeE_error_mem h
    simp only [List.mem_cons, List.not_mem_nil, or_false] at hm ⊢
    rcases hm with rfl | rfl | rfl | rfl
    · exact .inr (.inl rfl)
    · exact .inr (.inr (.inl rfl))
    · exfalso
      have := (addEdge_error_iff_edgeDuplicated hw { id := p.1 } { id := p.2 } .directed [] v).mp h
      rcases this.2.2 with h' | ⟨_, _, h', _⟩
      · exact hno h'
      · exact h' rfl
    · exact .inr (.inr (.inr rfl))

theorem addPath_error {g : Graph} (hw : WF g) {path : List String} {v : Bool} {e : Err}
    (h : (addPath g path v).2 = some e) :
    e ∈ [Err.assertionError, .cyclicConnection, .valueError, .reverseEdgeExists] := by
  refine bulk_error (P := fun e => e ∈ [Err.assertionError, .cyclicConnection, .valueError, .reverseEdgeExists])
    (fun g x e hw h => pathStep_error hw h) (fun g g' x hw h => ?_) _ g e hw h
  split at h
  · cases h; exact hw
  · exact wf_addEdge h hw

theorem addEdgesFromPath_error {g : Graph} (hw : WF g) {path : List String} {v : Bool} {e : Err}
    (h : (addEdgesFromPath g path v).2 = some e) :
    e ∈ [Err.assertionError, .cyclicConnection, .valueError, .reverseEdgeExists] := by
  unfold addEdgesFromPath at h
  split at h
  · simp only [Option.some.injEq] at h; subst h; simp
  · exact addPath_error hw h

theorem addEdgesFromPaths_go_error {paths : List (List String)} :
    ∀ {g : Graph}, WF g → ∀ {e : Err}, (addEdgesFromPaths.go g paths).2 = some e →
      e ∈ [Err.assertionError, .cyclicConnection, .valueError, .reverseEdgeExists] := by
  induction paths with
  | nil => intro g _ e h; simp [addEdgesFromPaths.go] at h
  | cons p ps ih =>
    intro g hw e h
    simp only [addEdgesFromPaths.go] at h
    split at h
    · rename_i g' hg'
      have hw' : WF g' := by
        have := wf_addEdgesFromPath p true hw
        rw [hg'] at this; exact this
      exact ih hw' h
    · rename_i g' e' hg'
      simp only [Option.some.injEq] at h
      subst h
      exact addEdgesFromPath_error hw (by rw [hg'])

/-- **no undocumented exception class ever leaves a mutator on a well-formed graph** (reference machine; by
    `C03.step_eq_stepRef` the same holds for the mechanism-level `step`, see `error_classes_documented_step`) -/
theorem error_classes_documented {g : Graph} (hw : WF g) {op : Op} {e : Err} (h : (stepRef g op).2 = some e) :
    e ∈ documented op := by
  cases op with
  | addNode i vt m =>
    have := (addNode_spec g i vt m).2.2.2 e (lift_error h)
    simp only [documented, List.mem_cons, List.not_mem_nil, or_false]; exact this
  | addNodeObj i vt m =>
    have := (addNodeObj_spec g i vt m).2.2.2 e (lift_error h)
    simp only [documented, List.mem_cons, List.not_mem_nil, or_false]; exact this
  | tsAddNode i v l vt m =>
    have := (tsAddNode_spec g i v l vt m).2.2.2.2 e (lift_error h)
    simp only [documented, List.mem_cons, List.not_mem_nil, or_false]; exact this
  | addEdge s d ty m v => exact addEdgeE_error_mem (lift_error h)
  | deleteEdge s d ty =>
    have := (deleteEdge_spec g s d ty).2.2.2 e (lift_error h)
    simp only [documented, List.mem_cons, List.not_mem_nil, or_false]; exact this
  | deleteNode i =>
    have := (deleteNode_spec g i).2.2 e (lift_error h)
    simp only [documented, List.mem_cons, List.not_mem_nil, or_false]; exact this
  | changeEdgeType s d nt =>
    have := (changeEdgeType_spec hw s d nt).2.2.2 e (lift_error h)
    simp only [documented, List.mem_cons, List.not_mem_nil, or_false]; exact this
  | replaceEdge s d ns nd ty m => exact (replaceEdge_spec hw s d ns nd ty m).2.2.2 e (lift_error h)
  | replaceNode i new l v vt m =>
    have := replaceNode_error_mem hw (lift_error h)
    simp only [documented, List.mem_cons, List.not_mem_nil, or_false]; exact this
  | addTimeEdge sv st dv dt m v => exact (addTimeEdge_spec g sv st dv dt m v).2.2 e (lift_error h)
  | addNodesFrom ids =>
    refine bulk_error (P := fun e => e ∈ [Err.valueError, .nodeDuplicated]) (fun g x e _ h => ?_)
      (fun g g' x hw h => wf_addNode h hw) _ g e hw h
    have := (addNode_spec g x .unspecified []).2.2.2 e h
    simp only [List.mem_cons, List.not_mem_nil, or_false]; exact this
  | addEdgesFrom ps v =>
    exact bulk_error (P := fun e => e ∈ [Err.cyclicConnection, .valueError, .edgeDuplicated, .reverseEdgeExists])
      (fun g x e _ h => addEdgeE_error_mem h) (fun g g' x hw h => wf_addEdge h hw) _ g e hw h
  | addPath p v => exact addEdgesFromPath_error hw h
  | addPaths ps =>
    simp only [stepRef, step, addEdgesFromPaths] at h
    split at h
    · simp only [Option.some.injEq] at h; subst h; simp [documented]
    · exact addEdgesFromPaths_go_error hw h
  | addFullyConnected a b =>
    exact bulk_error (P := fun e => e ∈ [Err.cyclicConnection, .valueError, .edgeDuplicated, .reverseEdgeExists])
      (fun g x e _ h => addEdgeE_error_mem h) (fun g g' x hw h => wf_addEdge h hw) _ g e hw h

/-- the same for the mechanism-level machine (the one the driver runs and the lane compares with the code) -/
theorem error_classes_documented_step {g : Graph} (hw : WF g) {op : Op} {e : Err} (h : (step g op).2 = some e) :
    e ∈ documented op := by
  rw [C03.step_eq_stepRef hw] at h
  exact error_classes_documented hw h

/-! ## `documented` is tight: every listed class really occurs

Graphs: `Demo.plainG` = `a → b → c`, isolated `z`; `Demo.tsG` = `x lag(n=1) → x`, `x lag(n=1) -- y` (both built by
histories from the empty graph, hence well formed and acyclic: `Demo.wf_plainG`, `Demo.acyclic_plainG`, …);
`tsFlat` = `x → y` at lag 0; `cycG` = `a → b → c → d → b` built without validation (well formed, *not* acyclic).
The kernel evaluates the maps and the name grammar (`decide`); the cycle test does not reduce, so the examples
that reach it go through the theorems above. -/
namespace Tight
open Demo

def tsFlat : Graph := runRef (Graph.empty .ts) [.addEdge { id := "x" } { id := "y" } .directed [] false]
theorem wf_tsFlat : WF tsFlat := wf_runRef_empty .ts [] _

def cycOps : List Op :=
  [ .addEdge { id := "a" } { id := "b" } .directed [] false, .addEdge { id := "b" } { id := "c" } .directed [] false,
    .addEdge { id := "c" } { id := "d" } .directed [] false, .addEdge { id := "d" } { id := "b" } .directed [] false ]
def cycG : Graph := runRef (Graph.empty .plain) cycOps
theorem wf_cycG : WF cycG := wf_runRef_empty .plain [] _

/-- `a → b → c`, `c -- a` -/
def triG : Graph := plainG.insEdge "c" "a" ⟨.undirected, [("w", "2")]⟩
theorem wf_triG : WF triG :=
  wf_insEdge wf_plainG (by decide) (by decide) (by decide) (by decide) (fun hc => by revert hc; decide)
theorem acyclic_triG : AcyclicG triG :=
  acyclic_mono (fun _ _ => rel_insEdge_nondirected (by decide)) acyclic_plainG

example : WF plainG ∧ WF tsG ∧ WF tsFlat ∧ WF cycG ∧ WF triG := ⟨wf_plainG, wf_tsG, wf_tsFlat, wf_cycG, wf_triG⟩

-- add_node
example : (stepRef tsG (.addNode "" .unspecified [])).2 = some .valueError := by decide
example : (stepRef plainG (.addNode "a" .unspecified [])).2 = some .nodeDuplicated := by decide
example : (stepRef plainG (.addNodeObj "a" .binary [])).2 = some .nodeDuplicated := by decide
example : (stepRef tsG (.addNodeObj "" .binary [])).2 = some .valueError := by decide
example : (stepRef tsG (.tsAddNode none none none .unspecified [])).2 = some .valueError := by decide
example : (stepRef tsG (.tsAddNode (some "x") (some "x") none .unspecified [])).2 = some .assertionError := by decide
example : (stepRef tsG (.tsAddNode (some "q") (some "x") (some (-1)) .unspecified [])).2 = some .assertionError := by
  decide
example : (stepRef tsG (.tsAddNode none (some "x") (some (-1)) .unspecified [])).2 = some .nodeDuplicated := by decide
example : (stepRef tsG (.tsAddNode (some "x") none none .unspecified [])).2 = some .nodeDuplicated := by decide

-- add_edge
example : (stepRef plainG (.addEdge { id := "a" } { id := "a" } .undirected [] false)).2 = some .cyclicConnection := by
  decide
example : (stepRef tsG (.addEdge { id := "y" } { id := "" } .undirected [] true)).2 = some .valueError := by decide
example : (stepRef tsG (.addEdge { id := "y" } { id := "x lag(n=1)" } .directed [] true)).2 = some .valueError := by
  decide
example : (stepRef plainG (.addEdge { id := "a" } { id := "b" } .unknown [] true)).2 = some .edgeDuplicated := by decide
/-- the swapped duplicate: `x -- x lag(n=1)` is given later → earlier, the constructor swaps it onto the stored key -/
example : (stepRef tsG (.addEdge { id := "x" } { id := "x lag(n=1)" } .undirected [] true)).2 = some .edgeDuplicated := by
  decide
example : (stepRef plainG (.addEdge { id := "b" } { id := "a" } .directed [] true)).2 = some .reverseEdgeExists := by
  decide
/-- the cycle clause, through the theorem: `c → a` on `a → b → c` -/
theorem addEdge_cyclic : (stepRef plainG (.addEdge { id := "c" } { id := "a" } .directed [] true)).2 =
    some .cyclicConnection := by
  have h1 : Rel plainG.dirEdges "a" "b" := by unfold Rel; decide
  have h2 : Rel plainG.dirEdges "b" "c" := by unfold Rel; decide
  have : addEdgeE plainG { id := "c" } { id := "a" } .directed [] true = .error .cyclicConnection :=
    (addEdge_cyclic_iff_of_acyclic wf_plainG acyclic_plainG _ _ _ _ _).mpr
      (.inr ⟨⟨by decide, by decide, by decide, by decide⟩, by decide, by decide, rfl, rfl,
        .tail (.tail (.refl _) h1) h2⟩)
  show (lift plainG (addEdgeE plainG _ _ _ _ _)).2 = _
  rw [this]; rfl

-- delete_edge, delete_node
example : (stepRef plainG (.deleteEdge "a" "q" none)).2 = some .nodeDoesNotExist := by decide
example : (stepRef plainG (.deleteEdge "b" "a" none)).2 = some .edgeDoesNotExist := by decide
example : (stepRef plainG (.deleteEdge "a" "b" (some .undirected))).2 = some .edgeDoesNotExist := by decide
example : (stepRef plainG (.deleteNode "q")).2 = some .keyError := by decide

-- change_edge_type
example : (stepRef plainG (.changeEdgeType "b" "a" .undirected)).2 = some .edgeDoesNotExist := by decide
theorem changeEdgeType_cyclic : (stepRef triG (.changeEdgeType "c" "a" .directed)).2 = some .cyclicConnection := by
  have h1 : Rel triG.dirEdges "a" "b" := by unfold Rel; decide
  have h2 : Rel triG.dirEdges "b" "c" := by unfold Rel; decide
  have : changeEdgeType triG "c" "a" .directed = .error .cyclicConnection :=
    (changeEdgeType_cyclic_iff_of_acyclic wf_triG acyclic_triG _ _ _).mpr
      ⟨⟨.undirected, [("w", "2")]⟩, by decide, by decide, rfl, .tail (.tail (.refl _) h1) h2⟩
  show (lift triG (changeEdgeType triG _ _ _)).2 = _
  rw [this]; rfl

-- replace_edge
example : (stepRef plainG (.replaceEdge "b" "a" "a" "z" none none)).2 = some .edgeDoesNotExist := by decide
example : (stepRef plainG (.replaceEdge "a" "b" "b" "c" none none)).2 = some .edgeExists := by decide
example : (stepRef plainG (.replaceEdge "a" "b" "z" "z" none none)).2 = some .cyclicConnection := by decide
example : (stepRef tsG (.replaceEdge "x lag(n=1)" "y" "y" "x lag(n=1)" (some .directed) none)).2 =
    some .valueError := by decide
example : (stepRef tsG (.replaceEdge "x lag(n=1)" "y" "x" "x lag(n=1)" none none)).2 = some .edgeDuplicated := by
  decide
example : (stepRef plainG (.replaceEdge "a" "b" "c" "b" none none)).2 = some .reverseEdgeExists := by decide

-- replace_node
example : (stepRef plainG (.replaceNode "q" none none none none none)).2 = some .assertionError := by decide
example : (stepRef plainG (.replaceNode "a" (some "b") none none none none)).2 = some .assertionError := by decide
example : (stepRef tsG (.replaceNode "x" (some "x lag(n=2)") none none none none)).2 = some .valueError := by decide
example : (stepRef tsG (.replaceNode "x" (some "") none none none none)).2 = some .valueError := by decide

/-- `CyclicConnectionError` out of `replace_node`: only on a graph that already holds a directed cycle (built with
    `validate=False`).  `cycG` is `a → b → c → d → b`; renaming `a` copies `a → b` as `z → b`, and the cycle test at
    `b` finds the old cycle. -/
theorem replaceNode_cyclic :
    (stepRef cycG (.replaceNode "a" (some "z") none none none none)).2 = some .cyclicConnection := by
  let g1 : Graph := cycG.insNode "z" ⟨.unspecified, [], "", 0⟩
  have hr0 : cycG.nodes["a"]? = some ⟨.unspecified, [], "", 0⟩ := by decide
  have hfree : "z" ∉ cycG.nodes := by decide
  have hok : NameOk cycG.cls "z" := by decide
  have hin : g1.edgesTo "a" = [] := by decide
  have hout : g1.edgesFrom "a" = [(("a", "b"), ⟨.directed, []⟩)] := by decide
  have hdir : (addEdgeResult g1 { id := "z" } { id := "b" } .directed []).dirEdges =
      [("a", "b"), ("b", "c"), ("c", "d"), ("d", "b"), ("z", "b")] := by decide
  have hkey : okey ((g1.ensure { id := "z" }).ensure { id := "b" }) "z" "b" = ("z", "b") := by decide
  have hcyc : addEdgeCycle g1 { id := "z" } { id := "b" } .directed [] = true := by
    unfold addEdgeCycle
    rw [hdir, hkey, selfDepR_iff]
    have e1 : Rel [("a", "b"), ("b", "c"), ("c", "d"), ("d", "b"), ("z", "b")] "b" "c" := by unfold Rel; decide
    have e2 : Rel [("a", "b"), ("b", "c"), ("c", "d"), ("d", "b"), ("z", "b")] "c" "d" := by unfold Rel; decide
    have e3 : Rel [("a", "b"), ("b", "c"), ("c", "d"), ("d", "b"), ("z", "b")] "d" "b" := by unfold Rel; decide
    exact .tail (.tail (.single e1) e2) e3
  have hadd : addEdge g1 "z" "b" .directed [] true = .error .cyclicConnection :=
    addEdgeE_cycle (g := g1) (s := { id := "z" }) (d := { id := "b" })
      ⟨by decide, by decide, by decide, by decide⟩ (by decide) (by decide) rfl hcyc
  have : replaceNodeBase cycG "a" (some "z") none none = .error .cyclicConnection := by
    unfold replaceNodeBase
    simp only [hr0, (hasNode_false_iff _ _).mpr hfree, Bool.false_eq_true, if_false, bind, Except.bind,
      addNode_fresh hok hfree]
    have hg1 : cycG.insNode "z" (nodeRecFor cycG.cls "z" ((none : Option VType).getD VType.unspecified)
        ((none : Option Meta).getD [])) = g1 := rfl
    rw [hg1, hin]
    simp only [copyEdges]
    rw [hout, copyEdges_cons]
    simp only [csrc, cdst, Bool.false_eq_true, if_false]
    rw [hadd]
  show (lift cycG (replaceNode cycG "a" (some "z") none none none none)).2 = _
  rw [replaceNode_plain_eq (by decide : cycG.cls = .plain), this]; rfl

example : ¬ AcyclicG cycG := by
  intro h
  have e1 : Rel cycG.dirEdges "b" "c" := by unfold Rel; decide
  have e2 : Rel cycG.dirEdges "c" "d" := by unfold Rel; decide
  have e3 : Rel cycG.dirEdges "d" "b" := by unfold Rel; decide
  exact h "b" (.tail (.tail (.single e1) e2) e3)

-- add_time_edge
example : (stepRef tsG (.addTimeEdge "x" 0 "y" (-3) [] false)).2 = some .valueError := by decide
example : (stepRef tsG (.addTimeEdge "" 0 "y" 0 [] false)).2 = some .valueError := by decide
example : (stepRef tsG (.addTimeEdge "x" 0 "x" 0 [] false)).2 = some .cyclicConnection := by decide
example : (stepRef tsG (.addTimeEdge "x" (-1) "x" 0 [] false)).2 = some .edgeDuplicated := by decide
example : (stepRef tsFlat (.addTimeEdge "y" 0 "x" 0 [] false)).2 = some .reverseEdgeExists := by decide

-- bulk adders
example : (stepRef tsG (.addNodesFrom ["q", ""])).2 = some .valueError := by decide
example : (stepRef plainG (.addNodesFrom ["q", "a"])).2 = some .nodeDuplicated := by decide
example : (stepRef plainG (.addEdgesFrom [("a", "a")] true)).2 = some .cyclicConnection := by decide
example : (stepRef tsG (.addEdgesFrom [("y", "x lag(n=1)")] true)).2 = some .valueError := by decide
example : (stepRef plainG (.addEdgesFrom [("a", "b")] true)).2 = some .edgeDuplicated := by decide
example : (stepRef plainG (.addEdgesFrom [("b", "a")] true)).2 = some .reverseEdgeExists := by decide
example : (stepRef plainG (.addPath [] true)).2 = some .assertionError := by decide
example : (stepRef plainG (.addPath ["a", "b", "b"] true)).2 = some .cyclicConnection := by decide
example : (stepRef tsG (.addPath ["y", "x lag(n=1)"] true)).2 = some .valueError := by decide
example : (stepRef plainG (.addPath ["a", "b", "a"] true)).2 = some .reverseEdgeExists := by decide
example : (stepRef plainG (.addPaths [])).2 = some .assertionError := by decide
example : (stepRef plainG (.addPaths [["a", "b"], []])).2 = some .assertionError := by decide
example : (stepRef plainG (.addPaths [["a", "b", "b"]])).2 = some .cyclicConnection := by decide
example : (stepRef tsG (.addPaths [["y", "x lag(n=1)"]])).2 = some .valueError := by decide
example : (stepRef plainG (.addPaths [["a", "b", "a"]])).2 = some .reverseEdgeExists := by decide
example : (stepRef plainG (.addFullyConnected ["a"] ["a"])).2 = some .cyclicConnection := by decide
example : (stepRef tsG (.addFullyConnected ["y"] ["x lag(n=1)"])).2 = some .valueError := by decide
example : (stepRef plainG (.addFullyConnected ["a"] ["b"])).2 = some .edgeDuplicated := by decide
example : (stepRef plainG (.addFullyConnected ["b"] ["a"])).2 = some .reverseEdgeExists := by decide

end Tight

/-! ## Non-vacuity: the specifications applied to concrete inputs -/
section Examples
open Demo Tight

/-- `tsAddNode_spec`: `add_node(variable_name='x', time_lag=-1)` on `tsG` is read as the identifier `x lag(n=1)`,
    which is a node already -/
example : tsAddNode tsG none (some "x") (some (-1)) .unspecified [] = .error .nodeDuplicated :=
  (tsAddNode_spec tsG none (some "x") (some (-1)) .unspecified []).2.2.1.mpr
    (.inl ⟨"x lag(n=1)", by decide, by decide⟩)

/-- `deleteEdge_spec`: the reverse key does not count -/
example : deleteEdge plainG "b" "a" none = .error .edgeDoesNotExist :=
  (deleteEdge_spec plainG "b" "a" none).2.1.mpr ⟨by decide, by decide, .inl (by decide)⟩

/-- `addEdge_table` / `addEdge_error_iff_edgeDuplicated` on a well-formed time-series graph: the swapped duplicate -/
example : addEdge tsG "x" "x lag(n=1)" .undirected [] true = .error .edgeDuplicated :=
  (addEdge_error_iff_edgeDuplicated wf_tsG { id := "x" } { id := "x lag(n=1)" } .undirected [] true).mpr
    ⟨by decide, ⟨by decide, by decide⟩, .inr ⟨by decide, by decide, by decide, by decide⟩⟩

/-- `addEdge_error_iff_valueError`: an endpoint created implicitly is placed by the lag its name parses to -/
example : addEdge tsG "w future(n=2)" "x" .directed [] false = .error .valueError :=
  (addEdge_error_iff_valueError wf_tsG { id := "w future(n=2)" } { id := "x" } .directed [] false).mpr
    ⟨by decide, .inr ⟨⟨by decide, by decide⟩, by decide, by decide, rfl⟩⟩

/-- `addEdge_ok_iff_of_acyclic`: `a → c` on `a → b → c` is accepted, and the effect is one more key -/
example : ∃ g', addEdge plainG "a" "c" .directed [] true = .ok g' ∧
    g'.edges = plainG.edges.insert ("a", "c") ⟨.directed, []⟩ ∧ g'.nodes.keys = ["a", "b", "c", "z"] := by
  have hc : ∀ x : String, RTC (Rel plainG.dirEdges) "c" x → x = "c" := by
    intro x hx
    induction hx with
    | refl => rfl
    | tail _ hbc ih =>
      subst ih
      unfold Rel at hbc
      rw [plainG_dirEdges] at hbc
      simp at hbc
  have hok : addEdgeE plainG { id := "a" } { id := "c" } .directed [] true =
      .ok (addEdgeResult plainG { id := "a" } { id := "c" } .directed []) :=
    (addEdge_ok_iff_of_acyclic wf_plainG acyclic_plainG _ _ _ _ _ _).mpr
      ⟨⟨by decide, by decide, by decide, by decide⟩, by decide, by decide,
        fun h => absurd (hc "a" h.2.2) (by decide), rfl⟩
  refine ⟨_, hok, ?_, by decide⟩
  have := (addEdge_effect wf_plainG hok).2.2.2.2.1
  rw [this]
  rfl

/-- `changeEdgeType_spec`: `c -- a` on `a → b → c` can become `<>` (same key, same metadata) … -/
example : changeEdgeType triG "c" "a" .bidirected = .ok (triG.insEdge "c" "a" ⟨.bidirected, [("w", "2")]⟩) := by
  refine ((changeEdgeType_spec wf_triG "c" "a" .bidirected).2.2.1 _).mpr
    ⟨⟨.undirected, [("w", "2")]⟩, by decide, .inr ⟨by decide, ?_, rfl⟩⟩
  intro h
  have := (selfDepR_insEdge_iff acyclic_triG "c" "a" .bidirected [("w", "2")]).mp h
  exact absurd this.1 (by decide)

/-- `replaceEdge_spec`: past its two checks `replace_edge` is `add_edge` on the graph without the old edge -/
example : replaceEdge plainG "a" "b" "c" "b" none none =
    addEdge (plainG.delEdgeRaw "a" "b") "c" "b" .directed [] true :=
  ((replaceEdge_spec wf_plainG "a" "b" "c" "b" none none).2.2.1 ⟨.directed, []⟩ (by decide) (by decide)).2

/-- `replaceNode_plain_spec`: renaming `b` to `q` on `a → b → c` succeeds and re-keys both edges -/
example : ∃ g', replaceNode plainG "b" (some "q") none none none none = .ok g' ∧
    g'.edges[(("a", "q") : EKey)]? = some ⟨.directed, []⟩ ∧ g'.edges[(("q", "c") : EKey)]? = some ⟨.directed, []⟩ ∧
    g'.edges[(("a", "b") : EKey)]? = none ∧ g'.nodes.keys = ["a", "c", "q", "z"] := by
  obtain ⟨g', h1, _, _, h4, h5⟩ := (replaceNode_plain_spec wf_plainG rfl "b" (some "q") none none none none).2.2.1
    acyclic_plainG ⟨.unspecified, [], "", 0⟩ "q" (by decide) rfl (by decide)
  refine ⟨g', h1, ?_, ?_, ?_, ?_⟩
  · rw [h5]; decide
  · rw [h5]; decide
  · rw [h5]; decide
  · rw [h4]; decide

/-- `replaceNode_ts_spec`: moving `x` (parent `x lag(n=1)`) two steps back in time -/
example : replaceNode tsG "x" (some "x lag(n=2)") none none none none = .error .valueError :=
  (replaceNode_ts_spec (r0 := ⟨.unspecified, [], "x", 0⟩) wf_tsG acyclic_tsG (by decide) (by decide) (by decide)
    none none).1.mpr (.inr (.inl ⟨"x lag(n=1)", ⟨.directed, []⟩, by decide, rfl, by decide⟩))

/-- `error_classes_documented` on a concrete rejected call -/
example : Err.edgeDuplicated ∈ documented (.addEdge { id := "x" } { id := "x lag(n=1)" } .undirected [] true) :=
  error_classes_documented wf_tsG (g := tsG) (by decide)

end Examples

end CG.C01
