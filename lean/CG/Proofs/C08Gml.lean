/-
C08 / C09, the GML text layer (networkx 3.2.1 `generate_gml` / `parse_gml`, transcribed in CG/Model/NxGml.lean and compared
with the real routines by harness/lanes/c08_nxgml.py): what is written can be read back.

Everything is about the model functions on `List Char` (a Python `str` without lone surrogates); the last section restates
the round trip for `String`s (`generateGml` / `parseGml`).

(M1) `unescape_escape`            unescape(escape(s)) == s, for every s
     `escape_chars`               escape(s) is printable ASCII without `"` (so without line breaks as well)
(M2) `tokenize_generated`         the tokenizer on the generated text yields exactly `genToks` (KEYS / INTS / STRINGS / `[` / `]`
                                  tokens in the expected order, the STRINGS bodies being the escaped labels), no exception token
(M3) `parse_generate`             THE round trip.  For every directed flag, every duplicate-free list of labels without the label
                                  `[]`, every edge list `EdgesOk` over them: parse(generate) = (flag, the labels IN ORDER -- the
                                  label `()` comes back as the empty tuple --, the edges in `nxOrder`)
     `nxOrder_of_view`            `nxOrder` of a list that is itself `list(G.edges)` of some (di)graph on those nodes is that
                                  list: node order AND edge order are preserved for what `to_gml_string` writes
     `parse_generate_strings`     no mangled label: the nodes are exactly the strings
     `parse_generate_list_label`  a label `[]`: `TypeError`, whatever the rest
     `survives_iff`               the mangled set is exactly {`()`, `[]`}: the nodes come back as the strings that were written
                                  iff no label is one of these two
     `parseGml_generateGml`       the same for `String`s
(M4) `duplicate_id_refused`, `duplicate_label_refused`, `undefined_source_refused`, `undefined_target_refused`,
     `duplicate_edge_refused`     the refusals of the two loops, for arbitrary node / edge dicts

A hypothesis that looks odd but is needed: `labels.length < 10 ^ 4300`.  Python refuses `int()` of more than 4300 digits, so
a graph with that many nodes writes ids it cannot read (`ValueError`); the model mirrors the limit.
-/
import CG.Proofs.Lemmas.GmlRoundTrip
import CG.Proofs.Lemmas.GmlOrder

namespace CG.C08Gml
open CG.NxGml

deriving instance DecidableEq for Except

/-! ## (M1) escape / unescape -/

/-- (M1) `unescape(escape(s)) == s` for every string -/
theorem unescape_escape (s : List Char) : unescape (escape s) = .ok s := unescape_escape_chars s

example : unescape (escape "a&b\"c\n é😀 &amp; &#38;".toList) = .ok "a&b\"c\n é😀 &amp; &#38;".toList := unescape_escape _

/-- (M1) what `escape` writes is printable ASCII without `"`; in particular no line break of `str.splitlines` -/
theorem escape_chars (s : List Char) : ∀ c ∈ escape s, ' ' ≤ c ∧ c ≤ '~' ∧ c ≠ '"' ∧ isBreak c = false := by
  intro c hc
  have hp := escape_plain s c hc
  have hb := (plain_not_break hp).1
  simp only [plain, Bool.and_eq_true, decide_eq_true_eq, bne_iff_ne, ne_eq] at hp
  exact ⟨hp.1.1, hp.1.2, hp.2, hb⟩

/-- (M1) every `&` that `escape` writes starts a decimal character reference of the character it stands for -/
theorem escape_cons (c : Char) (s : List Char) :
    escape (c :: s) = (if needsEsc c then '&' :: '#' :: (Nat.toDigits 10 c.toNat ++ [';']) else [c]) ++ escape s := by
  rw [CG.NxGml.escape_cons]; rfl

/-! ## (M2) the tokenizer on the generated text -/

/-- (M2) `tokenize()` on the generated text: the expected stream, ending in `eof`, no exception -/
theorem tokenize_generated (d : Bool) (labels : List (List Char)) (edges : List (List Char × List Char))
    (hlen : labels.length < 10 ^ maxDigits) :
    tokLines (splitLines (genText d labels edges)) none = genToks d labels edges := by
  rw [splitLines_genText, tokLines_genLines d labels edges hlen]

example : tokLines (splitLines (genText true [['a', '"']] [(['a', '"'], ['a', '"'])])) none =
    [.key kGraph, .lb, .key kDirected, .int 1, .key kNode, .lb, .key kId, .int 0, .key kLabel, .str "a&#34;".toList, .rb,
     .key kEdge, .lb, .key kSource, .int 0, .key kTarget, .int 0, .rb, .rb, .eof] := by decide +kernel

/-! ## (M3) the round trip -/

/-- the order in which the edges come back: `list(H.edges)` of the graph rebuilt from `list(G.edges)` of the graph built
from `edges` -/
def nxOrder (d : Bool) (labels : List (List Char)) (edges : List (List Char × List Char)) : List (Atom × Atom) :=
  edgesView d (labNodes labels) (edgesView d (labNodes labels) (labEdges edges))

/-- (M3) the round trip -/
theorem parse_generate (d : Bool) (labels : List (List Char)) (edges : List (List Char × List Char))
    (hlen : labels.length < 10 ^ maxDigits) (hnd : labels.Nodup) (hm : ['[', ']'] ∉ labels)
    (hok : EdgesOk d labels edges) :
    parseText (genText d labels edges) = .ok ⟨d, labNodes labels, nxOrder d labels edges⟩ :=
  parseText_genText d labels edges hlen hnd hm hok

example : parseText (genText true [['b'], ['a'], ['1']] [(['b'], ['a']), (['b'], ['b']), (['1'], ['a'])]) =
    .ok ⟨true, [.str ['b'], .str ['a'], .str ['1']],
      [(.str ['b'], .str ['a']), (.str ['b'], .str ['b']), (.str ['1'], .str ['a'])]⟩ := by decide +kernel

/-- the hypotheses of `parse_generate` on a non-trivial input -/
example : EdgesOk false [['b'], ['a']] [(['b'], ['a']), (['a'], ['a'])] :=
  ⟨by decide, by decide⟩

theorem nodup_labNodes {labels : List (List Char)} (hnd : labels.Nodup) : (labNodes labels).Nodup := by
  unfold labNodes
  induction labels with
  | nil => exact List.nodup_nil
  | cons l ls ih =>
    have h := List.nodup_cons.mp hnd
    rw [List.map_cons, List.nodup_cons]
    refine ⟨?_, ih h.2⟩
    intro hin
    obtain ⟨x, hx, hxe⟩ := List.mem_map.mp hin
    have := labelAtom_inj hxe
    subst this; exact h.1 hx

/-- (M3) `list(G.edges)` comes back in the same ORDER: if the edge list that is written is the edge view of some (di)graph
on these nodes (which is what `generate_gml` iterates over) then `nxOrder` is that list -/
theorem nxOrder_of_view (d : Bool) (labels : List (List Char)) (edges : List (List Char × List Char))
    (E0 : List (Atom × Atom)) (hnd : labels.Nodup)
    (hview : labEdges edges = edgesView d (labNodes labels) E0) :
    nxOrder d labels edges = labEdges edges := by
  unfold nxOrder
  rw [hview, edgesView_idem d _ E0 (nodup_labNodes hnd), edgesView_idem d _ E0 (nodup_labNodes hnd)]

/-- without any assumption on the order of `edges`: what comes back is the edge view of the graph built from `edges`
(for a `DiGraph`: grouped by source in node order, insertion order inside a group) -/
theorem nxOrder_eq_view (d : Bool) (labels : List (List Char)) (edges : List (List Char × List Char))
    (hnd : labels.Nodup) : nxOrder d labels edges = edgesView d (labNodes labels) (labEdges edges) :=
  edgesView_idem d _ _ (nodup_labNodes hnd)

example : nxOrder true [['a'], ['b']] [(['b'], ['a']), (['a'], ['b'])] =
    [(.str ['a'], .str ['b']), (.str ['b'], .str ['a'])] := by decide +kernel

theorem labNodes_strings {labels : List (List Char)} (hm : ∀ l ∈ labels, ¬ Mangled l) :
    labNodes labels = labels.map Atom.str := by
  unfold labNodes
  apply List.map_congr_left
  intro l hl
  exact labelAtom_ok (hm l hl)

/-- (M3) no mangled label: the nodes that come back are exactly the strings, in order -/
theorem parse_generate_strings (d : Bool) (labels : List (List Char)) (edges : List (List Char × List Char))
    (hlen : labels.length < 10 ^ maxDigits) (hnd : labels.Nodup) (hm : ∀ l ∈ labels, ¬ Mangled l)
    (hok : EdgesOk d labels edges) :
    parseText (genText d labels edges) = .ok ⟨d, labels.map Atom.str, nxOrder d labels edges⟩ := by
  rw [← labNodes_strings hm]
  exact parse_generate d labels edges hlen hnd (fun h => hm _ h (Or.inr rfl)) hok

/-- (M3) a label `[]` is read as a list, which cannot be a node: `TypeError`, whatever else the graph contains -/
theorem parse_generate_list_label (d : Bool) (labels : List (List Char)) (edges : List (List Char × List Char))
    (hlen : labels.length < 10 ^ maxDigits) (hnd : labels.Nodup) (hm : ['[', ']'] ∈ labels) :
    parseText (genText d labels edges) = .error .TypeError :=
  parseText_genText_listLabel d labels edges hlen hnd hm

/-- witnesses: the label `()` comes back as the empty tuple, the label `[]` makes the text unreadable -/
example : parseText (genText true [['(', ')']] []) = .ok ⟨true, [.tuple0], []⟩ := by decide +kernel
example : parseText (genText true [['[', ']']] []) = .error .TypeError := by decide +kernel

/-- (M3) the mangled set is EXACTLY {`()`, `[]`}: the nodes come back as the strings that were written iff no label is
one of the two -/
theorem survives_iff (d : Bool) (labels : List (List Char)) (edges : List (List Char × List Char))
    (hlen : labels.length < 10 ^ maxDigits) (hnd : labels.Nodup) (hok : EdgesOk d labels edges) :
    (∃ es, parseText (genText d labels edges) = .ok ⟨d, labels.map Atom.str, es⟩) ↔ ∀ l ∈ labels, ¬ Mangled l := by
  constructor
  · rintro ⟨es, hes⟩ l hl hml
    by_cases hlist : ['[', ']'] ∈ labels
    · rw [parse_generate_list_label d labels edges hlen hnd hlist] at hes
      exact absurd hes (by simp)
    · rw [parse_generate d labels edges hlen hnd hlist hok] at hes
      injection hes with hes
      injection hes with _ hnodes _
      have hl2 : l = ['(', ')'] := by
        rcases hml with h | h
        · exact h
        · exact absurd (h ▸ hl) hlist
      have := List.map_inj_left.mp hnodes l hl
      rw [hl2] at this
      exact absurd this (by decide)
  · intro hm
    exact ⟨_, parse_generate_strings d labels edges hlen hnd hm hok⟩

/-! ## the same for `String`s -/

theorem unescape_escape_string (s : String) :
    (unescape (escape s.toList)).map String.ofList = .ok s := by
  rw [unescape_escape]
  simp [Except.map]

/-- (M3) `parse_gml(generate_gml(G))` for `String` labels: `labels = list(G)`, `edges = list(G.edges)` -/
theorem parseGml_generateGml (d : Bool) (labels : List String) (edges : List (String × String))
    (hlen : labels.length < 10 ^ maxDigits) (hnd : labels.Nodup) (hm : ∀ l ∈ labels, l ≠ "()" ∧ l ≠ "[]")
    (hmem : ∀ e ∈ edges, e.1 ∈ labels ∧ e.2 ∈ labels)
    (hpw : edges.Pairwise fun a b => a ≠ b ∧ (d = false → (a.2, a.1) ≠ b)) :
    parseGml (generateGml d labels edges) =
      .ok ⟨d, labels.map (fun s => Atom.str s.toList),
        nxOrder d (labels.map String.toList) (edges.map fun e => (e.1.toList, e.2.toList))⟩ := by
  unfold parseGml generateGml
  rw [String.toList_ofList]
  have h := parse_generate_strings d (labels.map String.toList) (edges.map fun e => (e.1.toList, e.2.toList))
    (by simpa using hlen)
    (by
      clear hlen hm hmem hpw
      induction labels with
      | nil => exact List.nodup_nil
      | cons l ls ih =>
        have h := List.nodup_cons.mp hnd
        rw [List.map_cons, List.nodup_cons]
        refine ⟨?_, ih h.2⟩
        intro hin
        obtain ⟨x, hx, hxe⟩ := List.mem_map.mp hin
        have := String.toList_inj.mp hxe
        subst this; exact h.1 hx)
    (by
      intro l hl hml
      obtain ⟨x, hx, rfl⟩ := List.mem_map.mp hl
      have := hm x hx
      rcases hml with h | h
      · exact this.1 (String.toList_inj.mp (by rw [h]; rfl))
      · exact this.2 (String.toList_inj.mp (by rw [h]; rfl)))
    ⟨by
      intro e he
      obtain ⟨x, hx, rfl⟩ := List.mem_map.mp he
      exact ⟨List.mem_map.mpr ⟨_, (hmem x hx).1, rfl⟩, List.mem_map.mpr ⟨_, (hmem x hx).2, rfl⟩⟩,
     by
      rw [List.pairwise_map]
      apply List.Pairwise.imp _ hpw
      intro a b hab hsame
      rcases hsame with h | ⟨hd, h⟩
      · injection h with h1 h2
        exact hab.1 (Prod.ext (String.toList_inj.mp h1) (String.toList_inj.mp h2))
      · injection h with h1 h2
        exact hab.2 hd (Prod.ext (String.toList_inj.mp h1) (String.toList_inj.mp h2))⟩
  rw [h, List.map_map]
  rfl

example : parseGml (generateGml false ["x y", "&", ""] [("x y", "")]) =
    .ok ⟨false, [.str "x y".toList, .str "&".toList, .str []], [(.str "x y".toList, .str [])]⟩ := by decide +kernel

/-! ## (M4) refusals -/

/-- a node whose `id` is already a node of the graph is refused -/
theorem duplicate_id_refused (nd : List (List Char × Value)) (rest : List Value) (ids : List Atom)
    (mapping : List (Atom × Atom)) (v : Value) (a : Atom) (h1 : nd.lookup kId = some v) (h2 : hashable v = true)
    (h3 : toAtom v = .ok a) (h4 : a ∈ ids) :
    buildNodes (.dict nd :: rest) ids mapping = .error .NetworkXError := by
  have c : ids.contains a = true := List.contains_iff_mem.mpr h4
  rw [buildNodes]
  simp only [popAttr, h1, ok_bind, pure, Except.pure, h2, if_true, h3, c]
  rfl

/-- a node whose `label` is already the label of an earlier node is refused -/
theorem duplicate_label_refused (nd : List (List Char × Value)) (rest : List Value) (ids : List Atom)
    (mapping : List (Atom × Atom)) (v lv : Value) (a l : Atom) (h1 : nd.lookup kId = some v) (h2 : hashable v = true)
    (h3 : toAtom v = .ok a) (h4 : a ∉ ids) (h5 : (nd.filter fun p => p.1 != kId).lookup kLabel = some lv)
    (h6 : toAtom lv = .ok l) (h7 : l ∈ mapping.map Prod.snd) :
    buildNodes (.dict nd :: rest) ids mapping = .error .NetworkXError := by
  have c : ids.contains a = false := by
    cases h : ids.contains a
    · rfl
    · exact absurd (List.contains_iff_mem.mp h) h4
  have c2 : (mapping.map Prod.snd).contains l = true := List.contains_iff_mem.mpr h7
  rw [buildNodes]
  simp only [popAttr, h1, ok_bind, pure, Except.pure, h2, if_true, h3, c, Bool.false_eq_true, if_false, h5, h6, c2]
  rfl

/-- an edge whose `source` is not the id of a node is refused -/
theorem undefined_source_refused (d : Bool) (ed : List (List Char × Value)) (rest : List Value) (ids : List Atom)
    (E : List (Atom × Atom)) (sv tv : Value) (s : Atom) (h1 : ed.lookup kSource = some sv)
    (h2 : (ed.filter fun p => p.1 != kSource).lookup kTarget = some tv) (h3 : toAtom sv = .ok s) (h4 : s ∉ ids) :
    buildEdges d ids (.dict ed :: rest) E = .error .NetworkXError := by
  have c : ids.contains s = false := by
    cases h : ids.contains s
    · rfl
    · exact absurd (List.contains_iff_mem.mp h) h4
  rw [buildEdges]
  simp only [popAttr, h1, h2, ok_bind, pure, Except.pure, h3, c]
  cases hashable sv <;> rfl

/-- an edge whose `target` is not the id of a node is refused -/
theorem undefined_target_refused (d : Bool) (ed : List (List Char × Value)) (rest : List Value) (ids : List Atom)
    (E : List (Atom × Atom)) (sv tv : Value) (s t : Atom) (h1 : ed.lookup kSource = some sv)
    (h2 : (ed.filter fun p => p.1 != kSource).lookup kTarget = some tv) (h3 : toAtom sv = .ok s) (h4 : s ∈ ids)
    (h5 : toAtom tv = .ok t) (h6 : t ∉ ids) :
    buildEdges d ids (.dict ed :: rest) E = .error .NetworkXError := by
  have c : ids.contains s = true := List.contains_iff_mem.mpr h4
  have c2 : ids.contains t = false := by
    cases h : ids.contains t
    · rfl
    · exact absurd (List.contains_iff_mem.mp h) h6
  rw [buildEdges]
  simp only [popAttr, h1, h2, ok_bind, pure, Except.pure, h3, h5, c, c2]
  cases hashable sv <;> cases hashable tv <;> rfl

/-- an edge that is already in the graph (in either direction for a `Graph`) is refused -/
theorem duplicate_edge_refused (d : Bool) (ed : List (List Char × Value)) (rest : List Value) (ids : List Atom)
    (E : List (Atom × Atom)) (sv tv : Value) (s t : Atom) (h1 : ed.lookup kSource = some sv)
    (h2 : (ed.filter fun p => p.1 != kSource).lookup kTarget = some tv) (h3 : toAtom sv = .ok s) (h4 : s ∈ ids)
    (h5 : toAtom tv = .ok t) (h6 : t ∈ ids) (h7 : hasEdge d E s t = true) :
    buildEdges d ids (.dict ed :: rest) E = .error .NetworkXError := by
  have c : ids.contains s = true := List.contains_iff_mem.mpr h4
  have c2 : ids.contains t = true := List.contains_iff_mem.mpr h6
  rw [buildEdges]
  simp only [popAttr, h1, h2, ok_bind, pure, Except.pure, h3, h5, c, c2, h7]
  cases hashable sv <;> cases hashable tv <;> rfl

/-- the refusals on concrete texts -/
example : parseGml "graph [ node [ id 0 label \"a\" ] node [ id 1 label \"a\" ] ]" = .error .NetworkXError := by decide +kernel
example : parseGml "graph [ node [ id 0 label \"a\" ] node [ id 0 label \"b\" ] ]" = .error .NetworkXError := by decide +kernel
example : parseGml "graph [ node [ id 0 label \"a\" ] edge [ source 1 target 0 ] ]" = .error .NetworkXError := by decide +kernel
example : parseGml "graph [ node [ id 0 ] ]" = .error .NetworkXError := by decide +kernel
example : parseGml "graph[node[id 0 label\"a\"]edge[source 0 target 0]edge[source 0 target 0]]" =
    .error .NetworkXError := by decide +kernel
example : parseGml "#c\r\ngraph[directed 1 node[id 7 label\"&amp;&#66;\"w[q 1.5]]]" =
    .ok ⟨true, [.str "&B".toList], []⟩ := by decide +kernel

end CG.C08Gml
