/-
The history theorems for the mechanism-level machine `run` (the one the driver executes and the lanes compare
with the implementation): `step = stepRef` on well-formed states (`C03.step_eq_stepRef`) discharges the
hypothesis of `wf_run`.
-/
import CG.Proofs.WFStep
import CG.Proofs.AcyclicStep
import CG.Proofs.C13Inv
import CG.Proofs.C03

namespace CG
open Std

/-- **every history of the mechanism-level machine from a well-formed state ends in a well-formed state**, and the
    mechanism-level run coincides with the reference run -/
theorem wf_run_all {g : Graph} (hw : WF g) (ops : List Op) : WF (run g ops) ∧ run g ops = runRef g ops :=
  wf_run (fun _ op h => C03.step_eq_stepRef h op) hw ops

theorem wf_run_empty (c : GraphClass) (gm : Meta) (ops : List Op) : WF (run (Graph.empty c gm) ops) :=
  (wf_run_all (wf_empty c gm) ops).1

/-- **C02 (histories): a history all of whose calls validate never holds a directed cycle** -/
theorem acyclic_run (c : GraphClass) (gm : Meta) (ops : List Op) (hv : ∀ op ∈ ops, op.validates = true) :
    AcyclicG (run (Graph.empty c gm) ops) := by
  rw [(wf_run_all (wf_empty c gm) ops).2]
  exact acyclic_runRef c gm ops hv

/-- **C13 (histories): no stored edge of a time-series graph points backwards in time** -/
theorem run_no_edge_backwards (gm : Meta) (ops : List Op) :
    ∀ kv ∈ (run (Graph.empty .ts gm) ops).edges.toList,
      (run (Graph.empty .ts gm) ops).lagOf kv.1.1 ≤ (run (Graph.empty .ts gm) ops).lagOf kv.1.2 := by
  rw [(wf_run_all (wf_empty .ts gm) ops).2]
  exact C13.history_no_edge_backwards gm ops

/-- **C12 (histories): identifier, variable and lag of every stored time-series node agree** -/
theorem run_identity_coherent (gm : Meta) (ops : List Op) (n : String) (r : NodeRec)
    (h : (run (Graph.empty .ts gm) ops).nodes[n]? = some r) :
    Name.parse n = some (r.var, r.lag) ∧ r.md.tsStrip = r.md := by
  rw [(wf_run_all (wf_empty .ts gm) ops).2] at h
  exact ts_identity_coherent ops gm n r h

example : WF (run (Graph.empty .ts) Demo.tsOps) := wf_run_empty .ts [] Demo.tsOps

end CG
