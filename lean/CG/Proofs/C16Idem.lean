/-
C16, fixed point as an equality of STATES.

`CG/Proofs/C16.lean` proves `stationary_idem`: applying `get_stationary_graph` to its own result gives a graph with the
same nodes and the same typed edges (hence `==`), and keeps `def stationary_idem_statement` — equality of the full
states (variable types, node metadata, edge metadata, class, graph metadata) under `TsHyp g`, `TemplateConsistent g`
and latest lag 0 — unproved.  That statement is FALSE, on the model and on the implementation alike:

  g :  nodes  `x lag(n=2)` (variable_type=binary, meta={'k': 1}),  `x`,  `x lag(n=10)`;   edge  `x lag(n=2) -> x`

  s  = g.get_stationary_graph()   holds `x lag(n=2)` with (binary, {'k': 1}) — the record of the minimal graph, whose
                                  edge `x lag(n=2) -> x` was built from the input's own endpoints — and every other
                                  `x lag(n=k)`, k = 0 … 10, with (unspecified, {}) (copies of the minimal graph's `x`)
  s' = s.get_stationary_graph()   holds `x lag(n=2)` with (unspecified, {}): the edge loop of `get_minimal_graph` visits
                                  the edges of `s` in sorted order of identifiers, `"x lag(n=10)" < "x lag(n=2)"` as
                                  strings, so the template `(x, x, 2)` is now instantiated from `x lag(n=10) -> x lag(n=8)`,
                                  whose endpoints are lagged copies.

`s == s'` (shallow and structural), `s.__eq__(s', deep=True)` is `False`, `s.to_dict() != s'.to_dict()`; the third
application changes nothing more.  (`#eval Cex.report` below; the same on `/repo` with `/venv/bin/python`: 11 nodes each,
equal edges and graph metadata, `x lag(n=2)` = ('binary', {'k': 1, …}) first, ('unspecified', {…}) second.)  The kernel
decides the deviation (`Cex.differs_true`), the input meets the hypotheses (`Cex.g0_hyp`, `Cex.g0_consistent`,
`Cex.g0_max`), hence `stationary_idem_statement_false : ¬ stationary_idem_statement`.  Sorted order differs from lag
order only from lag 10 on, and a random search on the implementation over 6 000 graphs with windows ≤ 4 and random
node attributes found no deviation.

What IS true, and proved here (`hext` discharged by `CG.C16.extendSpec`):

  stationary_idem_attrs       without any attribute hypothesis: the second result has the class, the graph metadata and
                              the WHOLE EDGE MAP (types and metadata) of the first, the same identifiers with the same
                              variable / lag, and every node carries the variable type and user metadata of SOME node of
                              the same variable of the first result
  stationary_edge_uniform     (why the edge map is equal) in a stationary graph all copies of a template carry one record
  stationary_nodeConsistent   if the nodes of every variable of `g` agree in variable type and metadata, so do those of `s`
  stationary_varConsistent    `VarConsistent g → VarConsistent s`
  stationary_idem_state       **under `NodeConsistent g` (the node half of `VarConsistent g`) the full state is a fixed
                              point: `stationaryGraph s idx' = .ok s`**, for every insertion order `idx'`
  stationary_idem_full        the same under `VarConsistent g`
  stationary_keeps_minimal    the stationary graph keeps the node records of the minimal graph
  stationary_idem_statement_false   the unconditional statement of `C16.lean` is refuted (kernel-evaluated counter-example)
-/
import CG.Proofs.C16Closed
import CG.Proofs.C14Idem
import CG.Proofs.WFRun

namespace CG.C16
open CG Std CG.Name CG.TS

variable {g : Graph}

/-! ### the result as the pure pipeline over the minimal graph -/

/-- `get_stationary_graph` = the pure extension pipeline of C15 applied to the minimal graph -/
theorem stationaryGraph_pure (h : TsHyp g) (hc : TemplateConsistent g) {lo : Int} (hr : LagRange g lo 0)
    (idx : List String) :
    stationaryGraph g idx = .ok (C15.extPure (minPure g idx) (some (-lo).toNat) (some 0) false) := by
  obtain ⟨hlo, hhi⟩ := (lagRange_iff g lo 0).mp hr
  obtain ⟨ord, ho⟩ := minimalGraphO_eq h hc idx
  have hm := minimalGraph_eq h hc idx
  obtain ⟨m1, m2, _, _⟩ := C14.minimal_hyp h hc idx hm
  have hle := hr.le
  have hbb : (((-lo).toNat : Nat) : Int) = -lo := Int.toNat_of_nonneg (by omega)
  have x1 := C15.extendGraph_eq m1 m2 ord (some (-lo).toNat) (some 0) false (C14.minimal_idem h hc idx ord hm)
  rw [stationaryGraph_eq ho hlo hhi, ← x1]
  simp only [Option.map_some, Int.ofNat_eq_natCast, hbb]
  rfl

/-- every result of `get_stationary_graph` is the pure extension of a minimal-shaped graph which is the minimal graph
    of the input -/
theorem stationary_form (h : TsHyp g) (hc : TemplateConsistent g) (h0 : listMax (lagsOf g) = some 0)
    {idx : List String} {s : Graph} (hs : stationaryGraph g idx = .ok s) :
    ∃ (lo : Int) (m : Graph), LagRange g lo 0 ∧ minimalGraph g idx = .ok m ∧ MinShape m ∧
      s = C15.extPure m (some (-lo).toNat) (some 0) false := by
  obtain ⟨lo, hr⟩ := lagRange_of_max h0
  have hm := minimalGraph_eq h hc idx
  refine ⟨lo, minPure g idx, hr, hm, C15.minShape_minimal h hc idx hm, ?_⟩
  rw [stationaryGraph_pure h hc hr idx] at hs
  cases hs
  rfl

/-! ### class and graph metadata of the pure extension -/

theorem extPure_gmeta (m : Graph) (b f : Option Nat) (iap : Bool) : (C15.extPure m b f iap).gmeta = m.gmeta := by
  by_cases he : m.nodes.isEmpty ∧ m.edges.isEmpty
  · unfold C15.extPure; rw [if_pos he]
  · rw [C15.extPure_eq he]
    simp only [putAll_gmeta, putNodes_gmeta]

/-- **class and graph metadata of the stationary graph are those of the input** -/
theorem stationary_meta (h : TsHyp g) (hc : TemplateConsistent g) (h0 : listMax (lagsOf g) = some 0)
    {idx : List String} {s : Graph} (hs : stationaryGraph g idx = .ok s) : s.cls = .ts ∧ s.gmeta = g.gmeta := by
  obtain ⟨lo, m, _, hm, hsh, rfl⟩ := stationary_form h hc h0 hs
  exact ⟨(C15.tinv_extPure hsh _ _ _).cls, (extPure_gmeta m _ _ _).trans (C14.minimal_meta h hc idx hm).2⟩

/-- the pure extension keeps the node records of the graph it extends -/
theorem extPure_keeps {m : Graph} (b f : Option Nat) (iap : Bool) {n : String} {r : NodeRec}
    (hr : m.nodes[n]? = some r) : (C15.extPure m b f iap).nodes[n]? = some r := by
  by_cases he : m.nodes.isEmpty ∧ m.edges.isEmpty
  · unfold C15.extPure; rw [if_pos he]; exact hr
  · rw [C15.extPure_eq he]
    have mem : ∀ {x : Graph}, x.nodes[n]? = some r → n ∈ x.nodes := fun hx => (mem_nodes_iff _ _).mpr ⟨r, hx⟩
    have e1 := (getElem?_putNodes_of_mem m (C15.bN m b) (mem hr)).trans hr
    have e2 := (getElem?_putAll_nodes_of_mem _ (C15.bT m b iap) (mem e1)).trans e1
    have e3 := (getElem?_putNodes_of_mem _ (C15.fN m f) (mem e2)).trans e2
    exact (getElem?_putAll_nodes_of_mem _ (C15.fT m f) (mem e3)).trans e3

/-- **the stationary graph keeps the node records of the minimal graph** -/
theorem stationary_keeps_minimal (h : TsHyp g) (hc : TemplateConsistent g) (h0 : listMax (lagsOf g) = some 0)
    {idx : List String} {s m : Graph} (hs : stationaryGraph g idx = .ok s) (hm : minimalGraph g idx = .ok m)
    {n : String} {r : NodeRec} (hr : m.nodes[n]? = some r) : s.nodes[n]? = some r := by
  obtain ⟨lo, m0, _, hm0, _, rfl⟩ := stationary_form h hc h0 hs
  rw [hm] at hm0
  cases hm0
  exact extPure_keeps _ _ _ hr

/-! ### all copies of a template carry one record -/

/-- in the pure extension of a minimal-shaped graph, two edges whose endpoints have the same variables and the same
    time difference carry the same record (type AND metadata): both are shifted copies of the one edge of the minimal
    graph for that template -/
theorem extPure_edge_uniform {m : Graph} (hm : MinShape m) (b f : Option Nat) (iap : Bool)
    {a c a' c' : String} {re re' : EdgeRec} {ra rc ra' rc' : NodeRec}
    (he : (C15.extPure m b f iap).edges[(a, c)]? = some re) (ha : (C15.extPure m b f iap).nodes[a]? = some ra)
    (hc : (C15.extPure m b f iap).nodes[c]? = some rc)
    (he' : (C15.extPure m b f iap).edges[(a', c')]? = some re') (ha' : (C15.extPure m b f iap).nodes[a']? = some ra')
    (hc' : (C15.extPure m b f iap).nodes[c']? = some rc')
    (e1 : ra.var = ra'.var) (e2 : rc.var = rc'.var) (e3 : rc.lag - ra.lag = rc'.lag - ra'.lag) : re = re' := by
  have hx := C15.tinv_extPure hm b f iap
  -- the edge of `m` a stored edge is a copy of, named by the records of the copy's endpoints
  have key : ∀ {a c : String} {re : EdgeRec} {ra rc : NodeRec},
      (C15.extPure m b f iap).edges[(a, c)]? = some re → (C15.extPure m b f iap).nodes[a]? = some ra →
      (C15.extPure m b f iap).nodes[c]? = some rc →
      m.edges[(fmt ra.var (ra.lag - rc.lag), fmt rc.var 0)]? = some re := by
    intro a c re ra rc he ha hc
    obtain ⟨a0, c0, sr, dr, k, he0, ha0, hc0, ea, ec⟩ := C15.edge_source_ext hm b f iap he
    obtain ⟨sr2, dr2, ha2, hc2, ds, dd, ea0, ec0, hd0, _, _, _⟩ := hm.edge he0
    rw [ha0] at ha2; rw [hc0] at hc2; cases ha2; cases hc2
    have la := hx.canon.lookup ds (ea ▸ ha)
    have lc := hx.canon.lookup dd (ec ▸ hc)
    have hl : ra.lag - rc.lag = sr.lag := by rw [la.2, lc.2]; omega
    rw [la.1, lc.1, hl, ← ea0, ← ec0]
    exact he0
  have k1 := key he ha hc
  have k2 := key he' ha' hc'
  have hl : ra.lag - rc.lag = ra'.lag - rc'.lag := by omega
  rw [e1, e2, hl, k2] at k1
  exact (Option.some.inj k1).symm

/-- **in a stationary graph all copies of a template carry one record** (type and metadata) — no attribute hypothesis
    on the input -/
theorem stationary_edge_uniform (h : TsHyp g) (hc : TemplateConsistent g) (h0 : listMax (lagsOf g) = some 0)
    {idx : List String} {s : Graph} (hs : stationaryGraph g idx = .ok s)
    {a c a' c' : String} {re re' : EdgeRec} {ra rc ra' rc' : NodeRec}
    (he : s.edges[(a, c)]? = some re) (ha : s.nodes[a]? = some ra) (hc' : s.nodes[c]? = some rc)
    (he' : s.edges[(a', c')]? = some re') (ha' : s.nodes[a']? = some ra') (hc'' : s.nodes[c']? = some rc')
    (e1 : ra.var = ra'.var) (e2 : rc.var = rc'.var) (e3 : rc.lag - ra.lag = rc'.lag - ra'.lag) : re = re' := by
  obtain ⟨lo, m, _, _, hsh, rfl⟩ := stationary_form h hc h0 hs
  exact extPure_edge_uniform hsh _ _ _ he ha hc' he' ha' hc'' e1 e2 e3

/-! ### where the node attributes of the result come from -/

/-- every node record of the stationary graph carries variable, variable type and user metadata of a node of the input -/
theorem stationary_node_source (h : TsHyp g) (hc : TemplateConsistent g) (h0 : listMax (lagsOf g) = some 0)
    {idx : List String} {s : Graph} (hs : stationaryGraph g idx = .ok s) {n : String} {r : NodeRec}
    (hr : s.nodes[n]? = some r) :
    ∃ (n0 : String) (r0 : NodeRec), g.nodes[n0]? = some r0 ∧ r.var = r0.var ∧ r.vtype = r0.vtype ∧ r.md = r0.md := by
  obtain ⟨lo, m, _, hm, hsh, rfl⟩ := stationary_form h hc h0 hs
  obtain ⟨n1, r1, h1, a1, a2, a3⟩ := C15.node_source_ext hsh _ _ _ hr
  obtain ⟨n0, r0, h2, b1, b2, b3⟩ := C14.minimal_node_source h hc idx hm h1
  exact ⟨n0, r0, h2, a1.trans b1, a2.trans b2, a3.trans b3⟩

/-- the nodes of every variable agree in variable type and user metadata (the node half of `VarConsistent`) -/
def NodeConsistent (g : Graph) : Prop :=
  ∀ (n n' : String) (r r' : NodeRec), g.nodes[n]? = some r → g.nodes[n']? = some r' → r.var = r'.var →
    r.vtype = r'.vtype ∧ r.md = r'.md

theorem VarConsistent.nodeConsistent {g : Graph} (hv : VarConsistent g) : NodeConsistent g := hv.nodes

/-- **node attributes stay consistent**: if the nodes of every variable of `g` agree, so do those of the result -/
theorem stationary_nodeConsistent (h : TsHyp g) (hc : TemplateConsistent g) (hv : NodeConsistent g)
    (h0 : listMax (lagsOf g) = some 0) {idx : List String} {s : Graph} (hs : stationaryGraph g idx = .ok s) :
    NodeConsistent s := by
  intro n n' r r' hr hr' e
  obtain ⟨n0, r0, h1, a1, a2, a3⟩ := stationary_node_source h hc h0 hs hr
  obtain ⟨n1, r1, h2, b1, b2, b3⟩ := stationary_node_source h hc h0 hs hr'
  have := hv n0 n1 r0 r1 h1 h2 (a1.symm.trans (e.trans b1))
  exact ⟨a2.trans (this.1.trans b2.symm), a3.trans (this.2.trans b3.symm)⟩

/-- **`VarConsistent` is inherited by the stationary graph** (the edge half holds for every stationary graph) -/
theorem stationary_varConsistent (h : TsHyp g) (hc : TemplateConsistent g) (hv : VarConsistent g)
    (h0 : listMax (lagsOf g) = some 0) {idx : List String} {s : Graph} (hs : stationaryGraph g idx = .ok s) :
    VarConsistent s :=
  ⟨stationary_nodeConsistent h hc hv.nodes h0 hs,
   fun _ _ _ _ _ _ _ _ _ _ he he' ha hb ha' hb' e1 e2 e3 =>
     congrArg EdgeRec.md (stationary_edge_uniform h hc h0 hs he ha hb he' ha' hb' e1 e2 e3)⟩

/-! ### the second application -/

/-- **C16 (fixed point, attributes; no attribute hypothesis): the second application returns a graph with the class,
    the graph metadata and the whole edge map (types and metadata) of the first result, the same identifiers with the
    same variable and lag, and on every node the variable type and user metadata of some node of the same variable of
    the first result.**  This is all that is true in general: see the counter-example at the head of this file. -/
theorem stationary_idem_attrs (h : TsHyp g) (hc : TemplateConsistent g) (h0 : listMax (lagsOf g) = some 0)
    {idx : List String} (idx' : List String) {s : Graph} (hs : stationaryGraph g idx = .ok s) :
    ∃ s', stationaryGraph s idx' = .ok s' ∧ s'.cls = s.cls ∧ s'.gmeta = s.gmeta ∧ s'.edges = s.edges ∧
      (∀ n : String, n ∈ s'.nodes ↔ n ∈ s.nodes) ∧
      (∀ (n : String) (r' : NodeRec), s'.nodes[n]? = some r' →
        ∃ r : NodeRec, s.nodes[n]? = some r ∧ r'.var = r.var ∧ r'.lag = r.lag ∧
          ∃ (n1 : String) (r1 : NodeRec), s.nodes[n1]? = some r1 ∧ r1.var = r.var ∧
            r'.vtype = r1.vtype ∧ r'.md = r1.md) := by
  obtain ⟨s', hs', hnodes, hedges, _, _⟩ := stationary_idem extendSpec h hc h0 idx' hs
  obtain ⟨h1, c1, z1⟩ := stationary_hyp extendSpec h hc h0 hs
  obtain ⟨h2, _, _⟩ := stationary_hyp extendSpec h1 c1 z1 hs'
  have meta1 := stationary_meta h hc h0 hs
  have meta2 := stationary_meta h1 c1 z1 hs'
  refine ⟨s', hs', meta2.1.trans meta1.1.symm, meta2.2, ?_, hnodes, ?_⟩
  · -- the edge map
    apply ExtTreeMap.ext_getElem?
    rintro ⟨a, c⟩
    cases hq : s'.edges[(a, c)]? with
    | none =>
      cases hp : s.edges[(a, c)]? with
      | none => rfl
      | some re =>
        obtain ⟨re', hre', _⟩ := (hedges a c re.ty).mpr ⟨re, hp, rfl⟩
        rw [hq] at hre'; cases hre'
    | some re' =>
      obtain ⟨re, hre, _⟩ := (hedges a c re'.ty).mp ⟨re', hq, rfl⟩
      rw [hre]
      congr 1
      -- the records of the endpoints, in both graphs
      obtain ⟨ra, rc, ha, hc', _, _, ea, ec, da, dc⟩ := h1.edge hre
      obtain ⟨ra', rc', ha', hc'', _, _, ea', ec', da', dc'⟩ := h2.edge hq
      have va := fmt_inj da da' (ea.symm.trans ea')
      have vc := fmt_inj dc dc' (ec.symm.trans ec')
      -- `re'` is the record of an edge of `s` with the same template
      obtain ⟨lo', m', _, hm', hsh', rfl⟩ := stationary_form h1 c1 z1 hs'
      obtain ⟨a0, c0, sr, dr, k, he0, ha0, hc0, fa, fc⟩ := C15.edge_source_ext hsh' _ _ _ hq
      obtain ⟨a1, c1', ra1, rc1, he1, ha1, hc1, ga, gc⟩ := C14.minimal_edge_source h1 c1 idx' hm' he0
      have d1 := (h1.canonG _ _ ha1).1
      have d2 := (h1.canonG _ _ hc1).1
      have l1 := hsh'.inv.canon.lookup d1 (ga ▸ ha0)
      have l2 := hsh'.inv.canon.lookup d2 (gc ▸ hc0)
      have ds := (hsh'.inv.canon _ _ ha0).1
      have dd := (hsh'.inv.canon _ _ hc0).1
      have la := h2.canonG.lookup ds (fa ▸ ha')
      have lc := h2.canonG.lookup dd (fc ▸ hc'')
      refine (stationary_edge_uniform h hc h0 hs hre ha hc' he1 ha1 hc1 ?_ ?_ ?_).symm
      · rw [va.1, la.1, l1.1]
      · rw [vc.1, lc.1, l2.1]
      · rw [va.2, vc.2, la.2, lc.2, l1.2, l2.2]; omega
  · -- the nodes
    intro n r' hr'
    obtain ⟨r, hr⟩ := (mem_nodes_iff _ _).mp ((hnodes n).mp ((mem_nodes_iff _ _).mpr ⟨r', hr'⟩))
    have c2 := h2.canonG n r' hr'
    have c1' := h1.canonG n r hr
    have v := fmt_inj c2.1 c1'.1 (c2.2.symm.trans c1'.2)
    obtain ⟨n1, r1, hr1, a1, a2, a3⟩ := stationary_node_source h1 c1 z1 hs' hr'
    exact ⟨r, hr, v.1, v.2, n1, r1, hr1, a1.symm.trans v.1, a2, a3⟩

/-- **C16 (fixed point, full state): when the nodes of every variable of the input agree in variable type and user
    metadata, `get_stationary_graph` applied to its own result returns it unchanged** — nodes with variable types and
    metadata, edges with types and metadata, class and graph metadata; for every insertion order `idx'` of the
    variable index.  (Nothing is asked of the edge metadata of the input.) -/
theorem stationary_idem_state (h : TsHyp g) (hc : TemplateConsistent g) (hv : NodeConsistent g)
    (h0 : listMax (lagsOf g) = some 0) {idx : List String} (idx' : List String) {s : Graph}
    (hs : stationaryGraph g idx = .ok s) : stationaryGraph s idx' = .ok s := by
  obtain ⟨s', hs', hcls, hgm, hedges, hnodes, hattrs⟩ := stationary_idem_attrs h hc h0 idx' hs
  have hvs := stationary_nodeConsistent h hc hv h0 hs
  have hnodesEq : s'.nodes = s.nodes := by
    apply ExtTreeMap.ext_getElem?
    intro n
    cases hq : s'.nodes[n]? with
    | none =>
      cases hp : s.nodes[n]? with
      | none => rfl
      | some r =>
        obtain ⟨r', hr'⟩ := (mem_nodes_iff _ _).mp ((hnodes n).mpr ((mem_nodes_iff _ _).mpr ⟨r, hp⟩))
        rw [hq] at hr'; cases hr'
    | some r' =>
      obtain ⟨r, hr, e1, e2, n1, r1, hr1, e3, e4, e5⟩ := hattrs n r' hq
      rw [hr]
      have := hvs n1 n r1 r hr1 hr e3
      obtain ⟨vt, md, var, lag⟩ := r
      obtain ⟨vt', md', var', lag'⟩ := r'
      simp only at e1 e2 e4 e5 this
      rw [e1, e2, e4, e5, this.1, this.2]
  rw [hs']
  congr 1
  cases s' with
  | mk c n e gm =>
    cases s with
    | mk c' n' e' gm' =>
      simp only at hcls hgm hedges hnodesEq
      subst hcls hgm hedges hnodesEq
      rfl

/-- **C16 (fixed point, full state) under `VarConsistent g`** -/
theorem stationary_idem_full (h : TsHyp g) (hc : TemplateConsistent g) (hv : VarConsistent g)
    (h0 : listMax (lagsOf g) = some 0) {idx : List String} (idx' : List String) {s : Graph}
    (hs : stationaryGraph g idx = .ok s) : stationaryGraph s idx' = .ok s :=
  stationary_idem_state h hc hv.nodes h0 idx' hs

/-- the statement kept in `C16.lean` with the attribute hypothesis it needs -/
def stationary_idem_statement_vc : Prop :=
  ∀ (g : Graph) (idx idx' : List String) (s : Graph), TsHyp g → TemplateConsistent g → VarConsistent g →
    listMax (lagsOf g) = some 0 → stationaryGraph g idx = .ok s → stationaryGraph s idx' = .ok s

theorem stationary_idem_vc_holds : stationary_idem_statement_vc :=
  fun _ _ idx' _ h hc hv h0 hs => stationary_idem_full h hc hv h0 idx' hs

/-- … and the operation is a projection from the second application on, whatever the attributes: the second result is
    again a stationary graph to which `stationary_idem_attrs` applies -/
theorem stationary_idem_twice (h : TsHyp g) (hc : TemplateConsistent g) (h0 : listMax (lagsOf g) = some 0)
    {idx : List String} (idx' idx'' : List String) {s : Graph} (hs : stationaryGraph g idx = .ok s) :
    ∃ s' s'', stationaryGraph s idx' = .ok s' ∧ stationaryGraph s' idx'' = .ok s'' ∧ s''.edges = s.edges ∧
      s''.gmeta = s.gmeta ∧ ∀ n : String, n ∈ s''.nodes ↔ n ∈ s.nodes := by
  obtain ⟨s', hs', _, g1, e1, n1, _⟩ := stationary_idem_attrs h hc h0 idx' hs
  obtain ⟨h1, c1, z1⟩ := stationary_hyp extendSpec h hc h0 hs
  obtain ⟨s'', hs'', _, g2, e2, n2, _⟩ := stationary_idem_attrs h1 c1 z1 idx'' hs'
  exact ⟨s', s'', hs', hs'', e2.trans e1, g2.trans g1, fun n => (n2 n).trans (n1 n)⟩

/-! ### non-vacuity

The demo input of `C16.lean` (`X lag(n=1) -> X`, `X lag(n=2) -> X lag(n=1)`, floating `Y lag(n=2)` of type binary)
meets every hypothesis, `VarConsistent` included. -/

namespace Demo

theorem gd_node_attrs {n : String} {r : NodeRec} (h : gd.nodes[n]? = some r) :
    (r.var = "Y" ∧ r.vtype = .binary ∧ r.md = []) ∨ (r.var = "X" ∧ r.vtype = .unspecified ∧ r.md = []) := by
  unfold gd at h
  rw [getElem?_putNode] at h
  split at h
  · left
    cases h
    exact ⟨rfl, rfl, rfl⟩
  · right
    rcases getElem?_putAll_nodes h with h0 | ⟨t, ht, hh⟩
    · simp [Graph.empty] at h0
    · simp only [List.mem_cons, List.mem_nil_iff, or_false] at ht
      rcases ht with rfl | rfl <;> rcases hh with ⟨_, rfl⟩ | ⟨_, rfl⟩ <;> exact ⟨rfl, rfl, rfl⟩

theorem gd_varConsistent : VarConsistent gd := by
  constructor
  · intro n n' r r' hr hr' e
    rcases gd_node_attrs hr with ⟨a1, a2, a3⟩ | ⟨a1, a2, a3⟩ <;>
      rcases gd_node_attrs hr' with ⟨b1, b2, b3⟩ | ⟨b1, b2, b3⟩
    · exact ⟨a2.trans b2.symm, a3.trans b3.symm⟩
    · rw [a1, b1] at e; exact absurd e.symm xy
    · rw [a1, b1] at e; exact absurd e xy
    · exact ⟨a2.trans b2.symm, a3.trans b3.symm⟩
  · intro a b a' b' ra rb ra' rb' re re' he he' _ _ _ _ _ _ _
    have md_nil : ∀ {k : EKey} {r : EdgeRec}, gd.edges[k]? = some r → r.md = [] := by
      intro k r hk
      have h' : gE.edges[k]? = some r := by simpa [gd] using hk
      rcases getElem?_putAll_edges h' with h0 | ⟨t, ht, _, rfl⟩
      · simp [Graph.empty] at h0
      · simp only [List.mem_cons, List.mem_nil_iff, or_false] at ht
        rcases ht with rfl | rfl <;> rfl
    rw [md_nil he, md_nil he']

/-- the completion of the demo input is a fixed point of `get_stationary_graph` as a state -/
example : ∃ s, stationaryGraph gd [] = .ok s ∧ stationaryGraph s ["Y", "X"] = .ok s := by
  obtain ⟨s, hs⟩ := stationary_ok extendSpec gd_hyp gd_consistent gd_max []
  exact ⟨s, hs, stationary_idem_full gd_hyp gd_consistent gd_varConsistent gd_max _ hs⟩

end Demo

/-! ### the counter-example to `stationary_idem_statement`, evaluated on the model

Built by the public mutators; printed: the record of `x lag(n=2)` after the first and after the second application, then
whether the two results are equal as node tables / edge tables / graph metadata, and `==` (shallow / deep). -/

namespace Cex

def ops : List Op :=
  [ .addNode "x lag(n=2)" .binary [("k", "1")],
    .addNode "x" .unspecified [],
    .addEdge { id := "x lag(n=2)" } { id := "x" } .directed [] true,
    .addNode "x lag(n=10)" .unspecified [] ]

def g0 : Graph := run (Graph.empty .ts) ops

def first : Except Err Graph := stationaryGraph g0 ["x lag(n=2)", "x", "x lag(n=10)"]
def second : Except Err Graph := first >>= fun s => stationaryGraph s s.nodes.keys

def report : Option (Option NodeRec × Option NodeRec × Bool × Bool × Bool × Except Err Bool × Except Err Bool) :=
  match first, second with
  | .ok s, .ok s' =>
    some (s.nodes["x lag(n=2)"]?, s'.nodes["x lag(n=2)"]?, s.nodes.toList == s'.nodes.toList,
      s.edges.toList == s'.edges.toList, s.gmeta == s'.gmeta, graphEq false s s', graphEq true s s')
  | _, _ => none

#eval report

/-- the same, decided by the kernel, at the place where it happens: the minimal graph of the first result holds a record
    for `x lag(n=2)` that differs from the one the first result holds (the second result keeps the records of its
    minimal graph, `stationary_keeps_minimal`) -/
def differs : Bool :=
  match first with
  | .ok s =>
    match minimalGraph s s.nodes.keys with
    | .ok m' => m'.nodes["x lag(n=2)"]?.isSome && m'.nodes["x lag(n=2)"]? != s.nodes["x lag(n=2)"]?
    | .error _ => false
  | .error _ => false

set_option maxRecDepth 100000 in
theorem differs_true : differs = true := by decide +kernel

/-! the counter-example meets the hypotheses of `stationary_idem_statement` -/

theorem domX : Dom "x" := ⟨by decide, by decide⟩

theorem g0_keys : g0.nodes.keys = ["x", "x lag(n=10)", "x lag(n=2)"] := by decide +kernel
theorem g0_edges : g0.edges.toList = [(("x lag(n=2)", "x"), { ty := .directed, md := [] })] := by decide +kernel
theorem g0_x2 : g0.nodes["x lag(n=2)"]? = some { vtype := .binary, md := [("k", "1")], var := "x", lag := -2 } := by
  decide +kernel
theorem g0_x : g0.nodes["x"]? = some { vtype := .unspecified, md := [], var := "x", lag := 0 } := by decide +kernel
theorem g0_max : listMax (lagsOf g0) = some 0 := by decide +kernel

theorem g0_hyp : TsHyp g0 := by
  refine ⟨wf_run_empty .ts [] ops, by decide +kernel, ?_⟩
  intro n hn
  have hk : n ∈ g0.nodes.keys := ExtTreeMap.mem_keys.mpr hn
  rw [g0_keys] at hk
  simp only [List.mem_cons, List.mem_nil_iff, or_false] at hk
  rcases hk with rfl | rfl | rfl
  · exact ⟨"x", 0, domX, by decide +kernel⟩
  · exact ⟨"x", -10, domX, by decide +kernel⟩
  · exact ⟨"x", -2, domX, by decide +kernel⟩

/-- the only template of `g0` is `(x, x, 2, ->)` -/
theorem g0_template {s d : String} {δ : Int} {ty : EdgeType} (h : IsTemplate g0 s d δ ty) :
    s = "x" ∧ d = "x" ∧ δ = 2 ∧ ty = .directed := by
  obtain ⟨a, b, ra, rb, re, he, ha, hb, rfl, rfl, rfl, rfl⟩ := h
  have hm : ((a, b), re) ∈ g0.edges.toList := ExtTreeMap.mem_toList_iff_getElem?_eq_some.mpr he
  rw [g0_edges] at hm
  simp only [List.mem_cons, List.mem_nil_iff, or_false, Prod.mk.injEq] at hm
  obtain ⟨⟨rfl, rfl⟩, rfl⟩ := hm
  rw [g0_x2] at ha
  rw [g0_x] at hb
  cases ha; cases hb
  exact ⟨rfl, rfl, by decide, rfl⟩

theorem g0_consistent : TemplateConsistent g0 :=
  ⟨fun _ _ _ _ _ h1 h2 => (g0_template h1).2.2.2.trans (g0_template h2).2.2.2.symm,
   fun _ _ _ _ h1 _ => absurd (g0_template h1).2.2.1 (by decide)⟩

/-- `g0` is not `NodeConsistent`: its two nodes of variable `x` differ in variable type and metadata -/
theorem g0_not_nodeConsistent : ¬ NodeConsistent g0 := by
  intro hv
  have := (hv _ _ _ _ g0_x2 g0_x rfl).1
  exact absurd this (by decide)

end Cex

/-- **the full-state fixed-point statement kept in `C16.lean` is false** without an attribute hypothesis: the model
    itself (and the implementation, see the head of this file) returns a different state the second time -/
theorem stationary_idem_statement_false : ¬ stationary_idem_statement := by
  intro H
  obtain ⟨s, hs⟩ := stationary_ok extendSpec Cex.g0_hyp Cex.g0_consistent Cex.g0_max ["x lag(n=2)", "x", "x lag(n=10)"]
  have h2 := H Cex.g0 _ s.nodes.keys s Cex.g0_hyp Cex.g0_consistent Cex.g0_max hs
  obtain ⟨h1, c1, z1⟩ := stationary_hyp extendSpec Cex.g0_hyp Cex.g0_consistent Cex.g0_max hs
  obtain ⟨m', hm'⟩ := C14.minimal_ok h1 c1 s.nodes.keys
  have hd := Cex.differs_true
  unfold Cex.differs Cex.first at hd
  rw [hs] at hd
  simp only [hm', Bool.and_eq_true, bne_iff_ne, ne_eq] at hd
  obtain ⟨r, hr⟩ := Option.isSome_iff_exists.mp hd.1
  exact hd.2 (hr.trans (stationary_keeps_minimal h1 c1 z1 h2 hm' hr).symm)

end CG.C16
