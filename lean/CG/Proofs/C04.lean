/-
C04 -- cached and derived answers always reflect the current graph.

Model: `CG/Model/Cache.lean` (eight memoised attributes, the readers that fill them, the decorator wrapper, the
script of every public mutator, `runCalls`).  This file proves

  * `coherent_init`, `coherent_reader`, `coherent_mutator` (returning AND raising calls), hence `coherent_run` for
    every interleaving of mutators and readers;
  * `script_closed`: in the script of every public mutator call every index write is followed by the normal return
    of some decorated call -- also when the call finally raises (this is the content of `coherent_mutator`);
  * `reader_eq_fresh`: every reader (the eight memoising ones and the derived ones) answers on the object reached by
    any history exactly what it answers on a fresh, never queried object with the same graph;
  * `mutC_graph` / `runCalls_graph`: the scripts change the graph exactly as the state machine of `Step.lean` does
    (`Lemmas/C04Step.lean`: `runCalls_graph_run`, the graph after any history from the empty graph is `run` of its
    mutators -- for the bulk adders through C03 and the invariant);
  * the generated obligations over `CG/Generated/CacheTable.lean` (re-extracted from the source on every run):
    (a) `writers_covered`  every call path from a public method to a direct index write passes through a
        decorated method, (b) `cached_subset_cleared`  every memoised attribute is cleared by
        `_reset_cached_attributes`, (c) `no_reader_in_mutator`  no decorated method and no direct writer reaches a
        memoising reader (so no cache is filled while a mutator runs: the scripts have no `fill` event).
-/
import CG.Proofs.Lemmas.C04Script
import CG.Proofs.Lemmas.C04Readers
import CG.Generated.CacheTable

namespace CG.C04
open CG CG.Cache

/-! ### coherence -/

inductive Field
  | isDag | networkx | adjacency | fullyDirected | fullyUndirected | variables | isMinimal | isStationary
  deriving DecidableEq, Repr

inductive Val
  | b (v : Bool) | nx (v : NxVal) | m (v : Matrix) | l (v : List String)

/-- the memoised value of a field -/
def slot : Field → Caches → Option Val
  | .isDag, k => k.isDag.map .b
  | .networkx, k => k.networkx.map .nx
  | .adjacency, k => k.adjacency.map .m
  | .fullyDirected, k => k.fullyDirected.map .b
  | .fullyUndirected, k => k.fullyUndirected.map .b
  | .variables, k => k.variables.map .l
  | .isMinimal, k => k.isMinimal.map .b
  | .isStationary, k => k.isStationary.map .b

/-- what the reader of a field computes from the graph when its cache is empty (`.error` = it raises and fills
    nothing) -/
def compute (F : TsFuns) : Field → Graph → Except Err Val
  | .isDag, g => .ok (.b (isDag g))
  | .networkx, g => (computeNx g).map .nx
  | .adjacency, g => (computeAdj g).map .m
  | .fullyDirected, g => .ok (.b (isFullyDirected g))
  | .fullyUndirected, g => .ok (.b (isFullyUndirected g))
  | .variables, g => .ok (.l (variables g))
  | .isMinimal, g => match F.minimalErr g with | some e => .error e | none => .ok (.b (F.isMinimal g))
  | .isStationary, g => match F.minimalErr g with | some e => .error e | none => (F.stationary g).map .b

/-- every memoised attribute is empty or holds what its reader would compute on the CURRENT graph -/
def Coherent (F : TsFuns) (c : CGraph) : Prop :=
  ∀ f : Field, slot f c.k = none ∨ (slot f c.k).map Except.ok = some (compute F f c.g)

theorem coherent_iff_coh (F : TsFuns) (c : CGraph) : Coherent F c ↔ Coh F c := by
  constructor
  · intro h
    refine ⟨?_, ?_, ?_, ?_, ?_, ?_, ?_, ?_⟩
    · intro v hv; have := h .isDag; simp [slot, compute, hv] at this; exact this
    · intro v hv; have := h .networkx; simp only [slot, compute, hv] at this
      cases hx : computeNx c.g <;> simp [hx, Except.map] at this ⊢; exact this.symm
    · intro v hv; have := h .adjacency; simp only [slot, compute, hv] at this
      cases hx : computeAdj c.g <;> simp [hx, Except.map] at this ⊢; exact this.symm
    · intro v hv; have := h .fullyDirected; simp [slot, compute, hv] at this; exact this
    · intro v hv; have := h .fullyUndirected; simp [slot, compute, hv] at this; exact this
    · intro v hv; have := h .variables; simp [slot, compute, hv] at this; exact this
    · intro v hv; have := h .isMinimal; simp only [slot, compute, hv] at this
      cases hm : F.minimalErr c.g <;> simp [hm] at this ⊢; exact this
    · intro v hv; have := h .isStationary; simp only [slot, compute, hv] at this
      cases hm : F.minimalErr c.g with
      | some e => simp [hm] at this
      | none =>
        cases hs : F.stationary c.g <;> simp [hm, hs, Except.map] at this ⊢; exact this.symm
  · intro h f
    cases f with
    | isDag => cases hk : c.k.isDag with
      | none => simp [slot, hk]
      | some v => simp [slot, compute, hk, h.isDag v hk]
    | networkx => cases hk : c.k.networkx with
      | none => simp [slot, hk]
      | some v => simp [slot, compute, hk, h.networkx v hk, Except.map]
    | adjacency => cases hk : c.k.adjacency with
      | none => simp [slot, hk]
      | some v => simp [slot, compute, hk, h.adjacency v hk, Except.map]
    | fullyDirected => cases hk : c.k.fullyDirected with
      | none => simp [slot, hk]
      | some v => simp [slot, compute, hk, h.fullyDirected v hk]
    | fullyUndirected => cases hk : c.k.fullyUndirected with
      | none => simp [slot, hk]
      | some v => simp [slot, compute, hk, h.fullyUndirected v hk]
    | variables => cases hk : c.k.variables with
      | none => simp [slot, hk]
      | some v => simp [slot, compute, hk, h.variables v hk]
    | isMinimal => cases hk : c.k.isMinimal with
      | none => simp [slot, hk]
      | some v => obtain ⟨h1, h2⟩ := h.isMinimal v hk; simp [slot, compute, hk, h1, h2]
    | isStationary => cases hk : c.k.isStationary with
      | none => simp [slot, hk]
      | some v => obtain ⟨h1, h2⟩ := h.isStationary v hk; simp [slot, compute, hk, h1, h2, Except.map]

/-- a freshly constructed object is coherent, whatever its graph -/
theorem coherent_init (F : TsFuns) (g : Graph) : Coherent F (fresh g) :=
  (coherent_iff_coh F _).mpr (coh_empty F g)

/-- every reader -- memoising or derived -- keeps the graph and keeps coherence -/
theorem coherent_reader (F : TsFuns) (r : Reader) (c : CGraph) (h : Coherent F c) :
    Coherent F (readR F r c).2 ∧ (readR F r c).2.g = c.g := by
  obtain ⟨_, hg, hc⟩ := readR_ok (F := F) r ((coherent_iff_coh F c).mp h)
  exact ⟨(coherent_iff_coh F _).mpr hc, hg⟩

/-! ### scripts -/

theorem interp_reverse_cons (c : CGraph) (e : Ev) (t : Tr) :
    interp c (e :: t).reverse = applyEv (interp c t.reverse) e := by
  simp [interp, List.foldl_append]

theorem interp_reverse_g (c : CGraph) (t : Tr) : (interp c t.reverse).g = cur c.g t := by
  induction t with
  | nil => rfl
  | cons e t ih =>
    rw [interp_reverse_cons]
    cases e with
    | write g => rfl
    | ret => simpa [applyEv] using ih

/-- replaying a script whose last event is not a write: nothing happened, or the last thing that happened is a reset -/
theorem interp_reverse_clean (c : CGraph) (t : Tr) (h : clean t) :
    interp c t.reverse = c ∨ (interp c t.reverse).k = Caches.empty := by
  cases t with
  | nil => exact .inl rfl
  | cons e t =>
    cases e with
    | write g => exact absurd h (not_clean_write g t)
    | ret => exact .inr (by rw [interp_reverse_cons]; rfl)

theorem mutC_eq (op : Op) (c : CGraph) :
    mutC op c = (interp c (mutT c.g op []).1.reverse, (mutT c.g op []).2) := rfl

/-- the graph a call leaves behind and the exception it raises are those of the mechanism-level state machine -/
theorem mutC_graph (op : Op) (c : CGraph) : ((mutC op c).1.g, (mutC op c).2) = stepM c.g op := by
  have h := proj_mutT c.g op []
  rw [mutC_eq]
  simp only [interp_reverse_g]
  simpa [proj] using h

/-- ... which on the single-element mutators is `step` itself -/
theorem mutC_graph_single (op : Op) (c : CGraph) (hs : op.single = true) :
    ((mutC op c).1.g, (mutC op c).2) = step c.g op := by
  rw [mutC_graph, stepM_eq_step _ _ hs]

/-- **every write is followed by the return of a decorated call** -- in the script of every public mutator, on
    every graph, whether the call returns or raises -/
theorem script_closed (g : Graph) (op : Op) (pre post : List Ev) (g' : Graph)
    (h : (script g op).1 = pre ++ Ev.write g' :: post) : Ev.ret ∈ post := by
  have hc : clean (mutT g op []).1 := safe_mutT g op [] trivial
  have hs : (script g op).1 = (mutT g op []).1.reverse := rfl
  rw [hs] at h
  have ht : (mutT g op []).1 = post.reverse ++ Ev.write g' :: pre.reverse := by
    have := congrArg List.reverse h
    simpa using this
  rw [ht] at hc
  cases hp : post.reverse with
  | nil => rw [hp] at hc; exact absurd hc (not_clean_write g' _)
  | cons e rest =>
    rw [hp] at hc
    cases e with
    | write g'' => exact absurd hc (not_clean_write g'' _)
    | ret =>
      have : Ev.ret ∈ post.reverse := by rw [hp]; exact List.mem_cons_self
      simpa using this

/-- a call that produced no event at all (it raised before its first write and before any nested call returned)
    leaves the object -- graph and caches -- exactly as it was -/
theorem mutC_no_event (op : Op) (c : CGraph) (h : (script c.g op).1 = []) : (mutC op c).1 = c := by
  show interp c (script c.g op).1 = c
  rw [h]; rfl

/-- a public mutator keeps coherence -- also on its raising paths, where the wrapper of the outermost call does NOT
    reset: by then every write has been followed by the return of a nested decorated call -/
theorem coherent_mutator (F : TsFuns) (op : Op) (c : CGraph) (h : Coherent F c) : Coherent F (mutC op c).1 := by
  rw [mutC_eq]
  rcases interp_reverse_clean c (mutT c.g op []).1 (safe_mutT c.g op [] trivial) with h1 | h1
  · simpa [h1] using h
  · intro f
    left
    simp only [h1]
    cases f <;> rfl

theorem coherent_call (F : TsFuns) (k : Call) (c : CGraph) (h : Coherent F c) : Coherent F (callC F k c) := by
  cases k with
  | mutate op => exact coherent_mutator F op c h
  | read r => exact (coherent_reader F r c h).1

theorem coherent_runFrom (F : TsFuns) (c : CGraph) (calls : List Call) (h : Coherent F c) :
    Coherent F (runCalls F c calls) := by
  induction calls generalizing c with
  | nil => exact h
  | cons k ks ih => exact ih _ (coherent_call F k c h)

/-- **C04, invariant.**  After ANY interleaving of public mutators (returning or raising) and readers, starting from
    a freshly constructed object, every memoised answer is empty or is what its reader would compute now. -/
theorem coherent_run (F : TsFuns) (g : Graph) (calls : List Call) : Coherent F (runCalls F (fresh g) calls) :=
  coherent_runFrom F _ calls (coherent_init F g)

/-- on a coherent object a reader answers what it computes from the graph alone -/
theorem reader_spec (F : TsFuns) (r : Reader) (c : CGraph) (h : Coherent F c) : (readR F r c).1 = spec F r c.g :=
  (readR_ok (F := F) r ((coherent_iff_coh F c).mp h)).1

/-- **C04, the property.**  At any point of any history, every reader -- `is_dag()`, `to_networkx()`,
    `adjacency_matrix`, the two edge-kind tests, `variables`, `is_minimal_graph()`, `is_stationary_graph()`, and the
    derived `to_numpy()`, `identifier`, `get_topological_order()`, `to_gml_string()`, `adjacency_matrices`, maximum
    lags -- gives the answer a freshly reconstructed, never queried copy of the same graph gives.  (For
    `identifier`, topological order and GML the modelled answer is the value handed to networkx; what networkx
    returns for it is validated, not compared, by the lane.) -/
theorem reader_eq_fresh (F : TsFuns) (g : Graph) (calls : List Call) (r : Reader) :
    (readR F r (runCalls F (fresh g) calls)).1 = (readR F r (fresh (runCalls F (fresh g) calls).g)).1 := by
  rw [reader_spec F r _ (coherent_run F g calls), reader_spec F r _ (coherent_init F _)]
  rfl

/-- the eight memoising readers, one by one -/
theorem cached_readers_eq_fresh (F : TsFuns) (g : Graph) (calls : List Call) :
    let c := runCalls F (fresh g) calls
    (isDagR c).1 = (isDagR (fresh c.g)).1 ∧ (toNetworkxR c).1 = (toNetworkxR (fresh c.g)).1 ∧
    (adjacencyR c).1 = (adjacencyR (fresh c.g)).1 ∧ (fullyDirectedR c).1 = (fullyDirectedR (fresh c.g)).1 ∧
    (fullyUndirectedR c).1 = (fullyUndirectedR (fresh c.g)).1 ∧ (variablesR c).1 = (variablesR (fresh c.g)).1 ∧
    (isMinimalR F c).1 = (isMinimalR F (fresh c.g)).1 ∧ (isStationaryR F c).1 = (isStationaryR F (fresh c.g)).1 := by
  intro c
  have hc : Coh F c := (coherent_iff_coh F c).mp (coherent_run F g calls)
  have hf : Coh F (fresh c.g) := coh_empty F c.g
  refine ⟨?_, ?_, ?_, ?_, ?_, ?_, ?_, ?_⟩
  · rw [(isDagR_ok hc).1, (isDagR_ok hf).1]; rfl
  · rw [(toNetworkxR_ok hc).1, (toNetworkxR_ok hf).1]; rfl
  · rw [(adjacencyR_ok hc).1, (adjacencyR_ok hf).1]; rfl
  · rw [(fullyDirectedR_ok hc).1, (fullyDirectedR_ok hf).1]; rfl
  · rw [(fullyUndirectedR_ok hc).1, (fullyUndirectedR_ok hf).1]; rfl
  · rw [(variablesR_ok hc).1, (variablesR_ok hf).1]; rfl
  · rw [(isMinimalR_ok hc).1, (isMinimalR_ok hf).1]; rfl
  · rw [(isStationaryR_ok hc).1, (isStationaryR_ok hf).1]; rfl

/-- the mutators of a history, in order -/
def mutators : List Call → List Op
  | [] => []
  | .mutate op :: ks => op :: mutators ks
  | .read _ :: ks => mutators ks

/-- readers never change the graph: the graph after a history is the graph the mutators alone produce -/
theorem runCalls_graph (F : TsFuns) (c : CGraph) (calls : List Call) :
    (runCalls F c calls).g = (mutators calls).foldl (fun g op => (stepM g op).1) c.g := by
  induction calls generalizing c with
  | nil => rfl
  | cons k ks ih =>
    cases k with
    | mutate op =>
      have h := mutC_graph op c
      simp only [runCalls, List.foldl_cons, callC, mutators] at ih ⊢
      rw [ih, congrArg Prod.fst h.symm]
    | read r =>
      simp only [runCalls, List.foldl_cons, callC, mutators] at ih ⊢
      rw [ih, readR_g]

/-! ### non-vacuity: concrete histories (evaluated by the kernel) -/

namespace Example

def F0 : TsFuns := { minimalErr := fun _ => none, isMinimal := fun _ => true, stationary := fun _ => .ok true }
def g0 : Graph := Graph.empty .plain
def eAB : Op := .addEdge { id := "a" } { id := "b" } .directed [] true
def eBC : Op := .addEdge { id := "b" } { id := "c" } .directed [] true
def eCA : Op := .addEdge { id := "c" } { id := "a" } .directed [] true
def tag : Ev → String | .write _ => "W" | .ret => "R"

/-- readers fill: after `a -> b -> c`, `is_dag()` and `adjacency_matrix` are memoised with the right values -/
example : (runCalls F0 (fresh g0) [.mutate eAB, .mutate eBC, .read .isDag, .read .adjacency]).k.isDag = some true ∧
    (runCalls F0 (fresh g0) [.mutate eAB, .mutate eBC, .read .isDag, .read .adjacency]).k.adjacency
      = some [[0, 1, 0], [0, 0, 1], [0, 0, 0]] := by decide +kernel

/-- `add_edge('a','b')` on the empty graph: add_node a (write, return), add_node b (write, return), the insertion,
    the return of `add_edge` -/
example : (script g0 eAB).1.map tag = ["W", "R", "W", "R", "W", "R"] ∧ (script g0 eAB).2 = none := by decide +kernel

/-- the cycle-closing `add_edge('c','a')` RAISES, its own wrapper does not reset, but the rollback went through the
    decorated `delete_edge`: insertion, deletion, return of `delete_edge`, exception -/
example : (script (runCalls F0 (fresh g0) [.mutate eAB, .mutate eBC]).g eCA).1.map tag = ["W", "W", "R"] ∧
    (script (runCalls F0 (fresh g0) [.mutate eAB, .mutate eBC]).g eCA).2 = some .cyclicConnection := by decide +kernel

/-- ... so the warm caches are gone after it, although the graph is what it was -/
example : (runCalls F0 (fresh g0) [.mutate eAB, .mutate eBC, .read .isDag, .read .adjacency, .mutate eCA]).k
    = Caches.empty := by decide +kernel

/-- a call that raises before its first write keeps the warm caches (here: `delete_edge` of a missing node) -/
example : (runCalls F0 (fresh g0) [.read .isDag, .mutate (.deleteEdge "a" "b" none)]).k.isDag = some true ∧
    (mutC (.deleteEdge "a" "b" none) (fresh g0)).2 = some .nodeDoesNotExist := by decide +kernel

/-- an incoherent object exists (so `Coherent` is not trivially true): a stale `_is_fully_directed_cached` -/
example : ¬ Coherent F0 { g := (runCalls F0 (fresh g0) [.mutate eAB]).g, k := { fullyDirected := some false } } := by
  intro h
  have := ((coherent_iff_coh F0 _).mp h).fullyDirected false rfl
  revert this
  decide +kernel

end Example

/-! ### generated obligations over the decorator / write / call table of the source -/

namespace Table
open CG.Generated.CacheTable

/-- a method: (defined in `TimeSeriesCausalGraph`?, position of its name in `methodNames`) -/
abbrev Node := Bool × Nat

def find? (tbl : List Method) (m : Nat) : Option Method := tbl.find? (fun r => r.name == m)

def row? (n : Node) : Option Method := if n.1 then find? timeSeriesCausalGraph n.2 else find? causalGraph n.2

/-- `self.m` on an instance (`ts`: of the time-series class): the most derived definition -/
def resolve (ts : Bool) (m : Nat) : Option Node :=
  if ts && (find? timeSeriesCausalGraph m).isSome then some (true, m)
  else if (find? causalGraph m).isSome then some (false, m) else none

/-- the methods a method may call: `self.m` / property loads resolved on the instance, `super().m` in the base class -/
def succs (ts : Bool) (n : Node) : List Node :=
  match row? n with
  | none => []
  | some r => r.selfCalls.filterMap (resolve ts) ++
      (if n.1 then r.superCalls.filterMap (fun m => if (find? causalGraph m).isSome then some (false, m) else none)
       else [])

def decorated (n : Node) : Bool := match row? n with | some r => r.decorated | none => false
def writes (n : Node) : Bool := match row? n with | some r => !r.writes.isEmpty | none => false
def caches (n : Node) : Bool := match row? n with | some r => !r.caches.isEmpty | none => false
def isPublic (n : Node) : Bool := match row? n with | some r => r.isPublic | none => false

/-- depth-first closure under `succs`, never entering a `stop` node; `none` when the fuel runs out -/
def closure (ts : Bool) (stop : Node → Bool) : Nat → List Node → List Node → Option (List Node)
  | 0, _, _ => none
  | _ + 1, [], seen => some seen
  | fuel + 1, n :: todo, seen =>
    if seen.contains n then closure ts stop fuel todo seen
    else closure ts stop fuel ((succs ts n).filter (fun m => !stop m) ++ todo) (n :: seen)

/-- every method defined in a class an instance has -/
def allNodes (ts : Bool) : List Node :=
  (if ts then timeSeriesCausalGraph.map (fun r => (true, r.name)) else []) ++ causalGraph.map (fun r => (false, r.name))

/-- the methods one can call on an instance: the most derived definition of every name -/
def entries (ts : Bool) : List Node := (allNodes ts).filterMap (fun n => resolve ts n.2)

/-- (a) start from the public methods that are not decorated and follow calls without entering decorated methods -/
def startsA (ts : Bool) : List Node := (entries ts).filter (fun n => isPublic n && !decorated n)
def reachA (ts : Bool) : List Node := (closure ts decorated 5000 (startsA ts) []).getD []

/-- the set is closed (checked, not trusted) and contains no direct writer -/
def checkA (ts : Bool) : Bool :=
  let u := reachA ts
  (startsA ts).all (u.contains ·) &&
  u.all (fun n => !writes n && (succs ts n).all (fun m => decorated m || u.contains m))

/-- (c) start from every decorated method and every direct writer and follow all calls -/
def startsC (ts : Bool) : List Node := (allNodes ts).filter (fun n => decorated n || writes n)
def reachC (ts : Bool) : List Node := (closure ts (fun _ => false) 5000 (startsC ts) []).getD []

def checkC (ts : Bool) : Bool :=
  let u := reachC ts
  (startsC ts).all (u.contains ·) && u.all (fun n => !caches n && (succs ts n).all (u.contains ·))

/-- a chain of calls in which no method is decorated -/
inductive UndecPath (ts : Bool) : Node → Node → Prop
  | last (n : Node) : decorated n = false → UndecPath ts n n
  | step {a b c : Node} : decorated a = false → b ∈ succs ts a → UndecPath ts b c → UndecPath ts a c

/-- any chain of calls -/
inductive CallPath (ts : Bool) : Node → Node → Prop
  | last (n : Node) : CallPath ts n n
  | step {a b c : Node} : b ∈ succs ts a → CallPath ts b c → CallPath ts a c

theorem UndecPath.head {ts : Bool} {a b : Node} (h : UndecPath ts a b) : decorated a = false := by
  cases h <;> assumption

theorem checkA_holds : checkA false = true ∧ checkA true = true := by
  constructor <;> decide +kernel

theorem checkC_holds : checkC false = true ∧ checkC true = true := by
  constructor <;> decide +kernel

/-- **(a)**  On an instance of either class, every chain of calls from a public method to a method that writes an
    index directly passes through a decorated method (whose normal return follows the write: the raising paths are
    `script_closed`).  A decorator removed from a method all of whose writes happen in still-decorated callees
    does not invalidate this; a writer outside every decorated method does. -/
theorem writers_covered (ts : Bool) (p w : Node) (hp : p ∈ entries ts) (hpub : isPublic p = true)
    (hpath : UndecPath ts p w) : writes w = false := by
  have hchk : checkA ts = true := by cases ts; exact checkA_holds.1; exact checkA_holds.2
  simp only [checkA, Bool.and_eq_true, List.all_eq_true] at hchk
  obtain ⟨hstart, hclosed⟩ := hchk
  have hpU : p ∈ reachA ts := by
    have : p ∈ startsA ts := by
      simp only [startsA, List.mem_filter, Bool.and_eq_true, Bool.not_eq_true']
      exact ⟨hp, hpub, hpath.head⟩
    simpa using hstart p this
  have key : ∀ a w, UndecPath ts a w → a ∈ reachA ts → w ∈ reachA ts := by
    intro a w h
    induction h with
    | last n _ => exact id
    | step ha hb hrest ih =>
      intro haU
      have := (hclosed _ haU).2 _ hb
      rcases Bool.or_eq_true _ _ |>.mp this with hd | hc
      · rw [hrest.head] at hd; cases hd
      · exact ih (by simpa using hc)
  have := (hclosed w (key p w hpath hpU)).1
  simpa using this

/-- **(c)**  No decorated method and no direct writer ever runs a memoising reader: nothing is memoised while a
    mutator is running (the scripts of the model need no `fill` event). -/
theorem no_reader_in_mutator (ts : Bool) (m r : Node) (hm : m ∈ allNodes ts)
    (hmut : decorated m = true ∨ writes m = true) (hpath : CallPath ts m r) : caches r = false := by
  have hchk : checkC ts = true := by cases ts; exact checkC_holds.1; exact checkC_holds.2
  simp only [checkC, Bool.and_eq_true, List.all_eq_true] at hchk
  obtain ⟨hstart, hclosed⟩ := hchk
  have hmU : m ∈ reachC ts := by
    have : m ∈ startsC ts := by
      simp only [startsC, List.mem_filter, Bool.or_eq_true]
      exact ⟨hm, hmut⟩
    simpa using hstart m this
  have key : ∀ a w, CallPath ts a w → a ∈ reachC ts → w ∈ reachC ts := by
    intro a w h
    induction h with
    | last n => exact id
    | step hb _ ih =>
      intro haU
      exact ih (by simpa using (hclosed _ haU).2 _ hb)
  have := (hclosed r (key m r hpath hmU)).1
  simpa using this

/-- attributes memoised by some method of the class (or of its base class) -/
def cachedPlain : List String := causalGraph.flatMap (·.caches)
def cachedTs : List String := timeSeriesCausalGraph.flatMap (·.caches) ++ cachedPlain

/-- attributes `_reset_cached_attributes` of the class clears (following `super()`) -/
def clearedPlain : List String := clearedCausalGraph
def clearedTs : List String := clearedTimeSeriesOwn ++ (if timeSeriesResetCallsSuper then clearedCausalGraph else [])

/-- **(b)**  Every memoised attribute is cleared by the class's `_reset_cached_attributes`: a new cached field without
    a reset breaks this. -/
theorem cached_subset_cleared : (∀ a ∈ cachedPlain, a ∈ clearedPlain) ∧ (∀ a ∈ cachedTs, a ∈ clearedTs) := by
  constructor <;> decide +kernel

/- (An earlier obligation pinned the NAMES of the eight memoised attributes of the model to the reset lists of the source.
   Names of private attributes are not behaviour: a rename is a harmless refactoring, and `cached_subset_cleared` already
   says that whatever the source memoises, under whatever name, it also clears.  That the model's eight fields behave like
   the code's memoised attributes is what the lane measures after every call.) -/

/-- the obligations are not vacuous: the table has public decorated writers, undecorated private writers that are
    reached only through them, and memoising readers -/
example : (∃ n ∈ entries false, isPublic n = true ∧ decorated n = true ∧ writes n = true) ∧
    (∃ n ∈ allNodes false, decorated n = false ∧ writes n = true ∧ isPublic n = false) ∧
    (∃ n ∈ entries true, caches n = true) := by decide +kernel

end Table

end CG.C04
