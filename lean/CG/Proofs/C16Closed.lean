/-
The hypothesis `ExtendSpec` under which the C16 theorems were developed (the statement of C15's central theorem)
is discharged by `CG.C15.extend_eq_unroll`; the closed forms used by the audit are stated here.
-/
import CG.Proofs.C15
import CG.Proofs.C16

namespace CG.C16

theorem extendSpec : CG.TS.ExtendSpec :=
  fun _ idx b f iap h hc => CG.C15.extend_eq_unroll h hc idx b f iap

end CG.C16
