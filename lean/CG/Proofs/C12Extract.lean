/-
C12, `utils.extract_names_and_lags`: the bulk form of the name parser.

    extract_eq_mapM       the loop = parse every name (in order) + the lag of largest absolute value
    extract_none_iff      it raises exactly when some name does not parse
    maxAbs_bound          no lag exceeds the reported one in absolute value
    maxAbs_mem            the reported lag is 0 or one of the lags
    maxAbs_first          it is the FIRST lag of that absolute value: every earlier lag is strictly smaller in absolute value
    extract_fmt           on the names produced for pairs (v, k) of the C12 name domain it gives the pairs back
-/
import CG.Proofs.C12Name

namespace CG.C12
open CG.Name

/-- the lag `extract_names_and_lags` reports for a list of lags -/
def maxAbsFirst (ks : List Int) : Int := ks.foldl maxStep 0

private theorem foldlM_extract (names : List String) (acc : List (String × Int)) (m : Int) :
    names.foldlM extractStep (acc, m) =
      (names.mapM parse).map (fun ps => (acc ++ ps, (ps.map (·.2)).foldl maxStep m)) := by
  induction names generalizing acc m with
  | nil => simp
  | cons n ns ih =>
    simp only [List.foldlM_cons, List.mapM_cons, extractStep]
    cases h : parse n with
    | none => simp
    | some p =>
      obtain ⟨v, k⟩ := p
      simp only [Option.bind_eq_bind, Option.bind_some, ih]
      cases ns.mapM parse <;> simp

/-- the loop of `extract_names_and_lags` is: parse every name in order, keep the lag of largest absolute value -/
theorem extract_eq_mapM (names : List String) :
    extractNamesAndLags names = (names.mapM parse).map (fun ps => (ps, maxAbsFirst (ps.map (·.2)))) := by
  unfold extractNamesAndLags maxAbsFirst
  rw [foldlM_extract]; simp

/-- `ValueError` exactly when some name is not a name -/
theorem extract_none_iff (names : List String) :
    extractNamesAndLags names = none ↔ ∃ n ∈ names, parse n = none := by
  rw [extract_eq_mapM]
  induction names with
  | nil => simp
  | cons n ns ih =>
    simp only [List.mapM_cons, Option.map_eq_none_iff, List.mem_cons, exists_eq_or_imp] at ih ⊢
    cases h : parse n with
    | none => simp
    | some p =>
      simp only [Option.bind_eq_bind, Option.bind_some, reduceCtorEq, false_or]
      rw [← ih]
      cases ns.mapM parse <;> simp

private theorem foldl_maxStep_ge (ks : List Int) (m : Int) : m.natAbs ≤ (ks.foldl maxStep m).natAbs := by
  induction ks generalizing m with
  | nil => simp
  | cons k ks ih =>
    simp only [List.foldl_cons]
    refine Nat.le_trans ?_ (ih _)
    unfold maxStep; split <;> omega

private theorem foldl_maxStep_bound (ks : List Int) (m : Int) :
    ∀ k ∈ ks, k.natAbs ≤ (ks.foldl maxStep m).natAbs := by
  induction ks generalizing m with
  | nil => simp
  | cons k ks ih =>
    intro j hj
    simp only [List.foldl_cons]
    rcases List.mem_cons.mp hj with rfl | hj
    · refine Nat.le_trans ?_ (foldl_maxStep_ge ks _)
      unfold maxStep; split <;> omega
    · exact ih _ j hj

/-- no lag is larger in absolute value than the reported one -/
theorem maxAbs_bound (ks : List Int) : ∀ k ∈ ks, k.natAbs ≤ (maxAbsFirst ks).natAbs :=
  foldl_maxStep_bound ks 0

private theorem foldl_maxStep_mem (ks : List Int) (m : Int) : ks.foldl maxStep m = m ∨ ks.foldl maxStep m ∈ ks := by
  induction ks generalizing m with
  | nil => simp
  | cons k ks ih =>
    simp only [List.foldl_cons, List.mem_cons]
    rcases ih (maxStep m k) with h | h
    · rw [h]; unfold maxStep; split <;> simp
    · exact Or.inr (Or.inr h)

/-- the reported lag is 0 (empty list, or all lags 0) or one of the lags -/
theorem maxAbs_mem (ks : List Int) : maxAbsFirst ks = 0 ∨ maxAbsFirst ks ∈ ks := foldl_maxStep_mem ks 0

private theorem foldl_maxStep_first (ks : List Int) (m : Int) :
    ks.foldl maxStep m = m ∨
      ∃ pre post, ks = pre ++ ks.foldl maxStep m :: post ∧ m.natAbs < (ks.foldl maxStep m).natAbs ∧
        ∀ k ∈ pre, k.natAbs < (ks.foldl maxStep m).natAbs := by
  induction ks generalizing m with
  | nil => simp
  | cons k ks ih =>
    simp only [List.foldl_cons]
    by_cases hk : k.natAbs > m.natAbs
    · have hs : maxStep m k = k := by simp [maxStep, hk]
      rw [hs]
      rcases ih k with h | ⟨pre, post, he, hlt, hpre⟩
      · right; refine ⟨[], ks, by simp [h], by omega, by simp⟩
      · right
        refine ⟨k :: pre, post, by simpa using he, by omega, ?_⟩
        intro j hj
        rcases List.mem_cons.mp hj with rfl | hj
        · exact hlt
        · exact hpre j hj
    · have hs : maxStep m k = m := by simp [maxStep, hk]
      rw [hs]
      rcases ih m with h | ⟨pre, post, he, hlt, hpre⟩
      · exact Or.inl h
      · right
        refine ⟨k :: pre, post, by simpa using he, hlt, ?_⟩
        intro j hj
        rcases List.mem_cons.mp hj with rfl | hj
        · omega
        · exact hpre j hj

/-- the reported lag, when not 0, is the FIRST of its absolute value: everything before it is strictly smaller -/
theorem maxAbs_first (ks : List Int) (h : maxAbsFirst ks ≠ 0) :
    ∃ pre post, ks = pre ++ maxAbsFirst ks :: post ∧ ∀ k ∈ pre, k.natAbs < (maxAbsFirst ks).natAbs := by
  rcases foldl_maxStep_first ks 0 with h0 | ⟨pre, post, he, _, hpre⟩
  · exact absurd h0 h
  · exact ⟨pre, post, he, hpre⟩

/-- the names produced for (variable, lag) pairs of the name domain are read back as those pairs -/
theorem extract_fmt (ps : List (String × Int)) (hd : ∀ p ∈ ps, p.1 ≠ "" ∧ NoMarker p.1.toList) :
    extractNamesAndLags (ps.map fun p => fmt p.1 p.2) = some (ps, maxAbsFirst (ps.map (·.2))) := by
  rw [extract_eq_mapM]
  have : (ps.map fun p => fmt p.1 p.2).mapM parse = some ps := by
    induction ps with
    | nil => simp
    | cons p ps ih =>
      have hp := hd p (by simp)
      simp only [List.map_cons, List.mapM_cons, parse_fmt p.1 p.2 hp.1 hp.2, Option.bind_eq_bind, Option.bind_some]
      rw [ih (fun q hq => hd q (by simp [hq]))]
      simp
  rw [this]; simp

example : extractNamesAndLags ["X", "Y lag(n=2)", "Z future(n=2)", "Y lag(n=1)"] =
    some ([("X", 0), ("Y", -2), ("Z", 2), ("Y", -1)], -2) := by decide

example : (∀ p ∈ [("X", (0 : Int)), ("Y", -2), ("Z", 2), ("Y", -1)], p.1 ≠ "" ∧ NoMarker p.1.toList) ∧
    maxAbsFirst [0, -2, 2, -1] = -2 := by decide

example : extractNamesAndLags ["X", ""] = none := (extract_none_iff _).2 ⟨"", by simp, by decide⟩

end CG.C12
