/-
The index-level model (`CG/Model/Indexed.lean`: every redundant container of the Python) refines the one-map
model (`CG/Model/Basic.lean`, `Ops.lean`): DESIGN.md section "B. State representation".

  R1  `Mirror` (coherence of all containers) holds for `IGraph.ofGraph g`, for the empty graph, and is preserved by
      each of the four primitives under the LOCAL precondition `PreG` (stated on the abstract state, below).
  R2  `abs (I.prim args) = (abs I).prim args` for each primitive (no hypothesis at all).
  R3  `abs (IRun ps I) = Run ps (abs I)` (no hypothesis) and `Mirror` along a run whose every call meets `PreG`.
  R4  every index-level reader agrees with the one-map reader of `Views.lean` on `abs I` under `Mirror`:
      EQUAL LISTS where the code sorts (`get_edges(source=)`, `get_edges(destination=)`, the variables),
      PERMUTATIONS where the code returns a set or an insertion-ordered list (`get_parents`, `get_children`,
      `get_inbound_edges`, `get_outbound_edges`, `get_nodes_at_lag`, `get_nodes_for_variable_name`,
      `get_contemporaneous_nodes`), equal numbers / booleans for the counters and `is_source_node` / `is_sink_node`.

The preconditions and the call sites of the abstract primitives that establish them:

  `Graph.insNode id r`   Ops.addNode, Ops.addNodeObj          id is not a node (`hasNode` test just before) and, by `WF`
                                                              (`ends`), no stored edge touches it   → `preG_addNode`,
                                                              `preG_addNodeObj`
                         Ops.replaceNodeBase (in place)       id is a node and the record keeps lag / variable
                                                              → `preG_replaceInPlace`
  `Graph.insEdge s d r`  Ops.setEdge, OpsImpl.setEdgeImpl,    after the two `hasEdge` tests: (s, d) is not stored
                         Cache.setEdgeT                       → `preG_setEdge`, `preG_insEdge_of_checks`
  `Graph.delEdgeRaw`     Ops.deleteEdge, Cache.cascadeT       none
  `Graph.delNodeRaw`     Ops.deleteNode, Ops.replaceNodeBase, none
                         OpsImpl.dropNewNodes, OpsImpl.replaceNodeBaseImpl

`elem_is_prim`, `chain_is_run`, `stepRef_is_run`, `runRef_is_run`, `history_refines`: EVERY public mutator (the state
machine `stepRef` of `CG/Model/Step.lean`: single-element mutators and bulk adders of both classes), and every history
of them from the constructor, is a run of primitive calls meeting `RunPre`; so `refines_run` applies to all of them.
This rests on the decomposition `stepRef_chain` (`CG/Proofs/Lemmas/Decomp.lean`) and, for the mechanism-level run
with rollbacks, on C03 (`step_eq_stepRef`: same END state of every call).  What is NOT covered: the index containers
in the MIDDLE of a composite call that rolls back (only `_set_edge`'s own rollback is: `setEdgeImpl_is_run`); since
deletions need no precondition and every insertion site has been checked, nothing is expected there, but no theorem
states it for `addEdgeImpl`, `changeEdgeTypeImpl`, `replaceEdgeImpl`, `replaceNodeBaseImpl`.
-/
import CG.Proofs.Lemmas.IndexReaders
import CG.Proofs.Lemmas.C03Prims
import CG.Proofs.C01Views
import CG.Proofs.WFStep
import CG.Proofs.C03

namespace CG.IndexRefine
open CG CG.Indexed Std

/-! ### the local preconditions, on the abstract state -/

/-- the precondition each abstract primitive is used with -/
def PreG (g : Graph) : Prim → Prop
  | .insNode id r =>
      (∀ r0 : NodeRec, g.nodes[id]? = some r0 → g.cls = .ts → r.lag = r0.lag ∧ r.var = r0.var) ∧
      (g.nodes[id]? = none → ∀ (k : EKey) (e : EdgeRec), g.edges[k]? = some e → k.1 ≠ id ∧ k.2 ≠ id)
  | .insEdge s d _ => g.edges[((s, d) : EKey)]? = none
  | .delEdge _ _ => True
  | .delNode _ => True

/-- every call of a run meets its precondition in the state it is issued in -/
def RunPre : List Prim → Graph → Prop
  | [], _ => True
  | p :: ps, g => PreG g p ∧ RunPre ps (p.runG g)

theorem runPre_append (ps qs : List Prim) (g : Graph) :
    RunPre (ps ++ qs) g ↔ RunPre ps g ∧ RunPre qs (Run ps g) := by
  induction ps generalizing g with
  | nil => simp [RunPre, Run]
  | cons p ps ih =>
    simp only [List.cons_append, RunPre, ih, Run, List.foldl_cons, and_assoc]

theorem run_append (ps qs : List Prim) (g : Graph) : Run (ps ++ qs) g = Run qs (Run ps g) := by
  unfold Run; rw [List.foldl_append]

/-! ### R1 -/

/-- R1 (base): the canonical indexes of any one-map state are coherent -/
theorem mirror_ofGraph (g : Graph) : Mirror (IGraph.ofGraph g) := Mirror.ofGraph g

/-- R1 (base): the freshly constructed graph -/
theorem mirror_empty (c : GraphClass) (gm : Meta) : Mirror (IGraph.empty c gm) := Mirror.empty c gm

/-- R1 (step): each primitive preserves `Mirror` under its local precondition -/
theorem mirror_step {I : IGraph} (h : Mirror I) (p : Prim) (hp : PreG (abs I) p) : Mirror (p.runI I) := by
  cases p with
  | insNode id r => exact h.insNode id r hp.1 hp.2
  | insEdge s d r => exact h.insEdge s d r hp
  | delEdge s d => exact h.delEdgeRaw s d
  | delNode n => exact h.delNodeRaw n

theorem mirror_insNode {I : IGraph} (h : Mirror I) (id : String) (r : NodeRec)
    (hp : PreG (abs I) (.insNode id r)) : Mirror (I.insNode id r) := mirror_step h _ hp
theorem mirror_insEdge {I : IGraph} (h : Mirror I) (s d : String) (r : EdgeRec)
    (hp : PreG (abs I) (.insEdge s d r)) : Mirror (I.insEdge s d r) := mirror_step h _ hp
theorem mirror_delEdgeRaw {I : IGraph} (h : Mirror I) (s d : String) : Mirror (I.delEdgeRaw s d) :=
  h.delEdgeRaw s d
theorem mirror_delNodeRaw {I : IGraph} (h : Mirror I) (n : String) : Mirror (I.delNodeRaw n) :=
  h.delNodeRaw n

/-! ### R2 -/

theorem commute_insNode (I : IGraph) (id : String) (r : NodeRec) :
    abs (I.insNode id r) = (abs I).insNode id r := abs_insNode I id r
theorem commute_insEdge (I : IGraph) (s d : String) (r : EdgeRec) :
    abs (I.insEdge s d r) = (abs I).insEdge s d r := abs_insEdge I s d r
theorem commute_delEdgeRaw (I : IGraph) (s d : String) :
    abs (I.delEdgeRaw s d) = (abs I).delEdgeRaw s d := abs_delEdgeRaw I s d
theorem commute_delNodeRaw (I : IGraph) (n : String) :
    abs (I.delNodeRaw n) = (abs I).delNodeRaw n := abs_delNodeRaw I n

/-! ### R3 -/

/-- R3: a run of index-level primitives is the same run of one-map primitives under `abs` (unconditionally),
    and the containers stay coherent when every call meets its precondition -/
theorem refines_run (ps : List Prim) {I : IGraph} (h : Mirror I) (hp : RunPre ps (abs I)) :
    abs (IRun ps I) = Run ps (abs I) ∧ Mirror (IRun ps I) := by
  refine ⟨abs_IRun ps I, ?_⟩
  unfold IRun
  induction ps generalizing I with
  | nil => exact h
  | cons p ps ih =>
    rw [List.foldl_cons]
    refine ih (mirror_step h p hp.1) ?_
    rw [abs_runI]; exact hp.2

theorem commute_run (ps : List Prim) (I : IGraph) : abs (IRun ps I) = Run ps (abs I) := abs_IRun ps I

/-- from the constructor on: any history of primitive calls meeting the preconditions keeps the real containers
    coherent and equal (under `abs`) to the one-map history -/
theorem refines_from_empty (c : GraphClass) (gm : Meta) (ps : List Prim) (hp : RunPre ps (Graph.empty c gm)) :
    abs (IRun ps (IGraph.empty c gm)) = Run ps (Graph.empty c gm) ∧ Mirror (IRun ps (IGraph.empty c gm)) :=
  refines_run ps (mirror_empty c gm) hp

/-! ### the call sites establish the preconditions -/

theorem untouched_of_wf {g : Graph} (hw : WF g) {id : String} (hn : id ∉ g.nodes) (k : EKey) (e : EdgeRec)
    (hk : g.edges[k]? = some e) : k.1 ≠ id ∧ k.2 ≠ id := by
  obtain ⟨a, b⟩ := k
  have hm : (a, b) ∈ g.edges := (mem_edges_iff _ _).mpr ⟨e, hk⟩
  obtain ⟨ha, hb⟩ := hw.ends a b hm
  exact ⟨fun h => hn (h ▸ ha), fun h => hn (h ▸ hb)⟩

theorem preG_fresh {g : Graph} (hw : WF g) {id : String} (hn : id ∉ g.nodes) (r : NodeRec) :
    PreG g (.insNode id r) := by
  refine ⟨?_, fun _ => untouched_of_wf hw hn⟩
  intro r0 h0
  exact absurd ((mem_nodes_iff _ _).mpr ⟨r0, h0⟩) hn

theorem preG_addNode {g g' : Graph} (hw : WF g) {id : String} {vt : VType} {m : Meta}
    (h : addNode g id vt m = .ok g') : ∃ r, g' = g.insNode id r ∧ PreG g (.insNode id r) := by
  obtain ⟨r, _, hn, rfl⟩ := CG.C03.addNode_ok h
  exact ⟨r, rfl, preG_fresh hw hn r⟩

theorem preG_addNodeObj {g g' : Graph} (hw : WF g) {id : String} {vt : VType} {m : Meta}
    (h : addNodeObj g id vt m = .ok g') : ∃ r, g' = g.insNode id r ∧ PreG g (.insNode id r) := by
  obtain ⟨r, _, hn, rfl⟩ := CG.C03.addNodeObj_ok h
  exact ⟨r, rfl, preG_fresh hw hn r⟩

/-- the in-place `replace_node` writes a record with the lag and variable of the old one -/
theorem preG_replaceInPlace {g : Graph} {n : String} {r : NodeRec} (h0 : g.nodes[n]? = some r) (vt : VType) (md : Meta) :
    PreG g (.insNode n { r with vtype := vt, md := md }) := by
  refine ⟨?_, ?_⟩
  · intro r0 hr0 _
    rw [h0] at hr0; cases hr0; exact ⟨rfl, rfl⟩
  · intro hnone; rw [h0] at hnone; cases hnone

theorem preG_insEdge_of_checks {g : Graph} {s d : String} (r : EdgeRec) (h : g.hasEdge s d = false) :
    PreG g (.insEdge s d r) := by
  show g.edges[((s, d) : EKey)]? = none
  have := (hasEdge_false_iff g s d).mp h
  exact ExtTreeMap.getElem?_eq_none this

theorem preG_setEdge {g g' : Graph} {s d : String} {r : EdgeRec} {v : Bool} (h : setEdge g s d r v = .ok g') :
    g' = g.insEdge s d r ∧ PreG g (.insEdge s d r) := by
  unfold setEdge at h
  split at h
  · cases h
  · split at h
    · cases h
    · rename_i _ h2
      simp only at h
      split at h
      · cases h
      · cases h
        exact ⟨rfl, preG_insEdge_of_checks r (by simpa using h2)⟩

/-! ### public mutators as runs -/

theorem addNode_is_run {g g' : Graph} (hw : WF g) {id : String} {vt : VType} {m : Meta}
    (h : addNode g id vt m = .ok g') : ∃ ps, g' = Run ps g ∧ RunPre ps g := by
  obtain ⟨r, rfl, hp⟩ := preG_addNode hw h
  exact ⟨[.insNode id r], rfl, hp, trivial⟩

theorem addNodeObj_is_run {g g' : Graph} (hw : WF g) {id : String} {vt : VType} {m : Meta}
    (h : addNodeObj g id vt m = .ok g') : ∃ ps, g' = Run ps g ∧ RunPre ps g := by
  obtain ⟨r, rfl, hp⟩ := preG_addNodeObj hw h
  exact ⟨[.insNode id r], rfl, hp, trivial⟩

theorem ensureNode_is_run {g g' : Graph} (hw : WF g) {e : Endpoint}
    (h : ensureNode g e = .ok g') : ∃ ps, g' = Run ps g ∧ RunPre ps g := by
  unfold ensureNode at h
  split at h
  · cases h; exact ⟨[], rfl, trivial⟩
  · split at h
    · exact addNode_is_run hw h
    · exact addNodeObj_is_run hw h

theorem setEdge_is_run {g g' : Graph} {s d : String} {r : EdgeRec} {v : Bool} (h : setEdge g s d r v = .ok g') :
    ∃ ps, g' = Run ps g ∧ RunPre ps g := by
  obtain ⟨rfl, hp⟩ := preG_setEdge h
  exact ⟨[.insEdge s d r], rfl, hp, trivial⟩

theorem deleteEdge_is_run {g g' : Graph} {s d : String} {ty? : Option EdgeType}
    (h : deleteEdge g s d ty? = .ok g') : ∃ ps, g' = Run ps g ∧ RunPre ps g := by
  refine ⟨[.delEdge s d], ?_, trivial, trivial⟩
  unfold deleteEdge at h
  split at h
  · cases h
  · split at h
    · cases h
    · split at h
      · cases h
      · split at h
        · split at h
          · cases h; rfl
          · cases h
        · cases h; rfl

theorem deleteNode_is_run {g g' : Graph} {n : String} (h : deleteNode g n = .ok g') :
    ∃ ps, g' = Run ps g ∧ RunPre ps g := by
  refine ⟨[.delNode n], ?_, trivial, trivial⟩
  unfold deleteNode at h
  split at h
  · cases h
  · cases h; rfl

/-- `add_edge` (either class, any endpoint form): implicit node creations, then the edge insertion -/
theorem addEdgeE_is_run {g g' : Graph} (hw : WF g) {s d : Endpoint} {ty : EdgeType} {m : Meta} {v : Bool}
    (h : addEdgeE g s d ty m v = .ok g') : ∃ ps, g' = Run ps g ∧ RunPre ps g := by
  unfold addEdgeE at h
  split at h
  · cases h
  · cases h1 : ensureNode g s with
    | error e => simp [h1, bind, Except.bind] at h
    | ok g1 =>
      simp only [h1, bind, Except.bind] at h
      cases h2 : ensureNode g1 d with
      | error e => simp [h2] at h
      | ok g2 =>
        simp only [h2] at h
        split at h
        · cases h
        · cases h3 : orient g2 s.id d.id ty with
          | error e => simp [h3] at h
          | ok sd =>
            simp only [h3] at h
            obtain ⟨hw1, _, _⟩ := CG.C03.ensureNode_wf hw h1
            obtain ⟨ps1, rfl, hp1⟩ := ensureNode_is_run hw h1
            obtain ⟨ps2, rfl, hp2⟩ := ensureNode_is_run hw1 h2
            obtain ⟨ps3, rfl, hp3⟩ := setEdge_is_run h
            refine ⟨ps1 ++ (ps2 ++ ps3), ?_, ?_⟩
            · rw [run_append, run_append]
            · rw [runPre_append, runPre_append]
              exact ⟨hp1, hp2, hp3⟩

/-! ### every mutator, every history

`CG/Proofs/Lemmas/Decomp.lean` decomposes EVERY public mutator of the state machine (`stepRef`: the single-element
mutators, the bulk adders, both classes) into a `Chain` of elementary changes `Elem`, each of which is one of the four
primitives together with the facts its call site has established.  Those facts imply `PreG`. -/

theorem elem_is_prim {v : Bool} {g g' : Graph} (hw : WF g) (he : Elem v g g') :
    ∃ p : Prim, g' = p.runG g ∧ PreG g p := by
  cases he with
  | @addNode i r hn _ => exact ⟨.insNode i r, rfl, preG_fresh hw hn r⟩
  | @editNode i r0 r h0 hvar hlag _ =>
    refine ⟨.insNode i r, rfl, ?_, ?_⟩
    · intro r1 h1 _
      rw [h0] at h1; cases h1; exact ⟨hlag, hvar⟩
    · intro hnone; rw [h0] at hnone; cases hnone
  | @addEdge s d r _ _ _ _ hsd _ _ =>
    exact ⟨.insEdge s d r, rfl, preG_insEdge_of_checks r ((hasEdge_false_iff g s d).mpr hsd)⟩
  | delEdge s d => exact ⟨.delEdge s d, rfl, trivial⟩
  | delNode n => exact ⟨.delNode n, rfl, trivial⟩

theorem chain_is_run {v : Bool} {g g' : Graph} (hw : WF g) (hc : Chain v g g') :
    ∃ ps, g' = Run ps g ∧ RunPre ps g := by
  induction hc with
  | refl => exact ⟨[], rfl, trivial⟩
  | tail hc1 he ih =>
    obtain ⟨ps, rfl, hp⟩ := ih
    obtain ⟨p, rfl, hpp⟩ := elem_is_prim (wf_chain hw hc1) he
    refine ⟨ps ++ [p], ?_, ?_⟩
    · rw [run_append]; rfl
    · rw [runPre_append]; exact ⟨hp, hpp, trivial⟩

/-- every call of the state machine (any public mutator, failing or not, either class) from a `WF` state is a run
    of primitive calls each of which meets its precondition -/
theorem stepRef_is_run {g : Graph} (hw : WF g) (op : Op) :
    ∃ ps, (stepRef g op).1 = Run ps g ∧ RunPre ps g := chain_is_run hw (stepRef_chain g op)

theorem runRef_is_run {g : Graph} (hw : WF g) (ops : List Op) :
    ∃ ps, runRef g ops = Run ps g ∧ RunPre ps g := by
  induction ops generalizing g with
  | nil => exact ⟨[], rfl, trivial⟩
  | cons op ops ih =>
    obtain ⟨ps1, h1, hp1⟩ := stepRef_is_run hw op
    obtain ⟨ps2, h2, hp2⟩ := ih (wf_stepRef hw op)
    refine ⟨ps1 ++ ps2, ?_, ?_⟩
    · rw [runRef_cons, h2, h1, run_append]
    · rw [runPre_append, ← h1]; exact ⟨hp1, hp2⟩

/-- **R3 for whole histories**: for every history of public calls from the constructor there is a sequence of
    index-level primitive calls whose result is coherent (`Mirror`) and abstracts to the state the one-map model
    reaches -- both for the reference semantics (`runRef`) and for the mechanism-level one (`run`: writes and
    rollbacks as the code performs them; equal end states by C03) -/
theorem history_refines (c : GraphClass) (gm : Meta) (ops : List Op) :
    ∃ ps, abs (IRun ps (IGraph.empty c gm)) = runRef (Graph.empty c gm) ops ∧
          abs (IRun ps (IGraph.empty c gm)) = run (Graph.empty c gm) ops ∧
          Mirror (IRun ps (IGraph.empty c gm)) := by
  obtain ⟨ps, h1, hp⟩ := runRef_is_run (wf_empty c gm) ops
  obtain ⟨h2, h3⟩ := refines_from_empty c gm ps hp
  have h4 := (wf_run (fun g op hw => CG.C03.step_eq_stepRef hw op) (wf_empty c gm) ops).2
  exact ⟨ps, by rw [h2, h1], by rw [h2, h4, h1], h3⟩

/-- the rollback inside `_set_edge` as the code performs it (insert, cycle check, `delete_edge`): also a run
    meeting the preconditions, from ANY state -/
theorem setEdgeImpl_is_run (g : Graph) (s d : String) (r : EdgeRec) (v : Bool) :
    ∃ ps, (setEdgeImpl g s d r v).1 = Run ps g ∧ RunPre ps g := by
  unfold setEdgeImpl
  split
  · exact ⟨[], rfl, trivial⟩
  · split
    · exact ⟨[], rfl, trivial⟩
    · rename_i _ h2
      have hp : PreG g (.insEdge s d r) := preG_insEdge_of_checks r (by simpa using h2)
      simp only
      split
      · cases hde : deleteEdge (g.insEdge s d r) s d none with
        | error e => exact ⟨[.insEdge s d r], rfl, hp, trivial⟩
        | ok g'' =>
          obtain ⟨ps, h1, hp1⟩ := deleteEdge_is_run hde
          exact ⟨.insEdge s d r :: ps, by simp only [h1]; rfl, hp, hp1⟩
      · exact ⟨[.insEdge s d r], rfl, hp, trivial⟩

/-! ### R4: readers -/

theorem reader_getEdges_source (I : IGraph) (s : String) (ty? : Option EdgeType) :
    getEdgesSrc I s ty? = getEdges (abs I) (some s) none ty? := getEdgesSrc_eq I s ty?

theorem reader_getEdges_destination {I : IGraph} (h : Mirror I) (d : String) (ty? : Option EdgeType) :
    getEdgesDst I d ty? = getEdges (abs I) none (some d) ty? := getEdgesDst_eq h d ty?

theorem reader_getParents {I : IGraph} (h : Mirror I) (n : String) :
    ExceptPerm (getParentsIdx I n) (getParents (abs I) n) := getParentsIdx_perm h n

theorem reader_getChildren {I : IGraph} (h : Mirror I) (n : String) :
    ExceptPerm (getChildrenIdx I n) (getChildren (abs I) n) := getChildrenIdx_perm h n

theorem reader_inboundEdges {I : IGraph} (h : Mirror I) (n : String) :
    (inboundEdges I n).Perm (((abs I).edges.toList.filter (fun kv => kv.1.2 = n ∧ kv.2.ty = .directed)).map (·.1)) :=
  inboundEdges_perm h n

theorem reader_outboundEdges {I : IGraph} (h : Mirror I) (n : String) :
    (outboundEdges I n).Perm (((abs I).edges.toList.filter (fun kv => kv.1.1 = n ∧ kv.2.ty = .directed)).map (·.1)) :=
  outboundEdges_perm h n

theorem reader_isSourceNode {I : IGraph} (h : Mirror I) (n : String) :
    isSourceNode I n = ((abs I).edges.toList.filter (fun kv => kv.1.2 = n ∧ kv.2.ty = .directed)).isEmpty :=
  isSourceNode_eq h n

theorem reader_isSinkNode {I : IGraph} (h : Mirror I) (n : String) :
    isSinkNode I n = ((abs I).edges.toList.filter (fun kv => kv.1.1 = n ∧ kv.2.ty = .directed)).isEmpty :=
  isSinkNode_eq h n

theorem reader_nodesAtLag {I : IGraph} (h : Mirror I) (hc : I.cls = .ts) (l : Int) :
    (nodesAtLagIdx I l).Perm (nodesAtLag (abs I) l) := nodesAtLagIdx_perm h hc l

theorem reader_nodesForVariable {I : IGraph} (h : Mirror I) (hc : I.cls = .ts) (v : String) :
    (nodesForVariableIdx I v).Perm (nodesForVariable (abs I) v) := nodesForVariableIdx_perm h hc v

theorem reader_contemporaneous {I : IGraph} (h : Mirror I) (hc : I.cls = .ts) (n : String) :
    ExceptPerm (contemporaneousIdx I n) (contemporaneous (abs I) n) := contemporaneousIdx_perm h hc n

/-- the non-empty keys of the variable index, sorted, ARE the `variables` of the one-map state -/
theorem reader_variables {I : IGraph} (h : Mirror I) (hc : I.cls = .ts) :
    variablesIdx I = variables (abs I) := by
  unfold variablesIdx variables
  have hp1 : ((I.varIdx.toList.filter (fun kv => !kv.2.isEmpty)).map (·.1)).Pairwise (· < ·) := by
    rw [List.pairwise_map]
    refine List.Pairwise.imp ?_ ((ExtTreeMap.ordered_keys_toList (t := I.varIdx)).filter _)
    intro a b hab
    exact (CG.C01.str_compare_lt _ _).mp hab
  have hp2 := CG.C01.sortDedup_sorted ((abs I).nodes.toList.map (·.2.var))
  refine List.Perm.eq_of_pairwise (le := (· < ·)) ?_ hp1 hp2 ?_
  · intro a b _ _ h1 h2
    exact absurd h2 (String.lt_asymm h1)
  · rw [List.perm_ext_iff_of_nodup (CG.C01.nodup_of_pairwise String.lt_irrefl hp1)
      (CG.C01.sortDedup_nodup _)]
    intro v
    rw [CG.C01.mem_sortDedup]
    simp only [abs_nodes, List.mem_map, List.mem_filter, Bool.not_eq_true', List.isEmpty_eq_false_iff]
    constructor
    · rintro ⟨⟨v', L⟩, ⟨hm, hne⟩, rfl⟩
      have hL : I.varIdx.getD v' [] = L := by
        rw [ExtTreeMap.getD_eq_getD_getElem?, ExtTreeMap.mem_toList_iff_getElem?_eq_some.mp hm]; rfl
      obtain ⟨n, hn⟩ := List.exists_mem_of_ne_nil L hne
      rw [← hL, h.varMem hc v' n] at hn
      obtain ⟨r, hr, hv⟩ := hn
      exact ⟨(n, r), ExtTreeMap.mem_toList_iff_getElem?_eq_some.mpr hr, hv⟩
    · rintro ⟨⟨n, r⟩, hm, rfl⟩
      have hr := ExtTreeMap.mem_toList_iff_getElem?_eq_some.mp hm
      have hn : n ∈ I.varIdx.getD r.var [] := (h.varMem hc r.var n).mpr ⟨r, hr, rfl⟩
      cases hg : I.varIdx[r.var]? with
      | none => rw [ExtTreeMap.getD_eq_getD_getElem?, hg] at hn; simp at hn
      | some L =>
        rw [ExtTreeMap.getD_eq_getD_getElem?, hg] at hn
        exact ⟨(r.var, L), ⟨ExtTreeMap.mem_toList_iff_getElem?_eq_some.mpr hg, List.ne_nil_of_mem hn⟩, rfl⟩

/-! ### non-vacuity -/

/-- a time-series history: two nodes, a directed edge, an in-place edit, an edge deletion, a node deletion -/
def demoRun : List Prim :=
  [ .insNode "X" { vtype := .unspecified, md := [], var := "X", lag := 0 },
    .insNode "X lag(n=1)" { vtype := .unspecified, md := [], var := "X", lag := -1 },
    .insEdge "X lag(n=1)" "X" { ty := .directed, md := [] },
    .insNode "X" { vtype := .binary, md := [], var := "X", lag := 0 },
    .delEdge "X lag(n=1)" "X",
    .delNode "X" ]

/-- the hypotheses of `refines_run` / `refines_from_empty` are met by a concrete non-trivial history -/
theorem demoRun_pre : RunPre demoRun (Graph.empty .ts) := by
  simp [demoRun, RunPre, PreG, Prim.runG, Graph.insNode, Graph.insEdge, Graph.empty,
    ExtTreeMap.getElem?_insert, ExtTreeMap.getElem_insert]

example : RunPre demoRun (Graph.empty .ts) := demoRun_pre

example : Mirror (IRun demoRun (IGraph.empty .ts)) := (refines_from_empty .ts [] demoRun demoRun_pre).2

/-- `Mirror` is not trivially true: an edge written to the by-source index only (the mutant "skip the
    by-destination write in `_set_edge`") is rejected -/
example : ¬ Mirror { IGraph.empty .plain with bySrc := (∅ : EMap).insert ("a", "b") { ty := .directed, md := [] } } := by
  intro h
  have := h.transp "a" "b"
  simp [IGraph.empty] at this

/-- … and so is a node left in the lag cache after its deletion -/
example : ¬ Mirror { IGraph.empty .ts with lagIdx := (∅ : LagMap).insert 0 ["X"] } := by
  intro h
  have := (h.lagMem rfl 0 "X").mp (by simp [IGraph.empty])
  simp [IGraph.empty] at this

/-- the precondition of `insEdge` is needed: overwriting a directed edge by an undirected one leaves a stale
    member in the inbound list -/
example : ∃ I : IGraph, Mirror I ∧ ¬ Mirror (I.insEdge "a" "b" { ty := .undirected, md := [] }) := by
  refine ⟨(IGraph.empty .plain).insEdge "a" "b" { ty := .directed, md := [] }, ?_, ?_⟩
  · exact (Mirror.empty .plain []).insEdge "a" "b" _ (by simp [IGraph.empty])
  · intro h
    have h1 := (h.inbMem "b" ("a", "b")).mp (by
      simp [insEdge_inb, getD_pushAt, IGraph.empty])
    obtain ⟨_, r, hr, hd⟩ := h1
    simp [insEdge_bySrc] at hr
    subst hr
    cases hd

end CG.IndexRefine
