/-
C12, string half: node names and (variable, lag) pairs are in bijection.

For every non-empty variable name `v` that contains no `lag(n=d+)` / `future(n=d+)` marker (`NoMarker v.toList`;
spaces, newlines, digits, the bare words `lag` / `future`, unicode are all allowed) and all integers `j k`:

  parse_fmt      parse (fmt v k) = some (v, k)                 parsing the name produced for (v, k) gives (v, k) back
  format_var     format v k = some (fmt v k)                   `get_name_with_lag` on a variable name never raises
  format_relag   format (fmt v j) k = some (fmt v k)           re-lagging any name of v to k gives the name of (v, k)
  format_zero    fmt v 0 = v                                   lag 0 is the bare variable name
  fmt_injective  fmt v k = fmt v' k' → v = v' ∧ k = k'         distinct pairs have distinct names

`parse` / `format` / `fmt` are the model of `get_variable_name_and_lag` / `get_name_with_lag` in
`CG/Model/Name.lean` (the regex run by hand in the matcher's priority order, the two `findall` counts, the
truthiness order, digits = every Unicode Nd digit from the generated table).  The only facts taken from the table
are derived from it by evaluation: ASCII `0`–`9` are digits with their usual values; space, `)`, `l`, `f` are not.

Each statement is proved on code-point lists (`…L`) and transported to `String`.
-/
import CG.Model.Name
import CG.Proofs.Lemmas.Name

namespace CG.C12
open CG.Name

/-! ### on code-point lists -/

/-- what `parseL` answers on `u ++ suffix` for a canonical suffix -/
theorem parseL_append_suf {u suf : Str} {l f : Option Str} (hu : u ≠ []) (hnm : NoMarker u) (hs : Suf suf l f) :
    parseL (u ++ suf) =
      if truthy l then some (u, -((decVal (l.getD []) : Nat) : Int))
      else if truthy f then some (u, ((decVal (f.getD []) : Nat) : Int))
      else some (u, 0) := by
  have h1 : reMatch (u ++ suf) = some (u, l, f) := by
    simpa [reMatch] using search_fmt hs u [] hu hnm
  have h2 : ¬ numMatches (u ++ suf) > 1 := Nat.not_lt.mpr (numMatches_append hs hnm)
  simp only [parseL, h1, h2, if_false]

/-- the suffix `fmtL` appends, and the groups it produces -/
theorem fmtL_eq (v : Str) (k : Int) :
    (k = 0 ∧ fmtL v k = v ++ [] ∧ Suf [] none none) ∨
    (k > 0 ∧ fmtL v k = v ++ marker futW (digitsOf k.toNat) ∧
      Suf (marker futW (digitsOf k.toNat)) none (some (digitsOf k.toNat))) ∨
    (k < 0 ∧ fmtL v k = v ++ marker lagW (digitsOf (-k).toNat) ∧
      Suf (marker lagW (digitsOf (-k).toNat)) (some (digitsOf (-k).toNat)) none) := by
  rcases Int.lt_trichotomy k 0 with h | h | h
  · refine Or.inr (Or.inr ⟨h, ?_, Suf.lag _ (digitsOf_ne_nil _) (digitsOf_isDigit _)⟩)
    have h0 : ¬ k = 0 := by omega
    have h1 : ¬ k > 0 := by omega
    simp [fmtL, h0, h1, marker, bare, digitsOf]
  · exact Or.inl ⟨h, by simp [fmtL, h], Suf.none⟩
  · refine Or.inr (Or.inl ⟨h, ?_, Suf.fut _ (digitsOf_ne_nil _) (digitsOf_isDigit _)⟩)
    have h0 : ¬ k = 0 := by omega
    simp [fmtL, h0, h, marker, bare, digitsOf]

theorem truthy_digitsOf (n : Nat) : truthy (some (digitsOf n)) = true := by
  cases h : digitsOf n with
  | nil => exact absurd h (digitsOf_ne_nil n)
  | cons _ _ => rfl

/-- **parse ∘ fmt = id** on code-point lists -/
theorem parseL_fmtL {v : Str} (k : Int) (hv : v ≠ []) (hnm : NoMarker v) : parseL (fmtL v k) = some (v, k) := by
  rcases fmtL_eq v k with ⟨hk, he, hs⟩ | ⟨hk, he, hs⟩ | ⟨hk, he, hs⟩
  · rw [he, parseL_append_suf hv hnm hs, hk]; simp [truthy]
  · rw [he, parseL_append_suf hv hnm hs]
    have hn : truthy (none : Option Str) = false := rfl
    simp only [hn, truthy_digitsOf, Option.getD_some, decVal_digitsOf, if_true, Bool.false_eq_true, if_false]
    congr 2; omega
  · rw [he, parseL_append_suf hv hnm hs]
    simp only [truthy_digitsOf, Option.getD_some, decVal_digitsOf, if_true]
    congr 2; omega

theorem formatL_var {v : Str} (k : Int) (hv : v ≠ []) (hnm : NoMarker v) : formatL v k = some (fmtL v k) := by
  have := parseL_fmtL 0 hv hnm
  rw [show fmtL v 0 = v by simp [fmtL]] at this
  simp [formatL, this]

theorem formatL_relag {v : Str} (j k : Int) (hv : v ≠ []) (hnm : NoMarker v) :
    formatL (fmtL v j) k = some (fmtL v k) := by
  simp [formatL, parseL_fmtL j hv hnm]

theorem fmtL_zero (v : Str) : fmtL v 0 = v := by simp [fmtL]

theorem fmtL_injective {v v' : Str} {k k' : Int} (hv : v ≠ []) (hnm : NoMarker v) (hv' : v' ≠ [])
    (hnm' : NoMarker v') (h : fmtL v k = fmtL v' k') : v = v' ∧ k = k' := by
  have h1 := parseL_fmtL k hv hnm
  rw [h, parseL_fmtL k' hv' hnm'] at h1
  simpa [eq_comm] using h1

/-! ### `String` level (what the driver runs) -/

theorem toList_fmt (v : String) (k : Int) : (fmt v k).toList = fmtL v.toList k := by
  unfold fmt fmtL
  split
  · rfl
  · split <;> simp [String.toList_append, futW, lagW, openW]

theorem parse_eq (s : String) : parse s = (parseL s.toList).map fun p => (String.ofList p.1, p.2) := by
  unfold parse; cases parseL s.toList <;> rfl

/-- **C12 (i): parsing the name produced for `(v, k)` gives `(v, k)` back.** -/
theorem parse_fmt (v : String) (k : Int) (hv : v ≠ "") (hnm : NoMarker v.toList) :
    parse (fmt v k) = some (v, k) := by
  have hv' : v.toList ≠ [] := by simpa [String.toList_eq_nil_iff] using hv
  rw [parse_eq, toList_fmt, parseL_fmtL k hv' hnm]
  simp [String.ofList_toList]

example : parse (fmt "lag x\n1 future" (-12)) = some ("lag x\n1 future", -12) :=
  parse_fmt _ _ (by decide) (by decide)

/-- **C12 (ii): `get_name_with_lag` applied to a variable name does not raise and yields the canonical name.** -/
theorem format_var (v : String) (k : Int) (hv : v ≠ "") (hnm : NoMarker v.toList) :
    format v k = some (fmt v k) := by
  have := parse_fmt v 0 hv hnm
  rw [show fmt v 0 = v by simp [fmt]] at this
  simp [format, this]

example : format "lag(n=) 7\n" 3 = some "lag(n=) 7\n future(n=3)" :=
  format_var _ _ (by decide) (by decide)

/-- **C12 (iii): re-lagging any name of `v` to `k` gives the name of `(v, k)`.** -/
theorem format_relag (v : String) (j k : Int) (hv : v ≠ "") (hnm : NoMarker v.toList) :
    format (fmt v j) k = some (fmt v k) := by
  simp [format, parse_fmt v j hv hnm]

example : format (fmt "a b" (-2)) 5 = some (fmt "a b" 5) := format_relag _ _ _ (by decide) (by decide)

/-- **C12 (iv): lag 0 is the bare variable name.** -/
theorem format_zero (v : String) : fmt v 0 = v := by simp [fmt]

/-- **C12 (v): `(v, k) ↦ fmt v k` is injective on the domain.** -/
theorem fmt_injective {v v' : String} {k k' : Int} (hv : v ≠ "") (hnm : NoMarker v.toList) (hv' : v' ≠ "")
    (hnm' : NoMarker v'.toList) (h : fmt v k = fmt v' k') : v = v' ∧ k = k' := by
  have h1 := parse_fmt v k hv hnm
  rw [h, parse_fmt v' k' hv' hnm'] at h1
  simpa [eq_comm] using h1

example : fmt "x 1" 2 ≠ fmt "x" 12 := by
  intro h
  have := (fmt_injective (by decide) (by decide) (by decide) (by decide) h).2
  omega

/-! ### the domain, and why it is needed (behaviour of the code as written, evaluated on the model) -/

example : ¬ NoMarker "x lag(n=1)".toList := by decide
example : NoMarker "x lag(n=)".toList := by decide
example : NoMarker "lag future (n=1) lag(n=x)".toList := by decide

/-- a marker glued to the name (no space) stays in the variable name … -/
example : parse "xlag(n=1)" = some ("xlag(n=1)", 0) := by decide
/-- … so re-lagging that name produces a string with two markers, which no longer parses -/
example : format "xlag(n=1)" 2 = some "xlag(n=1) future(n=2)" ∧ parse "xlag(n=1) future(n=2)" = none := by decide
/-- the pattern accepts both markers in a row, the `findall` count then rejects the name -/
example : parse "x lag(n=1) future(n=2)" = none := by decide
/-- the empty name is rejected (`.+?` needs a character) -/
example : parse "" = none := by decide
/-- parsing is not injective: leading zeros, non-ASCII digits, lag 0 and one final newline are all absorbed -/
example : parse "x lag(n=007)" = some ("x", -7) ∧ parse "x lag(n=٣)" = some ("x", -3) ∧
    parse "x lag(n=0)" = some ("x", 0) ∧ parse "x future(n=0)" = some ("x", 0) ∧
    parse "x lag(n=1)\n" = some ("x", -1) := by decide
/-- newlines at the end of a bare name belong to the variable name -/
example : parse "a\n\n" = some ("a\n\n", 0) := by decide

end CG.C12
