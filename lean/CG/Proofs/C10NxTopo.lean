/-
C10 / C13, third-party half -- the algorithms networkx 3.2.1 runs for `is_directed_acyclic_graph`, `topological_sort`,
`topological_generations`, `lexicographical_topological_sort` and `all_topological_sorts` compute the definitional
notions the lanes validate them against.

`CG/Model/NxTopo.lean` transcribes the five routines.  This file proves, for a node list without repetition (`G.nodes`)
and edges within the node list (`hE`; both hold for every networkx graph):

* `nxIsDag_iff`, `nxIsDag_eq_acyclicB`       `is_directed_acyclic_graph` answers `True` exactly on acyclic graphs; it is
                                             the Boolean `CG.DSepDec.acyclicB` the model of `is_dag` uses;
* `nxTopologicalSort_valid`, `…_ok_valid`, `…_unfeasible_iff`, `…_total`
                                             `topological_sort` returns a linear extension (`CG.Topo.isTopoOrder`) on an
                                             acyclic graph and raises `NetworkXUnfeasible` exactly on cyclic ones;
* `nxTopologicalGenerations_valid`           the same for the generations (their concatenation is the sort);
* `nxLexTopo_valid`, `nxLexTopo_sorted`, `…_unfeasible_iff`, `…_total`
                                             the same for `lexicographical_topological_sort`, plus: if no edge goes from a
                                             larger key to a smaller one (the time-series invariant of C13), the keys of
                                             the returned order never decrease (`CG.Topo.lagsSorted`);
* `nxLexTopo_eq_kahnByLag`                   order-exact: it returns the very list the definitional `CG.Topo.kahnByLag`
                                             computes (first available node of least key, in node order);
* `nxAllTopo_eq`, `nxAllTopo_mem_iff`, `nxAllTopo_unfeasible_iff`, `nxAllTopo_total`
                                             `all_topological_sorts` (the iterative algorithm with the rotating deque)
                                             returns every linear extension exactly once (`CG.Topo.allTopo` as a set) on
                                             an acyclic graph and raises `NetworkXUnfeasible`, having yielded nothing,
                                             on a cyclic one; its `assert`s never fire and the iteration budget of the
                                             transcription is never exhausted;
* `*_no_runtimeError` (inside `…_total`)     the `RuntimeError` branches are dead code.

With this the third-party assumption "networkx computes acyclicity / a topological order / a lag-sorted topological
order (measured)" shrinks to "`CG.NxTopo` is a faithful transcription of 90 lines of Python (read, and measured by
`nxtopo …` on every query, ORDER included)".
-/
import CG.Model.NxTopo
import CG.Model.DSep
import CG.Proofs.TopoOrders
import CG.Proofs.Lemmas.NxTopoKahn
import CG.Proofs.Lemmas.NxTopoRuns
import CG.Proofs.Lemmas.NxTopoLexKahn
import CG.Proofs.Lemmas.NxTopoAllSpec
import CG.Proofs.Lemmas.NxTopoAllSim
set_option linter.unusedSectionVars false
set_option linter.unusedSimpArgs false
set_option linter.unusedVariables false

namespace CG.NxTopoProofs
variable {α : Type} [DecidableEq α]
open CG.NxTopo CG.TopoThm CG.NxTopoKahn CG.NxTopoRuns CG.NxTopoAll CG.NxTopoLexKahn
open CG.EL (Rel RTC TC Acyclic)
open CG.Topo (isTopoOrder lagsSorted)

instance instDecEqExcept {ε β : Type} [DecidableEq ε] [DecidableEq β] : DecidableEq (Except ε β) := fun a b =>
  match a, b with
  | .ok x, .ok y => if h : x = y then isTrue (by rw [h]) else isFalse (by intro e; cases e; exact h rfl)
  | .error x, .error y => if h : x = y then isTrue (by rw [h]) else isFalse (by intro e; cases e; exact h rfl)
  | .ok _, .error _ => isFalse (by intro e; cases e)
  | .error _, .ok _ => isFalse (by intro e; cases e)

/-! ### `topological_generations` / `topological_sort` -/

/-- the run of `topological_generations`: it ends normally with generations whose concatenation is a linear extension,
    or it ends with `NetworkXUnfeasible` and the graph has a cycle.  Nothing else (no `RuntimeError`). -/
theorem topologicalGenerationsRun_spec {nodes : List α} {E : List (α × α)} (hnd : nodes.Nodup)
    (hE : ∀ e ∈ E, e.1 ∈ nodes ∧ e.2 ∈ nodes) :
    ((topologicalGenerationsRun nodes E).2 = none ∧ LinExt E nodes (topologicalGenerationsRun nodes E).1.flatten) ∨
    ((topologicalGenerationsRun nodes E).2 = some .NetworkXUnfeasible ∧ ¬ Acyclic (Rel E)) := by
  have := gensLoop_spec hnd hE (indegreeMap nodes E) (zeroIndegree nodes E) [] (mapOK_init E hnd)
    (readyOK_init E hnd) (doneOK_init nodes E)
  simpa [topologicalGenerationsRun] using this

/-- **`topological_sort` never ends in anything but a list or `NetworkXUnfeasible`**, and which one is decided by
    acyclicity; the list is a linear extension. -/
theorem nxTopologicalSort_total {nodes : List α} {E : List (α × α)} (hnd : nodes.Nodup)
    (hE : ∀ e ∈ E, e.1 ∈ nodes ∧ e.2 ∈ nodes) :
    (∃ o, nxTopologicalSort nodes E = .ok o ∧ LinExt E nodes o ∧ Acyclic (Rel E)) ∨
    (nxTopologicalSort nodes E = .error .NetworkXUnfeasible ∧ ¬ Acyclic (Rel E)) := by
  unfold nxTopologicalSort topologicalSortRun Run.toExcept
  rcases topologicalGenerationsRun_spec hnd hE with ⟨h1, h2⟩ | ⟨h1, h2⟩
  · left
    exact ⟨_, by simp only [h1], h2, linExt_acyclic hE h2⟩
  · right
    exact ⟨by simp only [h1], h2⟩

/-- (b) **`topological_sort` on an acyclic graph**: a permutation of the nodes in which every edge goes forward. -/
theorem nxTopologicalSort_valid {nodes : List α} {E : List (α × α)} (hnd : nodes.Nodup)
    (hE : ∀ e ∈ E, e.1 ∈ nodes ∧ e.2 ∈ nodes) (hac : Acyclic (Rel E)) :
    ∃ o, nxTopologicalSort nodes E = .ok o ∧ isTopoOrder E nodes o = true := by
  rcases nxTopologicalSort_total hnd hE with ⟨o, h1, h2, _⟩ | ⟨_, h2⟩
  · exact ⟨o, h1, (isTopoOrder_iff E nodes o).mpr h2⟩
  · exact absurd hac h2

/-- whatever list `topological_sort` returns is a valid topological order (no acyclicity hypothesis) -/
theorem nxTopologicalSort_ok_valid {nodes : List α} {E : List (α × α)} (hnd : nodes.Nodup)
    (hE : ∀ e ∈ E, e.1 ∈ nodes ∧ e.2 ∈ nodes) {o : List α} (h : nxTopologicalSort nodes E = .ok o) :
    isTopoOrder E nodes o = true ∧ Acyclic (Rel E) := by
  rcases nxTopologicalSort_total hnd hE with ⟨o', h1, h2, h3⟩ | ⟨h1, _⟩
  · have : o' = o := by rw [h1] at h; cases h; rfl
    subst this
    exact ⟨(isTopoOrder_iff E nodes o').mpr h2, h3⟩
  · rw [h1] at h; cases h

/-- (b) **`topological_sort` raises `NetworkXUnfeasible` exactly on cyclic graphs** -/
theorem nxTopologicalSort_unfeasible_iff {nodes : List α} {E : List (α × α)} (hnd : nodes.Nodup)
    (hE : ∀ e ∈ E, e.1 ∈ nodes ∧ e.2 ∈ nodes) :
    nxTopologicalSort nodes E = .error .NetworkXUnfeasible ↔ ¬ Acyclic (Rel E) := by
  rcases nxTopologicalSort_total hnd hE with ⟨o, h1, _, h3⟩ | ⟨h1, h2⟩
  · rw [h1]; exact ⟨fun h => (nomatch h), fun h => absurd h3 h⟩
  · rw [h1]; exact ⟨fun _ => h2, fun _ => rfl⟩

/-- the `RuntimeError` branches of `topological_generations` are dead code -/
theorem nxTopologicalSort_no_runtimeError {nodes : List α} {E : List (α × α)} (hnd : nodes.Nodup)
    (hE : ∀ e ∈ E, e.1 ∈ nodes ∧ e.2 ∈ nodes) : nxTopologicalSort nodes E ≠ .error .RuntimeError := by
  rcases nxTopologicalSort_total hnd hE with ⟨o, h1, _, _⟩ | ⟨h1, _⟩ <;> rw [h1] <;> intro h <;> cases h

/-- `list(topological_sort(G))` is the concatenation of `list(topological_generations(G))` -/
theorem nxTopologicalSort_eq_flatten (nodes : List α) (E : List (α × α)) :
    nxTopologicalSort nodes E = (nxTopologicalGenerations nodes E).map List.flatten := by
  unfold nxTopologicalSort nxTopologicalGenerations topologicalSortRun Run.toExcept
  simp only
  split <;> rfl

/-- **`topological_generations`**: generations whose concatenation is a linear extension on an acyclic graph,
    `NetworkXUnfeasible` on a cyclic one, nothing else -/
theorem nxTopologicalGenerations_valid {nodes : List α} {E : List (α × α)} (hnd : nodes.Nodup)
    (hE : ∀ e ∈ E, e.1 ∈ nodes ∧ e.2 ∈ nodes) :
    (∃ gs, nxTopologicalGenerations nodes E = .ok gs ∧ isTopoOrder E nodes gs.flatten = true ∧ Acyclic (Rel E)) ∨
    (nxTopologicalGenerations nodes E = .error .NetworkXUnfeasible ∧ ¬ Acyclic (Rel E)) := by
  unfold nxTopologicalGenerations Run.toExcept
  rcases topologicalGenerationsRun_spec hnd hE with ⟨h1, h2⟩ | ⟨h1, h2⟩
  · left
    exact ⟨_, by simp only [h1], (isTopoOrder_iff E nodes _).mpr h2, linExt_acyclic hE h2⟩
  · right
    exact ⟨by simp only [h1], h2⟩

/-! ### `is_directed_acyclic_graph` -/

/-- `has_cycle` / `is_directed_acyclic_graph` never propagate an exception and decide acyclicity -/
theorem nxIsDag_total {nodes : List α} {E : List (α × α)} (hnd : nodes.Nodup)
    (hE : ∀ e ∈ E, e.1 ∈ nodes ∧ e.2 ∈ nodes) :
    (nxIsDirectedAcyclicGraph nodes E = .ok true ∧ Acyclic (Rel E)) ∨
    (nxIsDirectedAcyclicGraph nodes E = .ok false ∧ ¬ Acyclic (Rel E)) := by
  unfold nxIsDirectedAcyclicGraph nxHasCycle topologicalSortRun
  rcases topologicalGenerationsRun_spec hnd hE with ⟨h1, h2⟩ | ⟨h1, h2⟩
  · left
    simp only [h1]
    exact ⟨rfl, linExt_acyclic hE h2⟩
  · right
    simp only [h1]
    exact ⟨rfl, h2⟩

/-- (a) **`networkx.is_directed_acyclic_graph(G)` is `True` exactly when the edge relation has no cycle** -/
theorem nxIsDag_iff {nodes : List α} {E : List (α × α)} (hnd : nodes.Nodup)
    (hE : ∀ e ∈ E, e.1 ∈ nodes ∧ e.2 ∈ nodes) :
    nxIsDirectedAcyclicGraph nodes E = .ok true ↔ Acyclic (Rel E) := by
  rcases nxIsDag_total hnd hE with ⟨h1, h2⟩ | ⟨h1, h2⟩
  · rw [h1]; exact ⟨fun _ => h2, fun _ => rfl⟩
  · rw [h1]; exact ⟨fun h => (nomatch h), fun h => absurd h h2⟩

/-- (a) the bridge to the Boolean the models of `is_dag` / `d_separated` use -/
theorem nxIsDag_eq_acyclicB {nodes : List α} {E : List (α × α)} (hnd : nodes.Nodup)
    (hE : ∀ e ∈ E, e.1 ∈ nodes ∧ e.2 ∈ nodes) :
    nxIsDirectedAcyclicGraph nodes E = .ok (CG.DSepDec.acyclicB E) := by
  rcases nxIsDag_total hnd hE with ⟨h1, h2⟩ | ⟨h1, h2⟩
  · rw [h1, (CG.DSepDec.acyclicB_iff E).mpr h2]
  · rw [h1]
    have : CG.DSepDec.acyclicB E = false := by
      cases h : CG.DSepDec.acyclicB E with
      | false => rfl
      | true => exact absurd ((CG.DSepDec.acyclicB_iff E).mp h) h2
    rw [this]

/-! ### `lexicographical_topological_sort` -/

theorem lexInit_ready {nodes : List α} (E : List (α × α)) (key : α → Int) (hnd : nodes.Nodup) :
    ReadyOK nodes E [] (((zeroIndegree nodes E).map (createTuple nodes key)).map (fun e => e.2.2)) ∧
    HeapOK nodes key ((zeroIndegree nodes E).map (createTuple nodes key)) := by
  have := pushAll_nodes nodes key [] (zeroIndegree nodes E)
  simp only [pushAll, List.nil_append, List.map_nil] at this
  rw [this]
  refine ⟨readyOK_init E hnd, ?_⟩
  intro e he
  obtain ⟨c, _, rfl⟩ := List.mem_map.mp he
  rfl

/-- `lexicographical_topological_sort`: a list or `NetworkXUnfeasible`, decided by acyclicity; the list is a linear
    extension -/
theorem nxLexTopo_total {nodes : List α} {E : List (α × α)} (key : α → Int) (hnd : nodes.Nodup)
    (hE : ∀ e ∈ E, e.1 ∈ nodes ∧ e.2 ∈ nodes) :
    (∃ o, nxLexTopo nodes E key = .ok o ∧ LinExt E nodes o ∧ Acyclic (Rel E)) ∨
    (nxLexTopo nodes E key = .error .NetworkXUnfeasible ∧ ¬ Acyclic (Rel E)) := by
  obtain ⟨hr, hh⟩ := lexInit_ready E key hnd
  have := lexLoop_spec key hnd hE (indegreeMap nodes E) _ [] (mapOK_init E hnd) hr hh (doneOK_init nodes E)
  unfold nxLexTopo lexTopoRun Run.toExcept
  rcases this with ⟨h1, h2⟩ | ⟨h1, h2⟩
  · left
    simp only [List.nil_append] at h2
    exact ⟨_, by simp only [h1], h2, linExt_acyclic hE h2⟩
  · right
    exact ⟨by simp only [h1], h2⟩

/-- (c) **`lexicographical_topological_sort` on an acyclic graph** returns a valid topological order, for every key -/
theorem nxLexTopo_valid {nodes : List α} {E : List (α × α)} (key : α → Int) (hnd : nodes.Nodup)
    (hE : ∀ e ∈ E, e.1 ∈ nodes ∧ e.2 ∈ nodes) (hac : Acyclic (Rel E)) :
    ∃ o, nxLexTopo nodes E key = .ok o ∧ isTopoOrder E nodes o = true := by
  rcases nxLexTopo_total key hnd hE with ⟨o, h1, h2, _⟩ | ⟨_, h2⟩
  · exact ⟨o, h1, (isTopoOrder_iff E nodes o).mpr h2⟩
  · exact absurd hac h2

/-- (c) it raises `NetworkXUnfeasible` exactly on cyclic graphs -/
theorem nxLexTopo_unfeasible_iff {nodes : List α} {E : List (α × α)} (key : α → Int) (hnd : nodes.Nodup)
    (hE : ∀ e ∈ E, e.1 ∈ nodes ∧ e.2 ∈ nodes) :
    nxLexTopo nodes E key = .error .NetworkXUnfeasible ↔ ¬ Acyclic (Rel E) := by
  rcases nxLexTopo_total key hnd hE with ⟨o, h1, _, h3⟩ | ⟨h1, h2⟩
  · rw [h1]; exact ⟨fun h => (nomatch h), fun h => absurd h3 h⟩
  · rw [h1]; exact ⟨fun _ => h2, fun _ => rfl⟩

/-- (c) **the default topological order of a time-series graph**: when no edge goes from a larger key to a smaller one
    (C13: lags never decrease along an edge) the order `lexicographical_topological_sort` returns is a valid topological
    order whose keys never decrease. -/
theorem nxLexTopo_sorted {nodes : List α} {E : List (α × α)} (key : α → Int) (hnd : nodes.Nodup)
    (hE : ∀ e ∈ E, e.1 ∈ nodes ∧ e.2 ∈ nodes) (hac : Acyclic (Rel E))
    (hmono : ∀ a b, Rel E a b → key a ≤ key b) :
    ∃ o, nxLexTopo nodes E key = .ok o ∧ isTopoOrder E nodes o = true ∧ lagsSorted key o = true := by
  obtain ⟨o, h1, h2⟩ := nxLexTopo_valid key hnd hE hac
  refine ⟨o, h1, h2, ?_⟩
  obtain ⟨hr, hh⟩ := lexInit_ready E key hnd
  have := (lexLoop_sorted key hE hac hmono (indegreeMap nodes E) _ [] (mapOK_init E hnd) hr hh (doneOK_init nodes E)).2
  have ho : o = (lexTopoRun nodes E key).1 := by
    unfold nxLexTopo Run.toExcept at h1
    split at h1
    · cases h1; rfl
    · cases h1
  rw [lagsSorted_iff, ho]
  exact this

/-- (c) **order-exact bridge to the definitional model**: `lexicographical_topological_sort(G, key)` returns the very
    list `CG.Topo.kahnByLag` computes (Kahn's algorithm that always removes the first node of least key among the
    available ones, in node order), and raises `NetworkXUnfeasible` exactly when `kahnByLag` gives up.  No acyclicity
    hypothesis. -/
theorem nxLexTopo_eq_kahnByLag {nodes : List α} {E : List (α × α)} (key : α → Int) (hnd : nodes.Nodup)
    (hE : ∀ e ∈ E, e.1 ∈ nodes ∧ e.2 ∈ nodes) :
    nxLexTopo nodes E key =
      match CG.Topo.kahnByLag E key nodes with
      | some o => .ok o
      | none => .error .NetworkXUnfeasible := by
  obtain ⟨hr, hh⟩ := lexInit_ready E key hnd
  have hrem : remOf nodes [] = nodes := by unfold remOf; simp
  have := lexLoop_eq_kahnAux key hnd hE (indegreeMap nodes E) _ [] nodes.length (mapOK_init E hnd) hr hh
    (doneOK_init nodes E) (by rw [hrem]; exact Nat.le_refl _)
  rw [hrem] at this
  unfold CG.Topo.kahnByLag
  rw [this]
  have hspec := lexLoop_spec key hnd hE (indegreeMap nodes E) _ [] (mapOK_init E hnd) hr hh (doneOK_init nodes E)
  unfold nxLexTopo lexTopoRun Run.toExcept runOpt
  rcases hspec with ⟨h1, _⟩ | ⟨h1, _⟩ <;> simp only [h1]

/-! ### `all_topological_sorts` -/

/-- the run of `all_topological_sorts` on an acyclic graph: it ends normally (no `assert` fires, no `KeyError`, no
    `IndexError`, the budget is not exhausted) and has yielded the search tree `enumLevel` in order -/
theorem allTopoRun_acyclic {nodes : List α} {E : List (α × α)} (hnd : nodes.Nodup)
    (hE : ∀ e ∈ E, e.1 ∈ nodes ∧ e.2 ∈ nodes) (hac : Acyclic (Rel E)) :
    allTopoRun nodes E = (enumLevel E nodes.length [] (zeroIndegree nodes E).reverse, none) := by
  obtain ⟨t, c', ht, _, hsim⟩ := level_sim hnd hE hac nodes.length [] (zeroIndegree nodes E).reverse []
    (nodes.map (fun v => (v, (inDegree E v : Int)))) (fresh_init E hnd) (countOK_init nodes E) rfl
  have e1 : allFuel nodes.length + 1 = (allFuel nodes.length + 1 - t) + t := by omega
  unfold allTopoRun allInit
  rw [e1]
  have := hsim (allFuel nodes.length + 1 - t) []
  simp only [List.reverse_nil] at this
  rw [this]
  simp [resume, cleanup]

/-- the run of `all_topological_sorts` on a cyclic graph: `NetworkXUnfeasible` before anything is yielded -/
theorem allTopoRun_cyclic {nodes : List α} {E : List (α × α)} (hnd : nodes.Nodup)
    (hE : ∀ e ∈ E, e.1 ∈ nodes ∧ e.2 ∈ nodes) (hcyc : ¬ Acyclic (Rel E)) :
    allTopoRun nodes E = ([], some .NetworkXUnfeasible) := by
  obtain ⟨t, ht, hrun⟩ := descend_cyclic hnd hE hcyc nodes.length [] (zeroIndegree nodes E).reverse []
    (nodes.map (fun v => (v, (inDegree E v : Int)))) (fresh_init E hnd) (countOK_init nodes E) rfl
  have := le_allFuel nodes.length
  have e1 : allFuel nodes.length + 1 = (allFuel nodes.length + 1 - t) + t := by omega
  unfold allTopoRun allInit
  rw [e1]
  have := hrun (allFuel nodes.length + 1 - t) []
  simp only [List.reverse_nil] at this
  rw [this]

/-- (d) **`all_topological_sorts` returns exactly the linear extensions, each once** (as a set: `CG.Topo.allTopo`) -/
theorem nxAllTopo_eq {nodes : List α} {E : List (α × α)} (hnd : nodes.Nodup)
    (hE : ∀ e ∈ E, e.1 ∈ nodes ∧ e.2 ∈ nodes) (hac : Acyclic (Rel E)) :
    ∃ os, nxAllTopologicalSorts nodes E = .ok os ∧ os.Nodup ∧ ∀ o, o ∈ os ↔ o ∈ CG.Topo.allTopo E nodes := by
  obtain ⟨h1, h2⟩ := enumLevel_spec hnd hE nodes.length [] _ (fresh_init E hnd)
  refine ⟨_, by unfold nxAllTopologicalSorts Run.toExcept; rw [allTopoRun_acyclic hnd hE hac], h2, ?_⟩
  intro o
  rw [h1 o, allTopo_iff E nodes hnd o]
  exact ⟨fun h => h.1, fun h => ⟨h, List.nil_prefix⟩⟩

/-- (d) the same as a permutation: the list networkx returns is a rearrangement of the definitional enumeration (which
    lists nothing twice either), so in particular the two have the same length -/
theorem nxAllTopo_perm {nodes : List α} {E : List (α × α)} (hnd : nodes.Nodup)
    (hE : ∀ e ∈ E, e.1 ∈ nodes ∧ e.2 ∈ nodes) (hac : Acyclic (Rel E)) :
    ∃ os, nxAllTopologicalSorts nodes E = .ok os ∧ os.Perm (CG.Topo.allTopo E nodes) := by
  obtain ⟨os, h1, h2, h3⟩ := nxAllTopo_eq hnd hE hac
  exact ⟨os, h1, (List.perm_ext_iff_of_nodup h2 (allTopo_nodup E hnd)).mpr h3⟩

/-- (d) every list it returns is a valid topological order, and every valid topological order is returned -/
theorem nxAllTopo_mem_iff {nodes : List α} {E : List (α × α)} (hnd : nodes.Nodup)
    (hE : ∀ e ∈ E, e.1 ∈ nodes ∧ e.2 ∈ nodes) (hac : Acyclic (Rel E)) :
    ∃ os, nxAllTopologicalSorts nodes E = .ok os ∧ os.Nodup ∧ os ≠ [] ∧
      ∀ o, o ∈ os ↔ isTopoOrder E nodes o = true := by
  obtain ⟨os, h1, h2, h3⟩ := nxAllTopo_eq hnd hE hac
  refine ⟨os, h1, h2, ?_, ?_⟩
  · obtain ⟨o, ho⟩ := exists_linExt E nodes hnd hac
    intro h
    have := (h3 o).mpr ((allTopo_iff E nodes hnd o).mpr ho)
    rw [h] at this; simp at this
  · intro o
    rw [h3 o, allTopo_iff E nodes hnd o, isTopoOrder_iff]

/-- (d) it raises `NetworkXUnfeasible` exactly on cyclic graphs -/
theorem nxAllTopo_unfeasible_iff {nodes : List α} {E : List (α × α)} (hnd : nodes.Nodup)
    (hE : ∀ e ∈ E, e.1 ∈ nodes ∧ e.2 ∈ nodes) :
    nxAllTopologicalSorts nodes E = .error .NetworkXUnfeasible ↔ ¬ Acyclic (Rel E) := by
  unfold nxAllTopologicalSorts Run.toExcept
  by_cases hac : Acyclic (Rel E)
  · rw [allTopoRun_acyclic hnd hE hac]
    exact ⟨fun h => (nomatch h), fun h => absurd hac h⟩
  · rw [allTopoRun_cyclic hnd hE hac]
    exact ⟨fun _ => hac, fun _ => rfl⟩

/-- the generator yields nothing before it raises (`list(...)` loses nothing) and nothing else can end the run -/
theorem nxAllTopo_total {nodes : List α} {E : List (α × α)} (hnd : nodes.Nodup)
    (hE : ∀ e ∈ E, e.1 ∈ nodes ∧ e.2 ∈ nodes) :
    (allTopoRun nodes E).2 = none ∨ allTopoRun nodes E = ([], some .NetworkXUnfeasible) := by
  by_cases hac : Acyclic (Rel E)
  · left; rw [allTopoRun_acyclic hnd hE hac]
  · right; exact allTopoRun_cyclic hnd hE hac

/-! ### non-vacuity: a 5-node DAG (diamond with a tail), nodes and edges in a shuffled order -/

example : nxTopologicalSort ["e", "d", "c", "b", "a"] [("a", "c"), ("a", "b"), ("b", "d"), ("c", "d"), ("d", "e")]
      = .ok ["a", "c", "b", "d", "e"] ∧
    nxTopologicalGenerations ["e", "d", "c", "b", "a"] [("a", "c"), ("a", "b"), ("b", "d"), ("c", "d"), ("d", "e")]
      = .ok [["a"], ["c", "b"], ["d"], ["e"]] ∧
    nxIsDirectedAcyclicGraph ["e", "d", "c", "b", "a"] [("a", "c"), ("a", "b"), ("b", "d"), ("c", "d"), ("d", "e")]
      = .ok true ∧
    nxLexTopo ["e", "d", "c", "b", "a"] [("a", "c"), ("a", "b"), ("b", "d"), ("c", "d"), ("d", "e")]
      (fun v => if v = "c" then 1 else 0) = .ok ["a", "b", "c", "d", "e"] ∧
    ["e", "d", "c", "b", "a"].Nodup ∧
    (∀ e ∈ [("a", "c"), ("a", "b"), ("b", "d"), ("c", "d"), ("d", "e")],
      e.1 ∈ ["e", "d", "c", "b", "a"] ∧ e.2 ∈ ["e", "d", "c", "b", "a"]) ∧
    CG.DSepDec.acyclicB [("a", "c"), ("a", "b"), ("b", "d"), ("c", "d"), ("d", "e")] = true := by
  decide +kernel

example : nxAllTopologicalSorts ["e", "d", "c", "b", "a"] [("a", "c"), ("a", "b"), ("b", "d"), ("c", "d"), ("d", "e")]
      = .ok [["a", "b", "c", "d", "e"], ["a", "c", "b", "d", "e"]] ∧
    nxAllTopologicalSorts [1, 2, 3] [(1, 2), (2, 3), (3, 2)] = .error .NetworkXUnfeasible ∧
    nxAllTopologicalSorts [1, 2, 3] [(3, 1)] = .ok [[3, 1, 2], [3, 2, 1], [2, 3, 1]] := by
  decide +kernel

-- a cycle behind a source: `NetworkXUnfeasible`, `is_directed_acyclic_graph` is `False`
example : nxTopologicalSort [1, 2, 3] [(1, 2), (2, 3), (3, 2)] = .error .NetworkXUnfeasible ∧
    nxIsDirectedAcyclicGraph [1, 2, 3] [(1, 2), (2, 3), (3, 2)] = .ok false ∧
    nxLexTopo [1, 2, 3] [(1, 2), (2, 3), (3, 2)] (fun _ => 0) = .error .NetworkXUnfeasible ∧
    nxIsDirectedAcyclicGraph [1] [(1, 1)] = .ok false := by
  decide +kernel

end CG.NxTopoProofs
