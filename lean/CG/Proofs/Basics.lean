/-
First facts about the reference model that hold by construction; the substantial theorems live in
`WFStep.lean`, `C03.lean`, `C01Views.lean`.
-/
import CG.Model.Step

namespace CG
open EL

/-- the definitional cycle test of the model is exact: `n` has a successor that reaches `n` iff `n` lies on a
    directed cycle -/
theorem selfDepR_iff (E : List (String × String)) (n : String) :
    selfDepR E n = true ↔ TC (Rel E) n n := by
  unfold selfDepR
  simp only [List.any_eq_true, decide_eq_true_eq]
  constructor
  · rintro ⟨m, hm, hr⟩
    exact TC.of_step_rtc (mem_succs.mp hm) ((mem_reach_iff E m n).mp hr)
  · intro h
    obtain ⟨m, h1, h2⟩ := TC.split h
    exact ⟨m, mem_succs.mpr h1, (mem_reach_iff E m n).mpr h2⟩

/-- a rejected call of the reference model changes nothing (single-element mutators) -/
theorem lift_error_unchanged (g : Graph) (r : Except Err Graph) (e : Err) (h : (lift g r).2 = some e) :
    (lift g r).1 = g := by
  cases r with
  | ok g' => simp [lift] at h
  | error e' => simp [lift]

theorem failed_stepRef_unchanged (g : Graph) (op : Op) (hs : op.single = true) (e : Err)
    (h : (stepRef g op).2 = some e) : (stepRef g op).1 = g := by
  cases op <;> simp only [Op.single] at hs <;> first
    | exact lift_error_unchanged _ _ _ h
    | (simp only [stepRef, step] at h ⊢; exact lift_error_unchanged _ _ _ h)
    | cases hs

end CG
