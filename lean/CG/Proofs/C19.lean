/-
C19 — `identify_instruments`, `identify_mediators` (the latter as repaired: defects D13, D16).

Mediators, for a DAG `E`, `s ≠ t`, and a call that does not raise (`= .ok L`):
* `mediators_eq`  `m ∈ L` iff `t` is not an ancestor of `s`, a directed `s–t` path with at least two edges exists,
  `m` lies strictly inside every such path, and no confounder of `(s, t)` (as `identifyConfounders` reports them)
  reaches `m` in the graph without the edges leaving `s`.  The right-hand side does not mention any iteration order.
* `mediators_error_iff`  the only error is the `max_num_paths` `ValueError`, raised exactly when `t` is not an ancestor of
  `s`, there is a path and the index of the last path exceeds `max_num_paths`.
* `mediators_empty_when_reversed`.
Instruments (`= .ok L`, `i ∈ L`):
* `instruments_ancestor` (strict ancestor of the source), `instruments_ne_destination`,
  `instruments_no_direct` (every directed `i–t` path passes through `s`), `instruments_no_confounder`
  (`identifyConfounders i t = []`), `instruments_unrelated_to_confounders`, `instruments_empty_when_reversed`,
  `instruments_error_iff`.
* `instruments_dsep` proves the full graphical criterion `instruments_dsep_statement`: every instrument is d-separated
  from the destination (empty conditioning set) in the graph without the edges leaving the source.  The proof rests on
  `CG.Ident.confounders_nonempty`: on a DAG the confounder search comes back empty only if the two nodes have no common
  ancestor in the graph without the edges leaving them.
-/
import CG.Model.Identify
import CG.Model.DSep
import CG.Proofs.Lemmas.IdentBasic
import CG.Proofs.Lemmas.IdentSearch
import CG.Proofs.Lemmas.IdentTrek
set_option linter.unusedSectionVars false
set_option linter.unusedSimpArgs false
set_option linter.unusedVariables false

namespace CG.C19
open CG.EL CG.Ident CG.Paths

/-- a simple directed path from `a` to `b` with vertex list `p` -/
def DPath (E : Edges) (a b : String) (p : List String) : Prop := Walk E a b p ∧ p.Nodup

/-- the graph without the edges leaving `s` -/
def cutOut (E : Edges) (s : String) : Edges := E.filter (fun e => decide (e.1 ≠ s))

/-! ### mediators -/

/-- **C19 (mediators).** -/
theorem mediators_eq (nodes : List String) (E : Edges) (s t : String) (maxP : Int) (L : List String)
    (hA : Acyclic (Rel E)) (hV : ∀ e ∈ E, e.1 ∈ nodes ∧ e.2 ∈ nodes) (hst : s ≠ t)
    (h : identifyMediators nodes E s t maxP = .ok L) (m : String) :
    m ∈ L ↔
      (¬ TC (Rel E) t s) ∧
      (∃ p, DPath E s t p ∧ 3 ≤ p.length) ∧
      (∀ p, DPath E s t p → 3 ≤ p.length → m ∈ p ∧ m ≠ s ∧ m ≠ t) ∧
      (∀ c ∈ identifyConfounders nodes E s t, ¬ TC (Rel (cutOut E s)) c m) := by
  have hanc : t ∈ ancestors E s ↔ TC (Rel E) t s := mem_ancestors_of_ne (Ne.symm hst)
  have hpath : ∀ p, (p ∈ allPaths nodes E s t ∧ 2 < p.length) ↔ (DPath E s t p ∧ 3 ≤ p.length) := by
    intro p
    rw [mem_allPaths hV]
    unfold DPath
    constructor
    · rintro ⟨⟨_, h1, h2⟩, h3⟩; exact ⟨⟨h1, h2⟩, h3⟩
    · rintro ⟨⟨h1, h2⟩, h3⟩; exact ⟨⟨hst, h1, h2⟩, h3⟩
  unfold identifyMediators at h
  by_cases h1 : t ∈ ancestors E s
  · simp only [h1, if_true, Except.ok.injEq] at h
    subst h
    simp only [List.not_mem_nil, false_iff, not_and]
    intro h2; exact absurd (hanc.mp h1) h2
  · simp only [h1, if_false] at h
    split at h
    · cases h
    · split at h
      · rename_i hlong
        simp only [Except.ok.injEq] at h
        subst h
        simp only [List.not_mem_nil, false_iff, not_and]
        intro _ ⟨p, hp⟩
        have := (hpath p).mpr hp
        have hmem : p ∈ (allPaths nodes E s t).filter (fun p => decide (p.length > 2)) := by
          simp only [List.mem_filter, decide_eq_true_eq]; exact this
        rw [List.isEmpty_iff] at hlong
        rw [hlong] at hmem
        cases hmem
      · rename_i hlong
        simp only [Except.ok.injEq] at h
        subst h
        have hne : ((allPaths nodes E s t).filter (fun p => decide (p.length > 2))).map (strip s t) ≠ [] := by
          intro h0
          rw [List.map_eq_nil_iff] at h0
          exact hlong (by rw [h0]; rfl)
        have hApr : Acyclic (Rel (cutOut E s)) := acyclic_filter _ hA
        have hinter : ∀ m, m ∈ interAll (((allPaths nodes E s t).filter (fun p => decide (p.length > 2))).map (strip s t)) ↔
            ∀ p, DPath E s t p → 3 ≤ p.length → m ∈ p ∧ m ≠ s ∧ m ≠ t := by
          intro m
          rw [mem_interAll hne]
          constructor
          · intro hq p hp hlen
            have h2 := (hpath p).mpr ⟨hp, hlen⟩
            have h3 : p ∈ (allPaths nodes E s t).filter (fun p => decide (p.length > 2)) := by
              simp only [List.mem_filter, decide_eq_true_eq]; exact h2
            have h4 := hq _ (List.mem_map_of_mem h3)
            simpa [strip] using h4
          · intro hq q hq'
            obtain ⟨p, hp, rfl⟩ := List.mem_map.mp hq'
            simp only [List.mem_filter, decide_eq_true_eq] at hp
            have h2 := (hpath p).mp hp
            have h3 := hq p h2.1 h2.2
            simpa [strip] using h3
        rw [List.mem_filter, hinter]
        simp only [List.all_eq_true, decide_eq_true_eq]
        constructor
        · rintro ⟨hin, hconf⟩
          refine ⟨fun h2 => h1 (hanc.mpr h2), ?_, hin, ?_⟩
          · cases hl : (allPaths nodes E s t).filter (fun p => decide (p.length > 2)) with
            | nil => exact absurd (by rw [hl]; rfl) hlong
            | cons p _ =>
              have : p ∈ (allPaths nodes E s t).filter (fun p => decide (p.length > 2)) := by rw [hl]; simp
              simp only [List.mem_filter, decide_eq_true_eq] at this
              exact ⟨p, (hpath p).mp this⟩
          · intro c hc htc
            exact hconf c hc ((mem_descendants_tc hApr).mpr htc)
        · rintro ⟨_, _, hin, hconf⟩
          refine ⟨hin, ?_⟩
          intro c hc hd
          exact hconf c hc ((mem_descendants_tc hApr).mp hd)

/-- the only error is the `max_num_paths` `ValueError` -/
theorem mediators_error_iff (nodes : List String) (E : Edges) (s t : String) (maxP : Int) (e : Err) (hst : s ≠ t) :
    identifyMediators nodes E s t maxP = .error e ↔
      e = .valueError ∧ ¬ TC (Rel E) t s ∧ allPaths nodes E s t ≠ [] ∧
        ((allPaths nodes E s t).length : Int) - 1 > maxP := by
  have hanc : t ∈ ancestors E s ↔ TC (Rel E) t s := mem_ancestors_of_ne (Ne.symm hst)
  unfold identifyMediators
  by_cases h1 : t ∈ ancestors E s
  · simp only [h1, if_true]
    constructor
    · intro h; cases h
    · rintro ⟨_, h2, _⟩; exact absurd (hanc.mp h1) h2
  · simp only [h1, if_false]
    split
    · rename_i h2
      constructor
      · intro h; cases h; exact ⟨rfl, fun h3 => h1 (hanc.mpr h3), h2.1, h2.2⟩
      · rintro ⟨rfl, _⟩; rfl
    · rename_i h2
      constructor
      · intro h; split at h <;> cases h
      · rintro ⟨_, _, h3, h4⟩; exact absurd ⟨h3, h4⟩ h2

/-- **C19.** Nothing is returned when the destination is an ancestor of the source. -/
theorem mediators_empty_when_reversed (nodes : List String) (E : Edges) (s t : String) (maxP : Int)
    (h : TC (Rel E) t s) (hst : s ≠ t) : identifyMediators nodes E s t maxP = .ok [] := by
  have : t ∈ ancestors E s := (mem_ancestors_of_ne (Ne.symm hst)).mpr h
  simp [identifyMediators, this]

/-! ### instruments -/

/-- transcription: membership in a successful answer -/
theorem instruments_mem_iff (nodes : List String) (E : Edges) (s t : String) (maxP : Int) (L : List String)
    (h : identifyInstruments nodes E s t maxP = .ok L) (i : String) :
    i ∈ L ↔ t ∉ ancestors E s ∧ i ∈ ancestors E s ∧ i ∉ identifyConfounders nodes E s t ∧
      (∀ c ∈ identifyConfounders nodes E s t, i ∉ descendants E c ∧ i ∉ ancestors E c) ∧
      (∀ p ∈ allPaths nodes E i t, s ∈ p) ∧ identifyConfounders nodes E i t = [] := by
  unfold identifyInstruments at h
  by_cases h1 : t ∈ ancestors E s
  · simp only [h1, if_true, Except.ok.injEq] at h
    subst h
    simp [h1]
  · simp only [h1, if_false] at h
    split at h
    · cases h
    · simp only [Except.ok.injEq] at h
      subst h
      simp only [List.mem_filter, List.all_eq_true, decide_eq_true_eq, Bool.and_eq_true, List.isEmpty_iff, h1,
        not_false_eq_true, true_and]
      constructor
      · rintro ⟨⟨⟨⟨a, b⟩, c⟩, d⟩, e⟩; exact ⟨a, b, c, d, e⟩
      · rintro ⟨a, b, c, d, e⟩; exact ⟨⟨⟨⟨a, b⟩, c⟩, d⟩, e⟩

/-- **C19 (instruments).** Every instrument is a strict ancestor of the source. -/
theorem instruments_ancestor (nodes : List String) (E : Edges) (s t : String) (maxP : Int) (L : List String)
    (h : identifyInstruments nodes E s t maxP = .ok L) (i : String) (hi : i ∈ L) : TC (Rel E) i s := by
  obtain ⟨_, h2, _⟩ := (instruments_mem_iff nodes E s t maxP L h i).mp hi
  obtain ⟨hne, hr⟩ := mem_ancestors.mp h2
  rcases hr.cases_tc with rfl | h3
  · exact absurd rfl hne
  · exact h3

/-- an instrument is never the destination (so the inner `identify_confounders(graph, candidate, destination)` call
    cannot be refused for equal nodes) -/
theorem instruments_ne_destination (nodes : List String) (E : Edges) (s t : String) (maxP : Int) (L : List String)
    (h : identifyInstruments nodes E s t maxP = .ok L) (i : String) (hi : i ∈ L) : i ≠ t := by
  obtain ⟨h1, h2, _⟩ := (instruments_mem_iff nodes E s t maxP L h i).mp hi
  intro hit; subst hit; exact h1 h2

/-- **C19 (instruments).** Every directed path from an instrument to the destination passes through the source. -/
theorem instruments_no_direct (nodes : List String) (E : Edges) (s t : String) (maxP : Int) (L : List String)
    (hV : ∀ e ∈ E, e.1 ∈ nodes ∧ e.2 ∈ nodes)
    (h : identifyInstruments nodes E s t maxP = .ok L) (i : String) (hi : i ∈ L) :
    ∀ p, DPath E i t p → s ∈ p := by
  intro p hp
  obtain ⟨_, _, _, _, h5, _⟩ := (instruments_mem_iff nodes E s t maxP L h i).mp hi
  exact h5 p ((mem_allPaths hV).mpr ⟨instruments_ne_destination nodes E s t maxP L h i hi, hp.1, hp.2⟩)

/-- **C19 (instruments).** The confounder search between an instrument and the destination comes back empty. -/
theorem instruments_no_confounder (nodes : List String) (E : Edges) (s t : String) (maxP : Int) (L : List String)
    (h : identifyInstruments nodes E s t maxP = .ok L) (i : String) (hi : i ∈ L) :
    identifyConfounders nodes E i t = [] :=
  ((instruments_mem_iff nodes E s t maxP L h i).mp hi).2.2.2.2.2

/-- an instrument is neither a confounder of `(s, t)` nor an ancestor or descendant of one -/
theorem instruments_unrelated_to_confounders (nodes : List String) (E : Edges) (s t : String) (maxP : Int)
    (L : List String) (hA : Acyclic (Rel E)) (h : identifyInstruments nodes E s t maxP = .ok L) (i : String)
    (hi : i ∈ L) : ∀ c ∈ identifyConfounders nodes E s t, i ≠ c ∧ ¬ TC (Rel E) c i ∧ ¬ TC (Rel E) i c := by
  intro c hc
  obtain ⟨_, _, h3, h4, _⟩ := (instruments_mem_iff nodes E s t maxP L h i).mp hi
  refine ⟨fun hic => h3 (hic ▸ hc), ?_, ?_⟩
  · intro h5; exact (h4 c hc).1 ((mem_descendants_tc hA).mpr h5)
  · intro h5; exact (h4 c hc).2 ((mem_ancestors_tc hA).mpr h5)

/-- **C19.** Nothing is returned when the destination is an ancestor of the source. -/
theorem instruments_empty_when_reversed (nodes : List String) (E : Edges) (s t : String) (maxP : Int)
    (h : TC (Rel E) t s) (hst : s ≠ t) : identifyInstruments nodes E s t maxP = .ok [] := by
  have : t ∈ ancestors E s := (mem_ancestors_of_ne (Ne.symm hst)).mpr h
  simp [identifyInstruments, this]

/-- the only error is the `max_num_paths` `ValueError`: some candidate that survived the confounder-relative filter
    has more than `max_num_paths + 1` paths to the destination before the first one that avoids the source -/
theorem instruments_error_iff (nodes : List String) (E : Edges) (s t : String) (maxP : Int) (e : Err) :
    identifyInstruments nodes E s t maxP = .error e ↔
      e = .valueError ∧ t ∉ ancestors E s ∧
        ∃ i ∈ ancestors E s, i ∉ identifyConfounders nodes E s t ∧
          (∀ c ∈ identifyConfounders nodes E s t, i ∉ descendants E c ∧ i ∉ ancestors E c) ∧
          overflow s maxP 0 (allPaths nodes E i t) = true := by
  unfold identifyInstruments
  by_cases h1 : t ∈ ancestors E s
  · simp only [h1, if_true]
    constructor
    · intro h; cases h
    · rintro ⟨_, h2, _⟩; exact absurd trivial h2
  · simp only [h1, if_false, not_false_eq_true, true_and]
    split
    · rename_i h2
      simp only [List.any_eq_true, List.mem_filter, List.all_eq_true, decide_eq_true_eq, Bool.and_eq_true] at h2
      obtain ⟨i, ⟨⟨a, b⟩, c⟩, d⟩ := h2
      constructor
      · intro h; cases h; exact ⟨rfl, i, a, b, c, d⟩
      · rintro ⟨rfl, _⟩; rfl
    · rename_i h2
      simp only [List.any_eq_true, List.mem_filter, List.all_eq_true, decide_eq_true_eq, Bool.and_eq_true] at h2
      constructor
      · intro h; cases h
      · rintro ⟨_, i, a, b, c, d⟩; exact absurd ⟨i, ⟨⟨a, b⟩, c⟩, d⟩ h2

/-! ### `overflow`: what the scan computes -/

/-- no error when the number of paths is within the bound -/
theorem overflow_false_of_length (s : String) (maxP : Int) : ∀ (ps : List (List String)) (k : Nat),
    ((k + ps.length : Nat) : Int) ≤ maxP + 1 → overflow s maxP k ps = false := by
  intro ps
  induction ps with
  | nil => intro k _; rfl
  | cons p rest ih =>
    intro k hk
    simp only [overflow]
    have h1 : ¬ ((k : Int) > maxP) := by simp only [List.length_cons] at hk; omega
    simp only [h1, if_false]
    split
    · rfl
    · exact ih (k + 1) (by simp only [List.length_cons] at hk; omega)

/-- **The full graphical criterion** for instruments: d-separated from the destination once the edges leaving the source
    are removed. -/
def instruments_dsep_statement : Prop :=
  ∀ (nodes : List String) (E : Edges) (s t : String) (maxP : Int) (L : List String),
    Acyclic (Rel E) → (∀ e ∈ E, e.1 ∈ nodes ∧ e.2 ∈ nodes) → s ≠ t →
    identifyInstruments nodes E s t maxP = .ok L →
    ∀ i ∈ L, CG.DSepDec.DSep (cutOut E s) i t []

/-- **C19 (instruments, d-separation).** -/
theorem instruments_dsep : instruments_dsep_statement := by
  intro nodes E s t maxP L hA hV hst h i hi p hw hnd
  apply Classical.byContradiction
  intro hb
  obtain ⟨⟨r, hri, hrt⟩, _⟩ := unblocked_trek hw hb
  obtain ⟨h1, h2, _, _, h5, h6⟩ := (instruments_mem_iff nodes E s t maxP L h i).mp hi
  have hit : i ≠ t := instruments_ne_destination nodes E s t maxP L h i hi
  have his : TC (Rel E) i s := instruments_ancestor nodes E s t maxP L h i hi
  have hsub : ∀ a b, Rel (cutOut E s) a b → Rel E a b := fun a b hab => (rel_filter.mp hab).1
  have hsrc : ∀ a b, Rel (cutOut E s) a b → a ≠ s := by
    intro a b hab
    have := (rel_filter.mp hab).2
    simpa using this
  have hAG : Acyclic (Rel (cutOut E s)) := acyclic_filter _ hA
  -- the destination is not above the source
  have hts : ¬ TC (Rel E) t s := fun h' => h1 ((mem_ancestors_of_ne (Ne.symm hst)).mpr h')
  -- (X) no directed path from `i` to `t` survives the cut
  have hX : ¬ RTC (Rel (cutOut E s)) i t := by
    intro hr
    obtain ⟨q, hq⟩ := walk_of_rtc hr
    have hqE : Walk E i t q := walk_mono hsub hq
    have hs : s ∈ q := h5 q ((mem_allPaths hV).mpr ⟨hit, hqE, walk_nodup hA hqE⟩)
    obtain ⟨c, hc⟩ := walk_out_edge hq s hs hst
    exact hsrc s c hc rfl
  by_cases hr1 : r = i
  · subst hr1; exact hX hrt
  by_cases hr2 : r = t
  · subst hr2
    exact hts (tc_rtc_trans (rtc_mono hsub hri) his)
  have hri' : TC (Rel (cutOut E s)) r i := by
    rcases hri.cases_tc with h' | h'
    · exact absurd h' hr1
    · exact h'
  have hrt' : TC (Rel (cutOut E s)) r t := by
    rcases hrt.cases_tc with h' | h'
    · exact absurd h' hr2
    · exact h'
  -- both legs of the trek avoid the edges leaving `i` and `t`
  have leg1 : TC (Rel (prune E i t)) r i := by
    apply tc_transfer hri'
    intro v w hvw hw'
    refine rel_prune.mpr ⟨hsub _ _ hvw, tc_ne hAG (TC.of_step_rtc hvw hw'), ?_⟩
    intro hvt
    subst hvt
    exact hts (tc_trans (tc_mono hsub (TC.of_step_rtc hvw hw')) his)
  have leg2 : TC (Rel (prune E i t)) r t := by
    apply tc_transfer hrt'
    intro v w hvw hw'
    refine rel_prune.mpr ⟨hsub _ _ hvw, ?_, tc_ne hAG (TC.of_step_rtc hvw hw')⟩
    intro hvi
    subst hvi
    exact hX (TC.of_step_rtc hvw hw').toRTC
  obtain ⟨z, hz⟩ := confounders_nonempty nodes E i t r hA hV leg1 leg2
  rw [h6] at hz
  cases hz

/-! ### non-vacuity -/

def xNodes : List String := ["z", "u", "x", "m", "y"]
/-- the docstring examples of both functions in one graph: `z → x ← u → y`, `x → m → y`, `x → y` -/
def xEdges : Edges := [("z", "x"), ("u", "x"), ("u", "y"), ("x", "m"), ("m", "y"), ("x", "y")]

theorem xEdges_acyclic : Acyclic (Rel xEdges) := by
  rw [← acyclicB_iff]
  simp [acyclicB, xEdges, reach, go, succs]

example : identifyConfounders xNodes xEdges "x" "y" = ["u"] := by
  simp [identifyConfounders, confoundersOneSided, xNodes, xEdges, prune, preds, ancestors, reach, go, succs, rev]

example : identifyMediators xNodes xEdges "x" "y" 25 = .ok ["m"] := by
  simp [identifyMediators, identifyConfounders, confoundersOneSided, xNodes, xEdges, prune, preds, ancestors,
    descendants, reach, go, succs, rev, allPaths, CG.Paths.paths, interAll, strip]

/-- the docstring example of `identify_instruments`: `z → x ← u → y`, `x → y` -/
def iEdges : Edges := [("z", "x"), ("u", "x"), ("u", "y"), ("x", "y")]

example : identifyInstruments ["z", "u", "x", "y"] iEdges "x" "y" 25 = .ok ["z"] := by
  simp [identifyInstruments, identifyConfounders, confoundersOneSided, iEdges, prune, preds, ancestors,
    descendants, reach, go, succs, rev, allPaths, CG.Paths.paths, overflow]

theorem iEdges_acyclic : Acyclic (Rel iEdges) := by
  rw [← acyclicB_iff]
  simp [acyclicB, iEdges, reach, go, succs]

/-- `instruments_dsep` applies to the docstring example: `z ⟂ y` once `x → y` is cut -/
example : CG.DSepDec.DSep (cutOut iEdges "x") "z" "y" [] :=
  instruments_dsep ["z", "u", "x", "y"] iEdges "x" "y" 25 ["z"] iEdges_acyclic (by decide) (by decide)
    (by simp [identifyInstruments, identifyConfounders, confoundersOneSided, iEdges, prune, preds, ancestors,
      descendants, reach, go, succs, rev, allPaths, CG.Paths.paths, overflow]) "z" (by simp)

/-- `mediators_eq` applies to the docstring example (hypotheses hold, the answer is not empty) -/
example : Acyclic (Rel xEdges) ∧ (∀ e ∈ xEdges, e.1 ∈ xNodes ∧ e.2 ∈ xNodes) ∧ "x" ≠ "y" :=
  ⟨xEdges_acyclic, by decide, by decide⟩

end CG.C19
