/-
C18 — `identify_confounders`.

For every edge list `E` (a DAG where it matters) and nodes `x`, `y`:
* `confounders_subset`  every returned node is a strict common ancestor of `x` and `y`;
* `confounders_symm` / `confounderSet_symm`  the answer for `(x, y)` is the answer for `(y, x)`
  (as sets; as equal duplicate-free lists in node order);
* `confounders_empty_iff`  on a DAG the answer is empty exactly when `x` and `y` have no common strict ancestor in the
  graph without the edges leaving `x` and `y`;
* `inputs_refused` / `inputs_accepted`  `_verify_identify_inputs`: not a DAG ⇒ `TypeError`, then unknown node ⇒
  `NodeDoesNotExistError`, then `x = y` ⇒ `ValueError`, in this order; accepted exactly otherwise;
* sufficiency ("the returned set is a sufficient adjustment set", as the docstring promises) is FALSE (defect D12):
  `sufficiency_statement` is the claim, `sufficiency_false` refutes it at the six-edge witness
  `a→d, a→e, b→c, b→e, e→c, e→d`, pair `(c, d)`: the model returns exactly `{e}` (`witness_answer`) and conditioning
  on `e` opens the path `c ← b → e ← a → d` in the graph without the edges leaving `c`.
-/
import CG.Model.Identify
import CG.Model.DSep
import CG.Proofs.Lemmas.IdentBasic
import CG.Proofs.Lemmas.IdentSearch
set_option linter.unusedSectionVars false
set_option linter.unusedSimpArgs false
set_option linter.unusedVariables false

namespace CG.C18
open CG.EL CG.Ident

/-- every node found by the one-sided search is a strict ancestor of both nodes (in the graph it was given) -/
theorem oneSided_subset : ∀ (f : Nat) (E : Edges) (n1 n2 z : String),
    z ∈ confoundersOneSided f E n1 n2 → TC (Rel E) z n1 ∧ TC (Rel E) z n2 := by
  intro f
  induction f with
  | zero => intro E n1 n2 z h; simp [confoundersOneSided] at h
  | succ f ih =>
    intro E n1 n2 z h
    simp only [confoundersOneSided, List.mem_flatMap] at h
    obtain ⟨p, hp, hz⟩ := h
    have hsub : ∀ a b, Rel (prune E n1 n2) a b → Rel E a b := fun a b h => (rel_prune.mp h).1
    have hp1 : Rel E p n1 := hsub _ _ (mem_preds.mp hp)
    split at hz
    · rename_i hanc
      simp only [List.mem_singleton] at hz
      subst hz
      obtain ⟨hne, hr⟩ := mem_ancestors.mp hanc
      rcases hr.cases_tc with rfl | h1
      · exact absurd rfl hne
      · exact ⟨.single hp1, tc_mono hsub h1⟩
    · obtain ⟨h1, h2⟩ := ih _ _ _ _ hz
      exact ⟨.tail (tc_mono hsub h1) hp1, tc_mono hsub h2⟩

/-- **C18 (subset).** Every identified confounder is a strict ancestor of `x` and of `y`.
    (No hypothesis is needed; in particular it holds for every DAG and `x ≠ y`.) -/
theorem confounders_subset (nodes : List String) (E : Edges) (x y z : String)
    (h : z ∈ identifyConfounders nodes E x y) : TC (Rel E) z x ∧ TC (Rel E) z y := by
  unfold identifyConfounders at h
  exact oneSided_subset _ _ _ _ _ (List.mem_filter.mp h).1

/-- sharper form of `oneSided_subset`: the two directed paths avoid the edges leaving `n1` and `n2` -/
theorem oneSided_subset_pruned : ∀ (f : Nat) (E : Edges) (n1 n2 z : String),
    z ∈ confoundersOneSided f E n1 n2 → TC (Rel (prune E n1 n2)) z n1 ∧ TC (Rel (prune E n1 n2)) z n2 := by
  intro f
  induction f with
  | zero => intro E n1 n2 z h; simp [confoundersOneSided] at h
  | succ f ih =>
    intro E n1 n2 z h
    simp only [confoundersOneSided, List.mem_flatMap] at h
    obtain ⟨p, hp, hz⟩ := h
    have hp1 : Rel (prune E n1 n2) p n1 := mem_preds.mp hp
    split at hz
    · rename_i hanc
      simp only [List.mem_singleton] at hz
      subst hz
      obtain ⟨hne, hr⟩ := mem_ancestors.mp hanc
      rcases hr.cases_tc with rfl | h1
      · exact absurd rfl hne
      · exact ⟨.single hp1, h1⟩
    · obtain ⟨h1, h2⟩ := ih _ _ _ _ hz
      have hsub : ∀ a b, Rel (prune (prune E n1 n2) p n2) a b → Rel (prune E n1 n2) a b :=
        fun a b h => (rel_prune.mp h).1
      exact ⟨.tail (tc_mono hsub h1) hp1, tc_mono hsub h2⟩

/-- **C18 (emptiness).** On a DAG the search comes back empty exactly when the two nodes have no common strict ancestor
    in the graph without the edges leaving them. -/
theorem confounders_empty_iff (nodes : List String) (E : Edges) (x y : String) (hA : Acyclic (Rel E))
    (hV : ∀ e ∈ E, e.1 ∈ nodes ∧ e.2 ∈ nodes) :
    identifyConfounders nodes E x y = [] ↔
      ¬ ∃ r, TC (Rel (prune E x y)) r x ∧ TC (Rel (prune E x y)) r y := by
  constructor
  · intro h ⟨r, h1, h2⟩
    obtain ⟨z, hz⟩ := confounders_nonempty nodes E x y r hA hV h1 h2
    rw [h] at hz
    cases hz
  · intro h
    apply List.eq_nil_iff_forall_not_mem.mpr
    intro z hz
    unfold identifyConfounders at hz
    exact h ⟨z, oneSided_subset_pruned _ _ _ _ _ (List.mem_filter.mp hz).1⟩

/-- **C18 (symmetry), as sets.** -/
theorem confounders_symm (nodes : List String) (E : Edges) (x y z : String) :
    z ∈ identifyConfounders nodes E x y ↔ z ∈ identifyConfounders nodes E y x := by
  unfold identifyConfounders
  simp only [List.mem_filter, decide_eq_true_eq]
  exact And.comm

/-- **C18 (symmetry), as canonical lists.** -/
theorem confounderSet_symm (nodes : List String) (E : Edges) (x y : String) :
    confounderSet nodes E x y = confounderSet nodes E y x := by
  unfold confounderSet
  apply List.filter_congr
  intro z _
  simp only [confounders_symm nodes E x y z]

/-- `confounderSet` is the returned set: same members (every confounder is a node of the graph when the edges are) -/
theorem mem_confounderSet (nodes : List String) (E : Edges) (hV : ∀ e ∈ E, e.1 ∈ nodes ∧ e.2 ∈ nodes) (x y z : String) :
    z ∈ confounderSet nodes E x y ↔ z ∈ identifyConfounders nodes E x y := by
  unfold confounderSet
  simp only [List.mem_filter, decide_eq_true_eq, and_iff_right_iff_imp]
  intro h
  obtain ⟨b, h1, _⟩ := (confounders_subset nodes E x y z h).1.split
  exact (hV _ h1).1

/-- **C18 (refusals).** The three refusals of `_verify_identify_inputs`, in the order of the code. -/
theorem inputs_refused (fd : Bool) (nodes : List String) (E : Edges) (x y : String) :
    (¬ (fd = true ∧ Acyclic (Rel E)) → verifyInputs fd nodes E x y = some .typeError) ∧
    (fd = true → Acyclic (Rel E) → (x ∉ nodes ∨ y ∉ nodes) → verifyInputs fd nodes E x y = some .nodeDoesNotExistError) ∧
    (fd = true → Acyclic (Rel E) → x ∈ nodes → y ∈ nodes → x = y → verifyInputs fd nodes E x y = some .valueError) := by
  refine ⟨?_, ?_, ?_⟩
  · intro h
    have : (fd && acyclicB E) = false := by
      cases hfd : fd
      · rfl
      · cases hb : acyclicB E
        · rfl
        · exact absurd ⟨hfd, (acyclicB_iff E).mp hb⟩ h
    simp [verifyInputs, this]
  · intro hfd hA hx
    have : (fd && acyclicB E) = true := by simp [hfd, (acyclicB_iff E).mpr hA]
    rcases hx with hx | hy
    · simp [verifyInputs, this, hx]
    · by_cases hx : x ∈ nodes <;> simp [verifyInputs, this, hx, hy]
  · intro hfd hA hx hy hxy
    have : (fd && acyclicB E) = true := by simp [hfd, (acyclicB_iff E).mpr hA]
    simp [verifyInputs, this, hx, hy, hxy]

/-- the inputs pass exactly when the graph is a DAG, both nodes exist and differ -/
theorem inputs_accepted (fd : Bool) (nodes : List String) (E : Edges) (x y : String) :
    verifyInputs fd nodes E x y = none ↔ (fd = true ∧ Acyclic (Rel E) ∧ x ∈ nodes ∧ y ∈ nodes ∧ x ≠ y) := by
  constructor
  · intro h
    by_cases h1 : fd = true ∧ Acyclic (Rel E)
    · by_cases hx : x ∈ nodes
      · by_cases hy : y ∈ nodes
        · by_cases hxy : x = y
          · rw [(inputs_refused fd nodes E x y).2.2 h1.1 h1.2 hx hy hxy] at h; cases h
          · exact ⟨h1.1, h1.2, hx, hy, hxy⟩
        · rw [(inputs_refused fd nodes E x y).2.1 h1.1 h1.2 (.inr hy)] at h; cases h
      · rw [(inputs_refused fd nodes E x y).2.1 h1.1 h1.2 (.inl hx)] at h; cases h
    · rw [(inputs_refused fd nodes E x y).1 h1] at h; cases h
  · rintro ⟨hfd, hA, hx, hy, hxy⟩
    have : (fd && acyclicB E) = true := by simp [hfd, (acyclicB_iff E).mpr hA]
    simp [verifyInputs, this, hx, hy, hxy]

/-- the checked entry point returns the set exactly on accepted inputs -/
theorem checked_ok (fd : Bool) (nodes : List String) (E : Edges) (x y : String)
    (h : verifyInputs fd nodes E x y = none) :
    identifyConfoundersChecked fd nodes E x y = .ok (identifyConfounders nodes E x y) := by
  simp [identifyConfoundersChecked, h]

/-! ### the D12 witness -/

def wNodes : List String := ["a", "b", "c", "d", "e"]
def wEdges : Edges := [("a", "d"), ("a", "e"), ("b", "c"), ("b", "e"), ("e", "c"), ("e", "d")]

theorem wEdges_acyclic : Acyclic (Rel wEdges) := by
  rw [← acyclicB_iff]
  simp [acyclicB, wEdges, reach, go, succs]

theorem wEdges_nodes : ∀ e ∈ wEdges, e.1 ∈ wNodes ∧ e.2 ∈ wNodes := by decide

/-- the model returns exactly `{e}` for the pair `(c, d)` at the witness -/
theorem witness_answer : identifyConfounders wNodes wEdges "c" "d" = ["e"] := by
  simp [identifyConfounders, confoundersOneSided, wNodes, wEdges, prune, preds, ancestors, reach, go, succs, rev]

/-- `d` is not an ancestor of `c` at the witness -/
theorem witness_not_reversed : ¬ TC (Rel wEdges) "d" "c" := by
  intro h
  have := (mem_descendants_tc wEdges_acyclic (a := "c") (n := "d")).mpr h
  simp [descendants, wEdges, reach, go, succs] at this

/-- The documented claim: for every DAG and `x ≠ y` with `y` not an ancestor of `x`, the returned set d-separates `x`
    from `y` in the graph without the edges leaving `x`. -/
def sufficiency_statement : Prop :=
  ∀ (nodes : List String) (E : Edges) (x y : String),
    Acyclic (Rel E) → (∀ e ∈ E, e.1 ∈ nodes ∧ e.2 ∈ nodes) → nodes.Nodup → x ∈ nodes → y ∈ nodes → x ≠ y →
    ¬ TC (Rel E) y x →
    CG.DSepDec.DSep (E.filter (fun e => decide (e.1 ≠ x))) x y (identifyConfounders nodes E x y)

/-- the back-door path `c ← b → e ← a → d` is open given `{e}` in the witness graph without the edges leaving `c` -/
theorem witness_open_path :
    ¬ CG.DSepDec.DSep (wEdges.filter (fun e => decide (e.1 ≠ "c"))) "c" "d" ["e"] := by
  intro h
  have hw : CG.Paths.Walk (CG.DSepDec.sym (wEdges.filter (fun e => decide (e.1 ≠ "c")))) "c" "d"
      ["c", "b", "e", "a", "d"] := by
    refine .cons (by unfold Rel; decide) (.cons (by unfold Rel; decide) (.cons (by unfold Rel; decide)
      (.cons (by unfold Rel; decide) (.single _))))
  have hb := h _ hw (by decide)
  simp only [CG.DSepDec.Blocked, CG.DSepDec.BlocksAt, or_false] at hb
  rcases hb with hb | hb | hb
  · rcases hb with ⟨⟨_, h2⟩, _⟩ | ⟨_, h2⟩
    · revert h2; decide
    · revert h2; decide
  · rcases hb with ⟨_, h2⟩ | ⟨h1, _⟩
    · exact h2 "e" (.refl _) (by decide)
    · revert h1; decide
  · rcases hb with ⟨⟨h1, _⟩, _⟩ | ⟨_, h2⟩
    · revert h1; decide
    · revert h2; decide

/-- **C18 (sufficiency is false, D12).** -/
theorem sufficiency_false : ¬ sufficiency_statement := by
  intro h
  have := h wNodes wEdges "c" "d" wEdges_acyclic wEdges_nodes (by decide) (by decide) (by decide) (by decide)
    witness_not_reversed
  rw [witness_answer] at this
  exact witness_open_path this

/-- non-vacuity of the positive theorems: a DAG with a non-empty answer (the witness itself) -/
example : "e" ∈ identifyConfounders wNodes wEdges "c" "d" ∧ Acyclic (Rel wEdges) ∧ "c" ≠ "d" := by
  rw [witness_answer]; exact ⟨by decide, wEdges_acyclic, by decide⟩

example : verifyInputs true wNodes wEdges "c" "d" = none :=
  (inputs_accepted _ _ _ _ _).mpr ⟨rfl, wEdges_acyclic, by decide, by decide, by decide⟩

end CG.C18
