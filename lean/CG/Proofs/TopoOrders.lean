/-
Topological orders (C10 topological-order part, C13 topological-order part), edge-list level.

* `LinExt E nodes o`        specification: `o` is a permutation of `nodes` in which every edge between nodes points forward;
* `allTopo_iff`             the enumeration is exactly the set of linear extensions;
* `isTopoOrder_iff`         the validity predicate used on the implementation's single order is the specification;
* `linExt_path_forward`, `linExt_acyclic`, `allTopo_ne_nil`, `allTopo_ne_nil_iff`
                            every directed path respects every topological order; orders exist iff the graph is acyclic;
* `kahn_lag_sorted`         lexicographic Kahn keyed by lag succeeds on an acyclic graph whose lags never decrease along
                            edges, and its result is a linear extension with non-decreasing lags;
* `allTimeTopo_iff`, `allTimeTopo_eq`, `allTimeTopo_nil`, `allTimeTopo_ne_nil`
                            the code's filter of all orders is exactly the time-sorted linear extensions, for every node
                            list (the empty graph gives `[[]]`: the code after the repair of D14, DESIGN.md section 7).
-/
import CG.Model.Topo
set_option linter.unusedSectionVars false
set_option linter.unusedSimpArgs false

namespace CG.TopoThm
variable {α : Type} [DecidableEq α]

open CG.EL (Rel RTC TC Acyclic)
open CG.Topo

/-- specification: `o` is a permutation of `nodes` and every edge inside `nodes` points forward -/
def LinExt (E : List (α × α)) (nodes o : List α) : Prop :=
  o.Perm nodes ∧ ∀ a b, Rel E a b → a ∈ nodes → b ∈ nodes → o.idxOf a < o.idxOf b

/-- the time-series side condition: lags never decrease along the order -/
def LagsSorted (key : α → Int) (o : List α) : Prop := o.Pairwise (fun a b => key a ≤ key b)

/-! ### small list facts -/

theorem idxOf_cons_ne' {a b : α} (l : List α) (h : a ≠ b) : (a :: l).idxOf b = l.idxOf b + 1 := by
  rw [List.idxOf_cons]
  have : (a == b) = false := by simpa using h
  simp [this]

theorem availB_iff (E : List (α × α)) (rem : List α) (x : α) :
    availB E rem x = true ↔ ∀ p ∈ rem, ¬ Rel E p x := by
  unfold availB Rel
  simp only [List.all_eq_true, Bool.not_eq_true', Bool.and_eq_false_iff, decide_eq_false_iff_not]
  constructor
  · intro h p hrem hp
    rcases h (p, x) hp with h' | h'
    · exact h' rfl
    · exact h' hrem
  · intro h e he
    by_cases hx : e.2 = x
    · right; intro hrem; exact h e.1 hrem (by rw [← hx]; exact he)
    · left; exact hx

/-! ### all topological orders = all linear extensions -/

theorem allTopoAux_sound (E : List (α × α)) :
    ∀ (f : Nat) (rem : List α), rem.Nodup → ∀ o ∈ allTopoAux E f rem, LinExt E rem o := by
  intro f
  induction f with
  | zero =>
    intro rem _ o ho
    simp only [allTopoAux] at ho
    split at ho
    · rename_i h; subst h; simp at ho; subst ho; exact ⟨List.Perm.refl _, by simp⟩
    · simp at ho
  | succ f ih =>
    intro rem hnd o ho
    simp only [allTopoAux] at ho
    split at ho
    · rename_i h; subst h; simp at ho; subst ho; exact ⟨List.Perm.refl _, by simp⟩
    · simp only [List.mem_flatMap, List.mem_filter, List.mem_map] at ho
      obtain ⟨x, ⟨hx, hav⟩, o', ho', rfl⟩ := ho
      have hav' := (availB_iff E rem x).mp hav
      obtain ⟨hperm, hord⟩ := ih (rem.erase x) (hnd.erase x) o' ho'
      refine ⟨(List.Perm.cons x hperm).trans (List.perm_cons_erase hx).symm, ?_⟩
      intro a b hab ha hb
      have hbx : b ≠ x := by intro h; subst h; exact hav' a ha hab
      have hb' : b ∈ rem.erase x := (List.mem_erase_of_ne hbx).mpr hb
      by_cases hax : a = x
      · subst hax
        rw [List.idxOf_cons_self, idxOf_cons_ne' _ (Ne.symm hbx)]
        omega
      · have ha' : a ∈ rem.erase x := (List.mem_erase_of_ne hax).mpr ha
        rw [idxOf_cons_ne' _ (Ne.symm hax), idxOf_cons_ne' _ (Ne.symm hbx)]
        have := hord a b hab ha' hb'
        omega

theorem allTopoAux_complete (E : List (α × α)) :
    ∀ (f : Nat) (rem o : List α), rem.Nodup → rem.length ≤ f → LinExt E rem o → o ∈ allTopoAux E f rem := by
  intro f
  induction f with
  | zero =>
    intro rem o _ hlen ⟨hperm, _⟩
    have : rem = [] := List.eq_nil_of_length_eq_zero (by omega)
    subst this
    have : o = [] := List.Perm.eq_nil hperm
    subst this; simp [allTopoAux]
  | succ f ih =>
    intro rem o hnd hlen ⟨hperm, hord⟩
    simp only [allTopoAux]
    split
    · rename_i h; subst h
      have : o = [] := List.Perm.eq_nil hperm
      subst this; simp
    · rename_i hne
      cases o with
      | nil => exact absurd (List.Perm.nil_eq hperm).symm hne
      | cons x o' =>
        have hx : x ∈ rem := hperm.subset List.mem_cons_self
        have hond : (x :: o').Nodup := hperm.nodup_iff.mpr hnd
        have hxo' : x ∉ o' := (List.nodup_cons.mp hond).1
        simp only [List.mem_flatMap, List.mem_filter, List.mem_map]
        refine ⟨x, ⟨hx, (availB_iff E rem x).mpr ?_⟩, o', ?_, rfl⟩
        · intro p hprem hp
          have := hord p x hp hprem hx
          rw [List.idxOf_cons_self] at this
          omega
        · apply ih (rem.erase x) o' (hnd.erase x) (by rw [List.length_erase_of_mem hx]; omega)
          refine ⟨?_, ?_⟩
          · have := (List.perm_cons_erase hx)
            exact (List.Perm.cons_inv (hperm.trans this))
          · intro a b hab ha hb
            have ha' : a ∈ rem := List.mem_of_mem_erase ha
            have hb' : b ∈ rem := List.mem_of_mem_erase hb
            have hax : a ≠ x := by intro h; subst h; exact (List.Nodup.mem_erase_iff hnd).mp ha |>.1 rfl
            have hbx : b ≠ x := by intro h; subst h; exact (List.Nodup.mem_erase_iff hnd).mp hb |>.1 rfl
            have := hord a b hab ha' hb'
            rw [idxOf_cons_ne' _ (Ne.symm hax), idxOf_cons_ne' _ (Ne.symm hbx)] at this
            omega

/-- **All and only the linear extensions.**  No acyclicity hypothesis: on a cyclic graph both sides are empty. -/
theorem allTopo_iff (E : List (α × α)) (nodes : List α) (hnd : nodes.Nodup) (o : List α) :
    o ∈ allTopo E nodes ↔ LinExt E nodes o :=
  ⟨allTopoAux_sound E nodes.length nodes hnd o,
   allTopoAux_complete E nodes.length nodes o hnd (Nat.le_refl _)⟩

-- non-vacuity: the fork `1 → 2, 1 → 3` plus an isolated node has 8 linear extensions; one of them:
example : [1, 4, 3, 2] ∈ allTopo [(1, 2), (1, 3)] [1, 2, 3, 4] ∧ (allTopo [(1, 2), (1, 3)] [1, 2, 3, 4]).length = 8 ∧
    [1, 2, 3, 4].Nodup := by decide

/-- **Validity predicate = specification** (no hypothesis at all). -/
theorem isTopoOrder_iff (E : List (α × α)) (nodes o : List α) :
    isTopoOrder E nodes o = true ↔ LinExt E nodes o := by
  unfold isTopoOrder LinExt Rel
  rw [Bool.and_eq_true, List.isPerm_iff, List.all_eq_true]
  constructor
  · rintro ⟨hp, h⟩
    refine ⟨hp, ?_⟩
    intro a b hab ha hb
    have := h (a, b) hab
    simpa [ha, hb] using this
  · rintro ⟨hp, h⟩
    refine ⟨hp, ?_⟩
    rintro ⟨a, b⟩ hab
    by_cases ha : a ∈ nodes
    · by_cases hb : b ∈ nodes
      · simpa [ha, hb] using h a b hab ha hb
      · simp [hb]
    · simp [ha]

example : isTopoOrder [(1, 2), (1, 3)] [1, 2, 3, 4] [4, 1, 3, 2] = true ∧
    isTopoOrder [(1, 2), (1, 3)] [1, 2, 3, 4] [2, 1, 3, 4] = false ∧
    isTopoOrder [(1, 2), (1, 3)] [1, 2, 3, 4] [1, 2, 3] = false := by decide

/-! ### paths respect orders; orders force acyclicity -/

theorem TC.mem_of_within {E : List (α × α)} {nodes : List α} (hE : ∀ e ∈ E, e.1 ∈ nodes ∧ e.2 ∈ nodes)
    {a b : α} (h : TC (Rel E) a b) : a ∈ nodes ∧ b ∈ nodes := by
  induction h with
  | single h' => exact hE _ h'
  | tail _ hbc ih => exact ⟨ih.1, (hE _ hbc).2⟩

/-- **Every directed path respects every topological order**: if `a` reaches `b` then `a` comes first. -/
theorem linExt_path_forward {E : List (α × α)} {nodes o : List α} (hE : ∀ e ∈ E, e.1 ∈ nodes ∧ e.2 ∈ nodes)
    (ho : LinExt E nodes o) {a b : α} (h : TC (Rel E) a b) : o.idxOf a < o.idxOf b := by
  induction h with
  | single h' => exact ho.2 _ _ h' (hE _ h').1 (hE _ h').2
  | tail _ hbc ih => exact Nat.lt_trans ih (ho.2 _ _ hbc (hE _ hbc).1 (hE _ hbc).2)

/-- a graph that has a topological order is acyclic -/
theorem linExt_acyclic {E : List (α × α)} {nodes o : List α} (hE : ∀ e ∈ E, e.1 ∈ nodes ∧ e.2 ∈ nodes)
    (ho : LinExt E nodes o) : Acyclic (Rel E) :=
  fun _ hn => Nat.lt_irrefl _ (linExt_path_forward hE ho hn)

/-! ### sources exist in finite acyclic graphs -/

/-- climbing predecessors inside `rem` from `y` ends at a source of `rem` that reaches `y` -/
theorem exists_source_above_aux (E : List (α × α)) (hac : Acyclic (Rel E)) (rem : List α) (y : α) :
    ∀ (n : Nat) (x : α) (chain : List α), x ∈ rem → (x :: chain).Nodup → (∀ v ∈ x :: chain, v ∈ rem) →
      (∀ v ∈ x :: chain, RTC (Rel E) x v) → RTC (Rel E) x y → (x :: chain).length + n > rem.length →
      ∃ s ∈ rem, (∀ p ∈ rem, ¬ Rel E p s) ∧ RTC (Rel E) s y := by
  intro n
  induction n with
  | zero =>
    intro x chain _ hnd hsub _ _ hlen
    have := List.Nodup.length_le_of_subset hnd (fun v hv => hsub v hv)
    omega
  | succ n ih =>
    intro x chain hx hnd hsub hreach hxy hlen
    by_cases hsrc : ∀ p ∈ rem, ¬ Rel E p x
    · exact ⟨x, hx, hsrc, hxy⟩
    · have ⟨p, hp, hpx⟩ : ∃ p ∈ rem, Rel E p x := by
        apply Classical.byContradiction
        intro h; apply hsrc; intro p hp hpx; exact h ⟨p, hp, hpx⟩
      have hpnot : p ∉ x :: chain := fun hmem => hac p (TC.of_step_rtc hpx (hreach p hmem))
      refine ih p (x :: chain) hp (List.nodup_cons.mpr ⟨hpnot, hnd⟩) ?_ ?_ (RTC.head hpx hxy)
        (by simp at hlen ⊢; omega)
      · intro v hv
        rcases List.mem_cons.mp hv with h | h
        · subst h; exact hp
        · exact hsub v h
      · intro v hv
        rcases List.mem_cons.mp hv with h | h
        · subst h; exact .refl _
        · exact RTC.head hpx (hreach v h)

theorem exists_source_above (E : List (α × α)) (hac : Acyclic (Rel E)) (rem : List α) (y : α)
    (hy : y ∈ rem) : ∃ s ∈ rem, (∀ p ∈ rem, ¬ Rel E p s) ∧ RTC (Rel E) s y :=
  exists_source_above_aux E hac rem y (rem.length + 1) y [] hy (by simp) (by simpa using hy)
    (by intro v hv; simp at hv; subst hv; exact .refl _) (.refl _) (by simp; omega)

/-- every non-empty node list of an acyclic graph has a source (a node with no predecessor in the list) -/
theorem exists_source (E : List (α × α)) (hac : Acyclic (Rel E)) (rem : List α) (hne : rem ≠ []) :
    ∃ s ∈ rem, ∀ p ∈ rem, ¬ Rel E p s := by
  cases rem with
  | nil => exact absurd rfl hne
  | cons y rest =>
    obtain ⟨s, hs, hsrc, _⟩ := exists_source_above E hac (y :: rest) y List.mem_cons_self
    exact ⟨s, hs, hsrc⟩

/-! ### Kahn keyed by lag -/

theorem pickMin_spec (key : α → Int) : ∀ (l : List α), l ≠ [] →
    ∃ m, pickMin key l = some m ∧ m ∈ l ∧ ∀ y ∈ l, key m ≤ key y
  | [], h => absurd rfl h
  | x :: xs, _ => by
    cases xs with
    | nil => exact ⟨x, by simp [pickMin], by simp, by simp⟩
    | cons z zs =>
      obtain ⟨m, hm, hmem, hmin⟩ := pickMin_spec key (z :: zs) (by simp)
      simp only [pickMin] at hm ⊢
      rw [hm]
      by_cases hle : key x ≤ key m
      · refine ⟨x, by simp [hle], by simp, ?_⟩
        intro y hy
        rcases List.mem_cons.mp hy with h | h
        · subst h; exact Int.le_refl _
        · exact Int.le_trans hle (hmin y h)
      · refine ⟨m, by simp [hle], List.mem_cons_of_mem _ hmem, ?_⟩
        intro y hy
        rcases List.mem_cons.mp hy with h | h
        · subst h; omega
        · exact hmin y h

theorem pickMin_mem (key : α → Int) {l : List α} {m : α} (h : pickMin key l = some m) : m ∈ l := by
  have hne : l ≠ [] := by intro h'; subst h'; simp [pickMin] at h
  obtain ⟨m', hm', hmem, _⟩ := pickMin_spec key l hne
  rw [hm'] at h; cases h; exact hmem

theorem key_mono_rtc {E : List (α × α)} {key : α → Int} (hmono : ∀ a b, Rel E a b → key a ≤ key b)
    {a b : α} (h : RTC (Rel E) a b) : key a ≤ key b := by
  induction h with
  | refl => exact Int.le_refl _
  | tail _ hbc ih => exact Int.le_trans ih (hmono _ _ hbc)

/-- whatever Kahn returns is one of the enumerated orders (same choice rule, same recursion) -/
theorem kahnAux_mem_allTopoAux (E : List (α × α)) (key : α → Int) :
    ∀ (f : Nat) (rem o : List α), kahnAux E key f rem = some o → o ∈ allTopoAux E f rem := by
  intro f
  induction f with
  | zero =>
    intro rem o h
    simp only [kahnAux] at h
    simp only [allTopoAux]
    split at h
    · rename_i hr; cases h; simp [hr]
    · cases h
  | succ f ih =>
    intro rem o h
    simp only [kahnAux] at h
    simp only [allTopoAux]
    split at h
    · rename_i hr; cases h; simp [hr]
    · rename_i hr
      simp only [hr, if_false]
      split at h
      · cases h
      · rename_i x hx
        cases hk : kahnAux E key f (rem.erase x) with
        | none => rw [hk] at h; cases h
        | some o' =>
          rw [hk] at h; simp only [Option.map_some, Option.some.injEq] at h; subst h
          simp only [List.mem_flatMap, List.mem_map]
          exact ⟨x, pickMin_mem key hx, o', ih _ _ hk, rfl⟩

theorem kahnAux_sorted (E : List (α × α)) (key : α → Int) (hac : Acyclic (Rel E))
    (hmono : ∀ a b, Rel E a b → key a ≤ key b) :
    ∀ (f : Nat) (rem : List α), rem.length ≤ f →
      ∃ o, kahnAux E key f rem = some o ∧ (∀ y ∈ o, y ∈ rem) ∧ o.Pairwise (fun a b => key a ≤ key b) := by
  intro f
  induction f with
  | zero =>
    intro rem hlen
    have : rem = [] := List.eq_nil_of_length_eq_zero (by omega)
    subst this; exact ⟨[], by simp [kahnAux], by simp, by simp⟩
  | succ f ih =>
    intro rem hlen
    simp only [kahnAux]
    split
    · exact ⟨[], rfl, by simp, by simp⟩
    · rename_i hne
      -- some node is available
      obtain ⟨s0, hs0, hsrc0⟩ := exists_source E hac rem hne
      have havne : rem.filter (availB E rem) ≠ [] := by
        intro h
        have : s0 ∈ rem.filter (availB E rem) := List.mem_filter.mpr ⟨hs0, (availB_iff E rem s0).mpr hsrc0⟩
        rw [h] at this; simp at this
      obtain ⟨x, hx, hxmem, hxmin⟩ := pickMin_spec key _ havne
      rw [hx]
      have hxrem : x ∈ rem := (List.mem_filter.mp hxmem).1
      -- x has minimal key among ALL remaining nodes
      have hglob : ∀ y ∈ rem, key x ≤ key y := by
        intro y hy
        obtain ⟨s, hs, hsrc, hsy⟩ := exists_source_above E hac rem y hy
        have h1 := hxmin s (List.mem_filter.mpr ⟨hs, (availB_iff E rem s).mpr hsrc⟩)
        exact Int.le_trans h1 (key_mono_rtc hmono hsy)
      obtain ⟨o', ho', hsub, hsorted⟩ := ih (rem.erase x) (by rw [List.length_erase_of_mem hxrem]; omega)
      refine ⟨x :: o', by simp [ho'], ?_, ?_⟩
      · intro y hy
        rcases List.mem_cons.mp hy with h | h
        · subst h; exact hxrem
        · exact List.mem_of_mem_erase (hsub y h)
      · exact List.pairwise_cons.mpr ⟨fun y hy => hglob y (List.mem_of_mem_erase (hsub y hy)), hsorted⟩

/-- the adjacent-pair scan of `_get_time_topological_order` decides global sortedness -/
theorem lagsSorted_iff (key : α → Int) : ∀ (o : List α), lagsSorted key o = true ↔ LagsSorted key o
  | [] => by simp [lagsSorted, LagsSorted]
  | [_] => by simp [lagsSorted, LagsSorted]
  | a :: b :: rest => by
    have ih := lagsSorted_iff key (b :: rest)
    unfold LagsSorted at ih ⊢
    simp only [lagsSorted]
    rw [List.pairwise_cons]
    by_cases hab : key a > key b
    · simp only [hab, if_true]
      constructor
      · intro h; cases h
      · rintro ⟨h, _⟩
        have := h b List.mem_cons_self
        omega
    · simp only [hab, if_false]
      rw [ih]
      constructor
      · intro h
        refine ⟨?_, h⟩
        intro y hy
        rcases List.mem_cons.mp hy with rfl | hy'
        · omega
        · have := (List.pairwise_cons.mp h).1 y hy'
          omega
      · exact fun h => h.2

/-- **Lexicographic Kahn keyed by lag**: on an acyclic graph whose key never decreases along an edge (the C13
    invariant) the run succeeds, returns a linear extension, and the keys of the result never decrease.
    (Edges need not stay inside `nodes`.) -/
theorem kahn_lag_sorted (E : List (α × α)) (key : α → Int) (nodes : List α) (hac : Acyclic (Rel E))
    (hmono : ∀ a b, Rel E a b → key a ≤ key b) (hnd : nodes.Nodup) :
    ∃ o, kahnByLag E key nodes = some o ∧ LinExt E nodes o ∧ lagsSorted key o = true := by
  obtain ⟨o, ho, _, hs⟩ := kahnAux_sorted E key hac hmono nodes.length nodes (Nat.le_refl _)
  refine ⟨o, ho, ?_, (lagsSorted_iff key o).mpr hs⟩
  exact allTopoAux_sound E nodes.length nodes hnd o (kahnAux_mem_allTopoAux E key _ _ _ ho)

-- non-vacuity: `Y(t-1) → Y ← X`; lags -1, 0, 0; the time-sorted order starts with the lagged node
example : Acyclic (Rel [("Y1", "Y"), ("X", "Y")]) := by
  intro n hn
  have key : ∀ a b, TC (Rel [("Y1", "Y"), ("X", "Y")]) a b → b = "Y" := by
    intro a b h
    cases h with
    | single h => simp [Rel] at h; rcases h with h | h <;> exact h.2
    | tail _ h => simp [Rel] at h; rcases h with h | h <;> exact h.2
  have h1 := key n n hn
  subst h1
  obtain ⟨b, h2, _⟩ := TC.split hn
  simp [Rel] at h2

example : kahnByLag [("Y1", "Y"), ("X", "Y")] (fun s => if s = "Y1" then -1 else 0) ["X", "Y", "Y1"]
    = some ["Y1", "X", "Y"] := by decide

/-- **Topological orders exist** for every acyclic graph. -/
theorem allTopo_ne_nil (E : List (α × α)) (nodes : List α) (hac : Acyclic (Rel E)) : allTopo E nodes ≠ [] := by
  obtain ⟨o, ho, _, _⟩ := kahnAux_sorted E (fun _ => 0) hac (fun _ _ _ => Int.le_refl _) nodes.length nodes
    (Nat.le_refl _)
  intro h
  have := kahnAux_mem_allTopoAux E (fun _ => 0) _ _ _ ho
  unfold allTopo at h
  rw [h] at this; simp at this

theorem exists_linExt (E : List (α × α)) (nodes : List α) (hnd : nodes.Nodup) (hac : Acyclic (Rel E)) :
    ∃ o, LinExt E nodes o := by
  obtain ⟨o, _, h, _⟩ := kahn_lag_sorted E (fun _ => 0) nodes hac (fun _ _ _ => Int.le_refl _) hnd
  exact ⟨o, h⟩

/-- orders exist iff the graph is acyclic -/
theorem allTopo_ne_nil_iff (E : List (α × α)) (nodes : List α) (hnd : nodes.Nodup)
    (hE : ∀ e ∈ E, e.1 ∈ nodes ∧ e.2 ∈ nodes) : allTopo E nodes ≠ [] ↔ Acyclic (Rel E) := by
  constructor
  · intro h
    cases hl : allTopo E nodes with
    | nil => exact absurd hl h
    | cons o _ =>
      have : o ∈ allTopo E nodes := by rw [hl]; exact List.mem_cons_self
      exact linExt_acyclic hE ((allTopo_iff E nodes hnd o).mp this)
  · exact allTopo_ne_nil E nodes

/-! ### the `return_all` filter of the time-series class -/

/-- the code's loop over all orders is a plain filter by time-sortedness (no hypothesis) -/
theorem allTimeTopo_eq (E : List (α × α)) (key : α → Int) (nodes : List α) :
    allTimeTopo E key nodes = (allTopo E nodes).filter (lagsSorted key) := by
  unfold allTimeTopo timeFilter
  generalize allTopo E nodes = orders
  induction orders with
  | nil => rfl
  | cons o rest ih =>
    rw [List.filterMap_cons, List.filter_cons, ih]
    unfold timeOrder
    cases lagsSorted key o <;> simp

/-- **`return_all` with time ordering**: exactly the linear extensions with non-decreasing lags, for every node
    list including the empty one (the repaired sentinel `None` no longer swallows the empty order, D14). -/
theorem allTimeTopo_iff (E : List (α × α)) (key : α → Int) (nodes : List α) (hnd : nodes.Nodup) (o : List α) :
    o ∈ allTimeTopo E key nodes ↔ LinExt E nodes o ∧ lagsSorted key o = true := by
  rw [allTimeTopo_eq, List.mem_filter, allTopo_iff E nodes hnd]

/-- the same with the sortedness side condition in `Prop` form -/
theorem allTimeTopo_iff' (E : List (α × α)) (key : α → Int) (nodes : List α) (hnd : nodes.Nodup) (o : List α) :
    o ∈ allTimeTopo E key nodes ↔ LinExt E nodes o ∧ LagsSorted key o := by
  rw [allTimeTopo_iff E key nodes hnd, lagsSorted_iff]

example : allTimeTopo [("Y1", "Y"), ("X", "Y")] (fun s => if s = "Y1" then -1 else 0) ["X", "Y", "Y1"]
    = [["Y1", "X", "Y"]] ∧ (allTopo [("Y1", "Y"), ("X", "Y")] ["X", "Y", "Y1"]).length = 2 ∧
    ["X", "Y", "Y1"].Nodup := by decide

/-- the empty graph has exactly one time-sorted topological order, the empty one (as in the base class) -/
theorem allTimeTopo_nil (E : List (α × α)) (key : α → Int) : allTimeTopo E key ([] : List α) = [[]] := by
  simp [allTimeTopo, allTopo, allTopoAux, timeFilter, timeOrder, lagsSorted]

theorem allTopo_nil (E : List (α × α)) : allTopo E ([] : List α) = [[]] := by
  simp [allTopo, allTopoAux]

/-- on an acyclic graph whose lags never decrease along edges the returned set is never empty -/
theorem allTimeTopo_ne_nil (E : List (α × α)) (key : α → Int) (nodes : List α) (hac : Acyclic (Rel E))
    (hmono : ∀ a b, Rel E a b → key a ≤ key b) (hnd : nodes.Nodup) : allTimeTopo E key nodes ≠ [] := by
  obtain ⟨o, _, h1, h2⟩ := kahn_lag_sorted E key nodes hac hmono hnd
  intro h
  have := (allTimeTopo_iff E key nodes hnd o).mpr ⟨h1, h2⟩
  rw [h] at this; simp at this

end CG.TopoThm
