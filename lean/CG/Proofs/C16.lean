/-
C16 — the stationary graph is the least stationary super-graph; the test agrees.

Hypotheses: `TsHyp g` (well-formed time-series graph with canonical node names), `TemplateConsistent g` (the edges are
instances of a consistent template set), latest lag 0 (`listMax (lagsOf g) = some 0`, or `LagRange g lo 0` where the
earliest lag is named) and — only where the test `is_stationary_graph` is concerned — `isDag g = true`.  The theorems
about `get_stationary_graph` itself do not need the DAG hypothesis (the method does not look at it).

Every theorem that speaks about the result of `extend_graph` takes `hext : ExtendSpec`: the statement of
`CG.C15.extend_eq_unroll`, verbatim (`CG/Proofs/Lemmas/TSStationary.lean`); it is discharged when C15 lands.

  stationary_def          get_stationary_graph = extend_graph of the minimal graph over the input's own lag range,
                          include_all_parents=False (transcription, any window)
  stationary_no_nodes     IndexError on a graph without nodes
  stationary_ok           never raises
  stationary_contains     the result contains every node and every edge of the input
  stationary_nodes        its nodes are exactly: every variable of the input at every lag of the input's window
  stationary_window       it spans the same lag range, has the same variables, every variable at every lag
  stationary_edges        its edges are exactly the template copies that fit in the window
  stationary_complete     … in particular every fitting copy is present; its templates are the input's templates
  stationary_hyp          the result satisfies the hypotheses again (so every theorem applies to it)
  stationary_is_stationary   the result is `Stationary`
  stationary_idem         applying the operation again gives a graph with the same nodes and typed edges, equal (`==`)
                          to the first result
  stationary_least        every stationary well-formed time-series super-graph of the input over the same window
                          contains the result
  isStationary_def        is_stationary_graph = False for a non-DAG, otherwise the comparison of the completion with
                          the input (transcription)
  isStationary_nonDag     False for every graph that is not a DAG
  isStationary_true_iff   True ↔ DAG ∧ the completion exists and compares equal (any graph; transcription)
  isStationary_iff        for a given answer b: b = True ↔ DAG ∧ the completion `==` the input (modelled `__eq__`)
                          ↔ DAG ∧ same identifiers and matching edges
  isStationary_iff_stationary   is_stationary_graph(g) = True ↔ g is a DAG and `Stationary g`: no variable is missing at
                          a lag of the window and no fitting template copy is missing
  isStationary_of_stationaryGraph   the test accepts the completion exactly when the completion is a DAG
-/
import CG.Proofs.Lemmas.TSStationary
import CG.Proofs.AcyclicStep
import CG.Proofs.C02Core

namespace CG.C16
open CG Std CG.Name CG.TS

variable {g : Graph}

/-! ### `get_stationary_graph`: transcription and totality -/

/-- **C16 (definition): `get_stationary_graph` is `extend_graph` of the minimal graph over the input's own lag range
    `[lo, hi]` with `include_all_parents=False`** (any window; `extend_graph` then asserts `lo ≤ 0 ≤ hi`) -/
theorem stationary_def (h : TsHyp g) (hc : TemplateConsistent g) {lo hi : Int} (hr : LagRange g lo hi)
    (idx : List String) :
    ∃ (m : Graph) (ord : List String), minimalGraphO g idx = .ok (m, ord) ∧ minimalGraph g idx = .ok m ∧
      stationaryGraph g idx = extendGraph m ord (some (-lo)) (some hi) false := by
  obtain ⟨hlo, hhi⟩ := (lagRange_iff g lo hi).mp hr
  obtain ⟨ord, ho⟩ := minimalGraphO_eq h hc idx
  exact ⟨_, ord, ho, minimalGraph_eq h hc idx, stationaryGraph_eq ho hlo hhi⟩

/-- a graph without nodes: `IndexError` (`min()` of an empty list of lags), after the minimal graph was computed -/
theorem stationary_no_nodes (h : TsHyp g) (hc : TemplateConsistent g) (idx : List String) (he : lagsOf g = []) :
    stationaryGraph g idx = .error .indexError := by
  obtain ⟨ord, ho⟩ := minimalGraphO_eq h hc idx
  unfold stationaryGraph
  simp only [ho, bind, Except.bind, he, listMin, listMax]

/-- the result of `get_stationary_graph` is the completion of the input over its window -/
theorem completion (hext : ExtendSpec) (h : TsHyp g) (hc : TemplateConsistent g) {lo : Int} (hr : LagRange g lo 0)
    {idx : List String} {s : Graph} (hs : stationaryGraph g idx = .ok s) : IsCompletion g lo s := by
  obtain ⟨s', h1, h2⟩ := stationaryGraph_completion hext h hc hr idx
  rw [hs] at h1
  cases h1
  exact h2

/-- **C16 (ok): `get_stationary_graph` never raises on a template-consistent graph whose latest lag is 0.** -/
theorem stationary_ok (hext : ExtendSpec) (h : TsHyp g) (hc : TemplateConsistent g)
    (h0 : listMax (lagsOf g) = some 0) (idx : List String) : ∃ s, stationaryGraph g idx = .ok s := by
  obtain ⟨lo, hr⟩ := lagRange_of_max h0
  obtain ⟨s, hs, _⟩ := stationaryGraph_completion hext h hc hr idx
  exact ⟨s, hs⟩

/-! ### what the result contains -/

/-- **C16 (super-graph): the result contains every node and every edge of the input.** -/
theorem stationary_contains (hext : ExtendSpec) (h : TsHyp g) (hc : TemplateConsistent g)
    (h0 : listMax (lagsOf g) = some 0) {idx : List String} {s : Graph} (hs : stationaryGraph g idx = .ok s) :
    (∀ n : String, n ∈ g.nodes → n ∈ s.nodes) ∧
      ∀ (a b : String) (ty : EdgeType), IsEdge g a b ty → IsEdge s a b ty := by
  obtain ⟨lo, hr⟩ := lagRange_of_max h0
  have C := completion hext h hc hr hs
  exact ⟨fun _ => C.sup_nodes h hr, fun _ _ _ => C.sup_edges h hr⟩

/-- **C16 (nodes): the nodes of the result are exactly the variables of the input at the lags of its window.** -/
theorem stationary_nodes (hext : ExtendSpec) (h : TsHyp g) (hc : TemplateConsistent g) {lo : Int}
    (hr : LagRange g lo 0) {idx : List String} {s : Graph} (hs : stationaryGraph g idx = .ok s) (n : String) :
    n ∈ s.nodes ↔ ∃ (v : String) (t : Int), IsVar g v ∧ lo ≤ t ∧ t ≤ 0 ∧ n = fmt v t :=
  (completion hext h hc hr hs).nodes n

/-- **C16 (window): the result spans the same lag range, has the same variables, and every variable is present at
    every lag of the range.** -/
theorem stationary_window (hext : ExtendSpec) (h : TsHyp g) (hc : TemplateConsistent g) {lo : Int}
    (hr : LagRange g lo 0) {idx : List String} {s : Graph} (hs : stationaryGraph g idx = .ok s) :
    LagRange s lo 0 ∧ (∀ v : String, IsVar s v ↔ IsVar g v) ∧
      ∀ (v : String) (t : Int), IsVar s v → lo ≤ t → t ≤ 0 → fmt v t ∈ s.nodes := by
  have C := completion hext h hc hr hs
  exact ⟨C.lagRange h hr, C.vars h hr, (C.stationary h hr lo 0 (C.lagRange h hr)).1⟩

/-- **C16 (edges): the edges of the result are exactly the template copies that fit in the window** — the copy of
    `(x, y, δ, ty)` ending at `t` fits when `lo ≤ t - δ` and `t ≤ 0` (with `include_all_parents=False` the copies at
    negative `t` whose source would fall before `lo` are left out: they do not fit) -/
theorem stationary_edges (hext : ExtendSpec) (h : TsHyp g) (hc : TemplateConsistent g) {lo : Int}
    (hr : LagRange g lo 0) {idx : List String} {s : Graph} (hs : stationaryGraph g idx = .ok s) (a c : String)
    (ty : EdgeType) :
    IsEdge s a c ty ↔
      ∃ (x y : String) (δ t : Int), IsTemplate g x y δ ty ∧ lo ≤ t - δ ∧ t ≤ 0 ∧ a = fmt x (t - δ) ∧ c = fmt y t :=
  (completion hext h hc hr hs).edges a c ty

/-- **C16 (complete): every template copy that fits in the window is an edge of the result, and the result has exactly
    the templates of the input.** -/
theorem stationary_complete (hext : ExtendSpec) (h : TsHyp g) (hc : TemplateConsistent g) {lo : Int}
    (hr : LagRange g lo 0) {idx : List String} {s : Graph} (hs : stationaryGraph g idx = .ok s) :
    (∀ (x y : String) (δ t : Int) (ty : EdgeType), IsTemplate g x y δ ty → lo ≤ t - δ → t ≤ 0 →
      IsEdge s (fmt x (t - δ)) (fmt y t) ty) ∧
    (∀ (x y : String) (δ : Int) (ty : EdgeType), IsTemplate s x y δ ty ↔ IsTemplate g x y δ ty) := by
  have C := completion hext h hc hr hs
  exact ⟨fun x y δ t ty ht h1 h2 => (C.edges _ _ _).mpr ⟨x, y, δ, t, ht, h1, h2, rfl, rfl⟩, C.templates h hr⟩

/-- **C16 (closure): the result satisfies the hypotheses again** (well-formed, canonical names, consistent templates,
    latest lag 0) -/
theorem stationary_hyp (hext : ExtendSpec) (h : TsHyp g) (hc : TemplateConsistent g)
    (h0 : listMax (lagsOf g) = some 0) {idx : List String} {s : Graph} (hs : stationaryGraph g idx = .ok s) :
    TsHyp s ∧ TemplateConsistent s ∧ listMax (lagsOf s) = some 0 := by
  obtain ⟨lo, hr⟩ := lagRange_of_max h0
  have C := completion hext h hc hr hs
  exact ⟨C.hyp, C.consistent h hr hc, ((lagRange_iff s lo 0).mp (C.lagRange h hr)).2⟩

/-- **C16 (stationary): the result is stationary.** -/
theorem stationary_is_stationary (hext : ExtendSpec) (h : TsHyp g) (hc : TemplateConsistent g)
    (h0 : listMax (lagsOf g) = some 0) {idx : List String} {s : Graph} (hs : stationaryGraph g idx = .ok s) :
    Stationary s := by
  obtain ⟨lo, hr⟩ := lagRange_of_max h0
  exact (completion hext h hc hr hs).stationary h hr

/-- **C16 (fixed point, nodes and typed edges): applying the operation to its result gives a graph with the same nodes
    and the same typed edges, which compares equal (`==`) to the first result.** -/
theorem stationary_idem (hext : ExtendSpec) (h : TsHyp g) (hc : TemplateConsistent g)
    (h0 : listMax (lagsOf g) = some 0) {idx : List String} (idx' : List String) {s : Graph}
    (hs : stationaryGraph g idx = .ok s) :
    ∃ s', stationaryGraph s idx' = .ok s' ∧ (∀ n : String, n ∈ s'.nodes ↔ n ∈ s.nodes) ∧
      (∀ (a b : String) (ty : EdgeType), IsEdge s' a b ty ↔ IsEdge s a b ty) ∧
      tsGraphEqShallow s' s = true ∧ graphEq false s' s = .ok true := by
  obtain ⟨lo, hr⟩ := lagRange_of_max h0
  have C := completion hext h hc hr hs
  have hr' := C.lagRange h hr
  obtain ⟨s', hs', C'⟩ := stationaryGraph_completion hext C.hyp (C.consistent h hr hc) hr' idx'
  obtain ⟨e1, e2⟩ := C.shape_eq C' (C.vars h hr) (C.templates h hr)
  have hsub : ∀ a b : String, (a, b) ∈ s.edges → (b, a) ∉ s'.edges := by
    intro a b hab
    obtain ⟨r, hr0⟩ := (mem_edges_iff _ _).mp hab
    obtain ⟨r', h', _⟩ := (e2 a b r.ty).mpr ⟨r, hr0, rfl⟩
    exact C'.hyp.wf.onePer a b ((mem_edges_iff _ _).mpr ⟨r', h'⟩)
  have heq : tsGraphEqShallow s' s = true :=
    (tsEq_iff_edges C'.hyp.wf C.hyp.wf C'.hyp.cls C.hyp.cls hsub).mpr ⟨e1, e2⟩
  exact ⟨s', hs', e1, e2, heq, (tsGraphEqShallow_eq_graphEq C'.hyp.wf C.hyp.wf C'.hyp.cls C.hyp.cls).mp heq⟩

/-- the full fixed-point statement (equality of states: attributes and graph metadata included) -/
def stationary_idem_statement : Prop :=
  ∀ (g : Graph) (idx idx' : List String) (s : Graph), TsHyp g → TemplateConsistent g →
    listMax (lagsOf g) = some 0 → stationaryGraph g idx = .ok s → stationaryGraph s idx' = .ok s

/-- **C16 (least): every stationary, well-formed time-series graph that contains the input and spans the same window
    contains every node and every edge of the result.** -/
theorem stationary_least (hext : ExtendSpec) (h : TsHyp g) (hc : TemplateConsistent g) {lo : Int}
    (hr : LagRange g lo 0) {idx : List String} {s : Graph} (hs : stationaryGraph g idx = .ok s)
    {k : Graph} (hk : WF k) (ck : k.cls = .ts) (hn : ∀ n : String, n ∈ g.nodes → n ∈ k.nodes)
    (he : ∀ (a b : String) (ty : EdgeType), IsEdge g a b ty → IsEdge k a b ty)
    (hrk : LagRange k lo 0) (hst : Stationary k) :
    (∀ n : String, n ∈ s.nodes → n ∈ k.nodes) ∧
      ∀ (a b : String) (ty : EdgeType), IsEdge s a b ty → IsEdge k a b ty :=
  (completion hext h hc hr hs).least h hk ck hn he hrk hst

/-! ### `is_stationary_graph` -/

/-- **C16 (test, definition): `is_stationary_graph` answers `False` for a non-DAG and otherwise compares the
    completion with the input** (transcription) -/
theorem isStationary_def (g : Graph) (idx : List String) :
    isStationaryGraph g idx =
      if isDag g = true then (stationaryGraph g idx).map (fun s => tsGraphEqShallow s g) else .ok false := by
  unfold isStationaryGraph
  cases hd : isDag g
  · rfl
  · simp only [not_true_eq_false, if_false, if_true]
    cases stationaryGraph g idx <;> rfl

/-- **C16 (test): `False` for every graph that is not a DAG** — any graph, no hypothesis -/
theorem isStationary_nonDag (g : Graph) (idx : List String) (hd : isDag g = false) :
    isStationaryGraph g idx = .ok false := by
  rw [isStationary_def, hd]
  rfl

/-- on a DAG the test is the comparison -/
theorem isStationary_dag {idx : List String} {s : Graph} (hd : isDag g = true) (hs : stationaryGraph g idx = .ok s) :
    isStationaryGraph g idx = .ok (tsGraphEqShallow s g) := by
  rw [isStationary_def, if_pos hd, hs]
  rfl

/-- the test answers `True` exactly when the graph is a DAG, the completion exists and compares equal to the graph —
    any graph, no hypothesis (transcription) -/
theorem isStationary_true_iff (g : Graph) (idx : List String) :
    isStationaryGraph g idx = .ok true ↔
      isDag g = true ∧ ∃ s, stationaryGraph g idx = .ok s ∧ tsGraphEqShallow s g = true := by
  cases hd : isDag g
  · rw [isStationary_nonDag g idx hd]
    simp
  · cases hs : stationaryGraph g idx with
    | error e =>
      rw [isStationary_def, if_pos hd, hs]
      simp [Except.map]
    | ok s =>
      rw [isStationary_dag hd hs]
      simp

/-- **C16 (test): never raises** -/
theorem isStationary_ok (hext : ExtendSpec) (h : TsHyp g) (hc : TemplateConsistent g)
    (h0 : listMax (lagsOf g) = some 0) (idx : List String) : ∃ b, isStationaryGraph g idx = .ok b := by
  obtain ⟨s, hs⟩ := stationary_ok hext h hc h0 idx
  cases hd : isDag g
  · exact ⟨false, isStationary_nonDag g idx hd⟩
  · exact ⟨_, isStationary_dag hd hs⟩

/-- **C16 (test): the answer is `True` exactly when the graph is a DAG and its completion equals it** — equality as
    the modelled `CausalGraph.__eq__` (`graphEq false`), i.e. the same identifiers and, for every unordered pair,
    matching edges (`CG.C07.graphEq_iff`) -/
theorem isStationary_iff (hext : ExtendSpec) (h : TsHyp g) (hc : TemplateConsistent g)
    (h0 : listMax (lagsOf g) = some 0) {idx : List String} {b : Bool} (hb : isStationaryGraph g idx = .ok b) :
    ∃ s, stationaryGraph g idx = .ok s ∧
      (b = true ↔ isDag g = true ∧ graphEq false s g = .ok true) ∧
      (b = true ↔ isDag g = true ∧ (∀ n : String, n ∈ s.nodes ↔ n ∈ g.nodes) ∧
        ∀ x y : String, C07.EdgeMatch (C07.edgeBetween s x y) (C07.edgeBetween g x y)) := by
  obtain ⟨s, hs⟩ := stationary_ok hext h hc h0 idx
  obtain ⟨hs1, _, _⟩ := stationary_hyp hext h hc h0 hs
  have e1 := tsGraphEqShallow_eq_graphEq hs1.wf h.wf hs1.cls h.cls
  have e2 := tsEq_iff_structural hs1.wf h.wf hs1.cls h.cls
  refine ⟨s, hs, ?_, ?_⟩
  · cases hd : isDag g
    · rw [isStationary_nonDag g idx hd] at hb
      cases hb
      simp
    · rw [isStationary_dag hd hs] at hb
      cases hb
      rw [e1]
      simp
  · cases hd : isDag g
    · rw [isStationary_nonDag g idx hd] at hb
      cases hb
      simp
    · rw [isStationary_dag hd hs] at hb
      cases hb
      rw [e2]
      simp

/-- **C16 (test, semantic form): `is_stationary_graph(g)` is `True` exactly when `g` is a DAG and is stationary** — no
    variable is missing at a lag of its window and no template copy that fits in the window is missing
    (`stationary_iff_window` spells `Stationary g` out over the window `[lo, 0]`) -/
theorem isStationary_iff_stationary (hext : ExtendSpec) (h : TsHyp g) (hc : TemplateConsistent g)
    (h0 : listMax (lagsOf g) = some 0) (idx : List String) :
    isStationaryGraph g idx = .ok true ↔ isDag g = true ∧ Stationary g := by
  obtain ⟨lo, hr⟩ := lagRange_of_max h0
  obtain ⟨s, hs, C⟩ := stationaryGraph_completion hext h hc hr idx
  cases hd : isDag g
  · rw [isStationary_nonDag g idx hd]
    simp
  · rw [isStationary_dag hd hs, ← C.eq_iff_stationary h hr]
    simp

/-- the same with the window spelled out: on a DAG the test is `True` iff every variable is present at every lag of
    `[lo, 0]` and every template copy that fits in `[lo, 0]` is an edge -/
theorem isStationary_iff_nothing_missing (hext : ExtendSpec) (h : TsHyp g) (hc : TemplateConsistent g) {lo : Int}
    (hr : LagRange g lo 0) (hd : isDag g = true) (idx : List String) :
    isStationaryGraph g idx = .ok true ↔
      (∀ (v : String) (t : Int), IsVar g v → lo ≤ t → t ≤ 0 → fmt v t ∈ g.nodes) ∧
      (∀ (x y : String) (δ t : Int) (ty : EdgeType), IsTemplate g x y δ ty → lo ≤ t - δ → t ≤ 0 →
        IsEdge g (fmt x (t - δ)) (fmt y t) ty) := by
  rw [isStationary_iff_stationary hext h hc ((lagRange_iff g lo 0).mp hr).2 idx, stationary_iff_window hr]
  simp [hd]

/-- **C16 (test on the completion): `is_stationary_graph` accepts the completion exactly when the completion is a
    DAG** (it need not be: the templates may close a contemporaneous cycle that the input does not contain) -/
theorem isStationary_of_stationaryGraph (hext : ExtendSpec) (h : TsHyp g) (hc : TemplateConsistent g)
    (h0 : listMax (lagsOf g) = some 0) {idx : List String} (idx' : List String) {s : Graph}
    (hs : stationaryGraph g idx = .ok s) : isStationaryGraph s idx' = .ok (isDag s) := by
  obtain ⟨s', hs', _, _, heq, _⟩ := stationary_idem hext h hc h0 idx' hs
  cases hd : isDag s
  · exact isStationary_nonDag s idx' hd
  · rw [isStationary_dag hd hs', heq]

/-! ### a concrete input that meets the hypotheses (non-vacuity)

`X lag(n=1) -> X`, `X lag(n=2) -> X lag(n=1)` and the floating node `Y lag(n=2)`: a DAG with lag range `[-2, 0]`, one
template `(X, X, 1, ->)`; every copy of the template that fits is present, but `Y` is missing at lags `-1` and `0`. -/

namespace Demo

def tA : Tgt :=
  { sv := "X", sk := -1, svt := .unspecified, smd := [], dv := "X", dk := 0, dvt := .unspecified, dmd := [],
    ty := .directed, md := [] }
def tB : Tgt :=
  { sv := "X", sk := -2, svt := .unspecified, smd := [], dv := "X", dk := -1, dvt := .unspecified, dmd := [],
    ty := .directed, md := [] }

def gE : Graph := putAll (Graph.empty .ts []) [tA, tB]
def gd : Graph := putNode gE "Y" (-2) .binary []

theorem domX : Dom "X" := ⟨by decide, by decide⟩
theorem domY : Dom "Y" := ⟨by decide, by decide⟩
theorem xy : ("X" : String) ≠ "Y" := by decide

theorem fx_ne {k k' : Int} (hk : k ≠ k') : fmt "X" k ≠ fmt "X" k' := fun e => hk (fmt_inj domX domX e).2

theorem tA_good : tA.Good := ⟨domX, domX, by decide, fx_ne (by decide)⟩
theorem tB_good : tB.Good := ⟨domX, domX, by decide, fx_ne (by decide)⟩

theorem key_ne {k k' l l' : Int} (h : k ≠ k' ∨ l ≠ l') : (fmt "X" k, fmt "X" l) ≠ (fmt "X" k', fmt "X" l') := by
  intro e
  simp only [Prod.mk.injEq] at e
  rcases h with h | h
  · exact fx_ne h e.1
  · exact fx_ne h e.2

theorem gE_noRev : NoRev (Graph.empty .ts []) [tA, tB] := by
  intro t ht
  refine ⟨not_mem_empty_edges _ _ _, ?_⟩
  intro t' ht'
  simp only [List.mem_cons, List.mem_nil_iff, or_false] at ht ht'
  rcases ht with rfl | rfl <;> rcases ht' with rfl | rfl
  · exact key_ne (.inl (by decide))
  · exact key_ne (.inl (by decide))
  · exact key_ne (.inr (by decide))
  · exact key_ne (.inl (by decide))

theorem gE_tinv : TInv gE :=
  tinv_putAll (tinv_empty _) (by
    intro t ht
    simp only [List.mem_cons, List.mem_nil_iff, or_false] at ht
    rcases ht with rfl | rfl
    · exact tA_good
    · exact tB_good) gE_noRev

theorem gd_tinv : TInv gd := tinv_putNode gE_tinv domY _ _ _

theorem gd_hyp : TsHyp gd := tsHyp_of_tinv gd_tinv

theorem gd_edge {k : EKey} {r : EdgeRec} (h : gd.edges[k]? = some r) :
    (k = tA.key ∨ k = tB.key) ∧ r.ty = .directed := by
  have h' : gE.edges[k]? = some r := by simpa [gd] using h
  rcases getElem?_putAll_edges h' with h0 | ⟨t, ht, hk, rfl⟩
  · simp [Graph.empty] at h0
  · simp only [List.mem_cons, List.mem_nil_iff, or_false] at ht
    rcases ht with rfl | rfl
    · exact ⟨.inl hk.symm, rfl⟩
    · exact ⟨.inr hk.symm, rfl⟩

theorem gd_mem_edges (t : Tgt) (ht : t ∈ [tA, tB]) : t.key ∈ gd.edges := by
  have : t.key ∈ gE.edges := (mem_putAll_edges _ _ _).mpr (.inr ⟨t, ht, rfl⟩)
  simpa [gd] using this

/-- the nodes of `gd` -/
theorem gd_nodes (n : String) :
    n ∈ gd.nodes ↔ n = fmt "Y" (-2) ∨ n = fmt "X" (-1) ∨ n = fmt "X" 0 ∨ n = fmt "X" (-2) := by
  unfold gd gE
  rw [mem_putNode, mem_putAll_nodes (tinv_empty _).ends]
  simp only [List.mem_cons, List.mem_nil_iff, or_false]
  constructor
  · rintro (h | h | ⟨t, rfl | rfl, h | h⟩)
    · exact .inl h
    · exact absurd h (not_mem_empty_nodes _ _ _)
    · exact .inr (.inl h)
    · exact .inr (.inr (.inl h))
    · exact .inr (.inr (.inr h))
    · exact .inr (.inl h)
  · rintro (h | h | h | h)
    · exact .inl h
    · exact .inr (.inr ⟨tA, .inl rfl, .inl h⟩)
    · exact .inr (.inr ⟨tA, .inl rfl, .inr h⟩)
    · exact .inr (.inr ⟨tB, .inr rfl, .inl h⟩)

/-- variable and lag of every node of `gd` -/
theorem gd_rec {n : String} {r : NodeRec} (h : gd.nodes[n]? = some r) :
    (r.var = "Y" ∧ r.lag = -2) ∨ (r.var = "X" ∧ (r.lag = -1 ∨ r.lag = 0 ∨ r.lag = -2)) := by
  have hm := (gd_nodes n).mp ((mem_nodes_iff _ _).mpr ⟨r, h⟩)
  rcases hm with rfl | rfl | rfl | rfl
  · exact .inl (gd_tinv.canon.lookup domY h)
  · have := gd_tinv.canon.lookup domX h; exact .inr ⟨this.1, .inl this.2⟩
  · have := gd_tinv.canon.lookup domX h; exact .inr ⟨this.1, .inr (.inl this.2)⟩
  · have := gd_tinv.canon.lookup domX h; exact .inr ⟨this.1, .inr (.inr this.2)⟩

theorem gd_hasLag {v : String} {k : Int} (dv : Dom v) (hm : fmt v k ∈ gd.nodes) : HasLag gd k := by
  obtain ⟨r, hr⟩ := (mem_nodes_iff _ _).mp hm
  exact ⟨_, r, hr, (gd_tinv.canon.lookup dv hr).2⟩

theorem gd_lagRange : LagRange gd (-2) 0 := by
  refine ⟨gd_hasLag domY ((gd_nodes _).mpr (.inl rfl)), gd_hasLag domX ((gd_nodes _).mpr (.inr (.inr (.inl rfl)))), ?_⟩
  rintro k ⟨n, r, hr, rfl⟩
  rcases gd_rec hr with ⟨_, e⟩ | ⟨_, e | e | e⟩ <;> omega

theorem gd_max : listMax (lagsOf gd) = some 0 := ((lagRange_iff gd (-2) 0).mp gd_lagRange).2

/-- the only template of `gd` is `(X, X, 1, ->)` -/
theorem gd_template {s d : String} {δ : Int} {ty : EdgeType} (h : IsTemplate gd s d δ ty) :
    s = "X" ∧ d = "X" ∧ δ = 1 ∧ ty = .directed := by
  obtain ⟨a, b, ra, rb, re, he, ha, hb, rfl, rfl, rfl, rfl⟩ := h
  obtain ⟨hk, hty⟩ := gd_edge he
  rcases hk with hk | hk <;> simp only [Tgt.key, Tgt.a, Tgt.b, tA, tB, Prod.mk.injEq] at hk <;>
    obtain ⟨rfl, rfl⟩ := hk
  · have la := gd_tinv.canon.lookup domX ha
    have lb := gd_tinv.canon.lookup domX hb
    exact ⟨la.1, lb.1, by rw [la.2, lb.2]; decide, hty⟩
  · have la := gd_tinv.canon.lookup domX ha
    have lb := gd_tinv.canon.lookup domX hb
    exact ⟨la.1, lb.1, by rw [la.2, lb.2]; decide, hty⟩

theorem gd_consistent : TemplateConsistent gd :=
  ⟨fun _ _ _ _ _ h1 h2 => (gd_template h1).2.2.2.trans (gd_template h2).2.2.2.symm,
   fun _ _ _ _ h1 _ => absurd (gd_template h1).2.2.1 (by decide)⟩

theorem gd_isDag : isDag gd = true := by
  refine (isDag_iff gd_tinv.wf).mpr ⟨?_, ?_⟩
  · rintro ⟨k, r⟩ hm
    exact (gd_edge (ExtTreeMap.mem_toList_iff_getElem?_eq_some.mp hm)).2
  · -- every edge leads one step forward in time
    refine C02.acyclic_of_rank
      (fun n => if n = fmt "X" (-2) then 0 else if n = fmt "X" (-1) then 1 else 2) ?_
    rintro ⟨a, b⟩ he
    obtain ⟨r, hr, _⟩ := (mem_dirEdges gd a b).mp he
    have hk := (gd_edge hr).1
    simp only [Tgt.key, Tgt.a, Tgt.b, tA, tB, Prod.mk.injEq] at hk
    have n1 : fmt "X" (-1) ≠ fmt "X" (-2) := fx_ne (by decide)
    have n2 : fmt "X" 0 ≠ fmt "X" (-2) := fx_ne (by decide)
    have n3 : fmt "X" 0 ≠ fmt "X" (-1) := fx_ne (by decide)
    rcases hk with ⟨rfl, rfl⟩ | ⟨rfl, rfl⟩
    · simp [n1, n2, n3]
    · simp [n1]

/-- **the hypotheses of the C16 theorems are met by a non-trivial graph** -/
example : TsHyp gd ∧ TemplateConsistent gd ∧ isDag gd = true ∧ listMax (lagsOf gd) = some 0 ∧ LagRange gd (-2) 0 :=
  ⟨gd_hyp, gd_consistent, gd_isDag, gd_max, gd_lagRange⟩

/-- the hypotheses of `tsGraphEqShallow_eq_graphEq` / `tsEq_iff_structural` are met: the shallow comparison of `gd`
    with itself is the modelled `__eq__`, which is reflexive -/
example : tsGraphEqShallow gd gd = true :=
  (tsGraphEqShallow_eq_graphEq gd_hyp.wf gd_hyp.wf gd_hyp.cls gd_hyp.cls).mpr (C07.graphEq_refl false gd gd_hyp.wf)

theorem gd_isVarY : IsVar gd "Y" := by
  obtain ⟨r, hr⟩ := (mem_nodes_iff _ _).mp ((gd_nodes (fmt "Y" (-2))).mpr (.inl rfl))
  exact ⟨_, r, hr, (gd_tinv.canon.lookup domY hr).1⟩

theorem gd_isTemplate : IsTemplate gd "X" "X" 1 .directed := by
  obtain ⟨r, hr⟩ := (mem_edges_iff _ _).mp (gd_mem_edges tA (by simp))
  have := isTemplate_of_isEdge_fmt gd_hyp domX domX (k := -1) (t := 0) ⟨r, hr, (gd_edge hr).2⟩
  simpa using this

/-- the theorems apply to `gd`: its completion exists, holds `Y` at lag 0 (missing in `gd`) and the edge
    `X lag(n=1) -> X`, has no edge into `X lag(n=2)`, and the test answers `False` although `gd` is a DAG in which no
    template copy is missing -/
example (hext : ExtendSpec) : ∃ s, stationaryGraph gd [] = .ok s ∧ fmt "Y" 0 ∈ s.nodes ∧ fmt "Y" 0 ∉ gd.nodes ∧
    IsEdge s (fmt "X" (-1)) (fmt "X" 0) .directed ∧ ¬ IsEdge s (fmt "X" (-3)) (fmt "X" (-2)) .directed ∧
    isStationaryGraph gd [] = .ok false := by
  obtain ⟨s, hs⟩ := stationary_ok hext gd_hyp gd_consistent gd_max []
  have hY : fmt "Y" 0 ∉ gd.nodes := by
    intro hm
    rcases (gd_nodes _).mp hm with e | e | e | e
    · exact absurd (fmt_inj domY domY e).2 (by decide)
    · exact xy (fmt_inj domY domX e).1.symm
    · exact xy (fmt_inj domY domX e).1.symm
    · exact xy (fmt_inj domY domX e).1.symm
  refine ⟨s, hs, ?_, hY, ?_, ?_, ?_⟩
  · exact (stationary_nodes hext gd_hyp gd_consistent gd_lagRange hs _).mpr ⟨"Y", 0, gd_isVarY, by decide, by decide, rfl⟩
  · exact (stationary_complete hext gd_hyp gd_consistent gd_lagRange hs).1 "X" "X" 1 0 .directed gd_isTemplate
      (by decide) (by decide)
  · intro he
    obtain ⟨x, y, δ, t, ht, h1, _, _, e2⟩ := (stationary_edges hext gd_hyp gd_consistent gd_lagRange hs _ _ _).mp he
    obtain ⟨_, rfl, rfl, _⟩ := gd_template ht
    have := (fmt_inj domX domX e2).2
    omega
  · obtain ⟨b, hb⟩ := isStationary_ok hext gd_hyp gd_consistent gd_max []
    cases b
    · exact hb
    · have := ((isStationary_iff_nothing_missing hext gd_hyp gd_consistent gd_lagRange gd_isDag []).mp hb).1
        "Y" 0 gd_isVarY (by decide) (by decide)
      exact absurd this hY

end Demo

end CG.C16
