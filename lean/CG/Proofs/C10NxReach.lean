/-
C10, third-party half -- the algorithms networkx 3.2.1 runs for `descendants`, `ancestors`, `all_simple_paths` and
`to_numpy_array` compute the graph-theoretic notions the C10 / C08 models are defined by.

`CG/Model/NxReach.lean` transcribes `networkx.descendants` / `ancestors` (level-by-level breadth-first search
`generic_bfs_edges` with its depth limit `len(G)` and its early `return` at `len(seen) == len(G)`),
`networkx.all_simple_paths` (`_all_simple_paths_graph`: stack of child iterators, `visited` dict, cutoff `len(G) - 1`)
and `networkx.to_numpy_array`.  This file proves, for EVERY edge list whose end points lie within the node list
(`Within nodes E`; no acyclicity, no duplicate-freeness of `E`; cycles and self-loops allowed):

(a) `nxDescendants_iff` / `nxAncestors_iff`: the returned set is `{y | x →⁺ y ∧ y ≠ x}` / `{y | y →⁺ x ∧ y ≠ x}`: the
    source itself is never returned, also when it lies on a cycle (so on a cyclic graph networkx's `descendants` is NOT
    the transitive closure: `x →⁺ x` holds but `x` is left out; on a DAG the side condition is vacuous,
    `nxDescendants_dag`).  `nxDescendants_eq_model` / `nxAncestors_eq_model`: same members as the definitional
    `CG.Q.descendants` / `CG.Q.ancestors` of the C10 model; `getDescendants_agree` / `getAncestors_agree` for the
    checked wrappers.  Unknown source: `NetworkXError` and nothing else (`nxDescendants_ok_iff`).
(b) `nxAllSimplePaths_iff`: for `s ≠ t` in the graph the returned list holds exactly the duplicate-free walks from `s`
    to `t`; `nxAllSimplePaths_nodup`: no path twice; `nxAllSimplePaths_self`: `[]` when `s = t`;
    `nxAllSimplePaths_eq_model` / `nxAllSimplePaths_perm_model`: same members as / a permutation of the definitional
    `CG.Q.allCausalPaths`; `nxAllSimplePaths_order`: the ORDER is that of the recursive enumeration
    `CG.NxReachPaths.enum` (children in adjacency order, a path through a child before the next child).
(c) `nxToNumpyArray_entry`: on a duplicate-free node list entry `(i, j)` is `1` iff `(nodes[i], nodes[j]) ∈ E`, else `0`;
    `nxToNumpyArrayU_entry` for an undirected graph; `nxToNumpyArray_eq_model`: the matrix IS the assumed
    `CG.Mx.nxToNumpy` of the C08 model, for both kinds of graph.

`Within` cannot be dropped: `len(G)` enters both algorithms (`within_needed_desc`, `within_needed_paths`); for a real
networkx graph it always holds.

With this, the third-party assumption behind C10 (and the identify / conversion lanes) shrinks from "networkx's
traversals agree with the definitional model (measured)" to "`CG.NxReach` is a faithful transcription of ~70 lines of
Python (read, and measured by `nxreach …` lines, path order included)".
-/
import CG.Model.NxReach
import CG.Model.Queries
import CG.Model.Matrix
import CG.Proofs.C10
import CG.Proofs.Lemmas.NxReachBfs
import CG.Proofs.Lemmas.NxReachPaths
import CG.Proofs.Lemmas.NxReachMatrix
set_option linter.unusedSectionVars false
set_option linter.unusedSimpArgs false
set_option linter.unusedVariables false

namespace CG.NxReachProofs
variable {α : Type} [DecidableEq α]
open CG.NxReach CG.NxReachBfs CG.NxReachPaths CG.NxReachMatrix
open CG.EL (RTC TC Acyclic Rel rev succs preds)
open CG.Paths (Walk)

/-- equality of `Except` values is decidable (local: only used by the `decide` examples of this file) -/
@[instance_reducible] def exceptDecEq {ε β : Type} [DecidableEq ε] [DecidableEq β] : DecidableEq (Except ε β) := fun a b =>
  match a, b with
  | .ok x, .ok y => if h : x = y then isTrue (h ▸ rfl) else isFalse (fun e => h (Except.ok.inj e))
  | .error x, .error y => if h : x = y then isTrue (h ▸ rfl) else isFalse (fun e => h (Except.error.inj e))
  | .ok _, .error _ => isFalse (fun e => nomatch e)
  | .error _, .ok _ => isFalse (fun e => nomatch e)

attribute [local instance] exceptDecEq

/-- every edge joins two nodes of the graph (true of every networkx graph) -/
def Within (nodes : List α) (E : List (α × α)) : Prop := ∀ a b : α, (a, b) ∈ E → a ∈ nodes ∧ b ∈ nodes

variable {nodes : List α} {E : List (α × α)}

/-! ### (a) descendants / ancestors -/

theorem nb_adj : Nb (adj E) = Rel E := by
  funext a b
  exact propext mem_adj

theorem nb_radj : Nb (radj E) = Rel (rev E) := by
  funext a b
  apply propext
  unfold Nb radj
  rw [List.mem_eraseDups, CG.Q.mem_preds, CG.Q.rel_rev]

theorem rtc_ne_iff_tc_ne {R : α → α → Prop} {a b : α} : (RTC R a b ∧ b ≠ a) ↔ (TC R a b ∧ b ≠ a) := by
  constructor
  · rintro ⟨h, hne⟩
    rcases h.cases_tc with e | h'
    · exact absurd e.symm hne
    · exact ⟨h', hne⟩
  · rintro ⟨h, hne⟩
    exact ⟨h.toRTC, hne⟩

theorem tc_rev {a b : α} : TC (Rel (rev E)) a b ↔ TC (Rel E) b a := by
  constructor
  · intro h
    induction h with
    | single h => exact .single (CG.Q.rel_rev.mp h)
    | tail _ hbc ih => exact CG.EL.TC.head' (CG.Q.rel_rev.mp hbc) ih
  · intro h
    induction h with
    | single h => exact .single (CG.Q.rel_rev.mpr h)
    | tail _ hbc ih => exact CG.EL.TC.head' (CG.Q.rel_rev.mpr hbc) ih

theorem within_adj (hE : Within nodes E) : ∀ a b : α, a ∈ nodes → Nb (adj E) a b → b ∈ nodes := by
  intro a b _ h
  rw [nb_adj] at h
  exact (hE a b h).2

theorem within_radj (hE : Within nodes E) : ∀ a b : α, a ∈ nodes → Nb (radj E) a b → b ∈ nodes := by
  intro a b _ h
  rw [nb_radj] at h
  exact (hE b a (CG.Q.rel_rev.mp h)).1

theorem nxDescendants_eq {x : α} (hx : x ∈ nodes) :
    nxDescendants nodes E x = .ok ((genericBfsEdges nodes.length (adj E) x).map (·.2)) := by
  unfold nxDescendants bfsEdges
  simp [hx, Except.map]

theorem nxAncestors_eq {x : α} (hx : x ∈ nodes) :
    nxAncestors nodes E x = .ok ((genericBfsEdges nodes.length (radj E) x).map (·.2)) := by
  unfold nxAncestors bfsEdges
  simp [hx, Except.map]

/-- an unknown source is `NetworkXError` -/
theorem nxDescendants_error {x : α} (hx : x ∉ nodes) : nxDescendants nodes E x = .error .NetworkXError := by
  unfold nxDescendants bfsEdges
  simp [hx, Except.map]

theorem nxAncestors_error {x : α} (hx : x ∉ nodes) : nxAncestors nodes E x = .error .NetworkXError := by
  unfold nxAncestors bfsEdges
  simp [hx, Except.map]

/-- `descendants` returns a set exactly when the source is a node of the graph -/
theorem nxDescendants_ok_iff {x : α} : (∃ D, nxDescendants nodes E x = .ok D) ↔ x ∈ nodes := by
  by_cases hx : x ∈ nodes
  · exact ⟨fun _ => hx, fun _ => ⟨_, nxDescendants_eq hx⟩⟩
  · rw [nxDescendants_error hx]
    simp [hx]

theorem nxAncestors_ok_iff {x : α} : (∃ D, nxAncestors nodes E x = .ok D) ↔ x ∈ nodes := by
  by_cases hx : x ∈ nodes
  · exact ⟨fun _ => hx, fun _ => ⟨_, nxAncestors_eq hx⟩⟩
  · rw [nxAncestors_error hx]
    simp [hx]

theorem ok_source {x : α} {D : List α} (h : nxDescendants nodes E x = .ok D) : x ∈ nodes :=
  nxDescendants_ok_iff.mp ⟨D, h⟩

theorem ok_source' {x : α} {D : List α} (h : nxAncestors nodes E x = .ok D) : x ∈ nodes :=
  nxAncestors_ok_iff.mp ⟨D, h⟩

/-- reflexive-transitive form: what the search reaches, the source left out -/
theorem nxDescendants_rtc (hE : Within nodes E) {x : α} {D : List α} (h : nxDescendants nodes E x = .ok D) (y : α) :
    y ∈ D ↔ (RTC (Rel E) x y ∧ y ≠ x) := by
  have hx := ok_source h
  rw [nxDescendants_eq hx] at h
  cases h
  rw [mem_genericBfsEdges_children (within_adj hE) hx, nb_adj]

/-- **(a) `networkx.descendants(G, x)`** is the set of nodes that a non-empty directed path leads to from `x`, `x` itself
    left out (also when `x` lies on a cycle) -/
theorem nxDescendants_iff (hE : Within nodes E) {x : α} {D : List α} (h : nxDescendants nodes E x = .ok D) (y : α) :
    y ∈ D ↔ (TC (Rel E) x y ∧ y ≠ x) := by
  rw [nxDescendants_rtc hE h, rtc_ne_iff_tc_ne]

/-- the source is never its own descendant, cycle or not -/
theorem nxDescendants_source_not_mem (hE : Within nodes E) {x : α} {D : List α}
    (h : nxDescendants nodes E x = .ok D) : x ∉ D := fun hx => ((nxDescendants_iff hE h x).mp hx).2 rfl

/-- on a DAG the side condition is vacuous: the answer is the transitive closure -/
theorem nxDescendants_dag (hE : Within nodes E) (hac : Acyclic (Rel E)) {x : α} {D : List α}
    (h : nxDescendants nodes E x = .ok D) (y : α) : y ∈ D ↔ TC (Rel E) x y := by
  rw [nxDescendants_iff hE h]
  exact ⟨fun h => h.1, fun h => ⟨h, fun e => hac x (e ▸ h)⟩⟩

/-- the returned collection has no repeated member -/
theorem nxDescendants_nodup (hE : Within nodes E) {x : α} {D : List α} (h : nxDescendants nodes E x = .ok D) :
    D.Nodup := by
  have hx := ok_source h
  rw [nxDescendants_eq hx] at h
  cases h
  exact children_nodup (within_adj hE) hx

/-- same members as the definitional function of the C10 model -/
theorem nxDescendants_eq_model (hE : Within nodes E) {x : α} {D : List α} (h : nxDescendants nodes E x = .ok D)
    (y : α) : y ∈ D ↔ y ∈ CG.Q.descendants E x := by
  rw [nxDescendants_rtc hE h, CG.Q.mem_descendants]

theorem nxAncestors_rtc (hE : Within nodes E) {x : α} {A : List α} (h : nxAncestors nodes E x = .ok A) (y : α) :
    y ∈ A ↔ (RTC (Rel (rev E)) x y ∧ y ≠ x) := by
  have hx := ok_source' h
  rw [nxAncestors_eq hx] at h
  cases h
  rw [mem_genericBfsEdges_children (within_radj hE) hx, nb_radj]

/-- **(a) `networkx.ancestors(G, x)`**, stated on the reversed edge list -/
theorem nxAncestors_iff_rev (hE : Within nodes E) {x : α} {A : List α} (h : nxAncestors nodes E x = .ok A) (y : α) :
    y ∈ A ↔ (TC (Rel (rev E)) x y ∧ y ≠ x) := by
  rw [nxAncestors_rtc hE h, rtc_ne_iff_tc_ne]

/-- **(a) `networkx.ancestors(G, x)`** is the set of nodes from which a non-empty directed path leads to `x`, `x` itself
    left out -/
theorem nxAncestors_iff (hE : Within nodes E) {x : α} {A : List α} (h : nxAncestors nodes E x = .ok A) (y : α) :
    y ∈ A ↔ (TC (Rel E) y x ∧ y ≠ x) := by
  rw [nxAncestors_iff_rev hE h, tc_rev]

theorem nxAncestors_dag (hE : Within nodes E) (hac : Acyclic (Rel E)) {x : α} {A : List α}
    (h : nxAncestors nodes E x = .ok A) (y : α) : y ∈ A ↔ TC (Rel E) y x := by
  rw [nxAncestors_iff hE h]
  exact ⟨fun h => h.1, fun h => ⟨h, fun e => hac x (e ▸ h)⟩⟩

theorem nxAncestors_nodup (hE : Within nodes E) {x : α} {A : List α} (h : nxAncestors nodes E x = .ok A) :
    A.Nodup := by
  have hx := ok_source' h
  rw [nxAncestors_eq hx] at h
  cases h
  exact children_nodup (within_radj hE) hx

theorem nxAncestors_eq_model (hE : Within nodes E) {x : α} {A : List α} (h : nxAncestors nodes E x = .ok A)
    (y : α) : y ∈ A ↔ y ∈ CG.Q.ancestors E x := by
  rw [nxAncestors_rtc hE h, CG.Q.mem_ancestors, CG.Q.rtc_rev]

/-- `get_descendants` of the C10 model (`assert` + definitional search) and networkx's routine succeed on the same
    inputs and then hold the same nodes -/
theorem getDescendants_agree (hE : Within nodes E) (x : α) :
    (x ∉ nodes ∧ CG.Q.getDescendants nodes E x = .error .assertion ∧
        nxDescendants nodes E x = .error .NetworkXError) ∨
      (x ∈ nodes ∧ ∃ D, nxDescendants nodes E x = .ok D ∧
        CG.Q.getDescendants nodes E x = .ok (CG.Q.descendants E x) ∧ ∀ y, y ∈ D ↔ y ∈ CG.Q.descendants E x) := by
  by_cases hx : x ∈ nodes
  · refine Or.inr ⟨hx, _, nxDescendants_eq hx, by simp [CG.Q.getDescendants, hx], ?_⟩
    exact nxDescendants_eq_model hE (nxDescendants_eq hx)
  · exact Or.inl ⟨hx, by simp [CG.Q.getDescendants, hx], nxDescendants_error hx⟩

theorem getAncestors_agree (hE : Within nodes E) (x : α) :
    (x ∉ nodes ∧ CG.Q.getAncestors nodes E x = .error .assertion ∧
        nxAncestors nodes E x = .error .NetworkXError) ∨
      (x ∈ nodes ∧ ∃ A, nxAncestors nodes E x = .ok A ∧
        CG.Q.getAncestors nodes E x = .ok (CG.Q.ancestors E x) ∧ ∀ y, y ∈ A ↔ y ∈ CG.Q.ancestors E x) := by
  by_cases hx : x ∈ nodes
  · refine Or.inr ⟨hx, _, nxAncestors_eq hx, by simp [CG.Q.getAncestors, hx], ?_⟩
    exact nxAncestors_eq_model hE (nxAncestors_eq hx)
  · exact Or.inl ⟨hx, by simp [CG.Q.getAncestors, hx], nxAncestors_error hx⟩

/-! non-vacuity: a 5-node DAG in which 1 and 5 are joined by three paths; a cyclic graph with a self-loop -/

def exN : List Nat := [1, 2, 3, 4, 5]
def exP : List (Nat × Nat) := [(1, 2), (1, 3), (2, 5), (3, 4), (4, 5), (1, 5)]
def exC : List (Nat × Nat) := [(1, 2), (2, 1), (2, 3), (3, 3)]

theorem exP_within : Within exN exP := by
  intro a b h
  simp only [exP, List.mem_cons, Prod.mk.injEq, List.mem_nil_iff, or_false] at h
  rcases h with ⟨rfl, rfl⟩ | ⟨rfl, rfl⟩ | ⟨rfl, rfl⟩ | ⟨rfl, rfl⟩ | ⟨rfl, rfl⟩ | ⟨rfl, rfl⟩ <;> decide

theorem exC_within : Within [1, 2, 3] exC := by
  intro a b h
  simp only [exC, List.mem_cons, Prod.mk.injEq, List.mem_nil_iff, or_false] at h
  rcases h with ⟨rfl, rfl⟩ | ⟨rfl, rfl⟩ | ⟨rfl, rfl⟩ | ⟨rfl, rfl⟩ <;> decide

theorem exP_desc : nxDescendants exN exP 1 = .ok [2, 3, 5, 4] := by decide +kernel
theorem exP_anc : nxAncestors exN exP 5 = .ok [2, 4, 1, 3] := by decide +kernel

example (y : Nat) : y ∈ [2, 3, 5, 4] ↔ (TC (Rel exP) 1 y ∧ y ≠ 1) := nxDescendants_iff exP_within exP_desc y
example (y : Nat) : y ∈ [2, 4, 1, 3] ↔ (TC (Rel exP) y 5 ∧ y ≠ 5) := nxAncestors_iff exP_within exP_anc y

/-- the source lies on the cycle `1 → 2 → 1`: it is reachable from itself and still left out -/
example : nxDescendants [1, 2, 3] exC 1 = .ok [2, 3] ∧ TC (Rel exC) 1 1 ∧ nxAncestors [1, 2, 3] exC 3 = .ok [2, 1] := by
  refine ⟨by decide +kernel, ?_, by decide +kernel⟩
  have h12 : Rel exC 1 2 := by unfold Rel exC; decide
  have h21 : Rel exC 2 1 := by unfold Rel exC; decide
  exact .tail (.single h12) h21

example (y : Nat) : y ∈ [2, 3] ↔ (TC (Rel exC) 1 y ∧ y ≠ 1) :=
  nxDescendants_iff exC_within (by decide +kernel : nxDescendants [1, 2, 3] exC 1 = .ok [2, 3]) y

/-- `Within` is needed: with an edge that leaves the node list `len(G)` is too small, the depth limit cuts the search
    and `3` (reachable by `1 → 2 → 3`) is missed -/
theorem within_needed_desc : nxDescendants [1] [(1, 2), (2, 3)] 1 = .ok [2] ∧ TC (Rel [(1, 2), (2, 3)]) 1 3 := by
  refine ⟨by decide +kernel, ?_⟩
  have h12 : Rel [((1 : Nat), (2 : Nat)), (2, 3)] 1 2 := by unfold Rel; decide
  have h23 : Rel [((1 : Nat), (2 : Nat)), (2, 3)] 2 3 := by unfold Rel; decide
  exact .tail (.single h12) h23

/-! ### (b) all simple paths -/

theorem walk_in_nodes (hE : Within nodes E) {a b : α} {p : List α} (h : Walk E a b p) (ha : a ∈ nodes) :
    ∀ x, x ∈ p → x ∈ nodes := by
  induction h with
  | single a =>
    intro x hx
    simp only [List.mem_singleton] at hx
    subst hx; exact ha
  | cons hr _ ih =>
    intro x hx
    rcases List.mem_cons.mp hx with rfl | hx
    · exact ha
    · exact ih (hE _ _ hr).2 x hx

theorem two_nodes {s t : α} (hs : s ∈ nodes) (ht : t ∈ nodes) (hst : s ≠ t) : 2 ≤ nodes.length := by
  have h : [s, t].Nodup := by simp [hst]
  have := List.Nodup.length_le_of_subset h (l₂ := nodes) (by
    intro x hx
    simp only [List.mem_cons, List.mem_nil_iff, or_false] at hx
    rcases hx with rfl | rfl
    · exact hs
    · exact ht)
  simpa using this

/-- for known end points the result does not depend on how an unknown target would be read -/
theorem nxAllSimplePaths_eq (iterOf : α → Option (List α)) {s t : α} (hs : s ∈ nodes) (ht : t ∈ nodes) :
    nxAllSimplePaths iterOf nodes E s t = .ok (allSimplePathsT nodes E s [t]) := by
  unfold nxAllSimplePaths
  simp [hs, ht]

/-- an unknown source is `NodeNotFound` -/
theorem nxAllSimplePaths_error (iterOf : α → Option (List α)) {s : α} (t : α) (hs : s ∉ nodes) :
    nxAllSimplePaths iterOf nodes E s t = .error .NodeNotFound := by
  unfold nxAllSimplePaths
  simp [hs]

/-- an unknown target is `NodeNotFound` only when it cannot be iterated; a `str` never is an error -/
theorem nxAllSimplePaths_unknown_target (iterOf : α → Option (List α)) {s t : α} (hs : s ∈ nodes) (ht : t ∉ nodes) :
    nxAllSimplePaths iterOf nodes E s t =
      match iterOf t with
      | none => .error .NodeNotFound
      | some items => .ok (allSimplePathsT nodes E s items) := by
  unfold nxAllSimplePaths
  simp only [hs, ht, not_true_eq_false, not_false_eq_true, if_true, if_false]
  cases iterOf t <;> rfl

/-- **the ORDER of the generator**: the paths come out as in the recursive enumeration `enum` -/
theorem nxAllSimplePaths_order (iterOf : α → Option (List α)) {s t : α} (hs : s ∈ nodes) (ht : t ∈ nodes)
    (hst : s ≠ t) :
    nxAllSimplePaths iterOf nodes E s t = .ok (enum E [t] (nodes.length - 1) [s] (adj E s)) := by
  rw [nxAllSimplePaths_eq iterOf hs ht]
  have h2 := two_nodes hs ht hst
  unfold allSimplePathsT
  have h1 : ¬ s ∈ [t] := by simpa using hst
  have h3 : ¬ nodes.length - 1 < 1 := by omega
  rw [if_neg h1, if_neg h3, aspLoop_eq_enum]

theorem mem_enum_top (hE : Within nodes E) {s t : α} (hs : s ∈ nodes) (hst : s ≠ t) (h2 : 2 ≤ nodes.length)
    (p : List α) : p ∈ enum E [t] (nodes.length - 1) [s] (adj E s) ↔ (Walk E s t p ∧ p.Nodup) := by
  rw [mem_enum_single [s] (adj E s) (by simpa using Ne.symm hst) (by simp only [List.length_cons, List.length_nil]; omega)]
  unfold Yield
  constructor
  · rintro ⟨c, hc, q, hw, hnd, hav, _, rfl⟩
    refine ⟨by simpa using Walk.cons (mem_adj.mp hc) hw, ?_⟩
    simp only [List.reverse_cons, List.reverse_nil, List.nil_append, List.singleton_append]
    exact List.nodup_cons.mpr ⟨fun h => hav s h (by simp), hnd⟩
  · rintro ⟨hw, hnd⟩
    have hsub := walk_in_nodes hE hw hs
    have hlen := List.Nodup.length_le_of_subset hnd (fun x hx => hsub x hx)
    cases hw with
    | single => exact absurd rfl hst
    | cons hr hw' =>
      rename_i s' q
      have hnd' := List.nodup_cons.mp hnd
      refine ⟨s', mem_adj.mpr hr, q, hw', hnd'.2, ?_, ?_, by simp⟩
      · intro x hx h
        simp only [List.mem_singleton] at h
        subst h
        exact hnd'.1 hx
      · simp only [List.length_cons, List.length_nil] at hlen ⊢
        omega

/-- **(b) `networkx.all_simple_paths(G, s, t)`** for two different nodes of the graph lists exactly the simple directed
    paths from `s` to `t` -/
theorem nxAllSimplePaths_iff (iterOf : α → Option (List α)) (hE : Within nodes E) {s t : α} (hs : s ∈ nodes)
    (ht : t ∈ nodes) (hst : s ≠ t) {L : List (List α)} (h : nxAllSimplePaths iterOf nodes E s t = .ok L)
    (p : List α) : p ∈ L ↔ (Walk E s t p ∧ p.Nodup) := by
  rw [nxAllSimplePaths_order iterOf hs ht hst] at h
  cases h
  exact mem_enum_top hE hs hst (two_nodes hs ht hst) p

/-- no path is yielded twice (for any target set, any graph) -/
theorem allSimplePathsT_nodup (source : α) (targets : List α) : (allSimplePathsT nodes E source targets).Nodup := by
  unfold allSimplePathsT
  split
  · simp
  · split
    · simp
    · rw [aspLoop_eq_enum]
      exact enum_nodup (fun a => CG.NxPrune.nodup_eraseDups _ _ (Nat.le_refl _)) _ _
        (CG.NxPrune.nodup_eraseDups _ _ (Nat.le_refl _))

/-- **(b)** the returned list has no repetition (no hypothesis at all) -/
theorem nxAllSimplePaths_nodup (iterOf : α → Option (List α)) {s t : α} {L : List (List α)}
    (h : nxAllSimplePaths iterOf nodes E s t = .ok L) : L.Nodup := by
  unfold nxAllSimplePaths at h
  split at h
  · cases h
  · split at h
    · cases h; exact allSimplePathsT_nodup _ _
    · split at h
      · cases h
      · cases h; exact allSimplePathsT_nodup _ _

/-- `source == target`: nothing is yielded -/
theorem nxAllSimplePaths_self (iterOf : α → Option (List α)) {s : α} (hs : s ∈ nodes) :
    nxAllSimplePaths iterOf nodes E s s = .ok [] := by
  rw [nxAllSimplePaths_eq iterOf hs hs]
  unfold allSimplePathsT
  simp

/-- same members as the definitional enumeration behind `get_all_causal_paths` (also when `s = t`) -/
theorem nxAllSimplePaths_eq_model (iterOf : α → Option (List α)) (hE : Within nodes E) {s t : α} (hs : s ∈ nodes)
    (ht : t ∈ nodes) {L : List (List α)} (h : nxAllSimplePaths iterOf nodes E s t = .ok L) (p : List α) :
    p ∈ L ↔ p ∈ CG.Q.allCausalPaths E s t := by
  by_cases hst : s = t
  · subst hst
    rw [nxAllSimplePaths_self iterOf hs] at h
    cases h
    rw [CG.C10.allCausalPaths_self]
  · rw [nxAllSimplePaths_iff iterOf hE hs ht hst h, CG.C10.allCausalPaths_iff]
    exact ⟨fun h => ⟨hst, h⟩, fun h => h.2⟩

/-- … and, when `E` lists no edge twice, a permutation of it -/
theorem nxAllSimplePaths_perm_model (iterOf : α → Option (List α)) (hE : Within nodes E) (hnd : E.Nodup) {s t : α}
    (hs : s ∈ nodes) (ht : t ∈ nodes) {L : List (List α)} (h : nxAllSimplePaths iterOf nodes E s t = .ok L) :
    L.Perm (CG.Q.allCausalPaths E s t) :=
  (List.perm_ext_iff_of_nodup (nxAllSimplePaths_nodup iterOf h) (CG.C10.allCausalPaths_nodup hnd s t)).mpr
    (nxAllSimplePaths_eq_model iterOf hE hs ht h)

/-- `get_all_causal_paths` of the C10 model and networkx's routine on a DAG with known end points -/
theorem getAllCausalPaths_agree (iterOf : α → Option (List α)) (hE : Within nodes E) (hac : Acyclic (Rel E))
    {s t : α} (hs : s ∈ nodes) (ht : t ∈ nodes) :
    ∃ L, nxAllSimplePaths iterOf nodes E s t = .ok L ∧
      CG.Q.getAllCausalPaths nodes E s t = .ok (CG.Q.allCausalPaths E s t) ∧
      ∀ p, p ∈ L ↔ p ∈ CG.Q.allCausalPaths E s t := by
  refine ⟨_, nxAllSimplePaths_eq iterOf hs ht, ?_, nxAllSimplePaths_eq_model iterOf hE hs ht (nxAllSimplePaths_eq iterOf hs ht)⟩
  have hd : CG.Q.isDag E = true := (CG.C10.isDag_iff E).mpr hac
  simp [CG.Q.getAllCausalPaths, hd, hs, ht]

/-- three paths join 1 and 5, yielded in this order -/
theorem exP_paths : nxAllSimplePaths noItems exN exP 1 5 = .ok [[1, 2, 5], [1, 3, 4, 5], [1, 5]] := by decide +kernel

example (p : List Nat) : p ∈ [[1, 2, 5], [1, 3, 4, 5], [1, 5]] ↔ (Walk exP 1 5 p ∧ p.Nodup) :=
  nxAllSimplePaths_iff noItems exP_within (by decide) (by decide) (by decide) exP_paths p

example : [[1, 2, 5], [1, 3, 4, 5], [1, 5]].Perm (CG.Q.allCausalPaths exP 1 5) :=
  nxAllSimplePaths_perm_model noItems exP_within (by decide) (by decide) (by decide) exP_paths

/-- on a cyclic graph too: the walk `1 → 2 → 1 → 2 → 3` is not listed, the path `1 → 2 → 3` is -/
example : nxAllSimplePaths noItems [1, 2, 3] exC 1 3 = .ok [[1, 2, 3]] := by decide +kernel

/-- an unknown `str` target is read as the set of its characters -/
example : nxAllSimplePaths strItems ["a", "b", "c"] [("a", "b"), ("b", "c")] "a" "cb" = .ok [["a", "b"], ["a", "b", "c"]] ∧
    nxAllSimplePaths noItems [1, 2] [(1, 2)] 1 7 = .error .NodeNotFound ∧
    nxAllSimplePaths noItems [1, 2] [(1, 2)] 7 1 = .error .NodeNotFound := by
  refine ⟨by decide +kernel, by decide +kernel, by decide +kernel⟩

/-- `Within` is needed: with an edge that leaves the node list the cutoff `len(G) - 1` is too small and the simple path
    `1 → 3 → 2` is missed -/
theorem within_needed_paths : nxAllSimplePaths noItems [1, 2] [(1, 3), (3, 2)] 1 2 = .ok [] ∧
    Walk [(1, 3), (3, 2)] 1 2 [1, 3, 2] := by
  refine ⟨by decide +kernel, ?_⟩
  exact .cons (by unfold Rel; decide) (.cons (by unfold Rel; decide) (.single 2))

/-! ### (c) `to_numpy_array` -/

theorem nxToNumpyArray_eq_fold (nodes : List α) (E : List (α × α)) :
    nxToNumpyArray nodes E =
      E.foldl (fun A e => setEntry A (idx nodes e.1) (idx nodes e.2) 1) (zeros nodes.length) := by
  unfold nxToNumpyArray
  simp only []
  split
  · rename_i h
    rcases h with h | h
    · have hn : nodes = [] := List.length_eq_zero_iff.mp h
      subst hn
      have : ∀ (L : List (α × α)) (A : List (List Nat)), A = [] →
          L.foldl (fun A e => setEntry A (idx [] e.1) (idx [] e.2) 1) A = [] := by
        intro L
        induction L with
        | nil => intro A h; exact h
        | cons e L ih => intro A h; subst h; exact ih _ (by simp [setEntry])
      rw [this E _ (by simp [zeros])]
      simp [zeros]
    · have hn : E = [] := List.length_eq_zero_iff.mp h
      subst hn
      rfl
  · rfl

theorem nxToNumpyArrayU_eq_fold (nodes : List α) (E : List (α × α)) :
    nxToNumpyArrayU nodes E =
      E.foldl (fun A e => setEntry A (idx nodes e.2) (idx nodes e.1) 1)
        (E.foldl (fun A e => setEntry A (idx nodes e.1) (idx nodes e.2) 1) (zeros nodes.length)) := by
  unfold nxToNumpyArrayU
  simp only []
  split
  · rename_i h
    rcases h with h | h
    · have hn : nodes = [] := List.length_eq_zero_iff.mp h
      subst hn
      have : ∀ (f g : α × α → Nat) (L : List (α × α)) (A : List (List Nat)), A = [] →
          L.foldl (fun A e => setEntry A (f e) (g e) 1) A = [] := by
        intro f g L
        induction L with
        | nil => intro A h; exact h
        | cons e L ih => intro A h; subst h; exact ih _ (by simp [setEntry])
      rw [this (fun e => idx [] e.2) (fun e => idx [] e.1) E _
        (this (fun e => idx [] e.1) (fun e => idx [] e.2) E _ (by simp [zeros]))]
      simp [zeros]
    · have hn : E = [] := List.length_eq_zero_iff.mp h
      subst hn
      rfl
  · rfl

/-- the result is an `n × n` matrix -/
theorem nxToNumpyArray_dim (nodes : List α) (E : List (α × α)) : Dim nodes.length (nxToNumpyArray nodes E) := by
  rw [nxToNumpyArray_eq_fold]
  exact dim_fold (fun e : α × α => idx nodes e.1) (fun e => idx nodes e.2) E (dim_zeros _)

theorem nxToNumpyArrayU_dim (nodes : List α) (E : List (α × α)) : Dim nodes.length (nxToNumpyArrayU nodes E) := by
  rw [nxToNumpyArrayU_eq_fold]
  exact dim_fold (fun e : α × α => idx nodes e.2) (fun e => idx nodes e.1) E
    (dim_fold (fun e : α × α => idx nodes e.1) (fun e => idx nodes e.2) E (dim_zeros _))

theorem edge_idx_iff (hnd : nodes.Nodup) {i j : Nat} (hi : i < nodes.length) (hj : j < nodes.length) :
    (∃ e, e ∈ E ∧ idx nodes e.1 = i ∧ idx nodes e.2 = j) ↔ (nodes[i], nodes[j]) ∈ E := by
  constructor
  · rintro ⟨⟨a, b⟩, he, h1, h2⟩
    rw [idx_eq_iff hnd _ i hi] at h1
    rw [idx_eq_iff hnd _ j hj] at h2
    simp only at h1 h2
    rw [← h1, ← h2]
    exact he
  · intro h
    exact ⟨_, h, (idx_eq_iff hnd _ i hi).mpr rfl, (idx_eq_iff hnd _ j hj).mpr rfl⟩

/-- **(c) `networkx.to_numpy_array(G)`** of a directed graph: entry `(i, j)` is `1` when `nodes[i] → nodes[j]` is an edge
    and `0` otherwise -/
theorem nxToNumpyArray_entry_val (hnd : nodes.Nodup) {i j : Nat} (hi : i < nodes.length) (hj : j < nodes.length) :
    entry (nxToNumpyArray nodes E) i j = if (nodes[i], nodes[j]) ∈ E then 1 else 0 := by
  rw [nxToNumpyArray_eq_fold,
    entry_fold (fun e : α × α => idx nodes e.1) (fun e => idx nodes e.2) E (dim_zeros _) i j hi hj, entry_zeros]
  simp only [edge_idx_iff hnd hi hj]

theorem nxToNumpyArray_entry (hnd : nodes.Nodup) {i j : Nat} (hi : i < nodes.length) (hj : j < nodes.length) :
    entry (nxToNumpyArray nodes E) i j = 1 ↔ (nodes[i], nodes[j]) ∈ E := by
  rw [nxToNumpyArray_entry_val hnd hi hj]
  split <;> simp [*]

/-- undirected graph: both orientations are filled -/
theorem nxToNumpyArrayU_entry_val (hnd : nodes.Nodup) {i j : Nat} (hi : i < nodes.length) (hj : j < nodes.length) :
    entry (nxToNumpyArrayU nodes E) i j =
      if (nodes[i], nodes[j]) ∈ E ∨ (nodes[j], nodes[i]) ∈ E then 1 else 0 := by
  rw [nxToNumpyArrayU_eq_fold,
    entry_fold (fun e : α × α => idx nodes e.2) (fun e => idx nodes e.1) E
      (dim_fold (fun e : α × α => idx nodes e.1) (fun e => idx nodes e.2) E (dim_zeros _)) i j hi hj,
    entry_fold (fun e : α × α => idx nodes e.1) (fun e => idx nodes e.2) E (dim_zeros _) i j hi hj, entry_zeros]
  have h1 : (∃ e, e ∈ E ∧ idx nodes e.2 = i ∧ idx nodes e.1 = j) ↔ (nodes[j], nodes[i]) ∈ E := by
    rw [← edge_idx_iff hnd hj hi]
    exact ⟨fun ⟨e, he, a, b⟩ => ⟨e, he, b, a⟩, fun ⟨e, he, a, b⟩ => ⟨e, he, b, a⟩⟩
  simp only [edge_idx_iff hnd hi hj, h1]
  by_cases ha : (nodes[i], nodes[j]) ∈ E <;> by_cases hb : (nodes[j], nodes[i]) ∈ E <;> simp [ha, hb]

theorem nxToNumpyArrayU_entry (hnd : nodes.Nodup) {i j : Nat} (hi : i < nodes.length) (hj : j < nodes.length) :
    entry (nxToNumpyArrayU nodes E) i j = 1 ↔ ((nodes[i], nodes[j]) ∈ E ∨ (nodes[j], nodes[i]) ∈ E) := by
  rw [nxToNumpyArrayU_entry_val hnd hi hj]
  split <;> simp [*]

theorem nxToNumpyArrayU_symm (hnd : nodes.Nodup) {i j : Nat} (hi : i < nodes.length) (hj : j < nodes.length) :
    entry (nxToNumpyArrayU nodes E) i j = entry (nxToNumpyArrayU nodes E) j i := by
  rw [nxToNumpyArrayU_entry_val hnd hi hj, nxToNumpyArrayU_entry_val hnd hj hi]
  simp only [Or.comm]

/-- two `n × n` matrices with the same entries are equal -/
theorem dim_ext {n : Nat} {A B : List (List Nat)} (hA : Dim n A) (hB : Dim n B)
    (h : ∀ i j, i < n → j < n → entry A i j = entry B i j) : A = B := by
  apply List.ext_getElem (by rw [hA.1, hB.1])
  intro i hi hi'
  have hra : (A[i]).length = n := hA.2 _ (List.getElem_mem hi)
  have hrb : (B[i]).length = n := hB.2 _ (List.getElem_mem hi')
  apply List.ext_getElem (by rw [hra, hrb])
  intro j hj hj'
  have := h i j (by rw [← hA.1]; exact hi) (by rw [← hra]; exact hj)
  unfold entry at this
  rw [List.getElem?_eq_getElem hi, List.getElem?_eq_getElem hi'] at this
  simp only [Option.bind_some] at this
  rw [List.getElem?_eq_getElem hj, List.getElem?_eq_getElem hj'] at this
  simpa using this

theorem dim_model (x : CG.Mx.NX) : Dim x.nodes.length (CG.Mx.nxToNumpy x) := by
  unfold Dim CG.Mx.nxToNumpy
  refine ⟨by simp, ?_⟩
  intro row hrow
  obtain ⟨a, _, rfl⟩ := List.mem_map.mp hrow
  simp

theorem entry_model (x : CG.Mx.NX) {i j : Nat} (hi : i < x.nodes.length) (hj : j < x.nodes.length) :
    entry (CG.Mx.nxToNumpy x) i j = CG.Mx.nxEntry x x.nodes[i] x.nodes[j] := by
  unfold entry CG.Mx.nxToNumpy
  rw [List.getElem?_map, List.getElem?_eq_getElem hi]
  simp only [Option.map_some, Option.bind_some]
  rw [List.getElem?_map, List.getElem?_eq_getElem hj]
  simp

/-- **(c)** the transcription of `to_numpy_array` IS the behaviour the C08 model assumes of networkx
    (`CG.Mx.nxToNumpy`), for a `DiGraph` and for a `Graph` -/
theorem nxToNumpyArray_eq_model (x : CG.Mx.NX) (hnd : x.nodes.Nodup) :
    (if x.directed then nxToNumpyArray x.nodes x.edges else nxToNumpyArrayU x.nodes x.edges) = CG.Mx.nxToNumpy x := by
  cases hd : x.directed
  · simp only [Bool.false_eq_true, if_false]
    apply dim_ext (nxToNumpyArrayU_dim _ _) (dim_model x)
    intro i j hi hj
    rw [nxToNumpyArrayU_entry_val hnd hi hj, entry_model x hi hj]
    unfold CG.Mx.nxEntry
    simp only [hd, Bool.not_false, Bool.true_and, Bool.or_eq_true, List.contains_iff_mem]
  · simp only [if_true]
    apply dim_ext (nxToNumpyArray_dim _ _) (dim_model x)
    intro i j hi hj
    rw [nxToNumpyArray_entry_val hnd hi hj, entry_model x hi hj]
    unfold CG.Mx.nxEntry
    simp only [hd, Bool.not_true, Bool.false_and, Bool.or_false, List.contains_iff_mem]

example : nxToNumpyArray exN exP =
    [[0, 1, 1, 0, 1], [0, 0, 0, 0, 1], [0, 0, 0, 1, 0], [0, 0, 0, 0, 1], [0, 0, 0, 0, 0]] := by decide +kernel

example : entry (nxToNumpyArray exN exP) 2 3 = 1 ↔ ((3 : Nat), (4 : Nat)) ∈ exP :=
  nxToNumpyArray_entry (nodes := exN) (E := exP) (by decide) (i := 2) (j := 3) (by decide) (by decide)

end CG.NxReachProofs
