/-
C08, the lagged round trip: `from_adjacency_matrices(*to_numpy_by_lag())` equals the minimal graph — and C14's
`adjacency_matrices` is the template set written as one matrix per source lag.

What the code does (`time_series_causal_graph.py`): `to_numpy_by_lag()` exports the minimal graph `m` as a dictionary
`D` (source lag ↦ |vars| × |vars| matrix over the sorted variable names, `CG.C08.lagged_entry_law`);
`from_adjacency_matrices(D, vars)` adds delta 0 when absent, builds ONE block matrix over the names "every variable at
every listed delta" (variable-major, deltas in dictionary order), hands it to `from_adjacency_matrix` (upper-triangle
scan, deferred validation), and — `construct_minimal=True`, the default — returns `get_minimal_graph()` of the result.

Model: `CG.Mx.toNumpyByLagOf`, `CG.Mx.fromAdjacencyMatricesFull` (everything up to the minimisation), `CG.TS.minimalGraph`.

  fromAdjMatrices_toNumpyByLag        the property clause, on the input graph `g` (`LagInput g`: canonical names, consistent
                                      templates, only -> / --, undirected edges contemporaneous, ≥ 1 edge), `m` = its minimal
                                      graph: import ∘ minimise succeeds (validate = False, or `m` acyclic) with a graph `r`
                                      such that `LagImage m r` (same node identifiers, same directed edges, same unordered
                                      undirected pairs, fresh attributes, nothing else) and `r == m`, `m == r` for the
                                      library's equality; with validation a cyclic `m` is refused (`CyclicConnectionError`)
  fromAdjMatrices_toNumpyByLag_min    the same on any graph `m` of the domain `LagDomain` (every such minimal graph)
  fromAdjMatrices_toNumpyByLag_min_refused
  fromAdjMatrices_toNumpyByLag_full   the import WITHOUT minimisation: the block graph has every variable at every listed
                                      delta and at 0, exactly the directed edges / undirected pairs of `m`; acceptance and
                                      refusal under validation (corrected form of `fromAdjMatrices_toNumpyByLag_statement`)
  lagImage_eq                         `LagImage m r → graphEq false r m = ok true ∧ graphEq false m r = ok true`
  CG.C14.adjMatrices_eq               keys of `D` = minus the template differences; entry law in terms of templates
  CG.C14.adjMatrices_refuses_iff      `TypeError` exactly when some template is neither -> nor --

The node set: the block matrix creates EVERY variable at EVERY listed delta; the minimisation keeps template endpoints
plus each remaining variable once at lag 0 — which is the node set of `m` because `m` is its own minimal graph
(`LagDomain.nodes`).  A floating variable of `m` is a row / column of zeros and comes back as the lag-0 node.
Matrices carry no variable types, no metadata and no orientation of `--`: the re-imported `X -- Y` is stored from the
variable that sorts first, whatever `m` stored; `==` ignores all three.

Proof route: (1) `lawOn_block`: the block matrix obeys the entry law of `m` over the block names (cell law of the block
matrix `Lag.fullMatrix_block` + `lagged_entry_law` + the shape of `m`'s edges); (2) `Lag.fromAdj_of_lawOn`: hence the
constructor builds `blkGraph`, with `m`'s directed edges and undirected pairs; (3) every edge of `blkGraph` ends at lag 0,
so it is template-consistent, its templates ARE its edges (`consistent_of_dst0`, `minEdge_iff_isEdge`) and the C14
theorems (`minimal_edges`, `minimal_nodes`, …) describe its minimal graph; (4) `blk_minNode`: same `MinNode` as `m`.
-/
import CG.Proofs.Lemmas.LaggedBlocks
import CG.Proofs.C14Idem
import CG.Proofs.Lemmas.TSEq

set_option linter.unusedSimpArgs false

namespace CG.C08
open CG CG.Mx CG.Conv CG.TS CG.Name Std CG.C08.Lag CG.C08.Ts

/-! ### graphs all of whose edges end at lag 0 -/

/-- every edge ends at lag 0 -/
def Dst0 (x : Graph) : Prop :=
  ∀ (a c : String) (re : EdgeRec) (dr : NodeRec), x.edges[(a, c)]? = some re → x.nodes[c]? = some dr → dr.lag = 0

/-- everything about one edge of such a graph -/
theorem edge_shape {x : Graph} (hi : TInv x) (h0 : Dst0 x) {a c : String} {re : EdgeRec}
    (he : x.edges[(a, c)]? = some re) :
    ∃ sr dr : NodeRec, x.nodes[a]? = some sr ∧ x.nodes[c]? = some dr ∧ Dom sr.var ∧ Dom dr.var ∧
      a = fmt sr.var sr.lag ∧ c = fmt dr.var 0 ∧ dr.lag = 0 := by
  obtain ⟨sr, dr, ha, hc, _, _, ea, ec, ds, dd⟩ := (tsHyp_of_tinv hi).edge he
  have hz := h0 a c re dr he hc
  exact ⟨sr, dr, ha, hc, ds, dd, ea, by rw [ec, hz], hz⟩

/-- in such a graph a template IS its edge: `(s, d, δ, ty)` is a template exactly when the edge
    `fmt s (-δ) → fmt d 0` of type `ty` is stored -/
theorem isTemplate_iff_edge {x : Graph} (hi : TInv x) (h0 : Dst0 x) (s d : String) (δ : Int) (ty : EdgeType) :
    IsTemplate x s d δ ty ↔ Dom s ∧ Dom d ∧ IsEdge x (fmt s (-δ)) (fmt d 0) ty := by
  constructor
  · rintro ⟨a, b, ra, rb, re, he, ha, hb, rfl, rfl, rfl, rfl⟩
    obtain ⟨sr, dr, ha', hb', ds, dd, ea, eb, hz⟩ := edge_shape hi h0 he
    rw [ha] at ha'; rw [hb] at hb'; cases ha'; cases hb'
    refine ⟨ds, dd, re, ?_, rfl⟩
    have : -(rb.lag - ra.lag) = ra.lag := by omega
    rw [this, ← ea, ← eb]
    exact he
  · rintro ⟨ds, dd, re, he, rfl⟩
    obtain ⟨sr, dr, ha, hb, ds', dd', ea, eb, hz⟩ := edge_shape hi h0 he
    obtain ⟨e1, e2⟩ := fmt_inj ds ds' ea
    obtain ⟨e3, _⟩ := fmt_inj dd dd' eb
    exact ⟨_, _, sr, dr, re, he, ha, hb, e1.symm, e3.symm, by omega, rfl⟩

theorem minEdge_iff_isEdge {x : Graph} (hi : TInv x) (h0 : Dst0 x) (a b : String) (ty : EdgeType) :
    MinEdge x a b ty ↔ IsEdge x a b ty := by
  constructor
  · rintro ⟨s, d, δ, ht, ea, eb⟩
    rw [ea, eb]
    exact ((isTemplate_iff_edge hi h0 s d δ ty).mp ht).2.2
  · rintro ⟨re, he, rfl⟩
    obtain ⟨sr, dr, ha, hb, ds, dd, ea, eb, hz⟩ := edge_shape hi h0 he
    refine ⟨sr.var, dr.var, -sr.lag, (isTemplate_iff_edge hi h0 _ _ _ _).mpr ⟨ds, dd, re, ?_, rfl⟩, ?_, eb⟩
    · rw [Int.neg_neg, ← ea, ← eb]; exact he
    · rw [Int.neg_neg]; exact ea

/-- such a graph is template-consistent: a template is an edge, and there is one edge per unordered pair -/
theorem consistent_of_dst0 {x : Graph} (hi : TInv x) (h0 : Dst0 x) : TemplateConsistent x := by
  constructor
  · intro s d δ ty ty' h1 h2
    obtain ⟨_, _, r1, hr1, rfl⟩ := (isTemplate_iff_edge hi h0 s d δ ty).mp h1
    obtain ⟨_, _, r2, hr2, rfl⟩ := (isTemplate_iff_edge hi h0 s d δ ty').mp h2
    rw [hr1] at hr2; cases hr2; rfl
  · intro s d ty ty' h1 h2
    obtain ⟨_, _, r1, hr1, _⟩ := (isTemplate_iff_edge hi h0 s d 0 ty).mp h1
    obtain ⟨_, _, r2, hr2, _⟩ := (isTemplate_iff_edge hi h0 d s 0 ty').mp h2
    rw [Int.neg_zero] at hr1 hr2
    exact hi.wf.onePer _ _ ((CG.mem_edges_iff _ _).mpr ⟨r1, hr1⟩) ((CG.mem_edges_iff _ _).mpr ⟨r2, hr2⟩)

/-! ### the domain of the lagged round trip, stated on the minimal graph -/

/-- what the round trip needs of the graph `m` whose lagged matrices are exported (every minimal graph of a consistent
    input of `->` / contemporaneous `--` edges with at least one edge has these properties: `lagDomain_of_minimal`) -/
structure LagDomain (m : Graph) : Prop where
  /-- well-formed time-series graph with canonical node names -/
  inv : TInv m
  /-- every edge ends at lag 0 -/
  dst0 : Dst0 m
  /-- the nodes are the endpoints of the edges plus every other variable once, at lag 0 -/
  nodes : ∀ n : String, n ∈ m.nodes ↔ MinNode m n
  /-- only `->` and `--` -/
  only : OnlyDirUndir m
  /-- undirected edges are contemporaneous -/
  undir0 : ∀ (a c : String) (re : EdgeRec) (sr : NodeRec), m.edges[(a, c)]? = some re → re.ty = .undirected →
    m.nodes[a]? = some sr → sr.lag = 0
  /-- at least one edge -/
  nonempty : ∃ k : EKey, k ∈ m.edges

variable {m : Graph}

theorem LagDomain.hyp (hd : LagDomain m) : TsHyp m := tsHyp_of_tinv hd.inv

theorem LagDomain.var_dom (hd : LagDomain m) : ∀ v ∈ variables m, Dom v := fun _ hv => (hd.hyp.var_dom hv).1

/-- the shape of a directed edge of `m` -/
theorem LagDomain.dir_shape (hd : LagDomain m) {a b : String} (h : DirRel m a b) :
    ∃ (re : EdgeRec) (sr dr : NodeRec), m.edges[(a, b)]? = some re ∧ re.ty = .directed ∧ m.nodes[a]? = some sr ∧
      m.nodes[b]? = some dr ∧ Dom sr.var ∧ Dom dr.var ∧ a = fmt sr.var sr.lag ∧ b = fmt dr.var 0 := by
  obtain ⟨re, he, ht⟩ := h
  obtain ⟨sr, dr, ha, hb, ds, dd, ea, eb, _⟩ := edge_shape hd.inv hd.dst0 he
  exact ⟨re, sr, dr, he, ht, ha, hb, ds, dd, ea, eb⟩

/-- the shape of a stored undirected edge of `m`: both ends at lag 0 -/
theorem LagDomain.undir_shape (hd : LagDomain m) {a b : String} {re : EdgeRec} (he : m.edges[(a, b)]? = some re)
    (ht : re.ty = .undirected) :
    ∃ (sr dr : NodeRec), m.nodes[a]? = some sr ∧ m.nodes[b]? = some dr ∧ Dom sr.var ∧ Dom dr.var ∧
      a = fmt sr.var 0 ∧ b = fmt dr.var 0 ∧ sr.lag = 0 := by
  obtain ⟨sr, dr, ha, hb, ds, dd, ea, eb, _⟩ := edge_shape hd.inv hd.dst0 he
  have hz := hd.undir0 a b re sr he ht ha
  exact ⟨sr, dr, ha, hb, ds, dd, by rw [ea, hz], eb, hz⟩

/-! ### the block matrix of `to_numpy_by_lag()` obeys the entry law of `m` over the block names -/

/-- the dictionary the constructor works with, its keys, the node names and the block matrix, for the export `D` of `m` -/
abbrev blkMats (m : Graph) (D : List (Int × Mat)) : List (Int × Mat) := withZero (variables m).length D
abbrev blkNames (m : Graph) (D : List (Int × Mat)) : List String := blockNames (variables m) (keysOf (blkMats m D))
abbrev blkMatrix (m : Graph) (D : List (Int × Mat)) : Mat := fullMatrix (blkMats m D) (variables m).length

theorem fullMatrix_block' (mats : List (Int × Mat)) (V : Nat) (hnd : (keysOf mats).Nodup)
    (h0 : (0 : Int) ∈ keysOf mats) (r c t t' : Nat)
    (hr : r < V) (hc : c < V) (ht : t < (keysOf mats).length) (ht' : t' < (keysOf mats).length) :
    cell (fullMatrix mats V) (t + (keysOf mats).length * r) (t' + (keysOf mats).length * c) = 1 ↔
      t' = (keysOf mats).idxOf 0 ∧ lagCell mats (keysOf mats)[t] r c ≠ 0 := by
  rw [keysOf_length]
  exact fullMatrix_block mats V hnd h0 r c t t' hr hc ht ht'

theorem lawOn_block (hd : LagDomain m) {D : List (Int × Mat)} (hD : adjacencyMatricesOf m = .ok D) :
    LawOn m (blkNames m D) (blkMatrix m D) := by
  obtain ⟨e1, e2, e3⟩ := lagged_entry_law m hd.inv.wf D hD
  have hknd := adjacencyMatrices_keys_nodup m D hD
  obtain ⟨w1, w2, w3, w4, w5⟩ := withZero_spec (variables m).length D e1 hknd
  have hvnd := C12.variables_nodup m
  have hdom := hd.var_dom
  have hlen : (blkNames m D).length = (variables m).length * (keysOf (blkMats m D)).length := blockNames_length _ _
  -- a lag that occurs at a node is a key of the dictionary
  have hkey : ∀ (n : String) (r : NodeRec), m.nodes[n]? = some r → r.lag ∈ keysOf (blkMats m D) := by
    intro n r hr
    rcases (hd.nodes n).mp ((CG.mem_nodes_iff _ _).mpr ⟨r, hr⟩) with ⟨a, b, ty, hme, hab⟩ | ⟨v, hv, en, _⟩
    · obtain ⟨re, he, _⟩ := (minEdge_iff_isEdge hd.inv hd.dst0 a b ty).mp hme
      obtain ⟨sr, dr, ha, hb, _, _, _, _, hz⟩ := edge_shape hd.inv hd.dst0 he
      rcases hab with rfl | rfl
      · rw [hr] at ha; cases ha
        exact (w4 _).mpr (.inr ((mem_keysOf_iff D _).mpr ((e2 _).mpr ⟨_, _, re, r, he, hr, rfl⟩)))
      · rw [hr] at hb; cases hb
        rw [hz]; exact w3
    · have hv' : Dom v := hdom v ((isVar_iff_mem_variables m v).mp hv)
      rw [(hd.inv.canon.lookup hv' (en ▸ hr)).2]
      exact w3
  refine ⟨blockNames_nodup _ _ hvnd w2 hdom, ?_, ?_, ?_, fun i j _ _ => fullMatrix_le1 _ _ i j, ?_⟩
  · -- cover
    intro n hn
    obtain ⟨r, hr⟩ := (CG.mem_nodes_iff _ _).mp hn
    refine (mem_blockNames _ _ n).mpr ⟨r.var, (C12.mem_variables m r.var).mpr ⟨n, r, hr, rfl⟩, r.lag, hkey n r hr, ?_⟩
    exact (hd.inv.canon n r hr).2
  · -- parse
    intro n hn
    obtain ⟨v, hv, k, _, rfl⟩ := (mem_blockNames _ _ n).mp hn
    rw [parse_fmt_dom (hdom v hv) k]; rfl
  · -- dim
    have := (fullMatrix_cell (blkMats m D) (variables m).length).1
    rw [hlen, keysOf_length]
    exact this
  · -- the law
    intro i j hi hj hij
    rw [hlen] at hi hj
    obtain ⟨t, r, ht, hr, rfl⟩ := pos_decomp _ _ i hi
    obtain ⟨t', c, ht', hc, rfl⟩ := pos_decomp _ _ j hj
    have n1 : (blkNames m D)[t + (keysOf (blkMats m D)).length * r] =
        fmt (variables m)[r] (keysOf (blkMats m D))[t] :=
      (List.getElem?_eq_some_iff.mp (blockNames_getElem? _ _ r t hr ht)).2
    have n2 : (blkNames m D)[t' + (keysOf (blkMats m D)).length * c] =
        fmt (variables m)[c] (keysOf (blkMats m D))[t'] :=
      (List.getElem?_eq_some_iff.mp (blockNames_getElem? _ _ c t' hc ht')).2
    rw [n1, n2, fullMatrix_block' _ _ w2 w3 r c t t' hr hc ht ht', w5]
    obtain ⟨e4, e5⟩ := e3 (keysOf (blkMats m D))[t] r c hr hc
    have hne1 : lagCell D (keysOf (blkMats m D))[t] r c ≠ 0 ↔ lagCell D (keysOf (blkMats m D))[t] r c = 1 := by omega
    rw [hne1, e4]
    have dx : Dom (variables m)[r] := hdom _ (List.getElem_mem hr)
    have dy : Dom (variables m)[c] := hdom _ (List.getElem_mem hc)
    -- `t'` is the index of delta 0 exactly when the `t'`-th key is 0
    have hidx : t' = (keysOf (blkMats m D)).idxOf 0 ↔ (keysOf (blkMats m D))[t'] = 0 := by
      constructor
      · intro e
        subst e
        exact List.getElem_idxOf _
      · intro e
        have := w2.idxOf_getElem t' ht'
        rw [e] at this
        exact this.symm
    rw [hidx]
    constructor
    · rintro ⟨hz, s, d, re, rs, rd, he, hs, hd', hl, hcase⟩
      rw [hz]
      obtain ⟨sr, dr, ha, hb, _, _, ea, eb, _⟩ := edge_shape hd.inv hd.dst0 he
      rw [hs] at ha; rw [hd'] at hb; cases ha; cases hb
      rcases hcase with ⟨hty, x1, x2⟩ | ⟨hty, ⟨x1, x2⟩ | ⟨x1, x2⟩⟩
      · left
        refine ⟨re, ?_, hty⟩
        rw [← x1, ← x2, ← hl, ← ea, ← eb]; exact he
      · right; left
        refine ⟨re, ?_, hty⟩
        rw [← x1, ← x2, ← hl, ← ea, ← eb]; exact he
      · right; right
        have hz' := hd.undir0 s d re rs he hty hs
        refine ⟨re, ?_, hty⟩
        rw [← x1, ← x2, ← hl, hz', ← eb]
        have : s = fmt rs.var 0 := by rw [ea, hz']
        rw [← this]; exact he
    · rintro (hdir | ⟨re, he, hty⟩ | ⟨re, he, hty⟩)
      · obtain ⟨re, sr, dr, he, hty, ha, hb, ds, dd, ea, eb⟩ := hd.dir_shape hdir
        obtain ⟨y1, y2⟩ := fmt_inj dx ds ea
        obtain ⟨y3, y4⟩ := fmt_inj dy dd eb
        exact ⟨y4, _, _, re, sr, dr, he, ha, hb, y2.symm, .inl ⟨hty, y1.symm, y3.symm⟩⟩
      · obtain ⟨sr, dr, ha, hb, ds, dd, ea, eb, _⟩ := edge_shape hd.inv hd.dst0 he
        obtain ⟨y1, y2⟩ := fmt_inj dx ds ea
        obtain ⟨y3, y4⟩ := fmt_inj dy dd eb
        exact ⟨y4, _, _, re, sr, dr, he, ha, hb, y2.symm, .inr ⟨hty, .inl ⟨y1.symm, y3.symm⟩⟩⟩
      · obtain ⟨sr, dr, ha, hb, ds, dd, ea, eb, hz⟩ := hd.undir_shape he hty
        obtain ⟨y1, y2⟩ := fmt_inj dy ds ea
        obtain ⟨y3, y4⟩ := fmt_inj dx dd eb
        exact ⟨y2, _, _, re, sr, dr, he, ha, hb, by rw [hz, y4], .inr ⟨hty, .inr ⟨y3.symm, y1.symm⟩⟩⟩

/-! ### the graph built without minimisation -/

/-- the graph `from_adjacency_matrices(*to_numpy_by_lag(), construct_minimal=False)` builds: every variable of `m` at
    every listed time delta (and at 0), the edges the scan reads off the block matrix -/
abbrev blkGraph (m : Graph) (D : List (Int × Mat)) : Graph := builtGraphTs (blkMatrix m D) (blkNames m D)

section blk
variable {D : List (Int × Mat)}

theorem tsFresh_fmt {v : String} (hv : Dom v) (k : Int) :
    tsFresh (fmt v k) = { vtype := .unspecified, md := [], var := v, lag := k } := by
  simp [tsFresh, parse_fmt_dom hv k]

theorem blk_nodes_lookup (hd : LagDomain m) (hD : adjacencyMatricesOf m = .ok D) (n : String) (rec : NodeRec) :
    (blkGraph m D).nodes[n]? = some rec ↔ n ∈ blkNames m D ∧ rec = tsFresh n := by
  have hnd := (lawOn_block hd hD).nodup
  have hpw : ((blkNames m D).map (fun n => (n, tsFresh n))).Pairwise (fun a b => a.1 ≠ b.1) := by
    rw [List.pairwise_map]
    exact hnd.imp (fun h => h)
  constructor
  · intro h
    have := mem_of_getElem?_insAll _ n rec hpw h
    obtain ⟨n', hn', e⟩ := List.mem_map.mp this
    simp only [Prod.mk.injEq] at e
    obtain ⟨rfl, rfl⟩ := e
    exact ⟨hn', rfl⟩
  · rintro ⟨hn, rfl⟩
    exact getElem?_insAll_of_mem _ _ _ _ hpw (List.mem_map.mpr ⟨n, hn, rfl⟩)

/-- a node of the block graph: a variable of `m` at a listed delta, with a fresh record -/
theorem blk_node (hd : LagDomain m) (hD : adjacencyMatricesOf m = .ok D) {n : String} {rec : NodeRec}
    (h : (blkGraph m D).nodes[n]? = some rec) :
    ∃ v ∈ variables m, ∃ k ∈ keysOf (blkMats m D), Dom v ∧ n = fmt v k ∧
      rec = { vtype := .unspecified, md := [], var := v, lag := k } := by
  obtain ⟨hn, rfl⟩ := (blk_nodes_lookup hd hD n rec).mp h
  obtain ⟨v, hv, k, hk, rfl⟩ := (mem_blockNames _ _ n).mp hn
  exact ⟨v, hv, k, hk, hd.var_dom v hv, rfl, tsFresh_fmt (hd.var_dom v hv) k⟩

theorem blk_eq (hd : LagDomain m) (hD : adjacencyMatricesOf m = .ok D) :
    fromAdjacencyMatrix .ts (blkMatrix m D) (some (blkNames m D)) false = (blkGraph m D, none) :=
  fromAdj_of_lawOn hd.inv.wf hd.inv.cls (lawOn_block hd hD)

theorem blk_tinv (hd : LagDomain m) (hD : adjacencyMatricesOf m = .ok D) : TInv (blkGraph m D) := by
  refine ⟨?_, rfl, ?_⟩
  · have := fromAdj_wf .ts (blkMatrix m D) (some (blkNames m D)) false
    rw [blk_eq hd hD] at this
    exact this
  · intro n rec h
    obtain ⟨v, _, k, _, dv, rfl, rfl⟩ := blk_node hd hD h
    exact ⟨dv, rfl⟩

theorem blk_dir (hd : LagDomain m) (hD : adjacencyMatricesOf m = .ok D) (a b : String) :
    DirRel (blkGraph m D) a b ↔ DirRel m a b :=
  builtTs_dir_on hd.inv.wf hd.inv.cls (lawOn_block hd hD) a b

theorem blk_undir (hd : LagDomain m) (hD : adjacencyMatricesOf m = .ok D) (a b : String) :
    UndirBetween (blkGraph m D) a b ↔ UndirBetween m a b :=
  builtTs_undir_on hd.inv.wf (lawOn_block hd hD) a b

theorem blk_only (hd : LagDomain m) (hD : adjacencyMatricesOf m = .ok D) : OnlyDirUndir (blkGraph m D) :=
  (builtTs_only_on hd.inv.wf (lawOn_block hd hD)).1

theorem blk_bare (hd : LagDomain m) (hD : adjacencyMatricesOf m = .ok D) :
    ∀ (k : EKey) (r : EdgeRec), (blkGraph m D).edges[k]? = some r → r.md = [] :=
  (builtTs_only_on hd.inv.wf (lawOn_block hd hD)).2

/-- every edge of the block graph ends at lag 0 -/
theorem blk_dst0 (hd : LagDomain m) (hD : adjacencyMatricesOf m = .ok D) : Dst0 (blkGraph m D) := by
  intro a c re dr he hc
  have hi := blk_tinv hd hD
  have at0 : ∀ (v : String), Dom v → c = fmt v 0 → dr.lag = 0 := by
    intro v dv e
    exact (hi.canon.lookup dv (e ▸ hc)).2
  rcases blk_only hd hD _ re he with hty | hty
  · obtain ⟨_, _, dr', _, _, _, _, _, dd, _, eb⟩ := hd.dir_shape ((blk_dir hd hD a c).mp ⟨re, he, hty⟩)
    exact at0 _ dd eb
  · rcases (blk_undir hd hD a c).mp (.inl ⟨re, he, hty⟩) with ⟨re', he', hty'⟩ | ⟨re', he', hty'⟩
    · obtain ⟨_, dr', _, _, _, dd, _, eb, _⟩ := hd.undir_shape he' hty'
      exact at0 _ dd eb
    · obtain ⟨sr', _, _, _, ds, _, ea, _, _⟩ := hd.undir_shape he' hty'
      exact at0 _ ds ea

/-- the variables of the block graph are the variables of `m` -/
theorem blk_isVar (hd : LagDomain m) (hD : adjacencyMatricesOf m = .ok D) (v : String) :
    IsVar (blkGraph m D) v ↔ IsVar m v := by
  rw [isVar_iff_mem_variables m v]
  constructor
  · rintro ⟨n, rec, h, rfl⟩
    obtain ⟨v, hv, k, _, _, _, rfl⟩ := blk_node hd hD h
    exact hv
  · intro hv
    have dv := hd.var_dom v hv
    obtain ⟨_, _, w3, _, _⟩ := withZero_spec (variables m).length D
      (lagged_entry_law m hd.inv.wf D hD).1 (adjacencyMatrices_keys_nodup m D hD)
    refine ⟨fmt v 0, tsFresh (fmt v 0), (blk_nodes_lookup hd hD _ _).mpr ⟨?_, rfl⟩, ?_⟩
    · exact (mem_blockNames _ _ _).mpr ⟨v, hv, 0, w3, rfl⟩
    · rw [tsFresh_fmt dv 0]

/-- the edges of the block graph and of `m` agree up to the stored orientation of `--` -/
theorem blk_edge_transfer (hd : LagDomain m) (hD : adjacencyMatricesOf m = .ok D) (P : String → String → Prop)
    (hP : ∀ a b, P a b → P b a) :
    (∃ (a b : String) (ty : EdgeType), IsEdge (blkGraph m D) a b ty ∧ P a b) ↔
      (∃ (a b : String) (ty : EdgeType), IsEdge m a b ty ∧ P a b) := by
  constructor
  · rintro ⟨a, b, ty, ⟨re, he, rfl⟩, hp⟩
    rcases blk_only hd hD _ re he with hty | hty
    · obtain ⟨re', he', hty'⟩ := (blk_dir hd hD a b).mp ⟨re, he, hty⟩
      exact ⟨a, b, _, ⟨re', he', rfl⟩, hp⟩
    · rcases (blk_undir hd hD a b).mp (.inl ⟨re, he, hty⟩) with ⟨re', he', _⟩ | ⟨re', he', _⟩
      · exact ⟨a, b, _, ⟨re', he', rfl⟩, hp⟩
      · exact ⟨b, a, _, ⟨re', he', rfl⟩, hP _ _ hp⟩
  · rintro ⟨a, b, ty, ⟨re, he, rfl⟩, hp⟩
    rcases hd.only _ re he with hty | hty
    · obtain ⟨re', he', hty'⟩ := (blk_dir hd hD a b).mpr ⟨re, he, hty⟩
      exact ⟨a, b, _, ⟨re', he', rfl⟩, hp⟩
    · rcases (blk_undir hd hD a b).mpr (.inl ⟨re, he, hty⟩) with ⟨re', he', _⟩ | ⟨re', he', _⟩
      · exact ⟨a, b, _, ⟨re', he', rfl⟩, hp⟩
      · exact ⟨b, a, _, ⟨re', he', rfl⟩, hP _ _ hp⟩

theorem blk_minNode (hd : LagDomain m) (hD : adjacencyMatricesOf m = .ok D) (n : String) :
    MinNode (blkGraph m D) n ↔ MinNode m n := by
  have hi := blk_tinv hd hD
  have h0 := blk_dst0 hd hD
  unfold MinNode
  simp only [minEdge_iff_isEdge hi h0, minEdge_iff_isEdge hd.inv hd.dst0, blk_isVar hd hD]
  have t1 := blk_edge_transfer hd hD (fun a b => n = a ∨ n = b) (fun a b h => h.symm)
  have t2 : ∀ v : String, (∃ (a b : String) (ty : EdgeType) (k : Int), IsEdge (blkGraph m D) a b ty ∧ (a = fmt v k ∨ b = fmt v k)) ↔
      (∃ (a b : String) (ty : EdgeType) (k : Int), IsEdge m a b ty ∧ (a = fmt v k ∨ b = fmt v k)) := by
    intro v
    have := blk_edge_transfer hd hD (fun a b => ∃ k : Int, a = fmt v k ∨ b = fmt v k)
      (fun a b ⟨k, h⟩ => ⟨k, h.symm⟩)
    constructor
    · rintro ⟨a, b, ty, k, h1, h2⟩
      obtain ⟨a', b', ty', h1', k', h2'⟩ := this.mp ⟨a, b, ty, h1, k, h2⟩
      exact ⟨a', b', ty', k', h1', h2'⟩
    · rintro ⟨a, b, ty, k, h1, h2⟩
      obtain ⟨a', b', ty', h1', k', h2'⟩ := this.mpr ⟨a, b, ty, h1, k, h2⟩
      exact ⟨a', b', ty', k', h1', h2'⟩
  simp only [t1, t2]

end blk

/-! ### the minimal graph of the block graph -/

/-- what the lagged matrices carry of a minimal graph `m`: the node identifiers (variable types and metadata are reset),
    the directed edges, the unordered undirected pairs; nothing else is present -/
structure LagImage (m r : Graph) : Prop where
  wf : WF r
  cls : r.cls = .ts
  nodes : ∀ n : String, n ∈ r.nodes ↔ n ∈ m.nodes
  fresh : ∀ (n : String) (rec : NodeRec), r.nodes[n]? = some rec → rec.vtype = .unspecified ∧ rec.md = []
  dir : ∀ a b : String, DirRel r a b ↔ DirRel m a b
  undir : ∀ a b : String, UndirBetween r a b ↔ UndirBetween m a b
  only : OnlyDirUndir r
  bare : ∀ (k : EKey) (rec : EdgeRec), r.edges[k]? = some rec → rec.md = []
  gmeta : r.gmeta = []

theorem blk_minimal (hd : LagDomain m) {D : List (Int × Mat)} (hD : adjacencyMatricesOf m = .ok D) (idx : List String) :
    ∃ r, minimalGraph (blkGraph m D) idx = .ok r ∧ LagImage m r := by
  have hi := blk_tinv hd hD
  have h0 := blk_dst0 hd hD
  have hF := tsHyp_of_tinv hi
  have hcF := consistent_of_dst0 hi h0
  obtain ⟨r, hr⟩ := C14.minimal_ok hF hcF idx
  have hedge : ∀ (a b : String) (ty : EdgeType), IsEdge r a b ty ↔ IsEdge (blkGraph m D) a b ty := fun a b ty =>
    (C14.minimal_edges hF hcF idx hr a b ty).trans (minEdge_iff_isEdge hi h0 a b ty)
  have hdir : ∀ a b : String, DirRel r a b ↔ DirRel (blkGraph m D) a b := fun a b => hedge a b .directed
  refine ⟨r, hr, (C14.minimal_tsHyp hF hcF idx hr).wf, (C14.minimal_meta hF hcF idx hr).1, ?_, ?_, ?_, ?_, ?_, ?_, ?_⟩
  · intro n
    rw [C14.minimal_nodes hF hcF idx hr n, blk_minNode hd hD n, hd.nodes n]
  · intro n rec hrec
    obtain ⟨n0, r0, h0', _, e2, e3⟩ := C14.minimal_node_source hF hcF idx hr hrec
    obtain ⟨_, _, _, _, _, _, rfl⟩ := blk_node hd hD h0'
    exact ⟨e2, e3⟩
  · intro a b
    exact (hdir a b).trans (blk_dir hd hD a b)
  · intro a b
    refine Iff.trans ?_ (blk_undir hd hD a b)
    exact or_congr (hedge a b .undirected) (hedge b a .undirected)
  · intro k rec hrec
    obtain ⟨re, he, hty⟩ := (hedge k.1 k.2 rec.ty).mp ⟨rec, hrec, rfl⟩
    rw [← hty]
    exact blk_only hd hD _ re he
  · intro k rec hrec
    obtain ⟨a0, b0, _, _, he, _⟩ := C14.minimal_edge_source hF hcF idx hr (a := k.1) (b := k.2) hrec
    exact blk_bare hd hD _ rec he
  · rw [(C14.minimal_meta hF hcF idx hr).2]; rfl

/-! ### `from_adjacency_matrices` on the export, step by step -/

theorem cell_in_range (V : Nat) (M : Mat) (hM : Dim V M) (r c : Nat) (h : cell M r c ≠ 0) : r < V ∧ c < V := by
  unfold cell at h
  cases hrow : M[r]? with
  | none => simp [hrow] at h
  | some row =>
    cases hx : row[c]? with
    | none => simp [hrow, hx] at h
    | some x =>
      obtain ⟨h1, e1⟩ := List.getElem?_eq_some_iff.mp hrow
      obtain ⟨h2, _⟩ := List.getElem?_eq_some_iff.mp hx
      have := hM.2 row (e1 ▸ List.getElem_mem h1)
      exact ⟨hM.1 ▸ h1, this ▸ h2⟩

/-- everything `from_adjacency_matrices(D, vars, construct_minimal=False)` does before it calls `from_adjacency_matrix`:
    the shape test, the added delta 0, the name count, the node names, the index range -/
theorem full_unfold (D : List (Int × Mat)) (vars : List String) (v : Bool) (hdim : LDim vars.length D) (hne : D ≠ [])
    (hdom : ∀ x ∈ vars, Dom x) :
    fromAdjacencyMatricesFull D (some vars) v =
      fromAdjacencyMatrix .ts (fullMatrix (withZero vars.length D) vars.length)
        (some (blockNames vars (keysOf (withZero vars.length D)))) v := by
  have hshape : ∀ dm ∈ D, (dm.2.length, (dm.2.headD []).length) = (vars.length, vars.length) := by
    intro dm hdm
    obtain ⟨h1, h2⟩ := hdim dm hdm
    rw [h1]
    cases hM : dm.2 with
    | nil => rw [hM] at h1; simp at h1; simp [← h1]
    | cons row rest =>
      have := h2 row (by rw [hM]; exact List.mem_cons_self)
      simp [this]
  obtain ⟨dm0, rest, rfl⟩ := List.exists_cons_of_ne_nil hne
  unfold fromAdjacencyMatricesFull
  simp only [List.map_cons]
  have hall : ((dm0.2.length, (dm0.2.headD []).length) ::
      rest.map (fun dm => (dm.2.length, (dm.2.headD []).length))).all
      (fun s => decide (s = (dm0.2.length, (dm0.2.headD []).length))) = true := by
    rw [List.all_eq_true]
    intro s hs
    rw [hshape dm0 List.mem_cons_self]
    rcases List.mem_cons.mp hs with e | e
    · rw [e, hshape dm0 List.mem_cons_self]; simp
    · obtain ⟨dm, hdm, rfl⟩ := List.mem_map.mp e
      rw [hshape dm (List.mem_cons_of_mem _ hdm)]; simp
  rw [hall]
  have hR : dm0.2.length = vars.length := (hdim dm0 List.mem_cons_self).1
  simp only [Bool.not_true, Bool.false_eq_true, if_false, hR, if_true]
  have hw : (if (dm0 :: rest).any (fun dm => decide (dm.1 = 0)) = true then dm0 :: rest
      else dm0 :: rest ++ [(0, zeros vars.length vars.length)]) = withZero vars.length (dm0 :: rest) := rfl
  rw [hw, optAll_format vars _ hdom]
  simp only
  have hidx : (withZero vars.length (dm0 :: rest)).any
      (fun dm => (nonzeroCells dm.2).any (fun rc => decide (rc.2 ≥ vars.length))) = false := by
    rw [List.any_eq_false]
    intro dm hdm
    rw [Bool.not_eq_true, List.any_eq_false]
    rintro ⟨r, c⟩ hrc
    have hM := withZero_ldim vars.length (dm0 :: rest) hdim dm hdm
    have := (cell_in_range _ _ hM r c ((mem_nonzeroCells _ _ _).mp hrc)).2
    simp only [ge_iff_le, decide_eq_true_eq]
    omega
  rw [hidx]
  simp

/-! ### the export exists -/

theorem lagDomain_export (hd : LagDomain m) :
    ∃ D, adjacencyMatricesOf m = .ok D ∧ toNumpyByLagOf m = .ok (D, variables m) ∧ D ≠ [] ∧
      LDim (variables m).length D := by
  cases hD : adjacencyMatricesOf m with
  | error e =>
    obtain ⟨k, r, hr, h1, h2⟩ := (lagged_refuses_iff m).1.mp ⟨e, hD⟩
    rcases hd.only k r hr with h | h
    · exact absurd h h1
    · exact absurd h h2
  | ok D =>
    obtain ⟨e1, e2, _⟩ := lagged_entry_law m hd.inv.wf D hD
    refine ⟨D, rfl, ?_, ?_, e1⟩
    · unfold toNumpyByLagOf; rw [hD]; rfl
    · rintro rfl
      obtain ⟨⟨s, d⟩, hk⟩ := hd.nonempty
      obtain ⟨re, he⟩ := (CG.mem_edges_iff _ _).mp hk
      obtain ⟨sr, _, hs, _⟩ := edge_shape hd.inv hd.dst0 he
      have := (e2 sr.lag).mpr ⟨s, d, re, sr, he, hs, rfl⟩
      rw [lagLookup_nil] at this
      cases this

theorem blk_acyclic_iff (hd : LagDomain m) {D : List (Int × Mat)} (hD : adjacencyMatricesOf m = .ok D) :
    AcyclicG (blkGraph m D) ↔ AcyclicG m := by
  constructor
  · intro hac n hn
    refine hac n (TC.mono ?_ hn)
    intro a b hab
    rw [Conv.rel_dirEdges] at hab ⊢
    exact (blk_dir hd hD a b).mpr hab
  · intro hac n hn
    refine hac n (TC.mono ?_ hn)
    intro a b hab
    rw [Conv.rel_dirEdges] at hab ⊢
    exact (blk_dir hd hD a b).mp hab

/-! ### C08 (5c): `from_adjacency_matrices(*to_numpy_by_lag(), construct_minimal=False)` -/

/-- **C08 (5c), the import without minimisation.**  For a graph `m` in the domain (`LagDomain`: a minimal graph of `->`
    and contemporaneous `--` edges with at least one edge, canonical names) `to_numpy_by_lag()` succeeds with a non-empty
    dictionary, and `from_adjacency_matrices(D, vars, construct_minimal=False, validate)`
    * without validation builds the block graph `F`;
    * with validation builds the same graph when `m` is acyclic and is refused with `CyclicConnectionError` otherwise
      (a DAG can have a cyclic minimal graph; C02 demands the refusal);
    where `F` has every variable of `m` at every listed time delta and at delta 0, all with fresh records, exactly the
    directed edges of `m`, exactly the unordered undirected pairs of `m`, and nothing else.
    (This is `fromAdjMatrices_toNumpyByLag_statement` of `C08Lagged.lean` with the name hypothesis corrected, see the
    note at the end of the file.) -/
theorem fromAdjMatrices_toNumpyByLag_full (hd : LagDomain m) :
    ∃ (D : List (Int × Mat)) (F : Graph), toNumpyByLagOf m = .ok (D, variables m) ∧ D ≠ [] ∧
      fromAdjacencyMatricesFull D (some (variables m)) false = (F, none) ∧
      (AcyclicG m → fromAdjacencyMatricesFull D (some (variables m)) true = (F, none)) ∧
      (¬ AcyclicG m → fromAdjacencyMatricesFull D (some (variables m)) true = (F, some .cyclicConnection)) ∧
      (∀ n : String, n ∈ F.nodes ↔
        ∃ v ∈ variables m, ∃ k : Int, (k = 0 ∨ (lagLookup D k).isSome = true) ∧ n = fmt v k) ∧
      (∀ a b : String, DirRel F a b ↔ DirRel m a b) ∧ (∀ a b : String, UndirBetween F a b ↔ UndirBetween m a b) ∧
      OnlyDirUndir F := by
  obtain ⟨D, hD, hN, hne, hdim⟩ := lagDomain_export hd
  have hu := fun v => full_unfold D (variables m) v hdim hne hd.var_dom
  have hb := blk_eq hd hD
  have hval := fromAdj_validated_iff .ts _ _ _ hb
  refine ⟨D, blkGraph m D, hN, hne, ?_, ?_, ?_, ?_, blk_dir hd hD, blk_undir hd hD, blk_only hd hD⟩
  · rw [hu]; exact hb
  · intro hac; rw [hu]; exact hval.1 ((blk_acyclic_iff hd hD).mpr hac)
  · intro hcyc; rw [hu]; exact hval.2 (fun h => hcyc ((blk_acyclic_iff hd hD).mp h))
  · intro n
    obtain ⟨_, _, _, w4, _⟩ := withZero_spec (variables m).length D hdim (adjacencyMatrices_keys_nodup m D hD)
    rw [show n ∈ (blkGraph m D).nodes ↔ n ∈ blkNames m D from mem_tsFreshNodes _ n, mem_blockNames]
    constructor
    · rintro ⟨v, hv, k, hk, e⟩
      exact ⟨v, hv, k, ((w4 k).mp hk).imp id (mem_keysOf_iff D k).mp, e⟩
    · rintro ⟨v, hv, k, hk, e⟩
      exact ⟨v, hv, k, (w4 k).mpr (hk.imp id (mem_keysOf_iff D k).mpr), e⟩

/-! ### C08 (5): `from_adjacency_matrices(*to_numpy_by_lag())` equals the minimal graph -/

/-- **C08 (5), on a graph of the domain.**  With `construct_minimal=True` (the default): the import succeeds (without
    validation, or when `m` is acyclic) and the minimal graph of what it built is the lagged-matrix image of `m`: the same
    node identifiers, the same directed edges, the same unordered undirected pairs, fresh attributes, nothing else —
    for every insertion order `idx` of the variable index. -/
theorem fromAdjMatrices_toNumpyByLag_min (hd : LagDomain m) (v : Bool) (hv : v = true → AcyclicG m) (idx : List String) :
    ∃ (D : List (Int × Mat)) (F r : Graph), toNumpyByLagOf m = .ok (D, variables m) ∧
      fromAdjacencyMatricesFull D (some (variables m)) v = (F, none) ∧ minimalGraph F idx = .ok r ∧ LagImage m r := by
  obtain ⟨D, hD, hN, hne, hdim⟩ := lagDomain_export hd
  obtain ⟨r, hr, himg⟩ := blk_minimal hd hD idx
  refine ⟨D, blkGraph m D, r, hN, ?_, hr, himg⟩
  rw [full_unfold D (variables m) v hdim hne hd.var_dom]
  cases v with
  | false => exact blk_eq hd hD
  | true => exact (fromAdj_validated_iff .ts _ _ _ (blk_eq hd hD)).1 ((blk_acyclic_iff hd hD).mpr (hv rfl))

/-- … and with validation a cyclic minimal graph is refused (before any minimisation) -/
theorem fromAdjMatrices_toNumpyByLag_min_refused (hd : LagDomain m) (hcyc : ¬ AcyclicG m) :
    ∃ (D : List (Int × Mat)) (F : Graph), toNumpyByLagOf m = .ok (D, variables m) ∧
      fromAdjacencyMatricesFull D (some (variables m)) true = (F, some .cyclicConnection) := by
  obtain ⟨D, F, h1, _, _, _, h5, _⟩ := fromAdjMatrices_toNumpyByLag_full hd
  exact ⟨D, F, h1, h5 hcyc⟩

/-! ### the image is `==` to the minimal graph -/

theorem edgeBetween_rev {g : Graph} (hw : WF g) {a b : String} {re : EdgeRec} (h : g.edges[(b, a)]? = some re) :
    C07.edgeBetween g a b = some ((b, a), re) := by
  rw [C07.edgeBetween_comm hw a b]
  exact C07.edgeBetween_stored h

theorem edgeMatch_of_image {r : Graph} (hm : WF m) (honly : OnlyDirUndir m) (hi : LagImage m r) (a b : String) :
    C07.EdgeMatch (C07.edgeBetween r a b) (C07.edgeBetween m a b) := by
  have und : C07.symTypes = [.undirected, .bidirected, .unknown] := rfl
  -- an edge of `r` between `a` and `b` (either orientation) has its match in `m`
  have fwd : ∀ (x y : String) (re : EdgeRec), r.edges[(x, y)]? = some re →
      C07.edgeBetween r x y = some ((x, y), re) →
      C07.EdgeMatch (some ((x, y), re)) (C07.edgeBetween m x y) := by
    intro x y re he _
    rcases hi.only _ re he with hty | hty
    · obtain ⟨re', he', hty'⟩ := (hi.dir x y).mp ⟨re, he, hty⟩
      rw [C07.edgeBetween_stored he']
      exact ⟨by simp [hty, hty'], .inr rfl⟩
    · rcases (hi.undir x y).mp (.inl ⟨re, he, hty⟩) with ⟨re', he', hty'⟩ | ⟨re', he', hty'⟩
      · rw [C07.edgeBetween_stored he']
        exact ⟨by simp [hty, hty'], .inr rfl⟩
      · rw [edgeBetween_rev hm he']
        exact ⟨by simp [hty, hty'], .inl (by simp [hty, und])⟩
  cases hq : C07.edgeBetween r a b with
  | none =>
    obtain ⟨n1, n2⟩ := (C07.edgeBetween_none r a b).mp hq
    have : C07.edgeBetween m a b = none := by
      rw [C07.edgeBetween_none]
      constructor
      · cases h1 : m.edges[(a, b)]? with
        | none => rfl
        | some re =>
          exfalso
          rcases honly _ re h1 with hty | hty
          · obtain ⟨re', he', _⟩ := (hi.dir a b).mpr ⟨re, h1, hty⟩
            rw [n1] at he'; cases he'
          · rcases (hi.undir a b).mpr (.inl ⟨re, h1, hty⟩) with ⟨re', he', _⟩ | ⟨re', he', _⟩
            · rw [n1] at he'; cases he'
            · rw [n2] at he'; cases he'
      · cases h1 : m.edges[(b, a)]? with
        | none => rfl
        | some re =>
          exfalso
          rcases honly _ re h1 with hty | hty
          · obtain ⟨re', he', _⟩ := (hi.dir b a).mpr ⟨re, h1, hty⟩
            rw [n2] at he'; cases he'
          · rcases (hi.undir b a).mpr (.inl ⟨re, h1, hty⟩) with ⟨re', he', _⟩ | ⟨re', he', _⟩
            · rw [n2] at he'; cases he'
            · rw [n1] at he'; cases he'
    rw [this]; trivial
  | some kv =>
    obtain ⟨h1, h2⟩ := C07.edgeBetween_some hq
    obtain ⟨k, re⟩ := kv
    rcases h2 with e | ⟨e, _⟩
    · simp only at e h1; subst e
      exact fwd a b re h1 hq
    · simp only at e h1; subst e
      have := fwd b a re h1 (C07.edgeBetween_stored h1)
      rw [C07.edgeBetween_comm hm b a] at this
      exact this

/-- **the lagged-matrix image of `m` is equal to `m`** for the library's `==` (`CausalGraph.__eq__`, `deep=False`: node
    identifiers, variable names and lags, typed edges with `--` compared without direction) -/
theorem lagImage_eq {r : Graph} (hm : WF m) (hc : m.cls = .ts) (honly : OnlyDirUndir m) (hi : LagImage m r) :
    graphEq false r m = .ok true ∧ graphEq false m r = .ok true := by
  have h1 : graphEq false r m = .ok true :=
    (C07.graphEq_iff r m hi.wf hm (hi.cls.trans hc.symm)).mpr ⟨hi.nodes, edgeMatch_of_image hm honly hi⟩
  refine ⟨h1, ?_⟩
  rw [C07.graphEq_iff m r hm hi.wf (hc.trans hi.cls.symm)]
  obtain ⟨n1, n2⟩ := (C07.graphEq_iff r m hi.wf hm (hi.cls.trans hc.symm)).mp h1
  refine ⟨fun n => (n1 n).symm, fun a b => ?_⟩
  exact (C07.edgeMatchF_false _ _).mp (C07.edgeMatchF_symm ((C07.edgeMatchF_false _ _).mpr (n2 a b)))

/-! ### C08 (5), stated on the input graph -/

/-- the property's domain: a time-series graph with canonical names whose edges are instances of a consistent template
    set, only `->` / `--`, undirected edges contemporaneous, at least one edge -/
structure LagInput (g : Graph) : Prop where
  hyp : TsHyp g
  cons : TemplateConsistent g
  only : OnlyDirUndir g
  undir : ∀ (a b : String) (re : EdgeRec) (ra rb : NodeRec), g.edges[(a, b)]? = some re → re.ty = .undirected →
    g.nodes[a]? = some ra → g.nodes[b]? = some rb → ra.lag = rb.lag
  nonempty : ∃ k : EKey, k ∈ g.edges

/-- the minimal graph of an input of the domain is in the domain of the block-matrix theorems -/
theorem lagDomain_of_minimal {g : Graph} (hin : LagInput g) (idx : List String) (hm : minimalGraph g idx = .ok m) :
    LagDomain m := by
  have h := hin.hyp
  have hc := hin.cons
  have hs := C15.minShape_minimal h hc idx hm
  obtain ⟨hm', _, h3, h4⟩ := C14.minimal_hyp h hc idx hm
  -- an edge of the minimal graph comes from an edge of the input with the same type
  have src : ∀ (a c : String) (re : EdgeRec), m.edges[(a, c)]? = some re →
      ∃ (s d : String) (a' b' : String) (ra rb : NodeRec) (re' : EdgeRec), g.edges[(a', b')]? = some re' ∧
        g.nodes[a']? = some ra ∧ g.nodes[b']? = some rb ∧ ra.var = s ∧ rb.var = d ∧ re'.ty = re.ty ∧ Dom s ∧
        a = fmt s (-(rb.lag - ra.lag)) := by
    intro a c re he
    obtain ⟨s, d, δ, ht, ea, _⟩ := (C14.minimal_edges h hc idx hm a c re.ty).mp ⟨re, he, rfl⟩
    obtain ⟨ds, _, _, _⟩ := C14.isTemplate_dom h ht
    obtain ⟨a', b', ra, rb, re', he', ha', hb', e1, e2, e3, e4⟩ := ht
    exact ⟨s, d, a', b', ra, rb, re', he', ha', hb', e1, e2, e4, ds, by rw [e3]; exact ea⟩
  refine ⟨hs.inv, hs.dst0, ?_, ?_, ?_, ?_⟩
  · intro n
    rw [C14.minimal_nodes h hc idx hm n, C14.minNode_congr h3 h4 n]
  · intro k re he
    obtain ⟨_, _, a', b', _, _, re', he', _, _, _, _, hty, _, _⟩ := src k.1 k.2 re he
    rw [← hty]
    exact hin.only _ re' he'
  · intro a c re sr he hty hsr
    obtain ⟨s, _, a', b', ra, rb, re', he', ha', hb', _, _, hty', ds, ea⟩ := src a c re he
    have := hin.undir a' b' re' ra rb he' (hty'.trans hty) ha' hb'
    have hz : -(rb.lag - ra.lag) = 0 := by omega
    rw [hz] at ea
    exact (hm'.canonG.lookup ds (ea ▸ hsr)).2
  · obtain ⟨⟨a, b⟩, hk⟩ := hin.nonempty
    obtain ⟨re, he⟩ := (CG.mem_edges_iff _ _).mp hk
    obtain ⟨ra, rb, ha, hb, _⟩ := h.edge he
    obtain ⟨re', he', _⟩ := (C14.minimal_edges h hc idx hm _ _ re.ty).mpr
      ⟨ra.var, rb.var, rb.lag - ra.lag, isTemplate_of_edge he ha hb, rfl, rfl⟩
    exact ⟨_, (CG.mem_edges_iff _ _).mpr ⟨re', he'⟩⟩

/-- **C08 (5): `from_adjacency_matrices(*to_numpy_by_lag())` equals the minimal graph.**

    Let `g` be a time-series graph of the property's domain (`LagInput`) and `m` its minimal graph (for the insertion
    order `idx` of the variable index).  Then `to_numpy_by_lag()` — the lagged matrices `D` of `m` over the sorted
    variable names of `m` — exists, and

    * for `validate = False`, and for `validate = True` when `m` is acyclic: `from_adjacency_matrices(D, vars,
      construct_minimal=False, validate)` builds a graph `F` without error, `F.get_minimal_graph()` (for every insertion
      order `idx'`) succeeds with a graph `r` that is the lagged-matrix image of `m` — the same node identifiers, the same
      directed edges, the same unordered undirected pairs, fresh variable types / metadata, no other edge, no graph
      metadata — and `r == m`, `m == r` hold for the library's equality;
    * for `validate = True` when `m` holds a directed cycle (a DAG can have a cyclic minimal graph, DESIGN C16) the import
      is refused with `CyclicConnectionError` before any minimisation, as C02 demands. -/
theorem fromAdjMatrices_toNumpyByLag {g : Graph} (hin : LagInput g) (idx idx' : List String)
    (hm : minimalGraph g idx = .ok m) :
    ∃ D : List (Int × Mat), toNumpyByLagOf m = .ok (D, variables m) ∧
      (∀ v : Bool, (v = true → AcyclicG m) →
        ∃ F r : Graph, fromAdjacencyMatricesFull D (some (variables m)) v = (F, none) ∧ minimalGraph F idx' = .ok r ∧
          LagImage m r ∧ graphEq false r m = .ok true ∧ graphEq false m r = .ok true) ∧
      (¬ AcyclicG m →
        ∃ F : Graph, fromAdjacencyMatricesFull D (some (variables m)) true = (F, some .cyclicConnection)) := by
  have hd := lagDomain_of_minimal hin idx hm
  obtain ⟨D, hD, hN, hne, hdim⟩ := lagDomain_export hd
  have hu := fun v => full_unfold D (variables m) v hdim hne hd.var_dom
  refine ⟨D, hN, ?_, ?_⟩
  · intro v hv
    obtain ⟨r, hr, himg⟩ := blk_minimal hd hD idx'
    obtain ⟨q1, q2⟩ := lagImage_eq hd.inv.wf hd.inv.cls hd.only himg
    refine ⟨blkGraph m D, r, ?_, hr, himg, q1, q2⟩
    rw [hu]
    cases v with
    | false => exact blk_eq hd hD
    | true => exact (fromAdj_validated_iff .ts _ _ _ (blk_eq hd hD)).1 ((blk_acyclic_iff hd hD).mpr (hv rfl))
  · intro hcyc
    refine ⟨blkGraph m D, ?_⟩
    rw [hu]
    exact (fromAdj_validated_iff .ts _ _ _ (blk_eq hd hD)).2 (fun h => hcyc ((blk_acyclic_iff hd hD).mp h))

/-! ### non-vacuity -/

/-- the graph `X lag(n=2) -> Y lag(n=1)` of `C14.Demo` is in the domain -/
theorem demo_input : LagInput C14.Demo.g1 := by
  have ty : ∀ (a b : String) (re : EdgeRec), C14.Demo.g1.edges[(a, b)]? = some re → re.ty = .directed := by
    intro a b re he
    obtain ⟨ra, rb, ha, hb, _⟩ := C14.Demo.g1_hyp.edge he
    exact (C14.Demo.g1_template (isTemplate_of_edge he ha hb)).2.2.2
  refine ⟨C14.Demo.g1_hyp, C14.Demo.g1_consistent, fun k re he => .inl (ty k.1 k.2 re he), ?_, ?_⟩
  · intro a b re _ _ he hty
    rw [ty a b re he] at hty; cases hty
  · obtain ⟨a, b, _, _, re, he, _⟩ := C14.Demo.g1_isTemplate
    exact ⟨(a, b), (CG.mem_edges_iff _ _).mpr ⟨re, he⟩⟩

/-- the theorem applies to it: the re-imported graph holds the edge `X lag(n=1) -> Y` and no node `X` -/
example : ∃ (m : Graph) (D : List (Int × Mat)) (F r : Graph), minimalGraph C14.Demo.g1 [] = .ok m ∧
    toNumpyByLagOf m = .ok (D, variables m) ∧ fromAdjacencyMatricesFull D (some (variables m)) false = (F, none) ∧
    minimalGraph F [] = .ok r ∧ graphEq false r m = .ok true ∧ DirRel r (fmt "X" (-1)) (fmt "Y" 0) := by
  obtain ⟨m, hm⟩ := C14.minimal_ok C14.Demo.g1_hyp C14.Demo.g1_consistent []
  obtain ⟨D, hN, h1, _⟩ := fromAdjMatrices_toNumpyByLag demo_input [] [] hm
  obtain ⟨F, r, hF, hr, himg, q, _⟩ := h1 false (by intro h; cases h)
  refine ⟨m, D, F, r, hm, hN, hF, hr, q, (himg.dir _ _).mpr ?_⟩
  exact (C14.minimal_edges C14.Demo.g1_hyp C14.Demo.g1_consistent [] hm _ _ _).mpr
    ⟨"X", "Y", 1, C14.Demo.g1_isTemplate, rfl, rfl⟩

/-
Note on `fromAdjMatrices_toNumpyByLag_statement` (`C08Lagged.lean`, stated before the block-matrix layer existed).  Its
name hypothesis is `n = fmt r.var r.lag ∧ Name.parse r.var = some (r.var, 0)`, which is weaker than the C12 domain
(`Dom`: non-empty and free of `lag(n=…)` / `future(n=…)` markers ANYWHERE) and too weak for the conclusion: the variable
`'a lag(n=1)x'` parses to itself at lag 0, but `get_name_with_lag('a lag(n=1)x', -1)` is `'a lag(n=1)x lag(n=1)'`, which the
node constructor rejects (`ValueError`: multiple markers).  The graph `'a lag(n=1)x' -> Y`, `Z lag(n=1) -> Y` meets every
hypothesis of that statement, and `from_adjacency_matrices(*to_numpy_by_lag(), construct_minimal=False)` raises
`ValueError` on it, in the implementation and in the model alike (the block matrix creates EVERY variable at EVERY
listed delta).  `fromAdjMatrices_toNumpyByLag_full` is that statement with the hypothesis corrected to canonical names
(`TInv`, as in C14–C16), with the node set of the result and the refusal of a cyclic minimal graph added; the other
hypotheses are the same (`Dst0` = "every edge ends at lag 0", `undir0`, `D ≠ []` follows from `nonempty`), plus `nodes`
(needed only for the node set; it holds for every minimal graph).
-/

end CG.C08

/-! ## C14: `adjacency_matrices` is the template set, one matrix per source lag -/

namespace CG.C14
open CG CG.Mx CG.Conv CG.TS CG.Name Std CG.C08

/-- **C14 (matrices): `adjacency_matrices` is the template set written as one matrix per source lag.**
    For a consistent input `g` with minimal graph `m`, when `adjacency_matrices` (computed from `m`) answers `D`, over
    `vars` = the sorted variable names (of `m`, which are those of `g`):
    * every matrix is `|vars| × |vars|` with entries 0 / 1;
    * `D` has the key `κ` exactly when some template has time difference `-κ` (source lag `κ`, destination lag 0);
    * entry `(i, j)` of the matrix for source lag `-δ` is 1 exactly when `(vars[i], vars[j], δ, ->)` is a template, or a
      `--` template with that difference joins the two variables — in either order: an undirected edge fills both
      entries of its source lag's matrix (for a lagged `--` template this is why the matrix form is ambiguous; on C08's
      domain, undirected templates contemporaneous, the reversed order only occurs at `δ = 0`). -/
theorem adjMatrices_eq {g m : Graph} (h : TsHyp g) (hc : TemplateConsistent g) (idx : List String)
    (hm : minimalGraph g idx = .ok m) {D : List (Int × Mat)} (hD : adjacencyMatricesOf m = .ok D) :
    LDim (variables m).length D ∧
    (∀ v : String, v ∈ variables m ↔ IsVar g v) ∧
    (∀ κ : Int, (lagLookup D κ).isSome = true ↔
      ∃ (s d : String) (δ : Int) (ty : EdgeType), IsTemplate g s d δ ty ∧ κ = -δ) ∧
    (∀ (δ : Int) (i j : Nat) (hi : i < (variables m).length) (hj : j < (variables m).length),
      (lagCell D (-δ) i j = 1 ↔
        IsTemplate g (variables m)[i] (variables m)[j] δ .directed ∨
        IsTemplate g (variables m)[i] (variables m)[j] δ .undirected ∨
        IsTemplate g (variables m)[j] (variables m)[i] δ .undirected) ∧
      lagCell D (-δ) i j ≤ 1) := by
  obtain ⟨hm', _, h3, h4⟩ := minimal_hyp h hc idx hm
  have hs := C15.minShape_minimal h hc idx hm
  obtain ⟨e1, e2, e3⟩ := lagged_entry_law m hm'.wf D hD
  refine ⟨e1, fun v => ((isVar_iff_mem_variables m v).symm.trans (h4 v)), ?_, ?_⟩
  · intro κ
    rw [e2 κ]
    constructor
    · rintro ⟨s, d, re, rs, he, hs', rfl⟩
      obtain ⟨sr, dr, ha, hb, _, _, _, _, hz, _⟩ := hs.edge he
      rw [hs'] at ha; cases ha
      refine ⟨rs.var, dr.var, dr.lag - rs.lag, re.ty, (h3 _ _ _ _).mp (isTemplate_of_edge he hs' hb), ?_⟩
      omega
    · rintro ⟨s, d, δ, ty, ht, rfl⟩
      obtain ⟨a, b, ra, rb, re, he, ha, hb, _, _, e, _⟩ := (h3 _ _ _ _).mpr ht
      have hz := hs.dst0 a b re rb he hb
      exact ⟨a, b, re, ra, he, ha, by omega⟩
  · intro δ i j hi hj
    obtain ⟨e4, e5⟩ := e3 (-δ) i j hi hj
    refine ⟨?_, e5⟩
    rw [e4]
    -- an edge of `m` from a node of variable `x` at lag `-δ` to a node of variable `y`, of type `ty`, is the template
    have key : ∀ (x y : String) (ty : EdgeType),
        (∃ (s d : String) (re : EdgeRec) (rs rd : NodeRec), m.edges[(s, d)]? = some re ∧ m.nodes[s]? = some rs ∧
          m.nodes[d]? = some rd ∧ rs.lag = -δ ∧ re.ty = ty ∧ rs.var = x ∧ rd.var = y) ↔ IsTemplate g x y δ ty := by
      intro x y ty
      rw [← h3 x y δ ty]
      constructor
      · rintro ⟨s, d, re, rs, rd, he, hs', hd', hl, hty, hx, hy⟩
        have hz := hs.dst0 s d re rd he hd'
        exact ⟨s, d, rs, rd, re, he, hs', hd', hx, hy, by omega, hty⟩
      · rintro ⟨s, d, rs, rd, re, he, hs', hd', hx, hy, hl, hty⟩
        have hz := hs.dst0 s d re rd he hd'
        exact ⟨s, d, re, rs, rd, he, hs', hd', by omega, hty, hx, hy⟩
    rw [← key _ _ .directed, ← key _ _ .undirected, ← key _ _ .undirected]
    constructor
    · rintro ⟨s, d, re, rs, rd, he, hs', hd', hl, ⟨hty, x1, x2⟩ | ⟨hty, ⟨x1, x2⟩ | ⟨x1, x2⟩⟩⟩
      · exact .inl ⟨s, d, re, rs, rd, he, hs', hd', hl, hty, x1, x2⟩
      · exact .inr (.inl ⟨s, d, re, rs, rd, he, hs', hd', hl, hty, x1, x2⟩)
      · exact .inr (.inr ⟨s, d, re, rs, rd, he, hs', hd', hl, hty, x2, x1⟩)
    · rintro (⟨s, d, re, rs, rd, he, hs', hd', hl, hty, x1, x2⟩ | ⟨s, d, re, rs, rd, he, hs', hd', hl, hty, x1, x2⟩ |
        ⟨s, d, re, rs, rd, he, hs', hd', hl, hty, x1, x2⟩)
      · exact ⟨s, d, re, rs, rd, he, hs', hd', hl, .inl ⟨hty, x1, x2⟩⟩
      · exact ⟨s, d, re, rs, rd, he, hs', hd', hl, .inr ⟨hty, .inl ⟨x1, x2⟩⟩⟩
      · exact ⟨s, d, re, rs, rd, he, hs', hd', hl, .inr ⟨hty, .inr ⟨x2, x1⟩⟩⟩

/-- **C14 (matrices, refusal): `adjacency_matrices` raises (`TypeError`) exactly when some template is neither `->` nor
    `--`** — no template is dropped or retyped -/
theorem adjMatrices_refuses_iff {g m : Graph} (h : TsHyp g) (hc : TemplateConsistent g) (idx : List String)
    (hm : minimalGraph g idx = .ok m) :
    (∃ e, adjacencyMatricesOf m = .error e) ↔
      ∃ (s d : String) (δ : Int) (ty : EdgeType), IsTemplate g s d δ ty ∧ ty ≠ .directed ∧ ty ≠ .undirected := by
  rw [(lagged_refuses_iff m).1]
  constructor
  · rintro ⟨k, r, hr, h1, h2⟩
    obtain ⟨s, d, δ, ht, _, _⟩ := (minimal_edges h hc idx hm k.1 k.2 r.ty).mp ⟨r, hr, rfl⟩
    exact ⟨s, d, δ, r.ty, ht, h1, h2⟩
  · rintro ⟨s, d, δ, ty, ht, h1, h2⟩
    obtain ⟨r, hr, rfl⟩ := (minimal_edges h hc idx hm _ _ ty).mpr ⟨s, d, δ, ht, rfl, rfl⟩
    exact ⟨_, r, hr, h1, h2⟩

/-- the matrices of the demo graph `X lag(n=2) -> Y lag(n=1)`: one key, `-1` -/
example : ∃ m D, minimalGraph Demo.g1 [] = .ok m ∧ adjacencyMatricesOf m = .ok D ∧
    ∀ κ : Int, (lagLookup D κ).isSome = true ↔ κ = -1 := by
  obtain ⟨m, hm⟩ := minimal_ok Demo.g1_hyp Demo.g1_consistent []
  obtain ⟨D, hD, _⟩ := lagDomain_export (lagDomain_of_minimal demo_input [] hm)
  refine ⟨m, D, hm, hD, fun κ => ?_⟩
  rw [(adjMatrices_eq Demo.g1_hyp Demo.g1_consistent [] hm hD).2.2.1 κ]
  constructor
  · rintro ⟨s, d, δ, ty, ht, rfl⟩
    rw [(Demo.g1_template ht).2.2.1]
  · rintro rfl
    exact ⟨"X", "Y", 1, .directed, Demo.g1_isTemplate, rfl⟩

end CG.C14
