/-
C11, third-party half -- the algorithm networkx 3.2.1 runs for `d_separated` decides d-separation.

`CG/Model/NxDSep.lean` transcribes `networkx.d_separated` (leaf pruning with a deque, deletion of the out-edges of the
conditioning set, weak connectivity).  This file proves, for every DAG whose edges lie within its node list, that the
transcription answers `True` exactly when every `x ∈ X` is separated from every `y ∈ Y` by `Z` in the path-blocking
sense -- Darwiche, "Modeling and Reasoning with Bayesian Networks", Theorem 4.1 -- and hence that it coincides with
the definitional model `CG.DSepDec.dsepSetsB` that `is_d_separated` is modelled by.  No disjointness is needed for the
general statement (`nxDSeparated_iff_DSepX`): when `Z` meets `X` or `Y` the algorithm computes the endpoint rule
`DSepX`, which so far was only *measured*.

With this, the third-party assumption behind C11 shrinks from "`networkx.d_separated` agrees with the enumeration of
simple paths (measured)" to "`CG.NxDSep` is a faithful transcription of 60 lines of Python (read, and measured by
`nx dsep` on every query of lane C11)".
-/
import CG.Model.NxDSep
import CG.Proofs.C11
import CG.Proofs.Lemmas.NxOpen
import CG.Proofs.Lemmas.NxPrune
import CG.Proofs.Lemmas.NxUF
set_option linter.unusedSectionVars false
set_option linter.unusedSimpArgs false
set_option linter.unusedVariables false

namespace CG.C11
variable {α : Type} [DecidableEq α]
open CG.DSepDec CG.DSepAux CG.NxDSep CG.NxOpen CG.NxPrune CG.NxUF
open CG.EL (RTC TC Acyclic)

/-- the graph on which networkx tests connectivity is the ancestral graph of `X ∪ Y ∪ Z` without the out-edges of `Z` -/
theorem finalEdges_isPruned {nodes : List α} {E : List (α × α)} (X Y Z : List α) (hac : Acyclic (CG.EL.Rel E))
    (hE : ∀ a b : α, (a, b) ∈ E → a ∈ nodes ∧ b ∈ nodes) :
    IsPruned E (finalEdges nodes E X Y Z) Z (X ++ Y ++ Z) := by
  intro a b
  unfold finalEdges dropOutEdges
  simp only [List.mem_filter, decide_eq_true_eq]
  rw [(pruneLeaves_spec hac hE).2 a b]
  exact ⟨fun h => ⟨h.1.1, h.1.2, h.2⟩, fun h => ⟨⟨h.1, h.2.1⟩, h.2.2⟩⟩

theorem connected_iff (E' : List (α × α)) (a b : α) :
    connected E' a b = true ↔ RTC (CG.EL.Rel (sym E')) a b := by
  unfold connected
  simp only [decide_eq_true_eq]
  exact CG.EL.mem_reach_iff (sym E') a b

/-- the answer is `False` exactly when some `x ∈ X` and some `y ∈ Y` are weakly connected in the final graph -/
theorem nxDSeparated_eq_false_iff (nodes : List α) (E : List (α × α)) (X Y Z : List α) :
    nxDSeparated nodes E X Y Z = false ↔
      ∃ x, x ∈ X ∧ ∃ y, y ∈ Y ∧ connected (finalEdges nodes E X Y Z) x y = true := by
  unfold nxDSeparated
  constructor
  · intro h
    by_cases hc : (!X.isEmpty && !Y.isEmpty &&
        X.any (fun a => Y.any (fun b => connected (finalEdges nodes E X Y Z) a b))) = true
    · simp only [Bool.and_eq_true, List.any_eq_true] at hc
      obtain ⟨_, x, hx, y, hy, hxy⟩ := hc
      exact ⟨x, hx, y, hy, hxy⟩
    · simp only [hc] at h
      simp at h
  · rintro ⟨x, hx, y, hy, hxy⟩
    have hX : X.isEmpty = false := by cases X with | nil => simp at hx | cons _ _ => rfl
    have hY : Y.isEmpty = false := by cases Y with | nil => simp at hy | cons _ _ => rfl
    have : X.any (fun a => Y.any (fun b => connected (finalEdges nodes E X Y Z) a b)) = true :=
      List.any_eq_true.mpr ⟨x, hx, List.any_eq_true.mpr ⟨y, hy, hxy⟩⟩
    simp [hX, hY, this]

/-- **Darwiche's Theorem 4.1 for the transcription of `networkx.d_separated`, every input.**  On a DAG (edges within
    the node list) the algorithm answers `True` exactly when every `x ∈ X` is separated from every `y ∈ Y` in the sense
    of `DSepX` (path blocking, plus the endpoint rule for conditioning sets that contain an end node).  No disjointness
    and no presence hypothesis on `X`, `Y`, `Z` is needed. -/
theorem nxDSeparated_iff_DSepX {nodes : List α} {E : List (α × α)} (X Y Z : List α)
    (hac : Acyclic (CG.EL.Rel E)) (hE : ∀ a b : α, (a, b) ∈ E → a ∈ nodes ∧ b ∈ nodes) :
    nxDSeparated nodes E X Y Z = true ↔ ∀ x, x ∈ X → ∀ y, y ∈ Y → DSepX E x y Z := by
  have hP := finalEdges_isPruned X Y Z hac hE
  have hZU : ∀ z, z ∈ Z → z ∈ X ++ Y ++ Z := fun z hz => List.mem_append_right _ hz
  have hU : ∀ u, u ∈ X ++ Y ++ Z → u ∈ X ∨ u ∈ Y ∨ u ∈ Z := by
    intro u hu
    simp only [List.mem_append] at hu
    rcases hu with (h | h) | h
    · exact Or.inl h
    · exact Or.inr (Or.inl h)
    · exact Or.inr (Or.inr h)
  constructor
  · intro htrue x hx y hy p hw hnd
    apply Classical.byContradiction
    intro hopen
    have hwalk := open_walk_in_pruned hac hZU hP
      (List.mem_append_left _ (List.mem_append_left _ hx)) (List.mem_append_left _ (List.mem_append_right _ hy))
      hw hopen
    have : nxDSeparated nodes E X Y Z = false :=
      (nxDSeparated_eq_false_iff nodes E X Y Z).mpr ⟨x, hx, y, hy, (connected_iff _ x y).mpr (walk_rtc hwalk)⟩
    rw [htrue] at this
    exact Bool.noConfusion this
  · intro hsep
    rw [← Bool.not_eq_false]
    intro hfalse
    obtain ⟨x, hx, y, hy, hxy⟩ := (nxDSeparated_eq_false_iff nodes E X Y Z).mp hfalse
    obtain ⟨x', y', q, hx', hy', hw, hnd, hopen⟩ :=
      pruned_conn_gives_open hac hP hU hx hy ((connected_iff _ x y).mp hxy)
    exact hopen (hsep x' hx' y' hy' q hw hnd)

/-- **the statement asked for.**  For a DAG, edges and query nodes within the node list, `Z` disjoint from `X` and `Y`
    (`X`, `Y` need not be disjoint from each other): `networkx.d_separated` is `True` exactly when every path between
    `X` and `Y` is blocked by `Z` (a non-collider in `Z`, or a collider with no descendant-or-self in `Z`). -/
theorem nxDSeparated_iff {nodes : List α} {E : List (α × α)} {X Y Z : List α}
    (hac : Acyclic (CG.EL.Rel E)) (hE : ∀ a b : α, (a, b) ∈ E → a ∈ nodes ∧ b ∈ nodes)
    (hXZ : ∀ x, x ∈ X → x ∉ Z) (hYZ : ∀ y, y ∈ Y → y ∉ Z) :
    nxDSeparated nodes E X Y Z = true ↔ ∀ x, x ∈ X → ∀ y, y ∈ Y → DSep E x y Z := by
  rw [nxDSeparated_iff_DSepX X Y Z hac hE]
  constructor
  · intro hd x hx y hy; exact (dsepX_iff_dsep (hXZ x hx) (hYZ y hy)).mp (hd x hx y hy)
  · intro hd x hx y hy; exact (dsepX_iff_dsep (hXZ x hx) (hYZ y hy)).mpr (hd x hx y hy)

/-- the same with every hypothesis of the textbook formulation spelled out (query nodes present, the three sets pairwise
    disjoint); the extra hypotheses are not used -/
theorem nxDSeparated_iff_full {nodes : List α} {E : List (α × α)} {X Y Z : List α}
    (hac : Acyclic (CG.EL.Rel E)) (hE : ∀ a b : α, (a, b) ∈ E → a ∈ nodes ∧ b ∈ nodes)
    (_hpres : ∀ n, n ∈ X ∨ n ∈ Y ∨ n ∈ Z → n ∈ nodes)
    (_hXY : ∀ x, x ∈ X → x ∉ Y) (hXZ : ∀ x, x ∈ X → x ∉ Z) (hYZ : ∀ y, y ∈ Y → y ∉ Z) :
    nxDSeparated nodes E X Y Z = true ↔ ∀ x, x ∈ X → ∀ y, y ∈ Y → DSep E x y Z :=
  nxDSeparated_iff hac hE hXZ hYZ

/-- **the transcribed algorithm equals the definitional model**, on every DAG and every query -/
theorem nx_eq_model {nodes : List α} {E : List (α × α)} (X Y Z : List α)
    (hac : Acyclic (CG.EL.Rel E)) (hE : ∀ a b : α, (a, b) ∈ E → a ∈ nodes ∧ b ∈ nodes) :
    nxDSeparated nodes E X Y Z = dsepSetsB E X Y Z := by
  rw [Bool.eq_iff_iff, nxDSeparated_iff_DSepX X Y Z hac hE, dsepSetsB_iff]

/-- whenever the modelled `is_d_separated` returns, it returns what the transcription of networkx returns -/
theorem isDSeparated_eq_nx {fd : Bool} {nodes : List α} {E : List (α × α)} {X Y Z : List α} {b : Bool}
    (h : isDSeparated fd nodes E X Y Z = .ok b) (hE : ∀ a b : α, (a, b) ∈ E → a ∈ nodes ∧ b ∈ nodes) :
    b = nxDSeparated nodes E X Y Z := by
  obtain ⟨⟨_, hac⟩, _, rfl⟩ := (isDSeparated_ok_iff fd nodes E X Y Z b).mp h
  exact (nx_eq_model X Y Z hac hE).symm

/-- `networkx.d_separated` with its own two checks returns exactly when `is_d_separated` (on a fully directed graph)
    returns, with the same answer: the assertions of `is_d_separated` pre-empt both networkx errors -/
theorem dSeparated_ok_iff {nodes : List α} {E : List (α × α)} (X Y Z : List α) (b : Bool)
    (hE : ∀ a b : α, (a, b) ∈ E → a ∈ nodes ∧ b ∈ nodes) :
    dSeparated nodes E X Y Z = .ok b ↔ isDSeparated true nodes E X Y Z = .ok b := by
  rw [isDSeparated_ok_iff]
  unfold dSeparated
  by_cases hac : acyclicB E = true
  · have hac' := (acyclicB_iff E).mp hac
    by_cases hp : (X ++ Y ++ Z).any (fun n => decide (n ∉ nodes)) = true
    · simp only [hac, Bool.not_true, Bool.false_eq_true, if_false, hp, if_true]
      constructor
      · intro h; cases h
      · rintro ⟨_, hpres, _⟩
        exfalso
        simp only [List.any_eq_true, decide_eq_true_eq, List.mem_append] at hp
        obtain ⟨n, hn, hnn⟩ := hp
        apply hnn
        apply hpres
        rcases hn with (h | h) | h
        · exact Or.inl h
        · exact Or.inr (Or.inl h)
        · exact Or.inr (Or.inr h)
    · simp only [hac, Bool.not_true, Bool.false_eq_true, if_false, hp]
      rw [nx_eq_model X Y Z hac' hE]
      constructor
      · intro h
        injection h with h
        refine ⟨⟨trivial, hac'⟩, ?_, h.symm⟩
        intro n hn
        apply Classical.byContradiction
        intro hnn
        apply hp
        simp only [List.any_eq_true, decide_eq_true_eq, List.mem_append]
        refine ⟨n, ?_, hnn⟩
        rcases hn with h | h | h
        · exact Or.inl (Or.inl h)
        · exact Or.inl (Or.inr h)
        · exact Or.inr h
      · rintro ⟨_, _, rfl⟩; rfl
  · have hac2 : acyclicB E = false := by simpa using hac
    simp only [hac2, Bool.not_false, if_true]
    constructor
    · intro h; cases h
    · rintro ⟨⟨_, h⟩, _⟩
      exact absurd ((acyclicB_iff E).mpr h) hac

/-- **the union-find step, transcribed as a partition, has the closed form used by `nxDSeparated`**: merging the blocks
    of every weakly connected component, then of `x`, then of `y`, and comparing the representatives of the first
    elements gives the same answer as asking whether some `a ∈ x`, `b ∈ y` are weakly connected -/
theorem nxDSeparatedUF_eq {nodes : List α} {E : List (α × α)} (X Y Z : List α)
    (hac : Acyclic (CG.EL.Rel E)) (hE : ∀ a b : α, (a, b) ∈ E → a ∈ nodes ∧ b ∈ nodes)
    (hX : ∀ x, x ∈ X → x ∈ nodes) (hY : ∀ y, y ∈ Y → y ∈ nodes) :
    nxDSeparatedUF nodes E X Y Z = nxDSeparated nodes E X Y Z := by
  cases X with
  | nil => simp [nxDSeparatedUF, nxDSeparated]
  | cons x0 X' =>
    cases Y with
    | nil => simp [nxDSeparatedUF, nxDSeparated]
    | cons y0 Y' =>
      obtain ⟨hN, hEc⟩ := pruneLeaves_spec (U := (x0 :: X') ++ (y0 :: Y') ++ Z) hac hE
      have hP := finalEdges_isPruned (x0 :: X') (y0 :: Y') Z hac hE
      have hwithin : ∀ a b : α, (a, b) ∈ finalEdges nodes E (x0 :: X') (y0 :: Y') Z →
          a ∈ (pruneLeaves nodes E ((x0 :: X') ++ (y0 :: Y') ++ Z)).1 ∧
          b ∈ (pruneLeaves nodes E ((x0 :: X') ++ (y0 :: Y') ++ Z)).1 := by
        intro a b hab
        obtain ⟨h1, h2, _⟩ := (hP a b).mp hab
        exact ⟨(hN a).mpr ⟨(hE a b h1).1, anc_pred h1 h2⟩, (hN b).mpr ⟨(hE a b h1).2, h2⟩⟩
      have hXN : ∀ x, x ∈ x0 :: X' → x ∈ (pruneLeaves nodes E ((x0 :: X') ++ (y0 :: Y') ++ Z)).1 :=
        fun x hx => (hN x).mpr ⟨hX x hx, anc_of_mem (List.mem_append_left _ (List.mem_append_left _ hx))⟩
      have hYN : ∀ y, y ∈ y0 :: Y' → y ∈ (pruneLeaves nodes E ((x0 :: X') ++ (y0 :: Y') ++ Z)).1 :=
        fun y hy => (hN y).mpr ⟨hY y hy, anc_of_mem (List.mem_append_left _ (List.mem_append_right _ hy))⟩
      have key := uf_closed_form hwithin hXN hYN
      have hfalse := nxDSeparated_eq_false_iff nodes E (x0 :: X') (y0 :: Y') Z
      simp only [connected_iff] at hfalse
      rw [← hfalse] at key
      unfold nxDSeparatedUF
      simp only []
      unfold finalEdges at key
      cases hnx : nxDSeparated nodes E (x0 :: X') (y0 :: Y') Z
      · rw [key.mpr hnx]; rfl
      · have : ¬ _ := fun h => Bool.noConfusion ((key.mp h).symm.trans hnx)
        simp only [Bool.not_eq_true] at this
        rw [this]; rfl

/-! ## non-vacuity -/

/-- `1 → 2 ← 3, 2 → 4` with `X = {1}`, `Y = {3}`, `Z = {4}` meets every hypothesis of `nxDSeparated_iff` … -/
example : Acyclic (CG.EL.Rel exE) ∧ (∀ a b : Nat, (a, b) ∈ exE → a ∈ [1, 2, 3, 4] ∧ b ∈ [1, 2, 3, 4]) ∧
    (∀ x, x ∈ [1] → x ∉ [4]) ∧ (∀ y, y ∈ [3] → y ∉ [4]) :=
  ⟨exE_acyclic, by
    intro a b h
    simp only [exE, List.mem_cons, Prod.mk.injEq, List.not_mem_nil, or_false] at h
    rcases h with ⟨rfl, rfl⟩ | ⟨rfl, rfl⟩ | ⟨rfl, rfl⟩ <;> simp, by simp, by simp⟩

/-- … and there the algorithm answers "not separated" (the collider `2` is opened by its descendant `4`), although the
    leaf `4` survives the pruning only because it is in `Z` and the edge `2 → 4` is what keeps `2` in the graph -/
example : nxDSeparated [1, 2, 3, 4] exE [1] [3] [4] = false := by
  rw [← Bool.not_eq_true, nxDSeparated_iff exE_acyclic (by
    intro a b h
    simp only [exE, List.mem_cons, Prod.mk.injEq, List.not_mem_nil, or_false] at h
    rcases h with ⟨rfl, rfl⟩ | ⟨rfl, rfl⟩ | ⟨rfl, rfl⟩ <;> simp) (by simp) (by simp)]
  intro h
  have hw : CG.Paths.Walk (sym exE) 1 3 [1, 2, 3] :=
    .cons (show CG.EL.Rel (sym exE) 1 2 from mem_sym.mpr (Or.inl (by simp [exE])))
      (.cons (show CG.EL.Rel (sym exE) 2 3 from mem_sym.mpr (Or.inr (by simp [exE]))) (.single 3))
  have := h 1 (by simp) 3 (by simp) [1, 2, 3] hw (by decide)
  simp only [Blocked, BlocksAt, or_false] at this
  rcases this with ⟨_, h2⟩ | ⟨h1, _⟩
  · exact h2 4 (.tail (.refl 2) (show CG.EL.Rel exE 2 4 by simp [CG.EL.Rel, exE])) (by simp)
  · exact h1 ⟨by simp [exE], by simp [exE]⟩

end CG.C11
