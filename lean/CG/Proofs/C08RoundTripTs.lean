/-
C08, the matrix round trip for the time-series class: the scan stores an undirected pair from the earlier to the
later node and would refuse a directed entry against time — which a matrix obeying the entry law of a well-formed
time-series graph never holds.
-/
import CG.Proofs.C08RoundTrip

set_option linter.unusedSimpArgs false

namespace CG.C08.Ts
open CG CG.Mx CG.Conv CG.C08 Std

/-- the time lag the grammar reads off an identifier -/
def lagN (n : String) : Int := ((Name.parse n).map (·.2)).getD 0

/-- the node `add_node(identifier)` of the time-series class creates -/
def tsFresh (n : String) : NodeRec :=
  match Name.parse n with
  | some (v, l) => { vtype := .unspecified, md := [], var := v, lag := l }
  | none => default

/-- stored orientation of the time-series class -/
def ori (k : EKey) : EKey := if lagN k.1 > lagN k.2 then (k.2, k.1) else k

theorem ori_cases (k : EKey) : ori k = k ∨ ori k = (k.2, k.1) := by
  unfold ori; split
  · exact .inr rfl
  · exact .inl rfl

/-! ### the node loop -/

theorem foldl_insTsFresh (l : List String) (g : Graph) :
    l.foldl (fun g n => g.insNode n (tsFresh n)) g =
      { g with nodes := insAll g.nodes (l.map (fun n => (n, tsFresh n))) } := by
  induction l generalizing g with
  | nil => rfl
  | cons n l ih =>
    simp only [List.foldl_cons, List.map_cons, insAll_cons]
    rw [ih]
    rfl

theorem addNodesFrom_ts (names : List String) (hnd : names.Nodup) (hp : ∀ n ∈ names, (Name.parse n).isSome = true) :
    addNodesFrom (Graph.empty .ts) names =
      ({ cls := .ts, nodes := insAll ∅ (names.map (fun n => (n, tsFresh n))), edges := ∅, gmeta := [] }, none) := by
  unfold addNodesFrom
  refine Eq.trans (bulk_ok _ (fun g n => g.insNode n (tsFresh n))
    (fun g rest => g.cls = .ts ∧ (∀ n ∈ rest, g.hasNode n = false ∧ (Name.parse n).isSome = true) ∧ rest.Nodup) ?_ _ _ ?_) ?_
  rotate_left 1
  · exact ⟨rfl, fun n hn => ⟨by rw [hasNode_false_iff]; simp [Graph.empty], hp n hn⟩, hnd⟩
  · rw [foldl_insTsFresh]; rfl
  · rintro g n rest ⟨h1, h2, h3⟩
    obtain ⟨hn, hpn⟩ := h2 n List.mem_cons_self
    obtain ⟨⟨v, l⟩, hpn'⟩ := Option.isSome_iff_exists.mp hpn
    refine ⟨?_, h1, ?_, (List.nodup_cons.mp h3).2⟩
    · simp [addNode, mkNode, mkTsNode, h1, hn, hpn', bind, Except.bind, pure, Except.pure, tsFresh, Meta.tsStrip]
    · intro m hm
      have hne : n ≠ m := fun e => (List.nodup_cons.mp h3).1 (e ▸ hm)
      obtain ⟨h4, h5⟩ := h2 m (List.mem_cons_of_mem _ hm)
      refine ⟨?_, h5⟩
      rw [hasNode_false_iff] at h4 ⊢
      simp only [Graph.insNode, ExtTreeMap.mem_insert, compare_eq_iff_eq]
      rintro (h | h)
      · exact hne h
      · exact h4 h

theorem mem_tsFreshNodes (names : List String) (n : String) :
    n ∈ insAll (∅ : NMap) (names.map (fun n => (n, tsFresh n))) ↔ n ∈ names := by
  rw [mem_insAll]
  simp only [ExtTreeMap.not_mem_empty, List.mem_map, false_or]
  constructor
  · rintro ⟨_, ⟨a, h, rfl⟩, rfl⟩; exact h
  · intro h; exact ⟨_, ⟨n, h, rfl⟩, rfl⟩

theorem lagOf_tsFreshNodes (names : List String) (hnd : names.Nodup) (n : String) (hn : n ∈ names)
    (hp : (Name.parse n).isSome = true) (g : Graph)
    (hg : g.nodes = insAll ∅ (names.map (fun n => (n, tsFresh n)))) : g.lagOf n = lagN n := by
  have : g.nodes[n]? = some (tsFresh n) := by
    rw [hg]
    apply getElem?_insAll_of_mem
    · rw [List.pairwise_map]
      exact hnd.imp (fun h => h)
    · exact List.mem_map.mpr ⟨n, hn, rfl⟩
  obtain ⟨⟨v, l⟩, hp'⟩ := Option.isSome_iff_exists.mp hp
  simp [Graph.lagOf, this, tsFresh, hp', lagN]

/-! ### the scan -/

/-- the edge one iteration of the scan adds (time-series class) -/
def edgeOfTs (A : Mat) (names : List String) (p : Nat × Nat) : Option (EKey × EdgeRec) :=
  (edgeOf A names p).map (fun kr => (ori kr.1, kr.2))

def scanApplyTs (A : Mat) (names : List String) (g : Graph) (p : Nat × Nat) : Graph :=
  match edgeOfTs A names p with
  | some (k, r) => g.insEdge k.1 k.2 r
  | none => g

/-- time-series class: `add_edge` between two existing distinct nodes whose pair is free, without validation, when the
    edge is not a directed one against time -/
theorem addEdge_ts_ok (g : Graph) (s d : String) (ty : EdgeType) (hc : g.cls = .ts) (hsd : s ≠ d)
    (hs : g.hasNode s = true) (hd : g.hasNode d = true) (hnew : g.hasEdge s d = false) (hrev : g.hasEdge d s = false)
    (hls : g.lagOf s = lagN s) (hld : g.lagOf d = lagN d) (hok : ty = .directed → lagN s ≤ lagN d) :
    addEdge g s d ty [] false = .ok (g.insEdge (ori (s, d)).1 (ori (s, d)).2 { ty := ty, md := [] }) := by
  by_cases hgt : lagN s > lagN d
  · have hty : ty ≠ .directed := fun e => by have := hok e; omega
    have hkey : ori (s, d) = (d, s) := by unfold ori; rw [if_pos hgt]
    have hgt' : lagN d < lagN s := hgt
    simp [addEdge, addEdgeE, ensureNode, hs, hd, hnew, orient, hc, setEdge, hrev, hsd, bind, Except.bind, hls, hld, hgt',
      hty, hkey]
  · have hkey : ori (s, d) = (s, d) := by unfold ori; rw [if_neg hgt]
    have hgt' : ¬ lagN d < lagN s := hgt
    simp [addEdge, addEdgeE, ensureNode, hs, hd, hnew, orient, hc, setEdge, hrev, hsd, bind, Except.bind, hls, hld, hgt',
      hkey]

theorem edgeOfTs_key (A : Mat) (names : List String) (p : Nat × Nat) (k : EKey) (r : EdgeRec)
    (h : edgeOfTs A names p = some (k, r)) :
    k = (names.getD p.1 "", names.getD p.2 "") ∨ k = (names.getD p.2 "", names.getD p.1 "") := by
  unfold edgeOfTs at h
  cases hE : edgeOf A names p with
  | none => rw [hE] at h; cases h
  | some kr =>
    rw [hE] at h
    have hk : ori kr.1 = k := by
      simp only [Option.map_some, Option.some.injEq, Prod.mk.injEq] at h; exact h.1
    have h1 := edgeOf_key A names p kr.1 kr.2 hE
    have h2 := ori_cases kr.1
    rw [hk] at h2
    rcases h2 with h2 | h2
    · rw [h2]; exact h1
    · rw [h2]
      rcases h1 with h1 | h1
      · right; rw [h1]
      · left; rw [h1]

/-- no directed edge the scan prescribes runs against time -/
def DirOk (A : Mat) (names : List String) : Prop :=
  ∀ (p : Nat × Nat) (k : EKey) (r : EdgeRec), p.1 < p.2 → p.2 < names.length → edgeOf A names p = some (k, r) →
    r.ty = .directed → lagN k.1 ≤ lagN k.2

/-- the scan step in terms of the prescribed edge (either class) -/
theorem scanStep_as_edgeOf (A : Mat) (names : List String) (g : Graph) (p : Nat × Nat) :
    scanStep A names g p =
      match edgeOf A names p with
      | some (k, r) => addEdge g k.1 k.2 r.ty [] false
      | none => .ok g := by
  unfold scanStep edgeOf
  simp only
  split
  · rfl
  · split
    · rfl
    · split
      · rfl
      · rfl

theorem edgeOf_md (A : Mat) (names : List String) (p : Nat × Nat) (k : EKey) (r : EdgeRec)
    (h : edgeOf A names p = some (k, r)) : r.md = [] := by
  unfold edgeOf at h
  simp only at h
  split at h
  · cases h; rfl
  · split at h
    · cases h; rfl
    · split at h
      · cases h; rfl
      · cases h

theorem scanStep_eq_ts (A : Mat) (names : List String) (g : Graph) (p : Nat × Nat) (hc : g.cls = .ts)
    (hp : p.1 < p.2 ∧ p.2 < names.length) (hdo : DirOk A names)
    (hne : names.getD p.1 "" ≠ names.getD p.2 "")
    (hi : g.hasNode (names.getD p.1 "") = true) (hj : g.hasNode (names.getD p.2 "") = true)
    (h1 : g.hasEdge (names.getD p.1 "") (names.getD p.2 "") = false)
    (h2 : g.hasEdge (names.getD p.2 "") (names.getD p.1 "") = false)
    (hli : g.lagOf (names.getD p.1 "") = lagN (names.getD p.1 ""))
    (hlj : g.lagOf (names.getD p.2 "") = lagN (names.getD p.2 "")) :
    scanStep A names g p = .ok (scanApplyTs A names g p) := by
  rw [scanStep_as_edgeOf]
  unfold scanApplyTs edgeOfTs
  cases hE : edgeOf A names p with
  | none => rfl
  | some kr =>
    obtain ⟨k, r⟩ := kr
    have hmd := edgeOf_md A names p k r hE
    have hdir := hdo p k r hp.1 hp.2 hE
    have hr : ({ ty := r.ty, md := [] } : EdgeRec) = r := by
      cases r; simp only at hmd; subst hmd; rfl
    simp only [Option.map_some]
    rcases edgeOf_key A names p k r hE with hk | hk
    · have e1 : k.1 = names.getD p.1 "" := by rw [hk]
      have e2 : k.2 = names.getD p.2 "" := by rw [hk]
      have := addEdge_ts_ok g k.1 k.2 r.ty hc (by rw [e1, e2]; exact hne) (by rw [e1]; exact hi) (by rw [e2]; exact hj)
        (by rw [e1, e2]; exact h1) (by rw [e1, e2]; exact h2) (by rw [e1]; exact hli) (by rw [e2]; exact hlj) hdir
      rw [this, hr]
    · have e1 : k.1 = names.getD p.2 "" := by rw [hk]
      have e2 : k.2 = names.getD p.1 "" := by rw [hk]
      have := addEdge_ts_ok g k.1 k.2 r.ty hc (by rw [e1, e2]; exact Ne.symm hne) (by rw [e1]; exact hj)
        (by rw [e2]; exact hi) (by rw [e1, e2]; exact h2) (by rw [e1, e2]; exact h1) (by rw [e1]; exact hlj)
        (by rw [e2]; exact hli) hdir
      rw [this, hr]

/-- invariant of the scan (time-series class) -/
def SInvTs (names : List String) (g1 g : Graph) (rest : List (Nat × Nat)) : Prop :=
  g.cls = .ts ∧ g.nodes = g1.nodes ∧ rest.Nodup ∧ (∀ p ∈ rest, p.1 < p.2 ∧ p.2 < names.length) ∧
  (∀ k, k ∈ g.edges → ∃ p : Nat × Nat, p ∉ rest ∧ p.1 < p.2 ∧ p.2 < names.length ∧
    (k = (names.getD p.1 "", names.getD p.2 "") ∨ k = (names.getD p.2 "", names.getD p.1 "")))

/-- the scan of the time-series class never fails when no prescribed directed edge runs against time -/
theorem scan_ts (A : Mat) (names : List String) (g1 : Graph) (hnd : names.Nodup) (hc : g1.cls = .ts)
    (hn : ∀ n ∈ names, g1.hasNode n = true) (hl : ∀ n ∈ names, g1.lagOf n = lagN n) (he : g1.edges = ∅)
    (hdo : DirOk A names) :
    bulk (scanStep A names) g1 (scanPairs names.length) =
      ((scanPairs names.length).foldl (scanApplyTs A names) g1, none) := by
  refine bulk_ok _ (scanApplyTs A names) (SInvTs names g1) ?_ _ _ ?_
  · rintro g p rest ⟨h1, h2, h3, h4, h5⟩
    have hp := h4 p List.mem_cons_self
    have hne : names.getD p.1 "" ≠ names.getD p.2 "" := by
      intro e
      have := getD_inj names hnd _ _ (by omega) (by omega) e
      omega
    have hfree : ∀ k, (k = (names.getD p.1 "", names.getD p.2 "") ∨ k = (names.getD p.2 "", names.getD p.1 "")) →
        k ∉ g.edges := by
      intro k hk hmem
      obtain ⟨q, hq1, hq2, hq3, hq4⟩ := h5 k hmem
      apply hq1
      have : p = q := by
        apply pair_eq_of_names names hnd p q hp ⟨hq2, hq3⟩
        rcases hk with hk | hk <;> rcases hq4 with hq4 | hq4 <;> rw [hk] at hq4
        · exact .inl hq4
        · exact .inr hq4
        · right
          exact Prod.ext (congrArg Prod.snd hq4) (congrArg Prod.fst hq4)
        · left
          exact Prod.ext (congrArg Prod.snd hq4) (congrArg Prod.fst hq4)
      rw [← this]
      exact List.mem_cons_self
    have hnode : ∀ n ∈ names, g.hasNode n = true := by
      intro n hn'
      have := hn n hn'
      simpa [Graph.hasNode, h2] using this
    have hlag : ∀ n ∈ names, g.lagOf n = lagN n := by
      intro n hn'
      have := hl n hn'
      simpa [Graph.lagOf, h2] using this
    have m1 := getD_mem names p.1 (by omega)
    have m2 := getD_mem names p.2 hp.2
    refine ⟨?_, ?_⟩
    · apply scanStep_eq_ts A names g p h1 hp hdo hne (hnode _ m1) (hnode _ m2)
      · rw [hasEdge_false_iff]; exact hfree _ (.inl rfl)
      · rw [hasEdge_false_iff]; exact hfree _ (.inr rfl)
      · exact hlag _ m1
      · exact hlag _ m2
    · have hp_notin : p ∉ rest := (List.nodup_cons.mp h3).1
      unfold scanApplyTs
      cases hE : edgeOfTs A names p with
      | none =>
        refine ⟨h1, h2, (List.nodup_cons.mp h3).2, fun q hq => h4 q (List.mem_cons_of_mem _ hq), ?_⟩
        intro k hk
        obtain ⟨q, hq1, hq⟩ := h5 k hk
        exact ⟨q, fun h => hq1 (List.mem_cons_of_mem _ h), hq⟩
      | some kr =>
        obtain ⟨k0, r0⟩ := kr
        refine ⟨h1, h2, (List.nodup_cons.mp h3).2, fun q hq => h4 q (List.mem_cons_of_mem _ hq), ?_⟩
        intro k hk
        simp only [Graph.insEdge, ExtTreeMap.mem_insert, ekCmp_eq_iff] at hk
        rcases hk with hk | hk
        · refine ⟨p, hp_notin, hp.1, hp.2, ?_⟩
          rw [← hk]
          exact edgeOfTs_key A names p k0 r0 hE
        · obtain ⟨q, hq1, hq⟩ := h5 k hk
          exact ⟨q, fun h => hq1 (List.mem_cons_of_mem _ h), hq⟩
  · refine ⟨hc, rfl, nodup_scanPairs _, fun p hp => mem_scanPairs _ p hp, ?_⟩
    intro k hk
    rw [he] at hk
    simp at hk

theorem foldl_scanApplyTs (A : Mat) (names : List String) (l : List (Nat × Nat)) (g : Graph) :
    l.foldl (scanApplyTs A names) g = { g with edges := insAll g.edges (l.filterMap (edgeOfTs A names)) } := by
  induction l generalizing g with
  | nil => rfl
  | cons p l ih =>
    simp only [List.foldl_cons, List.filterMap_cons]
    rw [ih]
    unfold scanApplyTs
    cases edgeOfTs A names p with
    | none => rfl
    | some kr => rfl

theorem scanEdgesTs_distinct (A : Mat) (names : List String) (hnd : names.Nodup) :
    ((scanPairs names.length).filterMap (edgeOfTs A names)).Pairwise (fun a b => a.1 ≠ b.1) := by
  rw [List.pairwise_filterMap]
  have h := nodup_scanPairs names.length
  unfold List.Nodup at h
  refine (List.Pairwise.and_mem.mp h).imp ?_
  rintro p q ⟨hp, hq, hne⟩ ⟨k, r⟩ hk ⟨k', r'⟩ hk' (e : k = k')
  subst e
  apply hne
  have h1 := edgeOfTs_key A names p k r hk
  have h2 := edgeOfTs_key A names q k r' hk'
  apply pair_eq_of_names names hnd p q (mem_scanPairs _ p hp) (mem_scanPairs _ q hq)
  rcases h1 with h1 | h1 <;> rcases h2 with h2 | h2 <;> rw [h1] at h2
  · exact .inl h2
  · exact .inr h2
  · right; exact Prod.ext (congrArg Prod.snd h2) (congrArg Prod.fst h2)
  · left; exact Prod.ext (congrArg Prod.snd h2) (congrArg Prod.fst h2)

theorem scannedTs_lookup (A : Mat) (names : List String) (hnd : names.Nodup) (k : EKey) (r : EdgeRec) :
    (insAll (∅ : EMap) ((scanPairs names.length).filterMap (edgeOfTs A names)))[k]? = some r ↔
      ∃ (p : Nat × Nat) (k0 : EKey), p.1 < p.2 ∧ p.2 < names.length ∧ edgeOf A names p = some (k0, r) ∧ k = ori k0 := by
  have conv : ∀ p : Nat × Nat, edgeOfTs A names p = some (k, r) ↔ ∃ k0, edgeOf A names p = some (k0, r) ∧ k = ori k0 := by
    intro p
    unfold edgeOfTs
    cases edgeOf A names p with
    | none => simp
    | some kr =>
      obtain ⟨k0, r0⟩ := kr
      simp only [Option.map_some, Option.some.injEq, Prod.mk.injEq]
      constructor
      · rintro ⟨h1, h2⟩; exact ⟨k0, ⟨rfl, h2⟩, h1.symm⟩
      · rintro ⟨k1, ⟨h1, h2⟩, h3⟩; exact ⟨by rw [h3, h1], h2⟩
  constructor
  · intro h
    have := mem_of_getElem?_insAll _ k r (scanEdgesTs_distinct A names hnd) h
    obtain ⟨p, hp, hE⟩ := List.mem_filterMap.mp this
    obtain ⟨h1, h2⟩ := mem_scanPairs _ p hp
    obtain ⟨k0, h3, h4⟩ := (conv p).mp hE
    exact ⟨p, k0, h1, h2, h3, h4⟩
  · rintro ⟨p, k0, h1, h2, h3, h4⟩
    apply getElem?_insAll_of_mem _ _ _ _ (scanEdgesTs_distinct A names hnd)
    exact List.mem_filterMap.mpr ⟨p, (mem_scanPairs_iff _ p).mpr ⟨h1, h2⟩, (conv p).mpr ⟨k0, h3, h4⟩⟩

/-! ### reading the scan off a well-formed time-series graph -/

/-- the graph the constructor builds from `(A, names)` (time-series class) -/
def builtGraphTs (A : Mat) (names : List String) : Graph :=
  { cls := .ts, nodes := insAll ∅ (names.map (fun n => (n, tsFresh n))),
    edges := insAll ∅ ((scanPairs names.length).filterMap (edgeOfTs A names)), gmeta := [] }

/-- what a matrix can carry of a time-series graph: node names with the variable / lag they parse to (variable types
    and metadata reset), the directed edges, the unordered undirected pairs; nothing else -/
structure MatrixImageTs (g g' : Graph) : Prop where
  cls : g'.cls = .ts
  nodes : g'.nodes = g.nodes.map (fun _ r => { vtype := .unspecified, md := [], var := r.var, lag := r.lag })
  dir : ∀ a b, DirRel g' a b ↔ DirRel g a b
  undir : ∀ a b, UndirBetween g' a b ↔ UndirBetween g a b
  only : OnlyDirUndir g'
  bare : ∀ (k : EKey) (r : EdgeRec), g'.edges[k]? = some r → r.md = []
  gmeta : g'.gmeta = []

theorem mem_edges_of_lookup' (g : Graph) (n : String) (r : NodeRec) (h : g.nodes[n]? = some r) : n ∈ g.nodes := by
  rw [ExtTreeMap.mem_iff_isSome_getElem?, h]; rfl

theorem wf_parse (g : Graph) (hwf : WF g) (hts : g.cls = .ts) (n : String) (hn : n ∈ g.nodes) :
    ∃ r, g.nodes[n]? = some r ∧ Name.parse n = some (r.var, r.lag) ∧ lagN n = g.lagOf n ∧
      tsFresh n = { vtype := .unspecified, md := [], var := r.var, lag := r.lag } := by
  obtain ⟨r, hr⟩ := Option.isSome_iff_exists.mp (ExtTreeMap.mem_iff_isSome_getElem?.mp hn)
  have hp := (hwf.tsName hts n r hr).1
  exact ⟨r, hr, hp, by simp [lagN, hp, Graph.lagOf, hr], by simp [tsFresh, hp]⟩

theorem dir_ori (g : Graph) (hwf : WF g) (hts : g.cls = .ts) (x y : String) (h : DirRel g x y) : ori (x, y) = (x, y) := by
  obtain ⟨r, hr, _⟩ := h
  have hm := mem_edges_of_lookup g _ r hr
  obtain ⟨hx, hy⟩ := hwf.ends x y hm
  have ht := hwf.tsTime hts x y hm
  obtain ⟨_, _, _, e1, _⟩ := wf_parse g hwf hts x hx
  obtain ⟨_, _, _, e2, _⟩ := wf_parse g hwf hts y hy
  unfold ori
  rw [if_neg]
  simp only
  rw [e1, e2]
  omega

theorem dirOk_of_law (g : Graph) (hwf : WF g) (hts : g.cls = .ts) (A : Mat) (h : ObeysLaw g A) : DirOk A g.nodes.keys := by
  rintro ⟨i, j⟩ k r h1 h2 hE ht
  rcases (edgeOf_law g hwf A h i j h1 h2 k r).mp hE with ⟨hd, hk, _⟩ | ⟨hd, hk, _⟩ | ⟨_, _, hr⟩
  · have := dir_ori g hwf hts _ _ hd
    rw [hk]
    unfold ori at this
    split at this
    · rename_i hgt
      have := congrArg Prod.fst this
      simp only at this
      exfalso
      obtain ⟨r', hr', _⟩ := hd
      exact hwf.noLoop _ (this ▸ mem_edges_of_lookup g _ r' hr')
    · rename_i hgt; simp only at hgt ⊢; omega
  · have := dir_ori g hwf hts _ _ hd
    rw [hk]
    unfold ori at this
    split at this
    · rename_i hgt
      have := congrArg Prod.fst this
      simp only at this
      exfalso
      obtain ⟨r', hr', _⟩ := hd
      exact hwf.noLoop _ (this ▸ mem_edges_of_lookup g _ r' hr')
    · rename_i hgt; simp only at hgt ⊢; omega
  · rw [hr] at ht; cases ht

theorem builtTs_dir (g : Graph) (hwf : WF g) (hts : g.cls = .ts) (A : Mat) (h : ObeysLaw g A) (a b : String) :
    DirRel (builtGraphTs A g.nodes.keys) a b ↔ DirRel g a b := by
  have hnd : g.nodes.keys.Nodup := ExtTreeMap.nodup_keys
  constructor
  · rintro ⟨r, hr, ht⟩
    obtain ⟨⟨i, j⟩, k0, h1, h2, hE, hk⟩ := (scannedTs_lookup A _ hnd _ _).mp hr
    rcases (edgeOf_law g hwf A h i j h1 h2 _ _).mp hE with ⟨hd, hk0, _⟩ | ⟨hd, hk0, _⟩ | ⟨_, _, hr'⟩
    · rw [hk0, dir_ori g hwf hts _ _ hd] at hk; cases hk; exact hd
    · rw [hk0, dir_ori g hwf hts _ _ hd] at hk; cases hk; exact hd
    · rw [hr'] at ht; cases ht
  · intro hd
    have hori := dir_ori g hwf hts a b hd
    obtain ⟨r, hr, hty⟩ := hd
    have hm := mem_edges_of_lookup g _ r hr
    obtain ⟨ha, hb⟩ := hwf.ends a b hm
    obtain ⟨i, hi, rfl⟩ := pos_of_node g a ha
    obtain ⟨j, hj, rfl⟩ := pos_of_node g b hb
    have hne : i ≠ j := by
      rintro rfl
      exact hwf.noLoop _ hm
    have hd : DirRel g g.nodes.keys[i] g.nodes.keys[j] := ⟨r, hr, hty⟩
    rcases Nat.lt_or_gt_of_ne hne with hlt | hlt
    · exact ⟨⟨.directed, []⟩, (scannedTs_lookup A _ hnd _ _).mpr ⟨(i, j), _, hlt, hj,
        (edgeOf_law g hwf A h i j hlt hj _ _).mpr (.inl ⟨hd, rfl, rfl⟩), hori.symm⟩, rfl⟩
    · exact ⟨⟨.directed, []⟩, (scannedTs_lookup A _ hnd _ _).mpr ⟨(j, i), _, hlt, hi,
        (edgeOf_law g hwf A h j i hlt hi _ _).mpr (.inr (.inl ⟨hd, rfl, rfl⟩)), hori.symm⟩, rfl⟩

theorem builtTs_undir (g : Graph) (hwf : WF g) (A : Mat) (h : ObeysLaw g A) (a b : String) :
    UndirBetween (builtGraphTs A g.nodes.keys) a b ↔ UndirBetween g a b := by
  have hnd : g.nodes.keys.Nodup := ExtTreeMap.nodup_keys
  have one : ∀ a b r, (builtGraphTs A g.nodes.keys).edges[(a, b)]? = some r → r.ty = .undirected → UndirBetween g a b := by
    intro a b r hr ht
    obtain ⟨⟨i, j⟩, k0, h1, h2, hE, hk⟩ := (scannedTs_lookup A _ hnd _ _).mp hr
    rcases (edgeOf_law g hwf A h i j h1 h2 _ _).mp hE with ⟨_, _, hr'⟩ | ⟨_, _, hr'⟩ | ⟨hu, hk0, _⟩
    · rw [hr'] at ht; cases ht
    · rw [hr'] at ht; cases ht
    · rw [hk0] at hk
      rcases ori_cases (g.nodes.keys[i], g.nodes.keys[j]) with ho | ho <;> rw [ho] at hk <;> cases hk
      · exact hu
      · exact (undir_symm g _ _).mp hu
  have put : ∀ x y : String, (∃ p : Nat × Nat, p.1 < p.2 ∧ p.2 < g.nodes.keys.length ∧
      edgeOf A g.nodes.keys p = some ((x, y), ⟨.undirected, []⟩)) → UndirBetween (builtGraphTs A g.nodes.keys) x y := by
    rintro x y ⟨p, h1, h2, hE⟩
    rcases ori_cases (x, y) with ho | ho
    · left
      exact ⟨⟨.undirected, []⟩, (scannedTs_lookup A _ hnd _ _).mpr ⟨p, (x, y), h1, h2, hE, ho.symm⟩, rfl⟩
    · right
      exact ⟨⟨.undirected, []⟩, (scannedTs_lookup A _ hnd _ _).mpr ⟨p, (x, y), h1, h2, hE, ho.symm⟩, rfl⟩
  constructor
  · rintro (⟨r, hr, ht⟩ | ⟨r, hr, ht⟩)
    · exact one a b r hr ht
    · exact (undir_symm g b a).mp (one b a r hr ht)
  · intro hu
    obtain ⟨ha, hb, hab⟩ := undir_ends g hwf a b hu
    obtain ⟨i, hi, rfl⟩ := pos_of_node g a ha
    obtain ⟨j, hj, rfl⟩ := pos_of_node g b hb
    have hne : i ≠ j := by
      rintro rfl
      exact hab rfl
    rcases Nat.lt_or_gt_of_ne hne with hlt | hlt
    · exact put _ _ ⟨(i, j), hlt, hj, (edgeOf_law g hwf A h i j hlt hj _ _).mpr (.inr (.inr ⟨hu, rfl, rfl⟩))⟩
    · apply (undir_symm _ _ _).mp
      exact put _ _ ⟨(j, i), hlt, hi,
        (edgeOf_law g hwf A h j i hlt hi _ _).mpr (.inr (.inr ⟨(undir_symm g _ _).mp hu, rfl, rfl⟩))⟩

theorem builtTs_image (g : Graph) (hwf : WF g) (hts : g.cls = .ts) (A : Mat) (h : ObeysLaw g A) :
    MatrixImageTs g (builtGraphTs A g.nodes.keys) := by
  have hnd : g.nodes.keys.Nodup := ExtTreeMap.nodup_keys
  refine ⟨rfl, ?_, builtTs_dir g hwf hts A h, builtTs_undir g hwf A h, ?_, ?_, rfl⟩
  · have := insAll_toList_map g.nodes (fun _ (r : NodeRec) => ({ vtype := .unspecified, md := [], var := r.var, lag := r.lag } : NodeRec))
    rw [← this]
    simp only [builtGraphTs]
    congr 1
    rw [← ExtTreeMap.map_fst_toList_eq_keys, List.map_map]
    apply List.map_congr_left
    rintro ⟨n, r⟩ hkv
    have hr := ExtTreeMap.mem_toList_iff_getElem?_eq_some.mp hkv
    obtain ⟨r', hr', _, _, hf⟩ := wf_parse g hwf hts n (mem_edges_of_lookup' g n r hr)
    rw [hr] at hr'
    cases hr'
    simp only [Function.comp, hf]
  · intro k r hr
    obtain ⟨⟨i, j⟩, k0, h1, h2, hE, _⟩ := (scannedTs_lookup A _ hnd _ _).mp hr
    rcases (edgeOf_law g hwf A h i j h1 h2 _ _).mp hE with ⟨_, _, hr'⟩ | ⟨_, _, hr'⟩ | ⟨_, _, hr'⟩ <;> rw [hr'] <;> simp
  · intro k r hr
    obtain ⟨⟨i, j⟩, k0, h1, h2, hE, _⟩ := (scannedTs_lookup A _ hnd _ _).mp hr
    rcases (edgeOf_law g hwf A h i j h1 h2 _ _).mp hE with ⟨_, _, hr'⟩ | ⟨_, _, hr'⟩ | ⟨_, _, hr'⟩ <;> rw [hr']

/-- **C08 (1), time-series class, general form.**  `TimeSeriesCausalGraph.from_adjacency_matrix(A, names)` on any matrix
    that obeys the entry law of a well-formed time-series graph `g` over `g`'s sorted names: no name is rejected, no
    directed entry runs against time, and (with validation: when `g` is acyclic) the result is the matrix image of `g` -/
theorem fromAdj_of_law_ts (g : Graph) (hwf : WF g) (hts : g.cls = .ts) (A : Mat) (h : ObeysLaw g A) (v : Bool)
    (hv : v = true → AcyclicG g) :
    fromAdjacencyMatrix .ts A (some g.nodes.keys) v = (builtGraphTs A g.nodes.keys, none) ∧
      MatrixImageTs g (builtGraphTs A g.nodes.keys) := by
  have himg := builtTs_image g hwf hts A h
  refine ⟨?_, himg⟩
  have hnd : g.nodes.keys.Nodup := ExtTreeMap.nodup_keys
  have hparse : ∀ n ∈ g.nodes.keys, (Name.parse n).isSome = true := by
    intro n hn
    obtain ⟨r, _, hp, _⟩ := wf_parse g hwf hts n (ExtTreeMap.mem_keys.mp hn)
    rw [hp]; rfl
  unfold fromAdjacencyMatrix
  rw [isSquare_of_dim _ A h.dim, isBinary_of _ A h.dim h.le1]
  simp only [Bool.not_true, Bool.false_eq_true, if_false, h.dim.1, if_true]
  rw [addNodesFrom_ts _ hnd hparse]
  simp only
  rw [scan_ts A _ _ hnd rfl ?_ ?_ rfl (dirOk_of_law g hwf hts A h)]
  · simp only
    rw [foldl_scanApplyTs]
    have hcyc : (v && anyOnCycle (builtGraphTs A g.nodes.keys) g.nodes.keys) = false := by
      cases v
      · rfl
      · have hac : AcyclicG (builtGraphTs A g.nodes.keys) := by
          intro n hn
          refine hv rfl n (TC.mono ?_ hn)
          intro a b hab
          rw [rel_dirEdges] at hab ⊢
          exact (himg.dir a b).mp hab
        simp only [Bool.true_and, anyOnCycle]
        apply List.any_eq_false.mpr
        intro n _
        simp [selfDepR_false_of_acyclic _ n hac]
    show (if (v && anyOnCycle (builtGraphTs A g.nodes.keys) g.nodes.keys) = true
        then (builtGraphTs A g.nodes.keys, some Err.cyclicConnection) else (builtGraphTs A g.nodes.keys, none)) = _
    rw [hcyc]
    rfl
  · intro n hn
    rw [hasNode_true_iff]
    exact (mem_tsFreshNodes _ n).mpr hn
  · intro n hn
    exact lagOf_tsFreshNodes _ hnd n hn (hparse n hn) _ rfl

/-- **C08 (1), time-series class** `from_adjacency_matrix(*g.to_numpy(), validate)` of the time-series class -/
theorem fromAdj_toNumpy_ts (g : Graph) (hwf : WF g) (hts : g.cls = .ts) (A : Mat) (names : List String)
    (h : toNumpy g = .ok (A, names)) (v : Bool) (hv : v = true → AcyclicG g) :
    ∃ g', fromAdjacencyMatrix .ts A (some names) v = (g', none) ∧ MatrixImageTs g g' := by
  obtain ⟨rfl, hl⟩ := obeys_of_toNumpy g hwf A names h
  exact ⟨_, fromAdj_of_law_ts g hwf hts A hl v hv⟩

/-- **C08 (3), time-series class** `from_networkx(g.to_networkx(), validate)` -/
theorem fromNetworkx_toNetworkx_ts (g : Graph) (hwf : WF g) (hts : g.cls = .ts) (x : NX) (h : toNetworkx g = .ok x)
    (v : Bool) (hv : v = true → AcyclicG g) :
    ∃ g', fromNetworkx .ts x v = (g', none) ∧ MatrixImageTs g g' := by
  obtain ⟨h1, h2, h3, h4⟩ := toNetworkx_faithful g x h
  have hl := obeys_of_nx g x h1 h2 h3 h4
  unfold fromNetworkx
  rw [h1]
  exact ⟨_, fromAdj_of_law_ts g hwf hts _ hl v hv⟩

/-- **C08, skeleton, time-series class** `from_skeleton(g.skeleton)` -/
theorem fromSkeleton_skeleton_ts (g : Graph) (hwf : WF g) (hts : g.cls = .ts) (v : Bool) :
    ∃ g', fromSkeleton .ts g v = (g', none) ∧ MatrixImageTs (undirImage g) g' := by
  have hau : AllUndirected (undirImage g) := by
    intro k r hr
    simp only [undirImage, ExtTreeMap.getElem?_map] at hr
    cases h : g.edges[k]? with
    | none => rw [h] at hr; cases hr
    | some r0 => rw [h] at hr; cases hr; rfl
  have hl : ObeysLaw (undirImage g) (nxToNumpy (skeletonToNetworkx g)) := by
    apply obeys_of_nx (undirImage g) (skeletonToNetworkx g) rfl
    · simp [skeletonToNetworkx, undirImage, ExtTreeMap.keys_map]
    · intro h; cases h
    · intro _; exact hau
  have hac : AcyclicG (undirImage g) := by
    intro n hn
    obtain ⟨m, h1, _⟩ := hn.split
    rw [rel_dirEdges] at h1
    obtain ⟨r, hr, ht⟩ := h1
    rw [hau _ r hr] at ht
    cases ht
  unfold fromSkeleton fromNetworkx
  exact ⟨_, fromAdj_of_law_ts (undirImage g) (undirImage_wf g hwf) hts _ hl v (fun _ => hac)⟩

/-! ### non-vacuity -/

example : ∃ A names g', toNumpy C05.exT = .ok (A, names) ∧
    fromAdjacencyMatrix .ts A (some names) false = (g', none) ∧ MatrixImageTs C05.exT g' := by
  cases h : toNumpy C05.exT with
  | error e =>
    obtain ⟨k, r, hr, h1, h2⟩ := (toNumpy_refuses_iff C05.exT).1.mp ⟨e, h⟩
    have := mem_of_getElem?_insAll _ k r (by simp) hr
    simp only [List.mem_cons, Prod.mk.injEq, List.mem_nil_iff, or_false] at this
    rcases this with ⟨_, rfl⟩ | ⟨_, rfl⟩
    · exact absurd rfl h1
    · exact absurd rfl h2
  | ok p =>
    obtain ⟨A, names⟩ := p
    obtain ⟨g', h1, h2⟩ := fromAdj_toNumpy_ts C05.exT C05.exT_wf rfl A names h false (by intro h; cases h)
    exact ⟨A, names, g', rfl, h1, h2⟩

end CG.C08.Ts
