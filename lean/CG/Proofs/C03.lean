/-
C03 — a rejected mutation leaves the graph exactly as it was — and the refinement half of C01.

`step` is built from the mechanism-level mirrors of `OpsImpl.lean` (write first, undo afterwards: the cycle
rollback of `_set_edge`, the removal of implicitly created endpoint nodes in `add_edge`, the restore step of
`change_edge_type` / `replace_edge`, the cascade `delete_node(new)` of `replace_node`).  `stepRef` is built from
the atomic reference operations of `Ops.lean` (`Except Err Graph`: a failing call has no state to return).

  * `step_eq_stepRef`        under `WF`, every operation does exactly what the atomic reference does;
  * `failed_step_unchanged`  under `WF`, a single-element mutator that reports an error returns the *same*
                             state (equality of the whole model state: extensional maps, so every view agrees);
  * `failed_stepRef_unchanged`  the same for the reference machine, with no hypothesis (immediate from `lift`).

The per-mutator refinement theorems (`setEdgeImpl_eq`, `addEdgeImpl_eq`, `changeEdgeTypeImpl_eq`,
`replaceEdgeImpl_eq`, `addTimeEdgeImpl_eq`, `replaceNodeBaseImpl_eq`, `replaceNodeImpl_eq`) are in
`Lemmas/C03Edge.lean` and `Lemmas/C03Node.lean` (same namespace).
-/
import CG.Proofs.Lemmas.C03Node

namespace CG.C03
open Std CG

/-- the mechanism-level machine equals the atomic reference machine on every well-formed state, for every
    operation (for the bulk adders both sides are the same function) -/
theorem step_eq_stepRef {g : Graph} (hw : WF g) (op : Op) : step g op = stepRef g op := by
  cases op with
  | addEdge s d ty m v => exact addEdgeImpl_eq hw s d ty m v
  | changeEdgeType s d nt => exact changeEdgeTypeImpl_eq hw s d nt
  | replaceEdge s d ns nd ty m => exact replaceEdgeImpl_eq hw s d ns nd ty m
  | replaceNode i new l v vt m => exact replaceNodeImpl_eq hw i new l v vt m
  | addTimeEdge sv st dv dt m v => exact addTimeEdgeImpl_eq hw sv st dv dt m v
  | _ => rfl

theorem lift_failed {g : Graph} {x : Except Err Graph} {e : Err} (h : (lift g x).2 = some e) :
    (lift g x).1 = g := by
  cases x with
  | ok _ => simp [lift] at h
  | error _ => rfl

/-- the reference machine: a failing single-element operation returns the state it was given -/
theorem failed_stepRef_unchanged (g : Graph) (op : Op) (hs : op.single = true) {e : Err}
    (h : (stepRef g op).2 = some e) : (stepRef g op).1 = g := by
  cases op with
  | addNodesFrom _ => cases hs
  | addEdgesFrom _ _ => cases hs
  | addPath _ _ => cases hs
  | addPaths _ => cases hs
  | addFullyConnected _ _ => cases hs
  | _ => exact lift_failed h

/-- **C03.** On a well-formed state, a single-element mutator that raises leaves the whole state unchanged. -/
theorem failed_step_unchanged {g : Graph} (hw : WF g) (op : Op) (hs : op.single = true) {e : Err}
    (h : (step g op).2 = some e) : (step g op).1 = g := by
  rw [step_eq_stepRef hw] at h ⊢
  exact CG.C03.failed_stepRef_unchanged g op hs h

/-- the converse reading used by C01: a call that reports no error applied exactly the reference effect -/
theorem ok_step_eq_ref {g : Graph} (hw : WF g) (op : Op) : (step g op).1 = (stepRef g op).1 := by
  rw [step_eq_stepRef hw]

/-! ### non-vacuity: the rollback path is really taken

`a → b → c`, then `add_edge('c', 'a')` with validation: both pre-checks of `_set_edge` pass, the edge is
written, the cycle check fires, `delete_edge` takes it out again, `CyclicConnectionError` is reported and the
state is the one before the call. -/
namespace Ex

def nr : NodeRec := { vtype := .unspecified, md := [] }
def er : EdgeRec := { ty := .directed, md := [] }
def g0 : Graph := (((Graph.empty .plain).insNode "a" nr).insNode "b" nr).insNode "c" nr
def g : Graph := (g0.insEdge "a" "b" er).insEdge "b" "c" er
def op : Op := .addEdge { id := "c" } { id := "a" } .directed [] true

theorem wf_empty (c : GraphClass) (gm : Meta) : WF (Graph.empty c gm) := by
  constructor
  · intro s d h; exact absurd h ExtTreeMap.not_mem_empty
  · intro s h; exact absurd h ExtTreeMap.not_mem_empty
  · intro s d h; exact absurd h ExtTreeMap.not_mem_empty
  · intro _ n r h
    rw [show (Graph.empty c gm).nodes = ∅ from rfl, ExtTreeMap.getElem?_empty] at h
    cases h
  · intro _ s d h; exact absurd h ExtTreeMap.not_mem_empty

theorem wf_g0 : WF g0 := by
  have hp : ∀ (g : Graph), g.cls = .plain → ∀ (n : String) (r : NodeRec),
      g.cls = .ts → Name.parse n = some (r.var, r.lag) ∧ r.md.tsStrip = r.md :=
    fun g hc _ _ hc' => by rw [hc] at hc'; cases hc'
  have ha := wf_insNode_fresh (wf_empty .plain []) (n := "a") (r := nr) (by decide) (hp _ rfl _ _)
  have hb := wf_insNode_fresh ha (n := "b") (r := nr) (by decide) (hp _ rfl _ _)
  exact wf_insNode_fresh hb (n := "c") (r := nr) (by decide) (hp _ rfl _ _)

theorem wf_g : WF g := by
  have h1 : WF (g0.insEdge "a" "b" er) :=
    wf_insEdge wf_g0 er (by decide) (by decide) (by decide) (by decide) (fun hc => by cases hc)
  exact wf_insEdge h1 er (by decide) (by decide) (by decide) (by decide) (fun hc => by cases hc)

/-- the hypotheses of `failed_step_unchanged` are met by a concrete non-trivial input -/
example : WF g ∧ op.single = true := ⟨wf_g, rfl⟩

/-- the directed edges after the (doomed) insertion -/
theorem dirEdges_after : (g.insEdge "c" "a" er).dirEdges = [("a", "b"), ("b", "c"), ("c", "a")] := by decide

theorem cyc3 : selfDepR [("a", "b"), ("b", "c"), ("c", "a")] "a" = true := by
  unfold selfDepR
  rw [List.any_eq_true]
  have hab : EL.Rel [("a", "b"), ("b", "c"), ("c", "a")] "a" "b" := by unfold EL.Rel; decide
  have hbc : EL.Rel [("a", "b"), ("b", "c"), ("c", "a")] "b" "c" := by unfold EL.Rel; decide
  have hca : EL.Rel [("a", "b"), ("b", "c"), ("c", "a")] "c" "a" := by unfold EL.Rel; decide
  refine ⟨"b", EL.mem_succs.mpr hab, decide_eq_true ?_⟩
  rw [EL.mem_reach_iff]
  exact ((EL.RTC.refl "b").tail hbc).tail hca

/-- the cycle check fires on the state that already holds the new edge -/
theorem cycle_detected : selfDepR (g.insEdge "c" "a" er).dirEdges "a" = true := by
  rw [dirEdges_after]; exact cyc3

/-- path taken inside `_set_edge`: no reverse edge, no duplicate, the write happens (the edge is present in the
    intermediate state and that state differs from `g`), the check fires, the rollback through `delete_edge`
    succeeds and gives `g` -/
example :
    g.hasEdge "a" "c" = false ∧ g.hasEdge "c" "a" = false ∧
    (g.insEdge "c" "a" er).hasEdge "c" "a" = true ∧ g.insEdge "c" "a" er ≠ g ∧
    selfDepR (g.insEdge "c" "a" er).dirEdges "a" = true ∧
    deleteEdge (g.insEdge "c" "a" er) "c" "a" none = .ok g ∧
    setEdgeImpl g "c" "a" er true = (g, some .cyclicConnection) := by
  have h1 : g.hasEdge "a" "c" = false := by decide
  have h2 : g.hasEdge "c" "a" = false := by decide
  have h3 : (g.insEdge "c" "a" er).hasEdge "c" "a" = true := by decide
  have hs : "c" ∈ g.nodes := by decide
  have hd : "a" ∈ g.nodes := by decide
  have himpl : setEdgeImpl g "c" "a" er true = (g, some .cyclicConnection) := by
    rw [setEdgeImpl_eq wf_g hs hd]
    simp only [setEdge, h1, h2, cycle_detected, Bool.false_eq_true, if_false, Bool.true_and, if_true, lift]
  refine ⟨h1, h2, h3, fun hc => ?_, cycle_detected, ?_, himpl⟩
  · rw [hc, h2] at h3; cases h3
  · have := himpl
    unfold setEdgeImpl at this
    simp only [h1, h2, cycle_detected, Bool.false_eq_true, if_false, Bool.true_and, if_true] at this
    cases hdel : deleteEdge (g.insEdge "c" "a" er) "c" "a" none with
    | ok g'' => rw [hdel] at this; simp only [Prod.mk.injEq, and_true] at this; rw [this]
    | error e => rw [hdel] at this; simp only [Prod.mk.injEq] at this; exact absurd this.1 (fun hc => by
        rw [hc, h2] at h3; cases h3)

/-- the public call: rejected with `CyclicConnectionError`, state unchanged -/
theorem step_fails : step g op = (g, some .cyclicConnection) := by
  have h1 : g.hasEdge "a" "c" = false := by decide
  have h2 : g.hasEdge "c" "a" = false := by decide
  rw [step_eq_stepRef wf_g]
  show lift g (addEdge g "c" "a" .directed [] true) = _
  rw [addEdge_of_mem (by decide) (by decide) (by decide)]
  have h3 : orient g "c" "a" .directed = .ok ("c", "a") := rfl
  simp only [h3, setEdge, h1, h2, Bool.false_eq_true, if_false]
  rw [show ({ ty := EdgeType.directed, md := [] } : EdgeRec) = er from rfl, cycle_detected]
  rfl

example : (step g op).2 = some .cyclicConnection ∧ (step g op).1 = g :=
  ⟨by rw [step_fails], failed_step_unchanged wf_g op rfl (e := .cyclicConnection) (by rw [step_fails])⟩

/-! `change_edge_type('c', 'a', '->')` on `a → b → c`, `c -- a` (with metadata): the old edge is deleted, the new
one is written, the cycle check fires and rolls it back, and the restore step re-adds the old edge (type and
metadata) without validation. -/

def md1 : Meta := [("k", "1")]
def g3 : Graph := g.insEdge "c" "a" { ty := .undirected, md := md1 }
def g3d : Graph := g3.delEdgeRaw "c" "a"
def op3 : Op := .changeEdgeType "c" "a" .directed

theorem wf_g3 : WF g3 :=
  wf_insEdge wf_g _ (by decide) (by decide) (by decide) (by decide) (fun hc => by cases hc)

theorem g3_get : g3.edges[(("c", "a") : EKey)]? = some { ty := .undirected, md := md1 } := by decide

theorem g3d_add_fails : addEdge g3d "c" "a" .directed md1 true = .error .cyclicConnection := by
  have h1 : g3d.hasEdge "a" "c" = false := by decide
  have h2 : g3d.hasEdge "c" "a" = false := by decide
  have h3 : orient g3d "c" "a" .directed = .ok ("c", "a") := rfl
  have h4 : (g3d.insEdge "c" "a" { ty := .directed, md := md1 }).dirEdges = [("a", "b"), ("b", "c"), ("c", "a")] := by
    decide
  rw [addEdge_of_mem (by decide) (by decide) (by decide)]
  simp only [h3, setEdge, h1, h2, h4, cyc3, Bool.false_eq_true, if_false, Bool.true_and, if_true]

example :
    WF g3 ∧ op3.single = true ∧
    deleteEdge g3 "c" "a" (some .undirected) = .ok g3d ∧ g3d.hasEdge "c" "a" = false ∧
    addEdgeImplS g3d "c" "a" .directed md1 true = (g3d, some .cyclicConnection) ∧
    addEdgeImplS g3d "c" "a" .undirected md1 false = (g3, none) ∧
    step g3 op3 = (g3, some .cyclicConnection) := by
  have hw3d : WF g3d := wf_delEdgeRaw wf_g3 _ _
  have hA : addEdgeImplS g3d "c" "a" .directed md1 true = (g3d, some .cyclicConnection) := by
    rw [addEdgeImplS_eq hw3d, g3d_add_fails]; rfl
  have hB : addEdgeImplS g3d "c" "a" .undirected md1 false = (g3, none) := by
    rw [addEdgeImplS_eq hw3d]
    exact congrArg (lift g3d) (addEdge_restore wf_g3 g3_get)
  have hD := (deleteEdge_of_get wf_g3 g3_get).1
  refine ⟨wf_g3, rfl, hD, by decide, hA, hB, ?_⟩
  show changeEdgeTypeImpl g3 "c" "a" .directed = _
  unfold changeEdgeTypeImpl
  simp only [g3_get]
  rw [if_neg (by decide)]
  simp only [hD]
  rw [show g3.delEdgeRaw "c" "a" = g3d from rfl, hA]
  simp only [hB]

/-! time-series class, `add_edge('X', 'X lag(n=1)')` on the empty graph: both endpoint nodes are created, the
edge constructor rejects the directed edge against time (`ValueError`), the two nodes are deleted again. -/

def gt : Graph := Graph.empty .ts
def gt1 : Graph := gt.insNode "X" { vtype := .unspecified, md := [], var := "X", lag := 0 }
def gt2 : Graph := gt1.insNode "X lag(n=1)" { vtype := .unspecified, md := [], var := "X", lag := -1 }
def opt : Op := .addEdge { id := "X" } { id := "X lag(n=1)" } .directed [] true

example :
    WF gt ∧ opt.single = true ∧
    ensureNode gt { id := "X" } = .ok gt1 ∧ ensureNode gt1 { id := "X lag(n=1)" } = .ok gt2 ∧
    gt2.nodes.keys = ["X", "X lag(n=1)"] ∧
    orient gt2 "X" "X lag(n=1)" .directed = .error .valueError ∧
    (step gt opt).2 = some .valueError ∧ (step gt opt).1 = gt :=
  ⟨wf_empty _ _, rfl, rfl, rfl, by decide, rfl, by decide,
    failed_step_unchanged (wf_empty _ _) opt rfl (e := .valueError) (by decide)⟩

/-! time-series class, `replace_node('X', 'X lag(n=2)')` with edges `A lag(n=3) → X`, `X lag(n=1) → X`: the new
node is created, the first inbound edge is copied onto it, the second copy is rejected (against time); the
cascade `delete_node(new)` removes the node and the copied edge. -/

def nA : NodeRec := { vtype := .unspecified, md := [], var := "A", lag := -3 }
def nX : NodeRec := { vtype := .unspecified, md := [], var := "X", lag := 0 }
def nX1 : NodeRec := { vtype := .unspecified, md := [], var := "X", lag := -1 }
def nX2 : NodeRec := { vtype := .unspecified, md := [], var := "X", lag := -2 }
def gr0 : Graph := ((gt.insNode "A lag(n=3)" nA).insNode "X" nX).insNode "X lag(n=1)" nX1
def gr : Graph := (gr0.insEdge "A lag(n=3)" "X" er).insEdge "X lag(n=1)" "X" er
def gr1 : Graph := gr.insNode "X lag(n=2)" nX2
def opr : Op := .replaceNode "X" (some "X lag(n=2)") none none none none

theorem wf_gr : WF gr := by
  have ha := wf_insNode_fresh (wf_empty .ts []) (n := "A lag(n=3)") (r := nA) (by decide) (fun _ => ⟨by decide, rfl⟩)
  have hb := wf_insNode_fresh ha (n := "X") (r := nX) (by decide) (fun _ => ⟨by decide, rfl⟩)
  have h0 : WF gr0 := wf_insNode_fresh hb (n := "X lag(n=1)") (r := nX1) (by decide) (fun _ => ⟨by decide, rfl⟩)
  have h1 : WF (gr0.insEdge "A lag(n=3)" "X" er) :=
    wf_insEdge h0 er (by decide) (by decide) (by decide) (by decide) (fun _ => by decide)
  exact wf_insEdge h1 er (by decide) (by decide) (by decide) (by decide) (fun _ => by decide)

example :
    WF gr ∧ opr.single = true ∧
    addNode gr "X lag(n=2)" .unspecified [] = .ok gr1 ∧
    (gr1.edgesTo "X").map (·.1) = [("A lag(n=3)", "X"), ("X lag(n=1)", "X")] ∧
    (copyEdgesImpl "X lag(n=2)" true gr1 (gr1.edgesTo "X")).2 = some .valueError ∧
    (copyEdgesImpl "X lag(n=2)" true gr1 (gr1.edgesTo "X")).1.hasEdge "A lag(n=3)" "X lag(n=2)" = true ∧
    (step gr opr).2 = some .valueError ∧ (step gr opr).1 = gr :=
  ⟨wf_gr, rfl, rfl, by decide, by decide, by decide, by decide,
    failed_step_unchanged wf_gr opr rfl (e := .valueError) (by decide)⟩

end Ex

end CG.C03
