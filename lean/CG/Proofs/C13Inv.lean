/-
C13, state-machine half, in the property's words.

  no_directed_edge_backwards     in a well-formed time-series graph every stored edge (directed or not) goes
                                 from a node to a node that is not earlier
  directed_edge_forward          … in particular every directed edge
  history_no_edge_backwards      … hence after every history from the empty time-series graph
  addEdge_against_time_refused   `add_edge(s, d, '->')` with `lag d < lag s` raises `ValueError` (existing nodes;
                                 the primed form covers endpoints created implicitly, lags read off the names)
  addTimeEdge_against_time_refused, changeEdgeType_against_time_refused, replaceEdge_against_time_refused
                                 the same for the other routes to a directed edge
  changeEdgeType_reverse_key     a stored pair can only be retyped in its stored (earlier → later) orientation: the
                                 call with the other orientation raises `EdgeDoesNotExistError`
  replaceNode_against_time_refused / replaceNode_relag_against_time_refused / replaceNode_accepted
                                 `replace_node` to a new identifier (given directly or by `time_lag=`) on a
                                 well-formed *acyclic* graph raises `ValueError` exactly when a directed edge at the
                                 node would point backwards once moved, and succeeds otherwise (acyclicity is needed:
                                 on a cyclic graph built without validation a cycle check of the copy loop can fire
                                 first)

Every refusal leaves the graph unchanged (the mutators return `Except Err Graph`; see C03 for the mechanism).
-/
import CG.Proofs.WFStep
import CG.Proofs.AcyclicStep
import CG.Proofs.Lemmas.CopyLoop
import CG.Proofs.C12Name

namespace CG.C13
open CG Std

/-! ### the invariant -/

/-- every stored edge of a well-formed time-series graph points forwards (or sideways) in time -/
theorem no_directed_edge_backwards {g : Graph} (hw : WF g) (hc : g.cls = .ts) :
    ∀ kv ∈ g.edges.toList, g.lagOf kv.1.1 ≤ g.lagOf kv.1.2 := by
  rintro ⟨⟨s, d⟩, r⟩ hkv
  have := (mem_edgeList_iff g (s, d) r).mp hkv
  exact hw.tsTime hc s d ((mem_edges_iff g (s, d)).mpr ⟨r, this⟩)

/-- every directed edge has a destination that is not earlier than its source -/
theorem directed_edge_forward {g : Graph} (hw : WF g) (hc : g.cls = .ts) {s d : String}
    (h : (s, d) ∈ g.dirEdges) : g.lagOf s ≤ g.lagOf d := by
  obtain ⟨r, hr, _⟩ := (mem_dirEdges g s d).mp h
  exact hw.tsTime hc s d ((mem_edges_iff g (s, d)).mpr ⟨r, hr⟩)

/-- after any history on a time-series graph (validated or not, failing calls included) no stored edge points
    backwards in time -/
theorem history_no_edge_backwards (gm : Meta) (ops : List Op) :
    ∀ kv ∈ (runRef (Graph.empty .ts gm) ops).edges.toList,
      (runRef (Graph.empty .ts gm) ops).lagOf kv.1.1 ≤ (runRef (Graph.empty .ts gm) ops).lagOf kv.1.2 :=
  no_directed_edge_backwards (wf_runRef_empty .ts gm ops) (runRef_cls _ ops)

/-! ### refusals: `add_edge` -/

/-- `add_edge(s, d, '->')` between two existing nodes of a time-series graph, `d` earlier than `s`, no edge stored
    at `(s, d)`: `ValueError` (whatever `validate` is; no well-formedness needed) -/
theorem addEdge_against_time_refused {g : Graph} {s d : String} {m : Meta} {v : Bool} (hc : g.cls = .ts)
    (hs : s ∈ g.nodes) (hd : d ∈ g.nodes) (hne : s ≠ d) (hno : g.hasEdge s d = false)
    (hlt : g.lagOf d < g.lagOf s) : addEdge g s d .directed m v = .error .valueError := by
  unfold addEdge addEdgeE
  have h1 : ensureNode g { id := s } = .ok g := ensureNode_present hs
  have h2 : ensureNode g { id := d } = .ok g := ensureNode_present hd
  simp only [hne, if_false, bind, Except.bind, h1, h2, hno, Bool.false_eq_true, orient_against_time hc hlt]

/-- implicit creation of a string endpoint in a well-formed time-series graph: the node's lag is the one its name
    parses to, whether it existed or not -/
theorem ensureNode_ts {g : Graph} {n v : String} {l : Int} (hw : WF g) (hc : g.cls = .ts)
    (hp : Name.parse n = some (v, l)) :
    ∃ g', ensureNode g { id := n } = .ok g' ∧ WF g' ∧ g'.cls = .ts ∧ g'.edges = g.edges ∧ n ∈ g'.nodes ∧
      g'.lagOf n = l ∧ ∀ k : String, k ∈ g.nodes → (k ∈ g'.nodes ∧ g'.lagOf k = g.lagOf k) := by
  by_cases hn : n ∈ g.nodes
  · refine ⟨g, ensureNode_present hn, hw, hc, rfl, hn, ?_, fun k hk => ⟨hk, rfl⟩⟩
    obtain ⟨r, hr⟩ := (mem_nodes_iff g n).mp hn
    have := (hw.tsName hc n r hr).1
    rw [hp] at this
    simp only [Option.some.injEq, Prod.mk.injEq] at this
    rw [lagOf_of_getElem? hr, this.2]
  · have hmk : mkNode g.cls n .unspecified [] = .ok { vtype := .unspecified, md := Meta.tsStrip [], var := v, lag := l } := by
      rw [hc]; simp only [mkNode, mkTsNode, hp]
    have he : ensureNode g { id := n } =
        .ok (g.insNode n { vtype := .unspecified, md := Meta.tsStrip [], var := v, lag := l }) := by
      unfold ensureNode
      rw [if_neg (by rw [hasNode_iff]; exact hn)]
      simp only [addNode, bind, Except.bind, hmk, (hasNode_false_iff g n).mpr hn, Bool.false_eq_true, if_false,
        pure, Except.pure]
    refine ⟨_, he, wf_ensureNode he hw, hc, rfl, (mem_insNode _ _ _ _).mpr (.inl rfl), ?_, ?_⟩
    · rw [lagOf_insNode, if_pos rfl]
    · intro k hk
      refine ⟨(mem_insNode _ _ _ _).mpr (.inr hk), ?_⟩
      rw [lagOf_insNode, if_neg (fun (e : n = k) => hn (e ▸ hk))]

/-- **`add_edge(s, d, '->')` in a well-formed time-series graph whose endpoint names parse to lags `ld < ls` is
    refused with `ValueError`** — whether or not the endpoints exist yet -/
theorem addEdge_against_time_refused' {g : Graph} {s d vs vd : String} {ls ld : Int} {m : Meta} {v : Bool}
    (hw : WF g) (hc : g.cls = .ts) (hne : s ≠ d) (hno : g.hasEdge s d = false)
    (hps : Name.parse s = some (vs, ls)) (hpd : Name.parse d = some (vd, ld)) (hlt : ld < ls) :
    addEdge g s d .directed m v = .error .valueError := by
  obtain ⟨g1, he1, hw1, hc1, _, hs1, hl1, _⟩ := ensureNode_ts hw hc hps
  obtain ⟨g2, he2, _, hc2, _, _, hl2, hk2⟩ := ensureNode_ts hw1 hc1 hpd
  have hlt' : g2.lagOf d < g2.lagOf s := by rw [hl2, (hk2 s hs1).2, hl1]; exact hlt
  unfold addEdge addEdgeE
  simp only [hne, if_false, bind, Except.bind, he1, he2, hno, Bool.false_eq_true, orient_against_time hc2 hlt']

/-! ### `add_time_edge` -/

/-- `add_time_edge(sv, st, dv, dt)` with `dt < st` is refused with `ValueError` (variable names in the domain of
    the name grammar, no edge stored at that pair) -/
theorem addTimeEdge_against_time_refused {g : Graph} {sv dv : String} {st dt : Int} {m : Meta} {v : Bool}
    (hw : WF g) (hc : g.cls = .ts) (hsv : sv ≠ "") (hsn : Name.NoMarker sv.toList) (hdv : dv ≠ "")
    (hdn : Name.NoMarker dv.toList) (hno : g.hasEdge (Name.fmt sv st) (Name.fmt dv dt) = false) (hlt : dt < st) :
    addTimeEdge g sv st dv dt m v = .error .valueError := by
  unfold addTimeEdge
  rw [C12.format_var sv st hsv hsn, C12.format_var dv dt hdv hdn]
  have hps := C12.parse_fmt sv st hsv hsn
  have hpd := C12.parse_fmt dv dt hdv hdn
  have hne : Name.fmt sv st ≠ Name.fmt dv dt := by
    intro e
    rw [e, hpd] at hps
    simp only [Option.some.injEq, Prod.mk.injEq] at hps
    omega
  exact addEdge_against_time_refused' hw hc hne hno hps hpd hlt

/-! ### `change_edge_type` -/

theorem deleteEdge_present {g : Graph} {s d : String} {r : EdgeRec} (hs : s ∈ g.nodes) (hd : d ∈ g.nodes)
    (hr : g.edges[(s, d)]? = some r) (ty? : Option EdgeType) (hty : ∀ t, ty? = some t → t = r.ty) :
    deleteEdge g s d ty? = .ok (g.delEdgeRaw s d) := by
  unfold deleteEdge
  simp only [(hasNode_iff g s).mpr hs, (hasNode_iff g d).mpr hd, Bool.not_true, Bool.false_eq_true, if_false, hr]
  cases ty? with
  | none => rfl
  | some t => simp only [hty t rfl, if_true]

/-- retyping a stored non-directed pair `(s, d)` whose `d` is earlier than `s` to `->` raises `ValueError`
    (no well-formedness needed: this is the behaviour of the call on *any* time-series state) -/
theorem changeEdgeType_against_time_refused {g : Graph} {s d : String} {r : EdgeRec} (hc : g.cls = .ts)
    (hr : g.edges[(s, d)]? = some r) (hty : r.ty ≠ .directed) (hs : s ∈ g.nodes) (hd : d ∈ g.nodes)
    (hne : s ≠ d) (hlt : g.lagOf d < g.lagOf s) : changeEdgeType g s d .directed = .error .valueError := by
  unfold changeEdgeType
  simp only [hr, hty, if_false, bind, Except.bind, deleteEdge_present hs hd hr (some r.ty) (fun t h => by cases h; rfl)]
  refine addEdge_against_time_refused (g := g.delEdgeRaw s d) hc hs hd hne ?_ hlt
  rw [hasEdge_false_iff, mem_delEdgeRaw]
  exact fun h => h.1 rfl

/-- in a well-formed graph the situation above cannot arise for the stored orientation (it is stored earlier →
    later), and the call with the *other* orientation — the only way to ask for the later → earlier arrow — finds no
    edge: `EdgeDoesNotExistError` -/
theorem changeEdgeType_reverse_key {g : Graph} {s d : String} (hw : WF g) (h : (s, d) ∈ g.edges) (nt : EdgeType) :
    changeEdgeType g d s nt = .error .edgeDoesNotExist := by
  unfold changeEdgeType
  have : g.edges[(d, s)]? = none := by
    cases hx : g.edges[(d, s)]? with
    | none => rfl
    | some r => exact absurd ((mem_edges_iff g (d, s)).mpr ⟨r, hx⟩) (hw.onePer s d h)
  rw [this]

/-! ### `replace_edge` -/

/-- re-targeting an edge onto existing nodes `(ns, nd)`, `nd` earlier than `ns`, as a directed edge: `ValueError` -/
theorem replaceEdge_against_time_refused {g : Graph} {s d ns nd : String} {r : EdgeRec} {ty? : Option EdgeType}
    {m? : Option Meta} (hc : g.cls = .ts) (hr : g.edges[(s, d)]? = some r) (hs : s ∈ g.nodes) (hd : d ∈ g.nodes)
    (hns : ns ∈ g.nodes) (hnd : nd ∈ g.nodes) (hne : ns ≠ nd) (hno : g.hasEdge ns nd = false)
    (hty : ty?.getD r.ty = .directed) (hlt : g.lagOf nd < g.lagOf ns) :
    replaceEdge g s d ns nd ty? m? = .error .valueError := by
  unfold replaceEdge
  simp only [hr, hno, Bool.false_eq_true, if_false, bind, Except.bind,
    deleteEdge_present hs hd hr none (fun t h => by cases h), hty]
  refine addEdge_against_time_refused (g := g.delEdgeRaw s d) hc hns hnd hne ?_ hlt
  rw [hasEdge_false_iff, mem_delEdgeRaw]
  exact fun h => (hasEdge_false_iff g ns nd).mp hno h.2

/-! ### `replace_node` -/

/-- **`replace_node(n, new)` on a well-formed acyclic time-series graph: `ValueError` whenever a directed edge
    into `n` comes from a node later than `new` (`BadIn`) or a directed edge out of `n` goes to a node earlier than
    `new` (`BadOut`), `nl` being the lag `new` parses to** -/
theorem replaceNode_against_time_refused {g : Graph} {n new nv : String} {nl : Int} {r0 : NodeRec}
    {vt? : Option VType} {m? : Option Meta} (hw : WF g) (hac : AcyclicG g) (hc : g.cls = .ts)
    (hr0 : g.nodes[n]? = some r0) (hnew : new ∉ g.nodes) (hp : Name.parse new = some (nv, nl))
    (hbad : BadIn g n nl ∨ BadOut g n nl) : replaceNode g n (some new) none none vt? m? = .error .valueError := by
  unfold replaceNode
  rw [hc]
  simp only [Option.isSome_none, Bool.or_self, Bool.false_eq_true, if_false]
  exact (replaceNodeBase_exact hw hac hc hr0 hnew hp).1 hbad

/-- … and it is refused for no other reason: without such an edge the call succeeds -/
theorem replaceNode_accepted {g : Graph} {n new nv : String} {nl : Int} {r0 : NodeRec}
    {vt? : Option VType} {m? : Option Meta} (hw : WF g) (hac : AcyclicG g) (hc : g.cls = .ts)
    (hr0 : g.nodes[n]? = some r0) (hnew : new ∉ g.nodes) (hp : Name.parse new = some (nv, nl))
    (hok : ¬ (BadIn g n nl ∨ BadOut g n nl)) : ∃ g', replaceNode g n (some new) none none vt? m? = .ok g' := by
  unfold replaceNode
  rw [hc]
  simp only [Option.isSome_none, Bool.or_self, Bool.false_eq_true, if_false]
  exact (replaceNodeBase_exact hw hac hc hr0 hnew hp).2 hok

/-- the `time_lag=` form: moving node `n` of variable `r0.var` to lag `l` -/
theorem replaceNode_relag_against_time_refused {g : Graph} {n : String} {l : Int} {r0 : NodeRec}
    {vt? : Option VType} {m? : Option Meta} (hw : WF g) (hac : AcyclicG g) (hc : g.cls = .ts)
    (hr0 : g.nodes[n]? = some r0) (hv : r0.var ≠ "") (hnm : Name.NoMarker r0.var.toList)
    (hnew : Name.fmt r0.var l ∉ g.nodes) (hbad : BadIn g n l ∨ BadOut g n l) :
    replaceNode g n none (some l) none vt? m? = .error .valueError := by
  unfold replaceNode
  rw [hc]
  simp only [Option.isSome_some, Bool.true_or, if_true, (hw.tsName hc n r0 hr0).1, Option.getD_none,
    Option.getD_some, C12.format_var r0.var l hv hnm]
  exact (replaceNodeBase_exact hw hac hc hr0 hnew (C12.parse_fmt r0.var l hv hnm)).1 hbad

/-! ### non-vacuity (the demo graph of `WFStep.lean`: `x lag(n=1) -> x`, `x lag(n=1) -- y`) -/

section Examples
open Demo

example : ∀ kv ∈ tsG.edges.toList, tsG.lagOf kv.1.1 ≤ tsG.lagOf kv.1.2 := history_no_edge_backwards [] tsOps

example : addEdge tsG "y" "x lag(n=1)" .directed [] true = .error .valueError :=
  addEdge_against_time_refused' (vs := "y") (vd := "x") (ls := 0) (ld := -1) wf_tsG (by decide) (by decide)
    (by decide) (by decide) (by decide) (by decide)

/-- the same call with an endpoint that does not exist yet -/
example : addEdge tsG "w future(n=2)" "x" .directed [] false = .error .valueError :=
  addEdge_against_time_refused' (vs := "w") (vd := "x") (ls := 2) (ld := 0) wf_tsG (by decide) (by decide)
    (by decide) (by decide) (by decide) (by decide)

example : addTimeEdge tsG "x" 0 "y" (-3) [] false = .error .valueError :=
  addTimeEdge_against_time_refused wf_tsG (by decide) (by decide) (by decide) (by decide) (by decide) (by decide)
    (by decide)

/-- re-targeting `x lag(n=1) -- y` onto `(y, x lag(n=1))` as a directed edge -/
example : replaceEdge tsG "x lag(n=1)" "y" "y" "x lag(n=1)" (some .directed) none = .error .valueError :=
  replaceEdge_against_time_refused (r := ⟨.undirected, []⟩) (by decide) (by decide) (by decide) (by decide)
    (by decide) (by decide) (by decide) (by decide) rfl (by decide)

/-- asking for the arrow `y -> x lag(n=1)` by retyping: the pair is stored the other way round -/
example : changeEdgeType tsG "y" "x lag(n=1)" .directed = .error .edgeDoesNotExist :=
  changeEdgeType_reverse_key wf_tsG (by decide) _

/-- moving `x` (which has the parent `x lag(n=1)`) two steps back in time -/
example : replaceNode tsG "x" (some "x lag(n=2)") none none none none = .error .valueError :=
  replaceNode_against_time_refused (nv := "x") (nl := -2) (r0 := ⟨.unspecified, [], "x", 0⟩) wf_tsG acyclic_tsG
    (by decide) (by decide) (by decide) (by decide)
    (.inl ⟨"x lag(n=1)", ⟨.directed, []⟩, by decide, rfl, by decide⟩)

example : replaceNode tsG "x" none (some (-2)) none none none = .error .valueError :=
  replaceNode_relag_against_time_refused (r0 := ⟨.unspecified, [], "x", 0⟩) wf_tsG acyclic_tsG
    (by decide) (by decide) (by decide) (by decide) (by decide)
    (.inl ⟨"x lag(n=1)", ⟨.directed, []⟩, by decide, rfl, by decide⟩)

/-- moving it forwards is accepted -/
example : ∃ g', replaceNode tsG "x" (some "x future(n=1)") none none none none = .ok g' := by
  refine replaceNode_accepted (nv := "x") (nl := 1) (r0 := ⟨.unspecified, [], "x", 0⟩) wf_tsG acyclic_tsG
    (by decide) (by decide) (by decide) (by decide) ?_
  have hl : tsG.edgeList =
      [(("x lag(n=1)", "x"), ⟨.directed, []⟩), (("x lag(n=1)", "y"), ⟨.undirected, []⟩)] := by decide
  rintro (⟨p, rp, hr, _, hlt⟩ | ⟨c, rc, hr, _, hlt⟩)
  · have hm := (mem_edgeList_iff tsG _ _).mpr hr
    rw [hl] at hm
    simp at hm
    obtain ⟨rfl, _⟩ := hm
    revert hlt; decide
  · have hm := (mem_edgeList_iff tsG _ _).mpr hr
    rw [hl] at hm
    simp at hm

end Examples

end CG.C13
