/-
C01 — detours that are the identity on the graph.

The Python harness builds its test graphs "dirty": between the calls that build a graph it performs detours which,
by the reference semantics of the calls, leave the graph exactly as it was (`harness/gen.py`, `stress`), and it checks
on the real implementation that the graph is unchanged afterwards.  This file proves those identities for the
reference model (`CG/Model/Ops.lean`), for every well-formed graph (`WF g`), as equalities of the whole model state
(the two maps are extensional, so every view agrees), and lifts each of them through `C03.step_eq_stepRef` to the
mechanism-level machine (`step` / `run`).

  1.  `addNode_deleteNode`          a fresh node comes and goes
  2.  `addEdge_deleteNode_fresh`    a fresh node comes with an edge to / from an existing node, and goes (cascade)
  2b. `ghosts_come_and_go`          a whole episode around a set of fresh names (the "hub" of the harness)
  3.  `addEdge_deleteEdge`          an accepted edge between two existing non-adjacent nodes comes and goes
  4.  `deleteEdge_addEdge`          an edge goes and comes back (same stored orientation, type, metadata)
  5.  `changeEdgeType_back`         an edge is retyped and retyped back
  6.  `replaceNode_back`            a node is renamed to a fresh identifier and renamed back;
      `replaceNode_back_accepted`   the way back is accepted whenever the way there was
  7.  `replaceNode_inplace_same`    an in-place `replace_node` that re-asserts what the node already has
  8.  `refused_is_identity`         a refused single-element call
  9.  `detours_compose`             any finite sequence of the above; `dirty_build_eq_clean_build`

Each law comes in two forms: about the atomic reference operations ("if the calls are accepted, the result is `g`"),
and `…_run` about the state machine, where acceptance is NOT assumed: the side conditions are facts about `g` alone,
and a refused first call is followed by a refused (or trivial) second call.  `Detour` (section 9) collects the
`…_run` side conditions.  Section `NotIdentity` has witnesses showing that the side conditions are needed.
-/
import CG.Proofs.Lemmas.Detours

namespace CG.C01
open Std CG CG.Detours

/-! ## 1. a fresh node comes and goes -/

/-- **Law 1** (`add_node(identifier, …)`; `delete_node`).  Acceptance of the `add_node` already says that the
    identifier was fresh (and, for the time-series class, that the name grammar accepts it).  `WF.ends` is what
    makes the cascade of `delete_node` find nothing: no edge of `g` mentions the fresh identifier. -/
theorem addNode_deleteNode {g g' : Graph} (hw : WF g) {id : String} {vt : VType} {m : Meta}
    (h : addNode g id vt m = .ok g') : deleteNode g' id = .ok g := by
  obtain ⟨r, _, hn, rfl⟩ := C03.addNode_ok h
  rw [deleteNode_of_mem ((mem_insNode g id id r).mpr (.inl rfl)), insNode_delNodeRaw hw hn]

/-- the same for `add_node(node=N)` -/
theorem addNodeObj_deleteNode {g g' : Graph} (hw : WF g) {id : String} {vt : VType} {m : Meta}
    (h : addNodeObj g id vt m = .ok g') : deleteNode g' id = .ok g := by
  obtain ⟨r, _, hn, rfl⟩ := C03.addNodeObj_ok h
  rw [deleteNode_of_mem ((mem_insNode g id id r).mpr (.inl rfl)), insNode_delNodeRaw hw hn]

/-- Law 1 from freshness: a fresh identifier (time-series class: one the name grammar accepts — otherwise the call
    is refused with `ValueError`, see `addNode_deleteNode_run`) is accepted by both forms of `add_node`, with any
    variable type and metadata, and `delete_node` then gives `g` back. -/
theorem addNode_deleteNode_fresh {g : Graph} (hw : WF g) {id : String} (hn : id ∉ g.nodes)
    (hname : g.cls = .ts → (Name.parse id).isSome) (vt : VType) (m : Meta) :
    ∃ g', addNode g id vt m = .ok g' ∧ addNodeObj g id vt m = .ok g' ∧ deleteNode g' id = .ok g := by
  obtain ⟨r, hr⟩ := mkNode_accepted g.cls hname vt m
  have h := addNode_of_fresh hn hr
  exact ⟨_, h, addNodeObj_of_fresh hn hr, addNode_deleteNode hw h⟩

/-- Law 1 for the state machine: freshness is the only side condition (a fresh name that the time-series grammar
    refuses makes both calls fail, and failing calls change nothing). -/
theorem addNode_deleteNode_run {g : Graph} (hw : WF g) {id : String} (hn : id ∉ g.nodes) (vt : VType) (m : Meta) :
    run g [.addNode id vt m, .deleteNode id] = g := by
  have e1 : step g (.addNode id vt m) = lift g (addNode g id vt m) := rfl
  have e2 : ∀ g1, step g1 (.deleteNode id) = lift g1 (deleteNode g1 id) := fun _ => rfl
  rw [run_pair, e1, e2]
  cases h : addNode g id vt m with
  | ok g' => simp only [lift, addNode_deleteNode hw h]
  | error e => simp only [lift, deleteNode_of_not_mem hn]

theorem addNodeObj_deleteNode_run {g : Graph} (hw : WF g) {id : String} (hn : id ∉ g.nodes) (vt : VType) (m : Meta) :
    run g [.addNodeObj id vt m, .deleteNode id] = g := by
  have e1 : step g (.addNodeObj id vt m) = lift g (addNodeObj g id vt m) := rfl
  have e2 : ∀ g1, step g1 (.deleteNode id) = lift g1 (deleteNode g1 id) := fun _ => rfl
  rw [run_pair, e1, e2]
  cases h : addNodeObj g id vt m with
  | ok g' => simp only [lift, addNodeObj_deleteNode hw h]
  | error e => simp only [lift, deleteNode_of_not_mem hn]

/-- the hypotheses are met: `z` (binary, with metadata) comes and goes on `a → b → c` -/
example : run C03.Ex.g [.addNode "z" .binary [("k", "1")], .deleteNode "z"] = C03.Ex.g :=
  addNode_deleteNode_run C03.Ex.wf_g (by decide) _ _

/-- … and on the time-series graph `A lag(n=3) → X ← X lag(n=1)` with a lagged ghost -/
example : ∃ g', addNode C03.Ex.gr "zq detour lag(n=9)" .unspecified [] = .ok g' ∧
    addNodeObj C03.Ex.gr "zq detour lag(n=9)" .unspecified [] = .ok g' ∧
    deleteNode g' "zq detour lag(n=9)" = .ok C03.Ex.gr :=
  addNode_deleteNode_fresh C03.Ex.wf_gr (by decide) (fun _ => by decide) _ _

/-! ## 2. a fresh node comes with an edge, and goes -/

/-- **Law 2** (`add_edge`; `delete_node`).  One endpoint `f` is fresh (an identifier or a `Node` object: created
    implicitly by `add_edge`), the other exists.  Whatever the edge type, metadata, `validate`, and whichever
    orientation the edge constructor chose for a time-series edge: when the `add_edge` is accepted, `delete_node(f)`
    gives `g` back — the cascade removes the one edge, the existing endpoint keeps its attributes (it is never
    written).  `WF.ends` is needed as in law 1. -/
theorem addEdge_deleteNode_fresh {g g' : Graph} (hw : WF g) {s d : Endpoint} {f : String} (hf : f ∉ g.nodes)
    (hends : (s.id = f ∧ d.id ∈ g.nodes) ∨ (d.id = f ∧ s.id ∈ g.nodes))
    {ty : EdgeType} {m : Meta} {v : Bool} (h : addEdgeE g s d ty m v = .ok g') : deleteNode g' f = .ok g := by
  obtain ⟨_, g1, g2, k, hg1, hg2, _, _, hk, _, _, rfl, _⟩ := addEdgeE_ok h
  -- the two `ensureNode`s together insert exactly the fresh node
  obtain ⟨r, rfl⟩ : ∃ r, g2 = g.insNode f r := by
    rcases hends with ⟨rfl, hd⟩ | ⟨rfl, hs⟩
    · rcases ensureNode_ok hg1 with ⟨_, hm⟩ | ⟨r, _, _, rfl⟩
      · exact absurd hm hf
      · rw [C03.ensureNode_of_mem ((mem_insNode g _ _ r).mpr (.inr hd))] at hg2
        cases hg2
        exact ⟨r, rfl⟩
    · rw [C03.ensureNode_of_mem hs] at hg1
      cases hg1
      rcases ensureNode_ok hg2 with ⟨_, hm⟩ | ⟨r, _, _, rfl⟩
      · exact absurd hm hf
      · exact ⟨r, rfl⟩
  have hinc : k.1 = f ∨ k.2 = f := by
    rcases hends with ⟨rfl, _⟩ | ⟨rfl, _⟩ <;> rcases hk with rfl | rfl
    · exact .inl rfl
    · exact .inr rfl
    · exact .inr rfl
    · exact .inl rfl
  rw [deleteNode_of_mem (by rw [insEdge_nodes]; exact (mem_insNode g f f r).mpr (.inl rfl))]
  exact congrArg _ (C03.Around.delNodeRaw hw hf ((C03.Around.refl _ _).insEdge _ hinc))

/-- Law 2 for the state machine: the side conditions are freshness of one endpoint and existence of the other (a
    refused `add_edge` — a name the time-series grammar rejects, a directed edge against time — removes the node it
    created (C03), and the `delete_node` that follows is refused too). -/
theorem addEdge_deleteNode_fresh_run {g : Graph} (hw : WF g) {s d : Endpoint} {f : String} (hf : f ∉ g.nodes)
    (hends : (s.id = f ∧ d.id ∈ g.nodes) ∨ (d.id = f ∧ s.id ∈ g.nodes)) (ty : EdgeType) (m : Meta) (v : Bool) :
    run g [.addEdge s d ty m v, .deleteNode f] = g := by
  have e1 : stepRef g (.addEdge s d ty m v) = lift g (addEdgeE g s d ty m v) := rfl
  have e2 : ∀ g1, step g1 (.deleteNode f) = lift g1 (deleteNode g1 f) := fun _ => rfl
  rw [run_pair, C03.step_eq_stepRef hw, e1, e2]
  cases h : addEdgeE g s d ty m v with
  | ok g' => simp only [lift, addEdge_deleteNode_fresh hw hf hends h]
  | error e => simp only [lift, deleteNode_of_not_mem hf]

/-- `zq -- c` from a fresh `Node` object (binary, with metadata), unvalidated, on `a → b → c`; then `zq` goes -/
example : run C03.Ex.g [.addEdge { id := "zq", obj := some (.binary, [("k", "1")]) } { id := "c" } .undirected
    [("w", "2")] false, .deleteNode "zq"] = C03.Ex.g :=
  addEdge_deleteNode_fresh_run C03.Ex.wf_g (s := { id := "zq", obj := some (.binary, [("k", "1")]) })
    (d := { id := "c" }) (f := "zq") (by decide) (.inl ⟨rfl, by decide⟩) _ _ _

/-- time-series class: `X <> zq detour lag(n=9)` towards a fresh, EARLIER node is stored from the fresh node; it is
    accepted, and the ghost goes again -/
example : (step C03.Ex.gr (.addEdge { id := "X" } { id := "zq detour lag(n=9)" } .bidirected [] true)).2 = none ∧
    run C03.Ex.gr [.addEdge { id := "X" } { id := "zq detour lag(n=9)" } .bidirected [] true,
      .deleteNode "zq detour lag(n=9)"] = C03.Ex.gr :=
  ⟨by decide +kernel, addEdge_deleteNode_fresh_run C03.Ex.wf_gr (s := { id := "X" })
    (d := { id := "zq detour lag(n=9)" }) (f := "zq detour lag(n=9)") (by decide) (.inr ⟨rfl, by decide⟩) _ _ _⟩

/-! ## 2b. ghosts: a whole episode around fresh names

The harness also lets a *hub* come and go: several fresh nodes, edges among them and into the graph, then
`delete_node` of each (`harness/gen.py`, detour 5).  That is not a sequence of the two-call shapes above (the
episode is nested), so it gets its own law; laws 1 and 2 are its two-call instances. -/

/-- the calls of a ghost episode around the names `F` (all fresh in `g0`): creating a ghost node; an `add_edge` that
    touches a ghost and whose end points are ghosts or nodes of `g0` (so an implicitly created node is a ghost);
    deleting an edge that touches a ghost; deleting a ghost.  Any argument form, edge type, metadata, `validate`. -/
inductive GhostOp (F : String → Prop) (g0 : Graph) : Op → Prop
  | addNode (id : String) (vt : VType) (m : Meta) : F id → GhostOp F g0 (.addNode id vt m)
  | addNodeObj (id : String) (vt : VType) (m : Meta) : F id → GhostOp F g0 (.addNodeObj id vt m)
  | addEdge (s d : Endpoint) (ty : EdgeType) (m : Meta) (v : Bool) :
      (F s.id ∨ F d.id) → (F s.id ∨ s.id ∈ g0.nodes) → (F d.id ∨ d.id ∈ g0.nodes) →
      GhostOp F g0 (.addEdge s d ty m v)
  | deleteEdge (s d : String) (ty? : Option EdgeType) : (F s ∨ F d) → GhostOp F g0 (.deleteEdge s d ty?)
  | deleteNode (id : String) : F id → GhostOp F g0 (.deleteNode id)

/-- a call of a ghost episode, accepted or refused, changes nothing outside the ghosts -/
theorem ghost_step {F : String → Prop} {g0 g : Graph} (hw : WF g) (h : Ghost F g0 g) {op : Op}
    (hop : GhostOp F g0 op) : Ghost F g0 (step g op).1 := by
  rw [C03.step_eq_stepRef hw]
  cases hop with
  | addNode id vt m hF =>
    show Ghost F g0 (lift g (addNode g id vt m)).1
    cases hadd : addNode g id vt m with
    | error e => exact h
    | ok g' =>
      obtain ⟨r, _, _, rfl⟩ := addNode_ok hadd
      exact h.insNode hF r
  | addNodeObj id vt m hF =>
    show Ghost F g0 (lift g (addNodeObj g id vt m)).1
    cases hadd : addNodeObj g id vt m with
    | error e => exact h
    | ok g' =>
      obtain ⟨r, _, _, rfl⟩ := addNodeObj_ok hadd
      exact h.insNode hF r
  | addEdge s d ty m v hF hs hd =>
    show Ghost F g0 (lift g (addEdgeE g s d ty m v)).1
    cases hadd : addEdgeE g s d ty m v with
    | error e => exact h
    | ok g' =>
      obtain ⟨_, g1, g2, k, hg1, hg2, _, _, hk, _, _, rfl, _⟩ := addEdgeE_ok hadd
      refine ((h.ensureNode hs hg1).ensureNode hd hg2).insEdge ?_ _
      rcases hk with rfl | rfl
      · exact hF
      · exact hF.symm
  | deleteEdge s d ty? hF =>
    show Ghost F g0 (lift g (deleteEdge g s d ty?)).1
    cases hdel : deleteEdge g s d ty? with
    | error e => exact h
    | ok g' => rw [deleteEdge_ok hdel]; exact h.delEdgeRaw hF
  | deleteNode id hF =>
    show Ghost F g0 (lift g (deleteNode g id)).1
    cases hdel : deleteNode g id with
    | error e => exact h
    | ok g' => rw [deleteNode_ok hdel]; exact h.delNodeRaw hF

/-- every step of the state machine keeps the invariant (C03 refinement + `wf_stepRef`) -/
theorem wf_step {g : Graph} (hw : WF g) (op : Op) : WF (step g op).1 := by
  rw [C03.step_eq_stepRef hw]; exact wf_stepRef hw op

theorem ghost_run {F : String → Prop} {g0 : Graph} :
    ∀ (ops : List Op) (g : Graph), WF g → Ghost F g0 g → (∀ op ∈ ops, GhostOp F g0 op) →
      WF (run g ops) ∧ Ghost F g0 (run g ops) := by
  intro ops
  induction ops with
  | nil => exact fun g hw h _ => ⟨hw, h⟩
  | cons op ops ih =>
    intro g hw h hops
    rw [run_cons]
    exact ih _ (wf_step hw op) (ghost_step hw h (hops op List.mem_cons_self))
      (fun op' hm => hops op' (List.mem_cons_of_mem _ hm))

/-- **Law 2b.**  `F` is a set of names none of which is a node of `g`.  Any history of ghost calls (`GhostOp`: nodes
    with names in `F` are created, explicitly or as end points of `add_edge`; edges are added that touch at least one
    of them and otherwise only nodes of `g`; such edges and nodes are deleted), accepted or refused call by call,
    after which no name of `F` is a node any more, ends in `g`: every edge that touched a ghost went with it
    (`WF.ends` of the final state), no other edge and no other node was ever written. -/
theorem ghosts_come_and_go {F : String → Prop} {g : Graph} (hw : WF g) (hfresh : ∀ n, F n → n ∉ g.nodes)
    {ops : List Op} (hops : ∀ op ∈ ops, GhostOp F g op) (hgone : ∀ n, F n → n ∉ (run g ops).nodes) :
    run g ops = g := by
  obtain ⟨hw', h'⟩ := ghost_run ops g hw (Ghost.refl F g) hops
  exact h'.eq_of_gone hw hw' hfresh hgone

/-- the hub of the harness on `a → b → c`: a hub with two ghost parents, two ghost children (one named by a lone
    quote, one by a comma-blank), an undirected edge to `a` and a bidirected edge from `c`; then everything goes -/
example : run C03.Ex.g [.addEdge { id := "zq p1" } { id := "zq hub" } .directed [] true,
    .addEdge { id := "'" } { id := "zq hub" } .directed [] true,
    .addEdge { id := "zq hub" } { id := "zq c1" } .directed [] true,
    .addEdge { id := "zq hub" } { id := ", " } .directed [] true,
    .addEdge { id := "zq hub" } { id := "a" } .undirected [] true,
    .addEdge { id := "c" } { id := "zq hub" } .bidirected [] true,
    .deleteNode "zq hub", .deleteNode "zq p1", .deleteNode "'", .deleteNode "zq c1", .deleteNode ", "] = C03.Ex.g := by
  refine ghosts_come_and_go (F := fun n => n ∈ ["zq hub", "zq p1", "'", "zq c1", ", "]) C03.Ex.wf_g (by decide) ?_
    (by decide +kernel)
  intro op hm
  simp only [List.mem_cons, List.not_mem_nil, or_false] at hm
  rcases hm with rfl | rfl | rfl | rfl | rfl | rfl | rfl | rfl | rfl | rfl | rfl
  · exact .addEdge _ _ _ _ _ (.inl (by decide)) (.inl (by decide)) (.inl (by decide))
  · exact .addEdge _ _ _ _ _ (.inl (by decide)) (.inl (by decide)) (.inl (by decide))
  · exact .addEdge _ _ _ _ _ (.inl (by decide)) (.inl (by decide)) (.inl (by decide))
  · exact .addEdge _ _ _ _ _ (.inl (by decide)) (.inl (by decide)) (.inl (by decide))
  · exact .addEdge _ _ _ _ _ (.inl (by decide)) (.inl (by decide)) (.inr (by decide))
  · exact .addEdge _ _ _ _ _ (.inr (by decide)) (.inr (by decide)) (.inl (by decide))
  · exact .deleteNode _ (by decide)
  · exact .deleteNode _ (by decide)
  · exact .deleteNode _ (by decide)
  · exact .deleteNode _ (by decide)
  · exact .deleteNode _ (by decide)

/-! ## 3. an edge between two existing nodes comes and goes -/

/-- **Law 3** (`add_edge`; `delete_edge`).  `s`, `d` exist; the `add_edge` (any of the six types, any metadata,
    validate on or off) is accepted — which implies that the two nodes were not adjacent in either orientation.
    The edge is stored at the key `k` the edge constructor chose (`orient`); `delete_edge` addressed to THAT key
    (with no edge type or with the type just given) gives `g` back. -/
theorem addEdge_deleteEdge {g g' : Graph} (_hw : WF g) {s d : Endpoint} (hs : s.id ∈ g.nodes) (hd : d.id ∈ g.nodes)
    {ty : EdgeType} {m : Meta} {v : Bool} (h : addEdgeE g s d ty m v = .ok g') :
    ∃ k : EKey, orient g s.id d.id ty = .ok k ∧ (k = (s.id, d.id) ∨ k = (d.id, s.id)) ∧
      (s.id, d.id) ∉ g.edges ∧ (d.id, s.id) ∉ g.edges ∧
      ∀ ty? : Option EdgeType, (∀ t, ty? = some t → t = ty) → deleteEdge g' k.1 k.2 ty? = .ok g := by
  obtain ⟨_, g1, g2, k, hg1, hg2, _, hor, hk, h1, h2, rfl, _⟩ := addEdgeE_ok h
  rw [C03.ensureNode_of_mem hs] at hg1; cases hg1
  rw [C03.ensureNode_of_mem hd] at hg2; cases hg2
  refine ⟨k, hor, hk, ?_, ?_, fun ty? hty => ?_⟩
  · rcases hk with rfl | rfl
    · exact h2
    · exact h1
  · rcases hk with rfl | rfl
    · exact h1
    · exact h2
  · rcases hk with rfl | rfl
    · exact deleteEdge_insEdge hs hd h2 _ ty? hty
    · exact deleteEdge_insEdge hd hs h2 _ ty? hty

/-- Law 3 with the caller's own orientation: plain class, or time-series class with the source not later than the
    destination.  (In the remaining case — time-series class, non-directed type, `lag s > lag d` — the edge is
    stored as `(d, s)` and `delete_edge(s, d)` is refused: see `addEdge_deleteEdge_flipped`.) -/
theorem addEdge_deleteEdge_same {g g' : Graph} (hw : WF g) {s d : Endpoint} (hs : s.id ∈ g.nodes)
    (hd : d.id ∈ g.nodes) (hle : g.cls = .ts → g.lagOf s.id ≤ g.lagOf d.id) {ty : EdgeType} {m : Meta} {v : Bool}
    (h : addEdgeE g s d ty m v = .ok g') (ty? : Option EdgeType) (hty : ∀ t, ty? = some t → t = ty) :
    deleteEdge g' s.id d.id ty? = .ok g := by
  obtain ⟨k, hor, _, _, _, hdel⟩ := addEdge_deleteEdge hw hs hd h
  rw [orient_keep hle] at hor
  cases hor
  exact hdel ty? hty

/-- time-series class, `lag s > lag d`: an accepted `add_edge(s, d)` stored the edge as `(d, s)`;
    `delete_edge(d, s)` gives `g` back, `delete_edge(s, d)` is refused (`EdgeDoesNotExistError`). -/
theorem addEdge_deleteEdge_flipped {g g' : Graph} (hw : WF g) {s d : Endpoint} (hs : s.id ∈ g.nodes)
    (hd : d.id ∈ g.nodes) (hc : g.cls = .ts) (hlt : g.lagOf d.id < g.lagOf s.id) {ty : EdgeType} {m : Meta} {v : Bool}
    (h : addEdgeE g s d ty m v = .ok g') (ty? : Option EdgeType) (hty : ∀ t, ty? = some t → t = ty) :
    deleteEdge g' d.id s.id ty? = .ok g ∧ deleteEdge g' s.id d.id ty? = .error .edgeDoesNotExist := by
  obtain ⟨k, hor, _, hsd, _, hdel⟩ := addEdge_deleteEdge hw hs hd h
  have hne : ty ≠ .directed := by
    intro e; subst e
    rw [orient_against_time hc hlt] at hor; cases hor
  rw [orient_ts_flip hc hlt hne] at hor
  cases hor
  refine ⟨hdel ty? hty, ?_⟩
  obtain ⟨hsd', g1, g2, k, hg1, hg2, _, hor, _, _, _, rfl, _⟩ := addEdgeE_ok h
  rw [C03.ensureNode_of_mem hs] at hg1; cases hg1
  rw [C03.ensureNode_of_mem hd] at hg2; cases hg2
  rw [orient_ts_flip hc hlt hne] at hor
  cases hor
  unfold deleteEdge
  have e1 : (g.insEdge d.id s.id ⟨ty, m⟩).hasNode s.id = true := (hasNode_iff _ _).mpr hs
  have e2 : (g.insEdge d.id s.id ⟨ty, m⟩).hasNode d.id = true := (hasNode_iff _ _).mpr hd
  have e3 : (g.insEdge d.id s.id ⟨ty, m⟩).edges[(s.id, d.id)]? = none := by
    rw [getElem?_insEdge, if_neg (by simp only [Prod.mk.injEq]; exact fun hh => hsd' hh.1.symm)]
    exact ExtTreeMap.getElem?_eq_none hsd
  simp only [e1, e2, e3, Bool.not_true, Bool.false_eq_true, if_false]

/-- Law 3 for the state machine, caller's orientation kept: the side conditions are that both nodes exist and are
    not adjacent (a refused `add_edge` — cycle, directed against time — is then followed by a refused
    `delete_edge`). -/
theorem addEdge_deleteEdge_run {g : Graph} (hw : WF g) {s d : Endpoint} (hs : s.id ∈ g.nodes) (hd : d.id ∈ g.nodes)
    (hsd : (s.id, d.id) ∉ g.edges) (hle : g.cls = .ts → g.lagOf s.id ≤ g.lagOf d.id)
    (ty : EdgeType) (m : Meta) (v : Bool) (ty? : Option EdgeType) (hty : ∀ t, ty? = some t → t = ty) :
    run g [.addEdge s d ty m v, .deleteEdge s.id d.id ty?] = g := by
  have e1 : stepRef g (.addEdge s d ty m v) = lift g (addEdgeE g s d ty m v) := rfl
  have e2 : ∀ g1, step g1 (.deleteEdge s.id d.id ty?) = lift g1 (deleteEdge g1 s.id d.id ty?) := fun _ => rfl
  rw [run_pair, C03.step_eq_stepRef hw, e1, e2]
  cases h : addEdgeE g s d ty m v with
  | ok g' => simp only [lift, addEdge_deleteEdge_same hw hs hd hle h ty? hty]
  | error e =>
    have : deleteEdge g s.id d.id ty? = .error .edgeDoesNotExist := by
      unfold deleteEdge
      simp only [(hasNode_iff _ _).mpr hs, (hasNode_iff _ _).mpr hd, ExtTreeMap.getElem?_eq_none hsd, Bool.not_true,
        Bool.false_eq_true, if_false]
    simp only [lift, this]

/-- Law 3 for the state machine, time-series class, `lag s > lag d`: the edge (when its type is not directed —
    a directed one is refused with `ValueError`) is stored as `(d, s)` and that is the key to delete -/
theorem addEdge_deleteEdge_flipped_run {g : Graph} (hw : WF g) {s d : Endpoint} (hs : s.id ∈ g.nodes)
    (hd : d.id ∈ g.nodes) (hds : (d.id, s.id) ∉ g.edges) (hc : g.cls = .ts) (hlt : g.lagOf d.id < g.lagOf s.id)
    (ty : EdgeType) (m : Meta) (v : Bool) (ty? : Option EdgeType) (hty : ∀ t, ty? = some t → t = ty) :
    run g [.addEdge s d ty m v, .deleteEdge d.id s.id ty?] = g := by
  have e1 : stepRef g (.addEdge s d ty m v) = lift g (addEdgeE g s d ty m v) := rfl
  have e2 : ∀ g1, step g1 (.deleteEdge d.id s.id ty?) = lift g1 (deleteEdge g1 d.id s.id ty?) := fun _ => rfl
  rw [run_pair, C03.step_eq_stepRef hw, e1, e2]
  cases h : addEdgeE g s d ty m v with
  | ok g' => simp only [lift, (addEdge_deleteEdge_flipped hw hs hd hc hlt h ty? hty).1]
  | error e =>
    have : deleteEdge g d.id s.id ty? = .error .edgeDoesNotExist := by
      unfold deleteEdge
      simp only [(hasNode_iff _ _).mpr hs, (hasNode_iff _ _).mpr hd, ExtTreeMap.getElem?_eq_none hds, Bool.not_true,
        Bool.false_eq_true, if_false]
    simp only [lift, this]

/-- `a -- c` (with metadata, validated) comes and goes on `a → b → c` -/
example : run C03.Ex.g [.addEdge { id := "a" } { id := "c" } .undirected [("w", "2")] true,
    .deleteEdge "a" "c" (some .undirected)] = C03.Ex.g :=
  addEdge_deleteEdge_run C03.Ex.wf_g (s := { id := "a" }) (d := { id := "c" }) (by decide) (by decide) (by decide)
    (fun hc => by cases hc) _ _ _ _ (fun t ht => by cases ht; rfl)

/-- the accepted case is really taken in that example -/
example : (step C03.Ex.g (.addEdge { id := "a" } { id := "c" } .undirected [("w", "2")] true)).2 = none := by decide

/-- time-series class: `X lag(n=1) -- A lag(n=3)`, asked later → earlier, is stored earlier → later, and only the
    stored orientation can be deleted -/
example : ∃ g', addEdgeE C03.Ex.gr { id := "X lag(n=1)" } { id := "A lag(n=3)" } .undirected [] true = .ok g' ∧
    deleteEdge g' "A lag(n=3)" "X lag(n=1)" none = .ok C03.Ex.gr ∧
    deleteEdge g' "X lag(n=1)" "A lag(n=3)" none = .error .edgeDoesNotExist := by
  have hacc : (lift C03.Ex.gr
      (addEdgeE C03.Ex.gr { id := "X lag(n=1)" } { id := "A lag(n=3)" } .undirected [] true)).2 = none := by decide +kernel
  obtain ⟨g', h⟩ := lift_none hacc
  exact ⟨g', h, addEdge_deleteEdge_flipped C03.Ex.wf_gr (s := { id := "X lag(n=1)" }) (d := { id := "A lag(n=3)" })
    (by decide) (by decide) rfl (by decide) h none (fun _ ht => by cases ht)⟩

/-! ## 4. an edge goes and comes back -/

/-- **Law 4** (`delete_edge`; `add_edge`).  `(s, d)` is the stored key of an edge with record `r`; after an accepted
    `delete_edge(s, d)`, `add_edge(s, d, r.ty, r.md)` — same stored orientation, type, metadata —
      * with `validate=False` is always accepted and gives `g` back;
      * with `validate=True` is refused (`CyclicConnectionError`, and then the edge stays deleted) exactly when `d`
        lies on a directed cycle of `g` (the check of `_set_edge` looks for a cycle through the destination whatever
        the type of the new edge), and otherwise gives `g` back.
    `WF` is what makes the re-add land on the same key (`WF.tsTime`), find the endpoints (`WF.ends`, `WF.noLoop`)
    and no reverse edge (`WF.onePer`). -/
theorem deleteEdge_addEdge {g g1 : Graph} (hw : WF g) {s d : String} {r : EdgeRec} (hr : g.edges[(s, d)]? = some r)
    {ty? : Option EdgeType} (hdel : deleteEdge g s d ty? = .ok g1) :
    addEdge g1 s d r.ty r.md false = .ok g ∧
    addEdge g1 s d r.ty r.md true =
      (if selfDepR g.dirEdges d = true then .error .cyclicConnection else .ok g) := by
  rw [deleteEdge_ok hdel]
  have h := addEdge_after_delete hw hr r.ty r.md
  have hg : g.insEdge s d ⟨r.ty, r.md⟩ = g := insEdge_of_get hr
  rw [hg] at h
  exact ⟨by rw [h false]; rfl, by rw [h true, Bool.true_and]⟩

/-- Law 4, "whenever it is accepted": whatever `validate`, an accepted re-add gives `g` back -/
theorem deleteEdge_addEdge_ok {g g1 g2 : Graph} (hw : WF g) {s d : String} {r : EdgeRec}
    (hr : g.edges[(s, d)]? = some r) {ty? : Option EdgeType} (hdel : deleteEdge g s d ty? = .ok g1) {v : Bool}
    (hadd : addEdge g1 s d r.ty r.md v = .ok g2) : g2 = g := by
  obtain ⟨h0, h1⟩ := deleteEdge_addEdge hw hr hdel
  cases v with
  | false => rw [h0] at hadd; cases hadd; rfl
  | true =>
    rw [h1] at hadd
    split at hadd
    · cases hadd
    · cases hadd; rfl

/-- Law 4 on an acyclic graph: the validated re-add is accepted -/
theorem deleteEdge_addEdge_acyclic {g g1 : Graph} (hw : WF g) (hac : AcyclicG g) {s d : String} {r : EdgeRec}
    (hr : g.edges[(s, d)]? = some r) {ty? : Option EdgeType} (hdel : deleteEdge g s d ty? = .ok g1) (v : Bool) :
    addEdge g1 s d r.ty r.md v = .ok g := by
  obtain ⟨h0, h1⟩ := deleteEdge_addEdge hw hr hdel
  cases v with
  | false => exact h0
  | true => rw [h1, selfDepR_of_acyclic hac]; rfl

/-- Law 4 for the state machine.  Side conditions: `(s, d)` is a stored key with record `r`, and — when the re-add
    validates — `d` is on no directed cycle of `g` (true on every acyclic graph).  The `delete_edge` may name any
    edge type: with the wrong one it is refused, and the `add_edge` that follows is refused as a duplicate. -/
theorem deleteEdge_addEdge_run {g : Graph} (hw : WF g) {s d : String} {r : EdgeRec} (hr : g.edges[(s, d)]? = some r)
    (ty? : Option EdgeType) (v : Bool) (hcyc : v = true → selfDepR g.dirEdges d = false) :
    run g [.deleteEdge s d ty?, .addEdge { id := s } { id := d } r.ty r.md v] = g := by
  have e1 : step g (.deleteEdge s d ty?) = lift g (deleteEdge g s d ty?) := rfl
  have e2 : ∀ g1, stepRef g1 (.addEdge { id := s } { id := d } r.ty r.md v) = lift g1 (addEdge g1 s d r.ty r.md v) :=
    fun _ => rfl
  rw [run_pair, e1]
  cases h : deleteEdge g s d ty? with
  | ok g1 =>
    simp only [lift]
    rw [C03.step_eq_stepRef (wf_deleteEdge h hw), e2]
    obtain ⟨h0, h1⟩ := deleteEdge_addEdge hw hr h
    cases v with
    | false => rw [h0]; rfl
    | true => rw [h1, hcyc rfl]; rfl
  | error e =>
    simp only [lift]
    rw [C03.step_eq_stepRef hw, e2]
    have hmem : (s, d) ∈ g.edges := emem_of_get hr
    obtain ⟨hs, hd⟩ := hw.ends s d hmem
    have hsd : s ≠ d := fun e => hw.noLoop s (e ▸ hmem)
    rw [C03.addEdge_of_mem hs hd hsd, if_pos ((hasEdge_iff g s d).mpr hmem)]
    rfl

/-- `b → c` goes and comes back (validated) on `a → b → c` -/
example : run C03.Ex.g [.deleteEdge "b" "c" none, .addEdge { id := "b" } { id := "c" } .directed [] true] = C03.Ex.g :=
  deleteEdge_addEdge_run C03.Ex.wf_g (r := C03.Ex.er) (by decide) none true (fun _ => by decide)

/-! ## 5. an edge is retyped and retyped back -/

/-- **Law 5** (`change_edge_type` twice).  `(s, d)` is the stored key of an edge with record `r`.  When both calls
    are accepted the graph is `g` again — as an EQUALITY, in both classes: `change_edge_type` addresses the edge by
    its stored key, a well-formed time-series graph stores every edge earlier → later (`WF.tsTime`), so the edge
    constructor never has a reason to turn the new edge round (`Detours.addEdge_after_delete`); the key, the
    metadata and the position in every index are kept, only the type changes and changes back. -/
theorem changeEdgeType_back {g g1 g2 : Graph} (hw : WF g) {s d : String} {r : EdgeRec}
    (hr : g.edges[(s, d)]? = some r) {nt : EdgeType} (h1 : changeEdgeType g s d nt = .ok g1)
    (h2 : changeEdgeType g1 s d r.ty = .ok g2) : g2 = g := by
  have hw1 : WF g1 := wf_changeEdgeType h1 hw
  have e1 := changeEdgeType_ok hw hr h1
  subst e1
  have hr1 : (g.insEdge s d ⟨nt, r.md⟩).edges[(s, d)]? = some ⟨nt, r.md⟩ := by
    rw [getElem?_insEdge, if_pos rfl]
  rw [changeEdgeType_ok hw1 hr1 h2, insEdge_insEdge]
  exact insEdge_of_get hr

/-- the intermediate state: same key, same metadata, new type (so nothing but the type is ever different) -/
theorem changeEdgeType_keeps_key {g g1 : Graph} (hw : WF g) {s d : String} {r : EdgeRec}
    (hr : g.edges[(s, d)]? = some r) {nt : EdgeType} (h1 : changeEdgeType g s d nt = .ok g1) :
    g1 = g.insEdge s d ⟨nt, r.md⟩ ∧ g1.edges[(s, d)]? = some ⟨nt, r.md⟩ ∧ (d, s) ∉ g1.edges := by
  have e1 := changeEdgeType_ok hw hr h1
  subst e1
  refine ⟨rfl, by rw [getElem?_insEdge, if_pos rfl], fun hc => ?_⟩
  rcases (mem_insEdge g s d _ _).mp hc with e | hm
  · simp only [Prod.mk.injEq] at e
    have hsd : s = d := e.1
    subst hsd
    exact hw.noLoop s (emem_of_get hr)
  · exact hw.onePer s d (emem_of_get hr) hm

/-- when is the way back accepted: exactly when `d` is on no directed cycle of `g` (or nothing had to change) -/
theorem changeEdgeType_back_eval {g g1 : Graph} (hw : WF g) {s d : String} {r : EdgeRec}
    (hr : g.edges[(s, d)]? = some r) {nt : EdgeType} (h1 : changeEdgeType g s d nt = .ok g1) :
    changeEdgeType g1 s d r.ty =
      if nt = r.ty then .ok g else if selfDepR g.dirEdges d = true then .error .cyclicConnection else .ok g := by
  have hw1 : WF g1 := wf_changeEdgeType h1 hw
  obtain ⟨e1, hr1, _⟩ := changeEdgeType_keeps_key hw hr h1
  rw [changeEdgeType_eval hw1 hr1]
  simp only [e1, insEdge_insEdge, insEdge_of_get hr]
  split
  · rename_i hty
    subst hty
    rw [insEdge_of_get hr]
  · rfl

/-- Law 5 for the state machine.  Side conditions: `(s, d)` is a stored key with record `r`, and `d` is on no
    directed cycle of `g` (true on every acyclic graph).  Nothing is assumed about acceptance: if the first call is
    refused (the new type would close a directed cycle) the state is `g` and the second call has nothing to do. -/
theorem changeEdgeType_back_run {g : Graph} (hw : WF g) {s d : String} {r : EdgeRec} (hr : g.edges[(s, d)]? = some r)
    (nt : EdgeType) (hcyc : selfDepR g.dirEdges d = false) :
    run g [.changeEdgeType s d nt, .changeEdgeType s d r.ty] = g := by
  have e1 : ∀ g1 t, stepRef g1 (.changeEdgeType s d t) = lift g1 (changeEdgeType g1 s d t) := fun _ _ => rfl
  rw [run_pair, C03.step_eq_stepRef hw, e1]
  cases h : changeEdgeType g s d nt with
  | ok g1 =>
    simp only [lift]
    rw [C03.step_eq_stepRef (wf_changeEdgeType h hw), e1, changeEdgeType_back_eval hw hr h, hcyc]
    split <;> rfl
  | error e =>
    simp only [lift]
    rw [C03.step_eq_stepRef hw, e1, changeEdgeType_eval hw hr, if_pos rfl]
    rfl

/-- `a → b` becomes `a -- b` and `a → b` again on `a → b → c`; both calls are accepted -/
example : (step C03.Ex.g (.changeEdgeType "a" "b" .undirected)).2 = none ∧
    run C03.Ex.g [.changeEdgeType "a" "b" .undirected, .changeEdgeType "a" "b" .directed] = C03.Ex.g :=
  ⟨by decide +kernel, changeEdgeType_back_run C03.Ex.wf_g (r := C03.Ex.er) (by decide) _ (by decide +kernel)⟩

/-- time-series class: `X lag(n=1) → X` becomes `X lag(n=1) o- X` and comes back, at the same stored key -/
example : run C03.Ex.gr [.changeEdgeType "X lag(n=1)" "X" .unknownUndirected,
    .changeEdgeType "X lag(n=1)" "X" .directed] = C03.Ex.gr :=
  changeEdgeType_back_run C03.Ex.wf_gr (r := C03.Ex.er) (by decide) _ (by decide +kernel)

/-! ## 6. a node is renamed and renamed back -/

/-- `replace_node(a, b, …)` with a new identifier and no `time_lag` / `variable_name` is the base-class call in both
    classes -/
theorem replaceNode_some_eq (g : Graph) (a b : String) (vt? : Option VType) (m? : Option Meta) :
    replaceNode g a (some b) none none vt? m? = replaceNodeBase g a (some b) vt? m? := by
  unfold replaceNode
  cases g.cls <;> rfl

/-- **Law 6** (`replace_node(a, b, variable_type=…)`; `replace_node(b, a, variable_type=…)`, metadata argument
    absent both times, so it travels with the node).  `a` is a node with record `r`; both calls are accepted (the
    first one says that `b` was fresh).  Then the graph is `g` again: the node map, the attributes of `a`, every
    incident edge with its type, its metadata and its stored orientation, and everything else.

    Side conditions, and why each is needed:
      * `hvt1`, `hvt2`: the variable-type argument is absent (`None`) or the type the node has — otherwise the type
        changes, by the semantics of the call.
      * `hlag` (time-series class only): `b` parses to the SAME LAG as `a`.  With another lag the edge constructor
        may turn a copied non-directed edge round, and the way back does not undo that: on `a -- x` stored `(a, x)`
        with equal lags, `a ↦ b` with `lag b > lag x` stores `(x, b)`, and `b ↦ a` then stores `(x, a)`; the result
        equals `g` only up to the stored orientation of symmetric edges.
      * `hplain` (plain class only): the record of `a` has the unused fields `var`, `lag` at their defaults.  This is
        an artefact of the model (one record type for both classes): `WF` does not say it, every reachable state
        has it (`CG.C05.PlainNorm`, `CG.plainNorm_run`), and the node constructor of the way back resets them. -/
theorem replaceNode_back {g g' g'' : Graph} (hw : WF g) {a b : String} {r : NodeRec} (hr : g.nodes[a]? = some r)
    (hplain : g.cls = .plain → r.var = "" ∧ r.lag = 0)
    (hlag : g.cls = .ts → (Name.parse b).map (·.2) = some r.lag)
    {vt1 vt2 : Option VType} (hvt1 : ∀ vt, vt1 = some vt → vt = r.vtype) (hvt2 : ∀ vt, vt2 = some vt → vt = r.vtype)
    (h1 : replaceNode g a (some b) none none vt1 none = .ok g')
    (h2 : replaceNode g' b (some a) none none vt2 none = .ok g'') : g'' = g := by
  rw [replaceNode_some_eq] at h1 h2
  have e1 : vt1.getD r.vtype = r.vtype := by
    cases vt1 with
    | none => rfl
    | some vt => exact hvt1 vt rfl
  have e2 : vt2.getD r.vtype = r.vtype := by
    cases vt2 with
    | none => rfl
    | some vt => exact hvt2 vt rfl
  have hts : g.cls = .ts → Name.parse a = some (r.var, r.lag) ∧ r.md.tsStrip = r.md := fun hc => hw.tsName hc a r hr
  have hlag_of : ∀ rb' : NodeRec, g.cls = .ts → mkNode g.cls b (vt1.getD r.vtype) r.md = .ok rb' → rb'.lag = r.lag := by
    intro rb' hc hrb'
    have h3 := hlag hc
    rw [(C03.mkNode_ts hrb' hc).1] at h3
    simpa using h3
  obtain ⟨rb, hrb, hnb, hw', hc', hm', hn', he'⟩ := rename_ok_spec hw hr h1 (fun hc rb' hrb' => hlag_of rb' hc hrb')
  have ha : a ∈ g.nodes := mem_of_get hr
  have hab : a ≠ b := fun e => hnb (e ▸ ha)
  have hrb' : g'.nodes[b]? = some rb := by
    simp [hn', hab]
  have hlag2 : g'.cls = .ts → ∀ ra', mkNode g'.cls a (vt2.getD rb.vtype) ((none : Option Meta).getD rb.md) = .ok ra' →
      ra'.lag = rb.lag := by
    intro hc ra' hra'
    have hcg : g.cls = .ts := hc' ▸ hc
    have h3 := (C03.mkNode_ts hra' hc).1
    rw [(hts hcg).1] at h3
    simp only [Option.some.injEq, Prod.mk.injEq] at h3
    rw [hlag_of rb hcg hrb, h3.2]
  obtain ⟨ra, hra, _, _, hc'', hm'', hn'', he''⟩ := rename_ok_spec hw' hrb' h2 hlag2
  rw [hc'] at hra
  have hra_r : ra = r := mkNode_there_back e1 e2 hplain hts hrb hra
  apply C03.graph_ext
  · rw [hc'', hc']
  · rw [hn'', hn', hra_r]
    exact NMap.rename_back g.nodes a b r rb hr hnb
  · exact rename_back_edges hw ha hnb he' he''
  · rw [hm'', hm']

/-- **Law 6, acceptance.**  Whenever the way there is accepted, so is the way back — on every well-formed graph,
    acyclic or not, whatever variable type / metadata arguments the two calls carry.  Side condition: in the
    time-series class the new name has the lag of the old one (`hlag`).  Then the states of the way back are the
    states of the way there with the two names exchanged (`Detours.Iso`, `Detours.iso_rename_start`), the two copy
    loops walk the same edges in the same order (`Detours.Iso.edgesTo`, `Detours.Iso.edgesFrom`), and every check of
    the way back — duplicate, reverse edge, orientation, directed cycle through the destination of each copied edge
    — is a check that passed on the way there (`Detours.Iso.addEdge`, `Detours.rename_back_accepted`).
    With another lag a copied non-directed edge may have been turned round and this argument does not apply; nothing
    is claimed for that case. -/
theorem replaceNode_back_accepted {g g' : Graph} (hw : WF g) {a b : String} {r : NodeRec} (hr : g.nodes[a]? = some r)
    (hlag : g.cls = .ts → (Name.parse b).map (·.2) = some r.lag)
    {vt1 : Option VType} {m1 : Option Meta} (h1 : replaceNode g a (some b) none none vt1 m1 = .ok g')
    (vt2 : Option VType) (m2 : Option Meta) : ∃ g'', replaceNode g' b (some a) none none vt2 m2 = .ok g'' := by
  rw [replaceNode_some_eq] at h1
  simp only [replaceNode_some_eq]
  refine rename_back_accepted hw hr h1 (fun hc rb hrb => ?_) vt2 m2
  have h3 := hlag hc
  rw [(C03.mkNode_ts hrb hc).1] at h3
  simpa using h3

/-- Law 6 in one piece: after an accepted `replace_node(a, b)`, `replace_node(b, a)` is accepted and gives `g` -/
theorem replaceNode_there_and_back {g g' : Graph} (hw : WF g) {a b : String} {r : NodeRec}
    (hr : g.nodes[a]? = some r) (hplain : g.cls = .plain → r.var = "" ∧ r.lag = 0)
    (hlag : g.cls = .ts → (Name.parse b).map (·.2) = some r.lag)
    {vt1 vt2 : Option VType} (hvt1 : ∀ vt, vt1 = some vt → vt = r.vtype) (hvt2 : ∀ vt, vt2 = some vt → vt = r.vtype)
    (h1 : replaceNode g a (some b) none none vt1 none = .ok g') :
    replaceNode g' b (some a) none none vt2 none = .ok g := by
  obtain ⟨g'', h2⟩ := replaceNode_back_accepted hw hr hlag h1 vt2 none
  rw [h2, replaceNode_back hw hr hplain hlag hvt1 hvt2 h1 h2]

/-- Law 6 for the state machine.  Side conditions: `a` is a node with record `r`, `b` is fresh, the variable-type
    arguments are absent or the node's own, `hlag` / `hplain` as in `replaceNode_back`.  Nothing is assumed about
    acceptance: a refused way there (a cycle test of the copy loop fires on a graph that holds a directed cycle, or
    the time-series grammar rejects `b`) leaves `g`, and the way back is then refused as well (`b` is no node). -/
theorem replaceNode_back_run {g : Graph} (hw : WF g) {a b : String} {r : NodeRec} (hr : g.nodes[a]? = some r)
    (hb : b ∉ g.nodes) (hplain : g.cls = .plain → r.var = "" ∧ r.lag = 0)
    (hlag : g.cls = .ts → (Name.parse b).map (·.2) = some r.lag)
    {vt1 vt2 : Option VType} (hvt1 : ∀ vt, vt1 = some vt → vt = r.vtype) (hvt2 : ∀ vt, vt2 = some vt → vt = r.vtype) :
    run g [.replaceNode a (some b) none none vt1 none, .replaceNode b (some a) none none vt2 none] = g := by
  have e1 : ∀ g1 x y vt, stepRef g1 (.replaceNode x (some y) none none vt none) =
      lift g1 (replaceNode g1 x (some y) none none vt none) := fun _ _ _ _ => rfl
  rw [run_pair, C03.step_eq_stepRef hw, e1]
  cases h : replaceNode g a (some b) none none vt1 none with
  | ok g' =>
    simp only [lift]
    rw [C03.step_eq_stepRef (wf_replaceNode h hw), e1, replaceNode_there_and_back hw hr hplain hlag hvt1 hvt2 h]
    rfl
  | error e =>
    simp only [lift]
    rw [C03.step_eq_stepRef hw, e1, replaceNode_some_eq]
    unfold replaceNodeBase
    rw [ExtTreeMap.getElem?_eq_none hb]
    rfl

/-- `b` (a parent and a child) is renamed to `zq tmp` and back on `a → b → c`; the way there is accepted -/
example : (step C03.Ex.g (.replaceNode "b" (some "zq tmp") none none (some .unspecified) none)).2 = none ∧
    run C03.Ex.g [.replaceNode "b" (some "zq tmp") none none (some .unspecified) none,
      .replaceNode "zq tmp" (some "b") none none (some .unspecified) none] = C03.Ex.g :=
  ⟨by decide +kernel, replaceNode_back_run C03.Ex.wf_g (r := C03.Ex.nr) (by decide) (by decide)
    (fun _ => ⟨rfl, rfl⟩) (fun hc => by cases hc) (fun _ h => by cases h; rfl) (fun _ h => by cases h; rfl)⟩

/-- time-series class: `X` (two parents) is renamed to `zq tmp` (same lag 0) and back -/
example : (step C03.Ex.gr (.replaceNode "X" (some "zq tmp") none none none none)).2 = none ∧
    run C03.Ex.gr [.replaceNode "X" (some "zq tmp") none none none none,
      .replaceNode "zq tmp" (some "X") none none none none] = C03.Ex.gr :=
  ⟨by decide +kernel, replaceNode_back_run C03.Ex.wf_gr (r := C03.Ex.nX) (by decide) (by decide)
    (fun hc => by cases hc) (fun _ => by decide) (fun _ h => by cases h) (fun _ h => by cases h)⟩

/-! ## 7. in-place `replace_node` that re-asserts what the node has -/

/-- **Law 7** (`replace_node(n, variable_type=…, meta=…)` with no new identifier).  The variable type is the one the
    node has (or `None`, which keeps it); the metadata argument is absent, or is the node's metadata — for the
    time-series class up to the two reserved keys `time_lag` / `variable_name`, which the call strips (a caller who
    passes `dict(node.meta)` passes them). -/
theorem replaceNode_inplace_same {g : Graph} (_hw : WF g) {n : String} {r : NodeRec} (hr : g.nodes[n]? = some r)
    (vt? : Option VType) (m? : Option Meta) (hvt : ∀ vt, vt? = some vt → vt = r.vtype)
    (hm : ∀ m, m? = some m → (g.cls = .ts → m.tsStrip = r.md) ∧ (g.cls = .plain → m = r.md)) :
    replaceNode g n none none none vt? m? = .ok g := by
  have hbase : replaceNode g n none none none vt? m? = replaceNodeBase g n none vt? m? := by
    unfold replaceNode
    cases g.cls <;> rfl
  have h1 : vt?.getD r.vtype = r.vtype := by
    cases vt? with
    | none => rfl
    | some vt => exact hvt vt rfl
  rw [hbase]
  unfold replaceNodeBase
  simp only [hr]
  suffices hrec : ∀ md' : Meta, md' = r.md →
      (Except.ok (g.insNode n { r with vtype := vt?.getD r.vtype, md := md' }) : Except Err Graph) = .ok g by
    apply hrec
    cases m? with
    | none => rfl
    | some m =>
      cases hc : g.cls with
      | plain => exact (hm m rfl).2 hc
      | ts => exact (hm m rfl).1 hc
  intro md' hmd
  subst hmd
  rw [h1]
  congr 1
  exact C03.graph_ext rfl (NMap.insert_of_get g.nodes n r hr) rfl rfl

/-- Law 7 with the node's own (stored) metadata, either class: `WF.tsName` says the stored metadata of a
    time-series node holds no reserved key -/
theorem replaceNode_inplace_same_md {g : Graph} (hw : WF g) {n : String} {r : NodeRec} (hr : g.nodes[n]? = some r) :
    replaceNode g n none none none (some r.vtype) (some r.md) = .ok g ∧
    replaceNode g n none none none none none = .ok g := by
  refine ⟨replaceNode_inplace_same hw hr _ _ (fun _ h => by cases h; rfl) (fun m h => ?_),
    replaceNode_inplace_same hw hr _ _ (fun _ h => by cases h) (fun _ h => by cases h)⟩
  cases h
  exact ⟨fun hc => (hw.tsName hc n r hr).2, fun _ => rfl⟩

theorem replaceNode_inplace_same_run {g : Graph} (hw : WF g) {n : String} {r : NodeRec} (hr : g.nodes[n]? = some r)
    (vt? : Option VType) (m? : Option Meta) (hvt : ∀ vt, vt? = some vt → vt = r.vtype)
    (hm : ∀ m, m? = some m → (g.cls = .ts → m.tsStrip = r.md) ∧ (g.cls = .plain → m = r.md)) :
    run g [.replaceNode n none none none vt? m?] = g := by
  show (step g _).1 = g
  rw [C03.step_eq_stepRef hw]
  show (lift g (replaceNode g n none none none vt? m?)).1 = g
  rw [replaceNode_inplace_same hw hr vt? m? hvt hm]; rfl

/-- on the time-series graph: `X` is given its own type and its metadata as Python shows it (with the reserved keys) -/
example : replaceNode C03.Ex.gr "X" none none none (some .unspecified)
    (some [("time_lag", "0"), ("variable_name", "\"X\"")]) = .ok C03.Ex.gr :=
  replaceNode_inplace_same C03.Ex.wf_gr (n := "X") (r := C03.Ex.nX) (by decide) _ _
    (fun _ h => by cases h; rfl) (fun _ h => by cases h; exact ⟨fun _ => by decide, fun hc => by cases hc⟩)

/-! ## 8. a refused call -/

/-- **Law 8** (corollary of C03).  Any single-element mutator that raises leaves the whole state unchanged. -/
theorem refused_is_identity {g : Graph} (hw : WF g) (op : Op) (hs : op.single = true) {e : Err}
    (h : (step g op).2 = some e) : (step g op).1 = g :=
  C03.failed_step_unchanged hw op hs h

/-- the same for the reference machine (no hypothesis on the state) -/
theorem refused_is_identity_ref (g : Graph) (op : Op) (hs : op.single = true) {e : Err}
    (h : (stepRef g op).2 = some e) : (stepRef g op).1 = g :=
  C03.failed_stepRef_unchanged g op hs h

theorem refused_is_identity_run {g : Graph} (hw : WF g) (op : Op) (hs : op.single = true) {e : Err}
    (h : (step g op).2 = some e) : run g [op] = g :=
  refused_is_identity hw op hs h

/-- the cycle-closing `add_edge('c', 'a')` on `a → b → c` is refused (after the write and the rollback) -/
example : run C03.Ex.g [C03.Ex.op] = C03.Ex.g :=
  refused_is_identity_run C03.Ex.wf_g _ rfl (e := .cyclicConnection) (by rw [C03.Ex.step_fails])

/-! ## 9. any finite sequence of detours -/

/-- One detour: a short history together with the side conditions, at the state `g` where it starts, under which it
    is the identity.  Every condition is a fact about `g` alone (membership, freshness, a stored record, "the
    destination is on no directed cycle"), except in `refused` (the call is refused) and in `ghosts` (at the end no
    ghost is left).  No constructor assumes that a call is accepted. -/
inductive Detour (g : Graph) : List Op → Prop
  /-- law 8 -/
  | refused (op : Op) (e : Err) : op.single = true → (step g op).2 = some e → Detour g [op]
  /-- law 1 -/
  | nodeComeGo (id : String) (vt : VType) (m : Meta) : id ∉ g.nodes → Detour g [.addNode id vt m, .deleteNode id]
  | nodeObjComeGo (id : String) (vt : VType) (m : Meta) :
      id ∉ g.nodes → Detour g [.addNodeObj id vt m, .deleteNode id]
  /-- law 2 -/
  | freshEdgeComeGo (s d : Endpoint) (f : String) (ty : EdgeType) (m : Meta) (v : Bool) :
      f ∉ g.nodes → ((s.id = f ∧ d.id ∈ g.nodes) ∨ (d.id = f ∧ s.id ∈ g.nodes)) →
      Detour g [.addEdge s d ty m v, .deleteNode f]
  /-- law 2b -/
  | ghosts (F : String → Prop) (ops : List Op) : (∀ n, F n → n ∉ g.nodes) → (∀ op ∈ ops, GhostOp F g op) →
      (∀ n, F n → n ∉ (run g ops).nodes) → Detour g ops
  /-- law 3, stored as asked -/
  | edgeComeGo (s d : Endpoint) (ty : EdgeType) (m : Meta) (v : Bool) (ty? : Option EdgeType) :
      s.id ∈ g.nodes → d.id ∈ g.nodes → (s.id, d.id) ∉ g.edges → (g.cls = .ts → g.lagOf s.id ≤ g.lagOf d.id) →
      (∀ t, ty? = some t → t = ty) → Detour g [.addEdge s d ty m v, .deleteEdge s.id d.id ty?]
  /-- law 3, time-series edge stored the other way round -/
  | edgeComeGoFlipped (s d : Endpoint) (ty : EdgeType) (m : Meta) (v : Bool) (ty? : Option EdgeType) :
      s.id ∈ g.nodes → d.id ∈ g.nodes → (d.id, s.id) ∉ g.edges → g.cls = .ts → g.lagOf d.id < g.lagOf s.id →
      (∀ t, ty? = some t → t = ty) → Detour g [.addEdge s d ty m v, .deleteEdge d.id s.id ty?]
  /-- law 4 -/
  | edgeGoCome (s d : String) (r : EdgeRec) (ty? : Option EdgeType) (v : Bool) :
      g.edges[(s, d)]? = some r → (v = true → selfDepR g.dirEdges d = false) →
      Detour g [.deleteEdge s d ty?, .addEdge { id := s } { id := d } r.ty r.md v]
  /-- law 5 -/
  | retype (s d : String) (r : EdgeRec) (nt : EdgeType) :
      g.edges[(s, d)]? = some r → selfDepR g.dirEdges d = false →
      Detour g [.changeEdgeType s d nt, .changeEdgeType s d r.ty]
  /-- law 6 -/
  | rename (a b : String) (r : NodeRec) (vt1 vt2 : Option VType) :
      g.nodes[a]? = some r → b ∉ g.nodes → (g.cls = .plain → r.var = "" ∧ r.lag = 0) →
      (g.cls = .ts → (Name.parse b).map (·.2) = some r.lag) →
      (∀ vt, vt1 = some vt → vt = r.vtype) → (∀ vt, vt2 = some vt → vt = r.vtype) →
      Detour g [.replaceNode a (some b) none none vt1 none, .replaceNode b (some a) none none vt2 none]
  /-- law 7 -/
  | reassert (n : String) (r : NodeRec) (vt? : Option VType) (m? : Option Meta) :
      g.nodes[n]? = some r → (∀ vt, vt? = some vt → vt = r.vtype) →
      (∀ m, m? = some m → (g.cls = .ts → m.tsStrip = r.md) ∧ (g.cls = .plain → m = r.md)) →
      Detour g [.replaceNode n none none none vt? m?]

/-- every detour, run from a well-formed `g`, ends in `g` -/
theorem detour_run {g : Graph} (hw : WF g) {ops : List Op} (h : Detour g ops) : run g ops = g := by
  cases h with
  | refused op e hs he => exact refused_is_identity_run hw op hs he
  | nodeComeGo id vt m hn => exact addNode_deleteNode_run hw hn vt m
  | nodeObjComeGo id vt m hn => exact addNodeObj_deleteNode_run hw hn vt m
  | freshEdgeComeGo s d f ty m v hf hends => exact addEdge_deleteNode_fresh_run hw hf hends ty m v
  | ghosts F ops hfresh hops hgone => exact ghosts_come_and_go hw hfresh hops hgone
  | edgeComeGo s d ty m v ty? hs hd hsd hle hty => exact addEdge_deleteEdge_run hw hs hd hsd hle ty m v ty? hty
  | edgeComeGoFlipped s d ty m v ty? hs hd hds hc hlt hty =>
    exact addEdge_deleteEdge_flipped_run hw hs hd hds hc hlt ty m v ty? hty
  | edgeGoCome s d r ty? v hr hcyc => exact deleteEdge_addEdge_run hw hr ty? v hcyc
  | retype s d r nt hr hcyc => exact changeEdgeType_back_run hw hr nt hcyc
  | rename a b r vt1 vt2 hr hb hplain hlag hvt1 hvt2 =>
    exact replaceNode_back_run hw hr hb hplain hlag hvt1 hvt2
  | reassert n r vt? m? hr hvt hm => exact replaceNode_inplace_same_run hw hr vt? m? hvt hm

/-- **Law 9.**  Any finite sequence of detours, each of them one of the shapes above with its side condition at the
    state where it is applied — which is `g` every time, since each detour ends where it started — run from a
    well-formed `g` ends in `g`. -/
theorem detours_compose {g : Graph} (hw : WF g) (L : List (List Op)) (h : ∀ ops ∈ L, Detour g ops) :
    run g L.flatten = g := by
  induction L with
  | nil => rfl
  | cons ops L ih =>
    rw [List.flatten_cons, run_append, detour_run hw (h ops List.mem_cons_self)]
    exact ih (fun ops' hm => h ops' (List.mem_cons_of_mem _ hm))

/-- a dirty build: the calls of a clean history, with detours (each valid at the state where it starts) anywhere
    in between -/
inductive Dirty : Graph → List Op → List Op → Prop
  | nil (g : Graph) : Dirty g [] []
  | call {g : Graph} (op : Op) {dirty clean : List Op} :
      Dirty (step g op).1 dirty clean → Dirty g (op :: dirty) (op :: clean)
  | detour {g : Graph} {ops dirty clean : List Op} : Detour g ops → Dirty g dirty clean → Dirty g (ops ++ dirty) clean

/-- **Law 9, as the harness uses it**: a graph built dirty is the graph built clean -/
theorem dirty_build_eq_clean_build {g : Graph} (hw : WF g) {dirty clean : List Op} (h : Dirty g dirty clean) :
    run g dirty = run g clean := by
  induction h with
  | nil g => rfl
  | call op _ ih => exact ih (wf_step hw op)
  | detour hd _ ih => rw [run_append, detour_run hw hd]; exact ih hw

/-- a sequence of five detours on `a → b → c`: a ghost node, a ghost with an edge, an edge that comes and goes, a
    retype there and back, a refused cycle-closing edge -/
example : run C03.Ex.g (List.flatten [[.addNode "z" .binary [("k", "1")], .deleteNode "z"],
    [.addEdge { id := "zq" } { id := "c" } .directed [] true, .deleteNode "zq"],
    [.addEdge { id := "a" } { id := "c" } .undirected [("w", "2")] true, .deleteEdge "a" "c" none],
    [.changeEdgeType "a" "b" .bidirected, .changeEdgeType "a" "b" .directed],
    [C03.Ex.op]]) = C03.Ex.g :=
  detours_compose C03.Ex.wf_g _ (by
    intro ops hm
    simp only [List.mem_cons, List.not_mem_nil, or_false] at hm
    rcases hm with rfl | rfl | rfl | rfl | rfl
    · exact .nodeComeGo "z" _ _ (by decide)
    · exact .freshEdgeComeGo { id := "zq" } { id := "c" } "zq" _ _ _ (by decide) (.inl ⟨rfl, by decide⟩)
    · exact .edgeComeGo { id := "a" } { id := "c" } _ _ _ none (by decide) (by decide) (by decide)
        (fun hc => by cases hc) (fun _ ht => by cases ht)
    · exact .retype "a" "b" C03.Ex.er _ (by decide) (by decide +kernel)
    · exact .refused _ .cyclicConnection rfl (by rw [C03.Ex.step_fails]))

/-! ## where a detour is NOT the identity (witnesses; the side conditions above are needed)

`cyc` is `a → b → c → a`, a plain graph that holds a directed cycle (reachable only with `validate=False`); it is
well formed.  `tsAX` is the time-series graph `A -- X` (both at lag 0, stored `(A, X)`). -/
namespace NotIdentity

def cyc : Graph := C03.Ex.g.insEdge "c" "a" C03.Ex.er

theorem wf_cyc : WF cyc :=
  C03.wf_insEdge C03.Ex.wf_g _ (by decide) (by decide) (by decide) (by decide) (fun hc => by cases hc)

/-- law 4 without its side condition: `a → b` is deleted, the validated re-add is refused (`b` is on the directed cycle
    that the new edge closes again), the edge stays deleted -/
example : (step (step cyc (.deleteEdge "a" "b" none)).1
      (.addEdge { id := "a" } { id := "b" } .directed [] true)).2 = some .cyclicConnection ∧
    (run cyc [.deleteEdge "a" "b" none, .addEdge { id := "a" } { id := "b" } .directed [] true]).edges.keys =
      [("b", "c"), ("c", "a")] ∧ cyc.edges.keys = [("a", "b"), ("b", "c"), ("c", "a")] := by
  decide +kernel

/-- law 5 without its side condition: `a → b` becomes `a -- b` (accepted: no directed cycle is left), the way back is
    refused and the repair of `change_edge_type` restores the UNDIRECTED edge -/
example : (step cyc (.changeEdgeType "a" "b" .undirected)).2 = none ∧
    (step (step cyc (.changeEdgeType "a" "b" .undirected)).1 (.changeEdgeType "a" "b" .directed)).2 =
      some .cyclicConnection ∧
    (run cyc [.changeEdgeType "a" "b" .undirected, .changeEdgeType "a" "b" .directed]).edges[(("a", "b") : EKey)]? =
      some ⟨.undirected, []⟩ ∧ cyc.edges[(("a", "b") : EKey)]? = some ⟨.directed, []⟩ := by
  decide +kernel

def tsAX : Graph :=
  (((Graph.empty .ts).insNode "A" { vtype := .unspecified, md := [], var := "A", lag := 0 }).insNode "X"
    { vtype := .unspecified, md := [], var := "X", lag := 0 }).insEdge "A" "X" ⟨.undirected, []⟩

/-- law 6 without `hlag`: `A` is renamed to `A future(n=1)` (lag 1) and back; both calls are accepted, nodes and
    attributes come back, but the undirected edge is now stored `(X, A)`: equal only up to the stored orientation of
    a symmetric edge -/
example : (step tsAX (.replaceNode "A" (some "A future(n=1)") none none none none)).2 = none ∧
    (step (step tsAX (.replaceNode "A" (some "A future(n=1)") none none none none)).1
      (.replaceNode "A future(n=1)" (some "A") none none none none)).2 = none ∧
    (run tsAX [.replaceNode "A" (some "A future(n=1)") none none none none,
      .replaceNode "A future(n=1)" (some "A") none none none none]).edges.keys = [("X", "A")] ∧
    tsAX.edges.keys = [("A", "X")] := by
  decide +kernel

/-- law 3 with the caller's orientation in the time-series class: `add_edge('X lag(n=1)', 'A lag(n=3)', '--')` is
    stored earlier → later, and `delete_edge` with the caller's orientation is refused (the edge stays) -/
example : (run C03.Ex.gr [.addEdge { id := "X lag(n=1)" } { id := "A lag(n=3)" } .undirected [] true,
      .deleteEdge "X lag(n=1)" "A lag(n=3)" none]).edges.keys =
    [("A lag(n=3)", "X"), ("A lag(n=3)", "X lag(n=1)"), ("X lag(n=1)", "X")] := by
  decide +kernel

end NotIdentity

end CG.C01
