/-
The MECHANISM-level mutators of `CG/Model/OpsImpl.lean` (the write-then-undo sequences of the Python) as runs of
index-level primitives: continuation of `CG/Proofs/IndexRefine.lean`, which covers the atomic reference mutators
(`stepRef`) and `_set_edge`'s own rollback (`setEdgeImpl_is_run`) only.

Every theorem `…Impl_is_run` has the shape of `setEdgeImpl_is_run`:

    WF g → ∃ ps : List Prim, (fImpl g args).1 = Run ps g ∧ RunPre ps g

so that `refines_run` applies to the whole call: from any `Mirror` state `I` with `abs I = g`, EVERY prefix of the
primitive run keeps `Mirror` (`mirror_prefixes`), in particular the states in the middle of a call that later rolls
back, and the end state abstracts to `(fImpl g args).1`.

How the run is built (this is what distinguishes the theorems from what `step_eq_stepRef` + `stepRef_is_run` give
for the END state): the proofs are compositional along the control flow of the `…Impl` function.  The run of a
composite call is the concatenation, in call order, of the runs of the sub-calls it makes (`Reach.trans`), each
sub-call contributing exactly its own writes:

  `ensureNode`           [] or [insNode id r]                                   `ensureNode_re`
  `setEdgeImpl`          [] / [insEdge] / [insEdge, delEdge]                    `setEdgeImpl_is_run` (IndexRefine)
  `dropNewNodes`         [delNode n | n new]                                    `dropNewNodes_re`
  `deleteEdge`           [delEdge]                                              `deleteEdge_re`
  `addEdgeImpl`          ensure s ++ ensure d ++ set ++ drop                    `addEdgeImpl_re`
  `changeEdgeTypeImpl`   delete ++ add ++ (re-add, validate=False)              `changeEdgeTypeImpl_re`
  `replaceEdgeImpl`      delete ++ add ++ (re-add, validate=False)              `replaceEdgeImpl_re`
  `copyEdgesImpl`        add ++ add ++ …                                        `copyEdgesImpl_re`
  `replaceNodeBaseImpl`  [insNode new] ++ copy in ++ copy out ++ [delNode _]    `replaceNodeBaseImpl_re`

The existential alone does not say WHICH run; `CG/Proofs/IndexRefineTrace.lean` makes the run a function
(`addEdgeTrace`, `changeEdgeTypeTrace`, …: the writes in the order the code issues them) and proves the same facts
about it.

The intermediate states of a rolling-back call are in general NOT `WF` (the edge that closes a directed cycle is in
the containers until `delete_edge` removes it; WF itself does not speak about cycles, but the proofs of C03 use
`WF` of the START state only).  What the index preconditions need in those states is only that both end points of
every stored edge are nodes: the invariant `Ends` below, weaker than `WF`, which every sub-call preserves.  The
`…_re` theorems are therefore stated from ANY `Ends` state (strictly more than asked), and the `…_is_run`
theorems are their `WF` instances.
-/
import CG.Proofs.IndexRefine

namespace CG.IndexRefine
open CG CG.Indexed Std

/-! ### the invariant of the intermediate states -/

/-- both end points of every stored edge are nodes (the clause `ends` of `WF`, alone) -/
def Ends (g : Graph) : Prop := ∀ s d : String, (s, d) ∈ g.edges → s ∈ g.nodes ∧ d ∈ g.nodes

theorem ends_of_wf {g : Graph} (hw : WF g) : Ends g := hw.ends

theorem ends_insNode {g : Graph} (h : Ends g) (i : String) (r : NodeRec) : Ends (g.insNode i r) := by
  intro s d hm
  have := h s d hm
  exact ⟨(mem_insNode g i s r).mpr (Or.inr this.1), (mem_insNode g i d r).mpr (Or.inr this.2)⟩

theorem ends_insEdge {g : Graph} (h : Ends g) {s d : String} (hs : s ∈ g.nodes) (hd : d ∈ g.nodes) (r : EdgeRec) :
    Ends (g.insEdge s d r) := by
  intro a b hm
  rcases (mem_insEdge g s d r (a, b)).mp hm with he | he
  · cases he; exact ⟨hs, hd⟩
  · exact h a b he

theorem ends_delEdgeRaw {g : Graph} (h : Ends g) (s d : String) : Ends (g.delEdgeRaw s d) :=
  fun a b hm => h a b ((mem_delEdgeRaw g s d _).mp hm).2

theorem ends_delNodeRaw {g : Graph} (h : Ends g) (n : String) : Ends (g.delNodeRaw n) := by
  intro a b hm
  obtain ⟨h1, h2, h3⟩ := (mem_delNodeRaw_edges g n _).mp hm
  have := h a b h3
  simp only [mem_delNodeRaw_nodes]
  exact ⟨⟨fun e => h1 e.symm, this.1⟩, ⟨fun e => h2 e.symm, this.2⟩⟩

/-- a node that is not there can be inserted: no stored edge touches it (from `Ends` alone) -/
theorem preG_fresh_ends {g : Graph} (he : Ends g) {id : String} (hn : id ∉ g.nodes) (r : NodeRec) :
    PreG g (.insNode id r) := by
  refine ⟨?_, ?_⟩
  · intro r0 h0
    exact absurd ((mem_nodes_iff _ _).mpr ⟨r0, h0⟩) hn
  · intro _ k e hk
    obtain ⟨a, b⟩ := k
    have hm : (a, b) ∈ g.edges := (mem_edges_iff _ _).mpr ⟨e, hk⟩
    obtain ⟨ha, hb⟩ := he a b hm
    exact ⟨fun h => hn (h ▸ ha), fun h => hn (h ▸ hb)⟩

/-! ### reachability by a precondition-meeting run, and its composition -/

/-- `g'` is the result of a run of primitive calls from `g`, each call meeting its precondition -/
def Reach (g g' : Graph) : Prop := ∃ ps : List Prim, g' = Run ps g ∧ RunPre ps g

theorem Reach.refl (g : Graph) : Reach g g := ⟨[], rfl, trivial⟩

theorem Reach.prim {g : Graph} {p : Prim} (hp : PreG g p) : Reach g (p.runG g) := ⟨[p], rfl, hp, trivial⟩

theorem Reach.trans {a b c : Graph} (h1 : Reach a b) (h2 : Reach b c) : Reach a c := by
  obtain ⟨ps1, rfl, hp1⟩ := h1
  obtain ⟨ps2, rfl, hp2⟩ := h2
  exact ⟨ps1 ++ ps2, by rw [run_append], by rw [runPre_append]; exact ⟨hp1, hp2⟩⟩

/-- reachable by such a run, and the invariant of the intermediate states holds at the end -/
def RE (g g' : Graph) : Prop := Reach g g' ∧ Ends g'

theorem RE.refl {g : Graph} (he : Ends g) : RE g g := ⟨Reach.refl g, he⟩
theorem RE.trans {a b c : Graph} (h1 : RE a b) (h2 : RE b c) : RE a c := ⟨h1.1.trans h2.1, h2.2⟩

/-! ### the sub-calls -/

theorem ensureNode_re {g g' : Graph} (he : Ends g) {e : Endpoint} (h : ensureNode g e = .ok g') :
    RE g g' ∧ e.id ∈ g'.nodes ∧ (∀ n, n ∈ g.nodes → n ∈ g'.nodes) := by
  unfold ensureNode at h
  split at h
  · rename_i hn
    cases h
    exact ⟨RE.refl he, (hasNode_iff _ _).mp hn, fun _ h => h⟩
  · split at h
    · obtain ⟨r, _, hn, rfl⟩ := CG.C03.addNode_ok h
      exact ⟨⟨Reach.prim (p := .insNode e.id r) (preG_fresh_ends he hn r), ends_insNode he _ _⟩,
        (mem_insNode g e.id e.id r).mpr (Or.inl rfl), fun n h => (mem_insNode g e.id n r).mpr (Or.inr h)⟩
    · obtain ⟨r, _, hn, rfl⟩ := CG.C03.addNodeObj_ok h
      exact ⟨⟨Reach.prim (p := .insNode e.id r) (preG_fresh_ends he hn r), ends_insNode he _ _⟩,
        (mem_insNode g e.id e.id r).mpr (Or.inl rfl), fun n h => (mem_insNode g e.id n r).mpr (Or.inr h)⟩

theorem deleteEdge_re {g g' : Graph} (he : Ends g) {s d : String} {ty? : Option EdgeType}
    (h : deleteEdge g s d ty? = .ok g') : RE g g' := by
  cases deleteEdge_ok h
  exact ⟨Reach.prim (p := .delEdge s d) trivial, ends_delEdgeRaw he s d⟩

/-- `_set_edge` with its rollback keeps `Ends` when both end points are nodes (they are: `add_edge` has just
    created the missing ones) -/
theorem setEdgeImpl_ends {g : Graph} (he : Ends g) {s d : String} (hs : s ∈ g.nodes) (hd : d ∈ g.nodes)
    (r : EdgeRec) (v : Bool) : Ends (setEdgeImpl g s d r v).1 := by
  unfold setEdgeImpl
  split
  · exact he
  · split
    · exact he
    · simp only
      split
      · cases hde : deleteEdge (g.insEdge s d r) s d none with
        | error e => exact ends_insEdge he hs hd r
        | ok g'' => exact (deleteEdge_re (ends_insEdge he hs hd r) hde).2
      · exact ends_insEdge he hs hd r

theorem setEdgeImpl_re {g : Graph} (he : Ends g) {s d : String} (hs : s ∈ g.nodes) (hd : d ∈ g.nodes)
    (r : EdgeRec) (v : Bool) : RE g (setEdgeImpl g s d r v).1 :=
  ⟨setEdgeImpl_is_run g s d r v, setEdgeImpl_ends he hs hd r v⟩

theorem foldl_delNodeRaw_re (L : List String) {g : Graph} (he : Ends g) :
    RE g (L.foldl (fun acc n => acc.delNodeRaw n) g) := by
  induction L generalizing g with
  | nil => exact RE.refl he
  | cons n L ih =>
    rw [List.foldl_cons]
    exact RE.trans ⟨Reach.prim (p := .delNode n) trivial, ends_delNodeRaw he n⟩ (ih (ends_delNodeRaw he n))

/-- the `except` clause of `add_edge`: one `delete_node` per node that was not there before, from ANY state -/
theorem dropNewNodes_re (before : List String) {g : Graph} (he : Ends g) : RE g (dropNewNodes before g) :=
  foldl_delNodeRaw_re _ he

theorem orient_sd {g : Graph} {s d : String} {ty : EdgeType} {k : String × String} (h : orient g s d ty = .ok k) :
    k = (s, d) ∨ k = (d, s) := (CG.C03.orient_cases h).1

/-! ### `add_edge` -/

theorem addEdgeImpl_re {g : Graph} (he : Ends g) (s d : Endpoint) (ty : EdgeType) (m : Meta) (v : Bool) :
    RE g (addEdgeImpl g s d ty m v).1 := by
  unfold addEdgeImpl
  simp only
  split
  · exact RE.refl he
  · cases h1 : ensureNode g s with
    | error e => exact dropNewNodes_re _ he
    | ok g1 =>
      obtain ⟨r1, hs1, hm1⟩ := ensureNode_re he h1
      simp only
      cases h2 : ensureNode g1 d with
      | error e => exact r1.trans (dropNewNodes_re _ r1.2)
      | ok g2 =>
        obtain ⟨r2, hd2, hm2⟩ := ensureNode_re r1.2 h2
        have r12 : RE g g2 := r1.trans r2
        simp only
        split
        · exact r12.trans (dropNewNodes_re _ r12.2)
        · cases h3 : orient g2 s.id d.id ty with
          | error e => exact r12.trans (dropNewNodes_re _ r12.2)
          | ok sd =>
            obtain ⟨s', d'⟩ := sd
            have hsd : s' ∈ g2.nodes ∧ d' ∈ g2.nodes := by
              rcases orient_sd h3 with hk | hk
              · cases hk; exact ⟨hm2 _ hs1, hd2⟩
              · cases hk; exact ⟨hd2, hm2 _ hs1⟩
            have r3 := setEdgeImpl_re r12.2 hsd.1 hsd.2 { ty := ty, md := m } v
            simp only
            split
            · rename_i g3 heq
              rw [heq] at r3
              exact r12.trans r3
            · rename_i g3 e heq
              rw [heq] at r3
              exact (r12.trans r3).trans (dropNewNodes_re _ r3.2)

theorem addEdgeImplS_re {g : Graph} (he : Ends g) {s d : String} {ty : EdgeType} {m : Meta} {v : Bool}
    {g' : Graph} {o : Option Err} (h : addEdgeImplS g s d ty m v = (g', o)) : RE g g' := by
  have := addEdgeImpl_re he { id := s } { id := d } ty m v
  unfold addEdgeImplS at h
  rw [h] at this
  exact this

/-! ### `change_edge_type`, `replace_edge` -/

/-- delete, add, and on failure the re-add with `validate=False` -/
theorem deleteAddRestore_re {g : Graph} (he : Ends g) (s d ns nd : String) (t0 : Option EdgeType) (nt : EdgeType)
    (nm : Meta) (r : EdgeRec) :
    RE g (match deleteEdge g s d t0 with
          | .error e => (g, some e)
          | .ok g1 =>
            match addEdgeImplS g1 ns nd nt nm true with
            | (g2, none) => (g2, none)
            | (g2, some e) =>
              match addEdgeImplS g2 s d r.ty r.md false with
              | (g3, none) => (g3, some e)
              | (g3, some e') => (g3, some e')).1 := by
  cases h1 : deleteEdge g s d t0 with
  | error e => exact RE.refl he
  | ok g1 =>
    have r1 := deleteEdge_re he h1
    simp only
    split
    · rename_i g2 heq
      exact r1.trans (addEdgeImplS_re r1.2 heq)
    · rename_i g2 e heq
      have r2 := r1.trans (addEdgeImplS_re r1.2 heq)
      split
      · rename_i g3 heq3
        exact r2.trans (addEdgeImplS_re r2.2 heq3)
      · rename_i g3 e' heq3
        exact r2.trans (addEdgeImplS_re r2.2 heq3)

theorem changeEdgeTypeImpl_re {g : Graph} (he : Ends g) (s d : String) (nt : EdgeType) :
    RE g (changeEdgeTypeImpl g s d nt).1 := by
  unfold changeEdgeTypeImpl
  split
  · exact RE.refl he
  · rename_i r _
    split
    · exact RE.refl he
    · exact deleteAddRestore_re he s d s d (some r.ty) nt r.md r

theorem replaceEdgeImpl_re {g : Graph} (he : Ends g) (s d ns nd : String) (ty? : Option EdgeType) (m? : Option Meta) :
    RE g (replaceEdgeImpl g s d ns nd ty? m?).1 := by
  unfold replaceEdgeImpl
  split
  · exact RE.refl he
  · rename_i r _
    split
    · exact RE.refl he
    · exact deleteAddRestore_re he s d ns nd none (ty?.getD r.ty) (m?.getD r.md) r

/-! ### `replace_node` -/

theorem copyEdgesImpl_re (new : String) (inbound : Bool) (L : List (EKey × EdgeRec)) {g : Graph} (he : Ends g) :
    RE g (copyEdgesImpl new inbound g L).1 := by
  induction L generalizing g with
  | nil => exact RE.refl he
  | cons kr rest ih =>
    obtain ⟨k, r⟩ := kr
    cases inbound with
    | true =>
      simp only [copyEdgesImpl, if_true]
      split
      · rename_i g' heq
        exact (addEdgeImplS_re he heq).trans (ih (addEdgeImplS_re he heq).2)
      · rename_i g' e heq
        exact addEdgeImplS_re he heq
    | false =>
      simp only [copyEdgesImpl, Bool.false_eq_true, if_false]
      split
      · rename_i g' heq
        exact (addEdgeImplS_re he heq).trans (ih (addEdgeImplS_re he heq).2)
      · rename_i g' e heq
        exact addEdgeImplS_re he heq

theorem delNodeRaw_re {g : Graph} (he : Ends g) (n : String) : RE g (g.delNodeRaw n) :=
  ⟨Reach.prim (p := .delNode n) trivial, ends_delNodeRaw he n⟩

theorem replaceNodeBaseImpl_re {g : Graph} (he : Ends g) (n : String) (new? : Option String) (vt? : Option VType)
    (m? : Option Meta) : RE g (replaceNodeBaseImpl g n new? vt? m?).1 := by
  unfold replaceNodeBaseImpl
  split
  · exact RE.refl he
  · rename_i r h0
    cases new? with
    | none =>
      simp only [replaceNodeBase, h0, lift]
      exact ⟨Reach.prim (p := .insNode n _) (preG_replaceInPlace h0 _ _), ends_insNode he _ _⟩
    | some new =>
      simp only
      split
      · exact RE.refl he
      · cases h1 : addNode g new (vt?.getD r.vtype) (m?.getD r.md) with
        | error e => exact RE.refl he
        | ok g1 =>
          obtain ⟨rn, _, hn, rfl⟩ := CG.C03.addNode_ok h1
          have r1 : RE g (g.insNode new rn) :=
            ⟨Reach.prim (p := .insNode new rn) (preG_fresh_ends he hn rn), ends_insNode he _ _⟩
          simp only
          have r2 := r1.trans (copyEdgesImpl_re new true ((g.insNode new rn).edgesTo n) r1.2)
          split
          · rename_i g2 e heq
            rw [heq] at r2
            exact r2.trans (delNodeRaw_re r2.2 new)
          · rename_i g2 heq
            rw [heq] at r2
            have r3 := r2.trans (copyEdgesImpl_re new false (g2.edgesFrom n) r2.2)
            split
            · rename_i g3 e heq3
              rw [heq3] at r3
              exact r3.trans (delNodeRaw_re r3.2 new)
            · rename_i g3 heq3
              rw [heq3] at r3
              exact r3.trans (delNodeRaw_re r3.2 n)

theorem replaceNodeImpl_re {g : Graph} (he : Ends g) (n : String) (new? : Option String) (lag? : Option Int)
    (var? : Option String) (vt? : Option VType) (m? : Option Meta) :
    RE g (replaceNodeImpl g n new? lag? var? vt? m?).1 := by
  unfold replaceNodeImpl
  split
  · exact replaceNodeBaseImpl_re he _ _ _ _
  · split
    · split
      · exact RE.refl he
      · exact replaceNodeBaseImpl_re he _ _ _ _
    · split
      · split
        · exact RE.refl he
        · split
          · exact RE.refl he
          · exact replaceNodeBaseImpl_re he _ _ _ _
      · exact replaceNodeBaseImpl_re he _ _ _ _

/-! ### `add_time_edge` -/

theorem addTimeEdgeImpl_re {g : Graph} (he : Ends g) (sv : String) (st : Int) (dv : String) (dt : Int) (m : Meta)
    (v : Bool) : RE g (addTimeEdgeImpl g sv st dv dt m v).1 := by
  unfold addTimeEdgeImpl
  split
  · exact addEdgeImpl_re he _ _ _ _ _
  · exact RE.refl he

/-! ### the theorems in the shape of `setEdgeImpl_is_run` -/

/-- `add_edge` as the code performs it (implicit node creations, `_set_edge` with its own rollback, deletion of the
    implicitly created nodes when the edge is rejected): a run of primitive calls each meeting its precondition -/
theorem addEdgeImpl_is_run {g : Graph} (hw : WF g) (s d : Endpoint) (ty : EdgeType) (m : Meta) (v : Bool) :
    ∃ ps, (addEdgeImpl g s d ty m v).1 = Run ps g ∧ RunPre ps g :=
  (addEdgeImpl_re (ends_of_wf hw) s d ty m v).1

/-- `change_edge_type`: delete, add, on failure re-add the original with `validate=False` -/
theorem changeEdgeTypeImpl_is_run {g : Graph} (hw : WF g) (s d : String) (nt : EdgeType) :
    ∃ ps, (changeEdgeTypeImpl g s d nt).1 = Run ps g ∧ RunPre ps g :=
  (changeEdgeTypeImpl_re (ends_of_wf hw) s d nt).1

/-- `replace_edge`: delete, add the new one, on failure re-add the original with `validate=False` -/
theorem replaceEdgeImpl_is_run {g : Graph} (hw : WF g) (s d ns nd : String) (ty? : Option EdgeType)
    (m? : Option Meta) : ∃ ps, (replaceEdgeImpl g s d ns nd ty? m?).1 = Run ps g ∧ RunPre ps g :=
  (replaceEdgeImpl_re (ends_of_wf hw) s d ns nd ty? m?).1

/-- the copy loops of `replace_node`, up to and including the rejected edge -/
theorem copyEdgesImpl_is_run {g : Graph} (hw : WF g) (new : String) (inbound : Bool) (L : List (EKey × EdgeRec)) :
    ∃ ps, (copyEdgesImpl new inbound g L).1 = Run ps g ∧ RunPre ps g :=
  (copyEdgesImpl_re new inbound L (ends_of_wf hw)).1

/-- base-class `replace_node`: add the new node, copy the edges one by one, on failure `delete_node(new)` with the
    edges copied so far, on success `delete_node(old)` -/
theorem replaceNodeBaseImpl_is_run {g : Graph} (hw : WF g) (n : String) (new? : Option String) (vt? : Option VType)
    (m? : Option Meta) : ∃ ps, (replaceNodeBaseImpl g n new? vt? m?).1 = Run ps g ∧ RunPre ps g :=
  (replaceNodeBaseImpl_re (ends_of_wf hw) n new? vt? m?).1

/-- `replace_node` of either class -/
theorem replaceNodeImpl_is_run {g : Graph} (hw : WF g) (n : String) (new? : Option String) (lag? : Option Int)
    (var? : Option String) (vt? : Option VType) (m? : Option Meta) :
    ∃ ps, (replaceNodeImpl g n new? lag? var? vt? m?).1 = Run ps g ∧ RunPre ps g :=
  (replaceNodeImpl_re (ends_of_wf hw) n new? lag? var? vt? m?).1

/-- `add_time_edge` -/
theorem addTimeEdgeImpl_is_run {g : Graph} (hw : WF g) (sv : String) (st : Int) (dv : String) (dt : Int) (m : Meta)
    (v : Bool) : ∃ ps, (addTimeEdgeImpl g sv st dv dt m v).1 = Run ps g ∧ RunPre ps g :=
  (addTimeEdgeImpl_re (ends_of_wf hw) sv st dv dt m v).1

/-! ### the state machine, histories -/

/-- every call of the MECHANISM-level state machine (`step`: the `…Impl` mutators where the code writes before it
    checks, the reference ones elsewhere) from a `WF` state is a run of primitive calls meeting `RunPre` -/
theorem step_is_run {g : Graph} (hw : WF g) (op : Op) : ∃ ps, (step g op).1 = Run ps g ∧ RunPre ps g := by
  cases op with
  | addEdge s d ty m v => exact addEdgeImpl_is_run hw s d ty m v
  | changeEdgeType s d nt => exact changeEdgeTypeImpl_is_run hw s d nt
  | replaceEdge s d ns nd ty m => exact replaceEdgeImpl_is_run hw s d ns nd ty m
  | replaceNode i new l v vt m => exact replaceNodeImpl_is_run hw i new l v vt m
  | addTimeEdge sv st dv dt m v => exact addTimeEdgeImpl_is_run hw sv st dv dt m v
  | addNode i vt m => exact stepRef_is_run hw (.addNode i vt m)
  | addNodeObj i vt m => exact stepRef_is_run hw (.addNodeObj i vt m)
  | tsAddNode i v l vt m => exact stepRef_is_run hw (.tsAddNode i v l vt m)
  | deleteEdge s d ty => exact stepRef_is_run hw (.deleteEdge s d ty)
  | deleteNode i => exact stepRef_is_run hw (.deleteNode i)
  | addNodesFrom ids => exact stepRef_is_run hw (.addNodesFrom ids)
  | addEdgesFrom ps v => exact stepRef_is_run hw (.addEdgesFrom ps v)
  | addPath p v => exact stepRef_is_run hw (.addPath p v)
  | addPaths ps => exact stepRef_is_run hw (.addPaths ps)
  | addFullyConnected a b => exact stepRef_is_run hw (.addFullyConnected a b)

/-- `step` keeps `WF` (C03: same end state as the reference step) -/
theorem wf_step {g : Graph} (hw : WF g) (op : Op) : WF (step g op).1 := by
  rw [CG.C03.step_eq_stepRef hw op]; exact wf_stepRef hw op

/-- every mechanism-level history from a `WF` state is a run of primitive calls meeting `RunPre`: the
    concatenation of the runs of its calls, rollbacks included -/
theorem run_is_run {g : Graph} (hw : WF g) (ops : List Op) : ∃ ps, run g ops = Run ps g ∧ RunPre ps g := by
  induction ops generalizing g with
  | nil => exact ⟨[], rfl, trivial⟩
  | cons op ops ih =>
    obtain ⟨ps1, h1, hp1⟩ := step_is_run hw op
    obtain ⟨ps2, h2, hp2⟩ := ih (wf_step hw op)
    refine ⟨ps1 ++ ps2, ?_, ?_⟩
    · have h0 : run g (op :: ops) = run (step g op).1 ops := rfl
      rw [h0, h2, h1, run_append]
    · rw [runPre_append, ← h1]; exact ⟨hp1, hp2⟩

/-- along a run meeting `RunPre`, EVERY prefix keeps the containers coherent and abstracts to the one-map prefix -/
theorem mirror_prefixes (ps : List Prim) {I : IGraph} (h : Mirror I) (hp : RunPre ps (abs I)) (k : Nat) :
    abs (IRun (ps.take k) I) = Run (ps.take k) (abs I) ∧ Mirror (IRun (ps.take k) I) := by
  refine refines_run (ps.take k) h ?_
  have := hp
  rw [← List.take_append_drop k ps, runPre_append] at this
  exact this.1

/-- **the mechanism-level history refines**: for every history of public calls from the constructor there is a
    sequence of index-level primitive calls, each meeting its precondition, whose replay is coherent after EVERY
    single container write (all prefixes), and whose end state abstracts to the state `run` reaches (writes and
    rollbacks as the code performs them) -/
theorem history_refines_impl (c : GraphClass) (gm : Meta) (ops : List Op) :
    ∃ ps, RunPre ps (Graph.empty c gm) ∧
          abs (IRun ps (IGraph.empty c gm)) = run (Graph.empty c gm) ops ∧
          Mirror (IRun ps (IGraph.empty c gm)) ∧
          ∀ k, Mirror (IRun (ps.take k) (IGraph.empty c gm)) := by
  obtain ⟨ps, h1, hp⟩ := run_is_run (wf_empty c gm) ops
  obtain ⟨h2, h3⟩ := refines_from_empty c gm ps hp
  refine ⟨ps, hp, by rw [h2, h1], h3, fun k => ?_⟩
  have hp' : RunPre ps (abs (IGraph.empty c gm)) := by
    have : abs (IGraph.empty c gm) = Graph.empty c gm := by
      have := (refines_from_empty c gm [] trivial).1
      exact this
    rw [this]; exact hp
  exact (mirror_prefixes ps (mirror_empty c gm) hp' k).2

/-- the same from any `WF` state and any coherent index state over it -/
theorem run_refines_impl {g : Graph} (hw : WF g) {I : IGraph} (hI : Mirror I) (ha : abs I = g) (ops : List Op) :
    ∃ ps, RunPre ps g ∧ abs (IRun ps I) = run g ops ∧ ∀ k, Mirror (IRun (ps.take k) I) := by
  obtain ⟨ps, h1, hp⟩ := run_is_run hw ops
  subst ha
  refine ⟨ps, hp, by rw [(refines_run ps hI hp).1, h1], fun k => (mirror_prefixes ps hI hp k).2⟩

end CG.IndexRefine
