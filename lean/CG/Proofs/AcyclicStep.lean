/-
C02, state-machine half: validated histories never hold a directed cycle, the rejection by `_set_edge` is
sound and complete, and `is_dag()` is exact.

  selfDepR_iff          (in `Basics.lean`) the cycle test of `_set_edge` / `is_dag` is "the node lies on a directed cycle"
  setEdge_rejects_iff   on an acyclic graph, a validated directed insertion s → d raises `CyclicConnectionError`
                        exactly when d already reaches s (sound and complete)
  setEdge_nondirected_no_cycle_error   a non-directed insertion never raises it on an acyclic graph
  addEdge_cyclic_iff    the same at the level of `add_edge` between existing unconnected nodes
  acyclic_stepRef       every reference step whose call validates keeps the directed edges acyclic
  acyclic_runRef        … hence every validated history from the empty graph
  isDag_iff             `isDag g` ↔ every edge directed ∧ directed edges acyclic (no validation hypothesis)
-/
import CG.Proofs.WFStep
import CG.Proofs.Basics
import CG.Model.Views

set_option linter.unusedSectionVars false

namespace CG
open Std EL

/-! ### closure facts over an arbitrary relation -/

section Rel
variable {α : Type} [DecidableEq α] {R R' : α → α → Prop}

theorem tc_mono (h : ∀ a b, R a b → R' a b) {a b : α} (ht : TC R a b) : TC R' a b := by
  induction ht with
  | single hab => exact .single (h _ _ hab)
  | tail _ hbc ih => exact .tail ih (h _ _ hbc)

theorem rtc_mono (h : ∀ a b, R a b → R' a b) {a b : α} (ht : RTC R a b) : RTC R' a b := by
  induction ht with
  | refl => exact .refl _
  | tail _ hbc ih => exact .tail ih (h _ _ hbc)

theorem acyclic_mono (h : ∀ a b, R' a b → R a b) (hac : Acyclic R) : Acyclic R' :=
  fun n ht => hac n (tc_mono h ht)

/-- a path in `R + (s, d)` either avoids the new edge or enters `s` and leaves from `d` -/
theorem tc_ins {s d : α} (h : ∀ a b, R' a b → R a b ∨ (a = s ∧ b = d)) {a b : α} (ht : TC R' a b) :
    TC R a b ∨ (RTC R a s ∧ RTC R d b) := by
  induction ht with
  | single hab =>
    rcases h _ _ hab with h1 | ⟨rfl, rfl⟩
    · exact .inl (.single h1)
    · exact .inr ⟨.refl _, .refl _⟩
  | tail _ hbc ih =>
    rcases h _ _ hbc with h1 | ⟨rfl, rfl⟩
    · rcases ih with ih | ⟨ih1, ih2⟩
      · exact .inl (.tail ih h1)
      · exact .inr ⟨ih1, .tail ih2 h1⟩
    · rcases ih with ih | ⟨ih1, _⟩
      · exact .inr ⟨ih.toRTC, .refl _⟩
      · exact .inr ⟨ih1, .refl _⟩

/-- a cycle created by adding `(s, d)` to an acyclic relation means `d` reached `s` before -/
theorem rtc_of_cycle_ins {s d : α} (hac : Acyclic R) (h : ∀ a b, R' a b → R a b ∨ (a = s ∧ b = d)) {n : α}
    (ht : TC R' n n) : RTC R d s := by
  rcases tc_ins h ht with h1 | ⟨h1, h2⟩
  · exact absurd h1 (hac n)
  · exact h2.trans h1

/-- if `d` reaches `s`, adding `(s, d)` puts `d` on a cycle -/
theorem cycle_of_rtc_ins {s d : α} (h : ∀ a b, R a b → R' a b) (hsd : R' s d) (hr : RTC R d s) : TC R' d d := by
  rcases (rtc_mono h hr).cases_tc with rfl | ht
  · exact .single hsd
  · exact .tail ht hsd

/-- **adding one edge to an acyclic relation keeps it acyclic exactly when the edge closes no path** -/
theorem acyclic_ins_iff {s d : α} (hac : Acyclic R) (h : ∀ a b, R' a b ↔ R a b ∨ (a = s ∧ b = d)) :
    Acyclic R' ↔ ¬ RTC R d s := by
  constructor
  · intro hac' hr
    exact hac' d (cycle_of_rtc_ins (fun a b hab => (h a b).mpr (.inl hab)) ((h s d).mpr (.inr ⟨rfl, rfl⟩)) hr)
  · intro hr n ht
    exact hr (rtc_of_cycle_ins hac (fun a b hab => (h a b).mp hab) ht)

end Rel

/-! ### the cycle test -/

/- `selfDepR_iff : selfDepR E n = true ↔ TC (Rel E) n n` is in `CG/Proofs/Basics.lean` -/

theorem selfDepR_false_iff (E : List (String × String)) (n : String) : selfDepR E n = false ↔ ¬ TC (Rel E) n n := by
  rw [← selfDepR_iff]; simp

/-! ### the directed relation after each primitive -/

theorem rel_insEdge (g : Graph) (s d : String) (r : EdgeRec) (a b : String) :
    Rel (g.insEdge s d r).dirEdges a b ↔
      if (s, d) = (a, b) then r.ty = .directed else Rel g.dirEdges a b := by
  rw [rel_dirEdges, rel_dirEdges, getElem?_insEdge]
  split
  · simp
  · rfl

theorem rel_insEdge_directed (g : Graph) (s d : String) (m : Meta) (a b : String) :
    Rel (g.insEdge s d ⟨.directed, m⟩).dirEdges a b ↔ Rel g.dirEdges a b ∨ (a = s ∧ b = d) := by
  rw [rel_insEdge]
  split
  · rename_i h; cases h; simp
  · rename_i h
    constructor
    · exact .inl
    · rintro (h1 | ⟨rfl, rfl⟩)
      · exact h1
      · exact absurd rfl h

theorem rel_insEdge_nondirected {g : Graph} {s d : String} {r : EdgeRec} (hty : r.ty ≠ .directed) {a b : String}
    (h : Rel (g.insEdge s d r).dirEdges a b) : Rel g.dirEdges a b := by
  rw [rel_insEdge] at h
  split at h
  · exact absurd h hty
  · exact h

theorem rel_delEdgeRaw {g : Graph} {s d a b : String} (h : Rel (g.delEdgeRaw s d).dirEdges a b) :
    Rel g.dirEdges a b := by
  rw [rel_dirEdges, getElem?_delEdgeRaw] at h
  split at h
  · obtain ⟨r, hr, _⟩ := h; cases hr
  · exact (rel_dirEdges _ _ _).mpr h

theorem rel_delNodeRaw {g : Graph} {n a b : String} (h : Rel (g.delNodeRaw n).dirEdges a b) :
    Rel g.dirEdges a b := by
  rw [rel_dirEdges, getElem?_delNodeRaw_edges] at h
  split at h
  · obtain ⟨r, hr, _⟩ := h; cases hr
  · exact (rel_dirEdges _ _ _).mpr h

/-! ### `_set_edge`: the rejection is sound and complete -/

/-- On an acyclic graph, when neither the reverse-key nor the same-key check fires, the validated insertion of a
    directed edge `s → d` raises `CyclicConnectionError` **iff** `d` already reaches `s` along directed edges.
    (`WF` is not needed; it is kept in the statement because every caller has it.) -/
theorem setEdge_rejects_iff {g : Graph} {s d : String} {m : Meta} (_hwf : WF g) (hac : AcyclicG g)
    (hrev : g.hasEdge d s = false) (hdup : g.hasEdge s d = false) :
    setEdge g s d ⟨.directed, m⟩ true = .error .cyclicConnection ↔ RTC (Rel g.dirEdges) d s := by
  unfold setEdge
  simp only [hrev, hdup, Bool.false_eq_true, if_false, Bool.true_and]
  have key : selfDepR (g.insEdge s d ⟨.directed, m⟩).dirEdges d = true ↔ RTC (Rel g.dirEdges) d s := by
    rw [selfDepR_iff]
    constructor
    · exact rtc_of_cycle_ins hac (fun a b hab => (rel_insEdge_directed g s d m a b).mp hab)
    · exact cycle_of_rtc_ins (fun a b hab => (rel_insEdge_directed g s d m a b).mpr (.inl hab))
        ((rel_insEdge_directed g s d m s d).mpr (.inr ⟨rfl, rfl⟩))
  split
  · rename_i h; simp only [true_iff]; exact key.mp h
  · rename_i h; simp only [reduceCtorEq, false_iff]; exact fun hr => h (key.mpr hr)

/-- … and otherwise it succeeds with exactly the insertion: acyclic input is accepted -/
theorem setEdge_accepts_iff {g : Graph} {s d : String} {m : Meta} (hwf : WF g) (hac : AcyclicG g)
    (hrev : g.hasEdge d s = false) (hdup : g.hasEdge s d = false) :
    setEdge g s d ⟨.directed, m⟩ true = .ok (g.insEdge s d ⟨.directed, m⟩) ↔ ¬ RTC (Rel g.dirEdges) d s := by
  rw [← setEdge_rejects_iff (m := m) hwf hac hrev hdup]
  unfold setEdge
  simp only [hrev, hdup, Bool.false_eq_true, if_false, Bool.true_and]
  split <;> simp

/-- a non-directed insertion never raises the cycle error on an acyclic graph, validated or not -/
theorem setEdge_nondirected_no_cycle_error {g : Graph} {s d : String} {r : EdgeRec} {v : Bool} (hac : AcyclicG g)
    (hty : r.ty ≠ .directed) : setEdge g s d r v ≠ .error .cyclicConnection := by
  unfold setEdge
  split
  · simp
  · split
    · simp
    · have : selfDepR (g.insEdge s d r).dirEdges d = false := by
        rw [selfDepR_false_iff]
        exact acyclic_mono (fun a b => rel_insEdge_nondirected hty) hac d
      simp [this]

/-- **`add_edge(s, d, '->')` with validation between two existing, unconnected nodes of an acyclic graph (for the
    time-series class: `d` not earlier than `s`) raises `CyclicConnectionError` iff `d` already reaches `s`;
    otherwise the call can only succeed** -/
theorem addEdge_cyclic_iff {g : Graph} {s d : String} {m : Meta} (hw : WF g) (hac : AcyclicG g) (hs : s ∈ g.nodes)
    (hd : d ∈ g.nodes) (hne : s ≠ d) (hno : g.hasEdge s d = false) (hrev : g.hasEdge d s = false)
    (ht : g.cls = .ts → g.lagOf s ≤ g.lagOf d) :
    (addEdge g s d .directed m true = .error .cyclicConnection ↔ RTC (Rel g.dirEdges) d s) ∧
    (addEdge g s d .directed m true = .ok (g.insEdge s d ⟨.directed, m⟩) ↔ ¬ RTC (Rel g.dirEdges) d s) := by
  rw [addEdge_present hs hd hne hno, orient_keep ht]
  exact ⟨setEdge_rejects_iff hw hac hrev hno, setEdge_accepts_iff hw hac hrev hno⟩

/-! ### preservation -/

theorem acyclic_elem {g g' : Graph} (hac : AcyclicG g) (he : Elem true g g') : AcyclicG g' := by
  cases he with
  | addNode _ _ => exact hac
  | editNode _ _ _ _ => exact hac
  | @addEdge s d r _ _ _ _ _ _ hchk =>
    have hchk := (selfDepR_false_iff _ _).mp (hchk rfl)
    by_cases hty : r.ty = .directed
    · obtain ⟨ty, m⟩ := r
      simp only at hty; subst hty
      intro n ht
      have h1 := rtc_of_cycle_ins hac (fun a b hab => (rel_insEdge_directed g s d m a b).mp hab) ht
      exact hchk (cycle_of_rtc_ins (fun a b hab => (rel_insEdge_directed g s d m a b).mpr (.inl hab))
        ((rel_insEdge_directed g s d m s d).mpr (.inr ⟨rfl, rfl⟩)) h1)
    · exact acyclic_mono (fun a b => rel_insEdge_nondirected hty) hac
  | delEdge s d => exact acyclic_mono (fun a b => rel_delEdgeRaw) hac
  | delNode n => exact acyclic_mono (fun a b => rel_delNodeRaw) hac

theorem acyclic_chain {g g' : Graph} (hac : AcyclicG g) (hc : Chain true g g') : AcyclicG g' := by
  induction hc with
  | refl => exact hac
  | tail _ he ih => exact acyclic_elem ih he

/-- **every reference step whose call validates keeps the directed edges acyclic** — whichever route leads to
    `_set_edge` (`add_edge`, `change_edge_type` to `->`, `replace_edge`, the copy loops of `replace_node`,
    `add_time_edge`, the bulk adders); deletions only remove edges; in-place edits do not touch edges.
    (`WF` is not needed for this; see `acyclic_stepRef'`.) -/
theorem acyclic_stepRef' {g : Graph} (hac : AcyclicG g) {op : Op} (hv : op.validates = true) :
    AcyclicG (stepRef g op).1 := by
  have := stepRef_chain g op
  rw [hv] at this
  exact acyclic_chain hac this

theorem acyclic_stepRef {g : Graph} (_hw : WF g) (hac : AcyclicG g) {op : Op} (hv : op.validates = true) :
    AcyclicG (stepRef g op).1 := acyclic_stepRef' hac hv

theorem acyclic_runRef_from {g : Graph} (hac : AcyclicG g) (ops : List Op) (hv : ∀ op ∈ ops, op.validates = true) :
    AcyclicG (runRef g ops) := by
  induction ops generalizing g with
  | nil => exact hac
  | cons op ops ih =>
    exact ih (acyclic_stepRef' hac (hv op List.mem_cons_self)) (fun o ho => hv o (List.mem_cons_of_mem _ ho))

theorem acyclic_empty (c : GraphClass) (gm : Meta := []) : AcyclicG (Graph.empty c gm) := by
  intro n ht
  obtain ⟨b, h1, _⟩ := ht.split
  obtain ⟨r, hr, _⟩ := (rel_dirEdges _ _ _).mp h1
  rw [getElem?_empty_edges] at hr
  cases hr

/-- **C02 (histories): a history all of whose calls validate, started from the empty graph of either class, never
    holds a directed cycle** -/
theorem acyclic_runRef (c : GraphClass) (gm : Meta) (ops : List Op) (hv : ∀ op ∈ ops, op.validates = true) :
    AcyclicG (runRef (Graph.empty c gm) ops) :=
  acyclic_runRef_from (acyclic_empty c gm) ops hv

/-! ### `is_dag()` is exact -/

theorem isFullyDirected_iff (g : Graph) :
    isFullyDirected g = true ↔ ∀ kv ∈ g.edges.toList, kv.2.ty = .directed := by
  unfold isFullyDirected
  simp only [List.all_eq_true, decide_eq_true_eq]

/-- **`isDag g` holds exactly when every edge is directed and the directed edges are acyclic** — for every
    well-formed graph, however it was built (no acyclicity or validation hypothesis) -/
theorem isDag_iff {g : Graph} (hw : WF g) :
    isDag g = true ↔ (∀ kv ∈ g.edges.toList, kv.2.ty = .directed) ∧ AcyclicG g := by
  unfold isDag
  rw [Bool.and_eq_true, isFullyDirected_iff]
  refine and_congr_right fun _ => ?_
  simp only [List.all_eq_true, Bool.not_eq_true', selfDepR_false_iff, mem_nodeNames_iff]
  constructor
  · intro h n ht
    obtain ⟨b, h1, _⟩ := ht.split
    obtain ⟨r, hr, _⟩ := (rel_dirEdges _ _ _).mp h1
    exact h n (hw.ends n b ((mem_edges_iff g (n, b)).mpr ⟨r, hr⟩)).1 ht
  · intro h n _
    exact h n

/-! ### non-vacuity -/

namespace Demo

theorem wf_plainG : WF plainG := wf_runRef_empty .plain [] plainOps
theorem acyclic_plainG : AcyclicG plainG := acyclic_runRef .plain [] plainOps (by decide)
theorem wf_tsG : WF tsG := wf_runRef_empty .ts [] tsOps
theorem acyclic_tsG : AcyclicG tsG := acyclic_runRef .ts [] tsOps (by decide)

theorem plainG_dirEdges : plainG.dirEdges = [("a", "b"), ("b", "c")] := by decide

/-- on a → b → c the arrow c → a is refused (a reaches c) … -/
example : setEdge plainG "c" "a" ⟨.directed, []⟩ true = .error .cyclicConnection := by
  have h1 : Rel plainG.dirEdges "a" "b" := by unfold Rel; decide
  have h2 : Rel plainG.dirEdges "b" "c" := by unfold Rel; decide
  exact (setEdge_rejects_iff wf_plainG acyclic_plainG (by decide) (by decide)).mpr (.tail (.tail (.refl _) h1) h2)

/-- … and the arrow a → c is accepted (c has no successor, so it does not reach a) -/
example : setEdge plainG "a" "c" ⟨.directed, []⟩ true = .ok (plainG.insEdge "a" "c" ⟨.directed, []⟩) := by
  refine (setEdge_accepts_iff wf_plainG acyclic_plainG (by decide) (by decide)).mpr (fun h => ?_)
  have hc : ∀ x : String, RTC (Rel plainG.dirEdges) "c" x → x = "c" := by
    intro x hx
    induction hx with
    | refl => rfl
    | tail _ hbc ih =>
      subst ih
      unfold Rel at hbc
      rw [plainG_dirEdges] at hbc
      simp at hbc
  exact absurd (hc "a" h) (by decide)

/-- the same through `add_edge` -/
example : addEdge plainG "c" "a" .directed [] true = .error .cyclicConnection := by
  have h1 : Rel plainG.dirEdges "a" "b" := by unfold Rel; decide
  have h2 : Rel plainG.dirEdges "b" "c" := by unfold Rel; decide
  exact (addEdge_cyclic_iff wf_plainG acyclic_plainG (by decide) (by decide) (by decide) (by decide) (by decide)
    (by decide)).1.mpr (.tail (.tail (.refl _) h1) h2)

/-- `is_dag()` on the path graph, through the theorem (the kernel does not unfold the well-founded search) -/
example : isDag plainG = true := (isDag_iff wf_plainG).mpr ⟨by decide, acyclic_plainG⟩

/-- the time-series demo graph holds an undirected edge: not a DAG, although acyclic -/
example : isDag tsG ≠ true ∧ AcyclicG tsG :=
  ⟨fun h => absurd ((isDag_iff wf_tsG).mp h).1 (by decide), acyclic_tsG⟩

end Demo

end CG
