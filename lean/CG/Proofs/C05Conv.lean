/-
C05, class conversion plain → time-series through the dictionary (`TimeSeriesCausalGraph.from_dict(g.to_dict())`,
`TimeSeriesCausalGraph.from_causal_graph(g)`).
-/
import CG.Proofs.C05

set_option linter.unusedSimpArgs false

namespace CG.C05
open CG CG.Dict CG.Conv Std

/-- the time lag the grammar reads off an identifier -/
def lagN (n : String) : Int := ((Name.parse n).map (·.2)).getD 0

/-- every node name is accepted by the time-series grammar -/
def AllParse (g : Graph) : Prop := ∀ n : String, n ∈ g.nodes → (Name.parse n).isSome = true

/-- no directed edge runs against time (by the lags the grammar reads off the names) -/
def NoAgainstTime (g : Graph) : Prop :=
  ∀ (s d : String) (r : EdgeRec), g.edges[(s, d)]? = some r → r.ty = .directed → lagN s ≤ lagN d

/-- the stored orientation the time-series class gives a pair: unchanged when it respects time, swapped otherwise -/
def tsKey (k : EKey) : EKey := if lagN k.1 ≤ lagN k.2 then k else (k.2, k.1)

/-- the time-series node a plain node becomes: variable and lag from the identifier, the two reserved keys removed
    from the user metadata (they are re-derived), everything else kept -/
def tsRec (n : String) (r : NodeRec) : NodeRec :=
  match Name.parse n with
  | some (v, l) => { vtype := r.vtype, md := r.md.tsStrip, var := v, lag := l }
  | none => r

/-- the time-series graph a plain graph becomes -/
def tsImage (g : Graph) : Graph :=
  { cls := .ts, nodes := g.nodes.map tsRec,
    edges := insAll ∅ (g.edges.toList.map (fun kv => (tsKey kv.1, kv.2))), gmeta := g.gmeta }

theorem tsKey_cases (k : EKey) : tsKey k = k ∨ tsKey k = (k.2, k.1) := by
  unfold tsKey; split
  · exact .inl rfl
  · exact .inr rfl

/-! ### one iteration of each loop -/

theorem addDNode_toTs (g : Graph) (n : String) (r : NodeRec) (hc : g.cls = .ts) (hn : g.hasNode n = false) :
    addDNode .ts g (nodeDict .plain true n r) =
      (match Name.parse n with
       | some _ => .ok (g.insNode n (tsRec n r))
       | none => .error .valueError) := by
  cases hp : Name.parse n with
  | none => simp [addDNode, nodeDict, nodeFromDict, hp, bind, Except.bind]
  | some vl =>
    obtain ⟨v, l⟩ := vl
    simp [addDNode, nodeDict, nodeFromDict, hp, vofText_text, addNodeObj, hn, mkNode, mkTsNode, hc, tsRec, bind,
      Except.bind, pure, Except.pure, tsStrip_tsFull]

/-- the loop body on an edge dictionary written by a PLAIN graph `G`, read by the time-series class: both endpoints
    exist and parse, the pair is free in both orientations -/
theorem addDEdge_toTs (G g : Graph) (v : Bool) (s d : String) (r : EdgeRec)
    (hGc : G.cls = .plain) (hc : g.cls = .ts) (hsd : s ≠ d)
    (hs : g.hasNode s = true) (hd : g.hasNode d = true)
    (hnew : g.hasEdge s d = false) (hrev : g.hasEdge d s = false)
    (hps : (Name.parse s).isSome = true) (hpd : (Name.parse d).isSome = true)
    (hls : g.lagOf s = lagN s) (hld : g.lagOf d = lagN d) :
    addDEdge .ts v g (edgeDict G true (s, d) r.ty r.md) =
      if r.ty = .directed ∧ lagN s > lagN d then .error .valueError
      else if (v && selfDepR (g.insEdge (tsKey (s, d)).1 (tsKey (s, d)).2 r).dirEdges (tsKey (s, d)).2) = true
        then .error .cyclicConnection
      else .ok (g.insEdge (tsKey (s, d)).1 (tsKey (s, d)).2 r) := by
  obtain ⟨⟨vs, ls⟩, hps'⟩ := Option.isSome_iff_exists.mp hps
  obtain ⟨⟨vd, ld⟩, hpd'⟩ := Option.isSome_iff_exists.mp hpd
  have hlS : lagN s = ls := by simp [lagN, hps']
  have hlD : lagN d = ld := by simp [lagN, hpd']
  have hk : ({ ty := r.ty, md := r.md } : EdgeRec) = r := rfl
  by_cases hgt : ls > ld
  · -- the stored orientation runs against time
    by_cases hty : r.ty = .directed
    · have : edgeFromDict .ts (edgeDict G true (s, d) r.ty r.md) = .error .valueError := by
        simp [edgeFromDict, edgeDict, hGc, nodeDict, nodeFromDict, cls_ne, vofText_text, ofText_text, bind, Except.bind,
          tsEdgeInit, toTsObj, hps', hpd', objLag, hgt, hty, pure, Except.pure]
      unfold addDEdge
      rw [this]
      simp [bind, Except.bind, hty, hlS, hlD, hgt]
    · have e1 : edgeFromDict .ts (edgeDict G true (s, d) r.ty r.md) =
          .ok { src := { id := d, vt := (endNode G d).vtype, md := tsFull (endNode G d).md vd ld, isTs := true },
                dst := { id := s, vt := (endNode G s).vtype, md := tsFull (endNode G s).md vs ls, isTs := true },
                ty := r.ty, md := r.md } := by
        simp [edgeFromDict, edgeDict, hGc, nodeDict, nodeFromDict, cls_ne, vofText_text, ofText_text, bind, Except.bind,
          tsEdgeInit, toTsObj, hps', hpd', objLag, hgt, hty, pure, Except.pure]
      have hkey : tsKey (s, d) = (d, s) := by
        unfold tsKey; simp only [hlS, hlD]; rw [if_neg (by omega)]
      have hl : ¬ (g.lagOf d > g.lagOf s) := by rw [hls, hld, hlS, hlD]; omega
      have hl' : ¬ (g.lagOf s < g.lagOf d) := hl
      simp [addDEdge, e1, bind, Except.bind, addEdgeE, NodeObj.endpoint, ensureNode, hs, hd, hnew, hrev, orient, hc,
        setEdge, Ne.symm hsd, hk, hl', hty, hkey]
  · have e1 : edgeFromDict .ts (edgeDict G true (s, d) r.ty r.md) =
        .ok { src := { id := s, vt := (endNode G s).vtype, md := tsFull (endNode G s).md vs ls, isTs := true },
              dst := { id := d, vt := (endNode G d).vtype, md := tsFull (endNode G d).md vd ld, isTs := true },
              ty := r.ty, md := r.md } := by
      simp [edgeFromDict, edgeDict, hGc, nodeDict, nodeFromDict, cls_ne, vofText_text, ofText_text, bind, Except.bind,
        tsEdgeInit, toTsObj, hps', hpd', objLag, hgt, pure, Except.pure]
    have hkey : tsKey (s, d) = (s, d) := by
      unfold tsKey; simp only [hlS, hlD]; rw [if_pos (by omega)]
    have hl : ¬ (g.lagOf d < g.lagOf s) := by rw [hls, hld, hlS, hlD]; omega
    have hng : ¬ (ld < ls) := hgt
    simp [addDEdge, e1, bind, Except.bind, addEdgeE, NodeObj.endpoint, ensureNode, hs, hd, hnew, hrev, orient, hc,
      setEdge, hsd, hk, hl, hkey, hlS, hlD, hng]

/-! ### the node loop -/

/-- the node loop of the time-series class on a plain dictionary: runs through exactly when every name parses,
    otherwise stops with `ValueError` at the first one that does not -/
theorem node_loop_toTs (G : Graph) :
    ∀ (rest : List (String × NodeRec)) (g : Graph), NInv G .ts g rest →
      ((∀ kv ∈ rest, (Name.parse kv.1).isSome = true) →
        bulk (fun g kv => addDNode .ts g (nodeDict .plain true kv.1 kv.2)) g rest =
          (rest.foldl (fun g kv => g.insNode kv.1 (tsRec kv.1 kv.2)) g, none)) ∧
      ((∃ kv ∈ rest, (Name.parse kv.1).isSome = false) →
        (bulk (fun g kv => addDNode .ts g (nodeDict .plain true kv.1 kv.2)) g rest).2 = some .valueError) := by
  intro rest
  induction rest with
  | nil =>
    intro g _
    exact ⟨fun _ => rfl, fun ⟨_, h, _⟩ => by cases h⟩
  | cons kv rest ih =>
    intro g hinv
    have hstep := addDNode_toTs g kv.1 kv.2 hinv.1 (hinv.2.1 kv List.mem_cons_self)
    have hnext := ninv_next G .ts g kv rest (tsRec kv.1 kv.2) hinv
    cases hp : Name.parse kv.1 with
    | none =>
      rw [hp] at hstep
      constructor
      · intro hall
        have := hall kv List.mem_cons_self
        rw [hp] at this; cases this
      · intro _
        simp only [bulk, hstep]
    | some vl =>
      rw [hp] at hstep
      obtain ⟨ih1, ih2⟩ := ih _ hnext
      constructor
      · intro hall
        simp only [bulk, hstep, List.foldl_cons]
        exact ih1 (fun x hx => hall x (List.mem_cons_of_mem _ hx))
      · rintro ⟨x, hx, hx'⟩
        simp only [bulk, hstep]
        apply ih2
        rcases List.mem_cons.mp hx with rfl | hx
        · rw [hp] at hx'; cases hx'
        · exact ⟨x, hx, hx'⟩

/-! ### the edge loop -/

/-- invariant of the edge loop (time-series class reading a plain dictionary): the edges present are re-oriented
    edges of `G`, the remaining entries are free in both orientations -/
def TInv (G g1 g : Graph) (rest : List (EKey × EdgeRec)) : Prop :=
  g.cls = .ts ∧ g.nodes = g1.nodes ∧ (∀ kv ∈ rest, G.edges[kv.1]? = some kv.2) ∧
    rest.Pairwise (fun a b => a.1 ≠ b.1) ∧ (∀ kv ∈ rest, kv.1 ∉ g.edges ∧ (kv.1.2, kv.1.1) ∉ g.edges) ∧
    (∀ (k : EKey) (r : EdgeRec), g.edges[k]? = some r → ∃ k' : EKey, G.edges[k']? = some r ∧ tsKey k' = k)

theorem mem_of_lookup {κ β : Type} {cmp : κ → κ → Ordering} [TransCmp cmp] (m : ExtTreeMap κ β cmp) (k : κ) (r : β)
    (h : m[k]? = some r) : k ∈ m := by
  rw [ExtTreeMap.mem_iff_isSome_getElem?, h]; rfl

/-- running against time: a directed edge whose stored source is later than its destination -/
def Against (kv : EKey × EdgeRec) : Prop := kv.2.ty = .directed ∧ lagN kv.1.1 > lagN kv.1.2

instance (kv : EKey × EdgeRec) : Decidable (Against kv) := by unfold Against; exact inferInstance

theorem tinv_step (G g1 : Graph) (v : Bool) (hwf : WF G) (hGc : G.cls = .plain) (hall : AllParse G)
    (hnodes : ∀ n, g1.hasNode n = G.hasNode n) (hlag : ∀ n, n ∈ G.nodes → g1.lagOf n = lagN n)
    (g : Graph) (kv : EKey × EdgeRec) (rest : List (EKey × EdgeRec)) (h : TInv G g1 g (kv :: rest)) :
    addDEdge .ts v g (edgeDict G true kv.1 kv.2.ty kv.2.md) =
        (if Against kv then .error .valueError
         else if (v && selfDepR (g.insEdge (tsKey kv.1).1 (tsKey kv.1).2 kv.2).dirEdges (tsKey kv.1).2) = true
           then .error .cyclicConnection
         else .ok (g.insEdge (tsKey kv.1).1 (tsKey kv.1).2 kv.2)) ∧
      TInv G g1 (g.insEdge (tsKey kv.1).1 (tsKey kv.1).2 kv.2) rest := by
  obtain ⟨h1, h2, h3, h4, h5, h6⟩ := h
  obtain ⟨⟨s, d⟩, r⟩ := kv
  have hr : G.edges[(s, d)]? = some r := h3 _ List.mem_cons_self
  have hmem : (s, d) ∈ G.edges := mem_of_lookup _ _ _ hr
  obtain ⟨hsN, hdN⟩ := hwf.ends s d hmem
  have hsd : s ≠ d := fun e => hwf.noLoop s (e ▸ hmem)
  have hnodeEq : ∀ n, g.hasNode n = G.hasNode n := by
    intro n; rw [← hnodes n]; simp [Graph.hasNode, h2]
  have hlagEq : ∀ n, n ∈ G.nodes → g.lagOf n = lagN n := by
    intro n hn; rw [← hlag n hn]; simp [Graph.lagOf, h2]
  obtain ⟨hfree1, hfree2⟩ := h5 _ List.mem_cons_self
  constructor
  · exact addDEdge_toTs G g v s d r hGc h1 hsd (by rw [hnodeEq, hasNode_true_iff]; exact hsN)
      (by rw [hnodeEq, hasNode_true_iff]; exact hdN) ((hasEdge_false_iff _ _ _).mpr hfree1)
      ((hasEdge_false_iff _ _ _).mpr hfree2) (hall s hsN) (hall d hdN) (hlagEq s hsN) (hlagEq d hdN)
  · refine ⟨h1, h2, fun kv hkv => h3 kv (List.mem_cons_of_mem _ hkv), h4.of_cons, ?_, ?_⟩
    · intro kv' hkv'
      have hne : ((s, d) : EKey) ≠ kv'.1 := List.rel_of_pairwise_cons h4 hkv'
      have hmem' : kv'.1 ∈ G.edges := mem_of_lookup _ _ _ (h3 kv' (List.mem_cons_of_mem _ hkv'))
      have hne' : ((d, s) : EKey) ≠ kv'.1 := by
        intro e
        exact hwf.onePer s d hmem (e ▸ hmem')
      obtain ⟨f1, f2⟩ := h5 kv' (List.mem_cons_of_mem _ hkv')
      have hkey : tsKey (s, d) = (s, d) ∨ tsKey (s, d) = (d, s) := tsKey_cases (s, d)
      simp only [Graph.insEdge, ExtTreeMap.mem_insert, ekCmp_eq_iff]
      constructor
      · rintro (h | h)
        · rcases hkey with hk | hk <;> rw [hk] at h
          · exact hne h
          · exact hne' h
        · exact f1 h
      · rintro (h | h)
        · rcases hkey with hk | hk <;> rw [hk] at h
          · apply hne'
            exact Prod.ext (congrArg Prod.snd h) (congrArg Prod.fst h)
          · apply hne
            exact Prod.ext (congrArg Prod.snd h) (congrArg Prod.fst h)
        · exact f2 h
    · intro k r0
      simp only [Graph.insEdge, ExtTreeMap.getElem?_insert, ekCmp_eq_iff]
      split
      · rename_i hk
        intro h
        cases h
        exact ⟨(s, d), hr, hk⟩
      · exact h6 k r0

theorem tinv_init (G g1 : Graph) (hc : g1.cls = .ts) (he : g1.edges = ∅) : TInv G g1 g1 G.edges.toList := by
  refine ⟨hc, rfl, ?_, distinct_toList _, ?_, ?_⟩
  · intro kv hkv; exact ExtTreeMap.mem_toList_iff_getElem?_eq_some.mp hkv
  · intro kv _; rw [he]; simp
  · intro k r h; rw [he] at h; simp at h

theorem foldl_insTs (l : List (EKey × EdgeRec)) (g : Graph) :
    l.foldl (fun g kv => g.insEdge (tsKey kv.1).1 (tsKey kv.1).2 kv.2) g =
      { g with edges := insAll g.edges (l.map (fun kv => (tsKey kv.1, kv.2))) } := by
  induction l generalizing g with
  | nil => rfl
  | cons kv l ih =>
    simp only [List.foldl_cons, List.map_cons, insAll_cons]
    rw [ih]
    rfl

/-- directed edges are never re-oriented when no directed edge runs against time -/
theorem dir_sub_of_tinv (G g : Graph) (hna : NoAgainstTime G)
    (h6 : ∀ (k : EKey) (r : EdgeRec), g.edges[k]? = some r → ∃ k' : EKey, G.edges[k']? = some r ∧ tsKey k' = k)
    (a b : String) (hab : DirRel g a b) : DirRel G a b := by
  obtain ⟨r, hr, ht⟩ := hab
  obtain ⟨⟨s, d⟩, hk', hkey⟩ := h6 _ r hr
  have := hna s d r hk' ht
  have hk : tsKey (s, d) = (s, d) := by unfold tsKey; rw [if_pos this]
  rw [hk] at hkey
  cases hkey
  exact ⟨r, hk', ht⟩

/-- the edge loop runs through when no directed edge runs against time and (with validation) `G` is acyclic -/
theorem edge_loop_toTs_ok (G g1 : Graph) (v : Bool) (hwf : WF G) (hGc : G.cls = .plain) (hall : AllParse G)
    (hna : NoAgainstTime G) (hv : v = true → AcyclicG G)
    (hc : g1.cls = .ts) (he : g1.edges = ∅)
    (hnodes : ∀ n, g1.hasNode n = G.hasNode n) (hlag : ∀ n, n ∈ G.nodes → g1.lagOf n = lagN n) :
    bulk (fun g kv => addDEdge .ts v g (edgeDict G true kv.1 kv.2.ty kv.2.md)) g1 G.edges.toList =
      ({ g1 with edges := insAll ∅ (G.edges.toList.map (fun kv => (tsKey kv.1, kv.2))) }, none) := by
  refine Eq.trans (bulk_ok _ (fun g kv => g.insEdge (tsKey kv.1).1 (tsKey kv.1).2 kv.2) (TInv G g1) ?_ _ _
    (tinv_init G g1 hc he)) ?_
  rotate_left 1
  · rw [foldl_insTs, he]
  · intro g kv rest h
    obtain ⟨h1, h2⟩ := tinv_step G g1 v hwf hGc hall hnodes hlag g kv rest h
    refine ⟨?_, h2⟩
    rw [h1]
    have hnot : ¬ Against kv := by
      rintro ⟨ht, hgt⟩
      have := hna kv.1.1 kv.1.2 kv.2 (h.2.2.1 kv List.mem_cons_self) ht
      omega
    rw [if_neg hnot]
    have : (v && selfDepR (g.insEdge (tsKey kv.1).1 (tsKey kv.1).2 kv.2).dirEdges (tsKey kv.1).2) = false := by
      cases v
      · rfl
      · have hac : AcyclicG (g.insEdge (tsKey kv.1).1 (tsKey kv.1).2 kv.2) := by
          intro n hn
          refine hv rfl n (TC.mono ?_ hn)
          intro a b hab
          rw [rel_dirEdges] at hab ⊢
          exact dir_sub_of_tinv G _ hna h2.2.2.2.2.2 a b hab
        simp [selfDepR_false_of_acyclic _ _ hac]
    simp [this]

/-- without validation the edge loop fails exactly when some directed edge runs against time (`ValueError`) -/
theorem edge_loop_toTs_unvalidated (G g1 : Graph) (hwf : WF G) (hGc : G.cls = .plain) (hall : AllParse G)
    (hnodes : ∀ n, g1.hasNode n = G.hasNode n) (hlag : ∀ n, n ∈ G.nodes → g1.lagOf n = lagN n) :
    ∀ (rest : List (EKey × EdgeRec)) (g : Graph), TInv G g1 g rest →
      (∃ kv ∈ rest, Against kv) →
        (bulk (fun g kv => addDEdge .ts false g (edgeDict G true kv.1 kv.2.ty kv.2.md)) g rest).2 = some .valueError := by
  intro rest
  induction rest with
  | nil => rintro g _ ⟨_, h, _⟩; cases h
  | cons kv rest ih =>
    rintro g hinv ⟨x, hx, hx'⟩
    obtain ⟨h1, h2⟩ := tinv_step G g1 false hwf hGc hall hnodes hlag g kv rest hinv
    by_cases ha : Against kv
    · simp only [bulk, h1, if_pos ha]
    · simp only [bulk, h1, if_neg ha, Bool.false_and, Bool.false_eq_true, if_false]
      apply ih _ h2
      rcases List.mem_cons.mp hx with rfl | hx
      · exact absurd hx' ha
      · exact ⟨x, hx, hx'⟩

/-! ### the conversion theorems -/

theorem tsNodes_hasNode (g : Graph) (n : String) :
    (Graph.mk .ts (g.nodes.map tsRec) ∅ g.gmeta).hasNode n = g.hasNode n := by
  simp [Graph.hasNode, ExtTreeMap.contains_map]

theorem tsNodes_lagOf (g : Graph) (hall : AllParse g) (n : String) (hn : n ∈ g.nodes) :
    (Graph.mk .ts (g.nodes.map tsRec) ∅ g.gmeta).lagOf n = lagN n := by
  obtain ⟨r, hr⟩ := Option.isSome_iff_exists.mp (ExtTreeMap.mem_iff_isSome_getElem?.mp hn)
  obtain ⟨⟨v, l⟩, hp⟩ := Option.isSome_iff_exists.mp (hall n hn)
  simp [Graph.lagOf, ExtTreeMap.getElem?_map, hr, tsRec, hp, lagN]

theorem node_phase_toTs (g : Graph) (hc : g.cls = .plain) (hall : AllParse g) :
    bulk (addDNode .ts) (Graph.empty .ts g.gmeta) ((toDict true g).nodes.map (·.2)) =
      (Graph.mk .ts (g.nodes.map tsRec) ∅ g.gmeta, none) := by
  rw [nodeDicts_toDict, bulk_map, hc]
  rw [(node_loop_toTs g g.nodes.toList _ (ninv_init g .ts g.gmeta)).1 ?_]
  · rw [foldl_insNode, ← insAll_toList_map]
    rfl
  · intro kv hkv
    apply hall
    exact mem_of_lookup _ _ _ (ExtTreeMap.mem_toList_iff_getElem?_eq_some.mp hkv)

/-- **C05 (4b)** a plain graph read by the time-series class (`TimeSeriesCausalGraph.from_dict(g.to_dict())`), when every
    name parses and no directed edge runs against time (and, with validation, `g` is acyclic): the result is
    `tsImage g` — same identifiers and variable types, user metadata minus the two reserved keys, variable and lag read
    off the identifier, every edge with its type and metadata, stored as it was when it respects time and swapped
    otherwise, the graph metadata -/
theorem toTs_preserves (g : Graph) (v : Bool) (hwf : WF g) (hc : g.cls = .plain) (hall : AllParse g)
    (hna : NoAgainstTime g) (hv : v = true → AcyclicG g) :
    fromDict .ts (toDict true g) v = (tsImage g, none) := by
  unfold fromDict
  have hm : (toDict true g).md.getD [] = g.gmeta := rfl
  rw [hm, node_phase_toTs g hc hall]
  simp only
  rw [edgeDicts_toDict, bulk_map]
  rw [edge_loop_toTs_ok g _ v hwf hc hall hna hv rfl rfl (tsNodes_hasNode g) (tsNodes_lagOf g hall)]
  rfl

/-- … it fails with `ValueError` when some name does not parse … -/
theorem toTs_fails_unparsable (g : Graph) (v : Bool) (hc : g.cls = .plain) (h : ¬ AllParse g) :
    (fromDict .ts (toDict true g) v).2 = some .valueError := by
  have hex : ∃ kv ∈ g.nodes.toList, (Name.parse kv.1).isSome = false := by
    unfold AllParse at h
    have : ∃ n, n ∈ g.nodes ∧ (Name.parse n).isSome = false := by
      apply Classical.byContradiction
      intro hc'
      apply h
      intro n hn
      cases hp : (Name.parse n).isSome with
      | true => rfl
      | false => exact absurd ⟨n, hn, hp⟩ hc'
    obtain ⟨n, hn, hp⟩ := this
    obtain ⟨r, hr⟩ := Option.isSome_iff_exists.mp (ExtTreeMap.mem_iff_isSome_getElem?.mp hn)
    exact ⟨(n, r), ExtTreeMap.mem_toList_iff_getElem?_eq_some.mpr hr, hp⟩
  have := (node_loop_toTs g g.nodes.toList _ (ninv_init g .ts g.gmeta)).2 hex
  unfold fromDict
  have hm : (toDict true g).md.getD [] = g.gmeta := rfl
  rw [hm, nodeDicts_toDict, bulk_map, hc]
  cases hb : bulk (fun g_1 x => addDNode GraphClass.ts g_1 (nodeDict GraphClass.plain true x.fst x.snd))
      (Graph.empty GraphClass.ts g.gmeta) g.nodes.toList with
  | mk g1 e =>
    rw [hb] at this
    simp only at this
    subst this
    rfl

/-- … and (validation off, as in `from_causal_graph`) with `ValueError` when a directed edge runs against time -/
theorem toTs_fails_against (g : Graph) (hwf : WF g) (hc : g.cls = .plain) (hall : AllParse g)
    (h : ¬ NoAgainstTime g) : (fromDict .ts (toDict true g) false).2 = some .valueError := by
  have hex : ∃ kv ∈ g.edges.toList, Against kv := by
    unfold NoAgainstTime at h
    apply Classical.byContradiction
    intro hc'
    apply h
    intro s d r hr ht
    apply Classical.byContradiction
    intro hlt
    exact hc' ⟨((s, d), r), ExtTreeMap.mem_toList_iff_getElem?_eq_some.mpr hr, ht, by simp only; omega⟩
  unfold fromDict
  have hm : (toDict true g).md.getD [] = g.gmeta := rfl
  rw [hm, node_phase_toTs g hc hall]
  simp only
  rw [edgeDicts_toDict, bulk_map]
  exact edge_loop_toTs_unvalidated g _ hwf hc hall (tsNodes_hasNode g) (tsNodes_lagOf g hall) _ _
    (tinv_init g _ rfl rfl) hex

/-- **C05 (4b), success criterion** (validation off): the conversion succeeds exactly when every name parses and no
    directed edge runs against time -/
theorem toTs_succeeds_iff (g : Graph) (hwf : WF g) (hc : g.cls = .plain) :
    (fromDict .ts (toDict true g) false).2 = none ↔ AllParse g ∧ NoAgainstTime g := by
  constructor
  · intro h
    have h1 : AllParse g := by
      apply Classical.byContradiction
      intro hn
      rw [toTs_fails_unparsable g false hc hn] at h
      cases h
    refine ⟨h1, ?_⟩
    apply Classical.byContradiction
    intro hn
    rw [toTs_fails_against g hwf hc h1 hn] at h
    cases h
  · rintro ⟨h1, h2⟩
    rw [toTs_preserves g false hwf hc h1 h2 (by intro h; cases h)]

/-- `TimeSeriesCausalGraph.from_causal_graph(g)` is the identity on a time-series graph and the unvalidated
    dictionary conversion on a plain one (the separation sets are copied separately and are not modelled) -/
theorem fromCausalGraph_eq (g : Graph) :
    fromCausalGraph g = if g.cls = .ts then (g, none) else fromDict .ts (toDict true g) false := by
  unfold fromCausalGraph
  cases g.cls <;> simp

theorem fromCausalGraph_plain (g : Graph) (hwf : WF g) (hc : g.cls = .plain) (hall : AllParse g)
    (hna : NoAgainstTime g) : fromCausalGraph g = (tsImage g, none) := by
  rw [fromCausalGraph_eq, hc]
  simp only [reduceCtorEq, if_false]
  exact toTs_preserves g false hwf hc hall hna (by intro h; cases h)

/-! ### what `tsImage` keeps -/

/-- re-orientation is injective on the edges of a well-formed graph -/
theorem tsKeys_distinct (g : Graph) (hwf : WF g) :
    (g.edges.toList.map (fun kv => (tsKey kv.1, kv.2))).Pairwise (fun a b => a.1 ≠ b.1) := by
  rw [List.pairwise_map]
  have h := distinct_toList g.edges
  refine (List.Pairwise.and_mem.mp h).imp ?_
  rintro ⟨k, r⟩ ⟨k', r'⟩ ⟨hk, hk', hne⟩ (e : tsKey k = tsKey k')
  have hm : k ∈ g.edges := mem_of_lookup _ _ _ (ExtTreeMap.mem_toList_iff_getElem?_eq_some.mp hk)
  have hm' : k' ∈ g.edges := mem_of_lookup _ _ _ (ExtTreeMap.mem_toList_iff_getElem?_eq_some.mp hk')
  rcases tsKey_cases k with h1 | h1 <;> rcases tsKey_cases k' with h2 | h2 <;> rw [h1, h2] at e
  · exact hne e
  · apply hwf.onePer k'.1 k'.2 hm'
    rw [← e]; exact hm
  · apply hwf.onePer k.1 k.2 hm
    rw [e]; exact hm'
  · apply hne
    exact Prod.ext (congrArg Prod.snd e) (congrArg Prod.fst e)

/-- every edge of `g` is present in `tsImage g` with its type and metadata: unchanged when its stored orientation
    respects time, swapped otherwise -/
theorem tsImage_edge (g : Graph) (hwf : WF g) (k : EKey) (r : EdgeRec) (h : g.edges[k]? = some r) :
    (tsImage g).edges[tsKey k]? = some r := by
  apply getElem?_insAll_of_mem _ _ _ _ (tsKeys_distinct g hwf)
  exact List.mem_map.mpr ⟨(k, r), ExtTreeMap.mem_toList_iff_getElem?_eq_some.mpr h, rfl⟩

/-- … and `tsImage g` holds nothing else -/
theorem tsImage_edge_inv (g : Graph) (hwf : WF g) (k : EKey) (r : EdgeRec) (h : (tsImage g).edges[k]? = some r) :
    ∃ k', g.edges[k']? = some r ∧ tsKey k' = k := by
  have := mem_of_getElem?_insAll _ k r (tsKeys_distinct g hwf) h
  obtain ⟨⟨k', r'⟩, hm, he⟩ := List.mem_map.mp this
  cases he
  exact ⟨k', ExtTreeMap.mem_toList_iff_getElem?_eq_some.mp hm, rfl⟩

/-- identifiers, variable types and user metadata (minus the two reserved keys) are preserved; variable and lag are
    what the identifier parses to -/
theorem tsImage_node (g : Graph) (n : String) :
    (tsImage g).nodes.keys = g.nodes.keys ∧
    (∀ r v l, g.nodes[n]? = some r → Name.parse n = some (v, l) →
      (tsImage g).nodes[n]? = some { vtype := r.vtype, md := r.md.tsStrip, var := v, lag := l }) := by
  refine ⟨by simp [tsImage, ExtTreeMap.keys_map], ?_⟩
  intro r v l hr hp
  simp [tsImage, ExtTreeMap.getElem?_map, hr, tsRec, hp]

/-! ### non-vacuity -/

/-- a plain graph whose only edge is stored against time (`X -- X lag(n=1)`), with a reserved key in user metadata -/
def exP : Graph :=
  { cls := .plain,
    nodes := insAll ∅ [("X lag(n=1)", { vtype := .binary, md := [("k", "1"), ("time_lag", "7")] }),
                       ("X", { vtype := .unspecified, md := [] })],
    edges := insAll ∅ [(("X", "X lag(n=1)"), { ty := .undirected, md := [("e", "1")] })],
    gmeta := [("g", "1")] }

theorem exP_wf : WF exP := by
  constructor
  · intro s d h
    simp only [exP, mem_insAll, List.mem_cons, List.mem_nil_iff, or_false, exists_eq_or_imp, exists_eq_left] at h ⊢
    simp at h ⊢
    obtain ⟨rfl, rfl⟩ := h
    simp
  · intro s h
    simp only [exP, mem_insAll, List.mem_cons, List.mem_nil_iff, or_false, exists_eq_or_imp, exists_eq_left] at h
    simp at h
    obtain ⟨rfl, h⟩ := h
    simp at h
  · intro s d h h'
    simp only [exP, mem_insAll, List.mem_cons, List.mem_nil_iff, or_false, exists_eq_or_imp, exists_eq_left] at h h'
    simp at h h'
    obtain ⟨rfl, rfl⟩ := h
    simp at h'
  · intro h; cases h
  · intro h; cases h

theorem exP_allParse : AllParse exP := by
  intro n hn
  simp only [exP, mem_insAll, List.mem_cons, List.mem_nil_iff, or_false, exists_eq_or_imp, exists_eq_left] at hn
  simp at hn
  rcases hn with rfl | rfl <;> decide

theorem exP_noAgainst : NoAgainstTime exP := by
  intro s d r hr ht
  have := mem_of_getElem?_insAll _ (s, d) r (by simp) hr
  simp only [List.mem_cons, Prod.mk.injEq, List.mem_nil_iff, or_false] at this
  obtain ⟨_, rfl⟩ := this
  cases ht

example : fromDict .ts (toDict true exP) false = (tsImage exP, none) :=
  toTs_preserves exP false exP_wf rfl exP_allParse exP_noAgainst (by intro h; cases h)

/-- its edge is stored the other way round afterwards -/
example : tsKey ("X", "X lag(n=1)") = ("X lag(n=1)", "X") := by decide

end CG.C05
