/-
C08: matrix / networkx / GML / skeleton interchange (and the constructor clause of C02).

Models in `CG/Model/Matrix.lean`.
-/
import CG.Proofs.Lemmas.ConvMaps
import CG.Model.Matrix

set_option linter.unusedSimpArgs false

namespace CG.C08
open CG CG.Mx CG.Conv Std

/-! ### matrices -/

/-- an `n × n` matrix -/
def Dim (n : Nat) (M : Mat) : Prop := M.length = n ∧ ∀ row ∈ M, row.length = n

theorem dim_zeros (n : Nat) : Dim n (zeros n n) := by
  constructor
  · simp [zeros]
  · intro row h
    simp [zeros] at h
    obtain ⟨_, rfl⟩ := h
    simp

theorem cell_zeros (n i j : Nat) : cell (zeros n n) i j = 0 := by
  unfold cell zeros
  by_cases hi : i < n
  · by_cases hj : j < n
    · simp [hi, hj]
    · simp [hi, hj]
  · simp [hi]

theorem dim_setCell (n : Nat) (M : Mat) (a b : Nat) (h : Dim n M) : Dim n (setCell M a b) := by
  unfold setCell
  split
  · rename_i row hrow
    constructor
    · simp [h.1]
    · intro r hr
      rcases List.mem_or_eq_of_mem_set hr with h' | h'
      · exact h.2 r h'
      · subst h'
        simp
        exact h.2 row (List.mem_of_getElem? hrow)
  · exact h

theorem cell_setCell (n : Nat) (M : Mat) (a b i j : Nat) (h : Dim n M) :
    cell (setCell M a b) i j = if a = i ∧ b = j ∧ a < n ∧ b < n then 1 else cell M i j := by
  unfold setCell
  split
  · rename_i row hrow
    have ha : a < M.length := by
      rcases List.getElem?_eq_some_iff.mp hrow with ⟨h', _⟩; exact h'
    have hrl : row.length = n := h.2 row (List.mem_of_getElem? hrow)
    unfold cell
    by_cases hai : a = i
    · subst hai
      simp only [List.getElem?_set, ha, if_true, Option.bind_some, hrow, true_and]
      by_cases hbj : b = j
      · subst hbj
        by_cases hb : b < n
        · simp [hb, hrl, h.1 ▸ ha]
        · have : ¬ (b < row.length) := by omega
          simp [hb, this]
      · simp [hbj]
    · simp [List.getElem?_set, hai]
  · rename_i hnone
    have : ¬ (a < n) := by
      rw [← h.1]
      intro hc
      have := List.getElem?_eq_none_iff.mp hnone
      omega
    simp [this]

/-! ### export: `adjacency_matrix` / `to_numpy` -/

/-- every edge is `->` or `--` -/
def OnlyDirUndir (g : Graph) : Prop := ∀ (k : EKey) (r : EdgeRec), g.edges[k]? = some r → r.ty = .directed ∨ r.ty = .undirected

theorem dirOrUndir_iff (t : EdgeType) : dirOrUndir t = true ↔ t = .directed ∨ t = .undirected := by
  cases t <;> simp [dirOrUndir]

/-- what one pass of the fill loop writes: entry `(i, j)` is hit by the edge `k` of type `t` -/
def Hits (names : List String) (k : EKey) (t : EdgeType) (i j : Nat) : Prop :=
  (t = .directed ∧ names.idxOf k.1 = i ∧ names.idxOf k.2 = j) ∨
  (t = .undirected ∧ ((names.idxOf k.1 = i ∧ names.idxOf k.2 = j) ∨ (names.idxOf k.2 = i ∧ names.idxOf k.1 = j)))

/-- the fill loop on a list of `->` / `--` edges never raises; afterwards an in-range entry is 1 exactly when it was 1
    before or one of the edges hits it, and every entry that was 0 or 1 still is -/
theorem adjFill_spec (names : List String) (l : List (EKey × EdgeRec)) :
    ∀ (M : Mat), Dim names.length M → (∀ kv ∈ l, dirOrUndir kv.2.ty = true) →
      ∃ M', adjFill names M l = .ok M' ∧ Dim names.length M' ∧
        ∀ i j, i < names.length → j < names.length →
          (cell M' i j = 1 ↔ cell M i j = 1 ∨ ∃ kv ∈ l, Hits names kv.1 kv.2.ty i j) ∧
          (cell M i j ≤ 1 → cell M' i j ≤ 1) := by
  induction l with
  | nil =>
    intro M hM _
    exact ⟨M, rfl, hM, fun i j _ _ => ⟨by simp, id⟩⟩
  | cons kv l ih =>
    intro M hM hall
    obtain ⟨k, r⟩ := kv
    have hk := (dirOrUndir_iff r.ty).mp (hall _ List.mem_cons_self)
    have hall' : ∀ kv ∈ l, dirOrUndir kv.2.ty = true := fun x hx => hall x (List.mem_cons_of_mem _ hx)
    rcases hk with hk | hk
    · obtain ⟨M', h1, h2, h3⟩ := ih (setCell M (names.idxOf k.1) (names.idxOf k.2)) (dim_setCell _ _ _ _ hM) hall'
      refine ⟨M', ?_, h2, ?_⟩
      · simp only [adjFill, hk]; exact h1
      · intro i j hi hj
        obtain ⟨h4, h5⟩ := h3 i j hi hj
        rw [cell_setCell _ _ _ _ _ _ hM] at h4 h5
        constructor
        · rw [h4]
          simp only [List.mem_cons, exists_eq_or_imp, Hits]
          constructor
          · rintro (h | h)
            · split at h
              · rename_i hc; exact .inr (.inl (.inl ⟨hk, hc.1, hc.2.1⟩))
              · exact .inl h
            · exact .inr (.inr h)
          · rintro (h | h | h)
            · left; split <;> simp [h]
            · rcases h with ⟨_, h1, h2⟩ | ⟨h, _⟩
              · left; subst h1 h2; simp [hi, hj]
              · rw [hk] at h; cases h
            · exact .inr h
        · intro h; apply h5; split <;> simp [h]
    · obtain ⟨M', h1, h2, h3⟩ := ih (setCell (setCell M (names.idxOf k.1) (names.idxOf k.2)) (names.idxOf k.2)
        (names.idxOf k.1)) (dim_setCell _ _ _ _ (dim_setCell _ _ _ _ hM)) hall'
      refine ⟨M', ?_, h2, ?_⟩
      · simp only [adjFill, hk]; exact h1
      · intro i j hi hj
        obtain ⟨h4, h5⟩ := h3 i j hi hj
        rw [cell_setCell _ _ _ _ _ _ (dim_setCell _ _ _ _ hM), cell_setCell _ _ _ _ _ _ hM] at h4 h5
        constructor
        · rw [h4]
          simp only [List.mem_cons, exists_eq_or_imp, Hits]
          constructor
          · rintro (h | h)
            · split at h
              · rename_i hc; exact .inr (.inl (.inr ⟨hk, .inr ⟨hc.1, hc.2.1⟩⟩))
              · split at h
                · rename_i hc; exact .inr (.inl (.inr ⟨hk, .inl ⟨hc.1, hc.2.1⟩⟩))
                · exact .inl h
            · exact .inr (.inr h)
          · rintro (h | h | h)
            · left; split; · rfl
              split <;> simp [h]
            · rcases h with ⟨h, _⟩ | ⟨_, ⟨h1, h2⟩ | ⟨h1, h2⟩⟩
              · rw [hk] at h; cases h
              · left; subst h1 h2; simp [hi, hj]
              · left; subst h1 h2; simp [hi, hj]
            · exact .inr h
        · intro h; apply h5; split; · simp
          split <;> simp [h]

/-- an undirected edge joins `a` and `b` (either stored orientation) -/
def UndirBetween (g : Graph) (a b : String) : Prop :=
  (∃ r, g.edges[(a, b)]? = some r ∧ r.ty = .undirected) ∨ (∃ r, g.edges[(b, a)]? = some r ∧ r.ty = .undirected)

theorem idxOf_eq_iff (names : List String) (hnd : names.Nodup) (a : String) (ha : a ∈ names) (i : Nat)
    (hi : i < names.length) : names.idxOf a = i ↔ a = names[i] := by
  constructor
  · intro h
    subst h
    exact (List.getElem_idxOf (List.idxOf_lt_length_of_mem ha)).symm
  · intro h
    subst h
    exact hnd.idxOf_getElem i hi

theorem all_dirOrUndir_of_any (g : Graph) (h : g.edges.toList.any (fun kv => !dirOrUndir kv.2.ty) = false) :
    ∀ kv ∈ g.edges.toList, dirOrUndir kv.2.ty = true := by
  intro kv hkv
  have := List.any_eq_false.mp h kv hkv
  simpa using this

theorem any_bad_iff (g : Graph) :
    g.edges.toList.any (fun kv => !dirOrUndir kv.2.ty) = true ↔
      ∃ (k : EKey) (r : EdgeRec), g.edges[k]? = some r ∧ r.ty ≠ .directed ∧ r.ty ≠ .undirected := by
  rw [List.any_eq_true]
  constructor
  · rintro ⟨⟨k, r⟩, h1, h2⟩
    refine ⟨k, r, ExtTreeMap.mem_toList_iff_getElem?_eq_some.mp h1, ?_⟩
    have : ¬ (dirOrUndir r.ty = true) := by simpa using h2
    rw [dirOrUndir_iff] at this
    exact ⟨fun h => this (.inl h), fun h => this (.inr h)⟩
  · rintro ⟨k, r, h1, h2, h3⟩
    refine ⟨(k, r), ExtTreeMap.mem_toList_iff_getElem?_eq_some.mpr h1, ?_⟩
    have : ¬ (dirOrUndir r.ty = true) := by
      rw [dirOrUndir_iff]; rintro (h | h); exact h2 h; exact h3 h
    simpa using this

/-- **C08 (1), entry law.**  When `to_numpy()` answers `(A, names)`: `names` are the sorted node names, `A` is
    `n × n` with entries 0 / 1, and `A[i][j] = 1` exactly when there is a directed edge `names[i] -> names[j]` or an
    undirected edge between them (either stored orientation) -/
theorem entry_law (g : Graph) (hwf : WF g) (A : Mat) (names : List String) (h : toNumpy g = .ok (A, names)) :
    names = g.nodes.keys ∧ Dim names.length A ∧
      ∀ (i j : Nat) (hi : i < names.length) (hj : j < names.length),
        (cell A i j = 1 ↔ DirRel g names[i] names[j] ∨ UndirBetween g names[i] names[j]) ∧ cell A i j ≤ 1 := by
  unfold toNumpy at h
  split at h
  · cases h
  · rename_i hany
    have hall := all_dirOrUndir_of_any g (by simpa using hany)
    obtain ⟨M', h1, h2, h3⟩ := adjFill_spec g.nodes.keys g.edges.toList _ (dim_zeros _) hall
    unfold adjacencyMatrix at h
    rw [h1] at h
    simp only [Except.map, Except.ok.injEq, Prod.mk.injEq] at h
    obtain ⟨rfl, rfl⟩ := h
    refine ⟨rfl, h2, ?_⟩
    intro i j hi hj
    obtain ⟨h4, h5⟩ := h3 i j hi hj
    refine ⟨?_, h5 (by rw [cell_zeros]; omega)⟩
    rw [h4, cell_zeros]
    have hnd : g.nodes.keys.Nodup := ExtTreeMap.nodup_keys
    have key : ∀ (s d : String), (s, d) ∈ g.edges →
        ((g.nodes.keys.idxOf s = i ↔ s = g.nodes.keys[i]) ∧ (g.nodes.keys.idxOf d = j ↔ d = g.nodes.keys[j]) ∧
         (g.nodes.keys.idxOf d = i ↔ d = g.nodes.keys[i]) ∧ (g.nodes.keys.idxOf s = j ↔ s = g.nodes.keys[j])) := by
      intro s d hmem
      obtain ⟨hs, hd⟩ := hwf.ends s d hmem
      have hs' := ExtTreeMap.mem_keys.mpr hs
      have hd' := ExtTreeMap.mem_keys.mpr hd
      exact ⟨idxOf_eq_iff _ hnd s hs' i hi, idxOf_eq_iff _ hnd d hd' j hj, idxOf_eq_iff _ hnd d hd' i hi,
        idxOf_eq_iff _ hnd s hs' j hj⟩
    constructor
    · rintro (h | ⟨⟨⟨s, d⟩, r⟩, hkv, hh⟩)
      · cases h
      · have hr : g.edges[(s, d)]? = some r := ExtTreeMap.mem_toList_iff_getElem?_eq_some.mp hkv
        have hmem : (s, d) ∈ g.edges := by rw [ExtTreeMap.mem_iff_isSome_getElem?, hr]; rfl
        obtain ⟨k1, k2, k3, k4⟩ := key s d hmem
        rcases hh with ⟨ht, e1, e2⟩ | ⟨ht, ⟨e1, e2⟩ | ⟨e1, e2⟩⟩
        · left
          rw [← k1.mp e1, ← k2.mp e2]
          exact ⟨r, hr, ht⟩
        · right; left
          rw [← k1.mp e1, ← k2.mp e2]
          exact ⟨r, hr, ht⟩
        · right; right
          rw [← k3.mp e1, ← k4.mp e2]
          exact ⟨r, hr, ht⟩
    · rintro (⟨r, hr, ht⟩ | ⟨r, hr, ht⟩ | ⟨r, hr, ht⟩)
      · right
        have hmem : (g.nodes.keys[i], g.nodes.keys[j]) ∈ g.edges := by
          rw [ExtTreeMap.mem_iff_isSome_getElem?, hr]; rfl
        obtain ⟨k1, k2, _, _⟩ := key _ _ hmem
        exact ⟨(_, r), ExtTreeMap.mem_toList_iff_getElem?_eq_some.mpr hr, .inl ⟨ht, k1.mpr rfl, k2.mpr rfl⟩⟩
      · right
        have hmem : (g.nodes.keys[i], g.nodes.keys[j]) ∈ g.edges := by
          rw [ExtTreeMap.mem_iff_isSome_getElem?, hr]; rfl
        obtain ⟨k1, k2, _, _⟩ := key _ _ hmem
        exact ⟨(_, r), ExtTreeMap.mem_toList_iff_getElem?_eq_some.mpr hr, .inr ⟨ht, .inl ⟨k1.mpr rfl, k2.mpr rfl⟩⟩⟩
      · right
        have hmem : (g.nodes.keys[j], g.nodes.keys[i]) ∈ g.edges := by
          rw [ExtTreeMap.mem_iff_isSome_getElem?, hr]; rfl
        obtain ⟨_, _, k3, k4⟩ := key _ _ hmem
        exact ⟨(_, r), ExtTreeMap.mem_toList_iff_getElem?_eq_some.mpr hr, .inr ⟨ht, .inr ⟨k3.mpr rfl, k4.mpr rfl⟩⟩⟩

/-! ### refusals: nothing is converted with an edge dropped or retyped -/

/-- **C08 (2a)** `to_numpy()` raises exactly when some edge is neither `->` nor `--`, and then it is `TypeError` -/
theorem toNumpy_refuses_iff (g : Graph) :
    ((∃ e, toNumpy g = .error e) ↔
      ∃ (k : EKey) (r : EdgeRec), g.edges[k]? = some r ∧ r.ty ≠ .directed ∧ r.ty ≠ .undirected) ∧
    (∀ e, toNumpy g = .error e → e = .typeError) := by
  unfold toNumpy
  cases hany : g.edges.toList.any (fun kv => !dirOrUndir kv.2.ty) with
  | true =>
    simp only [if_true]
    refine ⟨⟨fun _ => (any_bad_iff g).mp hany, fun _ => ⟨_, rfl⟩⟩, ?_⟩
    intro e h; cases h; rfl
  | false =>
    simp only [Bool.false_eq_true, if_false]
    obtain ⟨M', h1, _⟩ := adjFill_spec g.nodes.keys g.edges.toList _ (dim_zeros _) (all_dirOrUndir_of_any g hany)
    unfold adjacencyMatrix
    rw [h1]
    refine ⟨⟨?_, ?_⟩, ?_⟩
    · rintro ⟨e, he⟩; cases he
    · intro h
      have := (any_bad_iff g).mpr h
      rw [hany] at this; cases this
    · intro e he; cases he

theorem fullyDirected_iff (g : Graph) :
    isFullyDirected g = true ↔ ∀ (k : EKey) (r : EdgeRec), g.edges[k]? = some r → r.ty = .directed := by
  unfold isFullyDirected
  rw [List.all_eq_true]
  constructor
  · intro h k r hr
    simpa using h (k, r) (ExtTreeMap.mem_toList_iff_getElem?_eq_some.mpr hr)
  · rintro h ⟨k, r⟩ hkv
    simpa using h k r (ExtTreeMap.mem_toList_iff_getElem?_eq_some.mp hkv)

theorem fullyUndirected_iff (g : Graph) :
    isFullyUndirected g = true ↔ ∀ (k : EKey) (r : EdgeRec), g.edges[k]? = some r → r.ty = .undirected := by
  unfold isFullyUndirected
  rw [List.all_eq_true]
  constructor
  · intro h k r hr
    simpa using h (k, r) (ExtTreeMap.mem_toList_iff_getElem?_eq_some.mpr hr)
  · rintro h ⟨k, r⟩ hkv
    simpa using h k r (ExtTreeMap.mem_toList_iff_getElem?_eq_some.mp hkv)

/-- all edges directed / all edges undirected -/
def AllDirected (g : Graph) : Prop := ∀ (k : EKey) (r : EdgeRec), g.edges[k]? = some r → r.ty = .directed
def AllUndirected (g : Graph) : Prop := ∀ (k : EKey) (r : EdgeRec), g.edges[k]? = some r → r.ty = .undirected

/-- **C08 (2b)** `to_networkx()` raises exactly when the graph is neither fully directed nor fully undirected, and then
    it is `GraphConversionError` -/
theorem toNetworkx_refuses_iff (g : Graph) :
    ((∃ e, toNetworkx g = .error e) ↔ ¬ AllDirected g ∧ ¬ AllUndirected g) ∧
    (∀ e, toNetworkx g = .error e → e = .graphConversion) := by
  unfold toNetworkx AllDirected AllUndirected
  rw [← fullyDirected_iff, ← fullyUndirected_iff]
  cases isFullyDirected g <;> cases isFullyUndirected g <;> simp

/-- **C08 (2c)** a converted graph is converted faithfully: the networkx value has exactly the node names (isolated
    ones included) and exactly the stored pairs; a `DiGraph` is produced only from a fully directed graph (the graph
    without edges counts as such), a `Graph` only from a fully undirected one -/
theorem toNetworkx_faithful (g : Graph) (x : NX) (h : toNetworkx g = .ok x) :
    x.nodes = g.nodes.keys ∧ x.edges = g.edges.keys ∧ (x.directed = true → AllDirected g) ∧
      (x.directed = false → AllUndirected g) := by
  unfold toNetworkx at h
  unfold AllDirected AllUndirected
  rw [← fullyDirected_iff, ← fullyUndirected_iff]
  revert h
  cases hd : isFullyDirected g <;> cases hu : isFullyUndirected g <;> simp <;> rintro rfl <;> simp

/-- **C08 (2d)** `to_gml_string()` raises exactly when the graph is neither fully directed nor fully undirected (first
    test: some edge outside `->` / `--`; second test, inside `to_networkx`: a mixture of the two), always with
    `GraphConversionError`; otherwise the value written is the `to_networkx()` value -/
theorem toGml_refuses_iff (g : Graph) :
    ((∃ e, toGml g = .error e) ↔ ¬ AllDirected g ∧ ¬ AllUndirected g) ∧
    (∀ e, toGml g = .error e → e = .graphConversion) ∧
    (toGmlCheck g = some .graphConversion ↔
      ∃ (k : EKey) (r : EdgeRec), g.edges[k]? = some r ∧ r.ty ≠ .directed ∧ r.ty ≠ .undirected) ∧
    (∀ x, toGml g = .ok x → toNetworkx g = .ok x) := by
  have hnx := toNetworkx_refuses_iff g
  unfold toGml toGmlCheck
  cases hany : g.edges.toList.any (fun kv => !dirOrUndir kv.2.ty) with
  | true =>
    obtain ⟨k, r, hr, h1, h2⟩ := (any_bad_iff g).mp hany
    simp only [if_true]
    refine ⟨⟨fun _ => ⟨fun h => h1 (h k r hr), fun h => h2 (h k r hr)⟩, fun _ => ⟨_, rfl⟩⟩, ?_, ?_, ?_⟩
    · intro e h; cases h; rfl
    · exact ⟨fun _ => ⟨k, r, hr, h1, h2⟩, fun _ => trivial⟩
    · intro x h; cases h
  | false =>
    simp only [Bool.false_eq_true, if_false]
    refine ⟨hnx.1, hnx.2, ?_, fun x h => h⟩
    constructor
    · intro h; cases h
    · intro h
      have := (any_bad_iff g).mpr h
      rw [hany] at this; cases this

/-! ### malformed input is refused, for ALL inputs -/

theorem not_square_iff (rows : Mat) : isSquare rows = false ↔ ∃ r ∈ rows, r.length ≠ rows.length := by
  unfold isSquare
  rw [List.all_eq_false]
  simp

theorem not_binary_iff (rows : Mat) : isBinary rows = false ↔ ∃ r ∈ rows, ∃ x ∈ r, x ≠ 0 ∧ x ≠ 1 := by
  unfold isBinary
  rw [List.all_eq_false]
  constructor
  · rintro ⟨r, hr, h⟩
    have h' : r.all (fun x => decide (x ≤ 1)) = false := by simpa using h
    rw [List.all_eq_false] at h'
    obtain ⟨x, hx, hx'⟩ := h'
    refine ⟨r, hr, x, hx, ?_⟩
    have : ¬ x ≤ 1 := by simpa using hx'
    omega
  · rintro ⟨r, hr, x, hx, h0, h1⟩
    refine ⟨r, hr, ?_⟩
    have : r.all (fun x => decide (x ≤ 1)) = false := by
      rw [List.all_eq_false]
      exact ⟨x, hx, by simp; omega⟩
    simpa using this

/-- **C08 (4a)** an array that is not two-dimensional is refused (`InvalidAdjacencyMatrixError`) -/
theorem fromAdj_not2D (c : GraphClass) (a : Arr) (names? : Option (List String)) (v : Bool)
    (h : ∀ rows, a ≠ .d2 rows) : (fromAdjacencyArray c a names? v).2 = some .invalidAdjacency := by
  cases a with
  | d1 xs => rfl
  | d2 rows => exact absurd rfl (h rows)
  | d3 bs => rfl

/-- **C08 (4b)** a non-square matrix (some row whose length differs from the number of rows) is refused -/
theorem fromAdj_nonSquare (c : GraphClass) (rows : Mat) (names? : Option (List String)) (v : Bool)
    (h : ∃ r ∈ rows, r.length ≠ rows.length) : (fromAdjacencyMatrix c rows names? v).2 = some .invalidAdjacency := by
  have := (not_square_iff rows).mpr h
  simp [fromAdjacencyMatrix, this]

/-- **C08 (4c)** a matrix with an entry other than 0 / 1 is refused (whatever its shape: the shape test comes first
    and raises the same class) -/
theorem fromAdj_nonBinary (c : GraphClass) (rows : Mat) (names? : Option (List String)) (v : Bool)
    (h : ∃ r ∈ rows, ∃ x ∈ r, x ≠ 0 ∧ x ≠ 1) : (fromAdjacencyMatrix c rows names? v).2 = some .invalidAdjacency := by
  have := (not_binary_iff rows).mpr h
  unfold fromAdjacencyMatrix
  cases isSquare rows <;> simp [this]

/-- **C08 (4d)** a square binary matrix with the wrong number of names — fewer OR more — is refused (`AssertionError`) -/
theorem fromAdj_nameCount (c : GraphClass) (rows : Mat) (ns : List String) (v : Bool)
    (hs : isSquare rows = true) (hb : isBinary rows = true) (h : ns.length ≠ rows.length) :
    (fromAdjacencyMatrix c rows (some ns) v).2 = some .assertionError := by
  simp [fromAdjacencyMatrix, hs, hb, h]

/-- in every case a malformed input yields no graph: the three tests are decided before the first node is added -/
theorem fromAdj_malformed (c : GraphClass) (rows : Mat) (names? : Option (List String)) (v : Bool)
    (h : isSquare rows = false ∨ isBinary rows = false ∨ ∃ ns, names? = some ns ∧ ns.length ≠ rows.length) :
    ∃ e, (fromAdjacencyMatrix c rows names? v).2 = some e ∧ (e = .invalidAdjacency ∨ e = .assertionError) := by
  rcases h with h | h | ⟨ns, rfl, h⟩
  · exact ⟨_, fromAdj_nonSquare c rows names? v ((not_square_iff rows).mp h), .inl rfl⟩
  · exact ⟨_, fromAdj_nonBinary c rows names? v ((not_binary_iff rows).mp h), .inl rfl⟩
  · cases hs : isSquare rows with
    | false => exact ⟨_, fromAdj_nonSquare c rows _ v ((not_square_iff rows).mp hs), .inl rfl⟩
    | true =>
      cases hb : isBinary rows with
      | false => exact ⟨_, fromAdj_nonBinary c rows _ v ((not_binary_iff rows).mp hb), .inl rfl⟩
      | true => exact ⟨_, fromAdj_nameCount c rows ns v hs hb h, .inr rfl⟩

/-! ### constructors and C02: the deferred whole-graph validation -/

theorem bulk_inv {α : Type} (f : Graph → α → Except Err Graph) (P : Graph → Prop) (l : List α)
    (hstep : ∀ g x g', P g → x ∈ l → f g x = .ok g' → P g') :
    ∀ (g : Graph), P g → P (bulk f g l).1 := by
  induction l with
  | nil => intro g hg; exact hg
  | cons x l ih =>
    intro g hg
    simp only [bulk]
    cases hx : f g x with
    | ok g' =>
      exact ih (fun g x' g'' hp hx' => hstep g x' g'' hp (List.mem_cons_of_mem _ hx')) g'
        (hstep g x g' hg List.mem_cons_self hx)
    | error e => exact hg

theorem addNode_edges (g g' : Graph) (n : String) (vt : VType) (m : Meta) (h : addNode g n vt m = .ok g') :
    g'.edges = g.edges := by
  unfold addNode at h
  cases hm : mkNode g.cls n vt m with
  | error e => simp [hm, bind, Except.bind] at h
  | ok r =>
    simp only [hm, bind, Except.bind] at h
    split at h
    · cases h
    · cases h; rfl

theorem addNodeObj_edges (g g' : Graph) (n : String) (vt : VType) (m : Meta) (h : addNodeObj g n vt m = .ok g') :
    g'.edges = g.edges := by
  unfold addNodeObj at h
  split at h
  · cases h
  · cases hm : mkNode g.cls n vt m with
    | error e => simp [hm, bind, Except.bind] at h
    | ok r => simp only [hm, bind, Except.bind] at h; cases h; rfl

theorem ensureNode_edges (g g' : Graph) (e : Endpoint) (h : ensureNode g e = .ok g') : g'.edges = g.edges := by
  unfold ensureNode at h
  split at h
  · cases h; rfl
  · split at h
    · exact addNode_edges _ _ _ _ _ h
    · exact addNodeObj_edges _ _ _ _ _ h

/-- an accepted `add_edge(s, d)` adds exactly one key, `(s, d)` or (time-series swap) `(d, s)` -/
theorem addEdge_keys (g g' : Graph) (s d : String) (ty : EdgeType) (m : Meta) (v : Bool)
    (h : addEdge g s d ty m v = .ok g') : ∀ k, k ∈ g'.edges → k ∈ g.edges ∨ k = (s, d) ∨ k = (d, s) := by
  unfold addEdge addEdgeE at h
  simp only [bind, Except.bind] at h
  split at h
  · cases h
  · cases h1 : ensureNode g { id := s } with
    | error e => simp [h1] at h
    | ok g1 =>
      simp only [h1] at h
      cases h2 : ensureNode g1 { id := d } with
      | error e => simp [h2] at h
      | ok g2 =>
        simp only [h2] at h
        have he : g2.edges = g.edges := (ensureNode_edges _ _ _ h2).trans (ensureNode_edges _ _ _ h1)
        split at h
        · cases h
        · cases h3 : orient g2 s d ty with
          | error e => simp [h3] at h
          | ok sd =>
            simp only [h3] at h
            have hsd : sd = (s, d) ∨ sd = (d, s) := by
              unfold orient at h3
              split at h3
              · cases h3; exact .inl rfl
              · split at h3
                · split at h3
                  · cases h3; exact .inr rfl
                  · cases h3
                · cases h3; exact .inl rfl
            unfold setEdge at h
            split at h
            · cases h
            · split at h
              · cases h
              · dsimp only at h
                split at h
                · cases h
                · cases h
                  intro k hk
                  simp only [Graph.insEdge, ExtTreeMap.mem_insert, ekCmp_eq_iff] at hk
                  rcases hk with hk | hk
                  · right
                    rcases hsd with hsd | hsd <;> rw [hsd] at hk <;> simp at hk
                    · exact .inl hk.symm
                    · exact .inr hk.symm
                  · left; rw [← he]; exact hk

theorem mem_scanPairs (n : Nat) (p : Nat × Nat) (h : p ∈ scanPairs n) : p.1 < p.2 ∧ p.2 < n := by
  unfold scanPairs at h
  simp only [List.mem_flatMap, List.mem_range, List.mem_map, List.mem_filter, decide_eq_true_eq] at h
  obtain ⟨i, hi, j, ⟨hj, hij⟩, rfl⟩ := h
  exact ⟨hij, hj⟩

theorem getD_mem (names : List String) (i : Nat) (h : i < names.length) : names.getD i "" ∈ names := by
  rw [List.getD_eq_getElem?_getD, List.getElem?_eq_getElem h]
  simp

/-- every edge the scan builds joins two of the given names -/
theorem scan_ends (rows : Mat) (names : List String) (g1 : Graph) (he : g1.edges = ∅) :
    ∀ k, k ∈ (bulk (scanStep rows names) g1 (scanPairs names.length)).1.edges → k.1 ∈ names ∧ k.2 ∈ names := by
  refine bulk_inv (scanStep rows names) (fun g => ∀ k, k ∈ g.edges → k.1 ∈ names ∧ k.2 ∈ names) _ ?_ g1 ?_
  · intro g p g' hP hp hstep k hk
    obtain ⟨h1, h2⟩ := mem_scanPairs _ p hp
    have hi := getD_mem names p.1 (by omega)
    have hj := getD_mem names p.2 h2
    unfold scanStep at hstep
    simp only at hstep
    split at hstep
    · rcases addEdge_keys _ _ _ _ _ _ _ hstep k hk with h | h | h
      · exact hP k h
      · rw [h]; exact ⟨hi, hj⟩
      · rw [h]; exact ⟨hj, hi⟩
    · split at hstep
      · rcases addEdge_keys _ _ _ _ _ _ _ hstep k hk with h | h | h
        · exact hP k h
        · rw [h]; exact ⟨hj, hi⟩
        · rw [h]; exact ⟨hi, hj⟩
      · split at hstep
        · rcases addEdge_keys _ _ _ _ _ _ _ hstep k hk with h | h | h
          · exact hP k h
          · rw [h]; exact ⟨hi, hj⟩
          · rw [h]; exact ⟨hj, hi⟩
        · cases hstep; exact hP k hk
  · intro k hk; rw [he] at hk; simp at hk

theorem addNodesFrom_edges (names : List String) (g : Graph) : (addNodesFrom g names).1.edges = g.edges := by
  unfold addNodesFrom
  refine bulk_inv _ (fun g' => g'.edges = g.edges) names ?_ g rfl
  intro g1 x g2 hP _ h
  exact (addNode_edges _ _ _ _ _ h).trans hP

/-- the names the constructor works with -/
def namesOf (rows : Mat) (names? : Option (List String)) : List String := names?.getD (autoNames rows.length)

/-- the validated constructor is the unvalidated one followed by the node-by-node cycle test -/
theorem fromAdj_unfold (c : GraphClass) (rows : Mat) (names? : Option (List String)) (v : Bool) :
    fromAdjacencyMatrix c rows names? v =
      match fromAdjacencyMatrix c rows names? false with
      | (g, some e) => (g, some e)
      | (g, none) => if (v && anyOnCycle g (namesOf rows names?)) = true then (g, some .cyclicConnection) else (g, none) := by
  unfold fromAdjacencyMatrix namesOf
  cases isSquare rows <;> simp only [Bool.not_false, Bool.not_true, if_true, Bool.false_eq_true, if_false]
  cases isBinary rows <;> simp only [Bool.not_false, Bool.not_true, if_true, Bool.false_eq_true, if_false]
  cases names? with
  | none =>
    simp only [Option.getD_none]
    cases h1 : addNodesFrom (Graph.empty c) (autoNames rows.length) with
    | mk g1 e1 =>
      cases e1 with
      | some e => rfl
      | none =>
        simp only
        cases h2 : bulk (scanStep rows (autoNames rows.length)) g1 (scanPairs (autoNames rows.length).length) with
        | mk g2 e2 =>
          cases e2 with
          | some e => rfl
          | none => simp
  | some ns =>
    simp only [Option.getD_some]
    by_cases hl : ns.length = rows.length
    · simp only [if_pos hl]
      cases h1 : addNodesFrom (Graph.empty c) ns with
      | mk g1 e1 =>
        cases e1 with
        | some e => rfl
        | none =>
          simp only
          cases h2 : bulk (scanStep rows ns) g1 (scanPairs ns.length) with
          | mk g2 e2 =>
            cases e2 with
            | some e => rfl
            | none => simp
    · simp only [if_neg hl]

/-- every edge of an (unvalidated) constructed graph joins two of the names -/
theorem fromAdj_ends (c : GraphClass) (rows : Mat) (names? : Option (List String)) (g : Graph)
    (h : fromAdjacencyMatrix c rows names? false = (g, none)) :
    ∀ k, k ∈ g.edges → k.1 ∈ namesOf rows names? ∧ k.2 ∈ namesOf rows names? := by
  unfold fromAdjacencyMatrix at h
  unfold namesOf
  revert h
  cases isSquare rows <;> simp only [Bool.not_false, Bool.not_true, if_true, Bool.false_eq_true, if_false]
  · intro h; cases h
  cases isBinary rows <;> simp only [Bool.not_false, Bool.not_true, if_true, Bool.false_eq_true, if_false]
  · intro h; cases h
  have main : ∀ names : List String,
      (match addNodesFrom (Graph.empty c) names with
        | (g1, some e) => (g1, some e)
        | (g1, none) =>
          match bulk (scanStep rows names) g1 (scanPairs names.length) with
          | (g2, some e) => (g2, some e)
          | (g2, none) => if (false && anyOnCycle g2 names) = true then (g2, some Err.cyclicConnection) else (g2, none)) = (g, none) →
      ∀ k, k ∈ g.edges → k.1 ∈ names ∧ k.2 ∈ names := by
    intro names h
    have he := addNodesFrom_edges names (Graph.empty c)
    cases h1 : addNodesFrom (Graph.empty c) names with
    | mk g1 e1 =>
      rw [h1] at h he
      cases e1 with
      | some e => cases h
      | none =>
        simp only at h
        have hs := scan_ends rows names g1 (by rw [he]; rfl)
        cases h2 : bulk (scanStep rows names) g1 (scanPairs names.length) with
        | mk g2 e2 =>
          rw [h2] at h hs
          cases e2 with
          | some e => cases h
          | none =>
            simp only [Bool.false_and, Bool.false_eq_true, if_false] at h
            cases h
            exact hs
  cases names? with
  | none => simp only [Option.getD_none]; exact main _
  | some ns =>
    simp only [Option.getD_some]
    by_cases hl : ns.length = rows.length
    · simp only [if_pos hl]; exact main ns
    · simp only [if_neg hl]; intro h; cases h

/-- the node-by-node test over the constructor's names decides acyclicity of the whole graph -/
theorem anyOnCycle_iff (c : GraphClass) (rows : Mat) (names? : Option (List String)) (g : Graph)
    (h : fromAdjacencyMatrix c rows names? false = (g, none)) :
    anyOnCycle g (namesOf rows names?) = false ↔ AcyclicG g := by
  unfold anyOnCycle AcyclicG
  apply any_selfDepR_iff
  intro a b hab
  obtain ⟨r, hr, _⟩ := (mem_dirEdges g a b).mp hab
  have : (a, b) ∈ g.edges := by rw [ExtTreeMap.mem_iff_isSome_getElem?, hr]; rfl
  exact (fromAdj_ends c rows names? g h (a, b) this).1

/-- **C02 (4) / C08** a graph accepted by `from_adjacency_matrix(…, validate=True)` holds no directed cycle -/
theorem fromAdj_validated_acyclic (c : GraphClass) (rows : Mat) (names? : Option (List String)) (g : Graph)
    (h : fromAdjacencyMatrix c rows names? true = (g, none)) : AcyclicG g := by
  rw [fromAdj_unfold] at h
  cases h0 : fromAdjacencyMatrix c rows names? false with
  | mk g0 e0 =>
    rw [h0] at h
    cases e0 with
    | some e => cases h
    | none =>
      simp only [Bool.true_and] at h
      cases hc : anyOnCycle g0 (namesOf rows names?) with
      | true => rw [hc] at h; simp at h
      | false =>
        rw [hc] at h
        simp only [Bool.false_eq_true, if_false, Prod.mk.injEq, and_true] at h
        subst h
        exact (anyOnCycle_iff c rows names? g0 h0).mp hc

/-- … and conversely: whatever the unvalidated constructor builds, the validated one accepts it exactly when it is
    acyclic, and refuses it with `CyclicConnectionError` otherwise (no acyclic matrix is rejected, no cyclic one
    slips through — wherever the cycle sits) -/
theorem fromAdj_validated_iff (c : GraphClass) (rows : Mat) (names? : Option (List String)) (g : Graph)
    (h : fromAdjacencyMatrix c rows names? false = (g, none)) :
    (AcyclicG g → fromAdjacencyMatrix c rows names? true = (g, none)) ∧
    (¬ AcyclicG g → fromAdjacencyMatrix c rows names? true = (g, some .cyclicConnection)) := by
  rw [fromAdj_unfold, h]
  simp only [Bool.true_and]
  constructor
  · intro hac
    rw [(anyOnCycle_iff c rows names? g h).mpr hac]
    simp
  · intro hcyc
    cases hc : anyOnCycle g (namesOf rows names?) with
    | true => simp
    | false => exact absurd ((anyOnCycle_iff c rows names? g h).mp hc) hcyc

/-- the same two statements for `from_networkx` and `from_skeleton` (they go through the matrix) -/
theorem fromNetworkx_validated_acyclic (c : GraphClass) (x : NX) (g : Graph)
    (h : fromNetworkx c x true = (g, none)) : AcyclicG g :=
  fromAdj_validated_acyclic c _ _ g h

theorem fromSkeleton_validated_acyclic (c : GraphClass) (g0 g : Graph)
    (h : fromSkeleton c g0 true = (g, none)) : AcyclicG g :=
  fromNetworkx_validated_acyclic c _ g h

end CG.C08
