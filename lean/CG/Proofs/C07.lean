/-
C07 — equality is a structural equivalence relation.

`graphEq deep g h` is the transcription of `CausalGraph.__eq__` (`CG/Model/Eq.lean`), `Sk.skEq` of
`Skeleton.__eq__`, `nodeEq` / `edgeEq` of the node and edge methods.  For well-formed graphs of the same class:

* the comparison never raises (`graphEq_total`, for ALL graphs) although the code contains a lookup that can;
* it answers `True` exactly for the structural relation: same identifiers and, for every unordered pair, either
  no edge on both sides or edges of the same type that agree in stored orientation unless the type is one of
  `--`, `<>`, `oo` (`graphEq_iff`); deep: additionally equal variable types, node and edge metadata (`deep_iff`);
* hence reflexive, symmetric, transitive; `!=` is the negation; deep implies shallow; the answer is a function of
  the two maps (construction order cannot matter);
* the same statements for skeletons, nodes and edges.

The list of direction-agnostic types is generated from the source; `dontCare_eq` pins it.
-/
import CG.Proofs.Lemmas.Eq
import CG.Generated.DontCare
import CG.Proofs.Lemmas.Skeleton

namespace CG.C07
open CG CG.Sk Std

/-! ### the generated list -/

/-- If `Edge.__eq__`'s `dont_care_direction` list changes in the source, this obligation breaks the build. -/
theorem dontCare_eq :
    (∀ t ∈ EdgeType.all, (Generated.dontCareDirection.contains t.text) = dontCare.contains t) ∧
      Generated.dontCareDirection.all (fun s => (EdgeType.ofText? s).isSome) = true := by decide

/-! ### the structural relation -/

/-- two optional stored edges match: both absent, or same type and (symmetric type or same stored orientation) -/
def EdgeMatch : Option (EKey × EdgeRec) → Option (EKey × EdgeRec) → Prop
  | none, none => True
  | some x, some y => x.2.ty = y.2.ty ∧ (x.2.ty ∈ symTypes ∨ x.1 = y.1)
  | _, _ => False

theorem edgeMatchF_false (x y : Option (EKey × EdgeRec)) : EdgeMatchF false x y ↔ EdgeMatch x y := by
  cases x <;> cases y <;> simp [EdgeMatchF, EdgeMatch]

theorem edgeMatchF_true (x y : Option (EKey × EdgeRec)) : EdgeMatchF true x y ↔ (x.isSome = y.isSome) := by
  cases x <;> cases y <;> simp [EdgeMatchF, symTypes]

/-! ### graphs -/

/-- `CausalGraph.__eq__` never raises — for any two graphs, well-formed or not: once the two sets of unordered
    pairs are equal, the reversed-pair fallback always finds its edge. -/
theorem graphEq_total (deep : Bool) (g h : Graph) : ∃ b, graphEq deep g h = .ok b := by
  unfold graphEq
  split
  · exact ⟨_, rfl⟩
  split
  · exact ⟨_, rfl⟩
  split
  · exact ⟨_, rfl⟩
  next hnames =>
  split
  · exact ⟨_, rfl⟩
  next hpairs =>
  simp only [Bool.not_eq_true, Bool.not_eq_false'] at hnames hpairs
  have hnames' : ∀ x, x ∈ getNodeNames g ↔ x ∈ getNodeNames h := (setEqBy_beq_iff _ _).1 (by simpa using hnames)
  have hp1 : subsetBy upEq (getEdgePairs g) (getEdgePairs h) = true := by
    have : setEqBy upEq (getEdgePairs g) (getEdgePairs h) = true := by simpa using hpairs
    simp only [setEqBy, Bool.and_eq_true] at this
    exact this.1
  obtain ⟨b, hb⟩ := nodesLoop_total deep (getNodeV h) (nodeVs g) (by
    intro a ha
    simp only [nodeVs, getNodes, List.mem_map, Prod.exists] at ha
    obtain ⟨n, r, hnr, rfl⟩ := ha
    have hn : n ∈ getNodeNames g := by
      simp only [getNodeNames, ExtTreeMap.mem_keys]
      exact (mem_nodes_iff g n).2 ⟨r, (mem_nodeList_iff g n r).1 hnr⟩
    have hn' := (hnames' n).1 hn
    simp only [getNodeNames, ExtTreeMap.mem_keys] at hn'
    obtain ⟨r', hr'⟩ := (mem_nodes_iff h n).1 hn'
    exact ⟨_, (getNodeV_ok h n _).2 ⟨r', hr', rfl⟩⟩)
  rw [hb]
  cases b
  · exact ⟨_, rfl⟩
  · apply edgesLoop_total
    intro a ha
    simp only [edgeVs, getEdges_all, List.mem_map, Prod.exists] at ha
    obtain ⟨s, d, r, hkr, rfl⟩ := ha
    rw [otherEdge_graph]
    have hmem : (s, d) ∈ g.edges := (mem_edges_iff g (s, d)).2 ⟨r, (mem_edgeList_iff g (s, d) r).1 hkr⟩
    have := (edgeBetween_isSome h s d).2 ((subsetBy_upEq_keys g h).1 hp1 s d hmem)
    simp only [edgeV_src, edgeV_dst, nodeVOf_id]
    cases hq : edgeBetween h s d with
    | none => rw [hq] at this; cases this
    | some kv => exact ⟨_, rfl⟩

/-- the general form: `deep` and skeleton flag as parameters -/
theorem graphEq_iff_same (deep : Bool) {g h : Graph} (hg : WF g) (hh : WF h) (hc : g.cls = h.cls) :
    graphEq deep g h = .ok true ↔ Same deep false g h :=
  (graphEq_true_iff_checks deep hg hh hc).trans (checks_iff_same hg hh hc)

/-- **`g == h` exactly when the graphs have the same identifiers and matching edges.** -/
theorem graphEq_iff (g h : Graph) (hg : WF g) (hh : WF h) (hc : g.cls = h.cls) :
    graphEq false g h = .ok true ↔
      (∀ n : String, n ∈ g.nodes ↔ n ∈ h.nodes) ∧
      ∀ a b : String, EdgeMatch (edgeBetween g a b) (edgeBetween h a b) := by
  rw [graphEq_iff_same false hg hh hc]
  constructor
  · intro S
    exact ⟨S.names, fun a b => (edgeMatchF_false _ _).1 (S.edges a b)⟩
  · rintro ⟨h1, h2⟩
    exact ⟨h1, fun hd => Bool.noConfusion hd, fun a b => (edgeMatchF_false _ _).2 (h2 a b),
      fun hd => Bool.noConfusion hd⟩

/-- **deep equality: additionally equal variable types, node metadata and edge metadata** (an edge of a symmetric
    type stored the other way round is compared across the matching endpoints: its endpoints are nodes of the two
    graphs with the same identifier, which the node clause already covers). -/
theorem deep_iff (g h : Graph) (hg : WF g) (hh : WF h) (hc : g.cls = h.cls) :
    graphEq true g h = .ok true ↔
      (∀ n : String, n ∈ g.nodes ↔ n ∈ h.nodes) ∧
      (∀ (n : String) (r r' : NodeRec), g.nodes[n]? = some r → h.nodes[n]? = some r' →
        r.vtype = r'.vtype ∧ r.md = r'.md) ∧
      (∀ a b : String, EdgeMatch (edgeBetween g a b) (edgeBetween h a b)) ∧
      (∀ (a b : String) (p q : EKey × EdgeRec), edgeBetween g a b = some p → edgeBetween h a b = some q →
        p.2.md = q.2.md) := by
  rw [graphEq_iff_same true hg hh hc]
  constructor
  · intro S
    exact ⟨S.names, S.nodes rfl, fun a b => (edgeMatchF_false _ _).1 (S.edges a b), S.emeta rfl⟩
  · rintro ⟨h1, h2, h3, h4⟩
    exact ⟨h1, fun _ => h2, fun a b => (edgeMatchF_false _ _).2 (h3 a b), fun _ => h4⟩

/-! ### the structural relation is an equivalence relation -/

theorem edgeMatchF_refl (sk : Bool) (x : Option (EKey × EdgeRec)) : EdgeMatchF sk x x := by
  cases x <;> simp [EdgeMatchF]

theorem edgeMatchF_symm {sk : Bool} {x y : Option (EKey × EdgeRec)} (h : EdgeMatchF sk x y) : EdgeMatchF sk y x := by
  match x, y, h with
  | none, none, _ => trivial
  | none, some _, h => exact h.elim
  | some _, none, h => exact h.elim
  | some x, some y, ⟨h1, h2⟩ =>
    refine ⟨h1.symm, ?_⟩
    rcases h2 with h2 | h2
    · exact Or.inl (h1 ▸ h2)
    · exact Or.inr h2.symm

theorem edgeMatchF_trans {sk : Bool} {x y z : Option (EKey × EdgeRec)} (h : EdgeMatchF sk x y)
    (h' : EdgeMatchF sk y z) : EdgeMatchF sk x z := by
  match x, y, z, h, h' with
  | none, none, none, _, _ => trivial
  | none, none, some _, _, h' => exact h'.elim
  | none, some _, _, h, _ => exact h.elim
  | some _, none, _, h, _ => exact h.elim
  | some _, some _, none, _, h' => exact h'.elim
  | some x, some y, some z, ⟨h1, h2⟩, ⟨h3, h4⟩ =>
    refine ⟨h1.trans h3, ?_⟩
    rcases h2 with h2 | h2
    · exact Or.inl h2
    · rcases h4 with h4 | h4
      · exact Or.inl (h1 ▸ h4)
      · exact Or.inr (h2.trans h4)

theorem same_refl (deep sk : Bool) (g : Graph) : Same deep sk g g :=
  ⟨fun _ => Iff.rfl,
   fun _ n r r' h1 h2 => by rw [h1] at h2; cases h2; exact ⟨rfl, rfl⟩,
   fun _ _ => edgeMatchF_refl _ _,
   fun _ a b p q h1 h2 => by rw [h1] at h2; cases h2; rfl⟩

theorem same_symm {deep sk : Bool} {g h : Graph} (S : Same deep sk g h) : Same deep sk h g :=
  ⟨fun n => (S.names n).symm,
   fun hd n r r' h1 h2 => let ⟨a, b⟩ := S.nodes hd n r' r h2 h1; ⟨a.symm, b.symm⟩,
   fun a b => edgeMatchF_symm (S.edges a b),
   fun hd a b p q h1 h2 => (S.emeta hd a b q p h2 h1).symm⟩

theorem same_trans {deep sk : Bool} {g h k : Graph} (S : Same deep sk g h) (T : Same deep sk h k) :
    Same deep sk g k := by
  refine ⟨fun n => (S.names n).trans (T.names n), ?_, fun a b => edgeMatchF_trans (S.edges a b) (T.edges a b), ?_⟩
  · intro hd n r r'' h1 h3
    obtain ⟨r', h2⟩ := (mem_nodes_iff h n).1 ((S.names n).1 ((mem_nodes_iff g n).2 ⟨r, h1⟩))
    obtain ⟨a, b⟩ := S.nodes hd n r r' h1 h2
    obtain ⟨c, d⟩ := T.nodes hd n r' r'' h2 h3
    exact ⟨a.trans c, b.trans d⟩
  · intro hd a b p q h1 h3
    have := S.edges a b
    rw [h1] at this
    cases h2 : edgeBetween h a b with
    | none => rw [h2] at this; exact this.elim
    | some m => exact (S.emeta hd a b p m h1 h2).trans (T.emeta hd a b m q h2 h3)

theorem same_deep_to_shallow {sk : Bool} {g h : Graph} (S : Same true sk g h) : Same false sk g h :=
  ⟨S.names, fun hd => Bool.noConfusion hd, S.edges, fun hd => Bool.noConfusion hd⟩

/-! ### consequences for graphs -/

/-- reflexive (shallow and deep) -/
theorem graphEq_refl (deep : Bool) (g : Graph) (hg : WF g) : graphEq deep g g = .ok true :=
  (graphEq_iff_same deep hg hg rfl).2 (same_refl deep false g)

/-- symmetric: the two argument orders give the same answer (shallow and deep) -/
theorem graphEq_symm (deep : Bool) (g h : Graph) (hg : WF g) (hh : WF h) (hc : g.cls = h.cls) :
    graphEq deep g h = graphEq deep h g := by
  obtain ⟨b1, h1⟩ := graphEq_total deep g h
  obtain ⟨b2, h2⟩ := graphEq_total deep h g
  have : b1 = true ↔ b2 = true := by
    constructor
    · intro e; subst e
      have := (graphEq_iff_same deep hh hg hc.symm).2 (same_symm ((graphEq_iff_same deep hg hh hc).1 h1))
      rw [h2] at this; cases this; rfl
    · intro e; subst e
      have := (graphEq_iff_same deep hg hh hc).2 (same_symm ((graphEq_iff_same deep hh hg hc.symm).1 h2))
      rw [h1] at this; cases this; rfl
  rw [h1, h2]
  cases b1 <;> cases b2 <;> simp_all

/-- transitive (shallow and deep) -/
theorem graphEq_trans (deep : Bool) (g h k : Graph) (hg : WF g) (hh : WF h) (hk : WF k) (hc : g.cls = h.cls)
    (hc' : h.cls = k.cls) (h1 : graphEq deep g h = .ok true) (h2 : graphEq deep h k = .ok true) :
    graphEq deep g k = .ok true :=
  (graphEq_iff_same deep hg hk (hc.trans hc')).2
    (same_trans ((graphEq_iff_same deep hg hh hc).1 h1) ((graphEq_iff_same deep hh hk hc').1 h2))

/-- deep equality implies shallow equality -/
theorem deep_implies_shallow (g h : Graph) (hg : WF g) (hh : WF h) (hc : g.cls = h.cls)
    (h1 : graphEq true g h = .ok true) : graphEq false g h = .ok true :=
  (graphEq_iff_same false hg hh hc).2 (same_deep_to_shallow ((graphEq_iff_same true hg hh hc).1 h1))

/-- `!=` is the negation of `==`; for graphs of one class the operators are the method calls -/
theorem graphNe_eq_not (g h : Graph) (hc : g.cls = h.cls) :
    ∃ b, graphEq false g h = .ok b ∧ graphEqOp g h = .ok b ∧ graphNe g h = .ok (!b) ∧ graphNeOp g h = .ok (!b) := by
  obtain ⟨b, hb⟩ := graphEq_total false g h
  have e1 : graphEqOp g h = graphEq false g h := by
    unfold graphEqOp; rw [hc]; cases h.cls <;> rfl
  have e2 : graphNe g h = .ok (!b) := by unfold graphNe; rw [e1, hb]
  have e3 : graphNeOp g h = graphNe g h := by
    unfold graphNeOp; rw [hc]; cases h.cls <;> rfl
  exact ⟨b, hb, e1 ▸ hb, e2, e3 ▸ e2⟩

/-- graphs of different classes: `==` is `False` and `!=` is `True`, whichever side the subclass instance is on
    (the method call `plain.__eq__(ts)` is another matter: it passes the class test, see `CG/Model/Eq.lean`) -/
theorem graphEqOp_cross (g h : Graph) (hc : g.cls ≠ h.cls) :
    graphEqOp g h = .ok false ∧ graphNeOp g h = .ok true := by
  have key : ∀ x y : Graph, x.cls = .ts → y.cls = .plain → graphEq false x y = .ok false := by
    intro x y hx hy
    simp [graphEq, isInstanceOfClassOf, hx, hy]
  cases hg : g.cls <;> cases hh : h.cls <;> simp_all [graphEqOp, graphNeOp, graphNe]

/-- the answer depends only on the class and the two maps of each graph — two constructions of the same content,
    in any order, are the same `Graph` value (the maps are extensional) and graph-level metadata is never read -/
theorem graphEq_fun (deep : Bool) (g g' h h' : Graph) (hc : g.cls = g'.cls) (hc' : h.cls = h'.cls)
    (hn : ∀ n : String, g.nodes[n]? = g'.nodes[n]?) (he : ∀ k : EKey, g.edges[k]? = g'.edges[k]?)
    (hn' : ∀ n : String, h.nodes[n]? = h'.nodes[n]?) (he' : ∀ k : EKey, h.edges[k]? = h'.edges[k]?) :
    graphEq deep g h = graphEq deep g' h' := by
  obtain ⟨c1, n1, e1, m1⟩ := g
  obtain ⟨c2, n2, e2, m2⟩ := g'
  obtain ⟨c3, n3, e3, m3⟩ := h
  obtain ⟨c4, n4, e4, m4⟩ := h'
  simp only at hc hc' hn he hn' he'
  have x1 : n1 = n2 := ExtTreeMap.ext_getElem? hn
  have x2 : e1 = e2 := ExtTreeMap.ext_getElem? he
  have x3 : n3 = n4 := ExtTreeMap.ext_getElem? hn'
  have x4 : e3 = e4 := ExtTreeMap.ext_getElem? he'
  subst hc hc' x1 x2 x3 x4
  rfl

/-! ### skeletons -/

/-- two nodes are adjacent: an edge of any type is stored between them, in either orientation -/
def Adj (g : Graph) (a b : String) : Prop := (a, b) ∈ g.edges ∨ (b, a) ∈ g.edges

theorem isSome_eq_iff_adj (g h : Graph) (a b : String) :
    ((edgeBetween g a b).isSome = (edgeBetween h a b).isSome) ↔ (Adj g a b ↔ Adj h a b) := by
  rw [Bool.eq_iff_iff, edgeBetween_isSome, edgeBetween_isSome]; rfl

/-- `Skeleton.__eq__` never raises (well-formed graphs: the skeleton's `get_edge` asserts that at most one edge
    matches the unordered pair) -/
theorem skEq_total (deep : Bool) (g h : Graph) (hg : WF g) (hh : WF h) : ∃ b, skEq deep g h = .ok b :=
  skEq_total' deep hg hh

theorem skEq_iff_same (deep : Bool) {g h : Graph} (hg : WF g) (hh : WF h) (hc : g.cls = h.cls) :
    skEq deep g h = .ok true ↔ Same deep true g h :=
  (skEq_true_iff_checks deep hg hh).trans (checks_iff_same hg hh hc)

/-- skeletons are equal exactly when the graphs have the same identifiers and the same adjacent pairs -/
theorem skEq_iff (g h : Graph) (hg : WF g) (hh : WF h) (hc : g.cls = h.cls) :
    skEq false g h = .ok true ↔
      (∀ n : String, n ∈ g.nodes ↔ n ∈ h.nodes) ∧ ∀ a b : String, Adj g a b ↔ Adj h a b := by
  rw [skEq_iff_same false hg hh hc]
  constructor
  · intro S
    exact ⟨S.names, fun a b => (isSome_eq_iff_adj g h a b).1 ((edgeMatchF_true _ _).1 (S.edges a b))⟩
  · rintro ⟨h1, h2⟩
    exact ⟨h1, fun hd => Bool.noConfusion hd,
      fun a b => (edgeMatchF_true _ _).2 ((isSome_eq_iff_adj g h a b).2 (h2 a b)), fun hd => Bool.noConfusion hd⟩

/-- deep skeleton equality: additionally equal variable types, node metadata and edge metadata -/
theorem skEq_deep_iff (g h : Graph) (hg : WF g) (hh : WF h) (hc : g.cls = h.cls) :
    skEq true g h = .ok true ↔
      (∀ n : String, n ∈ g.nodes ↔ n ∈ h.nodes) ∧
      (∀ (n : String) (r r' : NodeRec), g.nodes[n]? = some r → h.nodes[n]? = some r' →
        r.vtype = r'.vtype ∧ r.md = r'.md) ∧
      (∀ a b : String, Adj g a b ↔ Adj h a b) ∧
      (∀ (a b : String) (p q : EKey × EdgeRec), edgeBetween g a b = some p → edgeBetween h a b = some q →
        p.2.md = q.2.md) := by
  rw [skEq_iff_same true hg hh hc]
  constructor
  · intro S
    exact ⟨S.names, S.nodes rfl,
      fun a b => (isSome_eq_iff_adj g h a b).1 ((edgeMatchF_true _ _).1 (S.edges a b)), S.emeta rfl⟩
  · rintro ⟨h1, h2, h3, h4⟩
    exact ⟨h1, fun _ => h2, fun a b => (edgeMatchF_true _ _).2 ((isSome_eq_iff_adj g h a b).2 (h3 a b)), fun _ => h4⟩

theorem skEq_refl (deep : Bool) (g : Graph) (hg : WF g) : skEq deep g g = .ok true :=
  (skEq_iff_same deep hg hg rfl).2 (same_refl deep true g)

theorem skEq_symm (deep : Bool) (g h : Graph) (hg : WF g) (hh : WF h) (hc : g.cls = h.cls) :
    skEq deep g h = skEq deep h g := by
  obtain ⟨b1, h1⟩ := skEq_total deep g h hg hh
  obtain ⟨b2, h2⟩ := skEq_total deep h g hh hg
  have : b1 = true ↔ b2 = true := by
    constructor
    · intro e; subst e
      have := (skEq_iff_same deep hh hg hc.symm).2 (same_symm ((skEq_iff_same deep hg hh hc).1 h1))
      rw [h2] at this; cases this; rfl
    · intro e; subst e
      have := (skEq_iff_same deep hg hh hc).2 (same_symm ((skEq_iff_same deep hh hg hc.symm).1 h2))
      rw [h1] at this; cases this; rfl
  rw [h1, h2]
  cases b1 <;> cases b2 <;> simp_all

theorem skEq_trans (deep : Bool) (g h k : Graph) (hg : WF g) (hh : WF h) (hk : WF k) (hc : g.cls = h.cls)
    (hc' : h.cls = k.cls) (h1 : skEq deep g h = .ok true) (h2 : skEq deep h k = .ok true) :
    skEq deep g k = .ok true :=
  (skEq_iff_same deep hg hk (hc.trans hc')).2
    (same_trans ((skEq_iff_same deep hg hh hc).1 h1) ((skEq_iff_same deep hh hk hc').1 h2))

theorem skNe_eq_not (g h : Graph) (hg : WF g) (hh : WF h) :
    ∃ b, skEq false g h = .ok b ∧ skNe g h = .ok (!b) := by
  obtain ⟨b, hb⟩ := skEq_total false g h hg hh
  exact ⟨b, hb, by unfold skNe; rw [hb]⟩

theorem skEq_deep_implies_shallow (g h : Graph) (hg : WF g) (hh : WF h) (hc : g.cls = h.cls)
    (h1 : skEq true g h = .ok true) : skEq false g h = .ok true :=
  (skEq_iff_same false hg hh hc).2 (same_deep_to_shallow ((skEq_iff_same true hg hh hc).1 h1))

/-- equal graphs have equal skeletons (shallow and deep) -/
theorem skEq_of_graphEq (deep : Bool) (g h : Graph) (hg : WF g) (hh : WF h) (hc : g.cls = h.cls)
    (h1 : graphEq deep g h = .ok true) : skEq deep g h = .ok true := by
  have S := (graphEq_iff_same deep hg hh hc).1 h1
  refine (skEq_iff_same deep hg hh hc).2 ⟨S.names, S.nodes, ?_, S.emeta⟩
  intro a b
  have := S.edges a b
  rw [edgeMatchF_true]
  cases hp : edgeBetween g a b <;> cases hq : edgeBetween h a b <;> simp_all [EdgeMatchF]

/-! ### nodes -/

/-- shallow node equality (same node class) is equality of identifiers; the time-series class also compares
    variable and lag, which are functions of the identifier (`NodeOk`, part of `WF`) -/
theorem nodeEq_iff (a b : NodeV) (hc : a.cls = b.cls) (ha : NodeOk a.cls a.id a.r) (hb : NodeOk b.cls b.id b.r) :
    nodeEq false a b = true ↔ a.id = b.id := by
  rw [nodeEq_shallow_iff a b hc]
  constructor
  · exact fun h => h.1
  · intro e
    refine ⟨e, fun hts => ?_⟩
    have h1 := ha hts
    have h2 := hb (hc ▸ hts)
    rw [e] at h1
    simpa using h1.symm.trans h2

/-- deep node equality: identifier, variable type and metadata -/
theorem nodeEq_deep_iff (a b : NodeV) (hc : a.cls = b.cls) (ha : NodeOk a.cls a.id a.r)
    (hb : NodeOk b.cls b.id b.r) :
    nodeEq true a b = true ↔ a.id = b.id ∧ a.r.vtype = b.r.vtype ∧ a.r.md = b.r.md := by
  rw [nodeEq_deep_iff' a b hc]
  constructor
  · exact fun h => ⟨h.1, h.2.1, h.2.2.1⟩
  · rintro ⟨e, h1, h2⟩
    refine ⟨e, h1, h2, fun hts => ?_⟩
    have h3 := ha hts
    have h4 := hb (hc ▸ hts)
    rw [e] at h3
    simpa using h3.symm.trans h4

theorem nodeEq_refl (deep : Bool) (a : NodeV) : nodeEq deep a a = true := by
  obtain ⟨c, i, r⟩ := a
  cases c <;> cases deep <;> simp [nodeEq, nodeEqBase, nodeMetaEq]

theorem nodeEq_symm (deep : Bool) (a b : NodeV) (hc : a.cls = b.cls) : nodeEq deep a b = nodeEq deep b a := by
  rw [Bool.eq_iff_iff]
  cases deep
  · rw [nodeEq_shallow_iff a b hc, nodeEq_shallow_iff b a hc.symm, hc]
    constructor <;> rintro ⟨h1, h2⟩ <;> exact ⟨h1.symm, fun x => let ⟨p, q⟩ := h2 x; ⟨p.symm, q.symm⟩⟩
  · rw [nodeEq_deep_iff' a b hc, nodeEq_deep_iff' b a hc.symm, hc]
    constructor <;> rintro ⟨h1, h2, h3, h4⟩ <;>
      exact ⟨h1.symm, h2.symm, h3.symm, fun x => let ⟨p, q⟩ := h4 x; ⟨p.symm, q.symm⟩⟩

theorem nodeEq_trans (deep : Bool) (a b c : NodeV) (hc : a.cls = b.cls) (hc' : b.cls = c.cls)
    (h1 : nodeEq deep a b = true) (h2 : nodeEq deep b c = true) : nodeEq deep a c = true := by
  cases deep
  · rw [nodeEq_shallow_iff _ _ hc] at h1
    rw [nodeEq_shallow_iff _ _ hc'] at h2
    rw [nodeEq_shallow_iff _ _ (hc.trans hc')]
    exact ⟨h1.1.trans h2.1, fun x =>
      let ⟨p, q⟩ := h1.2 x; let ⟨p', q'⟩ := h2.2 (hc ▸ x); ⟨p.trans p', q.trans q'⟩⟩
  · rw [nodeEq_deep_iff' _ _ hc] at h1
    rw [nodeEq_deep_iff' _ _ hc'] at h2
    rw [nodeEq_deep_iff' _ _ (hc.trans hc')]
    exact ⟨h1.1.trans h2.1, h1.2.1.trans h2.2.1, h1.2.2.1.trans h2.2.2.1, fun x =>
      let ⟨p, q⟩ := h1.2.2.2 x; let ⟨p', q'⟩ := h2.2.2.2 (hc ▸ x); ⟨p.trans p', q.trans q'⟩⟩

/-- `!=` on nodes is the negation of `==`, and for nodes of one class `==` is the method call -/
theorem nodeNe_eq_not (a b : NodeV) (hc : a.cls = b.cls) :
    nodeEqOp a b = nodeEq false a b ∧ nodeNe a b = !nodeEq false a b := by
  have : nodeEqOp a b = nodeEq false a b := by
    unfold nodeEqOp; rw [hc]; cases b.cls <;> rfl
  exact ⟨this, by unfold nodeNe; rw [this]⟩

theorem nodeEq_deep_implies_shallow (a b : NodeV) (h : nodeEq true a b = true) : nodeEq false a b = true := by
  obtain ⟨ca, ia, ra⟩ := a
  obtain ⟨cb, ib, rb⟩ := b
  cases ca <;> cases cb <;> simp_all [nodeEq, nodeEqBase]

/-! ### edges -/

/-- shallow edge equality: same type, and the same pair — or the reversed pair when the type is symmetric -/
theorem edgeEq_iff (a b : EdgeV) :
    edgeEq false a b = true ↔
      a.ty = b.ty ∧ (a.pair = b.pair ∨ (a.pair = (b.pair.2, b.pair.1) ∧ a.ty ∈ symTypes)) := by
  rw [edgeEq_shallow, edgePairPart_iff]

/-- deep edge equality of an edge that is not a self-loop: same type, same metadata, and deeply equal endpoint
    nodes — across the matching endpoints when a symmetric type is stored the other way round -/
theorem edgeEq_deep_iff (a b : EdgeV) (hla : a.src.id ≠ a.dst.id) :
    edgeEq true a b = true ↔
      a.ty = b.ty ∧ a.md = b.md ∧
      ((nodeEq true a.src b.src = true ∧ nodeEq true a.dst b.dst = true) ∨
       (a.ty ∈ symTypes ∧ nodeEq true a.src b.dst = true ∧ nodeEq true a.dst b.src = true)) := by
  rw [edgeEq_deep_iff', edgePairPart_iff]
  have hpair : ∀ x y : EdgeV, x.pair = y.pair ↔ (x.src.id = y.src.id ∧ x.dst.id = y.dst.id) := by
    intro x y; simp [EdgeV.pair]
  have hflip : ∀ x y : EdgeV, x.pair = (y.pair.2, y.pair.1) ↔ (x.src.id = y.dst.id ∧ x.dst.id = y.src.id) := by
    intro x y; simp [EdgeV.pair]
  rw [hpair, hflip]
  constructor
  · rintro ⟨hn, hm, hty, hp⟩
    refine ⟨hty, hm, ?_⟩
    unfold edgeDeepNodesOk at hn
    rcases hp with ⟨p1, p2⟩ | ⟨⟨p1, p2⟩, hs⟩
    · left
      have x1 : nodeEq true a.src b.dst = false := nodeEq_false_of_ne (fun e => hla (e.trans p2.symm))
      have x2 : nodeEq true a.dst b.src = false := nodeEq_false_of_ne (fun e => hla (p1.trans e.symm))
      by_cases c1 : nodeEq true a.src b.src = true <;> by_cases c2 : nodeEq true a.dst b.dst = true <;>
        simp_all
    · right
      have x1 : nodeEq true a.src b.src = false := nodeEq_false_of_ne (fun e => hla (e.trans p2.symm))
      have x2 : nodeEq true a.dst b.dst = false := nodeEq_false_of_ne (fun e => hla (p1.trans e.symm))
      have hc : dontCare.contains a.ty = true := (dontCare_contains _).2 hs
      refine ⟨hs, ?_⟩
      by_cases c1 : nodeEq true a.src b.dst = true <;> by_cases c2 : nodeEq true a.dst b.src = true <;>
        simp_all
  · rintro ⟨hty, hm, ⟨n1, n2⟩ | ⟨hs, n1, n2⟩⟩
    · refine ⟨?_, hm, hty, Or.inl ⟨nodeEq_id n1, nodeEq_id n2⟩⟩
      simp [edgeDeepNodesOk, n1, n2]
    · have p1 := nodeEq_id n1
      have p2 := nodeEq_id n2
      refine ⟨?_, hm, hty, Or.inr ⟨⟨p1, p2⟩, hs⟩⟩
      simp [edgeDeepNodesOk, n1, n2, hty]
      rw [← hty, dontCare_types]; exact Or.inl hs

theorem edgeEq_refl (deep : Bool) (a : EdgeV) : edgeEq deep a a = true := by
  cases deep
  · rw [edgeEq_iff]; exact ⟨rfl, Or.inl rfl⟩
  · rw [edgeEq_deep_iff', edgePairPart_iff]
    refine ⟨?_, rfl, rfl, Or.inl rfl⟩
    simp [edgeDeepNodesOk, nodeEq_refl]

/-- shallow edge equality is symmetric -/
theorem edgeEq_symm (a b : EdgeV) : edgeEq false a b = edgeEq false b a := by
  rw [Bool.eq_iff_iff, edgeEq_iff, edgeEq_iff]
  have flip : ∀ x y : EdgeV, x.pair = (y.pair.2, y.pair.1) ↔ y.pair = (x.pair.2, x.pair.1) := by
    intro x y
    constructor <;> intro h <;> rw [h]
  constructor
  · rintro ⟨h1, h2 | ⟨h2, h3⟩⟩
    · exact ⟨h1.symm, Or.inl h2.symm⟩
    · exact ⟨h1.symm, Or.inr ⟨(flip a b).1 h2, h1 ▸ h3⟩⟩
  · rintro ⟨h1, h2 | ⟨h2, h3⟩⟩
    · exact ⟨h1.symm, Or.inl h2.symm⟩
    · exact ⟨h1.symm, Or.inr ⟨(flip b a).1 h2, h1 ▸ h3⟩⟩

/-- shallow edge equality is transitive -/
theorem edgeEq_trans (a b c : EdgeV) (h1 : edgeEq false a b = true) (h2 : edgeEq false b c = true) :
    edgeEq false a c = true := by
  rw [edgeEq_iff] at h1 h2 ⊢
  obtain ⟨t1, p1⟩ := h1
  obtain ⟨t2, p2⟩ := h2
  refine ⟨t1.trans t2, ?_⟩
  rcases p1 with p1 | ⟨p1, s1⟩
  · rcases p2 with p2 | ⟨p2, s2⟩
    · exact Or.inl (p1.trans p2)
    · exact Or.inr ⟨p1.trans p2, t1 ▸ s2⟩
  · rcases p2 with p2 | ⟨p2, s2⟩
    · exact Or.inr ⟨by rw [p1, p2], s1⟩
    · exact Or.inl (by rw [p1, p2])

/-- all four endpoint nodes are of one node class -/
def EdgeOfClass (c : GraphClass) (e : EdgeV) : Prop := e.src.cls = c ∧ e.dst.cls = c

/-- deep edge equality is symmetric (edges that are not self-loops, one node class) -/
theorem edgeEq_deep_symm (c : GraphClass) (a b : EdgeV) (ha : EdgeOfClass c a) (hb : EdgeOfClass c b)
    (hla : a.src.id ≠ a.dst.id) (hlb : b.src.id ≠ b.dst.id) : edgeEq true a b = edgeEq true b a := by
  rw [Bool.eq_iff_iff, edgeEq_deep_iff a b hla, edgeEq_deep_iff b a hlb]
  have s1 := nodeEq_symm true a.src b.src (ha.1.trans hb.1.symm)
  have s2 := nodeEq_symm true a.dst b.dst (ha.2.trans hb.2.symm)
  have s3 := nodeEq_symm true a.src b.dst (ha.1.trans hb.2.symm)
  have s4 := nodeEq_symm true a.dst b.src (ha.2.trans hb.1.symm)
  rw [s1, s2, s3, s4]
  constructor
  · rintro ⟨t, m, ⟨x, y⟩ | ⟨z, x, y⟩⟩
    · exact ⟨t.symm, m.symm, Or.inl ⟨x, y⟩⟩
    · exact ⟨t.symm, m.symm, Or.inr ⟨t ▸ z, y, x⟩⟩
  · rintro ⟨t, m, ⟨x, y⟩ | ⟨z, x, y⟩⟩
    · exact ⟨t.symm, m.symm, Or.inl ⟨x, y⟩⟩
    · exact ⟨t.symm, m.symm, Or.inr ⟨t ▸ z, y, x⟩⟩

/-- deep edge equality is transitive (edges that are not self-loops, one node class) -/
theorem edgeEq_deep_trans (c : GraphClass) (a b d : EdgeV) (ha : EdgeOfClass c a) (hb : EdgeOfClass c b) (hd : EdgeOfClass c d)
    (hla : a.src.id ≠ a.dst.id) (hlb : b.src.id ≠ b.dst.id)
    (h1 : edgeEq true a b = true) (h2 : edgeEq true b d = true) : edgeEq true a d = true := by
  rw [edgeEq_deep_iff a b hla] at h1
  rw [edgeEq_deep_iff b d hlb] at h2
  rw [edgeEq_deep_iff a d hla]
  obtain ⟨t1, m1, n1⟩ := h1
  obtain ⟨t2, m2, n2⟩ := h2
  have T : ∀ x y z : NodeV, x.cls = c → y.cls = c → z.cls = c → nodeEq true x y = true → nodeEq true y z = true →
      nodeEq true x z = true :=
    fun x y z hx hy hz => nodeEq_trans true x y z (hx.trans hy.symm) (hy.trans hz.symm)
  refine ⟨t1.trans t2, m1.trans m2, ?_⟩
  rcases n1 with ⟨x1, y1⟩ | ⟨z1, x1, y1⟩
  · rcases n2 with ⟨x2, y2⟩ | ⟨z2, x2, y2⟩
    · exact Or.inl ⟨T _ _ _ ha.1 hb.1 hd.1 x1 x2, T _ _ _ ha.2 hb.2 hd.2 y1 y2⟩
    · exact Or.inr ⟨t1 ▸ z2, T _ _ _ ha.1 hb.1 hd.2 x1 x2, T _ _ _ ha.2 hb.2 hd.1 y1 y2⟩
  · rcases n2 with ⟨x2, y2⟩ | ⟨z2, x2, y2⟩
    · exact Or.inr ⟨z1, T _ _ _ ha.1 hb.2 hd.2 x1 y2, T _ _ _ ha.2 hb.1 hd.1 y1 x2⟩
    · exact Or.inl ⟨T _ _ _ ha.1 hb.2 hd.1 x1 y2, T _ _ _ ha.2 hb.1 hd.2 y1 x2⟩

theorem edgeNe_eq_not (a b : EdgeV) : edgeNe a b = !edgeEq false a b := rfl

theorem edgeEq_deep_implies_shallow (a b : EdgeV) (h : edgeEq true a b = true) : edgeEq false a b = true := by
  rw [edgeEq_shallow]; exact ((edgeEq_deep_iff' a b).1 h).2.2

/-! ### concrete inputs meeting the hypotheses -/

namespace Ex

def nr : NodeRec := { vtype := .unspecified, md := [] }

/-- `a -- b`, `b -> c` (with metadata on node `c` and on the directed edge) -/
def g : Graph :=
  (((((Graph.empty .plain).insNode "a" nr).insNode "b" nr).insNode "c" { vtype := .binary, md := [("k", "1")] }).insEdge
    "a" "b" ⟨.undirected, []⟩).insEdge "b" "c" ⟨.directed, [("w", "2")]⟩

/-- the same structure built in another order, the undirected edge declared the other way round, no metadata:
    `graphEq false g h` evaluates to `ok true`, `graphEq true g h` to `ok false` -/
def h : Graph :=
  (((((Graph.empty .plain).insNode "c" nr).insNode "b" nr).insNode "a" nr).insEdge
    "b" "c" ⟨.directed, []⟩).insEdge "b" "a" ⟨.undirected, []⟩

theorem mem_edges_g (s d : String) : (s, d) ∈ g.edges ↔ ((s = "b" ∧ d = "c") ∨ (s = "a" ∧ d = "b")) := by
  simp [g, Graph.insEdge, Graph.insNode, Graph.empty, ExtTreeMap.mem_insert]
  grind

theorem mem_edges_h (s d : String) : (s, d) ∈ h.edges ↔ ((s = "b" ∧ d = "a") ∨ (s = "b" ∧ d = "c")) := by
  simp [h, Graph.insEdge, Graph.insNode, Graph.empty, ExtTreeMap.mem_insert]
  grind

theorem g_wf : WF g := by
  refine ⟨?_, ?_, ?_, ?_, ?_⟩
  · intro s d hm
    rw [mem_edges_g] at hm
    rcases hm with ⟨rfl, rfl⟩ | ⟨rfl, rfl⟩ <;>
      simp [g, Graph.insEdge, Graph.insNode, Graph.empty, ExtTreeMap.mem_insert]
  · intro s hm
    rw [mem_edges_g] at hm
    rcases hm with ⟨rfl, e⟩ | ⟨rfl, e⟩ <;> simp at e
  · intro s d hm
    rw [mem_edges_g] at hm ⊢
    rcases hm with ⟨rfl, rfl⟩ | ⟨rfl, rfl⟩ <;> simp
  · intro hc; cases hc
  · intro hc; cases hc

theorem h_wf : WF h := by
  refine ⟨?_, ?_, ?_, ?_, ?_⟩
  · intro s d hm
    rw [mem_edges_h] at hm
    rcases hm with ⟨rfl, rfl⟩ | ⟨rfl, rfl⟩ <;>
      simp [h, Graph.insEdge, Graph.insNode, Graph.empty, ExtTreeMap.mem_insert]
  · intro s hm
    rw [mem_edges_h] at hm
    rcases hm with ⟨rfl, e⟩ | ⟨rfl, e⟩ <;> simp at e
  · intro s d hm
    rw [mem_edges_h] at hm ⊢
    rcases hm with ⟨rfl, rfl⟩ | ⟨rfl, rfl⟩ <;> simp
  · intro hc; cases hc
  · intro hc; cases hc

/-- the hypotheses of `graphEq_iff`, `deep_iff`, `graphEq_symm`, `skEq_iff`, … are met by a non-trivial pair -/
example : WF g ∧ WF h ∧ g.cls = h.cls := ⟨g_wf, h_wf, rfl⟩
example : graphEq false g h = graphEq false h g := graphEq_symm false g h g_wf h_wf rfl
example : graphEq true g g = .ok true := graphEq_refl true g g_wf
example : skEq false g h = skEq false h g := skEq_symm false g h g_wf h_wf rfl

/-- `nodeEq_iff` / `nodeEq_deep_iff`: a time-series node whose record agrees with its identifier -/
example : NodeOk .ts "X lag(n=1)" { vtype := .binary, md := [], var := "X", lag := -1 } := fun _ => by decide

/-- `edgeEq_deep_iff` needs "not a self-loop": for free-standing self-loop edge objects whose two endpoint
    objects share the identifier but differ in metadata, `Edge.__eq__(deep=True)` is not even symmetric
    (measured on the implementation as well: `a.__eq__(b, True)` is `True`, `b.__eq__(a, True)` is `False`).
    Graphs never contain such edges (`WF.noLoop`). -/
example :
    let x1 : NodeV := ⟨.plain, "x", { vtype := .unspecified, md := [("m", "1")] }⟩
    let x3 : NodeV := ⟨.plain, "x", { vtype := .unspecified, md := [("m", "3")] }⟩
    let a : EdgeV := ⟨x1, x1, .undirected, []⟩
    let b : EdgeV := ⟨x1, x3, .undirected, []⟩
    edgeEq true a b = true ∧ edgeEq true b a = false := by decide

end Ex

end CG.C07
