/-
C14 — the minimal graph is exactly the set of lag-invariant edge templates.

Hypotheses (`TsHyp g`, `TemplateConsistent g`): a well-formed time-series graph whose node identifiers are canonical
(`fmt v k`, `v` non-empty and marker-free — the C12 domain) and whose edges are instances of a consistent template set.
`idx` is the insertion order of the implementation's variable index (see `CG/Model/TS.lean`); every statement holds
for every `idx`.

  minimal_ok          get_minimal_graph never raises
  minimal_edges       its edges are exactly: one per template (s, d, δ, ty), from `fmt s (-δ)` to `fmt d 0`, of type ty
  minimal_nodes       its nodes are exactly the template endpoints plus each variable without a template endpoint once,
                      at lag 0
  minimal_meta        class and graph metadata are kept
  minimal_hyp         the result satisfies the hypotheses again, with the same templates and the same variables
                      (so every theorem applies to it: in particular its own minimal graph has the same nodes and edges,
                      `minimal_idem_shape`)
  minimal_attrs       under `VarConsistent`: nodes carry the variable type and user metadata of their variable, edges the
                      metadata of their template
  isMinimal_iff       is_minimal_graph(g) is, by definition, the (shallow) comparison of g with its minimal graph
-/
import CG.Proofs.Lemmas.TSMinimal

namespace CG.C14
open CG Std CG.Name CG.TS

variable {g : Graph}

/-- **C14 (ok): `get_minimal_graph` never raises on a consistent input.** -/
theorem minimal_ok (h : TsHyp g) (hc : TemplateConsistent g) (idx : List String) :
    ∃ m, minimalGraph g idx = .ok m := ⟨_, minimalGraph_eq h hc idx⟩

/-! ### edges -/

theorem minTgt_key_of_edge (h : TsHyp g) {a b : String} {re : EdgeRec} (he : g.edges[(a, b)]? = some re) :
    ∃ ra rb : NodeRec, g.nodes[a]? = some ra ∧ g.nodes[b]? = some rb ∧
      (minTgt g ((a, b), re)).key = (fmt ra.var (-(rb.lag - ra.lag)), fmt rb.var 0) ∧
      (minTgt g ((a, b), re)).erec.ty = re.ty ∧ Dom ra.var ∧ Dom rb.var := by
  obtain ⟨ra, rb, ha, hb, _, _, _, _, da, db⟩ := h.edge he
  refine ⟨ra, rb, ha, hb, ?_, ?_, da, db⟩
  · rw [minTgt_eq ha hb]; rfl
  · rw [minTgt_eq ha hb]; rfl

/-- every stored edge of the pure minimal graph comes from a template -/
theorem minEdge_of_get (h : TsHyp g) {idx : List String} {a b : String} {r : EdgeRec}
    (hr : (minPure g idx).edges[(a, b)]? = some r) : MinEdge g a b r.ty := by
  unfold minPure at hr
  rw [floatAll_edges] at hr
  rcases getElem?_putAll_edges hr with h0 | ⟨t, ht, hk, rfl⟩
  · simp [Graph.empty] at h0
  · obtain ⟨⟨⟨a', b'⟩, re⟩, he, rfl⟩ := List.mem_map.mp ht
    have he' := mem_getEdges_all he
    obtain ⟨ra, rb, ha, hb, hkey, hty, _, _⟩ := minTgt_key_of_edge h he'
    rw [hkey] at hk
    simp only [Prod.mk.injEq] at hk
    refine ⟨ra.var, rb.var, rb.lag - ra.lag, ?_, hk.1.symm, hk.2.symm⟩
    rw [hty]
    exact isTemplate_of_edge he' ha hb

/-- **C14 (edges): the minimal graph has exactly one edge per template, destination at lag 0, source at minus the time
    difference, of the template's type.** -/
theorem minimal_edges (h : TsHyp g) (hc : TemplateConsistent g) (idx : List String) {m : Graph}
    (hm : minimalGraph g idx = .ok m) (a b : String) (ty : EdgeType) :
    IsEdge m a b ty ↔ MinEdge g a b ty := by
  rw [minimalGraph_eq h hc idx] at hm
  cases hm
  constructor
  · rintro ⟨r, hr, rfl⟩
    exact minEdge_of_get h hr
  · rintro ⟨s, d, δ, ⟨a', b', ra, rb, re, he, ha, hb, rfl, rfl, rfl, rfl⟩, rfl, rfl⟩
    -- the target of that edge has this key, so the key is stored; whatever is stored comes from a template with the
    -- same (s, d, δ), hence of the same type
    have hmem : ((a', b'), re) ∈ getEdges g none none none := mem_getEdges_all_iff.mpr he
    have hk : (minTgt g ((a', b'), re)).key = (fmt ra.var (-(rb.lag - ra.lag)), fmt rb.var 0) := by
      rw [minTgt_eq ha hb]; rfl
    have hin : (fmt ra.var (-(rb.lag - ra.lag)), fmt rb.var 0) ∈ (minPure g idx).edges := by
      unfold minPure
      rw [floatAll_edges, mem_putAll_edges]
      exact .inr ⟨_, List.mem_map.mpr ⟨_, hmem, rfl⟩, hk⟩
    obtain ⟨r, hr⟩ := (mem_edges_iff _ _).mp hin
    refine ⟨r, hr, ?_⟩
    obtain ⟨s', d', δ', ht', e1, e2⟩ := minEdge_of_get h hr
    obtain ⟨a2, b2, ra2, rb2, re2, he2, ha2, hb2, rfl, rfl, rfl, hty2⟩ := ht'
    have da : Dom ra.var := (h.canonG _ _ ha).1
    have db : Dom rb.var := (h.canonG _ _ hb).1
    have da2 : Dom ra2.var := (h.canonG _ _ ha2).1
    have db2 : Dom rb2.var := (h.canonG _ _ hb2).1
    have x1 := fmt_inj da da2 e1
    have x2 := fmt_inj db db2 e2
    have t1 : IsTemplate g ra.var rb.var (rb.lag - ra.lag) re.ty := isTemplate_of_edge he ha hb
    have t2 : IsTemplate g ra.var rb.var (rb.lag - ra.lag) re2.ty := by
      have := isTemplate_of_edge he2 ha2 hb2
      rw [← x1.1, ← x2.1] at this
      have hδ : rb2.lag - ra2.lag = rb.lag - ra.lag := by have := x1.2; omega
      rwa [hδ] at this
    rw [← hty2]
    exact hc.oneType _ _ _ _ _ t2 t1

/-! ### nodes -/

/-- the spec'd minimal edges are exactly the keys / types of the targets of the edge loop -/
theorem minEdge_iff_tgt (h : TsHyp g) (a b : String) (ty : EdgeType) :
    MinEdge g a b ty ↔ ∃ t ∈ minTgts g, t.key = (a, b) ∧ t.ty = ty := by
  constructor
  · rintro ⟨s, d, δ, ⟨a', b', ra, rb, re, he, ha, hb, rfl, rfl, rfl, rfl⟩, rfl, rfl⟩
    refine ⟨minTgt g ((a', b'), re), List.mem_map.mpr ⟨_, mem_getEdges_all_iff.mpr he, rfl⟩, ?_, ?_⟩
    · rw [minTgt_eq ha hb]; rfl
    · rw [minTgt_eq ha hb]; rfl
  · rintro ⟨t, ht, hk, rfl⟩
    obtain ⟨⟨⟨a', b'⟩, re⟩, he, rfl⟩ := List.mem_map.mp ht
    have he' := mem_getEdges_all he
    obtain ⟨ra, rb, ha, hb, hkey, hty, _, _⟩ := minTgt_key_of_edge h he'
    rw [hkey] at hk
    simp only [Prod.mk.injEq] at hk
    refine ⟨ra.var, rb.var, rb.lag - ra.lag, ?_, hk.1.symm, hk.2.symm⟩
    have : (minTgt g ((a', b'), re)).ty = re.ty := hty
    rw [this]
    exact isTemplate_of_edge he' ha hb

/-- the nodes after the edge loop are the endpoints of the spec'd minimal edges -/
theorem mem_minEdges_nodes (h : TsHyp g) (n : String) :
    n ∈ (putAll (Graph.empty .ts g.gmeta) (minTgts g)).nodes ↔
      ∃ (a b : String) (ty : EdgeType), MinEdge g a b ty ∧ (n = a ∨ n = b) := by
  rw [mem_putAll_nodes (tinv_empty _).ends]
  constructor
  · rintro (h0 | ⟨t, ht, hn⟩)
    · exact absurd h0 (not_mem_empty_nodes _ _ _)
    · exact ⟨t.a, t.b, t.ty, (minEdge_iff_tgt h _ _ _).mpr ⟨t, ht, rfl, rfl⟩, hn⟩
  · rintro ⟨a, b, ty, hme, hn⟩
    obtain ⟨t, ht, hk, _⟩ := (minEdge_iff_tgt h _ _ _).mp hme
    simp only [Tgt.key, Prod.mk.injEq] at hk
    exact .inr ⟨t, ht, by rw [hk.1, hk.2]; exact hn⟩

/-- a variable occurs after the edge loop iff it is the variable of an endpoint of a spec'd minimal edge -/
theorem mem_minEdges_variables (h : TsHyp g) (hc : TemplateConsistent g) {v : String} (hv : Dom v) :
    v ∈ variables (putAll (Graph.empty .ts g.gmeta) (minTgts g)) ↔
      ∃ (a b : String) (ty : EdgeType) (k : Int), MinEdge g a b ty ∧ (a = fmt v k ∨ b = fmt v k) := by
  have hi := tinv_minEdges h hc
  rw [C12.mem_variables]
  constructor
  · rintro ⟨n, r, hr, rfl⟩
    have hn : n ∈ (putAll (Graph.empty .ts g.gmeta) (minTgts g)).nodes := (mem_nodes_iff _ _).mpr ⟨r, hr⟩
    obtain ⟨a, b, ty, hme, hab⟩ := (mem_minEdges_nodes h n).mp hn
    have hn' := (hi.canon n r hr).2
    refine ⟨a, b, ty, r.lag, hme, ?_⟩
    rcases hab with rfl | rfl
    · exact .inl hn'
    · exact .inr hn'
  · rintro ⟨a, b, ty, k, hme, hab⟩
    have hx : fmt v k ∈ (putAll (Graph.empty .ts g.gmeta) (minTgts g)).nodes := by
      apply (mem_minEdges_nodes h _).mpr
      rcases hab with e | e
      · exact ⟨a, b, ty, hme, .inl e.symm⟩
      · exact ⟨a, b, ty, hme, .inr e.symm⟩
    obtain ⟨r, hr⟩ := (mem_nodes_iff _ _).mp hx
    exact ⟨fmt v k, r, hr, (hi.canon.lookup hv hr).1⟩

/-- **C14 (nodes): the minimal graph keeps every variable — its nodes are exactly the template endpoints plus each
    variable without a template endpoint once, at lag 0 — and adds nothing else.** -/
theorem minimal_nodes (h : TsHyp g) (hc : TemplateConsistent g) (idx : List String) {m : Graph}
    (hm : minimalGraph g idx = .ok m) (n : String) : n ∈ m.nodes ↔ MinNode g n := by
  rw [minimalGraph_eq h hc idx] at hm
  cases hm
  unfold minPure
  rw [mem_floatAll_nodes idx (tinv_minEdges h hc) (fun _ hv => (h.var_dom hv).1) (C12.variables_nodup g),
    mem_minEdges_nodes h]
  unfold MinNode
  constructor
  · rintro (h1 | ⟨h1, h2⟩)
    · exact .inl h1
    · obtain ⟨hd, hvar⟩ := h.var_dom h1
      refine .inr ⟨n, hvar, (fmt_zero n).symm, fun hx => h2 ?_⟩
      exact (mem_minEdges_variables h hc hd).mpr hx
  · rintro (h1 | ⟨v, hvar, hn, hx⟩)
    · exact .inl h1
    · have hv : v ∈ variables g := (isVar_iff_mem_variables g v).mp hvar
      obtain ⟨hd, _⟩ := h.var_dom hv
      rw [fmt_zero] at hn
      subst hn
      exact .inr ⟨hv, fun hy => hx ((mem_minEdges_variables h hc hd).mp hy)⟩

/-- class and graph metadata of the result -/
theorem minimal_meta (h : TsHyp g) (hc : TemplateConsistent g) (idx : List String) {m : Graph}
    (hm : minimalGraph g idx = .ok m) : m.cls = .ts ∧ m.gmeta = g.gmeta := by
  rw [minimalGraph_eq h hc idx] at hm
  cases hm
  unfold minPure
  rw [floatAll_cls, floatAll_gmeta]
  simp [Graph.empty]

/-! ### the result satisfies the hypotheses again, with the same templates and variables -/

theorem isTemplate_dom (h : TsHyp g) {s d : String} {δ : Int} {ty : EdgeType} (ht : IsTemplate g s d δ ty) :
    Dom s ∧ Dom d ∧ IsVar g s ∧ IsVar g d := by
  obtain ⟨a, b, ra, rb, re, _, ha, hb, rfl, rfl, _, _⟩ := ht
  exact ⟨(h.canonG _ _ ha).1, (h.canonG _ _ hb).1, ⟨a, ra, ha, rfl⟩, ⟨b, rb, hb, rfl⟩⟩

theorem minimal_tsHyp (h : TsHyp g) (hc : TemplateConsistent g) (idx : List String) {m : Graph}
    (hm : minimalGraph g idx = .ok m) : TsHyp m := by
  rw [minimalGraph_eq h hc idx] at hm
  cases hm
  exact tsHyp_of_tinv (tinv_minPure h hc idx)

/-- **the templates of the minimal graph are the templates of the input** -/
theorem minimal_templates (h : TsHyp g) (hc : TemplateConsistent g) (idx : List String) {m : Graph}
    (hm : minimalGraph g idx = .ok m) (s d : String) (δ : Int) (ty : EdgeType) :
    IsTemplate m s d δ ty ↔ IsTemplate g s d δ ty := by
  have hm' := minimal_tsHyp h hc idx hm
  constructor
  · rintro ⟨a, b, ra, rb, re, he, ha, hb, rfl, rfl, rfl, rfl⟩
    obtain ⟨s0, d0, δ0, ht, ea, eb⟩ := (minimal_edges h hc idx hm a b re.ty).mp ⟨re, he, rfl⟩
    obtain ⟨ds, dd, _, _⟩ := isTemplate_dom h ht
    have ca := hm'.canonG a ra ha
    have cb := hm'.canonG b rb hb
    have x1 := fmt_inj ca.1 ds (ca.2.symm.trans ea)
    have x2 := fmt_inj cb.1 dd (cb.2.symm.trans eb)
    rw [x1.1, x2.1, x1.2, x2.2]
    have : (0 : Int) - -δ0 = δ0 := by omega
    rw [this]
    exact ht
  · intro ht
    obtain ⟨ds, dd, _, _⟩ := isTemplate_dom h ht
    obtain ⟨re, he, hty⟩ := (minimal_edges h hc idx hm (fmt s (-δ)) (fmt d 0) ty).mpr ⟨s, d, δ, ht, rfl, rfl⟩
    obtain ⟨hma, hmb⟩ := hm'.wf.ends _ _ ((mem_edges_iff _ _).mpr ⟨re, he⟩)
    obtain ⟨ra, hra⟩ := (mem_nodes_iff _ _).mp hma
    obtain ⟨rb, hrb⟩ := (mem_nodes_iff _ _).mp hmb
    have la := hm'.canonG.lookup ds hra
    have lb := hm'.canonG.lookup dd hrb
    refine ⟨_, _, ra, rb, re, he, hra, hrb, la.1, lb.1, ?_, hty⟩
    rw [la.2, lb.2]; omega

/-- **the variables of the minimal graph are the variables of the input** -/
theorem minimal_vars (h : TsHyp g) (hc : TemplateConsistent g) (idx : List String) {m : Graph}
    (hm : minimalGraph g idx = .ok m) (v : String) : IsVar m v ↔ IsVar g v := by
  have hm0 := hm
  rw [minimalGraph_eq h hc idx] at hm
  cases hm
  rw [isVar_iff_mem_variables, isVar_iff_mem_variables]
  unfold minPure
  rw [mem_variables_floatAll idx (tinv_minEdges h hc) (fun _ hv => (h.var_dom hv).1)]
  constructor
  · rintro (h1 | h1)
    · obtain ⟨n, r, hr, rfl⟩ := (C12.mem_variables _ _).mp h1
      have hn := (mem_nodes_iff _ _).mpr ⟨r, hr⟩
      obtain ⟨a, b, ty, ⟨s0, d0, δ0, ht, ea, eb⟩, hab⟩ := (mem_minEdges_nodes h n).mp hn
      obtain ⟨ds, dd, vs, vd⟩ := isTemplate_dom h ht
      have cn := (tinv_minEdges h hc).canon n r hr
      rcases hab with e | e
      · rw [(fmt_inj cn.1 ds (cn.2.symm.trans (e.trans ea))).1]; exact (isVar_iff_mem_variables _ _).mp vs
      · rw [(fmt_inj cn.1 dd (cn.2.symm.trans (e.trans eb))).1]; exact (isVar_iff_mem_variables _ _).mp vd
    · exact h1
  · exact .inr

theorem minimal_consistent (h : TsHyp g) (hc : TemplateConsistent g) (idx : List String) {m : Graph}
    (hm : minimalGraph g idx = .ok m) : TemplateConsistent m :=
  ⟨fun s d δ ty ty' h1 h2 => hc.oneType s d δ ty ty' ((minimal_templates h hc idx hm _ _ _ _).mp h1)
      ((minimal_templates h hc idx hm _ _ _ _).mp h2),
   fun s d ty ty' h1 h2 => hc.noRev0 s d ty ty' ((minimal_templates h hc idx hm _ _ _ _).mp h1)
      ((minimal_templates h hc idx hm _ _ _ _).mp h2)⟩

/-- **C14 (closure): the minimal graph satisfies the hypotheses again, with the same templates and variables.** -/
theorem minimal_hyp (h : TsHyp g) (hc : TemplateConsistent g) (idx : List String) {m : Graph}
    (hm : minimalGraph g idx = .ok m) :
    TsHyp m ∧ TemplateConsistent m ∧
      (∀ (s d : String) (δ : Int) (ty : EdgeType), IsTemplate m s d δ ty ↔ IsTemplate g s d δ ty) ∧
      (∀ v : String, IsVar m v ↔ IsVar g v) :=
  ⟨minimal_tsHyp h hc idx hm, minimal_consistent h hc idx hm, minimal_templates h hc idx hm, minimal_vars h hc idx hm⟩

theorem minEdge_congr {g m : Graph}
    (ht : ∀ (s d : String) (δ : Int) (ty : EdgeType), IsTemplate m s d δ ty ↔ IsTemplate g s d δ ty)
    (a b : String) (ty : EdgeType) : MinEdge m a b ty ↔ MinEdge g a b ty := by
  unfold MinEdge
  constructor
  · rintro ⟨s, d, δ, h1, h2, h3⟩; exact ⟨s, d, δ, (ht _ _ _ _).mp h1, h2, h3⟩
  · rintro ⟨s, d, δ, h1, h2, h3⟩; exact ⟨s, d, δ, (ht _ _ _ _).mpr h1, h2, h3⟩

theorem minNode_congr {g m : Graph}
    (ht : ∀ (s d : String) (δ : Int) (ty : EdgeType), IsTemplate m s d δ ty ↔ IsTemplate g s d δ ty)
    (hv : ∀ v : String, IsVar m v ↔ IsVar g v) (n : String) : MinNode m n ↔ MinNode g n := by
  unfold MinNode
  simp only [minEdge_congr ht, hv]

/-- **C14 (fixed point, nodes and typed edges): applying the operation again changes neither the node set nor the
    edges.** -/
theorem minimal_idem_shape (h : TsHyp g) (hc : TemplateConsistent g) (idx idx' : List String) {m : Graph}
    (hm : minimalGraph g idx = .ok m) :
    ∃ m', minimalGraph m idx' = .ok m' ∧ (∀ n : String, n ∈ m'.nodes ↔ n ∈ m.nodes) ∧
      (∀ (a b : String) (ty : EdgeType), IsEdge m' a b ty ↔ IsEdge m a b ty) ∧ m'.cls = m.cls ∧ m'.gmeta = m.gmeta := by
  obtain ⟨h1, h2, h3, h4⟩ := minimal_hyp h hc idx hm
  obtain ⟨m', hm'⟩ := minimal_ok h1 h2 idx'
  refine ⟨m', hm', ?_, ?_, ?_, ?_⟩
  · intro n
    rw [minimal_nodes h1 h2 idx' hm', minimal_nodes h hc idx hm, minNode_congr h3 h4]
  · intro a b ty
    rw [minimal_edges h1 h2 idx' hm', minimal_edges h hc idx hm, minEdge_congr h3]
  · rw [(minimal_meta h1 h2 idx' hm').1, (minimal_meta h hc idx hm).1]
  · exact (minimal_meta h1 h2 idx' hm').2

/-- the full fixed-point statement (equality of states, attributes included) -/
def minimal_idem_statement : Prop :=
  ∀ (g : Graph) (idx idx' : List String) (m : Graph), TsHyp g → TemplateConsistent g → minimalGraph g idx = .ok m →
    minimalGraph m idx' = .ok m

/-! ### attributes -/

/-- every node record of the minimal graph copies variable, type and user metadata of some node of the input -/
theorem minimal_node_source (h : TsHyp g) (hc : TemplateConsistent g) (idx : List String) {m : Graph}
    (hm : minimalGraph g idx = .ok m) {n : String} {r : NodeRec} (hr : m.nodes[n]? = some r) :
    ∃ (n0 : String) (r0 : NodeRec), g.nodes[n0]? = some r0 ∧ r.var = r0.var ∧ r.vtype = r0.vtype ∧ r.md = r0.md := by
  rw [minimalGraph_eq h hc idx] at hm
  cases hm
  unfold minPure at hr
  rcases getElem?_floatAll_nodes hr with h1 | ⟨v, hv, _, rfl⟩
  · rcases getElem?_putAll_nodes h1 with h0 | ⟨t, ht, hx⟩
    · simp [Graph.empty] at h0
    · obtain ⟨⟨⟨a, b⟩, re⟩, he, rfl⟩ := List.mem_map.mp ht
      obtain ⟨ra, rb, ha, hb, _⟩ := h.edge (mem_getEdges_all he)
      rw [minTgt_eq ha hb] at hx
      rcases hx with ⟨_, rfl⟩ | ⟨_, rfl⟩
      · exact ⟨a, ra, ha, rfl, rfl, (h.wf.tsName h.cls a ra ha).2⟩
      · exact ⟨b, rb, hb, rfl, rfl, (h.wf.tsName h.cls b rb hb).2⟩
  · obtain ⟨_, hvar⟩ := h.var_dom hv
    obtain ⟨n0, hn0, hv0⟩ := floatRec_spec hvar idx
    refine ⟨n0, _, hn0, hv0.symm, rfl, ?_⟩
    show (floatRec g idx v).md.tsStrip.tsStrip = _
    rw [tsStrip_idem, (h.wf.tsName h.cls n0 _ hn0).2]

/-- every edge record of the minimal graph copies type and metadata of an edge of the input with the same template -/
theorem minimal_edge_source (h : TsHyp g) (hc : TemplateConsistent g) (idx : List String) {m : Graph}
    (hm : minimalGraph g idx = .ok m) {a b : String} {re : EdgeRec} (he : m.edges[(a, b)]? = some re) :
    ∃ (a0 b0 : String) (ra rb : NodeRec), g.edges[(a0, b0)]? = some re ∧ g.nodes[a0]? = some ra ∧
      g.nodes[b0]? = some rb ∧ a = fmt ra.var (-(rb.lag - ra.lag)) ∧ b = fmt rb.var 0 := by
  rw [minimalGraph_eq h hc idx] at hm
  cases hm
  unfold minPure at he
  rw [floatAll_edges] at he
  rcases getElem?_putAll_edges he with h0 | ⟨t, ht, hk, rfl⟩
  · simp [Graph.empty] at h0
  · obtain ⟨⟨⟨a', b'⟩, re'⟩, hmem, rfl⟩ := List.mem_map.mp ht
    have he' := mem_getEdges_all hmem
    obtain ⟨ra, rb, ha, hb, _⟩ := h.edge he'
    rw [minTgt_eq ha hb] at hk ⊢
    simp only [Tgt.key, Prod.mk.injEq] at hk
    exact ⟨a', b', ra, rb, he', ha, hb, hk.1.symm, hk.2.symm⟩

/-- **C14 (attributes): under `VarConsistent`, nodes and edges of the minimal graph carry the variable type and user
    metadata of their variable and the metadata of their template.** -/
theorem minimal_attrs (h : TsHyp g) (hc : TemplateConsistent g) (hv : VarConsistent g) (idx : List String) {m : Graph}
    (hm : minimalGraph g idx = .ok m) :
    (∀ (n n' : String) (r r' : NodeRec), m.nodes[n]? = some r → g.nodes[n']? = some r' → r.var = r'.var →
      r.vtype = r'.vtype ∧ r.md = r'.md) ∧
    (∀ (a b a' b' : String) (re re' : EdgeRec) (ra rb ra' rb' : NodeRec),
      m.edges[(a, b)]? = some re → m.nodes[a]? = some ra → m.nodes[b]? = some rb →
      g.edges[(a', b')]? = some re' → g.nodes[a']? = some ra' → g.nodes[b']? = some rb' →
      ra.var = ra'.var → rb.var = rb'.var → rb.lag - ra.lag = rb'.lag - ra'.lag → re.md = re'.md) := by
  have hm' := minimal_tsHyp h hc idx hm
  constructor
  · intro n n' r r' hr hr' hvar
    obtain ⟨n0, r0, h0, e1, e2, e3⟩ := minimal_node_source h hc idx hm hr
    have := hv.nodes n0 n' r0 r' h0 hr' (e1.symm.trans hvar)
    exact ⟨e2.trans this.1, e3.trans this.2⟩
  · intro a b a' b' re re' ra rb ra' rb' he ha hb he' ha' hb' e1 e2 e3
    obtain ⟨a0, b0, ra0, rb0, he0, ha0, hb0, ea, eb⟩ := minimal_edge_source h hc idx hm he
    have da := (h.canonG _ _ ha0).1
    have db := (h.canonG _ _ hb0).1
    have la := hm'.canonG.lookup da (ea ▸ ha)
    have lb := hm'.canonG.lookup db (eb ▸ hb)
    refine hv.edges a0 b0 a' b' ra0 rb0 ra' rb' re re' he0 he' ha0 hb0 ha' hb' (la.1.symm.trans e1)
      (lb.1.symm.trans e2) ?_
    rw [← e3, la.2, lb.2]; omega

/-! ### `is_minimal_graph` -/

/-- **C14 (test): `is_minimal_graph(g)` is the comparison of `g` with its minimal graph** (transcription) -/
theorem isMinimal_iff (g : Graph) (idx : List String) :
    isMinimalGraph g idx = (minimalGraph g idx).map (fun m => tsGraphEqShallow g m) := by
  unfold isMinimalGraph
  cases minimalGraph g idx <;> rfl

theorem isMinimal_ok (h : TsHyp g) (hc : TemplateConsistent g) (idx : List String) :
    ∃ m, minimalGraph g idx = .ok m ∧ isMinimalGraph g idx = .ok (tsGraphEqShallow g m) := by
  obtain ⟨m, hm⟩ := minimal_ok h hc idx
  exact ⟨m, hm, by rw [isMinimal_iff, hm]; rfl⟩

/-! ### a concrete input that meets the hypotheses (non-vacuity) -/

namespace Demo

/-- the single edge `X lag(n=2) -> Y lag(n=1)` with attributes on both endpoints -/
def t1 : Tgt :=
  { sv := "X", sk := -2, svt := .binary, smd := [("u", "1")], dv := "Y", dk := -1, dvt := .continuous, dmd := [],
    ty := .directed, md := [("m", "7")] }

def g1 : Graph := putEdge (Graph.empty .ts [("name", "\"g\"")]) t1

theorem domX : Dom "X" := ⟨by decide, by decide⟩
theorem domY : Dom "Y" := ⟨by decide, by decide⟩

theorem t1_good : t1.Good :=
  ⟨domX, domY, by decide, by
    intro e
    have := (fmt_inj domX domY (show fmt "X" (-2) = fmt "Y" (-1) from e)).1
    exact absurd this (by decide)⟩

theorem g1_tinv : TInv g1 :=
  tinv_putEdge (tinv_empty _) t1_good (not_mem_empty_edges _ _ _) (not_mem_empty_edges _ _ _)

theorem g1_hyp : TsHyp g1 := tsHyp_of_tinv g1_tinv

/-- the only template of `g1` is `(X, Y, 1, ->)` -/
theorem g1_template {s d : String} {δ : Int} {ty : EdgeType} (h : IsTemplate g1 s d δ ty) :
    s = "X" ∧ d = "Y" ∧ δ = 1 ∧ ty = .directed := by
  obtain ⟨a, b, ra, rb, re, he, ha, hb, rfl, rfl, rfl, rfl⟩ := h
  unfold g1 at he
  rw [getElem?_putEdge_edges] at he
  split at he
  · rename_i hk
    cases he
    simp only [Tgt.key, Prod.mk.injEq] at hk
    obtain ⟨rfl, rfl⟩ := hk
    have la := g1_tinv.canon.lookup domX (show g1.nodes[fmt "X" (-2)]? = some ra from ha)
    have lb := g1_tinv.canon.lookup domY (show g1.nodes[fmt "Y" (-1)]? = some rb from hb)
    refine ⟨la.1, lb.1, ?_, rfl⟩
    rw [la.2, lb.2]; decide
  · simp [Graph.empty] at he

theorem g1_consistent : TemplateConsistent g1 :=
  ⟨fun _ _ _ _ _ h1 h2 => (g1_template h1).2.2.2.trans (g1_template h2).2.2.2.symm,
   fun _ _ _ _ h1 _ => absurd (g1_template h1).2.2.1 (by decide)⟩

theorem g1_isTemplate : IsTemplate g1 "X" "Y" 1 .directed := by
  have hk : g1.edges[(fmt "X" (-2), fmt "Y" (-1))]? = some t1.erec := by
    unfold g1; rw [getElem?_putEdge_edges]; simp [Tgt.key, Tgt.a, Tgt.b, t1]
  obtain ⟨hma, hmb⟩ := g1_tinv.wf.ends _ _ ((mem_edges_iff _ _).mpr ⟨_, hk⟩)
  obtain ⟨ra, hra⟩ := (mem_nodes_iff _ _).mp hma
  obtain ⟨rb, hrb⟩ := (mem_nodes_iff _ _).mp hmb
  have la := g1_tinv.canon.lookup domX hra
  have lb := g1_tinv.canon.lookup domY hrb
  exact ⟨_, _, ra, rb, _, hk, hra, hrb, la.1, lb.1, by rw [la.2, lb.2]; decide, rfl⟩

/-- the theorems apply to `g1`: its minimal graph exists and holds the edge `X lag(n=1) -> Y` -/
example : ∃ m, minimalGraph g1 [] = .ok m ∧ IsEdge m (fmt "X" (-1)) (fmt "Y" 0) .directed ∧
    ¬ IsEdge m (fmt "X" (-2)) (fmt "Y" (-1)) .directed := by
  obtain ⟨m, hm⟩ := minimal_ok g1_hyp g1_consistent []
  refine ⟨m, hm, (minimal_edges g1_hyp g1_consistent [] hm _ _ _).mpr ⟨"X", "Y", 1, g1_isTemplate, rfl, rfl⟩, ?_⟩
  intro h
  obtain ⟨s, d, δ, ht, _, e2⟩ := (minimal_edges g1_hyp g1_consistent [] hm _ _ _).mp h
  obtain ⟨_, rfl, _, _⟩ := g1_template ht
  exact absurd (fmt_inj domY domY e2).2 (by decide)

end Demo

end CG.C14
