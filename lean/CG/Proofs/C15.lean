/-
C15 — the extended graph is the exact unrolling of the minimal graph over the window.

Hypotheses as for C14 (`TsHyp g`, `TemplateConsistent g`); `b f : Option Nat` are `backward_steps` / `forward_steps`
(`none` = that side is not extended), `idx` the insertion order of the implementation's variable index.

  extend_eq_unroll         extend_graph never raises, and its nodes and typed edges are exactly `UnrollNode` / `UnrollEdge`
                           of DESIGN.md (`CG/Spec/TS.lean`): the minimal graph, the copy of every template ending at every
                           time of the extension range (minus the `include_all_parents=False` cut-off), every variable at
                           every lag of the window, copy endpoints — and nothing else.  The result again satisfies
                           `TsHyp` (well-formed, canonical names).
  extend_ok                (part of it) in particular the unguarded `add_edge` of the forward loop never meets an existing
                           pair: `EdgeDuplicatedError` is unreachable
  extend_negative          negative step counts raise `AssertionError`
  parents_shift_invariant  with include_all_parents every node of a variable inside the window has the same parents up to
                           a time shift
  extend_mono              a larger window gives a super-graph
  minimal_extend           the templates and variables of the result are those of the input (so its minimal graph has the
                           same nodes and typed edges as the input's)
-/
import CG.Proofs.C14
import CG.Proofs.Lemmas.TSExtendFold

namespace CG.C15
open CG Std CG.Name CG.TS

variable {g : Graph}

/-! ### the minimal graph has the minimal shape -/

theorem template_delta_nonneg (h : TsHyp g) {s d : String} {δ : Int} {ty : EdgeType} (ht : IsTemplate g s d δ ty) :
    0 ≤ δ := by
  obtain ⟨a, b, ra, rb, re, he, ha, hb, _, _, rfl, _⟩ := ht
  obtain ⟨ra', rb', ha', hb', hle, _⟩ := h.edge he
  rw [ha] at ha'; rw [hb] at hb'; cases ha'; cases hb'
  omega

theorem minShape_minimal (h : TsHyp g) (hc : TemplateConsistent g) (idx : List String) {m : Graph}
    (hm : minimalGraph g idx = .ok m) : MinShape m := by
  have hm' := C14.minimal_tsHyp h hc idx hm
  refine ⟨hm'.tinv, C14.minimal_consistent h hc idx hm, ?_, ?_⟩
  · intro a c re dr he hdr
    obtain ⟨s, d, δ, ht, _, ec⟩ := (C14.minimal_edges h hc idx hm a c re.ty).mp ⟨re, he, rfl⟩
    obtain ⟨_, dd, _, _⟩ := C14.isTemplate_dom h ht
    exact (hm'.canonG.lookup dd (ec ▸ hdr)).2
  · intro n r hr
    have hn : n ∈ m.nodes := (mem_nodes_iff _ _).mpr ⟨r, hr⟩
    rcases (C14.minimal_nodes h hc idx hm n).mp hn with ⟨a, b, ty, ⟨s, d, δ, ht, ea, eb⟩, hab⟩ | ⟨v, hv, en, _⟩
    · obtain ⟨ds, dd, _, _⟩ := C14.isTemplate_dom h ht
      have hδ := template_delta_nonneg h ht
      rcases hab with e | e
      · have := (hm'.canonG.lookup ds ((e.trans ea) ▸ hr)).2
        omega
      · have := (hm'.canonG.lookup dd ((e.trans eb) ▸ hr)).2
        omega
    · have hd : Dom v := (h.var_dom ((isVar_iff_mem_variables g v).mp hv)).1
      have := (hm'.canonG.lookup hd (en ▸ hr)).2
      omega

/-! ### emptiness, and the assertion on `max_backward_lag` -/

theorem nodes_isEmpty_iff (m : Graph) : m.nodes.isEmpty = true ↔ ∀ n : String, n ∉ m.nodes := by
  rw [← ExtTreeMap.isEmpty_toList]
  constructor
  · intro he n hn
    obtain ⟨r, hr⟩ := (mem_nodes_iff _ _).mp hn
    have hm : (n, r) ∈ m.nodes.toList := ExtTreeMap.mem_toList_iff_getElem?_eq_some.mpr hr
    rw [List.isEmpty_iff.mp he] at hm
    cases hm
  · intro hall
    cases hl : m.nodes.toList with
    | nil => rfl
    | cons p l =>
      have hm : (p.1, p.2) ∈ m.nodes.toList := by rw [hl]; exact List.mem_cons_self ..
      have := ExtTreeMap.mem_toList_iff_getElem?_eq_some.mp hm
      exact absurd ((mem_nodes_iff _ _).mpr ⟨_, this⟩) (hall p.1)

theorem maxBackwardLag_isSome {m : Graph} {n : String} {r : NodeRec} (hr : m.nodes[n]? = some r) (hl : r.lag ≤ 0) :
    (maxBackwardLag m).isNone = false := by
  unfold maxBackwardLag
  have hm : r.lag ∈ (lagsOf m).filter (· ≤ 0) := by
    rw [List.mem_filter]
    refine ⟨?_, by simpa using hl⟩
    unfold lagsOf
    exact List.mem_map.mpr ⟨(n, r), ExtTreeMap.mem_toList_iff_getElem?_eq_some.mpr hr, rfl⟩
  cases hf : (lagsOf m).filter (· ≤ 0) with
  | nil => rw [hf] at hm; cases hm
  | cons x xs => simp [listMin]

/-! ### the two halves of `extend_graph` as pure functions -/

def backNodePairs (m : Graph) (b : Int) : List (Int × (String × NodeRec)) :=
  (loopPairs 0 (b + 1) (getNodes m)).map (fun p => (-p.1, p.2))

def fwdNodePairs (m : Graph) (f : Int) : List (Int × (String × NodeRec)) := loopPairs 0 (f + 1) (getNodes m)

def backPure (m : Graph) (b : Int) (iap : Bool) (x : Graph) : Graph :=
  putAll (putNodes x (backNodePairs m b)) (backTgts m b iap)

def fwdPure (m : Graph) (f : Int) (x : Graph) : Graph := putAll (putNodes x (fwdNodePairs m f)) (fwdTgts m f)

theorem mem_getNodes {m : Graph} {p : String × NodeRec} (h : p ∈ getNodes m) : m.nodes[p.1]? = some p.2 :=
  ExtTreeMap.mem_toList_iff_getElem?_eq_some.mp h

theorem mem_getNodes_iff {m : Graph} {n : String} {r : NodeRec} : (n, r) ∈ getNodes m ↔ m.nodes[n]? = some r :=
  ExtTreeMap.mem_toList_iff_getElem?_eq_some

theorem backNodePairs_dom {m : Graph} (hm : MinShape m) (b : Int) : ∀ p ∈ backNodePairs m b, Dom p.2.2.var := by
  intro p hp
  obtain ⟨⟨l, q⟩, hq, rfl⟩ := List.mem_map.mp hp
  exact (hm.inv.canon _ _ (mem_getNodes ((mem_loopPairs _ _ _ l q).mp hq).2.2)).1

theorem fwdNodePairs_dom {m : Graph} (hm : MinShape m) (f : Int) : ∀ p ∈ fwdNodePairs m f, Dom p.2.2.var := by
  rintro ⟨l, q⟩ hq
  exact (hm.inv.canon _ _ (mem_getNodes ((mem_loopPairs _ _ _ l q).mp hq).2.2)).1

theorem tinv_backPure {m x : Graph} (hm : MinShape m) (hi : TInv x) (hx : x.edges = m.edges) (b : Int) (iap : Bool) :
    TInv (backPure m b iap x) :=
  tinv_putAll (tinv_putNodes hi (backNodePairs_dom hm b)) (backTgts_good hm b iap)
    (backTgts_noRev hm (by rw [putNodes_edges]; exact hx) b iap)

theorem tinv_fwdPure {m x : Graph} (hm : MinShape m) (hi : TInv x) (hx : EdgesNonpos x) (f : Int) :
    TInv (fwdPure m f x) :=
  tinv_putAll (tinv_putNodes hi (fwdNodePairs_dom hm f))
    (fun t ht => (fwdTgts_shape hm ht).1)
    (fwdTgts_noRev hm (fun a c h => hx a c (by rwa [putNodes_edges] at h)) f)

/-- the backward half never fails -/
theorem extendBackward_eq {m : Graph} (hm : MinShape m) (hne : ∃ n : String, n ∈ m.nodes) (b : Int) (iap : Bool) :
    extendBackward m b iap m = .ok (backPure m b iap m) := by
  obtain ⟨n, hn⟩ := hne
  obtain ⟨r, hr⟩ := (mem_nodes_iff _ _).mp hn
  unfold extendBackward
  simp only [maxBackwardLag_isSome hr (hm.nonpos n r hr), Bool.false_eq_true, if_false, bind, Except.bind]
  have h1 := nodeLoop_fold hm.inv (backNodePairs m b) (backNodePairs_dom hm b)
  unfold backNodePairs at h1
  rw [h1]
  simp only
  exact extBack_fold hm (tinv_putNodes hm.inv (backNodePairs_dom hm b)) (by simp) b iap

/-- the forward half never fails on any graph whose edges all end at a lag ≤ 0 -/
theorem extendForward_eq {m x : Graph} (hm : MinShape m) (hi : TInv x) (hx : EdgesNonpos x) (f : Int) :
    extendForward m f x = .ok (fwdPure m f x) := by
  unfold extendForward
  have h1 := nodeLoop_fold hi (fwdNodePairs m f) (fwdNodePairs_dom hm f)
  unfold fwdNodePairs at h1
  simp only [bind, Except.bind, h1]
  exact extFwd_fold hm (tinv_putNodes hi (fwdNodePairs_dom hm f))
    (fun a c h => hx a c (by rwa [putNodes_edges] at h)) f

/-- everything after the minimal graph has been computed -/
def extPure (m : Graph) (b f : Option Nat) (iap : Bool) : Graph :=
  if m.nodes.isEmpty ∧ m.edges.isEmpty then m
  else
    let x1 := match b with
      | none => m
      | some bb => backPure m bb iap m
    match f with
    | none => x1
    | some ff => fwdPure m ff x1

theorem nonempty_of_not_empty {m : Graph} (hw : WF m) (h : ¬ (m.nodes.isEmpty ∧ m.edges.isEmpty)) :
    ∃ n : String, n ∈ m.nodes := by
  by_cases hn : m.nodes.isEmpty = true
  · have he : ¬ m.edges.isEmpty = true := fun x => h ⟨hn, x⟩
    rw [← ExtTreeMap.isEmpty_toList] at he
    cases hl : m.edges.toList with
    | nil => rw [hl] at he; exact absurd rfl he
    | cons p l =>
      have hm : (p.1, p.2) ∈ m.edges.toList := by rw [hl]; exact List.mem_cons_self ..
      have := ExtTreeMap.mem_toList_iff_getElem?_eq_some.mp hm
      exact ⟨p.1.1, (hw.ends p.1.1 p.1.2 ((mem_edges_iff _ _).mpr ⟨_, this⟩)).1⟩
  · have : ¬ ∀ n : String, n ∉ m.nodes := fun hall => hn ((nodes_isEmpty_iff m).mpr hall)
    exact Classical.byContradiction fun hcon => this (fun n hn' => hcon ⟨n, hn'⟩)

theorem x1_props {m : Graph} (hm : MinShape m) (b : Option Nat) (iap : Bool) :
    TInv (match b with | none => m | some bb => backPure m bb iap m) ∧
    EdgesNonpos (match b with | none => m | some bb => backPure m bb iap m) := by
  cases b with
  | none => exact ⟨hm.inv, hm.edgesNonpos⟩
  | some bb =>
    exact ⟨tinv_backPure hm hm.inv rfl _ iap, edgesNonpos_back hm (by simp) _ iap⟩

/-- **`extend_graph` never fails on a consistent input and equals the pure pipeline** -/
theorem extendGraph_eq (h : TsHyp g) (hc : TemplateConsistent g) (idx : List String) (b f : Option Nat) (iap : Bool)
    {m : Graph} (hmin : minimalGraph g idx = .ok m) :
    extendGraph g idx (b.map Int.ofNat) (f.map Int.ofNat) iap = .ok (extPure m b f iap) := by
  have hm := minShape_minimal h hc idx hmin
  obtain ⟨hi1, hx1⟩ := x1_props hm b iap
  have nn : ∀ k : Nat, decide (Int.ofNat k < 0) = false := fun k =>
    decide_eq_false (Int.not_lt.mpr (Int.natCast_nonneg k))
  unfold extendGraph extPure
  by_cases he : m.nodes.isEmpty ∧ m.edges.isEmpty
  · cases b <;> cases f <;>
      simp only [Option.map_none, Option.map_some, nn, Bool.false_eq_true, if_false, bind, Except.bind,
        hmin, pure, Except.pure, if_pos he]
  · have hne := nonempty_of_not_empty hm.inv.wf he
    cases b with
    | none =>
      cases f with
      | none =>
        simp only [Option.map_none, Bool.false_eq_true, if_false, bind, Except.bind, hmin, pure, Except.pure, if_neg he]
      | some ff =>
        simp only [Option.map_none, Option.map_some, nn, Bool.false_eq_true, if_false, bind,
          Except.bind, hmin, pure, Except.pure, if_neg he]
        exact extendForward_eq hm hm.inv hm.edgesNonpos _
    | some bb =>
      cases f with
      | none =>
        simp only [Option.map_none, Option.map_some, nn, Bool.false_eq_true, if_false, bind,
          Except.bind, hmin, pure, Except.pure, if_neg he, extendBackward_eq hm hne]
        rfl
      | some ff =>
        simp only [Option.map_some, nn, Bool.false_eq_true, if_false, bind,
          Except.bind, hmin, pure, Except.pure, if_neg he, extendBackward_eq hm hne]
        exact extendForward_eq hm hi1 hx1 _

/-! ### the pure pipeline with uniform lists -/

def bN (m : Graph) (b : Option Nat) : List (Int × (String × NodeRec)) :=
  match b with | none => [] | some bb => backNodePairs m bb
def bT (m : Graph) (b : Option Nat) (iap : Bool) : List Tgt :=
  match b with | none => [] | some bb => backTgts m bb iap
def fN (m : Graph) (f : Option Nat) : List (Int × (String × NodeRec)) :=
  match f with | none => [] | some ff => fwdNodePairs m ff
def fT (m : Graph) (f : Option Nat) : List Tgt :=
  match f with | none => [] | some ff => fwdTgts m ff

theorem extPure_eq {m : Graph} (he : ¬ (m.nodes.isEmpty ∧ m.edges.isEmpty)) (b f : Option Nat) (iap : Bool) :
    extPure m b f iap = putAll (putNodes (putAll (putNodes m (bN m b)) (bT m b iap)) (fN m f)) (fT m f) := by
  unfold extPure
  rw [if_neg he]
  cases b <;> cases f <;> rfl

theorem tinv_extPure {m : Graph} (hm : MinShape m) (b f : Option Nat) (iap : Bool) : TInv (extPure m b f iap) := by
  unfold extPure
  split
  · exact hm.inv
  · obtain ⟨hi1, hx1⟩ := x1_props hm b iap
    cases f with
    | none => exact hi1
    | some ff => exact tinv_fwdPure hm hi1 hx1 _

theorem mem_bT {m : Graph} {b : Option Nat} {iap : Bool} {t : Tgt} :
    t ∈ bT m b iap ↔ ∃ bb : Nat, b = some bb ∧ t ∈ backTgts m bb iap := by
  cases b with
  | none => simp [bT]
  | some bb => simp [bT]

theorem mem_fT {m : Graph} {f : Option Nat} {t : Tgt} : t ∈ fT m f ↔ ∃ ff : Nat, f = some ff ∧ t ∈ fwdTgts m ff := by
  cases f with
  | none => simp [fT]
  | some ff => simp [fT]

theorem mem_bN {m : Graph} {b : Option Nat} {p : Int × (String × NodeRec)} :
    p ∈ bN m b ↔ ∃ bb : Nat, b = some bb ∧ -(bb : Int) ≤ p.1 ∧ p.1 ≤ 0 ∧ m.nodes[p.2.1]? = some p.2.2 := by
  cases b with
  | none => simp [bN]
  | some bb =>
    simp only [bN, backNodePairs, List.mem_map, Option.some.injEq, exists_eq_left']
    constructor
    · rintro ⟨⟨l, q⟩, hq, rfl⟩
      obtain ⟨h1, h2, h3⟩ := (mem_loopPairs _ _ _ l q).mp hq
      exact ⟨by simp only; omega, by simp only; omega, mem_getNodes h3⟩
    · rintro ⟨h1, h2, h3⟩
      obtain ⟨l, n, r⟩ := p
      refine ⟨(-l, (n, r)), (mem_loopPairs _ _ _ _ _).mpr ⟨by simp only at h2; omega, by simp only at h1; omega,
        mem_getNodes_iff.mpr h3⟩, ?_⟩
      simp

theorem mem_fN {m : Graph} {f : Option Nat} {p : Int × (String × NodeRec)} :
    p ∈ fN m f ↔ ∃ ff : Nat, f = some ff ∧ 0 ≤ p.1 ∧ p.1 ≤ (ff : Int) ∧ m.nodes[p.2.1]? = some p.2.2 := by
  cases f with
  | none => simp [fN]
  | some ff =>
    simp only [fN, fwdNodePairs, Option.some.injEq, exists_eq_left']
    obtain ⟨l, n, r⟩ := p
    rw [mem_loopPairs]
    constructor
    · rintro ⟨h1, h2, h3⟩
      exact ⟨h1, by simp only; omega, mem_getNodes h3⟩
    · rintro ⟨h1, h2, h3⟩
      exact ⟨h1, by simp only at h2; omega, mem_getNodes_iff.mpr h3⟩

/-! ### edges of the result -/

/-- a backward target is the copy of a template of `m` ending in the backward extension range -/
theorem unroll_of_bT {m : Graph} (hm : MinShape m) {b f : Option Nat} {iap : Bool} {t : Tgt} (ht : t ∈ bT m b iap) :
    UnrollEdge m b f iap t.a t.b t.ty := by
  obtain ⟨bb, rfl, ht'⟩ := mem_bT.mp ht
  obtain ⟨_, h1, h2, h3, h4⟩ := backTgts_shape hm ht'
  refine ⟨t.sv, t.dv, t.dk - t.sk, t.dk, h4, .inr (.inl ⟨bb, rfl, h2, h1, ?_⟩), ?_, rfl⟩
  · rcases h3 with h3 | h3
    · exact .inl h3
    · right; omega
  · have : t.dk - (t.dk - t.sk) = t.sk := by omega
    rw [this]; rfl

theorem unroll_of_fT {m : Graph} (hm : MinShape m) {b f : Option Nat} {iap : Bool} {t : Tgt} (ht : t ∈ fT m f) :
    UnrollEdge m b f iap t.a t.b t.ty := by
  obtain ⟨ff, rfl, ht'⟩ := mem_fT.mp ht
  obtain ⟨_, h1, h2, _, h4⟩ := fwdTgts_shape hm ht'
  refine ⟨t.sv, t.dv, t.dk - t.sk, t.dk, h4, .inr (.inr ⟨ff, rfl, h1, h2⟩), ?_, rfl⟩
  have : t.dk - (t.dk - t.sk) = t.sk := by omega
  rw [this]; rfl

theorem unroll_of_min {m : Graph} (hm : MinShape m) {b f : Option Nat} {iap : Bool} {a c : String} {re : EdgeRec}
    (he : m.edges[(a, c)]? = some re) : UnrollEdge m b f iap a c re.ty := by
  obtain ⟨sr, dr, _, _, _, _, ea, ec, _, _, _, htm⟩ := hm.edge he
  refine ⟨sr.var, dr.var, -sr.lag, 0, htm, .inl rfl, ?_, ec⟩
  have : (0 : Int) - -sr.lag = sr.lag := by omega
  rw [this]; exact ea

/-- every stored edge of the result is the copy of a template at an extension time -/
theorem unroll_of_get {m : Graph} (hm : MinShape m) (he : ¬ (m.nodes.isEmpty ∧ m.edges.isEmpty)) {b f : Option Nat}
    {iap : Bool} {a c : String} {r : EdgeRec} (hr : (extPure m b f iap).edges[(a, c)]? = some r) :
    UnrollEdge m b f iap a c r.ty := by
  rw [extPure_eq he] at hr
  rcases getElem?_putAll_edges hr with h1 | ⟨t, ht, hk, rfl⟩
  · rw [putNodes_edges] at h1
    rcases getElem?_putAll_edges h1 with h2 | ⟨t, ht, hk, rfl⟩
    · rw [putNodes_edges] at h2
      exact unroll_of_min hm h2
    · simp only [Tgt.key, Prod.mk.injEq] at hk
      rw [← hk.1, ← hk.2]; exact unroll_of_bT hm ht
  · simp only [Tgt.key, Prod.mk.injEq] at hk
    rw [← hk.1, ← hk.2]; exact unroll_of_fT hm ht

/-- every copy of a template at an extension time is stored -/
theorem mem_of_unroll {m : Graph} (hm : MinShape m) (he : ¬ (m.nodes.isEmpty ∧ m.edges.isEmpty)) {b f : Option Nat}
    {iap : Bool} {a c : String} {ty : EdgeType} (hu : UnrollEdge m b f iap a c ty) :
    (a, c) ∈ (extPure m b f iap).edges := by
  obtain ⟨s, d, δ, t, ⟨a0, c0, sr, dr, re, he0, ha0, hc0, rfl, rfl, rfl, rfl⟩, htime, rfl, rfl⟩ := hu
  obtain ⟨sr', dr', ha', hc', _, _, ea, ec, h0, _, _, _⟩ := hm.edge he0
  rw [ha0] at ha'; rw [hc0] at hc'; cases ha'; cases hc'
  rw [extPure_eq he, mem_putAll_edges, putNodes_edges, mem_putAll_edges, putNodes_edges]
  rcases htime with rfl | ⟨bb, rfl, h1, h2, h3⟩ | ⟨ff, rfl, h1, h2⟩
  · left; left
    have e1 : (0 : Int) - (dr.lag - sr.lag) = sr.lag := by omega
    rw [e1, ← ea, ← ec]
    exact (mem_edges_iff _ _).mpr ⟨re, he0⟩
  · left; right
    refine ⟨backT (-t) sr dr re, mem_bT.mpr ⟨bb, rfl, (mem_backTgts hm).mpr
      ⟨-t, a0, c0, re, sr, dr, by omega, by omega, he0, ha0, hc0, ?_, rfl⟩⟩, ?_⟩
    · rintro ⟨hlt, hiap⟩
      rcases h3 with h3 | h3
      · exact hiap h3
      · omega
    · show (fmt sr.var (- -t - (dr.lag - sr.lag)), fmt dr.var (- -t)) = _
      have e1 : - -t - (dr.lag - sr.lag) = t - (dr.lag - sr.lag) := by omega
      have e2 : - -t = t := by omega
      rw [e1, e2]
  · right
    refine ⟨fwdTgtOf t sr dr re, mem_fT.mpr ⟨ff, rfl, (mem_fwdTgts hm).mpr
      ⟨t, a0, c0, re, sr, dr, h1, h2, he0, ha0, hc0, rfl⟩⟩, ?_⟩
    show (fmt sr.var (sr.lag + t), fmt dr.var (dr.lag + t)) = _
    have e1 : sr.lag + t = t - (dr.lag - sr.lag) := by omega
    have e2 : dr.lag + t = t := by omega
    rw [e1, e2]

theorem isTemplate_dom' {m : Graph} (hi : TInv m) {s d : String} {δ : Int} {ty : EdgeType}
    (ht : IsTemplate m s d δ ty) : Dom s ∧ Dom d := by
  obtain ⟨a, b, ra, rb, re, _, ha, hb, rfl, rfl, _, _⟩ := ht
  exact ⟨(hi.canon _ _ ha).1, (hi.canon _ _ hb).1⟩

/-- **the typed edges of the result are exactly the unrolled copies (over the templates of `m`)** -/
theorem isEdge_extPure_iff {m : Graph} (hm : MinShape m) (he : ¬ (m.nodes.isEmpty ∧ m.edges.isEmpty))
    (b f : Option Nat) (iap : Bool) (a c : String) (ty : EdgeType) :
    IsEdge (extPure m b f iap) a c ty ↔ UnrollEdge m b f iap a c ty := by
  constructor
  · rintro ⟨r, hr, rfl⟩
    exact unroll_of_get hm he hr
  · intro hu
    obtain ⟨r, hr⟩ := (mem_edges_iff _ _).mp (mem_of_unroll hm he hu)
    refine ⟨r, hr, ?_⟩
    obtain ⟨s, d, δ, t, ht, _, ea, ec⟩ := hu
    obtain ⟨s', d', δ', t', ht', _, ea', ec'⟩ := unroll_of_get hm he hr
    obtain ⟨ds, dd⟩ := isTemplate_dom' hm.inv ht
    obtain ⟨ds', dd'⟩ := isTemplate_dom' hm.inv ht'
    have x1 := fmt_inj ds ds' (ea.symm.trans ea')
    have x2 := fmt_inj dd dd' (ec.symm.trans ec')
    have hδ : δ' = δ := by omega
    rw [← x1.1, ← x2.1, hδ] at ht'
    exact hm.cons.oneType _ _ _ _ _ ht' ht

/-! ### nodes of the result -/

theorem mem_extPure_nodes {m : Graph} (hm : MinShape m) (he : ¬ (m.nodes.isEmpty ∧ m.edges.isEmpty))
    (b f : Option Nat) (iap : Bool) (n : String) :
    n ∈ (extPure m b f iap).nodes ↔
      n ∈ m.nodes ∨ (∃ p ∈ bN m b, n = fmt p.2.2.var p.1) ∨ (∃ t ∈ bT m b iap, n = t.a ∨ n = t.b) ∨
        (∃ p ∈ fN m f, n = fmt p.2.2.var p.1) ∨ (∃ t ∈ fT m f, n = t.a ∨ n = t.b) := by
  have hdb : ∀ p ∈ bN m b, Dom p.2.2.var := by
    intro p hp
    obtain ⟨_, _, _, _, h4⟩ := mem_bN.mp hp
    exact (hm.inv.canon _ _ h4).1
  have hdf : ∀ p ∈ fN m f, Dom p.2.2.var := by
    intro p hp
    obtain ⟨_, _, _, _, h4⟩ := mem_fN.mp hp
    exact (hm.inv.canon _ _ h4).1
  have hi1 : TInv (putNodes m (bN m b)) := tinv_putNodes hm.inv hdb
  have hi2 : TInv (putAll (putNodes m (bN m b)) (bT m b iap)) := by
    cases b with
    | none => exact hi1
    | some bb => exact tinv_backPure hm hm.inv rfl _ iap
  have hi3 : TInv (putNodes (putAll (putNodes m (bN m b)) (bT m b iap)) (fN m f)) := tinv_putNodes hi2 hdf
  rw [extPure_eq he, mem_putAll_nodes hi3.ends, mem_putNodes, mem_putAll_nodes hi1.ends, mem_putNodes]
  constructor
  · rintro ((((h | h) | h) | h) | h)
    · exact .inl h
    · exact .inr (.inl h)
    · exact .inr (.inr (.inl h))
    · exact .inr (.inr (.inr (.inl h)))
    · exact .inr (.inr (.inr (.inr h)))
  · rintro (h | h | h | h | h)
    · exact .inl (.inl (.inl (.inl h)))
    · exact .inl (.inl (.inl (.inr h)))
    · exact .inl (.inl (.inr h))
    · exact .inl (.inr h)
    · exact .inr h

/-! ### transfer from the minimal graph to the input -/

theorem unrollEdge_congr {g m : Graph}
    (ht : ∀ (s d : String) (δ : Int) (ty : EdgeType), IsTemplate m s d δ ty ↔ IsTemplate g s d δ ty)
    (b f : Option Nat) (iap : Bool) (a c : String) (ty : EdgeType) :
    UnrollEdge m b f iap a c ty ↔ UnrollEdge g b f iap a c ty := by
  unfold UnrollEdge
  constructor
  · rintro ⟨s, d, δ, t, h1, h2⟩; exact ⟨s, d, δ, t, (ht _ _ _ _).mp h1, h2⟩
  · rintro ⟨s, d, δ, t, h1, h2⟩; exact ⟨s, d, δ, t, (ht _ _ _ _).mpr h1, h2⟩

/-- **C15 (central): `extend_graph` never raises, and its nodes and typed edges are exactly the unrolling.** -/
theorem extend_eq_unroll (h : TsHyp g) (hc : TemplateConsistent g) (idx : List String) (b f : Option Nat)
    (iap : Bool) :
    ∃ x, extendGraph g idx (b.map Int.ofNat) (f.map Int.ofNat) iap = .ok x ∧
      (∀ (a c : String) (ty : EdgeType), IsEdge x a c ty ↔ UnrollEdge g b f iap a c ty) ∧
      (∀ n : String, n ∈ x.nodes ↔ UnrollNode g b f iap n) ∧ TsHyp x := by
  obtain ⟨m, hmin⟩ := C14.minimal_ok h hc idx
  have hm := minShape_minimal h hc idx hmin
  obtain ⟨hm1, _, htm, hvar⟩ := C14.minimal_hyp h hc idx hmin
  refine ⟨extPure m b f iap, extendGraph_eq h hc idx b f iap hmin, ?_, ?_, tsHyp_of_tinv (tinv_extPure hm b f iap)⟩
  · -- edges
    intro a c ty
    rw [← unrollEdge_congr htm]
    by_cases he : m.nodes.isEmpty ∧ m.edges.isEmpty
    · -- the empty graph: no edge on either side
      have hnn := (nodes_isEmpty_iff m).mp he.1
      unfold extPure
      rw [if_pos he]
      constructor
      · rintro ⟨r, hr, _⟩
        exact absurd (hm.inv.wf.ends a c ((mem_edges_iff _ _).mpr ⟨r, hr⟩)).1 (hnn a)
      · rintro ⟨s, d, δ, t, ⟨a0, c0, ra, _, _, _, ha0, _⟩, _⟩
        exact absurd ((mem_nodes_iff _ _).mpr ⟨ra, ha0⟩) (hnn a0)
    · exact isEdge_extPure_iff hm he b f iap a c ty
  · -- nodes
    intro n
    by_cases he : m.nodes.isEmpty ∧ m.edges.isEmpty
    · have hnn := (nodes_isEmpty_iff m).mp he.1
      have hnov : ∀ v : String, ¬ IsVar g v := by
        intro v hv
        obtain ⟨n', r, hr, _⟩ := (hvar v).mpr hv
        exact hnn n' ((mem_nodes_iff _ _).mpr ⟨r, hr⟩)
      have hnot : ∀ (s d : String) (δ : Int) (ty : EdgeType), ¬ IsTemplate g s d δ ty := by
        intro s d δ ty ht
        exact hnov s (C14.isTemplate_dom h ht).2.2.1
      unfold extPure
      rw [if_pos he]
      constructor
      · intro hn; exact absurd hn (hnn n)
      · rintro (hmn | ⟨v, t, hv, _⟩ | ⟨a, c, ty, ⟨s, d, δ, t, ht, _⟩, _⟩)
        · exact absurd ((C14.minimal_nodes h hc idx hmin n).mpr hmn) (hnn n)
        · exact absurd hv (hnov v)
        · exact absurd ht (hnot _ _ _ _)
    · rw [mem_extPure_nodes hm he]
      constructor
      · rintro (hn | ⟨p, hp, rfl⟩ | ⟨t, ht, hn⟩ | ⟨p, hp, rfl⟩ | ⟨t, ht, hn⟩)
        · exact .inl ((C14.minimal_nodes h hc idx hmin n).mp hn)
        · obtain ⟨bb, rfl, h1, h2, h3⟩ := mem_bN.mp hp
          exact .inr (.inl ⟨p.2.2.var, p.1, (hvar _).mp ⟨p.2.1, p.2.2, h3, rfl⟩, .inl ⟨bb, rfl, h1, h2⟩, rfl⟩)
        · exact .inr (.inr ⟨t.a, t.b, t.ty, (unrollEdge_congr htm ..).mp (unroll_of_bT hm ht), hn⟩)
        · obtain ⟨ff, rfl, h1, h2, h3⟩ := mem_fN.mp hp
          exact .inr (.inl ⟨p.2.2.var, p.1, (hvar _).mp ⟨p.2.1, p.2.2, h3, rfl⟩, .inr ⟨ff, rfl, h1, h2⟩, rfl⟩)
        · exact .inr (.inr ⟨t.a, t.b, t.ty, (unrollEdge_congr htm ..).mp (unroll_of_fT hm ht), hn⟩)
      · rintro (hmn | ⟨v, t, hv, hw, rfl⟩ | ⟨a, c, ty, hu, hn⟩)
        · exact .inl ((C14.minimal_nodes h hc idx hmin n).mpr hmn)
        · obtain ⟨n', r, hr, rfl⟩ := (hvar v).mpr hv
          rcases hw with ⟨bb, rfl, h1, h2⟩ | ⟨ff, rfl, h1, h2⟩
          · exact .inr (.inl ⟨(t, (n', r)), mem_bN.mpr ⟨bb, rfl, h1, h2, hr⟩, rfl⟩)
          · exact .inr (.inr (.inr (.inl ⟨(t, (n', r)), mem_fN.mpr ⟨ff, rfl, h1, h2, hr⟩, rfl⟩)))
        · -- an endpoint of a stored edge is a node
          have hin := mem_of_unroll hm he ((unrollEdge_congr htm ..).mpr hu)
          have hends := (tinv_extPure hm b f iap).wf.ends a c hin
          have := (mem_extPure_nodes hm he b f iap n).mp (by
            rcases hn with rfl | rfl
            · exact hends.1
            · exact hends.2)
          exact this

/-- the same, for a given result -/
theorem extend_spec (h : TsHyp g) (hc : TemplateConsistent g) (idx : List String) (b f : Option Nat) (iap : Bool)
    {x : Graph} (hx : extendGraph g idx (b.map Int.ofNat) (f.map Int.ofNat) iap = .ok x) :
    (∀ (a c : String) (ty : EdgeType), IsEdge x a c ty ↔ UnrollEdge g b f iap a c ty) ∧
      (∀ n : String, n ∈ x.nodes ↔ UnrollNode g b f iap n) ∧ TsHyp x := by
  obtain ⟨x', h1, h2⟩ := extend_eq_unroll h hc idx b f iap
  rw [hx] at h1; cases h1
  exact h2

/-- **C15 (ok): `extend_graph` never raises on a consistent input** — in particular the unguarded `add_edge` of the
    forward loop never meets an existing pair (`EdgeDuplicatedError` is unreachable). -/
theorem extend_ok (h : TsHyp g) (hc : TemplateConsistent g) (idx : List String) (b f : Option Nat) (iap : Bool) :
    ∃ x, extendGraph g idx (b.map Int.ofNat) (f.map Int.ofNat) iap = .ok x :=
  let ⟨x, hx, _⟩ := extend_eq_unroll h hc idx b f iap
  ⟨x, hx⟩

/-! ### corollaries -/

/-- an edge of the result, with the records of its endpoints -/
theorem edge_records (h : TsHyp g) {x : Graph} (hx : TsHyp x) {b f : Option Nat} {iap : Bool} {a c : String}
    {ty : EdgeType} (hu : UnrollEdge g b f iap a c ty) {ra rc : NodeRec} (ha : x.nodes[a]? = some ra)
    (hc' : x.nodes[c]? = some rc) :
    ∃ (δ t : Int), IsTemplate g ra.var rc.var δ ty ∧ ExtTime b f iap δ t ∧ ra.lag = t - δ ∧ rc.lag = t := by
  obtain ⟨s, d, δ, t, ht, htime, rfl, rfl⟩ := hu
  obtain ⟨ds, dd, _, _⟩ := C14.isTemplate_dom h ht
  have la := hx.canonG.lookup ds ha
  have lc := hx.canonG.lookup dd hc'
  exact ⟨δ, t, by rw [la.1, lc.1]; exact ht, htime, la.2, lc.2⟩

/-- **C15 (minimal graph of the result, part 1): the templates of the result are the templates of the input** -/
theorem extend_templates (h : TsHyp g) (hc : TemplateConsistent g) (idx : List String) (b f : Option Nat) (iap : Bool)
    {x : Graph} (hx : extendGraph g idx (b.map Int.ofNat) (f.map Int.ofNat) iap = .ok x)
    (s d : String) (δ : Int) (ty : EdgeType) : IsTemplate x s d δ ty ↔ IsTemplate g s d δ ty := by
  obtain ⟨he, _, hx'⟩ := extend_spec h hc idx b f iap hx
  constructor
  · rintro ⟨a, c, ra, rc, re, hre, ha, hc', rfl, rfl, rfl, rfl⟩
    obtain ⟨δ, t, ht, _, e1, e2⟩ := edge_records h hx' ((he a c re.ty).mp ⟨re, hre, rfl⟩) ha hc'
    have : rc.lag - ra.lag = δ := by omega
    rw [this]; exact ht
  · intro ht
    obtain ⟨ds, dd, _, _⟩ := C14.isTemplate_dom h ht
    obtain ⟨re, hre, hty⟩ := (he (fmt s (0 - δ)) (fmt d 0) ty).mpr ⟨s, d, δ, 0, ht, .inl rfl, rfl, rfl⟩
    obtain ⟨hma, hmc⟩ := hx'.wf.ends _ _ ((mem_edges_iff _ _).mpr ⟨re, hre⟩)
    obtain ⟨ra, hra⟩ := (mem_nodes_iff _ _).mp hma
    obtain ⟨rc, hrc⟩ := (mem_nodes_iff _ _).mp hmc
    have la := hx'.canonG.lookup ds hra
    have lc := hx'.canonG.lookup dd hrc
    exact ⟨_, _, ra, rc, re, hre, hra, hrc, la.1, lc.1, by rw [la.2, lc.2]; omega, hty⟩

/-- **… part 2: the variables of the result are the variables of the input** -/
theorem extend_vars (h : TsHyp g) (hc : TemplateConsistent g) (idx : List String) (b f : Option Nat) (iap : Bool)
    {x : Graph} (hx : extendGraph g idx (b.map Int.ofNat) (f.map Int.ofNat) iap = .ok x) (v : String) :
    IsVar x v ↔ IsVar g v := by
  obtain ⟨he, hn, hx'⟩ := extend_spec h hc idx b f iap hx
  constructor
  · rintro ⟨n, r, hr, rfl⟩
    have cn := hx'.canonG n r hr
    have key : ∀ (s : String) (k : Int), Dom s → IsVar g s → n = fmt s k → IsVar g r.var := by
      intro s k ds hs e
      rw [(fmt_inj cn.1 ds (cn.2.symm.trans e)).1]; exact hs
    have tk : ∀ {a c : String} {ty : EdgeType}, UnrollEdge g b f iap a c ty → (n = a ∨ n = c) → IsVar g r.var := by
      rintro a c ty ⟨s, d, δ, t, ht, _, rfl, rfl⟩ hac
      obtain ⟨ds, dd, vs, vd⟩ := C14.isTemplate_dom h ht
      rcases hac with e | e
      · exact key s _ ds vs e
      · exact key d _ dd vd e
    rcases (hn n).mp ((mem_nodes_iff _ _).mpr ⟨r, hr⟩) with hmn | ⟨v, t, hv, _, e⟩ | ⟨a, c, ty, hu, hac⟩
    · rcases hmn with ⟨a, c, ty, ⟨s, d, δ, ht, ea, ec⟩, hac⟩ | ⟨v, hv, e, _⟩
      · exact tk ⟨s, d, δ, 0, ht, .inl rfl, by rw [Int.zero_sub]; exact ea, ec⟩ hac
      · exact key v 0 (h.var_dom ((isVar_iff_mem_variables g v).mp hv)).1 hv e
    · exact key v t (h.var_dom ((isVar_iff_mem_variables g v).mp hv)).1 hv e
    · exact tk hu hac
  · intro hv
    -- the variable has a node in the minimal graph, which is part of the result
    obtain ⟨m, hmin⟩ := C14.minimal_ok h hc idx
    obtain ⟨n, r, hr, rfl⟩ := (C14.minimal_vars h hc idx hmin v).mpr hv
    have hmn : MinNode g n := (C14.minimal_nodes h hc idx hmin n).mp ((mem_nodes_iff _ _).mpr ⟨r, hr⟩)
    obtain ⟨r', hr'⟩ := (mem_nodes_iff _ _).mp ((hn n).mpr (.inl hmn))
    have c1 := (C14.minimal_tsHyp h hc idx hmin).canonG n r hr
    have c2 := hx'.canonG n r' hr'
    exact ⟨n, r', hr', (fmt_inj c2.1 c1.1 (c2.2.symm.trans c1.2)).1⟩

/-- **C15 (minimal graph of the result): the result is again a consistent input with the templates and variables of
    `g`; its minimal graph therefore has the nodes and typed edges of the minimal graph of `g`.** -/
theorem minimal_extend (h : TsHyp g) (hc : TemplateConsistent g) (idx idx' : List String) (b f : Option Nat)
    (iap : Bool) {x : Graph} (hx : extendGraph g idx (b.map Int.ofNat) (f.map Int.ofNat) iap = .ok x) :
    TsHyp x ∧ TemplateConsistent x ∧
    ∃ mx, minimalGraph x idx' = .ok mx ∧
      (∀ (a c : String) (ty : EdgeType), IsEdge mx a c ty ↔ MinEdge g a c ty) ∧
      (∀ n : String, n ∈ mx.nodes ↔ MinNode g n) := by
  have hx' := (extend_spec h hc idx b f iap hx).2.2
  have ht := extend_templates h hc idx b f iap hx
  have hv := extend_vars h hc idx b f iap hx
  have hcx : TemplateConsistent x :=
    ⟨fun s d δ ty ty' h1 h2 => hc.oneType s d δ ty ty' ((ht _ _ _ _).mp h1) ((ht _ _ _ _).mp h2),
     fun s d ty ty' h1 h2 => hc.noRev0 s d ty ty' ((ht _ _ _ _).mp h1) ((ht _ _ _ _).mp h2)⟩
  obtain ⟨mx, hmx⟩ := C14.minimal_ok hx' hcx idx'
  refine ⟨hx', hcx, mx, hmx, ?_, ?_⟩
  · intro a c ty
    rw [C14.minimal_edges hx' hcx idx' hmx, C14.minEdge_congr ht]
  · intro n
    rw [C14.minimal_nodes hx' hcx idx' hmx, C14.minNode_congr ht hv]

/-- a lag of the window is an extension time for every template when all parents are included -/
theorem extTime_of_window {b f : Option Nat} {t : Int} (hw : InWindow b f t) (δ : Int) : ExtTime b f true δ t := by
  by_cases h0 : t = 0
  · exact .inl h0
  · rcases hw with ⟨bb, rfl, h1, h2⟩ | ⟨ff, rfl, h1, h2⟩
    · exact .inr (.inl ⟨bb, rfl, h1, by omega, .inl rfl⟩)
    · exact .inr (.inr ⟨ff, rfl, by omega, h2⟩)

/-- **C15 (parents up to shift): with `include_all_parents` every node `(v, t)` of the window has exactly the edges
    into it that the templates into `v` prescribe, shifted to `t`** — the same for every `t` of the window. -/
theorem parents_shift_invariant (h : TsHyp g) (hc : TemplateConsistent g) (idx : List String) (b f : Option Nat)
    {x : Graph} (hx : extendGraph g idx (b.map Int.ofNat) (f.map Int.ofNat) true = .ok x)
    {v : String} (hv : IsVar g v) {t : Int} (hw : InWindow b f t) (a : String) (ty : EdgeType) :
    IsEdge x a (fmt v t) ty ↔ ∃ (s : String) (δ : Int), IsTemplate g s v δ ty ∧ a = fmt s (t - δ) := by
  obtain ⟨he, _, _⟩ := extend_spec h hc idx b f true hx
  have dv := (h.var_dom ((isVar_iff_mem_variables g v).mp hv)).1
  rw [he]
  constructor
  · rintro ⟨s, d, δ, t', ht, _, rfl, e⟩
    obtain ⟨_, dd, _, _⟩ := C14.isTemplate_dom h ht
    obtain ⟨rfl, rfl⟩ := fmt_inj dv dd e
    exact ⟨s, δ, ht, rfl⟩
  · rintro ⟨s, δ, ht, rfl⟩
    exact ⟨s, v, δ, t, ht, extTime_of_window hw δ, rfl, rfl⟩

/-- `none ≤ 0 ≤ 1 ≤ …` on step counts -/
def StepLe (b b' : Option Nat) : Prop := ∀ k : Nat, b = some k → ∃ k' : Nat, b' = some k' ∧ k ≤ k'

theorem extTime_mono {b b' f f' : Option Nat} (hb : StepLe b b') (hf : StepLe f f') {iap : Bool} {δ t : Int}
    (h : ExtTime b f iap δ t) : ExtTime b' f' iap δ t := by
  rcases h with h | ⟨bb, rfl, h1, h2, h3⟩ | ⟨ff, rfl, h1, h2⟩
  · exact .inl h
  · obtain ⟨k', rfl, hk⟩ := hb bb rfl
    refine .inr (.inl ⟨k', rfl, by omega, h2, ?_⟩)
    rcases h3 with h3 | h3
    · exact .inl h3
    · right; omega
  · obtain ⟨k', rfl, hk⟩ := hf ff rfl
    exact .inr (.inr ⟨k', rfl, h1, by omega⟩)

theorem inWindow_mono {b b' f f' : Option Nat} (hb : StepLe b b') (hf : StepLe f f') {t : Int}
    (h : InWindow b f t) : InWindow b' f' t := by
  rcases h with ⟨bb, rfl, h1, h2⟩ | ⟨ff, rfl, h1, h2⟩
  · obtain ⟨k', rfl, hk⟩ := hb bb rfl
    exact .inl ⟨k', rfl, by omega, h2⟩
  · obtain ⟨k', rfl, hk⟩ := hf ff rfl
    exact .inr ⟨k', rfl, h1, by omega⟩

/-- **C15 (monotone): a larger window gives a super-graph** (nodes and typed edges) -/
theorem extend_mono (h : TsHyp g) (hc : TemplateConsistent g) (idx idx' : List String) {b b' f f' : Option Nat}
    (hb : StepLe b b') (hf : StepLe f f') (iap : Bool) {x x' : Graph}
    (hx : extendGraph g idx (b.map Int.ofNat) (f.map Int.ofNat) iap = .ok x)
    (hx' : extendGraph g idx' (b'.map Int.ofNat) (f'.map Int.ofNat) iap = .ok x') :
    (∀ n : String, n ∈ x.nodes → n ∈ x'.nodes) ∧
    (∀ (a c : String) (ty : EdgeType), IsEdge x a c ty → IsEdge x' a c ty) := by
  obtain ⟨he, hn, _⟩ := extend_spec h hc idx b f iap hx
  obtain ⟨he', hn', _⟩ := extend_spec h hc idx' b' f' iap hx'
  have hedge : ∀ {a c : String} {ty : EdgeType}, UnrollEdge g b f iap a c ty → UnrollEdge g b' f' iap a c ty := by
    rintro a c ty ⟨s, d, δ, t, ht, htime, e1, e2⟩
    exact ⟨s, d, δ, t, ht, extTime_mono hb hf htime, e1, e2⟩
  constructor
  · intro n hx
    rw [hn'] ; rw [hn] at hx
    rcases hx with h1 | ⟨v, t, hv, hw, e⟩ | ⟨a, c, ty, hu, hac⟩
    · exact .inl h1
    · exact .inr (.inl ⟨v, t, hv, inWindow_mono hb hf hw, e⟩)
    · exact .inr (.inr ⟨a, c, ty, hedge hu, hac⟩)
  · intro a c ty hx
    rw [he']; rw [he] at hx
    exact hedge hx

/-! ### acyclicity: "an acyclic minimal graph will always produce an acyclic extended graph" -/

/-- projection of a node of `x` to lag 0 -/
def proj0 (x : Graph) (n : String) : String := fmt (((x.nodes[n]?).map (·.var)).getD "") 0

theorem rel_time {x : Graph} (hx : TsHyp x) {a c : String} (h : EL.Rel x.dirEdges a c) : x.lagOf a ≤ x.lagOf c := by
  obtain ⟨r, hr, _⟩ := (mem_dirEdges x a c).mp h
  exact hx.wf.tsTime hx.cls a c ((mem_edges_iff _ _).mpr ⟨r, hr⟩)

theorem tc_time {x : Graph} (hx : TsHyp x) {a c : String} (h : EL.TC (EL.Rel x.dirEdges) a c) :
    x.lagOf a ≤ x.lagOf c := by
  induction h with
  | single h => exact rel_time hx h
  | tail _ h ih => have := rel_time hx h; omega

/-- a directed edge of the result between two nodes at the same lag is the copy of a contemporaneous template, which
    the minimal graph holds at lag 0 -/
theorem rel_contemp (h : TsHyp g) (hc : TemplateConsistent g) (idx : List String) (b f : Option Nat) (iap : Bool)
    {m x : Graph} (hmin : minimalGraph g idx = .ok m)
    (hx : extendGraph g idx (b.map Int.ofNat) (f.map Int.ofNat) iap = .ok x) {a c : String}
    (hr : EL.Rel x.dirEdges a c) (hl : x.lagOf a = x.lagOf c) : EL.Rel m.dirEdges (proj0 x a) (proj0 x c) := by
  obtain ⟨he, _, hx'⟩ := extend_spec h hc idx b f iap hx
  obtain ⟨r, hre, hty⟩ := (mem_dirEdges x a c).mp hr
  obtain ⟨hma, hmc⟩ := hx'.wf.ends a c ((mem_edges_iff _ _).mpr ⟨r, hre⟩)
  obtain ⟨ra, hra⟩ := (mem_nodes_iff _ _).mp hma
  obtain ⟨rc, hrc⟩ := (mem_nodes_iff _ _).mp hmc
  obtain ⟨δ, t, ht, _, e1, e2⟩ := edge_records h hx' ((he a c .directed).mp ⟨r, hre, hty⟩) hra hrc
  rw [lagOf_of_getElem? hra, lagOf_of_getElem? hrc] at hl
  have hδ : δ = 0 := by omega
  subst hδ
  have hme : MinEdge g (fmt ra.var (-0)) (fmt rc.var 0) .directed := ⟨ra.var, rc.var, 0, ht, rfl, rfl⟩
  obtain ⟨re, hre', hty'⟩ := (C14.minimal_edges h hc idx hmin _ _ _).mpr hme
  have pa : proj0 x a = fmt ra.var (-0) := by simp [proj0, hra]
  have pc : proj0 x c = fmt rc.var 0 := by simp [proj0, hrc]
  rw [pa, pc]
  exact (mem_dirEdges m _ _).mpr ⟨re, hre', hty'⟩

theorem tc_contemp (h : TsHyp g) (hc : TemplateConsistent g) (idx : List String) (b f : Option Nat) (iap : Bool)
    {m x : Graph} (hmin : minimalGraph g idx = .ok m)
    (hx : extendGraph g idx (b.map Int.ofNat) (f.map Int.ofNat) iap = .ok x) {a c : String}
    (htc : EL.TC (EL.Rel x.dirEdges) a c) (hl : x.lagOf a = x.lagOf c) :
    EL.TC (EL.Rel m.dirEdges) (proj0 x a) (proj0 x c) := by
  have hx' := (extend_spec h hc idx b f iap hx).2.2
  induction htc with
  | single hr => exact .single (rel_contemp h hc idx b f iap hmin hx hr hl)
  | @tail mid c hab hbc ih =>
    have h1 := tc_time hx' hab
    have h2 := rel_time hx' hbc
    have e1 : x.lagOf a = x.lagOf mid := by omega
    have e2 : x.lagOf mid = x.lagOf c := by omega
    exact .tail (ih e1) (rel_contemp h hc idx b f iap hmin hx hbc e2)

/-- **C15 (acyclic): an acyclic minimal graph always extends to an acyclic graph** — time never decreases along an
    edge, so a directed cycle is contemporaneous and projects to a cycle of the minimal graph at lag 0.  This is the
    code's comment "no need to validate", as a theorem. -/
theorem extend_acyclic (h : TsHyp g) (hc : TemplateConsistent g) (idx : List String) (b f : Option Nat) (iap : Bool)
    {m x : Graph} (hmin : minimalGraph g idx = .ok m)
    (hx : extendGraph g idx (b.map Int.ofNat) (f.map Int.ofNat) iap = .ok x) (hac : AcyclicG m) : AcyclicG x := by
  intro n hn
  exact hac (proj0 x n) (tc_contemp h hc idx b f iap hmin hx hn rfl)

/-! ### attributes -/

theorem mem_backTgts_src {m : Graph} (hm : MinShape m) {b : Int} {iap : Bool} {t : Tgt} (ht : t ∈ backTgts m b iap) :
    ∃ (a0 c0 : String) (re : EdgeRec) (sr dr : NodeRec) (k : Int), m.edges[(a0, c0)]? = some re ∧
      m.nodes[a0]? = some sr ∧ m.nodes[c0]? = some dr ∧ t.erec = re ∧
      t.sv = sr.var ∧ t.svt = sr.vtype ∧ t.smd = sr.md ∧ t.dv = dr.var ∧ t.dvt = dr.vtype ∧ t.dmd = dr.md ∧
      t.sk = sr.lag + k ∧ t.dk = dr.lag + k := by
  obtain ⟨lag, a, c, re, sr, dr, _, _, he, ha, hc, _, rfl⟩ := (mem_backTgts hm).mp ht
  refine ⟨a, c, re, sr, dr, -lag - dr.lag, he, ha, hc, rfl, rfl, rfl, rfl, rfl, rfl, rfl, ?_, ?_⟩
  · show -lag - (dr.lag - sr.lag) = sr.lag + (-lag - dr.lag); omega
  · show -lag = dr.lag + (-lag - dr.lag); omega

theorem mem_fwdTgts_src {m : Graph} (hm : MinShape m) {f : Int} {t : Tgt} (ht : t ∈ fwdTgts m f) :
    ∃ (a0 c0 : String) (re : EdgeRec) (sr dr : NodeRec) (k : Int), m.edges[(a0, c0)]? = some re ∧
      m.nodes[a0]? = some sr ∧ m.nodes[c0]? = some dr ∧ t.erec = re ∧
      t.sv = sr.var ∧ t.svt = sr.vtype ∧ t.smd = sr.md ∧ t.dv = dr.var ∧ t.dvt = dr.vtype ∧ t.dmd = dr.md ∧
      t.sk = sr.lag + k ∧ t.dk = dr.lag + k := by
  obtain ⟨lag, a, c, re, sr, dr, _, _, he, ha, hc, rfl⟩ := (mem_fwdTgts hm).mp ht
  exact ⟨a, c, re, sr, dr, lag, he, ha, hc, rfl, rfl, rfl, rfl, rfl, rfl, rfl, rfl, rfl⟩

/-- every node record of the result copies variable, type and user metadata of a node of the minimal graph -/
theorem node_source_ext {m : Graph} (hm : MinShape m) (b f : Option Nat) (iap : Bool) {n : String} {r : NodeRec}
    (hr : (extPure m b f iap).nodes[n]? = some r) :
    ∃ (n0 : String) (r0 : NodeRec), m.nodes[n0]? = some r0 ∧ r.var = r0.var ∧ r.vtype = r0.vtype ∧ r.md = r0.md := by
  have strip : ∀ {n0 : String} {r0 : NodeRec}, m.nodes[n0]? = some r0 → r0.md.tsStrip = r0.md :=
    fun h0 => (hm.inv.wf.tsName hm.inv.cls _ _ h0).2
  have ofT : ∀ {t : Tgt}, (∃ (a0 c0 : String) (re : EdgeRec) (sr dr : NodeRec) (k : Int), m.edges[(a0, c0)]? = some re ∧
      m.nodes[a0]? = some sr ∧ m.nodes[c0]? = some dr ∧ t.erec = re ∧
      t.sv = sr.var ∧ t.svt = sr.vtype ∧ t.smd = sr.md ∧ t.dv = dr.var ∧ t.dvt = dr.vtype ∧ t.dmd = dr.md ∧
      t.sk = sr.lag + k ∧ t.dk = dr.lag + k) →
      ((n = t.a ∧ r = nodeRecOf t.sv t.sk t.svt t.smd) ∨ (n = t.b ∧ r = nodeRecOf t.dv t.dk t.dvt t.dmd)) →
      ∃ (n0 : String) (r0 : NodeRec), m.nodes[n0]? = some r0 ∧ r.var = r0.var ∧ r.vtype = r0.vtype ∧ r.md = r0.md := by
    rintro t ⟨a0, c0, re, sr, dr, k, _, ha, hc, _, e1, e2, e3, e4, e5, e6, _, _⟩ (⟨_, rfl⟩ | ⟨_, rfl⟩)
    · exact ⟨a0, sr, ha, e1, e2, by show t.smd.tsStrip = _; rw [e3]; exact strip ha⟩
    · exact ⟨c0, dr, hc, e4, e5, by show t.dmd.tsStrip = _; rw [e6]; exact strip hc⟩
  have ofP : ∀ {p : Int × (String × NodeRec)}, m.nodes[p.2.1]? = some p.2.2 →
      r = nodeRecOf p.2.2.var p.1 p.2.2.vtype p.2.2.md →
      ∃ (n0 : String) (r0 : NodeRec), m.nodes[n0]? = some r0 ∧ r.var = r0.var ∧ r.vtype = r0.vtype ∧ r.md = r0.md := by
    rintro p hp rfl
    exact ⟨p.2.1, p.2.2, hp, rfl, rfl, strip hp⟩
  by_cases he : m.nodes.isEmpty ∧ m.edges.isEmpty
  · unfold extPure at hr; rw [if_pos he] at hr
    exact ⟨n, r, hr, rfl, rfl, rfl⟩
  · rw [extPure_eq he] at hr
    rcases getElem?_putAll_nodes hr with h1 | ⟨t, ht, hh⟩
    · rcases getElem?_putNodes h1 with h2 | ⟨p, hp, _, hh⟩
      · rcases getElem?_putAll_nodes h2 with h3 | ⟨t, ht, hh⟩
        · rcases getElem?_putNodes h3 with h4 | ⟨p, hp, _, hh⟩
          · exact ⟨n, r, h4, rfl, rfl, rfl⟩
          · obtain ⟨_, _, _, _, h5⟩ := mem_bN.mp hp
            exact ofP h5 hh
        · obtain ⟨bb, _, ht'⟩ := mem_bT.mp ht
          exact ofT (mem_backTgts_src hm ht') hh
      · obtain ⟨_, _, _, _, h5⟩ := mem_fN.mp hp
        exact ofP h5 hh
    · obtain ⟨ff, _, ht'⟩ := mem_fT.mp ht
      exact ofT (mem_fwdTgts_src hm ht') hh

/-- every edge record of the result is the record of an edge of the minimal graph, shifted in time -/
theorem edge_source_ext {m : Graph} (hm : MinShape m) (b f : Option Nat) (iap : Bool) {a c : String} {re : EdgeRec}
    (hr : (extPure m b f iap).edges[(a, c)]? = some re) :
    ∃ (a0 c0 : String) (sr dr : NodeRec) (k : Int), m.edges[(a0, c0)]? = some re ∧ m.nodes[a0]? = some sr ∧
      m.nodes[c0]? = some dr ∧ a = fmt sr.var (sr.lag + k) ∧ c = fmt dr.var (dr.lag + k) := by
  have ofT : ∀ {t : Tgt}, (∃ (a0 c0 : String) (re : EdgeRec) (sr dr : NodeRec) (k : Int), m.edges[(a0, c0)]? = some re ∧
      m.nodes[a0]? = some sr ∧ m.nodes[c0]? = some dr ∧ t.erec = re ∧
      t.sv = sr.var ∧ t.svt = sr.vtype ∧ t.smd = sr.md ∧ t.dv = dr.var ∧ t.dvt = dr.vtype ∧ t.dmd = dr.md ∧
      t.sk = sr.lag + k ∧ t.dk = dr.lag + k) → t.key = (a, c) → re = t.erec →
      ∃ (a0 c0 : String) (sr dr : NodeRec) (k : Int), m.edges[(a0, c0)]? = some re ∧ m.nodes[a0]? = some sr ∧
        m.nodes[c0]? = some dr ∧ a = fmt sr.var (sr.lag + k) ∧ c = fmt dr.var (dr.lag + k) := by
    rintro t ⟨a0, c0, re0, sr, dr, k, he0, ha, hc, e0, e1, _, _, e4, _, _, e7, e8⟩ hk rfl
    simp only [Tgt.key, Tgt.a, Tgt.b, Prod.mk.injEq] at hk
    refine ⟨a0, c0, sr, dr, k, by rw [e0]; exact he0, ha, hc, ?_, ?_⟩
    · rw [← hk.1, e1, e7]
    · rw [← hk.2, e4, e8]
  by_cases he : m.nodes.isEmpty ∧ m.edges.isEmpty
  · unfold extPure at hr; rw [if_pos he] at hr
    obtain ⟨sr, dr, ha, hc, _, _, ea, _, _⟩ := hm.edge hr
    exact ⟨a, c, sr, dr, 0, hr, ha, hc, by rw [Int.add_zero]; exact ea, by
      rw [Int.add_zero]; exact (hm.inv.canon c dr hc).2⟩
  · rw [extPure_eq he] at hr
    rcases getElem?_putAll_edges hr with h1 | ⟨t, ht, hk, hh⟩
    · rw [putNodes_edges] at h1
      rcases getElem?_putAll_edges h1 with h2 | ⟨t, ht, hk, hh⟩
      · rw [putNodes_edges] at h2
        obtain ⟨sr, dr, ha, hc, _, _, ea, _, _⟩ := hm.edge h2
        exact ⟨a, c, sr, dr, 0, h2, ha, hc, by rw [Int.add_zero]; exact ea, by
          rw [Int.add_zero]; exact (hm.inv.canon c dr hc).2⟩
      · obtain ⟨bb, _, ht'⟩ := mem_bT.mp ht
        exact ofT (mem_backTgts_src hm ht') hk hh
    · obtain ⟨ff, _, ht'⟩ := mem_fT.mp ht
      exact ofT (mem_fwdTgts_src hm ht') hk hh

/-- **C15 (attributes): under `VarConsistent` every copy carries the variable type and user metadata of its variable
    and the metadata of its template.** -/
theorem extend_attrs (h : TsHyp g) (hc : TemplateConsistent g) (hv : VarConsistent g) (idx : List String)
    (b f : Option Nat) (iap : Bool) {x : Graph}
    (hx : extendGraph g idx (b.map Int.ofNat) (f.map Int.ofNat) iap = .ok x) :
    (∀ (n n' : String) (r r' : NodeRec), x.nodes[n]? = some r → g.nodes[n']? = some r' → r.var = r'.var →
      r.vtype = r'.vtype ∧ r.md = r'.md) ∧
    (∀ (a c a' c' : String) (re re' : EdgeRec) (ra rc ra' rc' : NodeRec),
      x.edges[(a, c)]? = some re → x.nodes[a]? = some ra → x.nodes[c]? = some rc →
      g.edges[(a', c')]? = some re' → g.nodes[a']? = some ra' → g.nodes[c']? = some rc' →
      ra.var = ra'.var → rc.var = rc'.var → rc.lag - ra.lag = rc'.lag - ra'.lag → re.md = re'.md) := by
  obtain ⟨m, hmin⟩ := C14.minimal_ok h hc idx
  have hm := minShape_minimal h hc idx hmin
  have hx' := (extend_spec h hc idx b f iap hx).2.2
  rw [extendGraph_eq h hc idx b f iap hmin] at hx
  cases hx
  obtain ⟨an, ae⟩ := C14.minimal_attrs h hc hv idx hmin
  constructor
  · intro n n' r r' hr hr' hvar
    obtain ⟨n0, r0, h0, e1, e2, e3⟩ := node_source_ext hm b f iap hr
    have := an n0 n' r0 r' h0 hr' (e1.symm.trans hvar)
    exact ⟨e2.trans this.1, e3.trans this.2⟩
  · intro a c a' c' re re' ra rc ra' rc' hre hra hrc hre' hra' hrc' e1 e2 e3
    obtain ⟨a0, c0, sr, dr, k, he0, ha0, hc0, ea, ec⟩ := edge_source_ext hm b f iap hre
    have ds := (hm.inv.canon _ _ ha0).1
    have dd := (hm.inv.canon _ _ hc0).1
    have la := hx'.canonG.lookup ds (ea ▸ hra)
    have lc := hx'.canonG.lookup dd (ec ▸ hrc)
    refine ae a0 c0 a' c' re re' sr dr ra' rc' he0 ha0 hc0 hre' hra' hrc' (la.1.symm.trans e1) (lc.1.symm.trans e2) ?_
    rw [← e3, la.2, lc.2]; omega

/-- negative step counts are refused before anything else -/
theorem extend_negative (g : Graph) (idx : List String) (b f : Option Int) (iap : Bool)
    (hneg : (∃ x, b = some x ∧ x < 0) ∨ (∃ x, f = some x ∧ x < 0)) :
    extendGraph g idx b f iap = .error .assertionError := by
  unfold extendGraph
  rcases hneg with ⟨x, rfl, hx⟩ | ⟨x, rfl, hx⟩
  · simp [hx, bind, Except.bind, throw, throwThe, MonadExceptOf.throw]
  · cases b with
    | none => simp [hx, bind, Except.bind, throw, throwThe, MonadExceptOf.throw]
    | some y =>
      by_cases hy : y < 0
      · simp [hy, bind, Except.bind, throw, throwThe, MonadExceptOf.throw]
      · simp [hy, hx, bind, Except.bind, throw, throwThe, MonadExceptOf.throw]

/-! ### a concrete input that meets the hypotheses (non-vacuity) -/

namespace Demo
open CG.C14.Demo

/-- `g1` = the single edge `X lag(n=2) -> Y lag(n=1)`; extended by `(2, 1)` with all parents it holds the copies ending
    at `t = -2` (source at `-3`, beyond the window) and at `t = 1`, and the node `Y lag(n=2)` of the window, but no copy
    ending at `t = 2` -/
example : ∃ x, extendGraph g1 [] (some 2) (some 1) true = .ok x ∧
    IsEdge x (fmt "X" (-3)) (fmt "Y" (-2)) .directed ∧ IsEdge x (fmt "X" 0) (fmt "Y" 1) .directed ∧
    fmt "Y" (-2) ∈ x.nodes ∧ ¬ IsEdge x (fmt "X" 1) (fmt "Y" 2) .directed := by
  obtain ⟨x, hx, he, hn, _⟩ := extend_eq_unroll g1_hyp g1_consistent [] (some 2) (some 1) true
  refine ⟨x, hx, (he _ _ _).mpr ⟨"X", "Y", 1, -2, g1_isTemplate, ?_, rfl, rfl⟩,
    (he _ _ _).mpr ⟨"X", "Y", 1, 1, g1_isTemplate, ?_, rfl, rfl⟩, (hn _).mpr (.inr (.inl ⟨"Y", -2, ?_, ?_, rfl⟩)), ?_⟩
  · exact .inr (.inl ⟨2, rfl, by decide, by decide, .inl rfl⟩)
  · exact .inr (.inr ⟨1, rfl, by decide, by decide⟩)
  · exact (C14.isTemplate_dom g1_hyp g1_isTemplate).2.2.2
  · exact .inl ⟨2, rfl, by decide, by decide⟩
  · intro h
    obtain ⟨s, d, δ, t, ht, htime, _, e2⟩ := (he _ _ _).mp h
    obtain ⟨_, rfl, _, _⟩ := g1_template ht
    have ht2 : (2 : Int) = t := (fmt_inj domY domY e2).2
    subst ht2
    rcases htime with h0 | ⟨bb, _, _, h2, _⟩ | ⟨ff, hff, _, h2⟩
    · exact absurd h0 (by decide)
    · exact absurd h2 (by decide)
    · cases hff
      exact absurd h2 (by decide)

end Demo

end CG.C15
