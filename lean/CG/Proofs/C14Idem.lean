/-
C14, fixed point as an equality of states: applying `get_minimal_graph` to a minimal graph returns it unchanged —
nodes, variable types, metadata, edges, types, edge metadata, class and graph metadata (`minimal_idem`), for every
insertion order of the variable index.

The minimal graph `m` of a consistent input is "minimal-shaped" (`MinShape`, `CG/Proofs/Lemmas/TSExtendFold.lean`):
every edge ends at lag 0, so the target of an edge of `m` is that edge itself, and the endpoints are re-created from
their own records; a node that is the endpoint of no edge is the only node of its variable and sits at lag 0, so the
floating pass re-creates it from its own record.
-/
import CG.Proofs.C15

namespace CG.C14
open CG Std CG.Name CG.TS

variable {g : Graph}

/-- a stored node record equals the record rebuilt from its own fields (the metadata is already stripped) -/
theorem nodeRecOf_self {m : Graph} (hi : TInv m) {n : String} {r : NodeRec} (hr : m.nodes[n]? = some r) :
    nodeRecOf r.var r.lag r.vtype r.md = r := by
  have := (hi.wf.tsName hi.cls n r hr).2
  cases r
  simp only [nodeRecOf] at this ⊢
  rw [this]

/-- in a minimal-shaped graph the target of an edge is the edge itself -/
theorem minTgt_self {m : Graph} (hm : MinShape m) {a c : String} {re : EdgeRec} (he : m.edges[(a, c)]? = some re) :
    ∃ sr dr : NodeRec, m.nodes[a]? = some sr ∧ m.nodes[c]? = some dr ∧
      (minTgt m ((a, c), re)).key = (a, c) ∧ (minTgt m ((a, c), re)).erec = re ∧
      nodeRecOf (minTgt m ((a, c), re)).sv (minTgt m ((a, c), re)).sk (minTgt m ((a, c), re)).svt
        (minTgt m ((a, c), re)).smd = sr ∧
      nodeRecOf (minTgt m ((a, c), re)).dv (minTgt m ((a, c), re)).dk (minTgt m ((a, c), re)).dvt
        (minTgt m ((a, c), re)).dmd = dr := by
  obtain ⟨sr, dr, ha, hc, _, _, ea, ec, h0, _, _, _⟩ := hm.edge he
  refine ⟨sr, dr, ha, hc, ?_, ?_, ?_, ?_⟩
  · rw [minTgt_eq ha hc]
    show (fmt sr.var (-(dr.lag - sr.lag)), fmt dr.var 0) = (a, c)
    have : -(dr.lag - sr.lag) = sr.lag := by omega
    rw [this, ← ea, ← ec]
  · rw [minTgt_eq ha hc]; rfl
  · rw [minTgt_eq ha hc]
    show nodeRecOf sr.var (-(dr.lag - sr.lag)) sr.vtype sr.md = sr
    have : -(dr.lag - sr.lag) = sr.lag := by omega
    rw [this]; exact nodeRecOf_self hm.inv ha
  · rw [minTgt_eq ha hc]
    show nodeRecOf dr.var 0 dr.vtype dr.md = dr
    rw [← h0]; exact nodeRecOf_self hm.inv hc

/-- the edge loop over a minimal-shaped graph rebuilds its edge map … -/
theorem minEdges_edges_self {m : Graph} (hm : MinShape m) (k : EKey) :
    (putAll (Graph.empty .ts m.gmeta) (minTgts m)).edges[k]? = m.edges[k]? := by
  cases hk : m.edges[k]? with
  | none =>
    apply ExtTreeMap.getElem?_eq_none
    rw [mem_putAll_edges]
    rintro (h0 | ⟨t, ht, hkey⟩)
    · exact not_mem_empty_edges _ _ _ h0
    · obtain ⟨⟨⟨a, c⟩, re⟩, he, rfl⟩ := List.mem_map.mp ht
      have he' := mem_getEdges_all he
      obtain ⟨_, _, _, _, hself, _⟩ := minTgt_self hm he'
      rw [hself] at hkey
      rw [← hkey] at hk
      simp only at he'
      rw [he'] at hk; cases hk
  | some re =>
    obtain ⟨a, c⟩ := k
    obtain ⟨_, _, _, _, hself, hrec, _⟩ := minTgt_self hm hk
    have hin : (a, c) ∈ (putAll (Graph.empty .ts m.gmeta) (minTgts m)).edges :=
      (mem_putAll_edges _ _ _).mpr (.inr ⟨_, List.mem_map.mpr ⟨_, mem_getEdges_all_iff.mpr hk, rfl⟩, hself⟩)
    obtain ⟨r, hr⟩ := (mem_edges_iff _ _).mp hin
    rw [hr]
    rcases getElem?_putAll_edges hr with h0 | ⟨t, ht, hkey, rfl⟩
    · simp [Graph.empty] at h0
    · obtain ⟨⟨⟨a', c'⟩, re'⟩, he, rfl⟩ := List.mem_map.mp ht
      have he' := mem_getEdges_all he
      obtain ⟨_, _, _, _, hself', hrec', _⟩ := minTgt_self hm he'
      rw [hself'] at hkey
      simp only [Prod.mk.injEq] at hkey
      obtain ⟨rfl, rfl⟩ := hkey
      simp only at he'
      rw [hk] at he'; cases he'
      rw [hrec']

/-- … and the records of the nodes it creates are the records those nodes have in `m` -/
theorem minEdges_nodes_self {m : Graph} (hm : MinShape m) {n : String} {r : NodeRec}
    (hr : (putAll (Graph.empty .ts m.gmeta) (minTgts m)).nodes[n]? = some r) : m.nodes[n]? = some r := by
  rcases getElem?_putAll_nodes hr with h0 | ⟨t, ht, hh⟩
  · simp [Graph.empty] at h0
  · obtain ⟨⟨⟨a, c⟩, re⟩, he, rfl⟩ := List.mem_map.mp ht
    have he' := mem_getEdges_all he
    obtain ⟨sr, dr, ha, hc, hself, _, hs, hd⟩ := minTgt_self hm he'
    simp only [Tgt.key, Prod.mk.injEq] at hself
    rcases hh with ⟨hn, rfl⟩ | ⟨hn, rfl⟩
    · rw [hn, hself.1, hs]; exact ha
    · rw [hn, hself.2, hd]; exact hc

/-- what else a minimal graph satisfies: a node that is the endpoint of no edge sits at lag 0 -/
theorem minimal_float0 (h : TsHyp g) (hc : TemplateConsistent g) (idx : List String) {m : Graph}
    (hm : minimalGraph g idx = .ok m) {n : String} {r : NodeRec} (hr : m.nodes[n]? = some r) :
    (∃ a c : String, (a, c) ∈ m.edges ∧ (n = a ∨ n = c)) ∨ r.lag = 0 := by
  have hm' := minimal_tsHyp h hc idx hm
  rcases (minimal_nodes h hc idx hm n).mp ((mem_nodes_iff _ _).mpr ⟨r, hr⟩) with ⟨a, c, ty, hme, hac⟩ | ⟨v, hv, en, _⟩
  · obtain ⟨re, hre, _⟩ := (minimal_edges h hc idx hm a c ty).mpr hme
    exact .inl ⟨a, c, (mem_edges_iff _ _).mpr ⟨re, hre⟩, hac⟩
  · have hd : Dom v := (h.var_dom ((isVar_iff_mem_variables g v).mp hv)).1
    exact .inr (hm'.canonG.lookup hd (en ▸ hr)).2

/-- the floating pass never overwrites an existing node -/
theorem getElem?_floatAll_of_mem {g : Graph} (idx : List String) (vs : List String) (x : Graph) {n : String}
    (hn : n ∈ x.nodes) : (floatAll g idx x vs).nodes[n]? = x.nodes[n]? := by
  induction vs generalizing x with
  | nil => rfl
  | cons v vs ih =>
    simp only [floatAll, List.foldl_cons] at ih ⊢
    have hstep : (floatPut g idx x v).nodes[n]? = x.nodes[n]? := by
      unfold floatPut; split
      · rfl
      · exact getElem?_putNode_of_mem _ _ _ _ _ hn
    rw [ih (floatPut g idx x v) ((mem_nodes_iff _ _).mpr (by
      obtain ⟨r, hr⟩ := (mem_nodes_iff _ _).mp hn
      exact ⟨r, hstep.trans hr⟩)), hstep]

/-- the endpoints of the edges of a minimal-shaped graph are nodes after its edge loop -/
theorem endpoint_mem_minEdges {m : Graph} (hm : MinShape m) {a c : String} (he : (a, c) ∈ m.edges) :
    a ∈ (putAll (Graph.empty .ts m.gmeta) (minTgts m)).nodes ∧
    c ∈ (putAll (Graph.empty .ts m.gmeta) (minTgts m)).nodes := by
  obtain ⟨re, hre⟩ := (mem_edges_iff _ _).mp he
  obtain ⟨_, _, _, _, hself, _⟩ := minTgt_self hm hre
  simp only [Tgt.key, Prod.mk.injEq] at hself
  have ht : minTgt m ((a, c), re) ∈ minTgts m := List.mem_map.mpr ⟨_, mem_getEdges_all_iff.mpr hre, rfl⟩
  constructor
  · exact (mem_putAll_nodes (tinv_empty _).ends _ _).mpr (.inr ⟨_, ht, .inl hself.1.symm⟩)
  · exact (mem_putAll_nodes (tinv_empty _).ends _ _).mpr (.inr ⟨_, ht, .inr hself.2.symm⟩)

/-- **C14 (fixed point): applying `get_minimal_graph` to the minimal graph changes nothing** — the state is equal:
    nodes with variable types and metadata, edges with types and metadata, class and graph metadata; for every
    insertion order `idx'` of the variable index. -/
theorem minimal_idem (h : TsHyp g) (hc : TemplateConsistent g) (idx idx' : List String) {m : Graph}
    (hm : minimalGraph g idx = .ok m) : minimalGraph m idx' = .ok m := by
  obtain ⟨h1, h2, _, _⟩ := minimal_hyp h hc idx hm
  have hs : MinShape m := C15.minShape_minimal h hc idx hm
  have hi1 := tinv_minEdges h1 h2
  obtain ⟨m', hm', hnodes, _, hcls, hgm⟩ := minimal_idem_shape h hc idx idx' hm
  rw [hm']
  rw [minimalGraph_eq h1 h2 idx'] at hm'
  cases hm'
  congr 1
  have hedges : (minPure m idx').edges = m.edges := by
    apply ExtTreeMap.ext_getElem?
    intro k
    unfold minPure
    rw [floatAll_edges]
    exact minEdges_edges_self hs k
  have hnodesEq : (minPure m idx').nodes = m.nodes := by
    apply ExtTreeMap.ext_getElem?
    intro n
    cases hx : (minPure m idx').nodes[n]? with
    | none =>
      symm
      apply ExtTreeMap.getElem?_eq_none
      intro hn
      obtain ⟨r, hr⟩ := (mem_nodes_iff _ _).mp ((hnodes n).mpr hn)
      rw [hx] at hr; cases hr
    | some r =>
      symm
      have hmem : n ∈ (minPure m idx').nodes := (mem_nodes_iff _ _).mpr ⟨r, hx⟩
      unfold minPure at hx hmem
      by_cases hn1 : n ∈ (putAll (Graph.empty .ts m.gmeta) (minTgts m)).nodes
      · -- created by the edge loop: the record is the one `m` holds
        rw [getElem?_floatAll_of_mem idx' _ _ hn1] at hx
        exact minEdges_nodes_self hs hx
      · -- created by the floating pass
        have hnv : n ∈ variables m ∧ n ∉ variables (putAll (Graph.empty .ts m.gmeta) (minTgts m)) := by
          rcases (mem_floatAll_nodes idx' hi1 (fun _ hw => (h1.var_dom hw).1) (C12.variables_nodup m) n).mp hmem
            with h3 | h3
          · exact absurd h3 hn1
          · exact h3
        rcases getElem?_floatAll_nodes hx with h3 | ⟨v, _, rfl, rfl⟩
        · exact absurd ((mem_nodes_iff _ _).mpr ⟨r, h3⟩) hn1
        · obtain ⟨hdv, hvar⟩ := h1.var_dom hnv.1
          obtain ⟨n0, hn0, hv0⟩ := floatRec_spec hvar idx'
          -- the node the record is copied from is the endpoint of no edge, hence sits at lag 0: it is `n` itself
          have hn0out : n0 ∉ (putAll (Graph.empty .ts m.gmeta) (minTgts m)).nodes := by
            intro hin
            obtain ⟨r1, hr1⟩ := (mem_nodes_iff _ _).mp hin
            have := minEdges_nodes_self hs hr1
            rw [hn0] at this; cases this
            exact hnv.2 ((C12.mem_variables _ _).mpr ⟨n0, _, hr1, hv0⟩)
          have hl0 : (floatRec m idx' n).lag = 0 := by
            rcases minimal_float0 h hc idx hm hn0 with ⟨a, c, hac, he⟩ | h0
            · obtain ⟨ha, hc'⟩ := endpoint_mem_minEdges hs hac
              rcases he with rfl | rfl
              · exact absurd ha hn0out
              · exact absurd hc' hn0out
            · exact h0
          have hn0eq : n0 = n := by
            have := (hs.inv.canon n0 _ hn0).2
            rw [this, hv0, hl0, fmt_zero]
          rw [hn0eq] at hn0
          rw [hn0]
          congr 1
          have hstrip := (hs.inv.wf.tsName hs.inv.cls n _ hn0).2
          have := nodeRecOf_self hs.inv hn0
          rw [hv0, hl0] at this
          rw [hstrip]
          exact this.symm
  show minPure m idx' = m
  have hc' : (minPure m idx').cls = m.cls := hcls
  have hg' : (minPure m idx').gmeta = m.gmeta := hgm
  cases hmp : minPure m idx' with
  | mk c n e gm =>
    cases m with
    | mk c' n' e' gm' =>
      rw [hmp] at hc' hg' hedges hnodesEq
      simp only at hc' hg' hedges hnodesEq
      subst hc' hg' hedges hnodesEq
      rfl

/-! ### `is_minimal_graph` holds for minimal graphs -/

/-- the (temporary) shallow comparison is reflexive -/
theorem tsGraphEqShallow_refl (m : Graph) : tsGraphEqShallow m m = true := by
  unfold tsGraphEqShallow
  simp only [decide_true, beq_self_eq_true, Bool.true_and, Bool.and_eq_true, List.all_eq_true]
  refine ⟨⟨⟨?_, ?_⟩, ?_⟩, ?_⟩
  · intro k hk
    have : m.hasEdge k.1 k.2 = true := (hasEdge_iff _ _ _).mpr (ExtTreeMap.mem_keys.mp hk)
    simp [this]
  · intro k hk
    have : m.hasEdge k.1 k.2 = true := (hasEdge_iff _ _ _).mpr (ExtTreeMap.mem_keys.mp hk)
    simp [this]
  · rintro ⟨n, r⟩ hm
    have := ExtTreeMap.mem_toList_iff_getElem?_eq_some.mp hm
    simp [this]
  · rintro ⟨k, r⟩ hm
    have := ExtTreeMap.mem_toList_iff_getElem?_eq_some.mp hm
    simp [this]

/-- **C14 (the result is minimal): `is_minimal_graph()` holds for the minimal graph** -/
theorem isMinimal_of_minimal (h : TsHyp g) (hc : TemplateConsistent g) (idx idx' : List String) {m : Graph}
    (hm : minimalGraph g idx = .ok m) : isMinimalGraph m idx' = .ok true := by
  rw [isMinimal_iff, minimal_idem h hc idx idx' hm]
  show Except.ok (tsGraphEqShallow m m) = Except.ok true
  rw [tsGraphEqShallow_refl]

/-- the full statement kept in `C14.lean` holds -/
theorem minimal_idem_holds : minimal_idem_statement :=
  fun _ idx idx' _ h hc hm => minimal_idem h hc idx idx' hm

/-- non-vacuity: the minimal graph of the demo input is a fixed point -/
example : ∃ m, minimalGraph Demo.g1 [] = .ok m ∧ minimalGraph m ["Y", "X"] = .ok m := by
  obtain ⟨m, hm⟩ := minimal_ok Demo.g1_hyp Demo.g1_consistent []
  exact ⟨m, hm, minimal_idem Demo.g1_hyp Demo.g1_consistent [] _ hm⟩

end CG.C14
