/-
Graph-theoretic half of the correctness proof of networkx's `d_separated` (Darwiche, "Modeling and Reasoning with
Bayesian Networks", Theorem 4.1), core Lean only.

Setting: a DAG `E`, a conditioning list `Z`, a list `U ⊇ Z` (in the application `U = X ++ Y ++ Z`),
`Anc E U v` = `v` has a directed path (possibly empty) to a member of `U`, and an edge list `E'` with
`(a, b) ∈ E' ↔ (a, b) ∈ E ∧ Anc E U b ∧ a ∉ Z` (the ancestral graph of `U` with the out-edges of `Z` deleted).

* `open_walk_in_pruned`: every path that is open in the sense of `BlockedX` between two members of `U` is a walk in the
  skeleton of `E'`.
* `pruned_conn_gives_open`: if some `x ∈ X` is connected to some `y ∈ Y` in the skeleton of `E'`, then some `x' ∈ X`
  and `y' ∈ Y` are joined by a *simple* open path of `E`.
-/
import CG.Model.DSep
import CG.Proofs.Lemmas.DSepAux
set_option linter.unusedSectionVars false
set_option linter.unusedSimpArgs false
set_option linter.unusedVariables false

namespace CG.NxOpen
variable {α : Type} [DecidableEq α]
open CG.DSepDec CG.DSepAux
open CG.Paths (Walk)
open CG.EL (RTC TC Acyclic)

/-- `v` is an ancestor-or-self of a member of `U` -/
def Anc (E : List (α × α)) (U : List α) (v : α) : Prop := ∃ u, u ∈ U ∧ RTC (CG.EL.Rel E) v u

theorem anc_of_mem {E : List (α × α)} {U : List α} {v : α} (h : v ∈ U) : Anc E U v := ⟨v, h, .refl v⟩

theorem anc_pred {E : List (α × α)} {U : List α} {a b : α} (hab : (a, b) ∈ E) (h : Anc E U b) : Anc E U a := by
  obtain ⟨u, hu, hr⟩ := h
  exact ⟨u, hu, RTC.head (show CG.EL.Rel E a b from hab) hr⟩

/-! ### `Blocked` on cons / append -/

theorem blocked_cons {E : List (α × α)} {Z : List α} (a : α) : ∀ {q : List α}, Blocked E Z q → Blocked E Z (a :: q)
  | [], h => by simp [Blocked] at h
  | [_], h => by simp [Blocked] at h
  | [_, _], h => by simp [Blocked] at h
  | b :: c :: d :: rest, h => by
    show BlocksAt E Z a b c ∨ Blocked E Z (b :: c :: d :: rest)
    exact Or.inr h

theorem blocked_suffix {E : List (α × α)} {Z : List α} (l : List α) {s : List α} (h : Blocked E Z s) :
    Blocked E Z (l ++ s) := by
  induction l with
  | nil => exact h
  | cons a l ih => exact blocked_cons a ih

theorem unblocked3 {E : List (α × α)} {Z : List α} {a b c : α} {r : List α}
    (h : ¬ Blocked E Z (a :: b :: c :: r)) : ¬ BlocksAt E Z a b c ∧ ¬ Blocked E Z (b :: c :: r) :=
  ⟨fun h' => h (Or.inl h'), fun h' => h (Or.inr h')⟩

/-- an unblocked collider has a descendant-or-self in `Z` -/
theorem nb_collider {E : List (α × α)} {Z : List α} {a b c : α} (h : ¬ BlocksAt E Z a b c)
    (hab : (a, b) ∈ E) (hcb : (c, b) ∈ E) : ∃ d, RTC (CG.EL.Rel E) b d ∧ d ∈ Z := by
  apply Classical.byContradiction
  intro hne
  apply h
  refine Or.inl ⟨⟨hab, hcb⟩, ?_⟩
  intro d hd hz
  exact hne ⟨d, hd, hz⟩

/-- an unblocked non-collider is outside `Z` -/
theorem nb_noncollider {E : List (α × α)} {Z : List α} {a b c : α} (h : ¬ BlocksAt E Z a b c)
    (hnc : ¬ ((a, b) ∈ E ∧ (c, b) ∈ E)) : b ∉ Z :=
  fun hz => h (Or.inr ⟨hnc, hz⟩)

theorem sym_cases {E : List (α × α)} {a b : α} (h : CG.EL.Rel (sym E) a b) : (a, b) ∈ E ∨ (b, a) ∈ E :=
  mem_sym.mp h

/-! ### direction 1: an open path between members of `U` survives the pruning -/

/-- following an unblocked walk along a forward edge one stays inside the ancestors of `U` -/
theorem fwd_anc {E : List (α × α)} {Z U : List α} (hZU : ∀ z, z ∈ Z → z ∈ U) {a y : α} {p : List α}
    (hw : Walk (sym E) a y p) (hnb : ¬ Blocked E Z p) (hy : Anc E U y) :
    ∀ b rest, p = a :: b :: rest → (a, b) ∈ E → Anc E U b := by
  induction hw with
  | single a => intro b rest h; simp at h
  | @cons a s y q hr hw' ih =>
    intro b rest hp hab
    simp only [List.cons.injEq, true_and] at hp
    cases hw' with
    | single =>
      simp only [List.cons.injEq] at hp
      rw [← hp.1]; exact hy
    | @cons _ t _ q' hr' hw'' =>
      obtain ⟨q'', rfl⟩ := walk_head hw''
      simp only [List.cons.injEq] at hp
      obtain ⟨rfl, _⟩ := hp
      obtain ⟨h1, h2⟩ := unblocked3 hnb
      by_cases hc : (t, s) ∈ E
      · obtain ⟨d, hd, hz⟩ := nb_collider h1 hab hc
        exact ⟨d, hZU d hz, hd⟩
      · have hst : (s, t) ∈ E := by
          rcases sym_cases hr' with h | h
          · exact h
          · exact absurd h hc
        exact anc_pred hst (ih h2 hy t q'' rfl hst)

/-- `E'` is the ancestral graph of `U` in `E` with the out-edges of `Z` deleted -/
def IsPruned (E E' : List (α × α)) (Z U : List α) : Prop :=
  ∀ a b, (a, b) ∈ E' ↔ (a, b) ∈ E ∧ Anc E U b ∧ a ∉ Z

theorem open_walk_aux {E E' : List (α × α)} {Z U : List α} (hac : Acyclic (CG.EL.Rel E))
    (hZU : ∀ z, z ∈ Z → z ∈ U) (hE' : IsPruned E E' Z U) {a y : α} {p : List α}
    (hw : Walk (sym E) a y p) (hnb : ¬ Blocked E Z p)
    (hend : ∀ l t, p = l ++ [t, y] → (y, t) ∈ E → y ∉ Z)
    (hy : Anc E U y) (ha : Anc E U a)
    (hhead : ∀ s rest, p = a :: s :: rest → (a, s) ∈ E → a ∉ Z) : Walk (sym E') a y p := by
  induction hw with
  | single a => exact .single a
  | @cons a s y q hr hw' ih =>
    obtain ⟨q'', rfl⟩ := walk_head hw'
    have hheadq : ∀ t rest, s :: q'' = s :: t :: rest → (s, t) ∈ E → s ∉ Z := by
      intro t rest hq hst
      simp only [List.cons.injEq, true_and] at hq
      subst hq
      exact nb_noncollider (unblocked3 hnb).1 (fun h => acyclic_no2 hac s t hst h.2)
    have hnbq : ¬ Blocked E Z (s :: q'') := fun h => hnb (blocked_cons a h)
    have hendq : ∀ l t, s :: q'' = l ++ [t, y] → (y, t) ∈ E → y ∉ Z :=
      fun l t h => hend (a :: l) t (by rw [h]; rfl)
    rcases sym_cases hr with hf | hb
    · have haZ : a ∉ Z := hhead s q'' rfl hf
      have hs : Anc E U s := fwd_anc hZU (Walk.cons hr hw') hnb hy s q'' rfl hf
      have he : (a, s) ∈ E' := (hE' a s).mpr ⟨hf, hs, haZ⟩
      exact .cons (show CG.EL.Rel (sym E') a s from mem_sym.mpr (Or.inl he)) (ih hnbq hendq hy hs hheadq)
    · have hs : Anc E U s := anc_pred hb ha
      have hsZ : s ∉ Z := by
        cases q'' with
        | nil =>
          cases hw' with
          | single => exact hend [] a rfl hb
          | cons _ h => cases h
        | cons t r =>
          exact nb_noncollider (unblocked3 hnb).1 (fun h => acyclic_no2 hac s a hb h.1)
      have he : (s, a) ∈ E' := (hE' s a).mpr ⟨hb, ha, hsZ⟩
      exact .cons (show CG.EL.Rel (sym E') a s from mem_sym.mpr (Or.inr he)) (ih hnbq hendq hy hs hheadq)

/-- **direction 1.**  A path between two members of `U` that is open (not `BlockedX`) is a walk in the skeleton of the
    pruned graph: every node on it is an ancestor of `U`, and no edge on it leaves a node of `Z`. -/
theorem open_walk_in_pruned {E E' : List (α × α)} {Z U : List α} (hac : Acyclic (CG.EL.Rel E))
    (hZU : ∀ z, z ∈ Z → z ∈ U) (hE' : IsPruned E E' Z U) {x y : α} {p : List α} (hx : x ∈ U) (hy : y ∈ U)
    (hw : Walk (sym E) x y p) (hopen : ¬ BlockedX E Z p) : Walk (sym E') x y p := by
  have h1 : ¬ Blocked E Z p := fun h => hopen (Or.inl h)
  have h2 : ¬ HeadOut E Z p := fun h => hopen (Or.inr (Or.inl h))
  have h3 : ¬ HeadOut E Z p.reverse := fun h => hopen (Or.inr (Or.inr h))
  refine open_walk_aux hac hZU hE' hw h1 ?_ (anc_of_mem hy) (anc_of_mem hx) ?_
  · intro l t hp hyt hz
    apply h3
    rw [hp]
    simp only [List.reverse_append, List.reverse_cons, List.reverse_nil, List.nil_append, List.cons_append]
    exact ⟨hz, hyt⟩
  · intro s rest hp hxs hz
    apply h2
    rw [hp]
    exact ⟨hz, hxs⟩

theorem walk_rtc {S : List (α × α)} {a b : α} {p : List α} (h : Walk S a b p) : RTC (CG.EL.Rel S) a b := by
  induction h with
  | single a => exact .refl a
  | cons hr _ ih => exact RTC.head hr ih

/-! ### direction 2: a connection in the pruned graph yields an open path -/

theorem pruned_sub {E E' : List (α × α)} {Z U : List α} (hE' : IsPruned E E' Z U) {a b : α} (h : (a, b) ∈ E') :
    (a, b) ∈ E := ((hE' a b).mp h).1

theorem sym_mono {E E' : List (α × α)} (hsub : ∀ a b, (a, b) ∈ E' → (a, b) ∈ E) {a b : α}
    (h : CG.EL.Rel (sym E') a b) : CG.EL.Rel (sym E) a b := by
  rcases mem_sym.mp h with h | h
  · exact mem_sym.mpr (Or.inl (hsub _ _ h))
  · exact mem_sym.mpr (Or.inr (hsub _ _ h))

theorem walk_mono {S S' : List (α × α)} (hS : ∀ a b, CG.EL.Rel S a b → CG.EL.Rel S' a b) {a b : α} {p : List α}
    (h : Walk S a b p) : Walk S' a b p := by
  induction h with
  | single a => exact .single a
  | cons hr _ ih => exact .cons (hS _ _ hr) ih

/-- in a DAG an edge of the skeleton of `E'` that is oriented `a → b` in `E` is the edge `(a, b)` of `E'` -/
theorem orient {E E' : List (α × α)} {Z U : List α} (hac : Acyclic (CG.EL.Rel E)) (hE' : IsPruned E E' Z U)
    {a b : α} (h : CG.EL.Rel (sym E') a b) (hab : (a, b) ∈ E) : (a, b) ∈ E' := by
  rcases mem_sym.mp h with h | h
  · exact h
  · exact absurd (pruned_sub hE' h) (acyclic_no2 hac a b hab)

/-- a walk in the skeleton of the pruned graph none of whose interior nodes blocks -/
def GW (E E' : List (α × α)) (Z : List α) (a b : α) (q : List α) : Prop :=
  Walk (sym E') a b q ∧ ¬ Blocked E Z q

theorem gw_reverse {E E' : List (α × α)} {Z : List α} {a b : α} {q : List α} (h : GW E E' Z a b q) :
    GW E E' Z b a q.reverse := by
  refine ⟨walk_reverse h.1, fun hb => h.2 ?_⟩
  have := blocked_reverse hb
  simpa using this

/-- prolonging such a walk at its start by an edge that points away from the walk -/
theorem up_extend {E E' : List (α × α)} {Z U : List α} (hac : Acyclic (CG.EL.Rel E)) (hE' : IsPruned E E' Z U)
    {b c y : α} {q : List α} (h : GW E E' Z b y q) (hbc : (b, c) ∈ E) (hbZ : b ∉ Z) (hc : Anc E U c) :
    GW E E' Z c y (c :: q) := by
  have he : (b, c) ∈ E' := (hE' b c).mpr ⟨hbc, hc, hbZ⟩
  refine ⟨.cons (show CG.EL.Rel (sym E') c b from mem_sym.mpr (Or.inr he)) h.1, ?_⟩
  obtain ⟨rest, rfl⟩ := walk_head h.1
  cases rest with
  | nil => simp [Blocked]
  | cons n r =>
    intro hbl
    rcases hbl with hb | hb
    · rcases hb with ⟨⟨hcb, _⟩, _⟩ | ⟨_, hz⟩
      · exact acyclic_no2 hac b c hbc hcb
      · exact hbZ hz
    · exact h.2 hb

/-- climbing from `u` up to `s` along a directed path below `s`, none of whose nodes is in `Z` -/
theorem up_walk {E E' : List (α × α)} {Z U : List α} (hac : Acyclic (CG.EL.Rel E)) (hE' : IsPruned E E' Z U)
    {s y : α} {q : List α} (hnd : ∀ d, RTC (CG.EL.Rel E) s d → d ∉ Z) (h : GW E E' Z s y q) {u : α}
    (hsu : RTC (CG.EL.Rel E) s u) (hu : Anc E U u) : ∃ q', GW E E' Z u y q' := by
  induction hsu with
  | refl => exact ⟨q, h⟩
  | @tail b c hsb hbc ih =>
    obtain ⟨q', hq'⟩ := ih (anc_pred hbc hu)
    exact ⟨c :: q', up_extend hac hE' hq' hbc (hnd b hsb) hu⟩

/-- "from `v` one can get to `Y` by an unblocked walk of the pruned graph, or `X` and `Y` are already joined by one" -/
def Good (E E' : List (α × α)) (Z X Y : List α) (v : α) : Prop :=
  (∃ x' y' q, x' ∈ X ∧ y' ∈ Y ∧ GW E E' Z x' y' q) ∨ (∃ y' q, y' ∈ Y ∧ GW E E' Z v y' q)

theorem good_step {E E' : List (α × α)} {Z U X Y : List α} (hac : Acyclic (CG.EL.Rel E)) (hE' : IsPruned E E' Z U)
    (hU : ∀ u, u ∈ U → u ∈ X ∨ u ∈ Y ∨ u ∈ Z) {v s : α} (hg : Good E E' Z X Y s)
    (hvs : CG.EL.Rel (sym E') v s) : Good E E' Z X Y v := by
  rcases hg with hs | ⟨y', q, hy', hw, hnb⟩
  · exact Or.inl hs
  · obtain ⟨rest, rfl⟩ := walk_head hw
    cases rest with
    | nil => exact Or.inr ⟨y', [v, s], hy', .cons hvs hw, by simp [Blocked]⟩
    | cons t r =>
      have hst : CG.EL.Rel (sym E') s t := by
        cases hw with
        | cons hr hw' =>
          obtain ⟨_, h⟩ := walk_head hw'
          simp only [List.cons.injEq] at h
          rw [h.1]; exact hr
      by_cases hb : BlocksAt E Z v s t
      · rcases hb with ⟨⟨hvs', hts⟩, hnd⟩ | ⟨hnc, hsZ⟩
        · -- a collider with no descendant in `Z`: it is an ancestor of `X ∪ Y`; go down there instead
          have he : (v, s) ∈ E' := orient hac hE' hvs hvs'
          obtain ⟨u, hu, hsu⟩ := ((hE' v s).mp he).2.1
          have huZ : u ∉ Z := hnd u hsu
          rcases hU u hu with hx | hy | hz
          · obtain ⟨q', hq'⟩ := up_walk hac hE' hnd ⟨hw, hnb⟩ hsu (anc_of_mem hu)
            exact Or.inl ⟨u, y', q', hx, hy', hq'⟩
          · have base : GW E E' Z s v [s, v] := ⟨.cons (sym_symm hvs) (.single v), by simp [Blocked]⟩
            obtain ⟨q', hq'⟩ := up_walk hac hE' hnd base hsu (anc_of_mem hu)
            exact Or.inr ⟨u, q'.reverse, hy, gw_reverse hq'⟩
          · exact absurd hz huZ
        · -- a non-collider in `Z` cannot lie on a walk of the pruned graph
          exfalso
          by_cases h1 : (v, s) ∈ E
          · have h2 : (t, s) ∉ E := fun h => hnc ⟨h1, h⟩
            rcases mem_sym.mp hst with h | h
            · exact ((hE' s t).mp h).2.2 hsZ
            · exact h2 (pruned_sub hE' h)
          · rcases mem_sym.mp hvs with h | h
            · exact h1 (pruned_sub hE' h)
            · exact ((hE' s v).mp h).2.2 hsZ
      · exact Or.inr ⟨y', v :: s :: t :: r, hy', .cons hvs hw, fun h => h.elim hb hnb⟩

theorem rtc_sym {E : List (α × α)} {a b : α} (h : RTC (CG.EL.Rel (sym E)) a b) : RTC (CG.EL.Rel (sym E)) b a := by
  induction h with
  | refl => exact .refl _
  | tail _ hbc ih => exact RTC.head (sym_symm hbc) ih

/-- a connection in the pruned graph gives an unblocked walk of the pruned graph from `X` to `Y` -/
theorem conn_gives_gw {E E' : List (α × α)} {Z U X Y : List α} (hac : Acyclic (CG.EL.Rel E))
    (hE' : IsPruned E E' Z U) (hU : ∀ u, u ∈ U → u ∈ X ∨ u ∈ Y ∨ u ∈ Z) {x y : α} (hx : x ∈ X) (hy : y ∈ Y)
    (h : RTC (CG.EL.Rel (sym E')) x y) : ∃ x' y' q, x' ∈ X ∧ y' ∈ Y ∧ GW E E' Z x' y' q := by
  have key : ∀ v, RTC (CG.EL.Rel (sym E')) y v → Good E E' Z X Y v := by
    intro v hv
    induction hv with
    | refl => exact Or.inr ⟨y, [y], hy, .single y, by simp [Blocked]⟩
    | tail _ hbc ih => exact good_step hac hE' hU ih (sym_symm hbc)
  rcases key x (rtc_sym h) with hs | ⟨y', q, hy', hq⟩
  · exact hs
  · exact ⟨x, y', q, hx, hy', hq⟩

/-- a walk of the pruned graph does not leave an end node that is in `Z` -/
theorem gw_headOut {E E' : List (α × α)} {Z U : List α} (hac : Acyclic (CG.EL.Rel E)) (hE' : IsPruned E E' Z U)
    {a b : α} {q : List α} (hw : Walk (sym E') a b q) : ¬ HeadOut E Z q := by
  cases hw with
  | single => simp [HeadOut]
  | cons hr hw' =>
    obtain ⟨rest, rfl⟩ := walk_head hw'
    rintro ⟨hz, hab⟩
    exact ((hE' _ _).mp (orient hac hE' hr hab)).2.2 hz

theorem gw_open {E E' : List (α × α)} {Z U : List α} (hac : Acyclic (CG.EL.Rel E)) (hE' : IsPruned E E' Z U)
    {a b : α} {q : List α} (h : GW E E' Z a b q) : Walk (sym E) a b q ∧ ¬ BlockedX E Z q := by
  refine ⟨walk_mono (fun _ _ => sym_mono (fun _ _ => pruned_sub hE')) h.1, ?_⟩
  rintro (hb | hb | hb)
  · exact h.2 hb
  · exact gw_headOut hac hE' h.1 hb
  · exact gw_headOut hac hE' (walk_reverse h.1) hb

/-! ### an unblocked walk can be made simple (cutting a loop never blocks) -/

/-- leaving a node along an out-edge on an unblocked walk, when that node has no descendant in `Z`, the walk never turns:
    every later node is a strict descendant -/
theorem fwd_chain {E : List (α × α)} {Z : List α} {a b : α} {p : List α} (hw : Walk (sym E) a b p)
    (hnb : ¬ Blocked E Z p) (hnd : ∀ d, RTC (CG.EL.Rel E) a d → d ∉ Z) :
    ∀ s rest, p = a :: s :: rest → (a, s) ∈ E → ∀ w, w ∈ s :: rest → TC (CG.EL.Rel E) a w := by
  induction hw with
  | single a => intro s rest h; simp at h
  | @cons a s b q hr hw' ih =>
    intro s' rest hp has w hwm
    simp only [List.cons.injEq, true_and] at hp
    cases hw' with
    | single =>
      simp only [List.cons.injEq] at hp
      obtain ⟨rfl, rfl⟩ := hp
      simp only [List.mem_singleton] at hwm
      subst hwm
      exact .single has
    | @cons _ t _ q' hr' hw'' =>
      obtain ⟨q'', rfl⟩ := walk_head hw''
      simp only [List.cons.injEq] at hp
      obtain ⟨rfl, rfl⟩ := hp
      rcases List.mem_cons.mp hwm with rfl | hwm'
      · exact .single has
      · obtain ⟨h1, h2⟩ := unblocked3 hnb
        by_cases hc : (t, s) ∈ E
        · obtain ⟨d, hd, hz⟩ := nb_collider h1 has hc
          exact absurd hz (hnd d (RTC.head (show CG.EL.Rel E a s from has) hd))
        · have hst : (s, t) ∈ E := by
            rcases sym_cases hr' with h | h
            · exact h
            · exact absurd h hc
          have := ih h2 (fun d hd => hnd d (RTC.head (show CG.EL.Rel E a s from has) hd)) t q'' rfl hst w hwm'
          exact TC.of_step_rtc (show CG.EL.Rel E a s from has) this.toRTC

theorem walk_head_eq {S : List (α × α)} {x y a : α} {r : List α} (h : Walk S x y (a :: r)) : x = a := by
  cases h <;> rfl

theorem walk_suffix {S : List (α × α)} {y a : α} {r : List α} :
    ∀ (l : List α) {x : α}, Walk S x y (l ++ a :: r) → Walk S a y (a :: r)
  | [], x, h => by
    have := walk_head_eq h
    subst this; exact h
  | c :: l, x, h => by
    generalize hp : c :: l ++ a :: r = p at h
    cases h with
    | single => simp at hp
    | cons _ hw' =>
      simp only [List.cons_append, List.cons.injEq] at hp
      obtain ⟨_, rfl⟩ := hp
      exact walk_suffix l hw'

/-- an optional node in front of a list -/
def pre : Option α → List α → List α
  | none, p => p
  | some c, p => c :: p

/-- cutting the loop `a … a` out of an unblocked walk (with an optional node in front) leaves it unblocked -/
theorem cut_unblocked {E S : List (α × α)} {Z : List α} (hac : Acyclic (CG.EL.Rel E))
    (hS : ∀ a b, CG.EL.Rel S a b → CG.EL.Rel (sym E) a b) {a y : α} {m r : List α}
    (hw : Walk S a y (a :: m ++ a :: r)) (c : Option α) (hub : ¬ Blocked E Z (pre c (a :: m ++ a :: r))) :
    ¬ Blocked E Z (pre c (a :: r)) := by
  have hwE : Walk (sym E) a y (a :: m ++ a :: r) := walk_mono hS hw
  have hnb0 : ¬ Blocked E Z (a :: m ++ a :: r) := by
    cases c with
    | none => exact hub
    | some c => exact fun h => hub (blocked_cons c h)
  cases c with
  | none => exact fun h => hub (blocked_suffix (a :: m) h)
  | some c =>
    cases r with
    | nil => simp [pre, Blocked]
    | cons r0 r' =>
      intro hbl
      rcases hbl with hb | hb
      · cases m with
        | nil =>
          cases hwE with
          | cons hr hw' =>
            have := walk_head_eq hw'
            subst this
            rcases sym_cases hr with h | h <;> exact acyclic_irrefl hac _ h
        | cons m0 m'' =>
          have h_first : ¬ BlocksAt E Z c a m0 := fun h => hub (Or.inl h)
          have ham0 : CG.EL.Rel (sym E) a m0 := by
            cases hwE with
            | cons hr hw' =>
              have := walk_head_eq hw'
              subst this; exact hr
          obtain ⟨mi, mk, hm⟩ : ∃ mi mk, m0 :: m'' = mi ++ [mk] := by
            rcases List.eq_nil_or_concat (m0 :: m'') with h | ⟨l', b, h⟩
            · simp at h
            · exact ⟨l', b, by rw [h, List.concat_eq_append]⟩
          have h_last : ¬ BlocksAt E Z mk a r0 := by
            intro h
            apply hub
            refine (blocked_iff_exists E Z _).mpr ⟨c :: a :: mi, mk, a, r0, r', ?_, h⟩
            show c :: (a :: (m0 :: m'') ++ a :: r0 :: r') = _
            rw [List.cons_append, hm]
            simp
          rcases hb with ⟨⟨hca, hr0a⟩, hnd⟩ | ⟨hnc, haZ⟩
          · have hnc1 : (m0, a) ∉ E := fun h => h_first (Or.inl ⟨⟨hca, h⟩, hnd⟩)
            have hout : (a, m0) ∈ E := by
              rcases sym_cases ham0 with h | h
              · exact h
              · exact absurd h hnc1
            have := fwd_chain hwE hnb0 hnd m0 (m'' ++ a :: r0 :: r') rfl hout a (by simp)
            exact hac a this
          · have h1 : (c, a) ∈ E ∧ (m0, a) ∈ E :=
              Classical.byContradiction fun h => h_first (Or.inr ⟨h, haZ⟩)
            have h2 : (mk, a) ∈ E ∧ (r0, a) ∈ E :=
              Classical.byContradiction fun h => h_last (Or.inr ⟨h, haZ⟩)
            exact hnc ⟨h1.1, h2.2⟩
      · exact hub (blocked_suffix (c :: a :: m) hb)

theorem simplify_aux {E S : List (α × α)} {Z : List α} (hac : Acyclic (CG.EL.Rel E))
    (hS : ∀ a b, CG.EL.Rel S a b → CG.EL.Rel (sym E) a b) :
    ∀ (n : Nat) (p : List α), p.length ≤ n → ∀ (c : Option α) (a y : α), Walk S a y p → ¬ Blocked E Z (pre c p) →
      ∃ q, Walk S a y q ∧ q.Nodup ∧ (∀ w, w ∈ q → w ∈ p) ∧ ¬ Blocked E Z (pre c q) := by
  intro n
  induction n with
  | zero => intro p hl c a y hw; cases hw <;> simp at hl
  | succ n ih =>
    intro p hl c a y hw hub
    obtain ⟨t, rfl⟩ := walk_head hw
    by_cases hat : a ∈ t
    · obtain ⟨m, r, rfl⟩ := List.append_of_mem hat
      have hw' : Walk S a y (a :: r) := walk_suffix (a :: m) hw
      have hub' := cut_unblocked hac hS hw c hub
      obtain ⟨q, h1, h2, h3, h4⟩ := ih (a :: r) (by simp at hl ⊢; omega) c a y hw' hub'
      refine ⟨q, h1, h2, ?_, h4⟩
      intro w hwq
      have := h3 w hwq
      simp only [List.mem_cons, List.mem_append] at this ⊢
      rcases this with h | h
      · exact Or.inl h
      · exact Or.inr (Or.inr (Or.inr h))
    · cases hw with
      | single => exact ⟨[a], .single a, by simp, fun w h => h, hub⟩
      | @cons _ s _ t' hr hw' =>
        have hub1 : ¬ Blocked E Z (pre (some a) t) := by
          cases c with
          | none => exact hub
          | some c => exact fun h => hub (blocked_cons c h)
        obtain ⟨q', h1, h2, h3, h4⟩ := ih t (by simp at hl; omega) (some a) s y hw' hub1
        refine ⟨a :: q', .cons hr h1, List.nodup_cons.mpr ⟨fun h => hat (h3 a h), h2⟩, ?_, ?_⟩
        · intro w hwq
          rcases List.mem_cons.mp hwq with h | h
          · exact h ▸ List.mem_cons_self
          · exact List.mem_cons_of_mem _ (h3 w h)
        · cases c with
          | none => exact h4
          | some c' =>
            obtain ⟨q'', rfl⟩ := walk_head h1
            obtain ⟨t'', rfl⟩ := walk_head hw'
            intro hbl
            rcases hbl with hb | hb
            · exact hub (Or.inl hb)
            · exact h4 hb

/-- **loop cutting.**  In a DAG, a walk (inside any sub-relation `S` of the skeleton) on which no interior node blocks
    contains a *simple* path with the same property between the same two nodes. -/
theorem simplify {E S : List (α × α)} {Z : List α} (hac : Acyclic (CG.EL.Rel E))
    (hS : ∀ a b, CG.EL.Rel S a b → CG.EL.Rel (sym E) a b) {a y : α} {p : List α} (hw : Walk S a y p)
    (hnb : ¬ Blocked E Z p) : ∃ q, Walk S a y q ∧ q.Nodup ∧ (∀ w, w ∈ q → w ∈ p) ∧ ¬ Blocked E Z q :=
  simplify_aux hac hS p.length p (Nat.le_refl _) none a y hw hnb

/-- **direction 2.**  If some `x ∈ X` and `y ∈ Y` are connected in the skeleton of the pruned graph, then some `x' ∈ X`
    and `y' ∈ Y` are joined by a simple path of the skeleton of `E` that is open (not `BlockedX`). -/
theorem pruned_conn_gives_open {E E' : List (α × α)} {Z U X Y : List α} (hac : Acyclic (CG.EL.Rel E))
    (hE' : IsPruned E E' Z U) (hU : ∀ u, u ∈ U → u ∈ X ∨ u ∈ Y ∨ u ∈ Z) {x y : α} (hx : x ∈ X) (hy : y ∈ Y)
    (h : RTC (CG.EL.Rel (sym E')) x y) :
    ∃ x' y' q, x' ∈ X ∧ y' ∈ Y ∧ Walk (sym E) x' y' q ∧ q.Nodup ∧ ¬ BlockedX E Z q := by
  obtain ⟨x', y', q, hx', hy', hw, hnb⟩ := conn_gives_gw hac hE' hU hx hy h
  obtain ⟨q', h1, h2, _, h4⟩ :=
    simplify (S := sym E') hac (fun _ _ => sym_mono (fun _ _ => pruned_sub hE')) hw hnb
  obtain ⟨h5, h6⟩ := gw_open hac hE' ⟨h1, h4⟩
  exact ⟨x', y', q', hx', hy', h5, h2, h6⟩

end CG.NxOpen
