/-
Helper lemmas for C06: windows of labels, freshness of `deep`, what a chain of hand-overs preserves, sequential
allocation gives pairwise separated results.  Core Lean only.
-/
import CG.Model.Alias

namespace CG.Alias

/-! ## labels of lists -/

theorem mem_labelsL {l : Nat} : ∀ {os : List Obj}, l ∈ labelsL os ↔ ∃ o ∈ os, l ∈ labels o
  | [] => by simp [labelsL]
  | o :: os => by simp [labelsL, mem_labelsL (os := os)]

theorem labelsL_append : ∀ (a b : List Obj), labelsL (a ++ b) = labelsL a ++ labelsL b
  | [], b => by simp [labelsL]
  | o :: a, b => by simp [labelsL, labelsL_append a b]

/-! ## windows and separation -/

/-- all labels of `o` lie in `[a, b)` -/
def Window (a b : Nat) (o : Obj) : Prop := ∀ l ∈ labels o, a ≤ l ∧ l < b

def WindowL (a b : Nat) (os : List Obj) : Prop := ∀ l ∈ labelsL os, a ≤ l ∧ l < b

/-- no common location -/
def Separated (x y : Obj) : Prop := ∀ l ∈ labels x, l ∉ labels y

def SepL (xs ys : List Obj) : Prop := ∀ l ∈ labelsL xs, l ∉ labelsL ys

/-- all labels below `n` -/
def Below (n : Nat) (o : Obj) : Prop := ∀ l ∈ labels o, l < n

def BelowL (n : Nat) (os : List Obj) : Prop := ∀ l ∈ labelsL os, l < n

instance (n : Nat) (os : List Obj) : Decidable (BelowL n os) := by unfold BelowL; infer_instance

instance (x y : Obj) : Decidable (Separated x y) := by unfold Separated; infer_instance

theorem windowL_iff {a b : Nat} {os : List Obj} : WindowL a b os ↔ ∀ o ∈ os, Window a b o := by
  constructor
  · intro h o ho l hl; exact h l (mem_labelsL.mpr ⟨o, ho, hl⟩)
  · intro h l hl
    obtain ⟨o, ho, hlo⟩ := mem_labelsL.mp hl
    exact h o ho l hlo

theorem belowL_iff {n : Nat} {os : List Obj} : BelowL n os ↔ ∀ o ∈ os, Below n o := by
  constructor
  · intro h o ho l hl; exact h l (mem_labelsL.mpr ⟨o, ho, hl⟩)
  · intro h l hl
    obtain ⟨o, ho, hlo⟩ := mem_labelsL.mp hl
    exact h o ho l hlo

theorem Window.mono {a b a' b' : Nat} {o : Obj} (h : Window a b o) (ha : a' ≤ a) (hb : b ≤ b') :
    Window a' b' o := by
  intro l hl; have := h l hl; omega

theorem WindowL.mono {a b a' b' : Nat} {os : List Obj} (h : WindowL a b os) (ha : a' ≤ a) (hb : b ≤ b') :
    WindowL a' b' os := by
  intro l hl; have := h l hl; omega

theorem windowL_nil (a b : Nat) : WindowL a b [] := by intro l hl; simp [labelsL] at hl

theorem windowL_cons {a b : Nat} {o : Obj} {os : List Obj} :
    WindowL a b (o :: os) ↔ Window a b o ∧ WindowL a b os := by
  simp only [windowL_iff, List.mem_cons, forall_eq_or_imp]

theorem windowL_append {a b : Nat} {xs ys : List Obj} :
    WindowL a b (xs ++ ys) ↔ WindowL a b xs ∧ WindowL a b ys := by
  simp only [windowL_iff, List.mem_append]
  constructor
  · intro h; exact ⟨fun o ho => h o (Or.inl ho), fun o ho => h o (Or.inr ho)⟩
  · rintro ⟨h1, h2⟩ o (ho | ho)
    · exact h1 o ho
    · exact h2 o ho

theorem windowL_single {a b : Nat} {o : Obj} : WindowL a b [o] ↔ Window a b o := by
  simp [windowL_iff]

theorem Window.below {a b : Nat} {o : Obj} (h : Window a b o) : Below b o := fun l hl => (h l hl).2

theorem WindowL.belowL {a b : Nat} {os : List Obj} (h : WindowL a b os) : BelowL b os := fun l hl => (h l hl).2

theorem BelowL.mono {n m : Nat} {os : List Obj} (h : BelowL n os) (hm : n ≤ m) : BelowL m os := by
  intro l hl; have := h l hl; omega

theorem belowL_append {n : Nat} {xs ys : List Obj} : BelowL n (xs ++ ys) ↔ BelowL n xs ∧ BelowL n ys := by
  simp only [BelowL, labelsL_append, List.mem_append]
  constructor
  · intro h; exact ⟨fun l hl => h l (Or.inl hl), fun l hl => h l (Or.inr hl)⟩
  · rintro ⟨h1, h2⟩ l (hl | hl)
    · exact h1 l hl
    · exact h2 l hl

/-- something above `n` shares nothing with something below `n` -/
theorem sepL_of_window_below {a b n : Nat} {xs ys : List Obj} (hx : WindowL a b xs) (hy : BelowL n ys)
    (hn : n ≤ a) : SepL xs ys := by
  intro l hl hl'
  have := hx l hl; have := hy l hl'; omega

theorem sepL_of_below_window {a b n : Nat} {xs ys : List Obj} (hx : BelowL n xs) (hy : WindowL a b ys)
    (hn : n ≤ a) : SepL xs ys := by
  intro l hl hl'
  have := hx l hl; have := hy l hl'; omega

theorem separated_of_windows {a b c d : Nat} {x y : Obj} (hx : Window a b x) (hy : Window c d y)
    (h : b ≤ c) : Separated x y := by
  intro l hl hl'
  have := hx l hl; have := hy l hl'; omega

theorem separated_of_windows' {a b c d : Nat} {x y : Obj} (hx : Window a b x) (hy : Window c d y)
    (h : d ≤ a) : Separated x y := by
  intro l hl hl'
  have := hx l hl; have := hy l hl'; omega

theorem SepL.symm {xs ys : List Obj} (h : SepL xs ys) : SepL ys xs := fun l hl hl' => h l hl' hl

theorem sepL_append_right {xs ys zs : List Obj} : SepL xs (ys ++ zs) ↔ SepL xs ys ∧ SepL xs zs := by
  simp only [SepL, labelsL_append, List.mem_append, not_or]
  constructor
  · intro h; exact ⟨fun l hl => (h l hl).1, fun l hl => (h l hl).2⟩
  · rintro ⟨h1, h2⟩ l hl; exact ⟨h1 l hl, h2 l hl⟩

/-! ## the three hand-overs -/

mutual
theorem deep_fresh : ∀ (o : Obj) (n : Nat), n ≤ (deep o n).2 ∧ Window n (deep o n).2 (deep o n).1
  | .atom, n => by simp [deep, Window, labels]
  | .box _ kids, n => by
    have ih := deepL_fresh kids (n + 1)
    simp only [deep]
    refine ⟨by omega, ?_⟩
    intro l hl
    simp only [labels] at hl
    rcases List.mem_cons.mp hl with h | h
    · subst h; omega
    · have := ih.2 l h; omega
theorem deepL_fresh : ∀ (os : List Obj) (n : Nat), n ≤ (deepL os n).2 ∧ WindowL n (deepL os n).2 (deepL os n).1
  | [], n => by simp [deepL, WindowL, labelsL]
  | o :: os, n => by
    have h1 := deep_fresh o n
    have h2 := deepL_fresh os (deep o n).2
    simp only [deepL]
    refine ⟨by omega, ?_⟩
    intro l hl
    simp only [labelsL] at hl
    rcases List.mem_append.mp hl with h | h
    · have := h1.2 l h; omega
    · have := h2.2 l h; omega
end

/-- the spike's statement: a deep copy made at allocator state `n` shares nothing with anything below `n` -/
theorem deep_separated (o src : Obj) (n : Nat) (hsrc : Below n src) : Separated (deep o n).1 src := by
  intro l hl hs
  have := (deep_fresh o n).2 l hl
  have := hsrc l hs
  omega

theorem shallow_mono (o : Obj) (n : Nat) : n ≤ (shallow o n).2 := by
  cases o <;> simp [shallow, fresh, pure_run]

theorem shallow_window_keep {a n : Nat} {o : Obj} (ha : a ≤ n) (hw : Window a n o) :
    Window a (shallow o n).2 (shallow o n).1 := by
  cases o with
  | atom => intro l hl; simp [shallow, pure_run, labels] at hl
  | box l0 kids =>
    intro l hl
    simp only [shallow, fresh, labels] at hl ⊢
    rcases List.mem_cons.mp hl with h | h
    · subst h; omega
    · have := hw l (by simp only [labels]; exact List.mem_cons_of_mem _ h); omega

theorem apply_mono (m : Mode) (o : Obj) (n : Nat) : n ≤ (m.apply o n).2 := by
  cases m
  · simp [Mode.apply, ref, pure_run]
  · exact shallow_mono o n
  · exact (deep_fresh o n).1

theorem apply_window_keep {a n : Nat} (m : Mode) {o : Obj} (ha : a ≤ n) (hw : Window a n o) :
    Window a (m.apply o n).2 (m.apply o n).1 := by
  cases m
  · simpa [Mode.apply, ref, pure_run] using hw
  · exact shallow_window_keep ha hw
  · exact (deep_fresh o n).2.mono ha (Nat.le_refl _)

theorem chain_mono : ∀ (ms : List Mode) (o : Obj) (n : Nat), n ≤ (chain ms o n).2
  | [], o, n => by simp [chain, pure_run]
  | m :: ms, o, n => by
    have h1 := apply_mono m o n
    have h2 := chain_mono ms (m.apply o n).1 (m.apply o n).2
    simp only [chain]; omega

theorem chain_window_keep {a : Nat} : ∀ (ms : List Mode) (o : Obj) (n : Nat), a ≤ n → Window a n o →
    Window a (chain ms o n).2 (chain ms o n).1
  | [], o, n, _, hw => by simpa [chain, pure_run] using hw
  | m :: ms, o, n, ha, hw => by
    have h1 := apply_mono m o n
    simp only [chain]
    exact chain_window_keep ms _ _ (by omega) (apply_window_keep m ha hw)

/-- a chain that contains a `deepcopy` hands out only locations allocated during the chain -/
theorem chain_fresh : ∀ (ms : List Mode) (o : Obj) (n : Nat), Mode.deep ∈ ms →
    Window n (chain ms o n).2 (chain ms o n).1
  | [], _, _, h => by simp at h
  | m :: ms, o, n, h => by
    simp only [chain]
    by_cases hm : m = .deep
    · subst hm
      have hd := deep_fresh o n
      exact chain_window_keep ms _ _ hd.1 hd.2
    · have hin : Mode.deep ∈ ms := by
        rcases List.mem_cons.mp h with h | h
        · exact absurd h.symm hm
        · exact h
      have h1 := apply_mono m o n
      exact (chain_fresh ms _ _ hin).mono h1 (Nat.le_refl _)

/-! ## cells -/

theorem buildCell_mono (h : Heap) (c : Cell) (n : Nat) : n ≤ (buildCell h c n).2 := by
  unfold buildCell
  split
  · exact chain_mono _ _ _
  · have := chain_mono c.via (.box n []) (n + 1); omega

theorem window_emptyBox (n : Nat) : Window n (n + 1) (.box n []) := by
  intro l hl; simp [labels, labelsL] at hl; omega

theorem buildCell_fresh (h : Heap) (c : Cell) (n : Nat) (hd : c.isDeep = true) :
    Window n (buildCell h c n).2 (buildCell h c n).1 := by
  unfold buildCell
  split
  · next o ho =>
    have : Mode.deep ∈ c.via := by
      simp only [Cell.isDeep, Bool.or_eq_true] at hd
      rcases hd with hd | hd
      · cases hs : c.src <;> simp [hs, Src.isEmpty, Heap.get?] at hd ho
      · simpa using hd
    exact chain_fresh _ _ _ this
  · exact chain_window_keep c.via _ _ (Nat.le_succ n) (window_emptyBox n)

/-- a function that always allocates its whole result -/
def FreshFn {α : Type} (f : α → Alloc Obj) : Prop :=
  ∀ x n, n ≤ (f x n).2 ∧ Window n (f x n).2 (f x n).1

theorem freshFn_fresh {α : Type} (kids : List Obj) (hk : ∀ k ∈ kids, k = Obj.atom) :
    FreshFn (fun (_ : α) => fresh kids) := by
  intro _ n
  refine ⟨by simp [fresh], ?_⟩
  intro l hl
  simp only [fresh, labels] at hl ⊢
  rcases List.mem_cons.mp hl with h | h
  · subst h; omega
  · obtain ⟨o, ho, hlo⟩ := mem_labelsL.mp h
    rw [hk o ho] at hlo; simp [labels] at hlo

/-! ## sequential allocation -/

theorem mapA_length {α β : Type} (f : α → Alloc β) : ∀ (xs : List α) (n : Nat), (mapA f xs n).1.length = xs.length
  | [], _ => by simp [mapA]
  | x :: xs, n => by simp [mapA, mapA_length f xs]

theorem mapA_mono {α β : Type} (f : α → Alloc β) (hf : ∀ x n, n ≤ (f x n).2) :
    ∀ (xs : List α) (n : Nat), n ≤ (mapA f xs n).2
  | [], _ => by simp [mapA]
  | x :: xs, n => by
    have h1 := hf x n
    have h2 := mapA_mono f hf xs (f x n).2
    simp only [mapA]; omega

/-- results allocated one after the other lie in the allocated window and are pairwise separated -/
theorem mapA_fresh {α : Type} (f : α → Alloc Obj) (hf : FreshFn f) :
    ∀ (xs : List α) (n : Nat), n ≤ (mapA f xs n).2 ∧ WindowL n (mapA f xs n).2 (mapA f xs n).1 ∧
      (mapA f xs n).1.Pairwise Separated
  | [], n => by simp [mapA, windowL_nil]
  | x :: xs, n => by
    have h1 := hf x n
    have h2 := mapA_fresh f hf xs (f x n).2
    simp only [mapA]
    refine ⟨by omega, ?_, ?_⟩
    · rw [windowL_cons]
      exact ⟨h1.2.mono (Nat.le_refl _) h2.1, h2.2.1.mono h1.1 (Nat.le_refl _)⟩
    · rw [List.pairwise_cons]
      refine ⟨?_, h2.2.2⟩
      intro y hy
      exact separated_of_windows h1.2 (windowL_iff.mp h2.2.1 y hy) (Nat.le_refl _)


/-! ## segments: lists allocated one element after the other inside `[a, b)` -/

structure Seg (a b : Nat) (os : List Obj) : Prop where
  le : a ≤ b
  win : WindowL a b os
  sep : os.Pairwise Separated

theorem seg_nil {a b : Nat} (h : a ≤ b) : Seg a b [] := ⟨h, windowL_nil a b, List.Pairwise.nil⟩

theorem seg_single {a b : Nat} {o : Obj} (hle : a ≤ b) (hw : Window a b o) : Seg a b [o] :=
  ⟨hle, windowL_single.mpr hw, List.pairwise_singleton _ _⟩

theorem Seg.mono {a b a' b' : Nat} {os : List Obj} (h : Seg a b os) (ha : a' ≤ a) (hb : b ≤ b') : Seg a' b' os :=
  ⟨by have := h.le; omega, h.win.mono ha hb, h.sep⟩

theorem Seg.append {a b b' c : Nat} {xs ys : List Obj} (h1 : Seg a b xs) (h2 : Seg b' c ys) (hb : b ≤ b') :
    Seg a c (xs ++ ys) := by
  have := h1.le; have := h2.le
  refine ⟨by omega, ?_, ?_⟩
  · rw [windowL_append]
    exact ⟨h1.win.mono (Nat.le_refl _) (by omega), h2.win.mono (by omega) (Nat.le_refl _)⟩
  · rw [List.pairwise_append]
    refine ⟨h1.sep, h2.sep, ?_⟩
    intro x hx y hy
    exact separated_of_windows (windowL_iff.mp h1.win x hx) (windowL_iff.mp h2.win y hy) hb

theorem mapA_seg {α : Type} (f : α → Alloc Obj) (hf : FreshFn f) (xs : List α) (n : Nat) :
    Seg n (mapA f xs n).2 (mapA f xs n).1 :=
  ⟨(mapA_fresh f hf xs n).1, (mapA_fresh f hf xs n).2.1, (mapA_fresh f hf xs n).2.2⟩

theorem seg_range' : ∀ (k n : Nat), Seg n (n + k) ((List.range' n k).map cellOf)
  | 0, n => by simpa using seg_nil (Nat.le_refl n)
  | k + 1, n => by
    have ih := seg_range' k (n + 1)
    have h1 : Seg n (n + 1) [cellOf n] := seg_single (Nat.le_succ n) (window_emptyBox n)
    have h2 := h1.append ih (Nat.le_refl _)
    have e : n + 1 + k = n + (k + 1) := by omega
    rw [e] at h2
    simpa [List.range'_succ] using h2

/-! ## stages -/

theorem gmetaCell_deep (k : StageKind) : k.gmetaCell.isDeep = true := by
  cases k with
  | copy b => cases b <;> rfl
  | _ => rfl

theorem nodeCell_deep (cls : Cls) (k : StageKind) (pk : Pick) : (k.nodeCell cls pk).isDeep = true := by
  cases k with
  | copy b => cases b <;> cases cls <;> rfl
  | minimal => simp only [StageKind.nodeCell]; split <;> rfl
  | extend => simp only [StageKind.nodeCell]; split <;> rfl
  | summary => simp only [StageKind.nodeCell]; split <;> rfl
  | _ => cases cls <;> rfl

theorem edgeCell_deep (k : StageKind) (pk : EPick) : (k.edgeCell .repaired pk).isDeep = true := by
  cases k with
  | copy b => cases b <;> rfl
  | extend => simp only [StageKind.edgeCell]; split <;> rfl
  | summary => simp only [StageKind.edgeCell]; split <;> rfl
  | _ => rfl

theorem freshFn_buildCell {α : Type} (h : Heap) (g : α → Cell) (hg : ∀ x, (g x).isDeep = true) :
    FreshFn (fun x => buildCell h (g x)) :=
  fun x n => ⟨buildCell_mono h (g x) n, buildCell_fresh h (g x) n (hg x)⟩

theorem edgeCells_zip (ps : List EPick) (es : List Obj) (hl : es.length = ps.length) :
    ((ps.zip es).map (fun x => (x.1.s, x.1.d, x.2))).map (·.2.2) = es := by
  rw [List.map_map]
  have : ((fun x : Nat × Nat × Obj => x.2.2) ∘ fun x : EPick × Obj => (x.1.s, x.1.d, x.2)) = Prod.snd := by
    funext x; rfl
  rw [this]
  exact List.map_snd_zip (by omega)

/-- what one stage of the repaired tree builds: everything inside the allocated window, metadata cells pairwise
    separated – whatever the plan and whatever the previous graph -/
theorem runStage_spec (cls : Cls) (k : StageKind) (p : Plan) (h : Heap) (n : Nat) :
    n ≤ (runStage cls .repaired k p h n).2 ∧
    Seg n (runStage cls .repaired k p h n).2 (runStage cls .repaired k p h n).1.objs ∧
    (runStage cls .repaired k p h n).1.metaCells.Pairwise Separated := by
  have hg1 := buildCell_mono h k.gmetaCell n
  have hg2 := buildCell_fresh h k.gmetaCell n (gmetaCell_deep k)
  have hns := mapA_seg (fun pk => buildCell h (k.nodeCell cls pk))
    (freshFn_buildCell h _ (nodeCell_deep cls k)) p.nodes (buildCell h k.gmetaCell n).2
  have hes := mapA_seg (fun pk => buildCell h (k.edgeCell .repaired pk))
    (freshFn_buildCell h _ (edgeCell_deep k)) p.edges
    (mapA (fun pk => buildCell h (k.nodeCell cls pk)) p.nodes (buildCell h k.gmetaCell n).2).2
  have hls := seg_range' p.lagBuckets
    (mapA (fun pk => buildCell h (k.edgeCell .repaired pk)) p.edges
      (mapA (fun pk => buildCell h (k.nodeCell cls pk)) p.nodes (buildCell h k.gmetaCell n).2).2).2
  have hvs := seg_range' p.varBuckets
    ((mapA (fun pk => buildCell h (k.edgeCell .repaired pk)) p.edges
      (mapA (fun pk => buildCell h (k.nodeCell cls pk)) p.nodes (buildCell h k.gmetaCell n).2).2).2 + p.lagBuckets)
  have hlen := mapA_length (fun pk => buildCell h (k.edgeCell .repaired pk)) p.edges
    (mapA (fun pk => buildCell h (k.nodeCell cls pk)) p.nodes (buildCell h k.gmetaCell n).2).2
  have hsg := seg_single hg1 hg2
  have hall := hsg.append (hns.append (hes.append (hls.append hvs (Nat.le_refl _)) (Nat.le_refl _)) (Nat.le_refl _))
    (Nat.le_refl _)
  have hmeta := hsg.append (hns.append hes (Nat.le_refl _)) (Nat.le_refl _)
  simp only [runStage, Heap.objs, Heap.metaCells, Heap.cacheCells, Heap.edgeCells, optL, List.nil_append,
    edgeCells_zip _ _ hlen]
  refine ⟨hall.le, ?_, ?_⟩
  · simpa [List.append_assoc] using hall
  · simpa using hmeta.sep

theorem runExtend_spec (pMin pExt : Plan) (h : Heap) (n : Nat) :
    n ≤ (runExtend .repaired pMin pExt h n).2 ∧
    Seg n (runExtend .repaired pMin pExt h n).2 (runExtend .repaired pMin pExt h n).1.objs ∧
    (runExtend .repaired pMin pExt h n).1.metaCells.Pairwise Separated := by
  have h1 := runStage_spec .ts .minimal pMin h n
  simp only [runExtend]
  split
  · exact h1
  · have h2 := runStage_spec .ts .extend pExt (runStage .ts .repaired .minimal pMin h n).1
      (runStage .ts .repaired .minimal pMin h n).2
    exact ⟨by omega, h2.2.1.mono h1.1 (Nat.le_refl _), h2.2.2⟩

/-- every deriving API of the repaired tree, every plan, every source heap -/
theorem runDerived_spec (cls : Cls) (d : Derived) (plans : List Plan) (h : Heap) (n : Nat) :
    n ≤ (runDerived cls .repaired d plans h n).2 ∧
    Seg n (runDerived cls .repaired d plans h n).2 (runDerived cls .repaired d plans h n).1.objs ∧
    (runDerived cls .repaired d plans h n).1.metaCells.Pairwise Separated := by
  cases d with
  | extend => exact runExtend_spec _ _ h n
  | stationary =>
    have h1 := runStage_spec .ts .minimal (plans.getD 0 Plan.empty) h n
    have h2 := runExtend_spec (plans.getD 1 Plan.empty) (plans.getD 2 Plan.empty)
      (runStage .ts .repaired .minimal (plans.getD 0 Plan.empty) h n).1
      (runStage .ts .repaired .minimal (plans.getD 0 Plan.empty) h n).2
    simp only [runDerived]
    exact ⟨by omega, h2.2.1.mono h1.1 (Nat.le_refl _), h2.2.2⟩
  | _ => exact runStage_spec _ _ _ h n

/-! ## templates -/

mutual
/-- every `cell` leaf of the template satisfies `P` -/
def Tpl.All (P : Cell → Prop) : Tpl → Prop
  | .atom => True
  | .cell c => P c
  | .fresh kids => Tpl.AllL P kids
def Tpl.AllL (P : Cell → Prop) : List Tpl → Prop
  | [] => True
  | t :: ts => Tpl.All P t ∧ Tpl.AllL P ts
end

theorem allL_map {α : Type} (P : Cell → Prop) (f : α → Tpl) :
    ∀ (xs : List α), (∀ x ∈ xs, Tpl.All P (f x)) → Tpl.AllL P (xs.map f)
  | [], _ => by simp [Tpl.AllL]
  | x :: xs, h => by
    simp only [List.map, Tpl.AllL]
    exact ⟨h x (by simp), allL_map P f xs (fun y hy => h y (by simp [hy]))⟩

theorem allL_append (P : Cell → Prop) : ∀ (xs ys : List Tpl), Tpl.AllL P xs → Tpl.AllL P ys → Tpl.AllL P (xs ++ ys)
  | [], _, _, h2 => by simpa using h2
  | x :: xs, ys, h1, h2 => by
    simp only [List.cons_append, Tpl.AllL] at h1 ⊢
    exact ⟨h1.1, allL_append P xs ys h1.2 h2⟩

/-- the cell's result is wholly allocated by the call, on this heap -/
def CellFresh (h : Heap) (c : Cell) : Prop := ∀ n, Window n (buildCell h c n).2 (buildCell h c n).1

mutual
theorem build_spec (h : Heap) : ∀ (t : Tpl) (n : Nat), Tpl.All (CellFresh h) t →
    n ≤ (build h t n).2 ∧ Window n (build h t n).2 (build h t n).1.1 ∧ Seg n (build h t n).2 (build h t n).1.2
  | .atom, n, _ => by
    simp only [build]
    exact ⟨Nat.le_refl _, by intro l hl; simp [labels] at hl, seg_nil (Nat.le_refl _)⟩
  | .cell c, n, hc => by
    simp only [build]
    exact ⟨buildCell_mono h c n, hc n, seg_single (buildCell_mono h c n) (hc n)⟩
  | .fresh kids, n, hk => by
    have ih := buildL_spec h kids n hk
    simp only [build]
    refine ⟨by omega, ?_, ih.2.2.mono (Nat.le_refl _) (Nat.le_succ _)⟩
    intro l hl
    simp only [labels] at hl
    rcases List.mem_cons.mp hl with hl | hl
    · subst hl; omega
    · have := ih.2.1 l hl; omega
theorem buildL_spec (h : Heap) : ∀ (ts : List Tpl) (n : Nat), Tpl.AllL (CellFresh h) ts →
    n ≤ (buildL h ts n).2 ∧ WindowL n (buildL h ts n).2 (buildL h ts n).1.1 ∧
      Seg n (buildL h ts n).2 (buildL h ts n).1.2
  | [], n, _ => by
    simp only [buildL]
    exact ⟨Nat.le_refl _, windowL_nil _ _, seg_nil (Nat.le_refl _)⟩
  | t :: ts, n, hk => by
    have h1 := build_spec h t n hk.1
    have h2 := buildL_spec h ts (build h t n).2 hk.2
    simp only [buildL]
    refine ⟨by omega, ?_, h1.2.2.append h2.2.2 (Nat.le_refl _)⟩
    rw [windowL_cons]
    exact ⟨h1.2.1.mono (Nat.le_refl _) h2.1, h2.2.1.mono h1.1 (Nat.le_refl _)⟩
end

/-- on a heap with flat metadata, the shallow copy `to_dict` makes of a cell is wholly new -/
theorem cellFresh_toDictCopy (h : Heap) (hf : FlatMeta h) (s : Src) : CellFresh h ⟨s, toDictCopy⟩ := by
  intro n
  simp only [buildCell]
  split
  · next o ho =>
    have hmem : o ∈ h.metaCells := by
      cases s with
      | gmeta => simp only [Heap.get?, Option.some.injEq] at ho; subst ho; simp [Heap.metaCells]
      | node i =>
        simp only [Heap.get?] at ho
        have := List.mem_of_getElem? ho
        simp [Heap.metaCells, this]
      | edge i =>
        simp only [Heap.get?] at ho
        have := List.mem_of_getElem? ho
        simp [Heap.metaCells, this]
      | empty => simp [Heap.get?] at ho
    have hflat := hf o hmem
    cases o with
    | atom => intro l hl; simp [toDictCopy, chain, Mode.apply, shallow, pure_run, labels] at hl
    | box l0 kids =>
      intro l hl
      simp only [toDictCopy, chain, Mode.apply, shallow, fresh, pure_run, labels] at hl ⊢
      rcases List.mem_cons.mp hl with hl | hl
      · subst hl; omega
      · obtain ⟨k, hk, hlk⟩ := mem_labelsL.mp hl
        simp only [Obj.flat, List.all_eq_true] at hflat
        have := hflat k hk
        cases k <;> simp [Obj.isAtom, labels] at this hlk
  · intro l hl
    simp only [toDictCopy, chain, Mode.apply, shallow, fresh, pure_run, labels, labelsL, List.mem_cons,
      List.not_mem_nil, or_false] at hl ⊢
    omega

theorem all_nodeDictTpl (P : Cell → Prop) (b : Bool) (i : Nat) (hP : ∀ s, P ⟨s, toDictCopy⟩) :
    Tpl.All P (nodeDictTpl b i) := by
  cases b <;> simp [nodeDictTpl, Tpl.All, Tpl.AllL, hP]

theorem all_edgeDictTpl (P : Cell → Prop) (b : Bool) (i s d : Nat) (hP : ∀ s, P ⟨s, toDictCopy⟩) :
    Tpl.All P (edgeDictTpl b i s d) := by
  have h1 := all_nodeDictTpl P true s hP
  have h2 := all_nodeDictTpl P true d hP
  cases b <;> simp [edgeDictTpl, Tpl.All, Tpl.AllL, hP, h1, h2]

theorem all_toDictTpl (P : Cell → Prop) (h : Heap) (b : Bool) (hP : ∀ s, P ⟨s, toDictCopy⟩) :
    Tpl.All P (toDictTpl h b) := by
  simp only [toDictTpl, Tpl.All]
  apply allL_append
  · simp only [Tpl.AllL, Tpl.All, and_true]
    refine ⟨allL_map P _ _ (fun i _ => all_nodeDictTpl P b i hP), allL_map P _ _ ?_⟩
    intro s _
    simp only [Tpl.All]
    exact allL_map P _ _ (fun e _ => all_edgeDictTpl P b _ _ _ hP)
  · cases b <;> simp [Tpl.AllL, Tpl.All, hP]

end CG.Alias
