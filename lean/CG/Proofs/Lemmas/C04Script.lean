/-
Lemmas about the mutator scripts of `CG/Model/Cache.lean`:

  * `cur_*` / `err_*` : the script of every mutator ends in the graph, and raises the exception, that the
    mechanism-level mirror of `OpsImpl.lean` / `Step.lean` computes (the scripts add the events, nothing else);
  * `safe_*` : no decorated call -- returning or raising -- leaves a write that is not followed by a reset.
-/
import CG.Model.Cache

namespace CG.Cache
open CG Std

/-! ### the current graph of a trace -/

@[simp] theorem cur_nil (g0 : Graph) : cur g0 [] = g0 := rfl
@[simp] theorem cur_write (g0 g : Graph) (t : Tr) : cur g0 (.write g :: t) = g := rfl
@[simp] theorem cur_ret (g0 : Graph) (t : Tr) : cur g0 (.ret :: t) = cur g0 t := rfl

/-- no write is pending: the most recent event is not a write -/
def clean : Tr → Prop
  | .write _ :: _ => False
  | _ => True

@[simp] theorem clean_nil : clean [] := trivial
@[simp] theorem clean_ret (t : Tr) : clean (.ret :: t) := trivial
@[simp] theorem not_clean_write (g : Graph) (t : Tr) : ¬ clean (.write g :: t) := fun h => h

/-- a call never leaves a pending write, whether it returns or raises -/
def Safe (f : Tr → Res) : Prop := ∀ t, clean t → clean (f t).1

/-- an undecorated body may RETURN with a pending write (its decorated caller resets), but may not RAISE with one -/
def RaiseSafe (f : Tr → Res) : Prop := ∀ t, clean t → (f t).2 ≠ none → clean (f t).1

theorem wrap_fst_snd (body : Tr → Res) (t : Tr) :
    (wrap body t).2 = (body t).2 ∧ ((body t).2 = none → (wrap body t).1 = .ret :: (body t).1) ∧
      ((body t).2 ≠ none → (wrap body t).1 = (body t).1) := by
  unfold wrap
  rcases h : body t with ⟨t', _ | e⟩ <;> simp

@[simp] theorem wrap_snd (body : Tr → Res) (t : Tr) : (wrap body t).2 = (body t).2 := (wrap_fst_snd body t).1

@[simp] theorem cur_wrap (g0 : Graph) (body : Tr → Res) (t : Tr) : cur g0 (wrap body t).1 = cur g0 (body t).1 := by
  unfold wrap
  rcases h : body t with ⟨t', _ | e⟩ <;> simp

theorem wrap_ok_clean (body : Tr → Res) (t : Tr) (h : (wrap body t).2 = none) : clean (wrap body t).1 := by
  have h' : (body t).2 = none := by simpa using h
  rw [(wrap_fst_snd body t).2.1 h']; trivial

theorem safe_wrap {body : Tr → Res} (hb : RaiseSafe body) : Safe (wrap body) := by
  intro t ht
  by_cases h : (body t).2 = none
  · exact wrap_ok_clean body t (by simpa using h)
  · rw [(wrap_fst_snd body t).2.2 h]; exact hb t ht h

theorem Safe.raiseSafe {f : Tr → Res} (h : Safe f) : RaiseSafe f := fun t ht _ => h t ht

@[simp] theorem direct_snd (t : Tr) (x : Except Err Graph) :
    (direct t x).2 = match x with | .ok _ => none | .error e => some e := by
  cases x <;> rfl

theorem cur_direct (g0 : Graph) (t : Tr) (x : Except Err Graph) :
    (cur g0 (direct t x).1, (direct t x).2) = lift (cur g0 t) x := by
  cases x <;> rfl

theorem raiseSafe_direct (f : Tr → Except Err Graph) : RaiseSafe (fun t => direct t (f t)) := by
  intro t ht h
  cases hx : f t with
  | ok g => simp [direct, hx] at h
  | error e => simpa [direct, hx] using ht

/-- projection of a result onto (graph, exception) -/
def proj (g0 : Graph) (r : Res) : Graph × Option Err := (cur g0 r.1, r.2)

@[simp] theorem proj_wrap (g0 : Graph) (body : Tr → Res) (t : Tr) : proj g0 (wrap body t) = proj g0 (body t) := by
  simp [proj]

@[simp] theorem proj_direct (g0 : Graph) (t : Tr) (x : Except Err Graph) : proj g0 (direct t x) = lift (cur g0 t) x :=
  cur_direct g0 t x

theorem proj_mk (g0 : Graph) (t : Tr) (e : Option Err) : proj g0 (t, e) = (cur g0 t, e) := rfl

/-- destructuring a projected result -/
theorem proj_eq {g0 : Graph} {r : Res} {g : Graph} {e : Option Err} (h : proj g0 r = (g, e)) :
    cur g0 r.1 = g ∧ r.2 = e := by
  simpa [proj, Prod.ext_iff] using h

variable (g0 : Graph)

/-! ### add_node -/

theorem proj_addNodeWith (f : Graph → Except Err Graph) (t : Tr) :
    proj g0 (addNodeWith g0 f t) = lift (cur g0 t) (f (cur g0 t)) := by
  unfold addNodeWith
  cases (cur g0 t).cls with
  | plain => simp
  | ts =>
    simp only [proj_wrap]
    cases hx : f (cur g0 t) with
    | ok g => simp [wrap, direct, hx, proj, lift]
    | error e => simp [wrap, direct, hx, proj, lift]

theorem safe_addNodeWith (f : Graph → Except Err Graph) : Safe (addNodeWith g0 f) := by
  intro t ht
  unfold addNodeWith
  cases (cur g0 t).cls with
  | plain => exact safe_wrap (raiseSafe_direct _) t ht
  | ts =>
    refine safe_wrap ?_ t ht
    intro t ht h
    have hs := safe_wrap (raiseSafe_direct (fun t => f (cur g0 t))) t ht
    dsimp only at h hs ⊢
    revert h hs
    rcases wrap (fun t => direct t (f (cur g0 t))) t with ⟨t', _ | e⟩ <;> simp

/-! ### delete_edge -/

theorem proj_deleteEdgeT (s d : String) (ty? : Option EdgeType) (t : Tr) :
    proj g0 (deleteEdgeT g0 s d ty? t) = lift (cur g0 t) (deleteEdge (cur g0 t) s d ty?) := by
  simp [deleteEdgeT]

theorem safe_deleteEdgeT (s d : String) (ty? : Option EdgeType) : Safe (deleteEdgeT g0 s d ty?) :=
  safe_wrap (raiseSafe_direct _)

/-! ### delete_node -/

theorem clean_cascadeT (ks : List EKey) (t : Tr) (ht : clean t) : clean (cascadeT g0 ks t) := by
  induction ks generalizing t with
  | nil => exact ht
  | cons k ks ih => exact ih _ trivial

theorem cur_cascadeT (ks : List EKey) (t : Tr) : cur g0 (cascadeT g0 ks t) = (cur g0 t).eraseEdges ks := by
  induction ks generalizing t with
  | nil => simp [cascadeT, Graph.eraseEdges]
  | cons k ks ih =>
    simp only [cascadeT, ih, cur_ret, cur_write]
    simp [Graph.eraseEdges, Graph.delEdgeRaw]

theorem cur_deleteNodeBody (n : String) (t : Tr) : cur g0 (deleteNodeBody g0 n t) = (cur g0 t).delNodeRaw n := by
  simp [deleteNodeBody, cur_cascadeT, Graph.delNodeRaw]

theorem proj_deleteNodeBaseT (n : String) (t : Tr) :
    proj g0 (deleteNodeBaseT g0 n t) = lift (cur g0 t) (deleteNode (cur g0 t) n) := by
  unfold deleteNodeBaseT deleteNode
  simp only [proj_wrap]
  by_cases h : (cur g0 t).hasNode n <;> simp [h, proj, lift, cur_deleteNodeBody]

theorem deleteNodeBaseT_ok (n : String) (t : Tr) (h : (cur g0 t).hasNode n = true) :
    deleteNodeBaseT g0 n t = (.ret :: deleteNodeBody g0 n t, none) := by
  simp [deleteNodeBaseT, wrap, h]

theorem safe_deleteNodeBaseT (n : String) : Safe (deleteNodeBaseT g0 n) := by
  refine safe_wrap ?_
  intro t ht h
  by_cases hn : (cur g0 t).hasNode n <;> simp_all

theorem proj_deleteNodeT (n : String) (t : Tr) :
    proj g0 (deleteNodeT g0 n t) = lift (cur g0 t) (deleteNode (cur g0 t) n) := by
  unfold deleteNodeT
  cases (cur g0 t).cls with
  | plain => exact proj_deleteNodeBaseT g0 n t
  | ts =>
    simp only [proj_wrap]
    by_cases h : (cur g0 t).hasNode n
    · simp only [h, Bool.not_true, Bool.false_eq_true, if_false]
      rw [proj_deleteNodeBaseT]; simp
    · simp [h, proj, lift, deleteNode]

theorem safe_deleteNodeT (n : String) : Safe (deleteNodeT g0 n) := by
  intro t ht
  unfold deleteNodeT
  cases (cur g0 t).cls with
  | plain => exact safe_deleteNodeBaseT g0 n t ht
  | ts =>
    refine safe_wrap ?_ t ht
    intro t ht h
    by_cases hn : (cur g0 t).hasNode n
    · -- the index write is followed by the decorated base call, which cannot raise here
      have : deleteNodeBaseT g0 n (.write (cur g0 t) :: t) = (.ret :: deleteNodeBody g0 n (.write (cur g0 t) :: t), none) :=
        deleteNodeBaseT_ok g0 n _ (by simpa using hn)
      simp [hn, this] at h
    · simpa [hn] using ht

/-- the nested form is what the full call does when the node exists -/
theorem deleteNodeT_of_hasNode (n : String) (t : Tr) (h : (cur g0 t).hasNode n = true) :
    deleteNodeT g0 n t = (deleteNodeNestedT g0 n t, none) := by
  unfold deleteNodeT deleteNodeNestedT
  cases (cur g0 t).cls with
  | plain => simp [deleteNodeBaseT_ok g0 n t h]
  | ts =>
    have h' : (cur g0 (.write (cur g0 t) :: t)).hasNode n = true := by simpa using h
    simp [wrap, h, deleteNodeBaseT_ok g0 n _ h']

theorem cur_deleteNodeNestedT (n : String) (t : Tr) : cur g0 (deleteNodeNestedT g0 n t) = (cur g0 t).delNodeRaw n := by
  unfold deleteNodeNestedT
  cases (cur g0 t).cls <;> simp [cur_deleteNodeBody]

theorem clean_deleteNodeNestedT (n : String) (t : Tr) : clean (deleteNodeNestedT g0 n t) := by
  unfold deleteNodeNestedT
  cases (cur g0 t).cls <;> trivial

theorem cur_delNodesT (ns : List String) (t : Tr) :
    cur g0 (delNodesT g0 ns t) = ns.foldl (fun acc n => acc.delNodeRaw n) (cur g0 t) := by
  induction ns generalizing t with
  | nil => rfl
  | cons n ns ih => simp [delNodesT, ih, cur_deleteNodeNestedT]

theorem clean_delNodesT (ns : List String) (t : Tr) (ht : clean t) : clean (delNodesT g0 ns t) := by
  induction ns generalizing t with
  | nil => exact ht
  | cons n ns ih => exact ih _ (clean_deleteNodeNestedT g0 n t)

/-- after a non-empty clean-up the last event is the reset of the last `delete_node` -/
theorem clean_delNodesT_of_ne (ns : List String) (t : Tr) (h : ns ≠ []) : clean (delNodesT g0 ns t) := by
  cases ns with
  | nil => exact absurd rfl h
  | cons n ns => exact clean_delNodesT g0 ns _ (clean_deleteNodeNestedT g0 n t)

theorem cur_dropNewT (before : List String) (t : Tr) : cur g0 (dropNewT g0 before t) = dropNewNodes before (cur g0 t) := by
  simp [dropNewT, dropNewNodes, cur_delNodesT]

theorem clean_dropNewT (before : List String) (t : Tr) (ht : clean t) : clean (dropNewT g0 before t) :=
  clean_delNodesT g0 _ t ht

/-! ### _prepare_nodes -/

theorem proj_ensureNodeT (e : Endpoint) (t : Tr) :
    proj g0 (ensureNodeT g0 e t) = lift (cur g0 t) (ensureNode (cur g0 t) e) := by
  unfold ensureNodeT ensureNode
  by_cases h : (cur g0 t).hasNode e.id
  · simp [h, proj, lift]
  · simp only [h, Bool.false_eq_true, if_false]
    rcases e.obj with _ | ⟨vt, m⟩ <;> simp [proj_addNodeWith]

theorem safe_ensureNodeT (e : Endpoint) : Safe (ensureNodeT g0 e) := by
  intro t ht
  unfold ensureNodeT
  by_cases h : (cur g0 t).hasNode e.id
  · simpa [h] using ht
  · simp only [h, Bool.false_eq_true, if_false]
    rcases e.obj with _ | ⟨vt, m⟩
    · exact safe_addNodeWith g0 _ t ht
    · exact safe_addNodeWith g0 _ t ht

/-! ### node-existence facts needed for the cycle rollback -/

theorem hasNode_insNode_self (g : Graph) (i : String) (r : NodeRec) : (g.insNode i r).hasNode i = true := by
  simp [Graph.insNode, Graph.hasNode]

theorem hasNode_insNode_of (g : Graph) (i x : String) (r : NodeRec) (h : g.hasNode x = true) :
    (g.insNode i r).hasNode x = true := by
  simp only [Graph.insNode, Graph.hasNode] at h ⊢
  rw [ExtTreeMap.contains_insert]; simp [h]

theorem addNode_ok {g g1 : Graph} {i : String} {vt : VType} {m : Meta} (h : addNode g i vt m = .ok g1) :
    g1.hasNode i = true ∧ ∀ x, g.hasNode x = true → g1.hasNode x = true := by
  unfold addNode at h
  cases hr : mkNode g.cls i vt m with
  | error e => simp [hr, bind, Except.bind] at h
  | ok r =>
    by_cases hn : g.hasNode i
    · simp [hr, bind, Except.bind, hn] at h
    · simp only [hr, bind, Except.bind, hn, Bool.false_eq_true, if_false, pure, Except.pure, Except.ok.injEq] at h
      subst h
      exact ⟨hasNode_insNode_self g i r, fun x hx => hasNode_insNode_of g i x r hx⟩

theorem addNodeObj_ok {g g1 : Graph} {i : String} {vt : VType} {m : Meta} (h : addNodeObj g i vt m = .ok g1) :
    g1.hasNode i = true ∧ ∀ x, g.hasNode x = true → g1.hasNode x = true := by
  unfold addNodeObj at h
  by_cases hn : g.hasNode i
  · simp [hn] at h
  · cases hr : mkNode g.cls i vt m with
    | error e => simp [hr, bind, Except.bind, hn] at h
    | ok r =>
      simp only [hr, bind, Except.bind, hn, Bool.false_eq_true, if_false, pure, Except.pure, Except.ok.injEq] at h
      subst h
      exact ⟨hasNode_insNode_self g i r, fun x hx => hasNode_insNode_of g i x r hx⟩

theorem ensureNode_ok {g g1 : Graph} {e : Endpoint} (h : ensureNode g e = .ok g1) :
    g1.hasNode e.id = true ∧ ∀ x, g.hasNode x = true → g1.hasNode x = true := by
  unfold ensureNode at h
  by_cases hn : g.hasNode e.id
  · simp only [hn, if_true, Except.ok.injEq] at h
    subst h; exact ⟨hn, fun _ hx => hx⟩
  · simp only [hn, Bool.false_eq_true, if_false] at h
    rcases ho : e.obj with _ | ⟨vt, m⟩
    · rw [ho] at h; exact addNode_ok h
    · rw [ho] at h; exact addNodeObj_ok h

theorem orient_ok {g : Graph} {s d s' d' : String} {ty : EdgeType} (h : orient g s d ty = .ok (s', d')) :
    (s' = s ∧ d' = d) ∨ (s' = d ∧ d' = s) := by
  unfold orient at h
  split at h
  · simp only [Except.ok.injEq, Prod.mk.injEq] at h; exact .inl ⟨h.1.symm, h.2.symm⟩
  · split at h
    · split at h
      · simp only [Except.ok.injEq, Prod.mk.injEq] at h; exact .inr ⟨h.1.symm, h.2.symm⟩
      · cases h
    · simp only [Except.ok.injEq, Prod.mk.injEq] at h; exact .inl ⟨h.1.symm, h.2.symm⟩

theorem deleteEdge_insEdge (g : Graph) (s d : String) (r : EdgeRec) (hs : g.hasNode s = true) (hd : g.hasNode d = true) :
    deleteEdge (g.insEdge s d r) s d none = .ok ((g.insEdge s d r).delEdgeRaw s d) := by
  have h1 : (g.insEdge s d r).hasNode s = true := by simpa [Graph.insEdge, Graph.hasNode] using hs
  have h2 : (g.insEdge s d r).hasNode d = true := by simpa [Graph.insEdge, Graph.hasNode] using hd
  have h3 : (g.insEdge s d r).edges[(s, d)]? = some r := by simp [Graph.insEdge]
  simp [deleteEdge, h1, h2, h3]

/-! ### _set_edge -/

theorem proj_setEdgeT (s d : String) (r : EdgeRec) (validate : Bool) (t : Tr) :
    proj g0 (setEdgeT g0 s d r validate t) = setEdgeImpl (cur g0 t) s d r validate := by
  unfold setEdgeT setEdgeImpl
  by_cases h1 : (cur g0 t).hasEdge d s
  · simp [h1, proj]
  by_cases h2 : (cur g0 t).hasEdge s d
  · simp [h1, h2, proj]
  simp only [h1, h2, Bool.false_eq_true, if_false, cur_write]
  by_cases h3 : (validate && selfDepR ((cur g0 t).insEdge s d r).dirEdges d) = true
  · simp only [h3, if_true]
    have hp := proj_deleteEdgeT g0 s d none (.write ((cur g0 t).insEdge s d r) :: t)
    rw [cur_write] at hp
    cases hx : deleteEdge ((cur g0 t).insEdge s d r) s d none with
    | ok g'' =>
      rw [hx] at hp
      obtain ⟨hc, he⟩ := proj_eq hp
      rcases hq : deleteEdgeT g0 s d none (.write ((cur g0 t).insEdge s d r) :: t) with ⟨t'', e'⟩
      rw [hq] at hc he; simp only at hc he; subst he
      simp [proj, hc]
    | error e =>
      rw [hx] at hp
      obtain ⟨hc, he⟩ := proj_eq hp
      rcases hq : deleteEdgeT g0 s d none (.write ((cur g0 t).insEdge s d r) :: t) with ⟨t'', e'⟩
      rw [hq] at hc he; simp only at hc he; subst he
      simp [proj, hc]
  · simp [h3, proj]

/-- `_set_edge` never raises with its own write pending, PROVIDED both endpoints are nodes (they are: `add_edge`
    has just created or found them), because then the rollback through `delete_edge` returns normally -/
theorem raiseSafe_setEdgeT (s d : String) (r : EdgeRec) (validate : Bool) (t : Tr) (ht : clean t)
    (hs : (cur g0 t).hasNode s = true) (hd : (cur g0 t).hasNode d = true)
    (h : (setEdgeT g0 s d r validate t).2 ≠ none) : clean (setEdgeT g0 s d r validate t).1 := by
  unfold setEdgeT at h ⊢
  by_cases h1 : (cur g0 t).hasEdge d s
  · simpa [h1] using ht
  by_cases h2 : (cur g0 t).hasEdge s d
  · simpa [h1, h2] using ht
  simp only [h1, h2, Bool.false_eq_true, if_false, cur_write] at h ⊢
  by_cases h3 : (validate && selfDepR ((cur g0 t).insEdge s d r).dirEdges d) = true
  · simp only [h3, if_true] at h ⊢
    have : deleteEdgeT g0 s d none (.write ((cur g0 t).insEdge s d r) :: t) =
        (.ret :: .write (((cur g0 t).insEdge s d r).delEdgeRaw s d) :: .write ((cur g0 t).insEdge s d r) :: t, none) := by
      simp [deleteEdgeT, wrap, direct, deleteEdge_insEdge _ s d r hs hd]
    simp [this]
  · simp [h3] at h

/-! ### add_edge -/

theorem res_of_lift_ok {r : Res} {g g' : Graph} (h : proj g0 r = lift g (.ok g')) :
    ∃ t', r = (t', none) ∧ cur g0 t' = g' := by
  obtain ⟨hc, he⟩ := proj_eq h
  exact ⟨r.1, by rw [← he], hc⟩

theorem res_of_lift_error {r : Res} {g : Graph} {e : Err} (h : proj g0 r = lift g (.error e)) :
    ∃ t', r = (t', some e) ∧ cur g0 t' = g := by
  obtain ⟨hc, he⟩ := proj_eq h
  exact ⟨r.1, by rw [← he], hc⟩

theorem res_of_pair {r : Res} {g : Graph} {e : Option Err} (h : proj g0 r = (g, e)) :
    ∃ t', r = (t', e) ∧ cur g0 t' = g := by
  obtain ⟨hc, he⟩ := proj_eq h
  exact ⟨r.1, by rw [← he], hc⟩

theorem proj_addEdgeBodyT (s d : Endpoint) (ty : EdgeType) (m : Meta) (validate : Bool) (t : Tr) :
    proj g0 (addEdgeBodyT g0 s d ty m validate t) = addEdgeImpl (cur g0 t) s d ty m validate := by
  unfold addEdgeBodyT addEdgeImpl
  by_cases hsd : s.id = d.id
  · simp [hsd, proj]
  simp only [hsd, if_false]
  have h1 := proj_ensureNodeT g0 s t
  cases hx1 : ensureNode (cur g0 t) s with
  | error e =>
    rw [hx1] at h1
    obtain ⟨t1, hr1, hc1⟩ := res_of_lift_error g0 h1
    simp [hr1, proj, cur_dropNewT, hc1]
  | ok g1 =>
    rw [hx1] at h1
    obtain ⟨t1, hr1, hc1⟩ := res_of_lift_ok g0 h1
    simp only [hr1]
    have h2 := proj_ensureNodeT g0 d t1
    rw [hc1] at h2
    cases hx2 : ensureNode g1 d with
    | error e =>
      rw [hx2] at h2
      obtain ⟨t2, hr2, hc2⟩ := res_of_lift_error g0 h2
      simp [hr2, proj, cur_dropNewT, hc2]
    | ok g2 =>
      rw [hx2] at h2
      obtain ⟨t2, hr2, hc2⟩ := res_of_lift_ok g0 h2
      simp only [hr2]
      by_cases hdup : (cur g0 t).hasEdge s.id d.id
      · simp [hdup, proj, cur_dropNewT, hc2]
      simp only [hdup, Bool.false_eq_true, if_false, hc2]
      cases hor : orient g2 s.id d.id ty with
      | error e => simp [proj, cur_dropNewT, hc2]
      | ok sd =>
        obtain ⟨s', d'⟩ := sd
        simp only
        have h3 := proj_setEdgeT g0 s' d' { ty := ty, md := m } validate t2
        rw [hc2] at h3
        rcases hx3 : setEdgeImpl g2 s' d' { ty := ty, md := m } validate with ⟨g3, e3⟩
        rw [hx3] at h3
        obtain ⟨t3, hr3, hc3⟩ := res_of_pair g0 h3
        cases e3 with
        | none => simp [hr3, proj, hc3]
        | some e => simp [hr3, proj, cur_dropNewT, hc3]

theorem proj_addEdgeT (s d : Endpoint) (ty : EdgeType) (m : Meta) (validate : Bool) (t : Tr) :
    proj g0 (addEdgeT g0 s d ty m validate t) = addEdgeImpl (cur g0 t) s d ty m validate := by
  simp [addEdgeT, proj_addEdgeBodyT]

theorem proj_addEdgeST (s d : String) (ty : EdgeType) (m : Meta) (validate : Bool) (t : Tr) :
    proj g0 (addEdgeST g0 s d ty m validate t) = addEdgeImplS (cur g0 t) s d ty m validate :=
  proj_addEdgeT g0 _ _ ty m validate t

/-- THE raising paths of `add_edge`: whatever check fires, every write made so far has been followed by the return
    of a decorated call (`add_node` for an implicit endpoint, `delete_edge` for the cycle rollback, `delete_node`
    for the clean-up of implicit endpoints) -/
theorem raiseSafe_addEdgeBodyT (s d : Endpoint) (ty : EdgeType) (m : Meta) (validate : Bool) :
    RaiseSafe (addEdgeBodyT g0 s d ty m validate) := by
  intro t ht h
  unfold addEdgeBodyT at h ⊢
  by_cases hsd : s.id = d.id
  · simpa [hsd] using ht
  simp only [hsd, if_false] at h ⊢
  have h1 := proj_ensureNodeT g0 s t
  have s1 := safe_ensureNodeT g0 s t ht
  cases hx1 : ensureNode (cur g0 t) s with
  | error e =>
    rw [hx1] at h1
    obtain ⟨t1, hr1, hc1⟩ := res_of_lift_error g0 h1
    rw [hr1] at s1
    simpa [hr1] using clean_dropNewT g0 _ t1 s1
  | ok g1 =>
    rw [hx1] at h1
    obtain ⟨t1, hr1, hc1⟩ := res_of_lift_ok g0 h1
    rw [hr1] at s1
    simp only [hr1] at h ⊢
    have h2 := proj_ensureNodeT g0 d t1
    have s2 := safe_ensureNodeT g0 d t1 s1
    rw [hc1] at h2
    cases hx2 : ensureNode g1 d with
    | error e =>
      rw [hx2] at h2
      obtain ⟨t2, hr2, hc2⟩ := res_of_lift_error g0 h2
      rw [hr2] at s2
      simpa [hr2] using clean_dropNewT g0 _ t2 s2
    | ok g2 =>
      rw [hx2] at h2
      obtain ⟨t2, hr2, hc2⟩ := res_of_lift_ok g0 h2
      rw [hr2] at s2
      simp only [hr2] at h ⊢
      by_cases hdup : (cur g0 t).hasEdge s.id d.id
      · simpa [hdup] using clean_dropNewT g0 _ t2 s2
      simp only [hdup, Bool.false_eq_true, if_false, hc2] at h ⊢
      cases hor : orient g2 s.id d.id ty with
      | error e => simpa using clean_dropNewT g0 _ t2 s2
      | ok sd =>
        obtain ⟨s', d'⟩ := sd
        simp only [hor] at h ⊢
        -- both endpoints are nodes of g2
        have n1 := ensureNode_ok hx1
        have n2 := ensureNode_ok hx2
        have hs2 : g2.hasNode s.id = true := n2.2 _ n1.1
        have hd2 : g2.hasNode d.id = true := n2.1
        have hends : (cur g0 t2).hasNode s' = true ∧ (cur g0 t2).hasNode d' = true := by
          rw [hc2]
          rcases orient_ok hor with ⟨rfl, rfl⟩ | ⟨rfl, rfl⟩
          · exact ⟨hs2, hd2⟩
          · exact ⟨hd2, hs2⟩
        have rs := raiseSafe_setEdgeT g0 s' d' { ty := ty, md := m } validate t2 s2 hends.1 hends.2
        rcases hq : setEdgeT g0 s' d' { ty := ty, md := m } validate t2 with ⟨t3, e3⟩
        rw [hq] at rs
        cases e3 with
        | none => simp [hq] at h
        | some e => simpa [hq] using clean_dropNewT g0 _ t3 (rs (by simp))

theorem safe_addEdgeT (s d : Endpoint) (ty : EdgeType) (m : Meta) (validate : Bool) :
    Safe (addEdgeT g0 s d ty m validate) :=
  safe_wrap (raiseSafe_addEdgeBodyT g0 s d ty m validate)

theorem safe_addEdgeST (s d : String) (ty : EdgeType) (m : Meta) (validate : Bool) :
    Safe (addEdgeST g0 s d ty m validate) :=
  safe_addEdgeT g0 _ _ ty m validate

/-! ### change_edge_type, replace_edge -/

/-- delete, add, on failure re-add the original: the common tail of `change_edge_type` and `replace_edge` -/
theorem proj_swapTail (s d ns nd : String) (ty nty : EdgeType) (md nmd : Meta) (t1 : Tr) :
    proj g0 (match addEdgeST g0 ns nd nty nmd true t1 with
      | (t2, none) => (t2, none)
      | (t2, some e) =>
        match addEdgeST g0 s d ty md false t2 with
        | (t3, none) => (t3, some e)
        | (t3, some e') => (t3, some e')) =
    (match addEdgeImplS (cur g0 t1) ns nd nty nmd true with
      | (g2, none) => (g2, none)
      | (g2, some e) =>
        match addEdgeImplS g2 s d ty md false with
        | (g3, none) => (g3, some e)
        | (g3, some e') => (g3, some e')) := by
  have h2 := proj_addEdgeST g0 ns nd nty nmd true t1
  rcases hx2 : addEdgeImplS (cur g0 t1) ns nd nty nmd true with ⟨g2, e2⟩
  rw [hx2] at h2
  obtain ⟨t2, hr2, hc2⟩ := res_of_pair g0 h2
  cases e2 with
  | none => simp [hr2, proj, hc2]
  | some e =>
    simp only [hr2]
    have h3 := proj_addEdgeST g0 s d ty md false t2
    rw [hc2] at h3
    rcases hx3 : addEdgeImplS g2 s d ty md false with ⟨g3, e3⟩
    rw [hx3] at h3
    obtain ⟨t3, hr3, hc3⟩ := res_of_pair g0 h3
    cases e3 <;> simp [hr3, proj, hc3]

theorem clean_swapTail (s d ns nd : String) (ty nty : EdgeType) (md nmd : Meta) (t1 : Tr) (ht : clean t1) :
    clean (match addEdgeST g0 ns nd nty nmd true t1 with
      | (t2, none) => (t2, none)
      | (t2, some e) =>
        match addEdgeST g0 s d ty md false t2 with
        | (t3, none) => (t3, some e)
        | (t3, some e') => (t3, some e')).1 := by
  have s2 := safe_addEdgeST g0 ns nd nty nmd true t1 ht
  rcases hq2 : addEdgeST g0 ns nd nty nmd true t1 with ⟨t2, e2⟩
  rw [hq2] at s2
  cases e2 with
  | none => simpa using s2
  | some e =>
    have s3 := safe_addEdgeST g0 s d ty md false t2 s2
    rcases hq3 : addEdgeST g0 s d ty md false t2 with ⟨t3, e3⟩
    rw [hq3] at s3
    cases e3 <;> simpa [hq3] using s3

theorem proj_changeEdgeTypeT (s d : String) (nt : EdgeType) (t : Tr) :
    proj g0 (changeEdgeTypeT g0 s d nt t) = changeEdgeTypeImpl (cur g0 t) s d nt := by
  unfold changeEdgeTypeT changeEdgeTypeImpl
  simp only [proj_wrap]
  cases hr : (cur g0 t).edges[(s, d)]? with
  | none => simp [proj]
  | some r =>
    simp only
    by_cases hty : r.ty = nt
    · simp [hty, proj]
    simp only [hty, if_false]
    have h1 := proj_deleteEdgeT g0 s d (some r.ty) t
    cases hx1 : deleteEdge (cur g0 t) s d (some r.ty) with
    | error e =>
      rw [hx1] at h1
      obtain ⟨t1, hr1, hc1⟩ := res_of_lift_error g0 h1
      simp [hr1, proj, hc1]
    | ok g1 =>
      rw [hx1] at h1
      obtain ⟨t1, hr1, hc1⟩ := res_of_lift_ok g0 h1
      simp only [hr1]
      rw [← hc1]
      exact proj_swapTail g0 s d s d r.ty nt r.md r.md t1

theorem safe_changeEdgeTypeT (s d : String) (nt : EdgeType) : Safe (changeEdgeTypeT g0 s d nt) := by
  refine safe_wrap (Safe.raiseSafe ?_)
  intro t ht
  cases hr : (cur g0 t).edges[(s, d)]? with
  | none => simpa [hr] using ht
  | some r =>
    simp only [hr]
    by_cases hty : r.ty = nt
    · simpa [hty] using ht
    simp only [hty, if_false]
    have s1 := safe_deleteEdgeT g0 s d (some r.ty) t ht
    rcases hq1 : deleteEdgeT g0 s d (some r.ty) t with ⟨t1, e1⟩
    rw [hq1] at s1
    cases e1 with
    | some e => simpa using s1
    | none => exact clean_swapTail g0 s d s d r.ty nt r.md r.md t1 s1

theorem proj_replaceEdgeT (s d ns nd : String) (ty? : Option EdgeType) (m? : Option Meta) (t : Tr) :
    proj g0 (replaceEdgeT g0 s d ns nd ty? m? t) = replaceEdgeImpl (cur g0 t) s d ns nd ty? m? := by
  unfold replaceEdgeT replaceEdgeImpl
  simp only [proj_wrap]
  cases hr : (cur g0 t).edges[(s, d)]? with
  | none => simp [proj]
  | some r =>
    simp only
    by_cases hex : (cur g0 t).hasEdge ns nd
    · simp [hex, proj]
    simp only [hex, Bool.false_eq_true, if_false]
    have h1 := proj_deleteEdgeT g0 s d none t
    cases hx1 : deleteEdge (cur g0 t) s d none with
    | error e =>
      rw [hx1] at h1
      obtain ⟨t1, hr1, hc1⟩ := res_of_lift_error g0 h1
      simp [hr1, proj, hc1]
    | ok g1 =>
      rw [hx1] at h1
      obtain ⟨t1, hr1, hc1⟩ := res_of_lift_ok g0 h1
      simp only [hr1]
      rw [← hc1]
      exact proj_swapTail g0 s d ns nd r.ty (ty?.getD r.ty) r.md (m?.getD r.md) t1

theorem safe_replaceEdgeT (s d ns nd : String) (ty? : Option EdgeType) (m? : Option Meta) :
    Safe (replaceEdgeT g0 s d ns nd ty? m?) := by
  refine safe_wrap (Safe.raiseSafe ?_)
  intro t ht
  cases hr : (cur g0 t).edges[(s, d)]? with
  | none => simpa [hr] using ht
  | some r =>
    simp only [hr]
    by_cases hex : (cur g0 t).hasEdge ns nd
    · simpa [hex] using ht
    simp only [hex, Bool.false_eq_true, if_false]
    have s1 := safe_deleteEdgeT g0 s d none t ht
    rcases hq1 : deleteEdgeT g0 s d none t with ⟨t1, e1⟩
    rw [hq1] at s1
    cases e1 with
    | some e => simpa using s1
    | none => exact clean_swapTail g0 s d ns nd r.ty (ty?.getD r.ty) r.md (m?.getD r.md) t1 s1

/-! ### replace_node -/

theorem proj_copyEdgesT (new : String) (inbound : Bool) (es : List (EKey × EdgeRec)) (t : Tr) :
    proj g0 (copyEdgesT g0 new inbound es t) = copyEdgesImpl new inbound (cur g0 t) es := by
  induction es generalizing t with
  | nil => simp [copyEdgesT, copyEdgesImpl, proj]
  | cons kr rest ih =>
    obtain ⟨k, r⟩ := kr
    unfold copyEdgesT copyEdgesImpl
    cases inbound with
    | true =>
      simp only [if_true]
      have h := proj_addEdgeST g0 k.1 new r.ty r.md true t
      rcases hx : addEdgeImplS (cur g0 t) k.1 new r.ty r.md true with ⟨g', e'⟩
      rw [hx] at h
      obtain ⟨t', hr', hc'⟩ := res_of_pair g0 h
      cases e' with
      | none => simp only [hr']; rw [ih, hc']
      | some e => simp [hr', proj, hc']
    | false =>
      simp only [Bool.false_eq_true, if_false]
      have h := proj_addEdgeST g0 new k.2 r.ty r.md true t
      rcases hx : addEdgeImplS (cur g0 t) new k.2 r.ty r.md true with ⟨g', e'⟩
      rw [hx] at h
      obtain ⟨t', hr', hc'⟩ := res_of_pair g0 h
      cases e' with
      | none => simp only [hr']; rw [ih, hc']
      | some e => simp [hr', proj, hc']

theorem safe_copyEdgesT (new : String) (inbound : Bool) (es : List (EKey × EdgeRec)) :
    Safe (copyEdgesT g0 new inbound es) := by
  induction es with
  | nil => intro t ht; simpa [copyEdgesT] using ht
  | cons kr rest ih =>
    obtain ⟨k, r⟩ := kr
    intro t ht
    unfold copyEdgesT
    have hs : clean (if inbound = true then addEdgeST g0 k.1 new r.ty r.md true t
        else addEdgeST g0 new k.2 r.ty r.md true t).1 := by
      cases inbound
      · simpa using safe_addEdgeST g0 new k.2 r.ty r.md true t ht
      · simpa using safe_addEdgeST g0 k.1 new r.ty r.md true t ht
    rcases hq : (if inbound = true then addEdgeST g0 k.1 new r.ty r.md true t
        else addEdgeST g0 new k.2 r.ty r.md true t) with ⟨t', e'⟩
    rw [hq] at hs
    cases e' with
    | none => exact ih t' hs
    | some e => simpa using hs

theorem proj_replaceNodeBaseBodyT (n : String) (new? : Option String) (vt? : Option VType) (m? : Option Meta) (t : Tr) :
    proj g0 (replaceNodeBaseBodyT g0 n new? vt? m? t) = replaceNodeBaseImpl (cur g0 t) n new? vt? m? := by
  unfold replaceNodeBaseBodyT replaceNodeBaseImpl
  cases hr : (cur g0 t).nodes[n]? with
  | none => simp [proj]
  | some r =>
    simp only
    cases new? with
    | none => simp
    | some new =>
      simp only
      by_cases hex : (cur g0 t).hasNode new
      · simp [hex, proj]
      simp only [hex, Bool.false_eq_true, if_false]
      have h1 := proj_addNodeWith g0 (fun g => addNode g new (vt?.getD r.vtype) (m?.getD r.md)) t
      cases hx1 : addNode (cur g0 t) new (vt?.getD r.vtype) (m?.getD r.md) with
      | error e =>
        simp only [hx1] at h1
        obtain ⟨t1, hr1, hc1⟩ := res_of_lift_error g0 h1
        simp [hr1, proj, hc1]
      | ok g1 =>
        simp only [hx1] at h1
        obtain ⟨t1, hr1, hc1⟩ := res_of_lift_ok g0 h1
        simp only [hr1]
        have h2 := proj_copyEdgesT g0 new true ((cur g0 t1).edgesTo n) t1
        rw [hc1] at h2 ⊢
        rcases hx2 : copyEdgesImpl new true g1 (g1.edgesTo n) with ⟨g2, e2⟩
        rw [hx2] at h2
        obtain ⟨t2, hr2, hc2⟩ := res_of_pair g0 h2
        cases e2 with
        | some e => simp [hr2, proj, cur_deleteNodeNestedT, hc2]
        | none =>
          simp only [hr2]
          have h3 := proj_copyEdgesT g0 new false ((cur g0 t2).edgesFrom n) t2
          rw [hc2] at h3 ⊢
          rcases hx3 : copyEdgesImpl new false g2 (g2.edgesFrom n) with ⟨g3, e3⟩
          rw [hx3] at h3
          obtain ⟨t3, hr3, hc3⟩ := res_of_pair g0 h3
          cases e3 <;> simp [hr3, proj, cur_deleteNodeNestedT, hc3]

/-- the raising paths of `replace_node`: a failed copy is followed by the decorated `delete_node(new)` -/
theorem safeBody_replaceNodeBaseBodyT (n : String) (new? : Option String) (vt? : Option VType) (m? : Option Meta) :
    RaiseSafe (replaceNodeBaseBodyT g0 n new? vt? m?) := by
  intro t ht h
  unfold replaceNodeBaseBodyT at h ⊢
  cases hr : (cur g0 t).nodes[n]? with
  | none => simpa [hr] using ht
  | some r =>
    simp only [hr] at h ⊢
    cases new? with
    | none => exact raiseSafe_direct (fun t => replaceNodeBase (cur g0 t) n none vt? m?) t ht h
    | some new =>
      simp only at h ⊢
      by_cases hex : (cur g0 t).hasNode new
      · simpa [hex] using ht
      simp only [hex, Bool.false_eq_true, if_false] at h ⊢
      have s1 := safe_addNodeWith g0 (fun g => addNode g new (vt?.getD r.vtype) (m?.getD r.md)) t ht
      rcases hq1 : addNodeWith g0 (fun g => addNode g new (vt?.getD r.vtype) (m?.getD r.md)) t with ⟨t1, e1⟩
      rw [hq1] at s1
      cases e1 with
      | some e => simpa using s1
      | none =>
        simp only [hq1] at h ⊢
        rcases hq2 : copyEdgesT g0 new true ((cur g0 t1).edgesTo n) t1 with ⟨t2, e2⟩
        cases e2 with
        | some e => simpa using clean_deleteNodeNestedT g0 new t2
        | none =>
          simp only [hq2] at h ⊢
          rcases hq3 : copyEdgesT g0 new false ((cur g0 t2).edgesFrom n) t2 with ⟨t3, e3⟩
          cases e3 with
          | some e => simpa using clean_deleteNodeNestedT g0 new t3
          | none => simp [hq3] at h

theorem proj_replaceNodeT (n : String) (new? : Option String) (lag? : Option Int) (var? : Option String)
    (vt? : Option VType) (m? : Option Meta) (t : Tr) :
    proj g0 (replaceNodeT g0 n new? lag? var? vt? m? t) = replaceNodeImpl (cur g0 t) n new? lag? var? vt? m? := by
  unfold replaceNodeT replaceNodeImpl
  cases (cur g0 t).cls with
  | plain => simp [proj_replaceNodeBaseBodyT]
  | ts =>
    simp only [proj_wrap]
    cases new? with
    | some new =>
      simp only
      by_cases hb : (lag?.isSome || var?.isSome) = true
      · simp [hb, proj]
      · simp [hb, proj_replaceNodeBaseBodyT]
    | none =>
      simp only
      by_cases hb : (lag?.isSome || var?.isSome) = true
      · simp only [hb, if_true]
        cases Name.parse n with
        | none => simp [proj]
        | some vl =>
          obtain ⟨dv, dl⟩ := vl
          simp only
          cases Name.format (var?.getD dv) (lag?.getD dl) with
          | none => simp [proj]
          | some new => simp [proj_replaceNodeBaseBodyT]
      · simp [hb, proj_replaceNodeBaseBodyT]

theorem safe_replaceNodeT (n : String) (new? : Option String) (lag? : Option Int) (var? : Option String)
    (vt? : Option VType) (m? : Option Meta) : Safe (replaceNodeT g0 n new? lag? var? vt? m?) := by
  intro t ht
  have hb := fun new? => safe_wrap (safeBody_replaceNodeBaseBodyT g0 n new? vt? m?)
  unfold replaceNodeT
  cases (cur g0 t).cls with
  | plain => exact hb new? t ht
  | ts =>
    refine safe_wrap (Safe.raiseSafe ?_) t ht
    intro t ht
    cases new? with
    | some new =>
      by_cases hc : (lag?.isSome || var?.isSome) = true
      · simpa [hc] using ht
      · simpa [hc] using hb (some new) t ht
    | none =>
      by_cases hc : (lag?.isSome || var?.isSome) = true
      · simp only [hc, if_true]
        cases Name.parse n with
        | none => simpa using ht
        | some vl =>
          obtain ⟨dv, dl⟩ := vl
          simp only
          cases Name.format (var?.getD dv) (lag?.getD dl) with
          | none => simpa using ht
          | some new => exact hb (some new) t ht
      · simpa [hc] using hb none t ht

/-! ### add_time_edge and the bulk adders -/

theorem proj_addTimeEdgeT (sv : String) (st : Int) (dv : String) (dt : Int) (m : Meta) (validate : Bool) (t : Tr) :
    proj g0 (addTimeEdgeT g0 sv st dv dt m validate t) = addTimeEdgeImpl (cur g0 t) sv st dv dt m validate := by
  unfold addTimeEdgeT addTimeEdgeImpl
  simp only [proj_wrap]
  cases Name.format sv st <;> cases Name.format dv dt <;>
    first | exact proj_addEdgeST g0 _ _ _ m validate t | simp [proj]

theorem safe_addTimeEdgeT (sv : String) (st : Int) (dv : String) (dt : Int) (m : Meta) (validate : Bool) :
    Safe (addTimeEdgeT g0 sv st dv dt m validate) := by
  refine safe_wrap (Safe.raiseSafe ?_)
  intro t ht
  cases h1 : Name.format sv st <;> cases h2 : Name.format dv dt <;> simp only [] <;>
    first | exact ht | exact safe_addEdgeST g0 _ _ _ m validate t ht

theorem safe_bulkT {α : Type} (f : α → Tr → Res) (hf : ∀ x, Safe (f x)) (xs : List α) : Safe (bulkT f xs) := by
  induction xs with
  | nil => intro t ht; simpa [bulkT] using ht
  | cons x xs ih =>
    intro t ht
    unfold bulkT
    have hs := hf x t ht
    rcases hq : f x t with ⟨t', e'⟩
    rw [hq] at hs
    cases e' with
    | none => exact ih t' hs
    | some e => simpa using hs

theorem proj_bulkT {α : Type} (f : α → Tr → Res) (fi : Graph → α → Graph × Option Err)
    (hf : ∀ x t, proj g0 (f x t) = fi (cur g0 t) x) (xs : List α) (t : Tr) :
    proj g0 (bulkT f xs t) = bulkI fi (cur g0 t) xs := by
  induction xs generalizing t with
  | nil => simp [bulkT, bulkI, proj]
  | cons x xs ih =>
    unfold bulkT bulkI
    have h := hf x t
    rcases hx : fi (cur g0 t) x with ⟨g', e'⟩
    rw [hx] at h
    obtain ⟨t', hr', hc'⟩ := res_of_pair g0 h
    cases e' with
    | none => simp only [hr']; rw [ih, hc']
    | some e => simp [hr', proj, hc']

/-- `bulk` of an atomic reference operation is `bulkI` of its lift -/
theorem bulk_eq_bulkI {α : Type} (f : Graph → α → Except Err Graph) (g : Graph) (xs : List α) :
    bulk f g xs = bulkI (fun g x => lift g (f g x)) g xs := by
  induction xs generalizing g with
  | nil => rfl
  | cons x xs ih =>
    unfold bulk bulkI
    cases hx : f g x with
    | ok g' => simp [lift, ih]
    | error e => simp [lift]

theorem proj_addPathT (path : List String) (validate : Bool) (t : Tr) :
    proj g0 (addPathT g0 path validate t) = addPathI (cur g0 t) path validate := by
  unfold addPathT addPathI
  simp only [proj_wrap]
  by_cases hp : path.isEmpty = true
  · simp [hp, proj]
  simp only [hp, Bool.false_eq_true, if_false]
  refine proj_bulkT g0 _ _ ?_ _ t
  intro p t
  by_cases he : (cur g0 t).hasEdge p.1 p.2 = true
  · simp [he, proj]
  · simp [he, proj_addEdgeST]

theorem safe_addPathT (path : List String) (validate : Bool) : Safe (addPathT g0 path validate) := by
  refine safe_wrap (Safe.raiseSafe ?_)
  intro t ht
  by_cases hp : path.isEmpty = true
  · simpa [hp] using ht
  simp only [hp, Bool.false_eq_true, if_false]
  refine safe_bulkT _ ?_ _ t ht
  intro p t ht
  by_cases he : (cur g0 t).hasEdge p.1 p.2 = true
  · simpa [he] using ht
  · simpa [he] using safe_addEdgeST g0 p.1 p.2 .directed [] validate t ht

/-! ### every public mutator -/

/-- the script of a call ends in the graph, and raises the exception, of the mechanism-level state machine -/
theorem proj_mutT (op : Op) (t : Tr) : proj g0 (mutT g0 op t) = stepM (cur g0 t) op := by
  cases op with
  | addNode i vt m => exact proj_addNodeWith g0 _ t
  | addNodeObj i vt m => exact proj_addNodeWith g0 _ t
  | tsAddNode i v l vt m => exact proj_addNodeWith g0 _ t
  | addEdge s d ty m v => exact proj_addEdgeT g0 s d ty m v t
  | deleteEdge s d ty => exact proj_deleteEdgeT g0 s d ty t
  | deleteNode i => exact proj_deleteNodeT g0 i t
  | changeEdgeType s d nt => exact proj_changeEdgeTypeT g0 s d nt t
  | replaceEdge s d ns nd ty m => exact proj_replaceEdgeT g0 s d ns nd ty m t
  | replaceNode i new l v vt m => exact proj_replaceNodeT g0 i new l v vt m t
  | addTimeEdge sv st dv dt m v => exact proj_addTimeEdgeT g0 sv st dv dt m v t
  | addNodesFrom ids =>
    simp only [mutT, addNodesFromT, proj_wrap, stepM, step, addNodesFrom, bulk_eq_bulkI]
    exact proj_bulkT g0 _ _ (fun x t => proj_addNodeWith g0 _ t) ids t
  | addEdgesFrom ps v =>
    simp only [mutT, addEdgesFromT, proj_wrap, stepM]
    exact proj_bulkT g0 _ _ (fun p t => proj_addEdgeST g0 p.1 p.2 .directed [] v t) ps t
  | addPath p v => exact proj_addPathT g0 p v t
  | addPaths ps =>
    simp only [mutT, addPathsT, proj_wrap, stepM]
    by_cases hp : ps.isEmpty = true
    · simp [hp, proj]
    simp only [hp, Bool.false_eq_true, if_false]
    exact proj_bulkT g0 _ _ (fun p t => proj_addPathT g0 p true t) ps t
  | addFullyConnected a b =>
    simp only [mutT, addFullyConnectedT, proj_wrap, stepM]
    exact proj_bulkT g0 _ _ (fun p t => proj_addEdgeST g0 p.1 p.2 .directed [] true t) _ t

/-- no public mutator, returning or raising, leaves a write that is not followed by a reset -/
theorem safe_mutT (op : Op) : Safe (mutT g0 op) := by
  cases op with
  | addNode i vt m => exact safe_addNodeWith g0 _
  | addNodeObj i vt m => exact safe_addNodeWith g0 _
  | tsAddNode i v l vt m => exact safe_addNodeWith g0 _
  | addEdge s d ty m v => exact safe_addEdgeT g0 s d ty m v
  | deleteEdge s d ty => exact safe_deleteEdgeT g0 s d ty
  | deleteNode i => exact safe_deleteNodeT g0 i
  | changeEdgeType s d nt => exact safe_changeEdgeTypeT g0 s d nt
  | replaceEdge s d ns nd ty m => exact safe_replaceEdgeT g0 s d ns nd ty m
  | replaceNode i new l v vt m => exact safe_replaceNodeT g0 i new l v vt m
  | addTimeEdge sv st dv dt m v => exact safe_addTimeEdgeT g0 sv st dv dt m v
  | addNodesFrom ids => exact safe_wrap (Safe.raiseSafe (safe_bulkT _ (fun i => safe_addNodeWith g0 _) ids))
  | addEdgesFrom ps v =>
    exact safe_wrap (Safe.raiseSafe (safe_bulkT _ (fun p => safe_addEdgeST g0 p.1 p.2 .directed [] v) ps))
  | addPath p v => exact safe_addPathT g0 p v
  | addPaths ps =>
    refine safe_wrap (Safe.raiseSafe ?_)
    intro t ht
    by_cases hp : ps.isEmpty = true
    · simpa [hp] using ht
    simp only [hp, Bool.false_eq_true, if_false]
    exact safe_bulkT _ (fun p => safe_addPathT g0 p true) ps t ht
  | addFullyConnected a b =>
    exact safe_wrap (Safe.raiseSafe
      (safe_bulkT _ (fun (p : String × String) => safe_addEdgeST g0 p.1 p.2 .directed [] true) _))

/-- on the single-element mutators `stepM` IS `step` -/
theorem stepM_eq_step (g : Graph) (op : Op) (h : op.single = true) : stepM g op = step g op := by
  cases op <;> first | rfl | simp [Op.single] at h

end CG.Cache
