/-
Helper lemmas for C08Gml: the graph-building half of `parse_gml_lines` on the value `parse_graph()` returns for a
generated text.
-/
import CG.Proofs.Lemmas.GmlParse

set_option linter.unusedSimpArgs false

namespace CG.NxGml

/-! ### the `defaultdict` -/

theorem dAppend_absent (acc : Dct) (k : List Char) (v : Value) (h : ∀ p ∈ acc, p.1 ≠ k) :
    dAppend acc k v = acc ++ [(k, [v])] := by
  induction acc with
  | nil => rfl
  | cons p acc ih =>
    obtain ⟨k', vs⟩ := p
    have hk : k' ≠ k := h (k', vs) (by simp)
    simp only [dAppend, hk, if_false, List.cons_append]
    rw [ih (fun q hq => h q (by simp [hq]))]

theorem dAppend_last (acc : Dct) (k : List Char) (ws : List Value) (v : Value) (h : ∀ p ∈ acc, p.1 ≠ k) :
    dAppend (acc ++ [(k, ws)]) k v = acc ++ [(k, ws ++ [v])] := by
  induction acc with
  | nil => simp [dAppend]
  | cons p acc ih =>
    obtain ⟨k', vs⟩ := p
    have hk : k' ≠ k := h (k', vs) (by simp)
    simp only [List.cons_append, dAppend, hk, if_false]
    rw [ih (fun q hq => h q (by simp [hq]))]

theorem foldl_dAppend_last (k : List Char) (vs : List Value) : ∀ (acc : Dct) (ws : List Value), (∀ p ∈ acc, p.1 ≠ k) →
    vs.foldl (fun a v => dAppend a k v) (acc ++ [(k, ws)]) = acc ++ [(k, ws ++ vs)] := by
  induction vs with
  | nil => intro acc ws _; simp
  | cons v vs ih =>
    intro acc ws h
    simp only [List.foldl_cons]
    rw [dAppend_last acc k ws v h, ih acc _ h]
    simp

theorem foldl_dAppend_new (k : List Char) (v : Value) (vs : List Value) (acc : Dct) (h : ∀ p ∈ acc, p.1 ≠ k) :
    (v :: vs).foldl (fun a v => dAppend a k v) acc = acc ++ [(k, v :: vs)] := by
  simp only [List.foldl_cons]
  rw [dAppend_absent acc k v h, foldl_dAppend_last k vs acc [v] h]
  rfl

theorem asList_cleanValue_dict (a : List (List Char × Value)) (rest : List Value) :
    asList (cleanValue (.dict a :: rest)) = .dict a :: rest := by
  cases rest <;> rfl

theorem cleanValue_single (v : Value) : cleanValue [v] = v := rfl

theorem nodeValsFrom_cons (i : Nat) (l : List Char) (ls : List (List Char)) :
    nodeValsFrom i (l :: ls) = .dict [(kId, .int i), (kLabel, labelValue l)] :: nodeValsFrom (i + 1) ls := rfl

def part (k : List Char) : List Value → Dct
  | [] => []
  | v :: vs => [(k, v :: vs)]

theorem foldl_part (k : List Char) (vs : List Value) (acc : Dct) (h : ∀ p ∈ acc, p.1 ≠ k) :
    vs.foldl (fun a v => dAppend a k v) acc = acc ++ part k vs := by
  cases vs with
  | nil => simp [part]
  | cons v vs => exact foldl_dAppend_new k v vs acc h

def dirPart (d : Bool) : Dct := if d then [(kDirected, [.int 1])] else []

theorem accOf_eq (d : Bool) (labels : List (List Char)) (edges : List (List Char × List Char)) :
    accOf d labels edges = dirPart d ++ part kNode (nodeValsFrom 0 labels) ++ part kEdge (edges.map (edgeVal labels)) := by
  have h1 : ∀ p ∈ dirPart d, p.1 = kDirected := by
    intro p hp
    cases d
    · simp [dirPart] at hp
    · simp only [dirPart, if_true, List.mem_cons, List.not_mem_nil, or_false] at hp
      subst hp; rfl
  have h2 : ∀ vs, ∀ p ∈ part kNode vs, p.1 = kNode := by
    intro vs p hp
    cases vs with
    | nil => simp [part] at hp
    | cons v vs =>
      simp only [part, List.mem_cons, List.not_mem_nil, or_false] at hp
      subst hp; rfl
  unfold accOf
  show List.foldl _ (List.foldl _ (dirPart d) _) _ = _
  rw [foldl_part kNode _ _ (fun p hp => by rw [h1 p hp]; decide)]
  rw [foldl_part kEdge _ _ (fun p hp => by
    rcases List.mem_append.mp hp with h | h
    · rw [h1 p h]; decide
    · rw [h2 _ p h]; decide)]

theorem keq_kDirected_kDirected : (kDirected == kDirected) = true := by decide
theorem keq_kDirected_kNode : (kDirected == kNode) = false := by decide
theorem keq_kDirected_kEdge : (kDirected == kEdge) = false := by decide
theorem keq_kMultigraph_kDirected : (kMultigraph == kDirected) = false := by decide
theorem keq_kMultigraph_kNode : (kMultigraph == kNode) = false := by decide
theorem keq_kMultigraph_kEdge : (kMultigraph == kEdge) = false := by decide
theorem keq_kNode_kDirected : (kNode == kDirected) = false := by decide
theorem keq_kNode_kNode : (kNode == kNode) = true := by decide
theorem keq_kNode_kEdge : (kNode == kEdge) = false := by decide
theorem keq_kEdge_kDirected : (kEdge == kDirected) = false := by decide
theorem keq_kEdge_kNode : (kEdge == kNode) = false := by decide
theorem keq_kEdge_kEdge : (kEdge == kEdge) = true := by decide

/-- what the rest of `parse_gml_lines` sees of the generated text -/
theorem graphParts_graphVal (d : Bool) (labels : List (List Char)) (edges : List (List Char × List Char)) :
    graphParts (graphVal d labels edges) = .ok (d, nodeValsFrom 0 labels, edges.map (edgeVal labels)) := by
  unfold graphVal
  rw [accOf_eq]
  generalize hes : edges.map (edgeVal labels) = es
  have hdict : ∀ v ∈ es, ∃ a, v = .dict a := by
    intro v hv
    rw [← hes] at hv
    obtain ⟨e, _, rfl⟩ := List.mem_map.mp hv
    exact ⟨_, rfl⟩
  cases d <;> cases labels <;> cases es
  all_goals
    try (rename_i v vs; obtain ⟨a, rfl⟩ := hdict v (by simp))
    simp only [dirPart, part, nodeValsFrom_cons, nodeValsFrom, Bool.false_eq_true, if_false, if_true, List.nil_append,
      List.append_nil, List.cons_append, cleanDct, List.map_cons, List.map_nil, graphParts, ok_bind, pure, Except.pure,
      List.lookup, keq_kDirected_kDirected, keq_kDirected_kNode, keq_kDirected_kEdge, keq_kMultigraph_kDirected, keq_kMultigraph_kNode, keq_kMultigraph_kEdge, keq_kNode_kDirected, keq_kNode_kNode, keq_kNode_kEdge, keq_kEdge_kDirected, keq_kEdge_kNode, keq_kEdge_kEdge, truthy, nodeVal, cleanValue_single, asList_cleanValue_dict]
    try rfl

/-! ### the node loop -/

/-- the labels that `parse_kv` does not read back as the string that was written -/
def Mangled (l : List Char) : Prop := l = ['(', ')'] ∨ l = ['[', ']']

instance (l : List Char) : Decidable (Mangled l) := by unfold Mangled; infer_instance

/-- the node that is read back for the label `l` (when `l` is not `[]`, which is read as an unhashable list) -/
def labelAtom (l : List Char) : Atom := if l = ['(', ')'] then .tuple0 else .str l

theorem labelAtom_ok {l : List Char} (h : ¬ Mangled l) : labelAtom l = .str l := by
  unfold labelAtom
  have h1 : l ≠ ['(', ')'] := fun e => h (Or.inl e)
  simp only [h1, if_false]

theorem labelAtom_inj {a b : List Char} (h : labelAtom a = labelAtom b) : a = b := by
  unfold labelAtom at h
  by_cases ha : a = ['(', ')'] <;> by_cases hb : b = ['(', ')']
  · rw [ha, hb]
  · simp [ha, hb] at h
  · simp [ha, hb] at h
  · simp only [ha, hb, if_false] at h; injection h

theorem toAtom_labelValue {l : List Char} (h : l ≠ ['[', ']']) : toAtom (labelValue l) = .ok (labelAtom l) := by
  unfold labelValue labelAtom
  by_cases h1 : l = ['(', ')']
  · simp only [h1, if_true]; rfl
  · simp only [h1, h, if_false]; rfl

/-- the id `generate_gml` gives to a label, as a node of the graph that is read back -/
def idOf (labels : List (List Char)) (l : List Char) : Atom := .int (labels.idxOf l)

theorem idOf_inj {labels : List (List Char)} {a b : List Char} (ha : a ∈ labels) (hb : b ∈ labels)
    (h : idOf labels a = idOf labels b) : a = b := by
  unfold idOf at h
  injection h with h
  have h' : labels.idxOf a = labels.idxOf b := by exact_mod_cast h
  have h1 := List.getElem_idxOf (List.idxOf_lt_length_iff.mpr ha)
  have h2 := List.getElem_idxOf (List.idxOf_lt_length_iff.mpr hb)
  rw [← h1, ← h2]
  simp only [h']

theorem idxOf_mid (pre : List (List Char)) (l : List Char) (ls : List (List Char)) (h : l ∉ pre) :
    (pre ++ l :: ls).idxOf l = pre.length := by
  rw [List.idxOf_append]
  simp [h]

theorem kv_facts : (kId == kId) = true ∧ (kLabel == kId) = false ∧ (kLabel == kLabel) = true ∧ (kId == kLabel) = false ∧
    (kSource == kSource) = true ∧ (kTarget == kSource) = false ∧ (kTarget == kTarget) = true ∧
    (kSource == kTarget) = false := by decide

theorem toAtom_int (i : Int) : toAtom (.int i) = .ok (.int i) := rfl

theorem buildNodes_step (i : Nat) (l : List Char) (rest : List Value) (ids : List Atom) (mapping : List (Atom × Atom))
    (hl : l ≠ ['[', ']']) (hid : Atom.int i ∉ ids) (hlab : labelAtom l ∉ mapping.map Prod.snd) :
    buildNodes (nodeVal i l :: rest) ids mapping =
      buildNodes rest (ids ++ [.int i]) (mapping ++ [(.int i, labelAtom l)]) := by
  obtain ⟨k1, k2, k3, k4, _⟩ := kv_facts
  have c1 : ids.contains (Atom.int i) = false := by simp [hid]
  have c2 : (mapping.map Prod.snd).contains (labelAtom l) = false := by
    cases h : (mapping.map Prod.snd).contains (labelAtom l)
    · rfl
    · exact absurd (List.contains_iff_mem.mp h) hlab
  rw [buildNodes]
  simp only [nodeVal, popAttr, List.lookup, k1, k2, k3, k4, ok_bind, pure, Except.pure, List.filter,
    bne, Bool.not_true, Bool.not_false, hashable, toAtom_int, toAtom_labelValue hl, c1, c2, Bool.false_eq_true, if_false,
    if_true, hasKey, List.any_nil, Bool.or_false]

/-- the label `[]` is read as a list, which cannot be a node -/
theorem buildNodes_bad (i : Nat) (rest : List Value) (ids : List Atom) (mapping : List (Atom × Atom))
    (hid : Atom.int i ∉ ids) :
    buildNodes (nodeVal i ['[', ']'] :: rest) ids mapping = .error .TypeError := by
  obtain ⟨k1, k2, k3, k4, _⟩ := kv_facts
  have c1 : ids.contains (Atom.int i) = false := by simp [hid]
  have hv : labelValue ['[', ']'] = .list [] := by rfl
  rw [buildNodes]
  simp only [nodeVal, popAttr, List.lookup, k1, k2, k3, k4, ok_bind, pure, Except.pure, List.filter,
    bne, Bool.not_true, Bool.not_false, hashable, toAtom, c1, Bool.false_eq_true, if_false, if_true, hv]
  rfl

def idsOf (labels pre : List (List Char)) : List Atom := pre.map (idOf labels)
def mappingOf (labels pre : List (List Char)) : List (Atom × Atom) := pre.map fun l => (idOf labels l, labelAtom l)

theorem idOf_not_mem {labels pre : List (List Char)} {l : List Char} (hsub : ∀ x ∈ pre, x ∈ labels) (hl : l ∈ labels)
    (hlpre : l ∉ pre) : idOf labels l ∉ idsOf labels pre := by
  intro hin
  obtain ⟨x, hx, hxe⟩ := List.mem_map.mp hin
  have := idOf_inj (hsub x hx) hl hxe
  subst this; exact hlpre hx

/-- the node loop over a stretch `ls` of labels without `[]` -/
theorem buildNodes_run (labels : List (List Char)) (hnd : labels.Nodup) (post : List (List Char)) :
    ∀ (ls pre : List (List Char)), pre ++ ls ++ post = labels → ['[', ']'] ∉ ls →
    buildNodes (nodeValsFrom pre.length (ls ++ post)) (idsOf labels pre) (mappingOf labels pre) =
      buildNodes (nodeValsFrom (pre ++ ls).length post) (idsOf labels (pre ++ ls)) (mappingOf labels (pre ++ ls)) := by
  intro ls
  induction ls with
  | nil => intro pre _ _; simp
  | cons l ls ih =>
    intro pre h hbad
    have hnd' := hnd
    rw [← h] at hnd'
    have hlpre : l ∉ pre := by
      intro hin
      have h1 := (List.nodup_append.mp hnd').1
      have := (List.nodup_append.mp h1).2.2 l hin l (by simp)
      exact this rfl
    have hlin : l ∈ labels := by rw [← h]; simp
    have hsub : ∀ x ∈ pre, x ∈ labels := fun x hx => by rw [← h]; simp [hx]
    have hidx : idOf labels l = Atom.int pre.length := by
      unfold idOf
      rw [← h, List.append_assoc, List.cons_append, idxOf_mid pre l (ls ++ post) hlpre]
    have hl : l ≠ ['[', ']'] := fun e => hbad (by simp [e])
    rw [List.cons_append, nodeValsFrom_cons]
    show buildNodes (nodeVal pre.length l :: _) _ _ = _
    rw [buildNodes_step pre.length l _ _ _ hl]
    · have := ih (pre ++ [l]) (by rw [← h]; simp) (fun hin => hbad (by simp [hin]))
      simp only [List.length_append, List.length_cons, List.length_nil, Nat.zero_add, List.append_assoc,
        List.cons_append, List.nil_append, idsOf, mappingOf, List.map_append, List.map_cons, List.map_nil, hidx] at this ⊢
      exact this
    · rw [← hidx]; exact idOf_not_mem hsub hlin hlpre
    · intro hin
      simp only [mappingOf, List.map_map] at hin
      obtain ⟨x, hx, hxe⟩ := List.mem_map.mp hin
      simp only [Function.comp] at hxe
      have := labelAtom_inj hxe
      subst this; exact hlpre hx

theorem buildNodes_all (labels : List (List Char)) (hnd : labels.Nodup) (hm : ['[', ']'] ∉ labels) :
    buildNodes (nodeValsFrom 0 labels) [] [] = .ok (idsOf labels labels, mappingOf labels labels) := by
  have := buildNodes_run labels hnd [] labels [] (by simp) hm
  simpa [idsOf, mappingOf, nodeValsFrom, buildNodes, pure, Except.pure] using this

theorem buildNodes_listLabel (labels : List (List Char)) (hnd : labels.Nodup) (hm : ['[', ']'] ∈ labels) :
    buildNodes (nodeValsFrom 0 labels) [] [] = .error .TypeError := by
  obtain ⟨pre, post, hsplit⟩ := List.append_of_mem hm
  have hnd' := hnd
  rw [hsplit] at hnd'
  have hpre : ['[', ']'] ∉ pre := by
    intro hin
    exact (List.nodup_append.mp hnd').2.2 _ hin _ (by simp) rfl
  have := buildNodes_run labels hnd (['[', ']'] :: post) pre [] (by simp [hsplit]) hpre
  simp only [List.nil_append, List.length_nil, idsOf, mappingOf, List.map_nil] at this
  rw [hsplit] at this ⊢
  rw [this, nodeValsFrom_cons]
  show buildNodes (nodeVal pre.length ['[', ']'] :: _) _ _ = _
  apply buildNodes_bad
  have hin : ['[', ']'] ∈ pre ++ ['[', ']'] :: post := by simp
  have := idOf_not_mem (labels := pre ++ ['[', ']'] :: post) (pre := pre) (fun x hx => by simp [hx]) hin hpre
  unfold idOf at this
  rw [idxOf_mid pre _ post hpre] at this
  exact this

/-! ### the edge loop -/

/-- an edge as the pair of ids that is read back -/
def idPair (labels : List (List Char)) (e : List Char × List Char) : Atom × Atom := (idOf labels e.1, idOf labels e.2)

/-- `a` and `b` are the same edge of a `DiGraph` (`d = true`) / `Graph` -/
def SameEdge (d : Bool) (a b : List Char × List Char) : Prop := a = b ∨ (d = false ∧ (a.2, a.1) = b)

instance (d : Bool) (a b : List Char × List Char) : Decidable (SameEdge d a b) := by unfold SameEdge; infer_instance

/-- what `list(G.edges)` of a (di)graph on `labels` satisfies: end points are nodes, no edge twice -/
structure EdgesOk (d : Bool) (labels : List (List Char)) (edges : List (List Char × List Char)) : Prop where
  mem : ∀ e ∈ edges, e.1 ∈ labels ∧ e.2 ∈ labels
  nodup : edges.Pairwise fun a b => ¬ SameEdge d a b

theorem idPair_inj {labels : List (List Char)} {a b : List Char × List Char} (ha : a.1 ∈ labels ∧ a.2 ∈ labels)
    (hb : b.1 ∈ labels ∧ b.2 ∈ labels) (h : idPair labels a = idPair labels b) : a = b := by
  unfold idPair at h
  injection h with h1 h2
  exact Prod.ext (idOf_inj ha.1 hb.1 h1) (idOf_inj ha.2 hb.2 h2)

theorem buildEdges_step (d : Bool) (labels : List (List Char)) (ids : List Atom) (e : List Char × List Char)
    (rest : List Value) (E : List (Atom × Atom)) (h1 : idOf labels e.1 ∈ ids) (h2 : idOf labels e.2 ∈ ids)
    (hE : hasEdge d E (idOf labels e.1) (idOf labels e.2) = false) :
    buildEdges d ids (edgeVal labels e :: rest) E = buildEdges d ids rest (E ++ [idPair labels e]) := by
  obtain ⟨_, _, _, _, k1, k2, k3, k4⟩ := kv_facts
  have c1 : ids.contains (Atom.int ↑(List.idxOf e.1 labels)) = true := List.contains_iff_mem.mpr h1
  have c2 : ids.contains (Atom.int ↑(List.idxOf e.2 labels)) = true := List.contains_iff_mem.mpr h2
  unfold idOf at hE
  rw [buildEdges]
  simp only [edgeVal, popAttr, List.lookup, k1, k2, k3, k4, ok_bind, pure, Except.pure, List.filter,
    bne, Bool.not_true, Bool.not_false, hashable, toAtom, c1, c2, hE, Bool.false_eq_true, if_false, if_true, hasKey,
    List.any_nil, Bool.or_false, idPair, idOf]

theorem buildEdges_all (d : Bool) (labels : List (List Char)) (edges : List (List Char × List Char))
    (hok : EdgesOk d labels edges) :
    ∀ (es done : List (List Char × List Char)), done ++ es = edges →
    buildEdges d (labels.map (idOf labels)) (es.map (edgeVal labels)) (done.map (idPair labels)) =
      .ok (edges.map (idPair labels)) := by
  intro es
  induction es with
  | nil =>
    intro done h
    simp only [List.append_nil] at h
    subst h; rfl
  | cons e es ih =>
    intro done h
    have hein : e ∈ edges := by rw [← h]; simp
    have hem := hok.mem e hein
    have hpw := hok.nodup
    rw [← h] at hpw
    have hcross : ∀ a ∈ done, ¬ SameEdge d a e := fun a ha => (List.pairwise_append.mp hpw).2.2 a ha e (by simp)
    have hdone : ∀ a ∈ done, a.1 ∈ labels ∧ a.2 ∈ labels := fun a ha => hok.mem a (by rw [← h]; simp [ha])
    simp only [List.map_cons]
    rw [buildEdges_step d labels _ e _ _ (List.mem_map.mpr ⟨_, hem.1, rfl⟩) (List.mem_map.mpr ⟨_, hem.2, rfl⟩)]
    · have := ih (done ++ [e]) (by rw [← h]; simp)
      simp only [List.map_append, List.map_cons, List.map_nil] at this
      exact this
    · unfold hasEdge
      have n1 : (done.map (idPair labels)).contains (idOf labels e.1, idOf labels e.2) = false := by
        cases hc : (done.map (idPair labels)).contains (idOf labels e.1, idOf labels e.2)
        · rfl
        · obtain ⟨a, ha, hae⟩ := List.mem_map.mp (List.contains_iff_mem.mp hc)
          have : a = e := idPair_inj (hdone a ha) hem hae
          exact absurd (Or.inl this) (hcross a ha)
      rw [n1, Bool.false_or]
      cases d with
      | true => rfl
      | false =>
        simp only [Bool.not_false, Bool.true_and]
        cases hc : (done.map (idPair labels)).contains (idOf labels e.2, idOf labels e.1)
        · rfl
        · obtain ⟨a, ha, hae⟩ := List.mem_map.mp (List.contains_iff_mem.mp hc)
          have : a = (e.2, e.1) := idPair_inj (b := (e.2, e.1)) (hdone a ha) ⟨hem.2, hem.1⟩ hae
          exact absurd (Or.inr ⟨rfl, by rw [this]⟩) (hcross a ha)

end CG.NxGml
