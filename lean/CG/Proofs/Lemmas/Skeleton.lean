/-
Helper lemmas about the skeleton readers (`CG/Model/Skeleton.lean`) on a well-formed graph; used by C07 (skeleton
equality) and C09.
-/
import CG.Proofs.Lemmas.Eq

namespace CG.Sk
open CG CG.C07 Std

/-! ### scanning a list of (key, value) pairs with distinct keys -/

theorem filter_key_of_mem {α β : Type} [BEq α] [LawfulBEq α] {l : List (α × β)}
    (hd : l.Pairwise (fun a b => a.1 ≠ b.1)) {k : α} {v : β} (hm : (k, v) ∈ l) :
    l.filter (fun kv => kv.1 == k) = [(k, v)] := by
  induction l with
  | nil => cases hm
  | cons x xs ih =>
    rw [List.pairwise_cons] at hd
    rcases List.mem_cons.1 hm with rfl | hm'
    · have : xs.filter (fun kv => kv.1 == k) = [] := by
        rw [List.filter_eq_nil_iff]
        intro y hy
        have := hd.1 y hy
        simp only [beq_iff_eq]
        exact fun e => this e.symm
      simp [this]
    · have hx : x.1 ≠ k := hd.1 (k, v) hm'
      simp [hx, ih hd.2 hm']

theorem filter_key_of_not_mem {α β : Type} [BEq α] [LawfulBEq α] {l : List (α × β)} {k : α}
    (hm : ∀ v, (k, v) ∉ l) : l.filter (fun kv => kv.1 == k) = [] := by
  rw [List.filter_eq_nil_iff]
  rintro ⟨a, b⟩ hy
  simp only [beq_iff_eq]
  rintro rfl
  exact hm b hy

theorem nodeList_distinct (g : Graph) : g.nodes.toList.Pairwise (fun a b => a.1 ≠ b.1) := by
  refine List.Pairwise.imp ?_ (ExtTreeMap.distinct_keys_toList (t := g.nodes))
  intro a b h e
  exact h (compare_eq_iff_eq.2 e)

theorem edgeList_distinct (g : Graph) : g.edges.toList.Pairwise (fun a b => a.1 ≠ b.1) := by
  refine List.Pairwise.imp ?_ (ExtTreeMap.distinct_keys_toList (t := g.edges))
  intro a b h e
  exact h ((ekCmp_eq_iff _ _).2 e)

theorem nodeList_filter (g : Graph) (n : String) :
    g.nodes.toList.filter (fun kv => kv.1 == n) = match g.nodes[n]? with | some r => [(n, r)] | none => [] := by
  cases h : g.nodes[n]? with
  | some r => exact filter_key_of_mem (nodeList_distinct g) ((mem_nodeList_iff g n r).2 h)
  | none =>
    apply filter_key_of_not_mem
    intro v hv
    rw [mem_nodeList_iff, h] at hv
    cases hv

theorem edgeList_filter (g : Graph) (k : EKey) :
    g.edges.toList.filter (fun kv => kv.1 == k) = match g.edges[k]? with | some r => [(k, r)] | none => [] := by
  cases h : g.edges[k]? with
  | some r => exact filter_key_of_mem (edgeList_distinct g) ((mem_edgeList_iff g k r).2 h)
  | none =>
    apply filter_key_of_not_mem
    intro v hv
    rw [mem_edgeList_iff, h] at hv
    cases hv

/-! ### nodes -/

theorem rebuildAll_id (c : GraphClass) (l : List (String × NodeRec))
    (h : ∀ kv ∈ l, rebuildNode c kv.1 kv.2 = .ok kv.2) : rebuildAll c l = .ok l := by
  induction l with
  | nil => rfl
  | cons kv rest ih =>
    simp only [rebuildAll, h kv (List.mem_cons_self ..), ih (fun x hx => h x (List.mem_cons_of_mem _ hx))]

/-- the rebuilt skeleton nodes are the graph's nodes: same identifiers, variable types, metadata (and, in the
    time-series class, the same variable and lag, re-derived from the identifier) -/
theorem skNodes_eq {g : Graph} (hg : WF g) : skNodes g = .ok (getNodes g) := by
  unfold skNodes
  apply rebuildAll_id
  rintro ⟨n, r⟩ hm
  have hr : g.nodes[n]? = some r := (mem_nodeList_iff g n r).1 hm
  cases hc : g.cls with
  | plain => rfl
  | ts =>
    obtain ⟨h1, h2⟩ := hg.tsName hc n r hr
    simp only [rebuildNode, mkTsNode, h1, h2]

theorem skGetNode_ok {h : Graph} (hh : WF h) (n : String) (b : NodeV) :
    skGetNode h n = .ok b ↔ ∃ r, h.nodes[n]? = some r ∧ b = ⟨h.cls, n, r⟩ := by
  unfold skGetNode
  rw [skNodes_eq hh]
  simp only [getNodes, nodeList_filter]
  cases h.nodes[n]? <;> simp [eq_comm]

/-! ### edges -/

theorem skEdges_eq (g : Graph) : skEdges g = g.edges.toList.map fun kv => (kv.1, forceTy true kv.2) := by
  simp [skEdges, getEdges_all, forceTy]

theorem skEdgePairs_eq (g : Graph) : skEdgePairs g = g.edges.keys := by
  simp [skEdgePairs, skEdges_eq, ← ExtTreeMap.map_fst_toList_eq_keys]

theorem skEdgeVs_eq (g : Graph) : skEdgeVs g = g.edges.toList.map fun kv => edgeV g (kv.1, forceTy true kv.2) := by
  simp [skEdgeVs, skEdges_eq]

/-- scanning for either orientation finds the one edge between the two nodes -/
theorem edgeList_filter2 {g : Graph} (hg : WF g) (s d : String) :
    g.edges.toList.filter (fun kv => kv.1 == (s, d) || kv.1 == (d, s)) =
      match edgeBetween g s d with | some kv => [kv] | none => [] := by
  unfold edgeBetween
  cases h1 : g.edges[(s, d)]? with
  | some r =>
    have : g.edges.toList.filter (fun kv => kv.1 == (s, d) || kv.1 == (d, s)) =
        g.edges.toList.filter (fun kv => kv.1 == (s, d)) := by
      apply List.filter_congr
      rintro ⟨k, r'⟩ hk
      by_cases e : k = (d, s)
      · subst e
        have h2 : (d, s) ∈ g.edges := (mem_edges_iff g _).2 ⟨r', (mem_edgeList_iff g _ _).1 hk⟩
        have h3 : (s, d) ∈ g.edges := (mem_edges_iff g _).2 ⟨r, h1⟩
        exact absurd h2 (hg.onePer s d h3)
      · simp [e]
    rw [this, edgeList_filter, h1]
  | none =>
    have : g.edges.toList.filter (fun kv => kv.1 == (s, d) || kv.1 == (d, s)) =
        g.edges.toList.filter (fun kv => kv.1 == (d, s)) := by
      apply List.filter_congr
      rintro ⟨k, r'⟩ hk
      by_cases e : k = (s, d)
      · subst e
        rw [mem_edgeList_iff, h1] at hk
        cases hk
      · simp [e]
    rw [this, edgeList_filter]
    cases g.edges[(d, s)]? <;> rfl

theorem skGetEdge_eq {g : Graph} (hg : WF g) (s d : String) :
    skGetEdge g s d =
      match edgeBetween g s d with
      | some kv => .ok (kv.1, forceTy true kv.2)
      | none => .error .assertionError := by
  unfold skGetEdge
  rw [skEdges_eq, List.filter_map]
  have : ((fun kv : EKey × EdgeRec => kv.1 == (s, d) || kv.1 == (d, s)) ∘
      fun kv : EKey × EdgeRec => (kv.1, forceTy true kv.2)) =
      fun kv : EKey × EdgeRec => kv.1 == (s, d) || kv.1 == (d, s) := rfl
  rw [this, edgeList_filter2 hg]
  cases edgeBetween g s d <;> rfl

theorem otherEdge_sk {h : Graph} (hh : WF h) (a : EdgeV) :
    otherEdge (skGetEdgeV h) (· == .assertionError) a =
      match edgeBetween h a.src.id a.dst.id with
      | some kv => .ok (edgeV h (kv.1, forceTy true kv.2))
      | none => .error .assertionError := by
  unfold otherEdge skGetEdgeV
  rw [skGetEdge_eq hh, skGetEdge_eq hh, ← edgeBetween_comm hh a.src.id a.dst.id]
  cases edgeBetween h a.src.id a.dst.id <;> simp

/-! ### `Skeleton.__eq__` passes all its checks exactly when `Checks … true` holds -/

theorem skEq_true_unfold (deep : Bool) {g h : Graph} (hg : WF g) (hh : WF h) :
    skEq deep g h = .ok true ↔
      (getNodes g).length = (getNodes h).length ∧ (skEdges g).length = (skEdges h).length ∧
      setEqBy (· == ·) (getNodeNames g) (getNodeNames h) = true ∧
      setEqBy upEq (skEdgePairs g) (skEdgePairs h) = true ∧
      nodesLoop deep (skGetNode h) (nodeVs g) = .ok true ∧
      edgesLoop deep (skGetEdgeV h) (· == .assertionError) (skEdgeVs g) = .ok true := by
  unfold skEq
  rw [skNodes_eq hg, skNodes_eq hh]
  simp only []
  have hv : (getNodes g).map (fun kv => (⟨g.cls, kv.1, kv.2⟩ : NodeV)) = nodeVs g := rfl
  rw [hv]
  by_cases h2 : (getNodes g).length = (getNodes h).length <;> simp [h2]
  by_cases h3 : (skEdges g).length = (skEdges h).length <;> simp [h3]
  by_cases h4 : setEqBy (· == ·) (getNodeNames g) (getNodeNames h) = true <;> simp [h4]
  by_cases h5 : setEqBy upEq (skEdgePairs g) (skEdgePairs h) = true <;> simp [h5]
  cases h6 : nodesLoop deep (skGetNode h) (nodeVs g) with
  | error e => simp
  | ok b => cases b <;> simp

theorem skEq_true_iff_checks (deep : Bool) {g h : Graph} (hg : WF g) (hh : WF h) :
    skEq deep g h = .ok true ↔ Checks deep true g h := by
  have hN := nodesLoop_nodeVs deep g h (skGetNode h) (skGetNode_ok hh)
  have hE := edgesLoop_edgeVs deep true g h (skGetEdgeV h) (· == .assertionError) .assertionError (otherEdge_sk hh)
  rw [skEq_true_unfold deep hg hh, hN, skEdgeVs_eq, hE, skEdgePairs_eq, skEdgePairs_eq]
  have hpk : ∀ x : Graph, x.edges.keys = getEdgePairs x := fun _ => rfl
  rw [hpk, hpk]
  simp only [setEqBy, Bool.and_eq_true]
  constructor
  · rintro ⟨_, _, hnames, ⟨hp1, hp2⟩, hnodes, hedges⟩
    refine ⟨?_, pairs_of_subsets hp1 hp2, hnodes, hedges⟩
    have := (setEqBy_beq_iff _ _).1 (by simpa [setEqBy] using hnames)
    intro n; simpa [getNodeNames, ExtTreeMap.mem_keys] using this n
  · intro C
    refine ⟨?_, ?_, ?_, ⟨subsets_of_pairs C.pairs, subsets_of_pairs (fun a b => (C.pairs a b).symm)⟩,
      C.nodes, C.edges⟩
    · simpa [getNodes] using nodes_length_eq C.names
    · simpa [skEdges_eq] using edges_length_eq hg hh C.pairs
    · have : setEqBy (· == ·) (getNodeNames g) (getNodeNames h) = true := by
        rw [setEqBy_beq_iff]; intro n; simpa [getNodeNames, ExtTreeMap.mem_keys] using C.names n
      simpa [setEqBy] using this

/-- `Skeleton.__eq__` never raises on well-formed graphs -/
theorem skEq_total' (deep : Bool) {g h : Graph} (hg : WF g) (hh : WF h) : ∃ b, skEq deep g h = .ok b := by
  unfold skEq
  rw [skNodes_eq hg, skNodes_eq hh]
  simp only []
  split
  · exact ⟨_, rfl⟩
  split
  · exact ⟨_, rfl⟩
  next hnames =>
  split
  · exact ⟨_, rfl⟩
  next hpairs =>
  simp only [Bool.not_eq_true, Bool.not_eq_false'] at hnames hpairs
  have hnames' : ∀ x, x ∈ getNodeNames g ↔ x ∈ getNodeNames h := (setEqBy_beq_iff _ _).1 (by simpa using hnames)
  have hp1 : subsetBy upEq (getEdgePairs g) (getEdgePairs h) = true := by
    have : setEqBy upEq (skEdgePairs g) (skEdgePairs h) = true := by simpa using hpairs
    rw [skEdgePairs_eq, skEdgePairs_eq] at this
    simp only [setEqBy, Bool.and_eq_true] at this
    exact this.1
  have hv : (getNodes g).map (fun kv => (⟨g.cls, kv.1, kv.2⟩ : NodeV)) = nodeVs g := rfl
  rw [hv]
  obtain ⟨b, hb⟩ := nodesLoop_total deep (skGetNode h) (nodeVs g) (by
    intro a ha
    simp only [nodeVs, getNodes, List.mem_map, Prod.exists] at ha
    obtain ⟨n, r, hnr, rfl⟩ := ha
    have hn : n ∈ getNodeNames g := by
      simp only [getNodeNames, ExtTreeMap.mem_keys]
      exact (mem_nodes_iff g n).2 ⟨r, (mem_nodeList_iff g n r).1 hnr⟩
    have hn' := (hnames' n).1 hn
    simp only [getNodeNames, ExtTreeMap.mem_keys] at hn'
    obtain ⟨r', hr'⟩ := (mem_nodes_iff h n).1 hn'
    exact ⟨_, (skGetNode_ok hh n _).2 ⟨r', hr', rfl⟩⟩)
  rw [hb]
  cases b
  · exact ⟨_, rfl⟩
  · apply edgesLoop_total
    intro a ha
    rw [skEdgeVs_eq] at ha
    simp only [List.mem_map, Prod.exists] at ha
    obtain ⟨s, d, r, hkr, rfl⟩ := ha
    rw [otherEdge_sk hh]
    have hmem : (s, d) ∈ g.edges := (mem_edges_iff g (s, d)).2 ⟨r, (mem_edgeList_iff g (s, d) r).1 hkr⟩
    have := (edgeBetween_isSome h s d).2 ((subsetBy_upEq_keys g h).1 hp1 s d hmem)
    simp only [edgeV_src, edgeV_dst, nodeVOf_id]
    cases hq : edgeBetween h s d with
    | none => rw [hq] at this; cases this
    | some kv => exact ⟨_, rfl⟩

/-! ### sorted duplicate-free lists -/
theorem mem_insSorted (x y : String) (l : List String) : y ∈ insSorted x l ↔ y = x ∨ y ∈ l := by
  induction l with
  | nil => simp [insSorted]
  | cons z zs ih =>
    unfold insSorted
    split
    · simp
    · split
      · next h => subst h; simp
      · simp [ih]; grind

theorem mem_sortDedup (y : String) (l : List String) : y ∈ sortDedup l ↔ y ∈ l := by
  induction l with
  | nil => simp [sortDedup]
  | cons z zs ih =>
    have : sortDedup (z :: zs) = insSorted z (sortDedup zs) := rfl
    rw [this, mem_insSorted, ih]; simp

/-! ### matrices -/
def IsSq (n : Nat) (M : Matrix) : Prop := M.length = n ∧ ∀ r ∈ M, r.length = n

theorem isSq_zeros (n : Nat) : IsSq n (Matrix.zeros n) := by
  simp [IsSq, Matrix.zeros]

theorem get_zeros (n i j : Nat) : (Matrix.zeros n).get i j = 0 := by
  simp [Matrix.get, Matrix.zeros, List.getElem?_replicate]
  split <;> simp [List.getElem?_replicate] <;> split <;> simp

theorem isSq_set1 {n : Nat} {M : Matrix} (h : IsSq n M) (i j : Nat) : IsSq n (M.set1 i j) := by
  obtain ⟨h1, h2⟩ := h
  refine ⟨by simp [Matrix.set1, h1], ?_⟩
  intro r hr
  simp only [Matrix.set1] at hr
  rw [List.mem_iff_getElem?] at hr
  obtain ⟨k, hk⟩ := hr
  rw [List.getElem?_modify] at hk
  cases hm : M[k]? with
  | none => simp [hm] at hk
  | some row =>
    have hrow : row.length = n := h2 row (List.mem_of_getElem? hm)
    simp only [hm, Option.map_eq_map, Option.map_some, Option.some.injEq] at hk
    split at hk <;> subst hk <;> simp [hrow]

theorem get_set1 {n : Nat} {M : Matrix} (h : IsSq n M) {i j : Nat} (hi : i < n) (hj : j < n) (a b : Nat) :
    (M.set1 i j).get a b = if a = i ∧ b = j then 1 else M.get a b := by
  obtain ⟨h1, h2⟩ := h
  simp only [Matrix.get, Matrix.set1, List.getElem?_modify]
  cases hm : M[a]? with
  | none =>
    have : ¬ a = i := by
      intro e; subst e
      rw [List.getElem?_eq_none_iff] at hm; omega
    simp [this]
  | some row =>
    have hrow : row.length = n := h2 row (List.mem_of_getElem? hm)
    by_cases e : i = a
    · subst e
      simp only [Option.map_eq_map, Option.map_some, if_true, Option.getD_some, true_and, List.getElem?_set]
      by_cases e2 : j = b
      · subst e2; simp [hrow, hj]
      · have : ¬ b = j := fun x => e2 x.symm
        simp [e2, this]
    · have : ¬ a = i := fun x => e x.symm
      simp [e, this]

/-! ### the adjacency loop -/

theorem idxOf?_spec {names : List String} (hnd : names.Nodup) {x : String} {i : Nat}
    (h : names.idxOf? x = some i) : i < names.length ∧ ∀ a, names[a]? = some x ↔ a = i := by
  rw [List.idxOf?_eq_some_iff] at h
  obtain ⟨hi, hx, _⟩ := h
  refine ⟨hi, fun a => ⟨fun ha => ?_, fun e => by subst e; rw [List.getElem?_eq_getElem hi, hx]⟩⟩
  have : names[a]? = names[i]? := by rw [ha, List.getElem?_eq_getElem hi, hx]
  have ha' : a < names.length := by
    rcases Nat.lt_or_ge a names.length with x | x
    · exact x
    · rw [List.getElem?_eq_none_iff.2 x] at ha; cases ha
  exact (List.getElem?_inj ha' hnd).1 this

theorem idxOf?_of_mem {names : List String} {x : String} (h : x ∈ names) : ∃ i, names.idxOf? x = some i := by
  cases e : names.idxOf? x with
  | some i => exact ⟨i, rfl⟩
  | none => exact absurd h (List.idxOf?_eq_none_iff.1 e)

/-- position `(a, b)` is written by one of the keys -/
def hit (names : List String) (ks : List EKey) (a b : Nat) : Bool :=
  ks.any fun k => (names[a]? == some k.1 && names[b]? == some k.2) || (names[a]? == some k.2 && names[b]? == some k.1)

theorem adjLoop_spec {names : List String} (hnd : names.Nodup) :
    ∀ (ks : List EKey) (M : Matrix), IsSq names.length M → (∀ k ∈ ks, k.1 ∈ names ∧ k.2 ∈ names) →
      ∃ M', adjLoop names M ks = .ok M' ∧ IsSq names.length M' ∧
        ∀ a b, a < names.length → b < names.length →
          M'.get a b = if hit names ks a b then 1 else M.get a b := by
  intro ks
  induction ks with
  | nil =>
    intro M hM _
    exact ⟨M, rfl, hM, fun a b _ _ => by simp [hit]⟩
  | cons k rest ih =>
    intro M hM hk
    obtain ⟨h1, h2⟩ := hk k (List.mem_cons_self ..)
    obtain ⟨i, hi⟩ := idxOf?_of_mem h1
    obtain ⟨j, hj⟩ := idxOf?_of_mem h2
    obtain ⟨hil, hi'⟩ := idxOf?_spec hnd hi
    obtain ⟨hjl, hj'⟩ := idxOf?_spec hnd hj
    have hM1 : IsSq names.length ((M.set1 i j).set1 j i) := isSq_set1 (isSq_set1 hM i j) j i
    obtain ⟨M', e1, e2, e3⟩ := ih ((M.set1 i j).set1 j i) hM1 (fun x hx => hk x (List.mem_cons_of_mem _ hx))
    refine ⟨M', ?_, e2, ?_⟩
    · simp only [adjLoop, adjStep, hi, hj]; exact e1
    · intro a b ha hb
      rw [e3 a b ha hb, get_set1 (isSq_set1 hM i j) hjl hil, get_set1 hM hil hjl]
      have hh : hit names (k :: rest) a b = true ↔
          (((a = i ∧ b = j) ∨ (a = j ∧ b = i)) ∨ hit names rest a b = true) := by
        simp only [hit, List.any_cons, Bool.or_eq_true, Bool.and_eq_true, beq_iff_eq, hi', hj']
      by_cases c0 : hit names rest a b = true
      · have : hit names (k :: rest) a b = true := hh.2 (Or.inr c0)
        rw [this]; simp [c0]
      · by_cases c1 : a = i ∧ b = j
        · have : hit names (k :: rest) a b = true := hh.2 (Or.inl (Or.inl c1))
          rw [this]; simp [c1]
        · by_cases c2 : a = j ∧ b = i
          · have : hit names (k :: rest) a b = true := hh.2 (Or.inl (Or.inr c2))
            rw [this]; simp [c2]
          · have : hit names (k :: rest) a b = false := by
              rw [Bool.eq_false_iff]
              intro h
              rcases hh.1 h with (x | x) | x <;> contradiction
            rw [this]; simp [c0, c1, c2]

theorem matrix_ext {n : Nat} {M N : Matrix} (hM : IsSq n M) (hN : IsSq n N)
    (h : ∀ a b, a < n → b < n → M.get a b = N.get a b) : M = N := by
  apply List.ext_getElem (hM.1.trans hN.1.symm)
  intro a h1 h2
  have r1 : M[a].length = n := hM.2 _ (List.getElem_mem h1)
  have r2 : N[a].length = n := hN.2 _ (List.getElem_mem h2)
  apply List.ext_getElem (r1.trans r2.symm)
  intro b h3 h4
  have := h a b (by rw [← hM.1]; exact h1) (by rw [← r1]; exact h3)
  simpa [Matrix.get, List.getElem?_eq_getElem h1, List.getElem?_eq_getElem h2, List.getElem?_eq_getElem h3,
    List.getElem?_eq_getElem h4] using this

/-- the closed form of the matrix (what `networkx.to_numpy_array` gives for the undirected networkx graph) -/
theorem nxAdj_spec (names : List String) (ks : List EKey) :
    IsSq names.length (nxAdj (names, ks)) ∧
      ∀ a b, a < names.length → b < names.length →
        (nxAdj (names, ks)).get a b = if hit names ks a b then 1 else 0 := by
  refine ⟨⟨by simp [nxAdj], ?_⟩, ?_⟩
  · intro r hr
    simp only [nxAdj, List.mem_map] at hr
    obtain ⟨x, _, rfl⟩ := hr
    simp
  · intro a b ha hb
    simp only [nxAdj, Matrix.get, List.getElem?_map, List.getElem?_eq_getElem ha, List.getElem?_eq_getElem hb,
      Option.map_some, Option.getD_some, hit]
    congr 1
    apply propext
    simp only [List.any_eq_true, Bool.or_eq_true, Bool.and_eq_true, beq_iff_eq, Option.some.injEq, Prod.ext_iff]
    constructor
    · rintro ⟨k, hk, h | h⟩
      · exact ⟨k, hk, Or.inl ⟨h.1.symm, h.2.symm⟩⟩
      · exact ⟨k, hk, Or.inr ⟨h.2.symm, h.1.symm⟩⟩
    · rintro ⟨k, hk, h | h⟩
      · exact ⟨k, hk, Or.inl ⟨h.1.symm, h.2.symm⟩⟩
      · exact ⟨k, hk, Or.inr ⟨h.2.symm, h.1.symm⟩⟩

/-- the adjacency loop of a well-formed graph succeeds and computes the closed form -/
theorem skAdjacency_spec {g : Graph} (hg : WF g) :
    ∃ M, skAdjacency g = .ok M ∧ IsSq (getNodeNames g).length M ∧
      ∀ a b, a < (getNodeNames g).length → b < (getNodeNames g).length →
        M.get a b = if hit (getNodeNames g) g.edges.keys a b then 1 else 0 := by
  have hnd : (getNodeNames g).Nodup := ExtTreeMap.nodup_keys
  obtain ⟨M, h1, h2, h3⟩ := adjLoop_spec hnd (skEdgePairs g) (Matrix.zeros (getNodeNames g).length)
    (isSq_zeros _) (by
      intro k hk
      rw [skEdgePairs_eq, ExtTreeMap.mem_keys] at hk
      obtain ⟨s, d⟩ := k
      have := hg.ends s d hk
      simpa [getNodeNames, ExtTreeMap.mem_keys] using this)
  refine ⟨M, h1, h2, fun a b ha hb => ?_⟩
  rw [h3 a b ha hb, get_zeros, skEdgePairs_eq]

theorem hit_iff (g : Graph) {a b : Nat} (ha : a < (getNodeNames g).length) (hb : b < (getNodeNames g).length) :
    hit (getNodeNames g) g.edges.keys a b = true ↔
      (((getNodeNames g)[a], (getNodeNames g)[b]) ∈ g.edges ∨ ((getNodeNames g)[b], (getNodeNames g)[a]) ∈ g.edges) := by
  simp only [hit, List.any_eq_true, Bool.or_eq_true, Bool.and_eq_true, beq_iff_eq, ExtTreeMap.mem_keys,
    List.getElem?_eq_getElem ha, List.getElem?_eq_getElem hb, Option.some.injEq]
  constructor
  · rintro ⟨⟨s, d⟩, hk, ⟨h1, h2⟩ | ⟨h1, h2⟩⟩
    · simp only at h1 h2; subst h1 h2; exact Or.inl hk
    · simp only at h1 h2; subst h1 h2; exact Or.inr hk
  · rintro (h | h)
    · exact ⟨_, h, Or.inl ⟨rfl, rfl⟩⟩
    · exact ⟨_, h, Or.inr ⟨rfl, rfl⟩⟩

end CG.Sk
