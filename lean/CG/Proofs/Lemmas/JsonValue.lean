/-
Value level of the json round trip (CG/Model/PyJson.lean): `_scan_once` / `JSONArray` / `JSONObject` read back what the
encoder writes.  The decoder builds a `dict` from the pairs it has read, so an association list with a repeated key
comes back deduplicated (`dedupLast`: last value, first position).
-/
import CG.Proofs.Lemmas.JsonInt

namespace CG.PyJson

/-! ### what comes back: `dict(pairs)` at every level -/

mutual
/-- the value Python holds after `json.loads(json.dumps(v))` when `v` is read as "the items in this order were written
to the text": every object becomes `dict(pairs)` (a repeated key keeps its first position and takes its last value) -/
def dedupLast : JVal → JVal
  | .arr xs => .arr (dedupList xs)
  | .obj kvs => .obj (mkDict (dedupPairs kvs))
  | .null => .null
  | .bool b => .bool b
  | .int i => .int i
  | .str s => .str s
def dedupList : List JVal → List JVal
  | [] => []
  | x :: xs => dedupLast x :: dedupList xs
def dedupPairs : List (String × JVal) → List (String × JVal)
  | [] => []
  | (k, v) :: kvs => (k, dedupLast v) :: dedupPairs kvs
end

/-- the keys of an association list are pairwise distinct -/
def nodupKeys : List (String × JVal) → Bool
  | [] => true
  | (k, _) :: kvs => !(kvs.any fun p => p.1 == k) && nodupKeys kvs

mutual
/-- every object of the value, at every level, has pairwise distinct keys (what a Python `dict` guarantees) -/
def distinctKeys : JVal → Bool
  | .arr xs => distinctKeysList xs
  | .obj kvs => nodupKeys kvs && distinctKeysPairs kvs
  | _ => true
def distinctKeysList : List JVal → Bool
  | [] => true
  | x :: xs => distinctKeys x && distinctKeysList xs
def distinctKeysPairs : List (String × JVal) → Bool
  | [] => true
  | (_, v) :: kvs => distinctKeys v && distinctKeysPairs kvs
end

/-- `DistinctKeys v`: the decidable statement "all objects of `v` have pairwise distinct keys" -/
abbrev DistinctKeys (v : JVal) : Prop := distinctKeys v = true

mutual
/-- fuel that suffices to read the text of `v` back (one unit per value and per loop turn) -/
def need : JVal → Nat
  | .arr xs => 1 + needL xs
  | .obj kvs => 1 + needO kvs
  | _ => 1
def needL : List JVal → Nat
  | [] => 0
  | x :: xs => 1 + need x + needL xs
def needO : List (String × JVal) → Nat
  | [] => 0
  | (_, v) :: kvs => 1 + need v + needO kvs
end

theorem need_pos (v : JVal) : 1 ≤ need v := by
  cases v <;> simp [need]

/-! ### `dict(pairs)` on distinct keys -/

def keyIn (k : String) (d : List (String × JVal)) : Bool := d.any fun p => p.1 == k

theorem dictSet_fresh (d : List (String × JVal)) (k : String) (v : JVal) (h : keyIn k d = false) :
    dictSet d k v = d ++ [(k, v)] := by
  induction d with
  | nil => rfl
  | cons p d ih =>
    obtain ⟨k', v'⟩ := p
    simp only [keyIn, List.any_cons, Bool.or_eq_false_iff, beq_eq_false_iff_ne, ne_eq] at h
    simp only [dictSet, h.1, if_false, List.cons_append, List.cons.injEq, true_and]
    exact ih h.2

theorem foldl_dictSet_fresh (kvs : List (String × JVal)) :
    ∀ d : List (String × JVal), nodupKeys kvs = true → (∀ p ∈ kvs, keyIn p.1 d = false) →
      kvs.foldl (fun d kv => dictSet d kv.1 kv.2) d = d ++ kvs := by
  induction kvs with
  | nil => intro d _ _; simp
  | cons p kvs ih =>
    intro d hn hd
    obtain ⟨k, v⟩ := p
    simp only [nodupKeys, Bool.and_eq_true, Bool.not_eq_true'] at hn
    have hk : keyIn k d = false := hd (k, v) List.mem_cons_self
    simp only [List.foldl_cons]
    rw [dictSet_fresh d k v hk, ih (d ++ [(k, v)]) hn.2]
    · simp
    · intro q hq
      have h1 := hd q (List.mem_cons_of_mem _ hq)
      simp only [keyIn, List.any_append, List.any_cons, List.any_nil, Bool.or_false, Bool.or_eq_false_iff,
        beq_eq_false_iff_ne, ne_eq]
      refine ⟨h1, ?_⟩
      intro e
      have h2 := hn.1
      rw [List.any_eq_false] at h2
      have := h2 q hq
      simp only [beq_iff_eq] at this
      exact this e.symm

/-- `dict(pairs)` keeps a list of pairs with distinct keys as it is -/
theorem mkDict_nodup (kvs : List (String × JVal)) (h : nodupKeys kvs = true) : mkDict kvs = kvs := by
  have := foldl_dictSet_fresh kvs [] h (by intro p _; rfl)
  simpa [mkDict] using this

theorem dedupPairs_keys (kvs : List (String × JVal)) : nodupKeys (dedupPairs kvs) = nodupKeys kvs := by
  have hany : ∀ (k : String) (l : List (String × JVal)),
      ((dedupPairs l).any fun p => p.1 == k) = (l.any fun p => p.1 == k) := by
    intro k l
    induction l with
    | nil => rfl
    | cons p l ih => obtain ⟨k', v'⟩ := p; simp only [dedupPairs, List.any_cons, ih]
  induction kvs with
  | nil => rfl
  | cons p kvs ih => obtain ⟨k, v⟩ := p; simp only [dedupPairs, nodupKeys, hany, ih]

mutual
/-- on a value whose objects have distinct keys, nothing is deduplicated -/
theorem dedupLast_of_distinct : (v : JVal) → distinctKeys v = true → dedupLast v = v
  | .null, _ => rfl
  | .bool _, _ => rfl
  | .int _, _ => rfl
  | .str _, _ => rfl
  | .arr xs, h => by
    simp only [distinctKeys] at h
    simp only [dedupLast, dedupList_of_distinct xs h]
  | .obj kvs, h => by
    simp only [distinctKeys, Bool.and_eq_true] at h
    simp only [dedupLast, dedupPairs_of_distinct kvs h.2, mkDict_nodup kvs h.1]
theorem dedupList_of_distinct : (xs : List JVal) → distinctKeysList xs = true → dedupList xs = xs
  | [], _ => rfl
  | x :: xs, h => by
    simp only [distinctKeysList, Bool.and_eq_true] at h
    simp only [dedupList, dedupLast_of_distinct x h.1, dedupList_of_distinct xs h.2]
theorem dedupPairs_of_distinct : (kvs : List (String × JVal)) → distinctKeysPairs kvs = true → dedupPairs kvs = kvs
  | [], _ => rfl
  | (k, v) :: kvs, h => by
    simp only [distinctKeysPairs, Bool.and_eq_true] at h
    simp only [dedupPairs, dedupLast_of_distinct v h.1, dedupPairs_of_distinct kvs h.2]
end

/-! ### first characters and separators -/

theorem skipWs_cons_of_not (c : Char) (r : List Char) (h : isWs c = false) : skipWs (c :: r) = c :: r := by
  simp [skipWs, h]

theorem skipWs_space (r : List Char) : skipWs (' ' :: r) = skipWs r := by
  simp [skipWs, isWs]

theorem isDig_toNat {c : Char} (h : isDig c = true) : 48 ≤ c.toNat ∧ c.toNat ≤ 57 := by
  simpa [isDig] using h

theorem isDig_ne {c : Char} (h : isDig c = true) (d : Char) (hd : d.toNat < 48 ∨ 57 < d.toNat) : c ≠ d := by
  intro e
  subst e
  have := isDig_toNat h
  omega

/-- a character that can start the text of a value: not whitespace, not a closing bracket -/
def ValStart (c : Char) : Prop := isWs c = false ∧ c ≠ ']' ∧ c ≠ '}'

theorem valStart_of_dig {c : Char} (h : isDig c = true) : ValStart c := by
  have hn := isDig_toNat h
  refine ⟨?_, isDig_ne h _ (by decide), isDig_ne h _ (by decide)⟩
  simp only [isWs, Bool.or_eq_false_iff, decide_eq_false_iff_not]
  exact ⟨⟨⟨isDig_ne h _ (by decide), isDig_ne h _ (by decide)⟩, isDig_ne h _ (by decide)⟩, isDig_ne h _ (by decide)⟩

theorem dumpsL_head (v : JVal) : ∃ c t, dumpsL v = c :: t ∧ ValStart c := by
  have lit : ∀ c : Char, (isWs c = false ∧ c ≠ ']' ∧ c ≠ '}') → ValStart c := fun _ h => h
  match v with
  | .null => exact ⟨'n', _, rfl, lit _ (by decide)⟩
  | .bool true => exact ⟨'t', _, rfl, lit _ (by decide)⟩
  | .bool false => exact ⟨'f', _, rfl, lit _ (by decide)⟩
  | .int i =>
    obtain ⟨c, t, h, hc⟩ := intText_head i
    refine ⟨c, t, by simp [dumpsL, h], ?_⟩
    rcases hc with hc | hc
    · subst hc; exact lit _ (by decide)
    · exact valStart_of_dig hc
  | .str s => exact ⟨'"', _, rfl, lit _ (by decide)⟩
  | .arr [] => exact ⟨'[', _, rfl, lit _ (by decide)⟩
  | .arr (_ :: _) => exact ⟨'[', _, rfl, lit _ (by decide)⟩
  | .obj [] => exact ⟨'{', _, rfl, lit _ (by decide)⟩
  | .obj ((_, _) :: _) => exact ⟨'{', _, rfl, lit _ (by decide)⟩

theorem skipWs_dumpsL (v : JVal) (t : List Char) : skipWs (dumpsL v ++ t) = dumpsL v ++ t := by
  obtain ⟨c, r, h, hc⟩ := dumpsL_head v
  rw [h, List.cons_append]
  exact skipWs_cons_of_not c _ hc.1

theorem noNumCont_arrTail (xs : List JVal) (rest : List Char) : NoNumCont (arrTail xs ++ rest) := by
  cases xs with
  | nil => simp only [arrTail, List.cons_append, NoNumCont]; decide
  | cons x xs => simp only [arrTail, List.cons_append, NoNumCont]; decide

theorem noNumCont_objTail (kvs : List (String × JVal)) (rest : List Char) : NoNumCont (objTail kvs ++ rest) := by
  cases kvs with
  | nil => simp only [objTail, List.cons_append, NoNumCont]; decide
  | cons p kvs => obtain ⟨k, v⟩ := p; simp only [objTail, List.cons_append, NoNumCont]; decide

/-! ### one step of each parser -/

theorem scanOnce_atom (perm : Bool) (f : Nat) (c : Char) (r : List Char)
    (h1 : c ≠ '"') (h2 : c ≠ '{') (h3 : c ≠ '[') :
    scanOnce perm (f + 1) (c :: r) = scanAtom perm (c :: r) := by
  simp only [scanOnce, h1, h2, h3, if_false]

theorem scanOnce_string (perm : Bool) (f : Nat) (s rest : List Char) :
    scanOnce perm (f + 1) (encodeStringL s ++ rest) = .ok (.str (String.ofList s), rest) := by
  simp only [encodeStringL, List.cons_append, List.append_assoc, List.nil_append, scanOnce, if_true,
    scanstring_encodeBody]

theorem scanOnce_array (perm : Bool) (f : Nat) (c1 : Char) (r1 r' : List Char) (vs : List JVal) (h : ValStart c1)
    (hl : arrLoop perm f (c1 :: r1) = .ok (vs, r')) :
    scanOnce perm (f + 1) ('[' :: c1 :: r1) = .ok (.arr vs, r') := by
  simp only [scanOnce]
  rw [if_neg (by decide), if_neg (by decide), if_pos trivial, skipWs_cons_of_not c1 r1 h.1]
  simp only [h.2.1, if_false, hl]

theorem scanOnce_object (perm : Bool) (f : Nat) (r1 r' : List Char) (pairs : List (String × JVal))
    (hl : objLoop perm f r1 = .ok (pairs, r')) :
    scanOnce perm (f + 1) ('{' :: '"' :: r1) = .ok (.obj (mkDict pairs), r') := by
  simp only [scanOnce]
  rw [if_neg (by decide), if_pos trivial, skipWs_cons_of_not '"' r1 (by decide)]
  simp only []
  rw [if_neg (by decide), if_pos trivial]
  simp only [hl]

theorem arrLoop_last (perm : Bool) (f : Nat) (cs r2 : List Char) (v : JVal)
    (h : scanOnce perm f cs = .ok (v, ']' :: r2)) : arrLoop perm (f + 1) cs = .ok ([v], r2) := by
  simp only [arrLoop, h]
  rw [skipWs_cons_of_not ']' r2 (by decide)]
  simp only [if_true]

theorem arrLoop_more (perm : Bool) (f : Nat) (cs r2 r' : List Char) (v : JVal) (vs : List JVal)
    (h : scanOnce perm f cs = .ok (v, ',' :: ' ' :: r2)) (h2 : arrLoop perm f (skipWs r2) = .ok (vs, r')) :
    arrLoop perm (f + 1) cs = .ok (v :: vs, r') := by
  simp only [arrLoop, h]
  rw [skipWs_cons_of_not ',' _ (by decide)]
  simp only []
  rw [if_neg (by decide), if_pos trivial, skipWs_space, h2]

theorem objLoop_last (perm : Bool) (f : Nat) (k r3 r4 : List Char) (v : JVal)
    (h : scanOnce perm f (skipWs r3) = .ok (v, '}' :: r4)) :
    objLoop perm (f + 1) (encodeBody k ++ '"' :: ':' :: ' ' :: r3) = .ok ([(String.ofList k, v)], r4) := by
  simp only [objLoop, scanstring_encodeBody]
  rw [skipWs_cons_of_not ':' _ (by decide)]
  simp only [if_true, skipWs_space, h]
  rw [skipWs_cons_of_not '}' _ (by decide)]
  simp only [if_true]

theorem objLoop_more (perm : Bool) (f : Nat) (k r3 r5 r' : List Char) (v : JVal) (ps : List (String × JVal))
    (h : scanOnce perm f (skipWs r3) = .ok (v, ',' :: ' ' :: '"' :: r5))
    (h2 : objLoop perm f r5 = .ok (ps, r')) :
    objLoop perm (f + 1) (encodeBody k ++ '"' :: ':' :: ' ' :: r3) = .ok ((String.ofList k, v) :: ps, r') := by
  simp only [objLoop, scanstring_encodeBody]
  rw [skipWs_cons_of_not ':' _ (by decide)]
  simp only [if_true, skipWs_space, h]
  rw [skipWs_cons_of_not ',' _ (by decide)]
  simp only []
  rw [if_neg (by decide), if_pos trivial, skipWs_space, skipWs_cons_of_not '"' _ (by decide)]
  simp only [if_true, h2]

/-! ### atoms -/

theorem scanAtom_null (perm : Bool) (rest : List Char) :
    scanAtom perm ('n' :: 'u' :: 'l' :: 'l' :: rest) = .ok (.null, rest) := by
  simp [scanAtom, stripLit]

theorem scanAtom_true (perm : Bool) (rest : List Char) :
    scanAtom perm ('t' :: 'r' :: 'u' :: 'e' :: rest) = .ok (.bool true, rest) := by
  simp [scanAtom, stripLit]

theorem scanAtom_false (perm : Bool) (rest : List Char) :
    scanAtom perm ('f' :: 'a' :: 'l' :: 's' :: 'e' :: rest) = .ok (.bool false, rest) := by
  simp [scanAtom, stripLit]

theorem scanAtom_int (perm : Bool) (i : Int) (rest : List Char) (hr : NoNumCont rest) :
    scanAtom perm (intText i ++ rest) = .ok (.int i, rest) := by
  have hnum := scanNumber_intText perm i rest hr
  obtain ⟨c, t, h, hc⟩ := intText_head i
  rw [h, List.cons_append] at hnum ⊢
  have hn : 'n' ≠ c := by
    rcases hc with hc | hc
    · subst hc; decide
    · exact (isDig_ne hc _ (by decide)).symm
  have ht : 't' ≠ c := by
    rcases hc with hc | hc
    · subst hc; decide
    · exact (isDig_ne hc _ (by decide)).symm
  have hf : 'f' ≠ c := by
    rcases hc with hc | hc
    · subst hc; decide
    · exact (isDig_ne hc _ (by decide)).symm
  simp only [scanAtom, stripLit, hn, ht, hf, if_false, hnum]

theorem scanOnce_int (perm : Bool) (f : Nat) (i : Int) (rest : List Char) (hr : NoNumCont rest) :
    scanOnce perm (f + 1) (intText i ++ rest) = .ok (.int i, rest) := by
  have hat := scanAtom_int perm i rest hr
  obtain ⟨c, t, h, hc⟩ := intText_head i
  rw [h, List.cons_append] at hat ⊢
  rw [scanOnce_atom perm f c _ ?_ ?_ ?_, hat]
  all_goals
    rcases hc with hc | hc
    · subst hc; decide
    · exact isDig_ne hc _ (by decide)

/-! ### the round trip on texts -/

mutual
theorem scanOnce_dumpsL (perm : Bool) : (v : JVal) → ∀ (f : Nat) (rest : List Char), need v ≤ f → NoNumCont rest →
    scanOnce perm f (dumpsL v ++ rest) = .ok (dedupLast v, rest)
  | .null, f, rest, hf, _ => by
    obtain ⟨f', rfl⟩ : ∃ f', f = f' + 1 := ⟨f - 1, by simp only [need] at hf; omega⟩
    simp only [dumpsL, List.cons_append, List.nil_append, dedupLast]
    rw [scanOnce_atom perm f' _ _ (by decide) (by decide) (by decide), scanAtom_null]
  | .bool true, f, rest, hf, _ => by
    obtain ⟨f', rfl⟩ : ∃ f', f = f' + 1 := ⟨f - 1, by simp only [need] at hf; omega⟩
    simp only [dumpsL, List.cons_append, List.nil_append, dedupLast]
    rw [scanOnce_atom perm f' _ _ (by decide) (by decide) (by decide), scanAtom_true]
  | .bool false, f, rest, hf, _ => by
    obtain ⟨f', rfl⟩ : ∃ f', f = f' + 1 := ⟨f - 1, by simp only [need] at hf; omega⟩
    simp only [dumpsL, List.cons_append, List.nil_append, dedupLast]
    rw [scanOnce_atom perm f' _ _ (by decide) (by decide) (by decide), scanAtom_false]
  | .int i, f, rest, hf, hr => by
    obtain ⟨f', rfl⟩ : ∃ f', f = f' + 1 := ⟨f - 1, by simp only [need] at hf; omega⟩
    simp only [dumpsL, dedupLast]
    exact scanOnce_int perm f' i rest hr
  | .str s, f, rest, hf, _ => by
    obtain ⟨f', rfl⟩ : ∃ f', f = f' + 1 := ⟨f - 1, by simp only [need] at hf; omega⟩
    simp only [dumpsL, dedupLast]
    rw [scanOnce_string, String.ofList_toList]
  | .arr [], f, rest, hf, _ => by
    obtain ⟨f', rfl⟩ : ∃ f', f = f' + 1 := ⟨f - 1, by simp only [need] at hf; omega⟩
    simp only [dumpsL, List.cons_append, List.nil_append, dedupLast, dedupList, scanOnce]
    rw [if_neg (by decide), if_neg (by decide), if_pos trivial, skipWs_cons_of_not ']' rest (by decide)]
    simp only [if_true]
  | .arr (x :: xs), f, rest, hf, _ => by
    obtain ⟨f', rfl⟩ : ∃ f', f = f' + 1 := ⟨f - 1, by simp only [need] at hf; omega⟩
    have hloop := arrLoop_arrTail perm xs x f' rest (scanOnce_dumpsL perm x)
      (by simp only [need, needL] at hf; omega)
    obtain ⟨c, t, hct, hc⟩ := dumpsL_head x
    simp only [dumpsL, List.cons_append, List.append_assoc, dedupLast, dedupList]
    rw [hct, List.cons_append] at hloop ⊢
    exact scanOnce_array perm f' c _ rest _ hc hloop
  | .obj [], f, rest, hf, _ => by
    obtain ⟨f', rfl⟩ : ∃ f', f = f' + 1 := ⟨f - 1, by simp only [need] at hf; omega⟩
    simp only [dumpsL, List.cons_append, List.nil_append, dedupLast, dedupPairs, scanOnce]
    rw [if_neg (by decide), if_pos trivial, skipWs_cons_of_not '}' rest (by decide)]
    simp only [if_true, mkDict, List.foldl_nil]
  | .obj ((k, v) :: kvs), f, rest, hf, _ => by
    obtain ⟨f', rfl⟩ : ∃ f', f = f' + 1 := ⟨f - 1, by simp only [need] at hf; omega⟩
    have hloop := objLoop_objTail perm kvs k v f' rest (scanOnce_dumpsL perm v)
      (by simp only [need, needO] at hf; omega)
    simp only [dumpsL, encodeStringL, List.cons_append, List.append_assoc, List.nil_append, dedupLast, dedupPairs]
    exact scanOnce_object perm f' _ rest _ hloop
/-- the loop of `JSONArray` on `x, …]`: the first value `x` is passed with its own round-trip statement -/
theorem arrLoop_arrTail (perm : Bool) : (xs : List JVal) → ∀ (x : JVal) (f : Nat) (rest : List Char),
    (∀ (f' : Nat) (rest' : List Char), need x ≤ f' → NoNumCont rest' →
      scanOnce perm f' (dumpsL x ++ rest') = .ok (dedupLast x, rest')) →
    1 + need x + needL xs ≤ f →
    arrLoop perm f (dumpsL x ++ (arrTail xs ++ rest)) = .ok (dedupLast x :: dedupList xs, rest)
  | [], x, f, rest, hx, hf => by
    obtain ⟨f', rfl⟩ : ∃ f', f = f' + 1 := ⟨f - 1, by omega⟩
    have h := hx f' (arrTail [] ++ rest) (by omega) (noNumCont_arrTail [] rest)
    simp only [arrTail, List.cons_append, List.nil_append] at h ⊢
    simp only [dedupList]
    exact arrLoop_last perm f' _ rest _ h
  | y :: ys, x, f, rest, hx, hf => by
    obtain ⟨f', rfl⟩ : ∃ f', f = f' + 1 := ⟨f - 1, by omega⟩
    have h := hx f' (arrTail (y :: ys) ++ rest) (by omega) (noNumCont_arrTail (y :: ys) rest)
    have hrec := arrLoop_arrTail perm ys y f' rest (scanOnce_dumpsL perm y)
      (by simp only [needL] at hf ⊢; omega)
    simp only [arrTail, List.cons_append, List.append_assoc] at h ⊢
    simp only [dedupList]
    refine arrLoop_more perm f' _ _ rest _ _ h ?_
    rw [skipWs_dumpsL]
    exact hrec
/-- the loop of `JSONObject` on `k": v, …}` (after the opening quote of the first key) -/
theorem objLoop_objTail (perm : Bool) : (kvs : List (String × JVal)) → ∀ (k : String) (v : JVal) (f : Nat)
    (rest : List Char),
    (∀ (f' : Nat) (rest' : List Char), need v ≤ f' → NoNumCont rest' →
      scanOnce perm f' (dumpsL v ++ rest') = .ok (dedupLast v, rest')) →
    1 + need v + needO kvs ≤ f →
    objLoop perm f (encodeBody k.toList ++ '"' :: ':' :: ' ' :: (dumpsL v ++ (objTail kvs ++ rest))) =
      .ok ((k, dedupLast v) :: dedupPairs kvs, rest)
  | [], k, v, f, rest, hv, hf => by
    obtain ⟨f', rfl⟩ : ∃ f', f = f' + 1 := ⟨f - 1, by omega⟩
    have h := hv f' (objTail [] ++ rest) (by omega) (noNumCont_objTail [] rest)
    simp only [objTail, List.cons_append, List.nil_append] at h ⊢
    simp only [dedupPairs]
    have := objLoop_last perm f' k.toList (dumpsL v ++ '}' :: rest) rest (dedupLast v)
      (by rw [skipWs_dumpsL]; exact h)
    rw [String.ofList_toList] at this
    exact this
  | (k2, v2) :: kvs, k, v, f, rest, hv, hf => by
    obtain ⟨f', rfl⟩ : ∃ f', f = f' + 1 := ⟨f - 1, by omega⟩
    have h := hv f' (objTail ((k2, v2) :: kvs) ++ rest) (by omega) (noNumCont_objTail _ rest)
    have hrec := objLoop_objTail perm kvs k2 v2 f' rest (scanOnce_dumpsL perm v2)
      (by simp only [needO] at hf ⊢; omega)
    simp only [objTail, encodeStringL, List.cons_append, List.append_assoc, List.nil_append] at h ⊢
    simp only [dedupPairs]
    have := objLoop_more perm f' k.toList _ _ rest (dedupLast v) _
      (by rw [skipWs_dumpsL]; exact h) hrec
    rw [String.ofList_toList] at this
    exact this
end

/-! ### the fuel `loads` passes is enough -/

mutual
theorem need_le_length : (v : JVal) → need v ≤ 2 * (dumpsL v).length
  | .null => by simp [need, dumpsL]
  | .bool true => by simp [need, dumpsL]
  | .bool false => by simp [need, dumpsL]
  | .int i => by
    obtain ⟨c, t, h, _⟩ := intText_head i
    simp only [need, dumpsL, h, List.length_cons]; omega
  | .str s => by simp only [need, dumpsL, encodeStringL, List.length_cons]; omega
  | .arr [] => by simp [need, needL, dumpsL]
  | .arr (x :: xs) => by
    have h1 := need_le_length x
    have h2 := needL_le_length xs
    simp only [need, needL, dumpsL, List.length_cons, List.length_append]
    omega
  | .obj [] => by simp [need, needO, dumpsL]
  | .obj ((k, v) :: kvs) => by
    have h1 := need_le_length v
    have h2 := needO_le_length kvs
    simp only [need, needO, dumpsL, List.length_cons, List.length_append]
    omega
theorem needL_le_length : (xs : List JVal) → needL xs ≤ 2 * (arrTail xs).length
  | [] => by simp [needL]
  | x :: xs => by
    have h1 := need_le_length x
    have h2 := needL_le_length xs
    simp only [needL, arrTail, List.length_cons, List.length_append]
    omega
theorem needO_le_length : (kvs : List (String × JVal)) → needO kvs ≤ 2 * (objTail kvs).length
  | [] => by simp [needO]
  | (k, v) :: kvs => by
    have h1 := need_le_length v
    have h2 := needO_le_length kvs
    simp only [needO, objTail, List.length_cons, List.length_append]
    omega
end

end CG.PyJson
