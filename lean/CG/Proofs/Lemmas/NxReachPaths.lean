/-
What the stack loop of `_all_simple_paths_graph` (`CG.NxReach.aspLoop`) yields (core Lean only).

`enum E targets K vis cs` is the recursive reading of the loop: the paths yielded while the iterator `cs` is on top of
the stack with `vis` visited.  `aspLoop_frame`: running the loop with `cs` on top yields `enum … vis cs` and then goes on
with the rest of the stack (for EVERY target set and cutoff), hence `aspLoop_eq_enum`: the generator's output is
`enum … [source] (adj E source)`, in that ORDER.

For a single target `t` that has not been visited (`mem_enum_single`): the yielded lists are `vis.reverse ++ q` for the
duplicate-free walks `q` that start at a child in `cs`, end at `t`, avoid `vis` and have at most `K + 1 − |vis|`
vertices.  `enum_nodup`: nothing is yielded twice.
-/
import CG.Model.NxReach
import CG.Model.Paths
import CG.Proofs.Lemmas.Queries
import CG.Proofs.Lemmas.NxPrune
set_option linter.unusedSectionVars false
set_option linter.unusedSimpArgs false
set_option linter.unusedVariables false

namespace CG.NxReachPaths
variable {α : Type} [DecidableEq α]
open CG.NxReach
open CG.EL (Rel succs preds mem_succs)
open CG.Paths (Walk)

/-- the paths yielded while the child list `cs` is on top of the stack and `vis` (last first) is visited -/
def enum (E : List (α × α)) (targets : List α) (K : Nat) (vis : List α) (cs : List α) : List (List α) :=
  match cs with
  | [] => []
  | child :: cs =>
    if vis.length < K then
      if child ∈ vis then enum E targets K vis cs
      else if targets.any (fun t => decide (t ∉ child :: vis)) then
        (if child ∈ targets then [(child :: vis).reverse] else []) ++
          (enum E targets K (child :: vis) (adj E child) ++ enum E targets K vis cs)
      else (if child ∈ targets then [(child :: vis).reverse] else []) ++ enum E targets K vis cs
    else
      ((child :: cs).eraseDups.filter (fun t => decide (t ∈ targets ∧ t ∉ vis))).map (fun t => (t :: vis).reverse)
termination_by (K - vis.length, cs.length)
decreasing_by
  · exact Prod.Lex.right _ (by simp)
  · exact Prod.Lex.left _ _ (by simp only [List.length_cons]; omega)
  · exact Prod.Lex.right _ (by simp)
  · exact Prod.Lex.right _ (by simp)

variable {E : List (α × α)} {targets : List α} {K : Nat}

/-- one frame of the stack: the loop yields `enum … vis cs`, pops the frame and the last visited node -/
theorem aspLoop_frame (vis cs : List α) :
    ∀ (stack : List (List α)) (out : List (List α)),
      aspLoop E targets K (cs :: stack) vis out = aspLoop E targets K stack vis.tail (out ++ enum E targets K vis cs) := by
  induction vis, cs using enum.induct (E := E) (targets := targets) (K := K) with
  | case1 vis =>
    intro stack out
    rw [aspLoop, enum, List.append_nil]
  | case2 vis child cs hlt hmem ih =>
    intro stack out
    rw [aspLoop, enum]
    simp only [hlt, hmem, if_true]
    exact ih stack out
  | case3 vis child cs hlt hmem hany ih1 ih2 =>
    intro stack out
    rw [aspLoop, enum]
    simp only [hlt, hmem, hany, if_true, if_false]
    rw [ih1, List.tail_cons, ih2]
    simp only [List.append_assoc]
    split <;> simp
  | case4 vis child cs hlt hmem hany ih =>
    intro stack out
    rw [aspLoop, enum]
    simp only [hlt, hmem, hany, if_true, if_false, Bool.false_eq_true]
    rw [ih]
    split <;> simp
  | case5 vis child cs hlt =>
    intro stack out
    rw [aspLoop, enum]
    simp only [hlt, if_false]

theorem aspLoop_eq_enum (source : α) :
    aspLoop E targets K [adj E source] [source] [] = enum E targets K [source] (adj E source) := by
  rw [aspLoop_frame, aspLoop]
  simp

/-! ### shape of the yielded lists; no repetition -/

theorem enum_shape (vis cs : List α) :
    ∀ p, p ∈ enum E targets K vis cs → ∃ c, c ∈ cs ∧ ∃ r, p = vis.reverse ++ c :: r := by
  induction vis, cs using enum.induct (E := E) (targets := targets) (K := K) with
  | case1 vis => intro p hp; rw [enum] at hp; simp at hp
  | case2 vis child cs hlt hmem ih =>
    intro p hp
    rw [enum] at hp
    simp only [hlt, hmem, if_true] at hp
    obtain ⟨c, hc, r, hr⟩ := ih p hp
    exact ⟨c, List.mem_cons_of_mem _ hc, r, hr⟩
  | case3 vis child cs hlt hmem hany ih1 ih2 =>
    intro p hp
    rw [enum] at hp
    simp only [hlt, hmem, hany, if_true, if_false, List.mem_append] at hp
    rcases hp with hp | hp | hp
    · refine ⟨child, List.mem_cons_self, [], ?_⟩
      split at hp
      · simp only [List.mem_singleton] at hp
        rw [hp]; simp
      · simp at hp
    · obtain ⟨c, hc, r, hr⟩ := ih1 p hp
      refine ⟨child, List.mem_cons_self, c :: r, ?_⟩
      rw [hr]; simp
    · obtain ⟨c, hc, r, hr⟩ := ih2 p hp
      exact ⟨c, List.mem_cons_of_mem _ hc, r, hr⟩
  | case4 vis child cs hlt hmem hany ih =>
    intro p hp
    rw [enum] at hp
    simp only [hlt, hmem, hany, if_true, if_false, Bool.false_eq_true, List.mem_append] at hp
    rcases hp with hp | hp
    · refine ⟨child, List.mem_cons_self, [], ?_⟩
      split at hp
      · simp only [List.mem_singleton] at hp
        rw [hp]; simp
      · simp at hp
    · obtain ⟨c, hc, r, hr⟩ := ih p hp
      exact ⟨c, List.mem_cons_of_mem _ hc, r, hr⟩
  | case5 vis child cs hlt =>
    intro p hp
    rw [enum] at hp
    simp only [hlt, if_false, List.mem_map, List.mem_filter, List.mem_eraseDups] at hp
    obtain ⟨t, ⟨ht, _⟩, rfl⟩ := hp
    exact ⟨t, ht, [], by simp⟩

theorem append_cons_inj {l : List α} {a b : α} {r1 r2 : List α} (h : l ++ a :: r1 = l ++ b :: r2) : a = b := by
  have := List.append_cancel_left h
  exact (List.cons.inj this).1

theorem enum_nodup (hadj : ∀ a : α, (adj E a).Nodup) (vis cs : List α) :
    cs.Nodup → (enum E targets K vis cs).Nodup := by
  induction vis, cs using enum.induct (E := E) (targets := targets) (K := K) with
  | case1 vis => intro _; rw [enum]; simp
  | case2 vis child cs hlt hmem ih =>
    intro hnd
    rw [enum]
    simp only [hlt, hmem, if_true]
    exact ih (List.nodup_cons.mp hnd).2
  | case3 vis child cs hlt hmem hany ih1 ih2 =>
    intro hnd
    rw [enum]
    simp only [hlt, hmem, hany, if_true, if_false]
    have hc := List.nodup_cons.mp hnd
    refine List.nodup_append.mpr ⟨by split <;> simp, List.nodup_append.mpr ⟨ih1 (hadj child), ih2 hc.2, ?_⟩, ?_⟩
    · intro a ha b hb e
      obtain ⟨c1, _, r1, h1⟩ := enum_shape _ _ a ha
      obtain ⟨c2, hc2, r2, h2⟩ := enum_shape _ _ b hb
      rw [e, h2] at h1
      simp only [List.reverse_cons, List.append_assoc, List.singleton_append] at h1
      have := append_cons_inj h1
      exact hc.1 (this ▸ hc2)
    · intro a ha b hb e
      split at ha
      · simp only [List.mem_singleton] at ha
        rcases List.mem_append.mp hb with hb | hb
        · obtain ⟨c2, _, r2, h2⟩ := enum_shape _ _ b hb
          rw [← e, ha] at h2
          have := congrArg List.length h2
          simp at this
        · obtain ⟨c2, hc2, r2, h2⟩ := enum_shape _ _ b hb
          rw [← e, ha] at h2
          simp only [List.reverse_cons, List.append_assoc, List.singleton_append] at h2
          have := append_cons_inj h2
          exact hc.1 (this ▸ hc2)
      · simp at ha
  | case4 vis child cs hlt hmem hany ih =>
    intro hnd
    rw [enum]
    simp only [hlt, hmem, hany, if_true, if_false, Bool.false_eq_true]
    have hc := List.nodup_cons.mp hnd
    refine List.nodup_append.mpr ⟨by split <;> simp, ih hc.2, ?_⟩
    intro a ha b hb e
    split at ha
    · simp only [List.mem_singleton] at ha
      obtain ⟨c2, hc2, r2, h2⟩ := enum_shape _ _ b hb
      rw [← e, ha] at h2
      simp only [List.reverse_cons, List.append_assoc, List.singleton_append] at h2
      have := append_cons_inj h2
      exact hc.1 (this ▸ hc2)
    · simp at ha
  | case5 vis child cs hlt =>
    intro hnd
    rw [enum]
    simp only [hlt, if_false]
    have hf : (List.filter (fun t => decide (t ∈ targets ∧ t ∉ vis)) (child :: cs).eraseDups).Nodup :=
      List.Nodup.sublist List.filter_sublist (CG.NxPrune.nodup_eraseDups _ _ (Nat.le_refl _))
    rw [List.Nodup, List.pairwise_map]
    refine List.Pairwise.imp ?_ hf
    intro x y hne hxy
    have := List.reverse_inj.mp hxy
    exact hne (List.cons.inj this).1

/-! ### a single target -/

theorem walk_end_mem {a b : α} {p : List α} (h : Walk E a b p) : b ∈ p := by
  induction h with
  | single => simp
  | cons _ _ ih => exact List.mem_cons_of_mem _ ih

theorem walk_self_nodup {t : α} {q : List α} (h : Walk E t t q) (hnd : q.Nodup) : q = [t] := by
  cases h with
  | single => rfl
  | cons hr hw => exact absurd (walk_end_mem hw) (List.nodup_cons.mp hnd).1

theorem walk_short {c t : α} {q : List α} (h : Walk E c t q) (hlen : q.length ≤ 1) : c = t ∧ q = [t] := by
  cases h with
  | single => exact ⟨rfl, rfl⟩
  | cons hr hw =>
    cases hw <;> simp at hlen

theorem mem_adj {a b : α} : b ∈ adj E a ↔ Rel E a b := by
  unfold adj
  rw [List.mem_eraseDups]
  exact mem_succs

/-- the specification of one frame for the single target `t` -/
def Yield (E : List (α × α)) (t : α) (K : Nat) (vis cs : List α) (p : List α) : Prop :=
  ∃ c, c ∈ cs ∧ ∃ q, Walk E c t q ∧ q.Nodup ∧ (∀ x, x ∈ q → x ∉ vis) ∧ vis.length + q.length ≤ K + 1 ∧
    p = vis.reverse ++ q

theorem yield_cons {t : α} {vis cs : List α} {child : α} {p : List α} :
    Yield E t K vis (child :: cs) p ↔ Yield E t K vis [child] p ∨ Yield E t K vis cs p := by
  unfold Yield
  constructor
  · rintro ⟨c, hc, h⟩
    rcases List.mem_cons.mp hc with rfl | hc
    · exact Or.inl ⟨c, by simp, h⟩
    · exact Or.inr ⟨c, hc, h⟩
  · rintro (⟨c, hc, h⟩ | ⟨c, hc, h⟩)
    · simp only [List.mem_singleton] at hc
      subst hc
      exact ⟨c, List.mem_cons_self, h⟩
    · exact ⟨c, List.mem_cons_of_mem _ hc, h⟩

theorem mem_enum_single {t : α} (vis cs : List α) :
    t ∉ vis → vis.length ≤ K → ∀ p, p ∈ enum E [t] K vis cs ↔ Yield E t K vis cs p := by
  induction vis, cs using enum.induct (E := E) (targets := [t]) (K := K) with
  | case1 vis =>
    intro _ _ p
    rw [enum]
    simp [Yield]
  | case2 vis child cs hlt hmem ih =>
    intro ht hK p
    rw [enum]
    simp only [hlt, hmem, if_true]
    rw [ih ht hK p, yield_cons]
    constructor
    · exact Or.inr
    · rintro (⟨c, hc, q, hw, _, hav, _⟩ | h)
      · simp only [List.mem_singleton] at hc
        subst hc
        exact absurd hmem (hav c (CG.Paths.walk_head_mem hw))
      · exact h
  | case3 vis child cs hlt hmem hany ih1 ih2 =>
    intro ht hK p
    have hct : child ≠ t := by
      intro e
      simp [e, ht] at hany
    have hct' : ¬ child ∈ [t] := by simpa using hct
    rw [enum]
    simp only [hlt, hmem, hany, if_true, if_false, hct', List.nil_append, List.mem_append]
    rw [ih1 (by simp [ht, Ne.symm hct]) (by simp only [List.length_cons]; omega) p, ih2 ht hK p, yield_cons]
    apply or_congr_left
    constructor
    · rintro ⟨c, hc, q, hw, hnd, hav, hlen, rfl⟩
      refine ⟨child, by simp, child :: q, .cons (mem_adj.mp hc) hw, ?_, ?_, ?_, by simp⟩
      · exact List.nodup_cons.mpr ⟨fun h => hav child h List.mem_cons_self, hnd⟩
      · intro x hx
        rcases List.mem_cons.mp hx with rfl | hx
        · exact hmem
        · exact fun h => hav x hx (List.mem_cons_of_mem _ h)
      · simp only [List.length_cons] at hlen ⊢
        omega
    · rintro ⟨c, hc, q, hw, hnd, hav, hlen, rfl⟩
      simp only [List.mem_singleton] at hc
      subst hc
      cases hw with
      | single => exact absurd rfl hct
      | cons hr hw' =>
        rename_i s' q'
        have hnd' := List.nodup_cons.mp hnd
        refine ⟨s', mem_adj.mpr hr, q', hw', hnd'.2, ?_, ?_, by simp⟩
        · intro x hx h
          rcases List.mem_cons.mp h with rfl | h
          · exact hnd'.1 hx
          · exact hav x (List.mem_cons_of_mem _ hx) h
        · simp only [List.length_cons] at hlen ⊢
          omega
  | case4 vis child cs hlt hmem hany ih =>
    intro ht hK p
    have hct : child = t := by
      apply Classical.byContradiction
      intro hne
      apply hany
      simp only [List.any_cons, List.any_nil, Bool.or_false, decide_eq_true_eq, List.mem_cons, not_or]
      exact ⟨fun e => hne e.symm, ht⟩
    subst hct
    rw [enum]
    simp only [hlt, hmem, hany, if_true, if_false, Bool.false_eq_true, List.mem_singleton, List.mem_append]
    rw [ih ht hK p, yield_cons]
    apply or_congr_left
    constructor
    · rintro rfl
      exact ⟨child, by simp, [child], .single _, by simp, by simpa using hmem, by simp; omega, by simp⟩
    · rintro ⟨c, hc, q, hw, hnd, hav, hlen, rfl⟩
      simp only [List.mem_singleton] at hc
      subst hc
      rw [walk_self_nodup hw hnd]
      simp
  | case5 vis child cs hlt =>
    intro ht hK p
    have hKeq : vis.length = K := by omega
    rw [enum]
    simp only [hlt, if_false, List.mem_map, List.mem_filter, List.mem_eraseDups, List.mem_singleton,
      decide_eq_true_eq]
    constructor
    · rintro ⟨t', ⟨hmem, rfl, _⟩, rfl⟩
      exact ⟨t', hmem, [t'], .single _, by simp, by simpa using ht, by simp; omega, by simp⟩
    · rintro ⟨c, hc, q, hw, hnd, hav, hlen, rfl⟩
      obtain ⟨rfl, rfl⟩ := walk_short hw (by omega)
      exact ⟨c, ⟨hc, rfl, ht⟩, by simp⟩

end CG.NxReachPaths
