/-
Helper lemmas for C08Gml: `relabel_nodes` on the graph that is read back, and the composition of the stages.
-/
import CG.Proofs.Lemmas.GmlBuild
import CG.Proofs.Lemmas.GmlView

set_option linter.unusedSimpArgs false

namespace CG.NxGml

/-- the label a node that was read back stands for -/
def atomLabel : Atom → List Char
  | .str l => l
  | .tuple0 => ['(', ')']
  | .int _ => []

theorem atomLabel_labelAtom (l : List Char) : atomLabel (labelAtom l) = l := by
  unfold labelAtom
  by_cases h : l = ['(', ')']
  · simp only [h, if_true]; rfl
  · simp only [h, if_false]; rfl

/-- label node ↦ id node -/
def toId (labels : List (List Char)) (a : Atom) : Atom := idOf labels (atomLabel a)

/-- the nodes of the graph that is read back -/
def labNodes (labels : List (List Char)) : List Atom := labels.map labelAtom

/-- the edges as they were written, as pairs of nodes of the graph that is read back -/
def labEdges (edges : List (List Char × List Char)) : List (Atom × Atom) :=
  edges.map fun e => (labelAtom e.1, labelAtom e.2)

theorem lookup_mappingOf (labels : List (List Char)) (l : List Char) (hl : l ∈ labels) :
    ∀ (L : List (List Char)), (∀ x ∈ L, x ∈ labels) → l ∈ L →
    (mappingOf labels L).lookup (idOf labels l) = some (labelAtom l) := by
  intro L
  induction L with
  | nil => intro _ h; simp at h
  | cons x L ih =>
    intro hsub hin
    simp only [mappingOf, List.map_cons, List.lookup]
    by_cases hx : idOf labels l = idOf labels x
    · have : l = x := idOf_inj hl (hsub x (by simp)) hx
      subst this
      simp
    · have hne : (idOf labels l == idOf labels x) = false := by simp [hx]
      simp only [hne]
      have hlx : l ≠ x := fun e => hx (by rw [e])
      have : l ∈ L := by
        rcases List.mem_cons.mp hin with h | h
        · exact absurd h hlx
        · exact h
      exact ih (fun y hy => hsub y (by simp [hy])) this

theorem mapNode_toId (labels : List (List Char)) (l : List Char) (hl : l ∈ labels) :
    mapNode (mappingOf labels labels) (idOf labels l) = labelAtom l := by
  unfold mapNode
  rw [lookup_mappingOf labels l hl labels (fun _ h => h) hl]
  rfl

theorem toId_injOn (labels : List (List Char)) : InjOn (toId labels) (fun a => a ∈ labNodes labels) := by
  intro a b ha hb h
  obtain ⟨x, hx, rfl⟩ := List.mem_map.mp ha
  obtain ⟨y, hy, rfl⟩ := List.mem_map.mp hb
  unfold toId at h
  rw [atomLabel_labelAtom, atomLabel_labelAtom] at h
  rw [idOf_inj hx hy h]

/-- the two loops and `relabel_nodes` on what the generated text contains -/
theorem buildGraph_gen (d : Bool) (labels : List (List Char)) (edges : List (List Char × List Char))
    (hnd : labels.Nodup) (hm : ['[', ']'] ∉ labels) (hok : EdgesOk d labels edges) :
    buildGraph d (nodeValsFrom 0 labels) (edges.map (edgeVal labels)) =
      .ok ⟨d, labNodes labels, edgesView d (labNodes labels) (edgesView d (labNodes labels) (labEdges edges))⟩ := by
  have hE := buildEdges_all d labels edges hok edges [] rfl
  simp only [List.map_nil] at hE
  unfold buildGraph
  rw [buildNodes_all labels hnd hm]
  simp only [ok_bind, idsOf]
  rw [hE]
  simp only [ok_bind, pure, Except.pure]
  -- the nodes of H
  have hN : (labels.map (idOf labels)).map (mapNode (mappingOf labels labels)) = labNodes labels := by
    rw [List.map_map]
    apply List.map_congr_left
    intro l hl
    exact mapNode_toId labels l hl
  -- G (ids) is the renaming of the label graph
  have hids : labels.map (idOf labels) = (labNodes labels).map (toId labels) := by
    simp only [labNodes, List.map_map]
    apply List.map_congr_left
    intro l _
    simp only [Function.comp, toId, atomLabel_labelAtom]
  have hEid : edges.map (idPair labels) = (labEdges edges).map (mapPair (toId labels)) := by
    simp only [labEdges, List.map_map]
    apply List.map_congr_left
    intro e _
    simp only [Function.comp, mapPair, toId, atomLabel_labelAtom, idPair]
  have hLE : ∀ e ∈ labEdges edges, e.1 ∈ labNodes labels ∧ e.2 ∈ labNodes labels := by
    intro e he
    obtain ⟨x, hx, rfl⟩ := List.mem_map.mp he
    exact ⟨List.mem_map.mpr ⟨_, (hok.mem x hx).1, rfl⟩, List.mem_map.mpr ⟨_, (hok.mem x hx).2, rfl⟩⟩
  have hview : edgesView d (labels.map (idOf labels)) (edges.map (idPair labels)) =
      (edgesView d (labNodes labels) (labEdges edges)).map (mapPair (toId labels)) := by
    rw [hids, hEid]
    exact edgesView_map (toId labels) _ (toId_injOn labels) d _ _ (fun a h => h) hLE
  have hback : ((edgesView d (labNodes labels) (labEdges edges)).map (mapPair (toId labels))).map
      (fun e => (mapNode (mappingOf labels labels) e.1, mapNode (mappingOf labels labels) e.2)) =
      edgesView d (labNodes labels) (labEdges edges) := by
    rw [List.map_map]
    conv => rhs; rw [← List.map_id (edgesView d (labNodes labels) (labEdges edges))]
    apply List.map_congr_left
    intro e he
    have hmem := mem_edgesView he
    have h1 : e.1 ∈ labNodes labels := hmem.1
    have h2 : e.2 ∈ labNodes labels := by
      rcases hmem.2 with h | ⟨_, h⟩
      · exact (hLE e h).2
      · exact (hLE _ h).1
    obtain ⟨x, hx, hxe⟩ := List.mem_map.mp h1
    obtain ⟨y, hy, hye⟩ := List.mem_map.mp h2
    simp only [Function.comp, mapPair, toId, id]
    rw [← hxe, ← hye, atomLabel_labelAtom, atomLabel_labelAtom, mapNode_toId labels x hx, mapNode_toId labels y hy]
    rw [hxe, hye]
  rw [hN, hview, hback]

/-- (M3, all stages) reading back the text that was generated -/
theorem parseText_genText (d : Bool) (labels : List (List Char)) (edges : List (List Char × List Char))
    (hlen : labels.length < 10 ^ maxDigits) (hnd : labels.Nodup) (hm : ['[', ']'] ∉ labels)
    (hok : EdgesOk d labels edges) :
    parseText (genText d labels edges) =
      .ok ⟨d, labNodes labels, edgesView d (labNodes labels) (edgesView d (labNodes labels) (labEdges edges))⟩ := by
  unfold parseText
  rw [splitLines_genText, tokLines_genLines d labels edges hlen, parseGraph_genToks]
  simp only [ok_bind]
  unfold build
  rw [graphParts_graphVal]
  simp only [ok_bind]
  exact buildGraph_gen d labels edges hnd hm hok

/-- a label `[]` makes the text unreadable: `TypeError` (unhashable list as a node label) -/
theorem parseText_genText_listLabel (d : Bool) (labels : List (List Char)) (edges : List (List Char × List Char))
    (hlen : labels.length < 10 ^ maxDigits) (hnd : labels.Nodup) (hm : ['[', ']'] ∈ labels) :
    parseText (genText d labels edges) = .error .TypeError := by
  unfold parseText
  rw [splitLines_genText, tokLines_genLines d labels edges hlen, parseGraph_genToks]
  simp only [ok_bind]
  unfold build
  rw [graphParts_graphVal]
  simp only [ok_bind]
  unfold buildGraph
  rw [buildNodes_listLabel labels hnd hm]
  rfl

end CG.NxGml
