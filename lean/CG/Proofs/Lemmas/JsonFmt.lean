/-
The json round trip for every format `Fmt` of the encoder (CG/Model/PyJson.lean): separators `w1 , w2` and `w3 : w4`
with arbitrary whitespace `w1..w4`, `ensure_ascii` on or off.  The default format is `dumpsL`; the compact format with
sorted keys is `cj` of `harness/impl.py`.
-/
import CG.Proofs.Lemmas.JsonValue

namespace CG.PyJson

/-! ### whitespace -/

def AllWs (ws : List Char) : Prop := ∀ c ∈ ws, isWs c = true

structure Fmt.WF (fmt : Fmt) : Prop where
  h1 : AllWs fmt.w1
  h2 : AllWs fmt.w2
  h3 : AllWs fmt.w3
  h4 : AllWs fmt.w4

theorem allWs_nil : AllWs [] := fun _ h => by simp at h

theorem Fmt.default_wf : Fmt.default.WF :=
  ⟨allWs_nil, by intro c h; simp [Fmt.default] at h; subst h; decide, allWs_nil,
    by intro c h; simp [Fmt.default] at h; subst h; decide⟩

theorem Fmt.compact_wf : Fmt.compact.WF := ⟨allWs_nil, allWs_nil, allWs_nil, allWs_nil⟩

theorem skipWs_allWs_append (ws t : List Char) (h : AllWs ws) : skipWs (ws ++ t) = skipWs t := by
  induction ws with
  | nil => rfl
  | cons c ws ih =>
    simp only [List.cons_append, skipWs, h c List.mem_cons_self, if_true]
    exact ih fun d hd => h d (List.mem_cons_of_mem _ hd)

theorem isWs_noNumCont {c : Char} (hc : isWs c = true) (r : List Char) : NoNumCont (c :: r) := by
  simp only [isWs, Bool.or_eq_true, decide_eq_true_eq] at hc
  rcases hc with ((hc | hc) | hc) | hc <;> subst hc <;> simp only [NoNumCont] <;> decide

/-- whitespace followed by a character that does not continue a number -/
theorem noNumCont_ws_append (ws : List Char) (c : Char) (r : List Char) (h : AllWs ws) (hc : NoNumCont (c :: r)) :
    NoNumCont (ws ++ c :: r) := by
  cases ws with
  | nil => exact hc
  | cons w ws => exact isWs_noNumCont (h w List.mem_cons_self) _

theorem skipWs_keySep (fmt : Fmt) (hwf : fmt.WF) (t : List Char) :
    skipWs (fmt.keySep ++ t) = ':' :: (fmt.w4 ++ t) := by
  simp only [Fmt.keySep, List.append_assoc, List.cons_append]
  rw [skipWs_allWs_append _ _ hwf.h3]
  exact skipWs_cons_of_not _ _ (by decide)

theorem skipWs_itemSep (fmt : Fmt) (hwf : fmt.WF) (t : List Char) :
    skipWs (fmt.itemSep ++ t) = ',' :: (fmt.w2 ++ t) := by
  simp only [Fmt.itemSep, List.append_assoc, List.cons_append]
  rw [skipWs_allWs_append _ _ hwf.h1]
  exact skipWs_cons_of_not _ _ (by decide)

/-! ### strings without `ensure_ascii` -/

theorem scanstr_encodeCharRaw (perm : Bool) (f : Nat) (c : Char) (rest acc : List Char) :
    scanstr perm (f + 1) (encodeCharRaw c ++ rest) acc = scanstr perm f rest (c :: acc) := by
  unfold encodeCharRaw
  split
  · next h => subst h; simp [scanstr, scanEscape, backslash?]
  split
  · next h => subst h; simp [scanstr, scanEscape, backslash?]
  split
  · next h => subst h; simp [scanstr, scanEscape, backslash?]
  split
  · next h => subst h; simp [scanstr, scanEscape, backslash?]
  split
  · next h => subst h; simp [scanstr, scanEscape, backslash?]
  split
  · next h => subst h; simp [scanstr, scanEscape, backslash?]
  split
  · next h => subst h; simp [scanstr, scanEscape, backslash?]
  next h1 h2 h3 h4 h5 h6 h7 =>
  split
  · next hlt =>
    have hs1 : ¬ (55296 ≤ c.toNat ∧ c.toNat ≤ 56319) := by omega
    have hs2 : ¬ (56320 ≤ c.toNat ∧ c.toNat ≤ 57343) := by omega
    simp only [uEsc, List.cons_append, scanstr]
    rw [if_neg (by decide), if_pos (by decide)]
    simp only [scanEscape, if_true, hex4?_hex4 c.toNat (by omega), hs1, hs2, if_false, Char.ofNat_toNat]
  · next hp =>
    have hq : c ≠ '"' := h1
    have hb : c ≠ '\\' := h2
    simp [scanstr, hq, hb, hp]

theorem scanstr_encodeCharF (perm ascii : Bool) (f : Nat) (c : Char) (rest acc : List Char) :
    scanstr perm (f + 1) ((if ascii then encodeChar c else encodeCharRaw c) ++ rest) acc =
      scanstr perm f rest (c :: acc) := by
  cases ascii
  · exact scanstr_encodeCharRaw perm f c rest acc
  · exact scanstr_encodeChar perm f c rest acc

theorem encodeCharRaw_length_pos (c : Char) : 1 ≤ (encodeCharRaw c).length := by
  unfold encodeCharRaw
  repeat' split
  all_goals simp [uEsc, hex4]

theorem length_le_encodeBodyF (ascii : Bool) (s : List Char) : s.length ≤ (encodeBodyF ascii s).length := by
  induction s with
  | nil => simp [encodeBodyF]
  | cons c s ih =>
    have h1 := encodeChar_length_pos c
    have h2 := encodeCharRaw_length_pos c
    simp only [encodeBodyF, List.length_cons, List.length_append]
    cases ascii <;> simp only [Bool.false_eq_true, if_false, if_true] <;> omega

theorem scanstr_encodeBodyF (perm ascii : Bool) (s : List Char) :
    ∀ (f : Nat) (acc rest : List Char), s.length ≤ f →
      scanstr perm (f + 1) (encodeBodyF ascii s ++ '"' :: rest) acc = .ok (acc.reverse ++ s, rest) := by
  induction s with
  | nil =>
    intro f acc rest _
    simp [encodeBodyF, scanstr]
  | cons c s ih =>
    intro f acc rest hf
    obtain ⟨f', rfl⟩ : ∃ f', f = f' + 1 := ⟨f - 1, by simp only [List.length_cons] at hf; omega⟩
    simp only [encodeBodyF, List.append_assoc]
    rw [scanstr_encodeCharF, ih f' (c :: acc) rest (by simp only [List.length_cons] at hf; omega)]
    simp

theorem scanstring_encodeBodyF (perm ascii : Bool) (s rest : List Char) :
    scanstring perm (encodeBodyF ascii s ++ '"' :: rest) = .ok (s, rest) := by
  unfold scanstring
  rw [scanstr_encodeBodyF perm ascii s _ [] rest]
  · simp
  · have := length_le_encodeBodyF ascii s
    simp only [List.length_append, List.length_cons]
    omega

/-! ### one step of each parser, general in the whitespace -/

theorem scanOnce_stringF (perm : Bool) (f : Nat) (fmt : Fmt) (s rest : List Char) :
    scanOnce perm (f + 1) (encodeStringF fmt s ++ rest) = .ok (.str (String.ofList s), rest) := by
  simp only [encodeStringF, List.cons_append, List.append_assoc, List.nil_append, scanOnce, if_true,
    scanstring_encodeBodyF]

theorem arrLoop_lastG (perm : Bool) (f : Nat) (cs r1 r2 : List Char) (v : JVal)
    (h : scanOnce perm f cs = .ok (v, r1)) (hw : skipWs r1 = ']' :: r2) :
    arrLoop perm (f + 1) cs = .ok ([v], r2) := by
  simp only [arrLoop, h, hw, if_true]

theorem arrLoop_moreG (perm : Bool) (f : Nat) (cs r1 r2 r' : List Char) (v : JVal) (vs : List JVal)
    (h : scanOnce perm f cs = .ok (v, r1)) (hw : skipWs r1 = ',' :: r2)
    (h2 : arrLoop perm f (skipWs r2) = .ok (vs, r')) :
    arrLoop perm (f + 1) cs = .ok (v :: vs, r') := by
  simp only [arrLoop, h, hw]
  rw [if_neg (by decide), if_pos trivial, h2]

theorem objLoop_lastG (perm : Bool) (f : Nat) (cs k r1 r2 r3 r4 : List Char) (v : JVal)
    (hk : scanstring perm cs = .ok (k, r1)) (hw1 : skipWs r1 = ':' :: r2)
    (h : scanOnce perm f (skipWs r2) = .ok (v, r3)) (hw2 : skipWs r3 = '}' :: r4) :
    objLoop perm (f + 1) cs = .ok ([(String.ofList k, v)], r4) := by
  simp only [objLoop, hk, hw1, if_true, h, hw2]

theorem objLoop_moreG (perm : Bool) (f : Nat) (cs k r1 r2 r3 r4 r5 r' : List Char) (v : JVal)
    (ps : List (String × JVal))
    (hk : scanstring perm cs = .ok (k, r1)) (hw1 : skipWs r1 = ':' :: r2)
    (h : scanOnce perm f (skipWs r2) = .ok (v, r3)) (hw2 : skipWs r3 = ',' :: r4)
    (hw3 : skipWs r4 = '"' :: r5) (h2 : objLoop perm f r5 = .ok (ps, r')) :
    objLoop perm (f + 1) cs = .ok ((String.ofList k, v) :: ps, r') := by
  simp [objLoop, hk, hw1, h, hw2, hw3, h2]

/-! ### first characters -/

theorem dumpsF_head (fmt : Fmt) (v : JVal) : ∃ c t, dumpsF fmt v = c :: t ∧ ValStart c := by
  have lit : ∀ c : Char, (isWs c = false ∧ c ≠ ']' ∧ c ≠ '}') → ValStart c := fun _ h => h
  match v with
  | .null => exact ⟨'n', _, rfl, lit _ (by decide)⟩
  | .bool true => exact ⟨'t', _, rfl, lit _ (by decide)⟩
  | .bool false => exact ⟨'f', _, rfl, lit _ (by decide)⟩
  | .int i =>
    obtain ⟨c, t, h, hc⟩ := intText_head i
    refine ⟨c, t, by simp [dumpsF, h], ?_⟩
    rcases hc with hc | hc
    · subst hc; exact lit _ (by decide)
    · exact valStart_of_dig hc
  | .str s => exact ⟨'"', _, rfl, lit _ (by decide)⟩
  | .arr [] => exact ⟨'[', _, rfl, lit _ (by decide)⟩
  | .arr (_ :: _) => exact ⟨'[', _, rfl, lit _ (by decide)⟩
  | .obj [] => exact ⟨'{', _, rfl, lit _ (by decide)⟩
  | .obj ((_, _) :: _) => exact ⟨'{', _, rfl, lit _ (by decide)⟩

theorem skipWs_dumpsF (fmt : Fmt) (v : JVal) (t : List Char) : skipWs (dumpsF fmt v ++ t) = dumpsF fmt v ++ t := by
  obtain ⟨c, r, h, hc⟩ := dumpsF_head fmt v
  rw [h, List.cons_append]
  exact skipWs_cons_of_not c _ hc.1

theorem noNumCont_arrTailF (fmt : Fmt) (hwf : fmt.WF) (xs : List JVal) (rest : List Char) :
    NoNumCont (arrTailF fmt xs ++ rest) := by
  cases xs with
  | nil => simp only [arrTailF, List.cons_append, NoNumCont]; decide
  | cons x xs =>
    simp only [arrTailF, Fmt.itemSep, List.append_assoc, List.cons_append]
    exact noNumCont_ws_append _ _ _ hwf.h1 (by simp only [NoNumCont]; decide)

theorem noNumCont_objTailF (fmt : Fmt) (hwf : fmt.WF) (kvs : List (String × JVal)) (rest : List Char) :
    NoNumCont (objTailF fmt kvs ++ rest) := by
  cases kvs with
  | nil => simp only [objTailF, List.cons_append, NoNumCont]; decide
  | cons p kvs =>
    obtain ⟨k, v⟩ := p
    simp only [objTailF, Fmt.itemSep, List.append_assoc, List.cons_append]
    exact noNumCont_ws_append _ _ _ hwf.h1 (by simp only [NoNumCont]; decide)

/-! ### the round trip on texts -/

mutual
theorem scanOnce_dumpsF (perm : Bool) (fmt : Fmt) (hwf : fmt.WF) : (v : JVal) → ∀ (f : Nat) (rest : List Char),
    need v ≤ f → NoNumCont rest → scanOnce perm f (dumpsF fmt v ++ rest) = .ok (dedupLast v, rest)
  | .null, f, rest, hf, _ => by
    obtain ⟨f', rfl⟩ : ∃ f', f = f' + 1 := ⟨f - 1, by simp only [need] at hf; omega⟩
    simp only [dumpsF, List.cons_append, List.nil_append, dedupLast]
    rw [scanOnce_atom perm f' _ _ (by decide) (by decide) (by decide), scanAtom_null]
  | .bool true, f, rest, hf, _ => by
    obtain ⟨f', rfl⟩ : ∃ f', f = f' + 1 := ⟨f - 1, by simp only [need] at hf; omega⟩
    simp only [dumpsF, List.cons_append, List.nil_append, dedupLast]
    rw [scanOnce_atom perm f' _ _ (by decide) (by decide) (by decide), scanAtom_true]
  | .bool false, f, rest, hf, _ => by
    obtain ⟨f', rfl⟩ : ∃ f', f = f' + 1 := ⟨f - 1, by simp only [need] at hf; omega⟩
    simp only [dumpsF, List.cons_append, List.nil_append, dedupLast]
    rw [scanOnce_atom perm f' _ _ (by decide) (by decide) (by decide), scanAtom_false]
  | .int i, f, rest, hf, hr => by
    obtain ⟨f', rfl⟩ : ∃ f', f = f' + 1 := ⟨f - 1, by simp only [need] at hf; omega⟩
    simp only [dumpsF, dedupLast]
    exact scanOnce_int perm f' i rest hr
  | .str s, f, rest, hf, _ => by
    obtain ⟨f', rfl⟩ : ∃ f', f = f' + 1 := ⟨f - 1, by simp only [need] at hf; omega⟩
    simp only [dumpsF, dedupLast]
    rw [scanOnce_stringF, String.ofList_toList]
  | .arr [], f, rest, hf, _ => by
    obtain ⟨f', rfl⟩ : ∃ f', f = f' + 1 := ⟨f - 1, by simp only [need] at hf; omega⟩
    simp only [dumpsF, List.cons_append, List.nil_append, dedupLast, dedupList, scanOnce]
    rw [if_neg (by decide), if_neg (by decide), if_pos trivial, skipWs_cons_of_not ']' rest (by decide)]
    simp only [if_true]
  | .arr (x :: xs), f, rest, hf, _ => by
    obtain ⟨f', rfl⟩ : ∃ f', f = f' + 1 := ⟨f - 1, by simp only [need] at hf; omega⟩
    have hloop := arrLoop_arrTailF perm fmt hwf xs x f' rest (scanOnce_dumpsF perm fmt hwf x)
      (by simp only [need, needL] at hf; omega)
    obtain ⟨c, t, hct, hc⟩ := dumpsF_head fmt x
    simp only [dumpsF, List.cons_append, List.append_assoc, dedupLast, dedupList]
    rw [hct, List.cons_append] at hloop ⊢
    exact scanOnce_array perm f' c _ rest _ hc hloop
  | .obj [], f, rest, hf, _ => by
    obtain ⟨f', rfl⟩ : ∃ f', f = f' + 1 := ⟨f - 1, by simp only [need] at hf; omega⟩
    simp only [dumpsF, List.cons_append, List.nil_append, dedupLast, dedupPairs, scanOnce]
    rw [if_neg (by decide), if_pos trivial, skipWs_cons_of_not '}' rest (by decide)]
    simp only [if_true, mkDict, List.foldl_nil]
  | .obj ((k, v) :: kvs), f, rest, hf, _ => by
    obtain ⟨f', rfl⟩ : ∃ f', f = f' + 1 := ⟨f - 1, by simp only [need] at hf; omega⟩
    have hloop := objLoop_objTailF perm fmt hwf kvs k v f' rest (scanOnce_dumpsF perm fmt hwf v)
      (by simp only [need, needO] at hf; omega)
    simp only [dumpsF, encodeStringF, List.cons_append, List.append_assoc, List.nil_append, dedupLast, dedupPairs]
    exact scanOnce_object perm f' _ rest _ hloop
theorem arrLoop_arrTailF (perm : Bool) (fmt : Fmt) (hwf : fmt.WF) : (xs : List JVal) → ∀ (x : JVal) (f : Nat)
    (rest : List Char),
    (∀ (f' : Nat) (rest' : List Char), need x ≤ f' → NoNumCont rest' →
      scanOnce perm f' (dumpsF fmt x ++ rest') = .ok (dedupLast x, rest')) →
    1 + need x + needL xs ≤ f →
    arrLoop perm f (dumpsF fmt x ++ (arrTailF fmt xs ++ rest)) = .ok (dedupLast x :: dedupList xs, rest)
  | [], x, f, rest, hx, hf => by
    obtain ⟨f', rfl⟩ : ∃ f', f = f' + 1 := ⟨f - 1, by omega⟩
    have h := hx f' (arrTailF fmt [] ++ rest) (by omega) (noNumCont_arrTailF fmt hwf [] rest)
    simp only [dedupList]
    exact arrLoop_lastG perm f' _ _ rest _ h (by simp only [arrTailF, List.cons_append, List.nil_append]
                                                 exact skipWs_cons_of_not _ _ (by decide))
  | y :: ys, x, f, rest, hx, hf => by
    obtain ⟨f', rfl⟩ : ∃ f', f = f' + 1 := ⟨f - 1, by omega⟩
    have h := hx f' (arrTailF fmt (y :: ys) ++ rest) (by omega) (noNumCont_arrTailF fmt hwf (y :: ys) rest)
    have hrec := arrLoop_arrTailF perm fmt hwf ys y f' rest (scanOnce_dumpsF perm fmt hwf y)
      (by simp only [needL] at hf ⊢; omega)
    simp only [dedupList]
    refine arrLoop_moreG perm f' _ _ (fmt.w2 ++ (dumpsF fmt y ++ (arrTailF fmt ys ++ rest))) rest _ _ h ?_ ?_
    · simp only [arrTailF, List.append_assoc]
      exact skipWs_itemSep fmt hwf _
    · rw [skipWs_allWs_append _ _ hwf.h2, skipWs_dumpsF]
      exact hrec
theorem objLoop_objTailF (perm : Bool) (fmt : Fmt) (hwf : fmt.WF) : (kvs : List (String × JVal)) →
    ∀ (k : String) (v : JVal) (f : Nat) (rest : List Char),
    (∀ (f' : Nat) (rest' : List Char), need v ≤ f' → NoNumCont rest' →
      scanOnce perm f' (dumpsF fmt v ++ rest') = .ok (dedupLast v, rest')) →
    1 + need v + needO kvs ≤ f →
    objLoop perm f (encodeBodyF fmt.ascii k.toList ++ ('"' :: (fmt.keySep ++ (dumpsF fmt v ++ (objTailF fmt kvs ++ rest))))) =
      .ok ((k, dedupLast v) :: dedupPairs kvs, rest)
  | [], k, v, f, rest, hv, hf => by
    obtain ⟨f', rfl⟩ : ∃ f', f = f' + 1 := ⟨f - 1, by omega⟩
    have h := hv f' (objTailF fmt [] ++ rest) (by omega) (noNumCont_objTailF fmt hwf [] rest)
    have hk := scanstring_encodeBodyF perm fmt.ascii k.toList
      (fmt.keySep ++ (dumpsF fmt v ++ (objTailF fmt [] ++ rest)))
    have hw1 := skipWs_keySep fmt hwf (dumpsF fmt v ++ (objTailF fmt [] ++ rest))
    have hv' : scanOnce perm f' (skipWs (fmt.w4 ++ (dumpsF fmt v ++ (objTailF fmt [] ++ rest)))) =
        .ok (dedupLast v, objTailF fmt [] ++ rest) := by
      rw [skipWs_allWs_append _ _ hwf.h4, skipWs_dumpsF]; exact h
    have hw2 : skipWs (objTailF fmt [] ++ rest) = '}' :: rest := by
      simp only [objTailF, List.cons_append, List.nil_append]
      exact skipWs_cons_of_not _ _ (by decide)
    have := objLoop_lastG perm f' _ _ _ _ _ _ _ hk hw1 hv' hw2
    rw [String.ofList_toList] at this
    simp only [dedupPairs]
    exact this
  | (k2, v2) :: kvs, k, v, f, rest, hv, hf => by
    obtain ⟨f', rfl⟩ : ∃ f', f = f' + 1 := ⟨f - 1, by omega⟩
    have h := hv f' (objTailF fmt ((k2, v2) :: kvs) ++ rest) (by omega) (noNumCont_objTailF fmt hwf _ rest)
    have hrec := objLoop_objTailF perm fmt hwf kvs k2 v2 f' rest (scanOnce_dumpsF perm fmt hwf v2)
      (by simp only [needO] at hf ⊢; omega)
    have hk := scanstring_encodeBodyF perm fmt.ascii k.toList
      (fmt.keySep ++ (dumpsF fmt v ++ (objTailF fmt ((k2, v2) :: kvs) ++ rest)))
    have hw1 := skipWs_keySep fmt hwf (dumpsF fmt v ++ (objTailF fmt ((k2, v2) :: kvs) ++ rest))
    have hv' : scanOnce perm f' (skipWs (fmt.w4 ++ (dumpsF fmt v ++ (objTailF fmt ((k2, v2) :: kvs) ++ rest)))) =
        .ok (dedupLast v, objTailF fmt ((k2, v2) :: kvs) ++ rest) := by
      rw [skipWs_allWs_append _ _ hwf.h4, skipWs_dumpsF]; exact h
    have hw2 : skipWs (objTailF fmt ((k2, v2) :: kvs) ++ rest) = ',' :: (fmt.w2 ++
        ('"' :: (encodeBodyF fmt.ascii k2.toList ++
          ('"' :: (fmt.keySep ++ (dumpsF fmt v2 ++ (objTailF fmt kvs ++ rest))))))) := by
      have := skipWs_itemSep fmt hwf ('"' :: (encodeBodyF fmt.ascii k2.toList ++
          ('"' :: (fmt.keySep ++ (dumpsF fmt v2 ++ (objTailF fmt kvs ++ rest))))))
      simpa only [objTailF, encodeStringF, List.append_assoc, List.cons_append, List.nil_append] using this
    have hw3 : skipWs (fmt.w2 ++ ('"' :: (encodeBodyF fmt.ascii k2.toList ++
          ('"' :: (fmt.keySep ++ (dumpsF fmt v2 ++ (objTailF fmt kvs ++ rest))))))) =
        '"' :: (encodeBodyF fmt.ascii k2.toList ++
          ('"' :: (fmt.keySep ++ (dumpsF fmt v2 ++ (objTailF fmt kvs ++ rest))))) := by
      rw [skipWs_allWs_append _ _ hwf.h2]
      exact skipWs_cons_of_not _ _ (by decide)
    have := objLoop_moreG perm f' _ _ _ _ _ _ _ _ _ _ hk hw1 hv' hw2 hw3 hrec
    rw [String.ofList_toList] at this
    simp only [dedupPairs]
    exact this
end

/-! ### fuel -/

mutual
theorem need_le_lengthF (fmt : Fmt) : (v : JVal) → need v ≤ 2 * (dumpsF fmt v).length
  | .null => by simp [need, dumpsF]
  | .bool true => by simp [need, dumpsF]
  | .bool false => by simp [need, dumpsF]
  | .int i => by
    obtain ⟨c, t, h, _⟩ := intText_head i
    simp only [need, dumpsF, h, List.length_cons]; omega
  | .str s => by simp only [need, dumpsF, encodeStringF, List.length_cons]; omega
  | .arr [] => by simp [need, needL, dumpsF]
  | .arr (x :: xs) => by
    have h1 := need_le_lengthF fmt x
    have h2 := needL_le_lengthF fmt xs
    simp only [need, needL, dumpsF, List.length_cons, List.length_append]
    omega
  | .obj [] => by simp [need, needO, dumpsF]
  | .obj ((k, v) :: kvs) => by
    have h1 := need_le_lengthF fmt v
    have h2 := needO_le_lengthF fmt kvs
    simp only [need, needO, dumpsF, List.length_cons, List.length_append]
    omega
theorem needL_le_lengthF (fmt : Fmt) : (xs : List JVal) → needL xs ≤ 2 * (arrTailF fmt xs).length
  | [] => by simp [needL]
  | x :: xs => by
    have h1 := need_le_lengthF fmt x
    have h2 := needL_le_lengthF fmt xs
    simp only [needL, arrTailF, Fmt.itemSep, List.length_cons, List.length_append]
    omega
theorem needO_le_lengthF (fmt : Fmt) : (kvs : List (String × JVal)) → needO kvs ≤ 2 * (objTailF fmt kvs).length
  | [] => by simp [needO]
  | (k, v) :: kvs => by
    have h1 := need_le_lengthF fmt v
    have h2 := needO_le_lengthF fmt kvs
    simp only [needO, objTailF, Fmt.itemSep, List.length_cons, List.length_append]
    omega
end

theorem decodeL_dumpsF (perm : Bool) (fmt : Fmt) (hwf : fmt.WF) (v : JVal) :
    decodeL perm (dumpsF fmt v) = .ok (dedupLast v) := by
  have hs : skipWs (dumpsF fmt v) = dumpsF fmt v := by simpa using skipWs_dumpsF fmt v []
  have hscan := scanOnce_dumpsF perm fmt hwf v (2 * (dumpsF fmt v).length + 2) []
    (by have := need_le_lengthF fmt v; omega) trivial
  rw [List.append_nil] at hscan
  simp only [decodeL, hs, hscan]
  rfl

/-! ### the default format is `dumpsL` -/

theorem encodeBodyF_true (s : List Char) : encodeBodyF true s = encodeBody s := by
  induction s with
  | nil => rfl
  | cons c s ih => simp only [encodeBodyF, encodeBody, if_true, ih]

theorem default_ascii : Fmt.default.ascii = true := rfl
theorem default_itemSep : Fmt.default.itemSep = [',', ' '] := rfl
theorem default_keySep : Fmt.default.keySep = [':', ' '] := rfl

mutual
theorem dumpsF_default : (v : JVal) → dumpsF Fmt.default v = dumpsL v
  | .null => rfl
  | .bool true => rfl
  | .bool false => rfl
  | .int _ => rfl
  | .str s => by simp only [dumpsF, dumpsL, encodeStringF, encodeStringL, default_ascii, encodeBodyF_true]
  | .arr [] => rfl
  | .arr (x :: xs) => by simp only [dumpsF, dumpsL, dumpsF_default x, arrTailF_default xs]
  | .obj [] => rfl
  | .obj ((k, v) :: kvs) => by
    simp only [dumpsF, dumpsL, dumpsF_default v, objTailF_default kvs, encodeStringF, encodeStringL,
      default_ascii, default_keySep, encodeBodyF_true, List.nil_append, List.cons_append]
theorem arrTailF_default : (xs : List JVal) → arrTailF Fmt.default xs = arrTail xs
  | [] => rfl
  | x :: xs => by
    simp only [arrTailF, arrTail, dumpsF_default x, arrTailF_default xs, default_itemSep,
      List.nil_append, List.cons_append]
theorem objTailF_default : (kvs : List (String × JVal)) → objTailF Fmt.default kvs = objTail kvs
  | [] => rfl
  | (k, v) :: kvs => by
    simp only [objTailF, objTail, dumpsF_default v, objTailF_default kvs, encodeStringF, encodeStringL,
      default_ascii, default_itemSep, default_keySep, encodeBodyF_true, List.nil_append, List.cons_append]
end

end CG.PyJson
